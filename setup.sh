#!/bin/sh
# Builds the framework from files on disk only (offline): extractor, Lean model + theorems + driver, harness.
set -e
cd "$(dirname "$0")"
export GOFLAGS=-mod=mod GOPROXY=off
mkdir -p .run evidence replays
(cd tools/extract && go build -o ../../.run/extract .)
./.run/extract -repo "${VERIF_REPO:-/repo}" -lean lean/LsModel/Generated.lean -json .run/facts.json
(cd lean && lake build)
cp "${VERIF_REPO:-/repo}/go.sum" harness/go.sum
(cd harness && go build -tags verif -o ../.run/lsharness.setup ./cmd/lsharness)
echo "setup ok"
