#!/usr/bin/env python3
"""summarise a harness result JSON compactly"""
import json, re, sys
r = json.load(open(sys.argv[1]))
skip = sys.argv[2:]  # substrings of FAIL lines to ignore
fs = r.get('findings') or []
print(r['property'], 'seed', r['seed'], 'eval', r['evaluations'], 'wall %.1f' % r['wall_s'], 'findings', len(fs), 'disagreements', len([f for f in fs if f['kind'] == 'disagreement']), r.get('harness_error') or '')
sh = lambda x: re.sub(r'([0-9a-f]{40})[0-9a-f]+', r'\1…', str(x))[:260]
seen = set()
for f in fs:
    key = [i for i in f['impl'] if i.startswith('FAIL')]
    key = (f['kind'], key[0][:40] if key else '')
    if key in seen or any(s in key[1] for s in skip):
        continue
    seen.add(key)
    print(' ', f['kind'], f['class'], key[1])
    n = 0
    for l, i, m in zip(f['lines'], f['impl'], f['model'] or [''] * len(f['lines'])):
        if i != m or l.startswith('env.new'):
            print('    ', sh(l)); print('       I', sh(i)); print('       M', sh(m))
            n += 1
            if n > 6: break
