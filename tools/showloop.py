#!/usr/bin/env python3
"""compact view of a fleet finding: python3 showloop.py result.json <substring of FAIL> [max]"""
import json, re, sys
r = json.load(open(sys.argv[1]))
want = sys.argv[2]
def dec(v):
    if len(v) < 48: return v
    ts = int(v[:16], 16); fl = int(v[34:36], 16); ne = int(v[44:48], 16)
    app = v[48 + 16 * ne:]
    ts = ts - 4000000000000000000 if ts >= 4000000000000000000 else ts
    return "%s%s:%s" % ("D" if fl & 1 else "", ts, app or "-")
def env(s):
    out = []
    for d in s.split('|'):
        p = d.split(':')
        if len(p) < 3: continue
        name = bytes.fromhex(p[0]).decode('latin1')
        ents = [] if p[2] == '-' else p[2].split(';')
        if name.startswith('_sync_shadow_') :
            out.append('S{' + ' '.join(e.split('=')[0] + '=' + dec(e.split('=')[1]) for e in ents) + '}')
        else:
            out.append('A{' + ' '.join((e.split('=')[0] + '=' + (dec(e.split('=')[1]) if len(e.split('=')[1]) >= 48 else e.split('=')[1])) for e in ents) + '}')
    return ' '.join(out)
for f in r['findings']:
    fails = [i for i in f['impl'] if i.startswith('FAIL')]
    if not fails or want not in fails[0]: continue
    print('=====', fails[0])
    for l, i in zip(f['lines'], f['impl']):
        if l.startswith('prop.loop.check') and i == 'ok': continue
        l = re.sub(r'40000000000(\d{8})', lambda m: 'N' + str(int(m.group(1)) // 10000), l)
        if i.startswith('at '):
            m = re.match(r'at (.*?) B(\S*) (.*) T(\d+)$', i)
            b = re.sub(r'40000000000(\d{8})', lambda m: 'N' + str(int(m.group(1)) // 10000), m.group(2))
            print('%-34s -> %-16s T%s B[%s] %s' % (l[:34], m.group(1), m.group(4), b, env(m.group(3))))
        else:
            print('%-60s -> %s' % (re.sub(r'([0-9a-f]{48})', lambda m: dec(m.group(1)), l)[:110], i[:100]))
    break

# disagreement mode: python3 showloop.py result.json --dis
if want == '--dis':
    for f in r['findings']:
        if f['kind'] != 'disagreement': continue
        n = next(i for i, (a, b) in enumerate(zip(f['impl'], f['model'])) if a != b)
        print('===== first difference at line', n, 'of', len(f['lines']))
        for idx, (l, i) in enumerate(zip(f['lines'][:n + 1], f['impl'][:n + 1])):
            if l.startswith('prop.loop.check'): continue
            l = re.sub(r'40000000000(\d{8})', lambda m: 'N' + str(int(m.group(1)) // 10000), l)
            outs = [('I', i)] if idx < n else [('I', i), ('M', f['model'][idx])]
            for tag, o in outs:
                if o.startswith('at '):
                    m = re.match(r'at (.*?) B(\S*) (.*) T(\d+)$', o)
                    b = re.sub(r'40000000000(\d{8})', lambda m: 'N' + str(int(m.group(1)) // 10000), m.group(2))
                    print('%s %-30s -> %-16s T%s B[%s] %s' % (tag, l[:30], m.group(1), m.group(4), b, env(m.group(3))))
                else:
                    print('%s %-60s -> %s' % (tag, re.sub(r'([0-9a-f]{48})', lambda m: dec(m.group(1)), l)[:100], o[:100]))
        break
