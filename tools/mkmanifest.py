#!/usr/bin/env python3
"""Regenerates /verif/MANIFEST.json from the table below (kept in one place so it stays valid)."""
import json, os, subprocess

VERIF = os.path.dirname(os.path.dirname(os.path.abspath(__file__)))

NOTE_COMMON = ("Trusted base: Lean 4.33.0 kernel; axioms propext, Classical.choice, Quot.sound only (audited by #print axioms "
               "on every run; no sorry/native_decide/bv_decide/own axioms); tools/extract (regenerated constants); the Go harness and "
               "lsdriver line protocol (correspondence check); LMDB, csproto varint primitives, gzip, simpleblob, Go runtime and clocks "
               "are modelled, not verified (DESIGN.md section 5).")

# id -> (technique, text, design_ref, extra note)
CLAIMED = {
    "C14": ("Lean 4 proof (round-trip, totality, written-value well-formedness) + differential correspondence of Parse/Skip/PutBasic/Merge/Clean",
            "Theorems in lean/LsProps/C14.lean: PutBasic;Parse round-trip for all ts/txn/flags/values, Parse total with exact error conditions for all byte strings and extension counts 0..65535, Skip = Parse, every value Merge/Clean writes is well-formed and re-parses to what was written (incl. padding block). Model tied to code by regenerated header constants and byte-exact differential streams.",
            "7/C14", ""),
    "C02": ("Lean 4 proof (strict total LWW order; merge = join; never-backwards; untouched bytes) + differential correspondence and permutation oracle on the real iterator",
            "Theorems in lean/LsProps/C02.lean about the byte-level model of NativeIterator.Merge; correspondence stream compares Merge/Clean byte-exactly on exhaustive small scope and random inputs; oracle merges triples in all six orders on the real code.",
            "7/C02", ""),
    "C20": ("Lean 4 proof (decode∘encode = id, legal key length, encodeAll injective/order-preserving or refused) + differential correspondence of the real dupsort hack functions",
            "Theorems in lean/LsProps/C20.lean about the model of dupSortHackEncodeOne/DecodeOne/Encode: exact recovery of every (key,value) pair for keys of 1..255 bytes, shadow key length 6..511, accepted contents map to strictly increasing (hence distinct) shadow keys that decode to the original list, colliding or out-of-range data is refused with an error. Correspondence stream through the guard-tagged wrappers of the real functions incl. values longer than the space left and zero bytes next to the separator; oracle re-decodes every encoded DBI. The mirror-cycle part is covered with C11's transaction model.",
            "7/C20", ""),
    "C12": ("Lean 4 proof over arbitrary cleaner histories (induction over event lists; firstSeen bookkeeping = history observer) + differential correspondence of the real cleaner.Worker on a fault-injecting blob store, with an independent implementation-side oracle",
            "Theorems in lean/LsProps/C12.lean about the model of Worker.RunOnce/SetCommitted (lean/LsModel/Cleaner.lean), for every history, ParseName verdict, interval configuration and fault sequence: only listed names that parse as snapshots (with the prefix) are passed to Delete; nothing first seen in this run or within MustKeepInterval is deleted; the newest snapshot of an instance is deleted only by the stale-instance rule; lastByInstance only holds SetCommitted's arguments; superseded snapshots past the keep window are deleted, at most one such per instance survives a run; a failing List deletes and changes nothing, failing Deletes change no other decision; a disabled / receive-only cleaner lists and deletes nothing. Correspondence: multi-run histories (exhaustive small scope + random) on the real Worker vs the model.",
            "7/C12",
            "C12_newest_protected_partial assumes the clock passed to successive RunOnce calls never goes backwards (true of Run: time.Now() carries a monotonic reading); C12_newest_deleted_when_clock_goes_back is the machine-checked counterexample without it, replayed on the real code (known finding D14). Snapshots of one instance sharing a timestamp are outside the compared range (slices.SortFunc is not stable)."),
    "C19": ("Lean 4 proof (sorted-map algebra; Update = pointwise fold; IterUpdate two-cursor loop = merge-join plan = pointwise spec; unsorted input rejected; EmptyPut) + differential correspondence on real LMDB with a scripted iterator and a map-based reference oracle",
            "26 theorems in lean/LsProps/C19.lean about the model of strategy.Update / IterUpdate(iterBoth) / EmptyPut / setNewVal over an abstract iterator: key order laws incl. unsigned little-endian integer order on 4/8-byte keys, read-after-write algebra, exact equality with the pointwise specification for all stored contents and inputs, rejection of unsorted input, no-op and dirty-bit characterisation. Correspondence: exhaustive small scope and random large scope on real LMDB DBIs (byte and integer keys, 1..512-byte keys, empty values, unsorted/duplicate inputs, failing decisions), content, error class and LMDB's recorded-transaction bit compared.",
            "7/C19",
            "LMDB itself is modelled (sorted map; cursor enumerates the original key sequence; transaction recorded iff a Put / successful Del / Drop happened), validated by the correspondence runs. IterUpdate theorems assume stored keys are valid LMDB keys (1..511 bytes)."),
    "C15": ("Lean 4 proof (round-trip, chronological = lexicographic order, injectivity, last-is-newest, no foreign prefix, parser accepts only well-formed names, sanitiser range) + differential correspondence of NameTimestamp/BuildName/ParseName/instanceID and property oracles on the real code",
            "Theorems in lean/LsProps/C15.lean about the byte-level model of snapshot/name.go and the instance-id sanitiser: ParseName(BuildName(x)) = x for all safe-alphabet components, all extras and all timestamps 0 <= t < 2^63 ns; t1 < t2 iff name(t1) <_bytes name(t2) for fixed database and instance (whatever follows the timestamp), hence the last name of a sorted listing is the newest; a name of database d' never has the prefix d__ of another database; ParseName accepts only >= 4 __-separated fields + registered extension + 25-byte timestamp of an existing date/time and BuildName of the result gives the name back; every byte of a sanitised instance id is in [A-Za-z0-9-] for every input incl. invalid UTF-8. The civil-date conversion is proved invertible and monotone for all days 1970-01-01..2262-04-11 by kernel evaluation of the 106752-row table in 14 chunks lifted by lemmas. Model tied to code by regenerated layout/extension/character-class facts and byte-exact differential streams (boundary and random timestamps, every day of the range in the thorough tier, mutated names, invalid UTF-8). Recorded limit: ParseName also accepts non-canonical timestamp strings (signed fraction), theorem C15_foreign_noncanonical_witness.",
            "7/C15", "time.Format/time.Parse for the one layout, strings.Cut/Split, regexp.ReplaceAllString with utf8 decoding for the one class are modelled by hand and compared against the real library on every run."),
    "C04": ("Lean 4 proof (int64 retention arithmetic with wrap-around and truncated division; LWW lattice corollaries; stale-marker refusal) + differential correspondence of RetentionDurationMinusCutoff and the merge routine",
            "Theorems in lean/LsProps/C04.lean: 0 <= load-cutoff duration <= retention for every non-negative retention and every int64 cut-off setting (zero, negative, larger than the retention); hence for all t_sweep <= t_load a marker the sweeper could remove is below the load cut-off and is refused on an absent key; a deletion at T wins against every older version in either arrival order and stays until a version beating it arrives; at byte level a marker replaces an older stored live version. Correspondence: the real config.Sweeper on boundary and random (retention_days, cut-off) pairs, and the merge stream. 'Markers travel in every snapshot' is C06_complete, 'a missing application key becomes a marker' is C11_capture.",
            "7/C04",
            "RetentionDuration()'s float32 multiplication is outside the model: its int64 result is an input, compared differentially. Negative retention_days is outside the domain. Finding D8 (overflow of retention*3) fixed in /repo."),
    "C07": ("Lean 4 proof (encoder exactness, round trip, valid protobuf, compatibility with the protobuf semantics of the published schema for all re-encodings) + differential correspondence of the hand-written codec and of the generated gogo codec",
            "Theorems in lean/LsProps/C07.lean: the encoder is total and its size computations/buffers are exact on every well-formed snapshot; its bytes are a valid message of snapshot.proto (PbSpec, a declarative proto3 semantics) with the encoded value; every message of the schema describing LMDB content (any field order, repeated scalars, split meta, unknown fields of wire types 0/1/2/5 at all four levels) decodes through Snapshot.Unmarshal + full lazy iteration to the protobuf value, under csproto's stated limits at the two outer levels (finding D13 + witness theorems); round trip as corollary. Model tied to the code by regenerated field numbers and byte-exact/content-exact differential streams (encode, decode, gogo reference, re-encoder); finding D2 fixed.",
            "7/C07", ""),
    "C08": ("Lean 4 proof (decoder total on all byte strings: no out-of-range slice expression, no loop beyond len+1 iterations, decoded size <= input) + differential correspondence on a malformed-input stream and a LoadData oracle with recover/watchdog",
            "Theorems in lean/LsProps/C08.lean about the offset-level model (Go int offsets, bounds-checked slice expressions, uint64->int conversions, loops on fuel): for every byte string < 2^63 bytes decodeAll (Snapshot.Unmarshal + every DBI.Next + KV.Unmarshal) returns a snapshot or an error, each decoder alone likewise, every iteration consumes >= 1 byte, decoded keys+values <= blob size. Correspondence: random bytes, truncations, bit flips, adversarial tag/length varints (2^k±1, >= 2^31, >= 2^63, 10-byte, overlong) at every nesting level, through Unmarshal and through LoadData in a gzip container; finding D3 fixed.",
            "7/C08", "PARTIAL: proof for the protobuf layer; gzip decompression cost, real memory use and process survival are runtime behaviour observed by the harness (per-op recover + watchdog), not proved; the receiver part (corrupt blob ignored from then on, D10) belongs to the C16 receiver model."),
    "C06": ("Lean 4 proof (SendOnce/readDBI = exact image of the dump-time LMDB state) + transaction-level differential correspondence on real LMDB and an oracle that re-derives every stored snapshot from a dump",
            "Theorems in lean/LsProps/C06.lean about the model of SendOnce/readDBI (lean/LsModel/Txn.lean): the snapshot holds exactly one message per non-private DBI of the dump-time state, in name order, with the original DBI's flags, the dupsort transform iff duplicate-keys, and for every stored entry (live, empty, marker) exactly (key, bytes after all extension blocks, header timestamp, flags masked); the header's local transaction id never enters; native mode leaves the LMDB unchanged and the snapshot is a function of one state; returned id = LastTxnID; receive-only dumps nothing. Correspondence: random multi-DBI environments (private DBIs, extension blocks, empty values, markers, integer-key and duplicate-keys DBIs) through the real SendOnce; the stored blob is decoded and compared with an independent dump.",
            "7/C06",
            "PARTIAL: that the real dump happens inside one LMDB transaction with snapshot isolation under a concurrent writer is LMDB's (trusted, exercised only). Known finding D13 (SIGBUS in lmdb-go reading an empty application value at the end of the data file with RawRead)."),
    "C18": ("Lean 4 proof (LoadOnce decision logic: version gates, transform table, create rules, private DBIs skipped, failure at any DBI keeps the environment) + transaction-level differential correspondence with failing loads on real LMDB",
            "Theorems in lean/LsProps/C18.lean about the model of LoadOnce: an error anywhere (k-th DBI, any gate, strategy error) yields no new environment; version gate refused iff fv = 0 or cv > current or fv < compat for all naturals; full decision table of ValidateTransform; private DBIs of a snapshot are ignored; a snapshot without application DBIs is a no-op whatever its versions; create rules (v3+ or override; shadow DBIs get only the allowed mask); v1 empty value = deletion. Correspondence + oracle: random snapshots with failures injected in any DBI (bad transform, versions 0..4, uncreatable DBIs, malformed stored values); byte-exact dump and LastTxnID before/after a failed load must be equal.",
            "7/C18",
            "PARTIAL: atomicity of the abort itself is LMDB's (trusted); the model expresses it by construction (Except). MDB_MAP_FULL and context cancellation are not injected."),
    "C11": ("Lean 4 proof (capture and projection characterised per key through the proved IterUpdate/Update specifications; mirror invariant after every LoadOnce) + transaction-level differential correspondence and a map-based mirror oracle on real LMDB",
            "Theorems in lean/LsProps/C11.lean about mainToShadow / shadowToMain / LoadOnce in non-native mode: per key an unchanged application value leaves the shadow bytes untouched, a changed/new value becomes (detection time, live, value) with a well-formed header, a missing key becomes a marker, markers stay; the projection leaves exactly the non-empty live shadow values in the application DBI and nothing else changes; after every step application DBI = projection of its shadow; an application write survives unless the snapshot holds an entry that wins against (detection time, value); untouched keys keep their bytes; integer-key DBIs inherit MDB_INTEGERKEY (incl. key 0, D6 fixed). Negative witness C11_empty_value_witness = known finding D7.",
            "7/C11",
            "PARTIAL w.r.t. empty application values: known finding D7 (an empty application value is removed from the application DBI by the projection) — theorems carry 'value non-empty'. Known finding D13. The shared monotone clock (detection time above every stored timestamp) is a hypothesis (documented operating assumption)."),
    "C10": ("Lean 4 proof (a merge with nothing newer and no local change returns the identical environment: no LMDB transaction recorded; idempotent re-merge; dupsort rewrite keeps content) + transaction-level and trace-level correspondence with LastTxnID and upload-cause oracles",
            "Theorems in lean/LsProps/C10.lean: C10_noop_txn (native, any padding, any cut-off), C10_noop_txn_shadow (non-native under the mirror invariant), C10_dupsort_rewrites_same_content, C10_merge_idempotent_txn, C10_after_load_nothing_newer. Oracles: re-merge on real LMDB compares byte-exact dump, LastTxnID and the returned id; at trace level (real sync loops single-stepped through yield points) every Store must be preceded by an application commit or be the start-up store.",
            "7/C10",
            "The fleet-level bound on the number of further snapshots is validated at trace level only (no unbounded theorem yet). The forced snapshot interval is disabled in traces."),
    "C13": ("Lean 4 proof (slice soundness/progress/resume, whole pass with arbitrary application commits at slice boundaries: sound and complete for untouched expired markers; only private DBIs in non-native mode) + differential correspondence of the real sweeper on real LMDB with 1000-entry slices and scripted application writes at the slice boundaries",
            "20 theorems in lean/LsProps/C13.lean about the model of Sweeper.sweep + LimitScanner (lean/LsModel/Sweeper.lean): a slice only removes entries that are, in that transaction, markers older than the cut-off and alters nothing else; resume rule correct when the resume entry was kept, deleted or changed; without application writes the result is the filter and independent of the slicing; with arbitrary application commits every untouched expired marker present at the start is gone at the end; non-native mode sweeps only private DBIs; a slice records a transaction iff it removed something.",
            "7/C13",
            "The wall-clock deadline is abstracted to 'a positive slice length' (the real one is a multiple of the scanner's check interval, regenerated constant). Completeness assumes the pass terminates (an application inserting ahead of the cursor forever is excluded). The sweep cut-off is scripted through a guard-tagged hook."),
    "C01": ("Lean 4 proof on the abstract last-writer-wins fleet (convergence, no invention, winner; any number of instances, any schedule, merges of any snapshot) resting on the proved refinement lemmas (merge = join, Update pointwise, snapshot = complete image) + trace-level correspondence of real sync loops on one bucket with a convergence oracle",
            "Theorems in lean/LsProps/C01.lean (C01_converged, C01_content_is_written, C01_winner) about the abstract fleet of lean/LsLemmas/AbsFleet.lean: once every instance has published its state and merged every other newest snapshot all hold identical logical content; that content consists only of written versions and dominates every written version (the LWW maximum), for all n >= 2 and all schedules of writes (equal timestamps across instances, timestamp 0), uploads and merges of any snapshot. The order facts are C02_order_strict_total. Tie to the code: byte-level refinement theorems C02_merge_is_join / C02_fold_is_joinAll, C19_update_pointwise, C06_complete, C11_step, and real sync loops of 1-3 instances single-stepped through guard-tagged yield points, compared with the Lean sync-loop model after every step, followed by a settle phase after which all instances must hold identical logical content (and identical application DBIs in non-native mode).",
            "7/C01",
            "The refinement from the byte-level fleet to the abstract fleet is established lemma by lemma (per transaction) and by the trace correspondence, not as one end-to-end simulation theorem. Non-native mode relies on the shared monotone clock (documented operating assumption). Known findings D7, D9, D13 apply to non-native traces."),
    "C03": ("Lean 4 proof on the sync-loop model (native: every Lightning Stream transaction keeps or supersedes each stored version, for all schedules; non-native: invariant I1 and capture-before-project for all race-free schedules; machine-checked race witness) + trace-level correspondence of real sync loops with application commits at every yield point and a destroyed-write oracle",
            "Theorems in lean/LsProps/C03.lean: C03_native / C03_native_txn (no bookkeeping hypothesis), C03_I1_partial, C03_capture_before_project, C03_write_survives (with C11_app_write_survives) for every schedule that avoids the window 'recorded application commit at the yield point directly after an EMPTY Lightning Stream write transaction'; C03_race_witness proves the full-strength statement false of the model in exactly that window (known finding D9), replayed on the real code through the yield hooks. Oracle: the harness commits application transactions at randomly chosen yield points of real loops and checks after every step that each committed write is still there or was superseded by a newer version.",
            "7/C03",
            "PARTIAL: known finding D9 (race on reused transaction ids) is excluded by hypothesis RaceFree and reported as KNOWN-FINDING when reproduced. LMDB's writer exclusion and transaction-id assignment are assumptions validated by the harness. Writes made while the syncer is down / not yet captured at a crash are stamped in the past by design (documented) and are outside the steady-state claim."),
    "C09": ("Lean 4 proof on the sync-loop model (invariant I2: at the idle point every recorded application transaction made before this iteration's change check is published, for all race-free schedules; retry logic; machine-checked race witnesses) + trace-level correspondence with an idle-point publication oracle and failing stores",
            "Theorems in lean/LsProps/C09.lean: C09_I2_partial, C09_I2_ids, C09_retry (k < budget failing stores end in exactly the dumped blob stored; budget exhausted ends the loop with an error, never 'as if stored'), C09_after_store, C09_startup_guard_dead, C09_race_witness / C09_race_witness_native (known finding D9). Oracle at trace level: whenever a real loop is at its sleep yield point, the newest own snapshot in the bucket must contain every (not superseded) application write committed before that iteration's change check.",
            "7/C09",
            "PARTIAL: known finding D9 excluded by RaceFree. The forced snapshot interval is disabled in model and traces. Exceptions stated in the theorem: receive-only, own instance still in the start-up waiting set, storage retry budget exhausted."),
    "C05": ("Lean 4 proof of the witness invariant on the abstract bucket system (uploads, failed uploads, merges, restarts with kept or emptied LMDB, cleaner deletions of superseded and stale-instance snapshots; any number of instances, any schedule) + sync-loop theorems for the start-up guard + trace-level correspondence with crash/restart and a join-monotonicity oracle",
            "Theorems in lean/LsProps/C05.lean about lean/LsLemmas/AbsBucket.lean: C05_witness_invariant(_ordered): every snapshot ever stored is dominated by the newest alive snapshot of some instance; C05_join_monotone; C05_restart_wiped_witness; C05_no_upload_while_waiting & co; C05_unguarded_send_loses_data (the guard is necessary). lean/LsProps/C05Loop.lean about the sync-loop model: C05_no_upload_before_own (no Store while the own instance is in the waiting set), C05_startup_send_only_if_empty, C05_own_leaves_waiting, C05_retry. The cleaner's side conditions used by the abstract steps are C12_newest_protected_partial / C12_committed_provenance. Oracle at trace level: real loops with crash/restart at yield points (LMDB kept or wiped) and failing stores; after every step the join over the newest decodable snapshot per instance must dominate the previous join.",
            "7/C05",
            "PARTIAL: durability of the blob store and of LMDB across a real process kill is not modelled (restart = new Syncer on the same or a wiped directory). The real cleaner is validated separately (C12), not inside the fleet traces. Application writes monotone per key per instance (the property's own assumption)."),
}

ALL = ["C%02d" % i for i in range(1, 21)]

def main():
    hooks_commits = subprocess.run(["git", "-C", "/repo", "log", "--format=%H %s"], stdout=subprocess.PIPE).stdout.decode().split("\n")
    hook_shas = [l.split()[0] for l in hooks_commits if l and "verif hook" in l]
    checks = []
    for pid in ALL:
        if pid not in CLAIMED:
            continue
        tech, text, ref, extra = CLAIMED[pid]
        checks.append({
            "property_id": pid,
            "quick_cmd": "./check %s --tier quick" % pid,
            "thorough_cmd": "./check %s --tier thorough" % pid,
            "evidence_file": "/verif/evidence/%s.json" % pid,
            "replay_cmd_template": "./check %s --replay {path}" % pid,
            "engine": "lean4-proof+correspondence",
            "level_claimed": {"category": "proof", "text": text, "design_ref": "DESIGN.md section " + ref},
            "level_note": (extra + " " if extra else "") + NOTE_COMMON,
            "technique": tech,
        })
    na = [{"property_id": p, "reason": "not claimed yet: model, theorems and correspondence stream for this property are not built yet in this tree (planned, DESIGN.md section 7); the technique applies"} for p in ALL if p not in CLAIMED]
    m = {
        "version": 1,
        "setup_cmd": "./setup.sh",
        "hooks": {
            "guard": "verif",
            "enable": "go build -tags verif (harness module /verif/harness with `replace github.com/PowerDNS/lightningstream => /repo`)",
            "baseline_off_cmd": "cd /repo && GOFLAGS=-mod=mod GOPROXY=off go test -vet=off -count=1 ./...",
            "source_commits": hook_shas,
            "add_only": True,
        },
        "engines": [{
            "name": "lean4-proof+correspondence",
            "path": "/verif/check",
            "serves_properties": [c["property_id"] for c in checks],
            "kind_free_text": "Lean 4 model (lean/LsModel) + theorems (lean/LsProps) re-checked against facts regenerated from /repo (tools/extract); Go harness (harness/) runs the real code and the compiled model driver (lsdriver) on the same protocol lines and diffs; property oracles evaluated on the implementation",
        }],
        "checks": checks,
        "not_applicable": na,
        "notes": "See DESIGN.md. known_findings.jsonl lists genuine defects recorded or fixed; replays/ holds replay files of reported violations.",
    }
    json.dump(m, open(os.path.join(VERIF, "MANIFEST.json"), "w"), indent=1)
    print("wrote MANIFEST.json with %d checks, %d not claimed" % (len(checks), len(na)))

if __name__ == "__main__":
    main()
