#!/usr/bin/env python3
"""Regenerates /verif/MANIFEST.json from the table below (kept in one place so it stays valid)."""
import json, os, subprocess

VERIF = os.path.dirname(os.path.dirname(os.path.abspath(__file__)))

NOTE_COMMON = ("Trusted base: Lean 4.33.0 kernel; axioms propext, Classical.choice, Quot.sound only (audited by #print axioms "
               "on every run; no sorry/native_decide/bv_decide/own axioms); tools/extract (regenerated constants); the Go harness and "
               "lsdriver line protocol (correspondence check); LMDB, csproto varint primitives, gzip, simpleblob, Go runtime and clocks "
               "are modelled, not verified (DESIGN.md section 5).")

# id -> (technique, text, design_ref, extra note)
CLAIMED = {
    "C14": ("Lean 4 proof (round-trip, totality, written-value well-formedness) + differential correspondence of Parse/Skip/PutBasic/Merge/Clean",
            "Theorems in lean/LsProps/C14.lean: PutBasic;Parse round-trip for all ts/txn/flags/values, Parse total with exact error conditions for all byte strings and extension counts 0..65535, Skip = Parse, every value Merge/Clean writes is well-formed and re-parses to what was written (incl. padding block). Model tied to code by regenerated header constants and byte-exact differential streams.",
            "7/C14", ""),
    "C02": ("Lean 4 proof (strict total LWW order; merge = join; never-backwards; untouched bytes) + differential correspondence and permutation oracle on the real iterator",
            "Theorems in lean/LsProps/C02.lean about the byte-level model of NativeIterator.Merge; correspondence stream compares Merge/Clean byte-exactly on exhaustive small scope and random inputs; oracle merges triples in all six orders on the real code.",
            "7/C02", ""),
    "C20": ("Lean 4 proof (decode∘encode = id, legal key length, encodeAll injective/order-preserving or refused) + differential correspondence of the real dupsort hack functions",
            "Theorems in lean/LsProps/C20.lean about the model of dupSortHackEncodeOne/DecodeOne/Encode: exact recovery of every (key,value) pair for keys of 1..255 bytes, shadow key length 6..511, accepted contents map to strictly increasing (hence distinct) shadow keys that decode to the original list, colliding or out-of-range data is refused with an error. Correspondence stream through the guard-tagged wrappers of the real functions incl. values longer than the space left and zero bytes next to the separator; oracle re-decodes every encoded DBI. The mirror-cycle part is covered with C11's transaction model.",
            "7/C20", ""),
    "C12": ("Lean 4 proof over arbitrary cleaner histories (induction over event lists; firstSeen bookkeeping = history observer) + differential correspondence of the real cleaner.Worker on a fault-injecting blob store, with an independent implementation-side oracle",
            "Theorems in lean/LsProps/C12.lean about the model of Worker.RunOnce/SetCommitted (lean/LsModel/Cleaner.lean), for every history, ParseName verdict, interval configuration and fault sequence: only listed names that parse as snapshots (with the prefix) are passed to Delete; nothing first seen in this run or within MustKeepInterval is deleted; the newest snapshot of an instance is deleted only by the stale-instance rule; lastByInstance only holds SetCommitted's arguments; superseded snapshots past the keep window are deleted, at most one such per instance survives a run; a failing List deletes and changes nothing, failing Deletes change no other decision; a disabled / receive-only cleaner lists and deletes nothing. Correspondence: multi-run histories (exhaustive small scope + random) on the real Worker vs the model.",
            "7/C12",
            "C12_newest_protected_partial assumes the clock passed to successive RunOnce calls never goes backwards (true of Run: time.Now() carries a monotonic reading); C12_newest_deleted_when_clock_goes_back is the machine-checked counterexample without it, replayed on the real code (known finding D14). Snapshots of one instance sharing a timestamp are outside the compared range (slices.SortFunc is not stable)."),
    "C19": ("Lean 4 proof (sorted-map algebra; Update = pointwise fold; IterUpdate two-cursor loop = merge-join plan = pointwise spec; unsorted input rejected; EmptyPut) + differential correspondence on real LMDB with a scripted iterator and a map-based reference oracle",
            "26 theorems in lean/LsProps/C19.lean about the model of strategy.Update / IterUpdate(iterBoth) / EmptyPut / setNewVal over an abstract iterator: key order laws incl. unsigned little-endian integer order on 4/8-byte keys, read-after-write algebra, exact equality with the pointwise specification for all stored contents and inputs, rejection of unsorted input, no-op and dirty-bit characterisation. Correspondence: exhaustive small scope and random large scope on real LMDB DBIs (byte and integer keys, 1..512-byte keys, empty values, unsorted/duplicate inputs, failing decisions), content, error class and LMDB's recorded-transaction bit compared.",
            "7/C19",
            "LMDB itself is modelled (sorted map; cursor enumerates the original key sequence; transaction recorded iff a Put / successful Del / Drop happened), validated by the correspondence runs. IterUpdate theorems assume stored keys are valid LMDB keys (1..511 bytes)."),
    "C15": ("Lean 4 proof (round-trip, chronological = lexicographic order, injectivity, last-is-newest, no foreign prefix, parser accepts only well-formed names, sanitiser range) + differential correspondence of NameTimestamp/BuildName/ParseName/instanceID and property oracles on the real code",
            "Theorems in lean/LsProps/C15.lean about the byte-level model of snapshot/name.go and the instance-id sanitiser: ParseName(BuildName(x)) = x for all safe-alphabet components, all extras and all timestamps 0 <= t < 2^63 ns; t1 < t2 iff name(t1) <_bytes name(t2) for fixed database and instance (whatever follows the timestamp), hence the last name of a sorted listing is the newest; a name of database d' never has the prefix d__ of another database; ParseName accepts only >= 4 __-separated fields + registered extension + 25-byte timestamp of an existing date/time and BuildName of the result gives the name back; every byte of a sanitised instance id is in [A-Za-z0-9-] for every input incl. invalid UTF-8. The civil-date conversion is proved invertible and monotone for all days 1970-01-01..2262-04-11 by kernel evaluation of the 106752-row table in 14 chunks lifted by lemmas. Model tied to code by regenerated layout/extension/character-class facts and byte-exact differential streams (boundary and random timestamps, every day of the range in the thorough tier, mutated names, invalid UTF-8). Recorded limit: ParseName also accepts non-canonical timestamp strings (signed fraction), theorem C15_foreign_noncanonical_witness.",
            "7/C15", "time.Format/time.Parse for the one layout, strings.Cut/Split, regexp.ReplaceAllString with utf8 decoding for the one class are modelled by hand and compared against the real library on every run."),
    "C04": ("Lean 4 proof (int64 retention arithmetic with wrap-around and truncated division; LWW lattice corollaries; stale-marker refusal) + differential correspondence of RetentionDurationMinusCutoff and the merge routine",
            "Theorems in lean/LsProps/C04.lean: 0 <= load-cutoff duration <= retention for every non-negative retention and every int64 cut-off setting (zero, negative, larger than the retention); hence for all t_sweep <= t_load a marker the sweeper could remove is below the load cut-off and is refused on an absent key; a deletion at T wins against every older version in either arrival order and stays until a version beating it arrives; at byte level a marker replaces an older stored live version. Correspondence: the real config.Sweeper on boundary and random (retention_days, cut-off) pairs, and the merge stream. 'Markers travel in every snapshot' is C06_complete, 'a missing application key becomes a marker' is C11_capture.",
            "7/C04",
            "RetentionDuration()'s float32 multiplication is outside the model: its int64 result is an input, compared differentially. Negative retention_days is outside the domain. Finding D8 (overflow of retention*3) fixed in /repo."),
}

ALL = ["C%02d" % i for i in range(1, 21)]

def main():
    hooks_commits = subprocess.run(["git", "-C", "/repo", "log", "--format=%H %s"], stdout=subprocess.PIPE).stdout.decode().split("\n")
    hook_shas = [l.split()[0] for l in hooks_commits if l and "verif hook" in l]
    checks = []
    for pid in ALL:
        if pid not in CLAIMED:
            continue
        tech, text, ref, extra = CLAIMED[pid]
        checks.append({
            "property_id": pid,
            "quick_cmd": "./check %s --tier quick" % pid,
            "thorough_cmd": "./check %s --tier thorough" % pid,
            "evidence_file": "/verif/evidence/%s.json" % pid,
            "replay_cmd_template": "./check %s --replay {path}" % pid,
            "engine": "lean4-proof+correspondence",
            "level_claimed": {"category": "proof", "text": text, "design_ref": "DESIGN.md section " + ref},
            "level_note": (extra + " " if extra else "") + NOTE_COMMON,
            "technique": tech,
        })
    na = [{"property_id": p, "reason": "not claimed yet: model, theorems and correspondence stream for this property are not built yet in this tree (planned, DESIGN.md section 7); the technique applies"} for p in ALL if p not in CLAIMED]
    m = {
        "version": 1,
        "setup_cmd": "./setup.sh",
        "hooks": {
            "guard": "verif",
            "enable": "go build -tags verif (harness module /verif/harness with `replace github.com/PowerDNS/lightningstream => /repo`)",
            "baseline_off_cmd": "cd /repo && GOFLAGS=-mod=mod GOPROXY=off go test -vet=off -count=1 ./...",
            "source_commits": hook_shas,
            "add_only": True,
        },
        "engines": [{
            "name": "lean4-proof+correspondence",
            "path": "/verif/check",
            "serves_properties": [c["property_id"] for c in checks],
            "kind_free_text": "Lean 4 model (lean/LsModel) + theorems (lean/LsProps) re-checked against facts regenerated from /repo (tools/extract); Go harness (harness/) runs the real code and the compiled model driver (lsdriver) on the same protocol lines and diffs; property oracles evaluated on the implementation",
        }],
        "checks": checks,
        "not_applicable": na,
        "notes": "See DESIGN.md. known_findings.jsonl lists genuine defects recorded or fixed; replays/ holds replay files of reported violations.",
    }
    json.dump(m, open(os.path.join(VERIF, "MANIFEST.json"), "w"), indent=1)
    print("wrote MANIFEST.json with %d checks, %d not claimed" % (len(checks), len(na)))

if __name__ == "__main__":
    main()
