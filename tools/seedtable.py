#!/usr/bin/env python3
"""Writes seeded/README.md from the seeded/*/meta.json records (run after tools/seedeval.py)."""
import json, glob, os, re
rows = []
for f in sorted(glob.glob("/verif/seeded/*/meta.json")):
    d = json.load(open(f))
    name = os.path.basename(os.path.dirname(f))
    best = None
    for k, v in d.get("checks", {}).items():
        if not isinstance(v, dict):
            continue
        viol = [l for l in v.get("lines", []) if l.startswith("VIOLATION")]
        if viol:
            kind = "failing input (replay)" if not any("no-failing-input-found" in l for l in viol) else "correspondence only (no-failing-input-found)"
            best = (k, v.get("tier"), v.get("wall"), kind)
            break
    summ = re.sub(r"\s+", " ", d.get("summary") or "")[:230]
    if best:
        res = "%s, %s tier, %.0f s: %s" % best
    else:
        res = "**missed**" if d.get("confirmed") else "not confirmed"
    rows.append("| %s | %s | %s | %s |" % (name, d.get("property"), summ.replace("|", "/"), res))
out = """# Seeded changes

Breaking changes written by independent sub-agents (each saw only the text of one property and a
scratch worktree of the repository, nothing of /verif), each compiling, passing the 164 tests and
coming with a demonstration (`*_test.go` in the directory) that fails with the change and passes
without. `tools/seedeval.py` confirms a change in a fresh worktree, applies `patch.diff` to /repo,
runs the property's check (quick, then thorough if quick passes), reverts, and writes `meta.json`.
The table shows the state with the checks as committed; what had to be strengthened for changes
that were first missed is recorded in DESIGN.md section 11.

| seed | property | change | detected by |
|---|---|---|---|
""" + "\n".join(rows) + "\n"
open("/verif/seeded/README.md", "w").write(out)
print(len(rows), "rows")
