#!/usr/bin/env python3
"""seedeval.py <seed dir (/tmp/seedout/CXX)> <seed name> [props to run, default: the seed's property]
Confirms a seeded breaking change in a scratch worktree (compiles, suite passes, demo fails with /
passes without), then applies it to /repo, runs the checks, reverts, and stores everything under
/verif/seeded/<name>/ ."""
import json, os, shutil, subprocess, sys, time

ENV = dict(os.environ, GOFLAGS="-mod=mod", GOPROXY="off")

def sh(cmd, cwd=None, timeout=1800):
    p = subprocess.run(cmd, shell=True, cwd=cwd, env=ENV, stdout=subprocess.PIPE, stderr=subprocess.STDOUT, timeout=timeout)
    return p.returncode, p.stdout.decode("utf-8", "replace")

def main():
    recheck = "--recheck" in sys.argv
    if recheck:
        sys.argv.remove("--recheck")
    src, name = sys.argv[1], sys.argv[2]
    meta = json.load(open(os.path.join(src, "meta.json")))
    prop = meta["property"]
    props = sys.argv[3:] or [prop]
    wt = "/tmp/sv_" + name
    if recheck:
        # the change was confirmed before (meta.json in /verif/seeded/<name>): only re-run the checks
        old = json.load(open(os.path.join("/verif/seeded", name, "meta.json")))
        res = {k: old[k] for k in ("property", "summary", "needs", "ran", "confirmed") if k in old}
        return run_checks(src, name, meta, props, res)
    sh("git -C /repo worktree remove --force %s" % wt)
    rc, out = sh("git -C /repo worktree add -q %s HEAD" % wt)
    assert rc == 0, out
    res = {"property": prop, "summary": meta.get("summary"), "needs": meta.get("needs"), "ran": {}}
    try:
        demo_files = [f for f in os.listdir(src) if f.endswith(".go")]
        demo_path = meta.get("demo_path")
        dst_dir = os.path.join(wt, os.path.dirname(demo_path))
        for f in demo_files:
            tgt = os.path.join(dst_dir, os.path.basename(demo_path) if len(demo_files) == 1 else f)
            shutil.copy(os.path.join(src, f), tgt)
        cmd = meta["demo_cmd"]
        rc0, out0 = sh(cmd, cwd=wt)
        res["ran"]["demo_without_patch"] = {"cmd": cmd, "rc": rc0, "tail": out0[-400:]}
        rca, outa = sh("git apply %s" % os.path.join(src, "patch.diff"), cwd=wt)
        res["ran"]["apply"] = {"rc": rca, "out": outa[-300:]}
        rcb, outb = sh("go build ./... && go build -tags verif ./...", cwd=wt)
        res["ran"]["build"] = {"rc": rcb, "tail": outb[-300:]}
        # move the demo out of the way for the suite run
        rcs, outs = sh("go test -vet=off -count=1 ./... 2>&1 | grep -v 'no test files' | grep -v '^ok' | grep -iv seed | head -5; go test -vet=off -count=1 -skip 'Seed' ./... > /tmp/suite_%s.log 2>&1; echo suite_rc=$?" % name, cwd=wt)
        res["ran"]["suite_with_patch"] = {"out": outs[-300:]}
        rc1, out1 = sh(cmd, cwd=wt)
        res["ran"]["demo_with_patch"] = {"rc": rc1, "tail": out1[-400:]}
        res["confirmed"] = (rc0 == 0 and rca == 0 and rcb == 0 and "suite_rc=0" in outs and rc1 != 0)
    finally:
        sh("git -C /repo worktree remove --force %s" % wt)
    return run_checks(src, name, meta, props, res)


def run_checks(src, name, meta, props, res):
    # run the checks against /repo with the patch applied
    dirty = sh("git -C /repo status --porcelain")[1].strip()
    assert dirty == "", "repo not clean: " + dirty
    rc, out = sh("git -C /repo apply %s" % os.path.join(src, "patch.diff"))
    res["checks"] = {}
    if rc != 0:
        res["checks"]["apply_to_repo"] = out
    else:
        try:
            for p in props:
                t0 = time.time()
                rcq, outq = sh("./check %s --tier quick" % p, cwd="/verif", timeout=3600)
                lines = [l for l in outq.split("\n") if l.startswith(("VIOLATION", "OK", "KNOWN", "no longer"))]
                res["checks"][p] = {"tier": "quick", "rc": rcq, "lines": lines[:6], "wall": round(time.time() - t0, 1)}
                if rcq == 0:
                    t0 = time.time()
                    rct, outt = sh("./check %s --tier thorough" % p, cwd="/verif", timeout=3 * 3600)
                    lines = [l for l in outt.split("\n") if l.startswith(("VIOLATION", "OK", "KNOWN", "no longer"))]
                    res["checks"][p + "/thorough"] = {"tier": "thorough", "rc": rct, "lines": lines[:6], "wall": round(time.time() - t0, 1)}
        finally:
            sh("git -C /repo checkout -- . && git -C /repo clean -fd")
    dst = os.path.join("/verif/seeded", name)
    os.makedirs(dst, exist_ok=True)
    shutil.copy(os.path.join(src, "patch.diff"), dst)
    for f in os.listdir(src):
        if f.endswith(".go"):
            shutil.copy(os.path.join(src, f), dst)
    res["demo_path"] = meta.get("demo_path"); res["demo_cmd"] = meta.get("demo_cmd")
    res["detected"] = any(v.get("rc") == 1 and any(l.startswith("VIOLATION") for l in v.get("lines", [])) for v in res["checks"].values() if isinstance(v, dict))
    json.dump(res, open(os.path.join(dst, "meta.json"), "w"), indent=1)
    print(json.dumps({k: res[k] for k in ("property", "confirmed", "detected")}), {k: (v.get("rc"), v.get("lines", [])[:2]) for k, v in res["checks"].items() if isinstance(v, dict)})

if __name__ == "__main__":
    main()
