package main

import (
	"bytes"
	"fmt"
)

// lockTable is filled in by locks_impl.go once the C17 model exists; until then it emits an
// empty table so that Generated.lean has a stable shape.
func lockTable(out *bytes.Buffer, facts map[string]any, errs *[]string) {
	rows := lockRows(errs)
	out.WriteString("\n/-- (package, type, field, function, access, mutex held?) for every access to a mutex-guarded field -/\n")
	out.WriteString("def lockTable : List (String × String × String × String × String × Bool) := [\n")
	for i, r := range rows {
		sep := ","
		if i == len(rows)-1 {
			sep = ""
		}
		fmt.Fprintf(out, "  (%s, %s, %s, %s, %s, %v)%s\n", leanStr(r.pkg), leanStr(r.typ), leanStr(r.field), leanStr(r.fn), leanStr(r.access), r.held, sep)
	}
	out.WriteString("]\n")
	facts["lockTableRows"] = len(rows)
}

type lockRow struct {
	pkg, typ, field, fn, access string
	held                        bool
}
