// extract reads PowerDNS/lightningstream's Go sources (go/ast only, no type checking, no
// imports outside the standard library) and writes the facts the Lean model depends on:
//
//   - constants and small tables            -> LsModel/Generated.lean
//   - AST fingerprints of modelled functions -> facts.json (informational only)
//   - lock-region table for C17              -> LsModel/Generated.lean (lockTable)
//
// Usage: extract -repo /repo -lean out/Generated.lean -json out/facts.json
package main

import (
	"bytes"
	"crypto/sha256"
	"encoding/hex"
	"encoding/json"
	"flag"
	"fmt"
	"go/ast"
	"go/constant"
	"go/parser"
	"go/printer"
	"go/token"
	"os"
	"path/filepath"
	"sort"
	"strconv"
	"strings"
)

const modPath = "github.com/PowerDNS/lightningstream/"

type pkg struct {
	dir   string
	fset  *token.FileSet
	files map[string]*ast.File
}

var pkgs = map[string]*pkg{}
var repo string

func loadPkg(dir string) (*pkg, error) {
	if p, ok := pkgs[dir]; ok {
		return p, nil
	}
	fset := token.NewFileSet()
	p := &pkg{dir: dir, fset: fset, files: map[string]*ast.File{}}
	ents, err := os.ReadDir(filepath.Join(repo, dir))
	if err != nil {
		return nil, err
	}
	for _, e := range ents {
		n := e.Name()
		if e.IsDir() || !strings.HasSuffix(n, ".go") || strings.HasSuffix(n, "_test.go") || strings.HasPrefix(n, "verif_") {
			continue
		}
		f, err := parser.ParseFile(fset, filepath.Join(repo, dir, n), nil, parser.ParseComments)
		if err != nil {
			return nil, err
		}
		p.files[n] = f
	}
	pkgs[dir] = p
	return p, nil
}

// externals: constants of third-party packages the model trusts (LMDB's C ABI).
var externals = map[string]constant.Value{
	"lmdb.DupSort":    constant.MakeInt64(0x04),
	"lmdb.IntegerKey": constant.MakeInt64(0x08),
	"lmdb.Create":     constant.MakeInt64(0x40000),
	"time.Hour":       constant.MakeInt64(3600_000_000_000),
	"time.Minute":     constant.MakeInt64(60_000_000_000),
	"time.Second":     constant.MakeInt64(1_000_000_000),
}

func findConst(p *pkg, name string) (ast.Expr, *ast.File, error) {
	for _, f := range p.files {
		for _, d := range f.Decls {
			gd, ok := d.(*ast.GenDecl)
			if !ok || (gd.Tok != token.CONST && gd.Tok != token.VAR) {
				continue
			}
			for _, s := range gd.Specs {
				vs := s.(*ast.ValueSpec)
				for i, n := range vs.Names {
					if n.Name == name {
						if i < len(vs.Values) {
							return vs.Values[i], f, nil
						}
						return nil, nil, fmt.Errorf("%s/%s has no explicit value", p.dir, name)
					}
				}
			}
		}
	}
	return nil, nil, fmt.Errorf("constant %s not found in %s", name, p.dir)
}

func importDir(f *ast.File, alias string) (string, bool) {
	for _, im := range f.Imports {
		path, _ := strconv.Unquote(im.Path.Value)
		name := filepath.Base(path)
		if im.Name != nil {
			name = im.Name.Name
		}
		if name == alias && strings.HasPrefix(path, modPath) {
			return strings.TrimPrefix(path, modPath), true
		}
	}
	return "", false
}

func eval(p *pkg, f *ast.File, e ast.Expr) (constant.Value, error) {
	switch x := e.(type) {
	case *ast.BasicLit:
		v := constant.MakeFromLiteral(x.Value, x.Kind, 0)
		if v.Kind() == constant.Unknown {
			return nil, fmt.Errorf("bad literal %s", x.Value)
		}
		return v, nil
	case *ast.ParenExpr:
		return eval(p, f, x.X)
	case *ast.Ident:
		ex, ff, err := findConst(p, x.Name)
		if err != nil {
			return nil, err
		}
		return eval(p, ff, ex)
	case *ast.SelectorExpr:
		id, ok := x.X.(*ast.Ident)
		if !ok {
			return nil, fmt.Errorf("unsupported selector")
		}
		if dir, ok := importDir(f, id.Name); ok {
			q, err := loadPkg(dir)
			if err != nil {
				return nil, err
			}
			ex, ff, err := findConst(q, x.Sel.Name)
			if err != nil {
				return nil, err
			}
			return eval(q, ff, ex)
		}
		if v, ok := externals[id.Name+"."+x.Sel.Name]; ok {
			return v, nil
		}
		return nil, fmt.Errorf("unknown external constant %s.%s", id.Name, x.Sel.Name)
	case *ast.CallExpr: // type conversion T(x) or regexp.MustCompile("...")
		if len(x.Args) == 1 {
			return eval(p, f, x.Args[0])
		}
		return nil, fmt.Errorf("unsupported call")
	case *ast.BinaryExpr:
		a, err := eval(p, f, x.X)
		if err != nil {
			return nil, err
		}
		b, err := eval(p, f, x.Y)
		if err != nil {
			return nil, err
		}
		switch x.Op {
		case token.SHL, token.SHR:
			s, _ := constant.Uint64Val(b)
			return constant.Shift(a, x.Op, uint(s)), nil
		case token.QUO:
			if a.Kind() == constant.Int && b.Kind() == constant.Int {
				return constant.BinaryOp(a, token.QUO_ASSIGN, b), nil
			}
		}
		return constant.BinaryOp(a, x.Op, b), nil
	}
	return nil, fmt.Errorf("unsupported expression %T", e)
}

type spec struct {
	dir, name, lean string
}

var specs = []spec{
	{"lmdbenv/header", "MinHeaderSize", "minHeaderSize"},
	{"lmdbenv/header", "PreAllocSize", "preAllocSize"},
	{"lmdbenv/header", "BlockSize", "blockSize"},
	{"lmdbenv/header", "VersionOffset", "versionOffset"},
	{"lmdbenv/header", "FlagsOffset", "flagsOffset"},
	{"lmdbenv/header", "NumExtraOffsetHigh", "numExtraOffsetHigh"},
	{"lmdbenv/header", "NumExtraOffsetLow", "numExtraOffsetLow"},
	{"lmdbenv/header", "reserved1Offset", "reserved1Offset"},
	{"lmdbenv/header", "reserved2Offset", "reserved2Offset"},
	{"lmdbenv/header", "reserved3Offset", "reserved3Offset"},
	{"lmdbenv/header", "reserved4Offset", "reserved4Offset"},
	{"lmdbenv/header", "FlagDeleted", "flagDeleted"},
	{"lmdbenv/header", "FlagSyncMask", "flagSyncMask"},
	{"snapshot", "FieldKVKey", "fieldKVKey"},
	{"snapshot", "FieldKVValue", "fieldKVValue"},
	{"snapshot", "FieldKVTimestampNano", "fieldKVTimestampNano"},
	{"snapshot", "FieldKVFlags", "fieldKVFlags"},
	{"snapshot", "FieldDBIName", "fieldDBIName"},
	{"snapshot", "FieldDBIEntries", "fieldDBIEntries"},
	{"snapshot", "FieldDBIFlags", "fieldDBIFlags"},
	{"snapshot", "FieldDBITransform", "fieldDBITransform"},
	{"snapshot", "TagSize0To15", "tagSize0To15"},
	{"snapshot", "FieldSnapshotFormatVersion", "fieldSnapshotFormatVersion"},
	{"snapshot", "FieldSnapshotMeta", "fieldSnapshotMeta"},
	{"snapshot", "FieldSnapshotDBI", "fieldSnapshotDBI"},
	{"snapshot", "FieldSnapshotCompatVersion", "fieldSnapshotCompatVersion"},
	{"snapshot", "FieldMetaGenerationID", "fieldMetaGenerationID"},
	{"snapshot", "FieldMetaInstanceID", "fieldMetaInstanceID"},
	{"snapshot", "FieldMetaHostname", "fieldMetaHostname"},
	{"snapshot", "FieldMetaLMDBTxnID", "fieldMetaLMDBTxnID"},
	{"snapshot", "FieldMetaTimestampNano", "fieldMetaTimestampNano"},
	{"snapshot", "FieldMetaDatabaseName", "fieldMetaDatabaseName"},
	{"snapshot", "FieldMetaFromLMDBTxnID", "fieldMetaFromLMDBTxnID"},
	{"snapshot", "CurrentFormatVersion", "currentFormatVersion"},
	{"snapshot", "CompatFormatVersion", "compatFormatVersion"},
	{"snapshot", "WriteCompatFormatVersion", "writeCompatFormatVersion"},
	{"snapshot", "TransformDupSortHackV1", "transformDupSortHackV1"},
	{"snapshot", "TransformNone", "transformNone"},
	{"snapshot", "timeFormat", "timeFormat"},
	{"snapshot", "dotIndex", "dotIndex"},
	{"snapshot", "DefaultExtension", "defaultExtension"},
	{"snapshot", "KindSnapshot", "kindSnapshot"},
	{"snapshot", "MB", "mb"},
	{"syncer", "SyncDBIPrefix", "syncDBIPrefix"},
	{"syncer", "SyncDBIShadowPrefix", "syncDBIShadowPrefix"},
	{"syncer", "AllowedShadowDBIFlagsMask", "allowedShadowDBIFlagsMask"},
	{"syncer", "LMDBMaxKeySize", "lmdbMaxKeySize"},
	{"syncer", "DupSortHackMaxKeySize", "dupSortHackMaxKeySize"},
	{"syncer", "MaxConsecutiveSnapshotLoads", "maxConsecutiveSnapshotLoads"},
	{"syncer", "reUnsafe", "reUnsafe"},
	{"syncer/sweeper", "SyncDBIPrefix", "sweeperSyncDBIPrefix"},
	{"lmdbenv/strategy", "LMDBMaxKeySize", "strategyMaxKeySize"},
	{"lmdbenv/strategy", "LMDBIntegerKeyFlag", "lmdbIntegerKeyFlag"},
	{"lmdbenv/limitscanner", "LimitDurationCheckEveryDefault", "limitDurationCheckEveryDefault"},
	{"lmdbenv/dbiflags", "DupSort", "dbiDupSort"},
	{"lmdbenv/dbiflags", "IntegerKey", "dbiIntegerKey"},
	{"config", "DefaultStorageRetryCount", "defaultStorageRetryCount"},
}

// funcs whose AST fingerprint is recorded (informational; never fails a check)
var fingerprints = []struct{ dir, recv, name string }{
	{"lmdbenv/header", "", "Parse"}, {"lmdbenv/header", "", "Skip"}, {"lmdbenv/header", "", "PutBasic"},
	{"syncer", "NativeIterator", "Merge"}, {"syncer", "NativeIterator", "Clean"}, {"syncer", "NativeIterator", "addHeader"},
	{"syncer", "PlainIterator", "Merge"}, {"syncer", "PlainIterator", "Clean"},
	{"syncer", "", "NewNativeIterator"},
	{"lmdbenv/strategy", "", "Update"}, {"lmdbenv/strategy", "", "IterUpdate"}, {"lmdbenv/strategy", "", "EmptyPut"},
	{"lmdbenv/strategy", "", "iterBoth"}, {"lmdbenv/strategy", "", "setNewVal"}, {"lmdbenv/strategy", "", "doPut"},
	{"lmdbenv/strategy", "", "cmpIntegerLittleEndian"}, {"lmdbenv/strategy", "", "bytesToInt"},
	{"snapshot", "KV", "Unmarshal"}, {"snapshot", "DBI", "Next"}, {"snapshot", "DBI", "indexData"}, {"snapshot", "DBI", "Append"},
	{"snapshot", "DBI", "doFlushFields"}, {"snapshot", "Snapshot", "Unmarshal"}, {"snapshot", "Snapshot", "WriteTo"},
	{"snapshot", "Meta", "Marshal"}, {"snapshot", "Meta", "Unmarshal"}, {"snapshot", "", "skipTag"},
	{"snapshot", "", "ParseName"}, {"snapshot", "NameInfo", "BuildName"}, {"snapshot", "", "NameTimestamp"},
	{"snapshot", "DBI", "ValidateTransform"},
	{"syncer", "", "dupSortHackEncodeOne"}, {"syncer", "", "dupSortHackDecodeOne"}, {"syncer", "", "dupSortHackEncode"},
	{"syncer", "Syncer", "LoadOnce"}, {"syncer", "Syncer", "SendOnce"}, {"syncer", "Syncer", "syncLoop"},
	{"syncer", "Syncer", "mainToShadow"}, {"syncer", "Syncer", "shadowToMain"}, {"syncer", "Syncer", "readDBI"},
	{"syncer", "Syncer", "deletedCutoff"},
	{"syncer/cleaner", "Worker", "RunOnce"}, {"syncer/cleaner", "Worker", "SetCommitted"},
	{"syncer/sweeper", "Sweeper", "sweep"}, {"lmdbenv/limitscanner", "LimitScanner", "Scan"},
	{"syncer/receiver", "Receiver", "RunOnce"}, {"syncer/receiver", "Receiver", "Next"},
	{"syncer/receiver", "Downloader", "Run"}, {"syncer/receiver", "Downloader", "LoadOnce"},
	{"utils/climit", "Token", "Release"}, {"utils/topics", "Topic", "Publish"}, {"utils/topics", "Subscription", "Close"},
	{"snapshot/storage", "", "GetGlobal"}, {"snapshot/storage", "", "SetGlobal"},
	{"config", "Sweeper", "RetentionDurationMinusCutoff"},
}

func recvName(fd *ast.FuncDecl) string {
	if fd.Recv == nil || len(fd.Recv.List) == 0 {
		return ""
	}
	t := fd.Recv.List[0].Type
	for {
		switch x := t.(type) {
		case *ast.StarExpr:
			t = x.X
			continue
		case *ast.IndexExpr:
			t = x.X
			continue
		case *ast.Ident:
			return x.Name
		}
		return ""
	}
}

func leanStr(s string) string {
	var b strings.Builder
	b.WriteByte('"')
	for _, c := range []byte(s) {
		switch {
		case c == '"' || c == '\\':
			b.WriteByte('\\')
			b.WriteByte(c)
		case c >= 32 && c < 127:
			b.WriteByte(c)
		default:
			fmt.Fprintf(&b, "\\x%02x", c)
		}
	}
	b.WriteByte('"')
	return b.String()
}

func main() {
	leanOut := flag.String("lean", "", "Generated.lean path")
	jsonOut := flag.String("json", "", "facts.json path")
	flag.StringVar(&repo, "repo", "/repo", "repository root")
	flag.Parse()

	var out bytes.Buffer
	facts := map[string]any{}
	var errs []string
	out.WriteString("/- GENERATED by /verif/tools/extract from /repo's current sources. Do not edit. -/\n")
	out.WriteString("namespace Ls.Gen\n\n")
	consts := map[string]string{}
	for _, s := range specs {
		p, err := loadPkg(s.dir)
		if err != nil {
			errs = append(errs, err.Error())
			continue
		}
		ex, f, err := findConst(p, s.name)
		if err != nil {
			errs = append(errs, err.Error())
			continue
		}
		v, err := eval(p, f, ex)
		if err != nil {
			errs = append(errs, fmt.Sprintf("%s.%s: %v", s.dir, s.name, err))
			continue
		}
		switch v.Kind() {
		case constant.Int:
			fmt.Fprintf(&out, "def %s : Nat := %s\n", s.lean, v.ExactString())
			consts[s.dir+"."+s.name] = v.ExactString()
		case constant.String:
			fmt.Fprintf(&out, "def %s : String := %s\n", s.lean, leanStr(constant.StringVal(v)))
			consts[s.dir+"."+s.name] = constant.StringVal(v)
		default:
			errs = append(errs, fmt.Sprintf("%s.%s: unsupported kind", s.dir, s.name))
		}
	}
	facts["constants"] = consts

	// registered snapshot extensions: RegisterExtension(ext, kind) calls in package snapshot
	if p, err := loadPkg("snapshot"); err == nil {
		var pairs [][2]string
		for _, f := range p.files {
			ast.Inspect(f, func(n ast.Node) bool {
				ce, ok := n.(*ast.CallExpr)
				if !ok || len(ce.Args) != 2 {
					return true
				}
				id, ok := ce.Fun.(*ast.Ident)
				if !ok || id.Name != "RegisterExtension" {
					return true
				}
				a, e1 := eval(p, f, ce.Args[0])
				b, e2 := eval(p, f, ce.Args[1])
				if e1 == nil && e2 == nil && a.Kind() == constant.String && b.Kind() == constant.String {
					pairs = append(pairs, [2]string{constant.StringVal(a), constant.StringVal(b)})
				}
				return true
			})
		}
		sort.Slice(pairs, func(i, j int) bool { return pairs[i][0] < pairs[j][0] })
		out.WriteString("def registeredExtensions : List (String × String) := [")
		for i, pr := range pairs {
			if i > 0 {
				out.WriteString(", ")
			}
			fmt.Fprintf(&out, "(%s, %s)", leanStr(pr[0]), leanStr(pr[1]))
		}
		out.WriteString("]\n")
		facts["registeredExtensions"] = pairs
	}

	lockTable(&out, facts, &errs)

	out.WriteString("\nend Ls.Gen\n")

	// fingerprints
	fps := map[string]string{}
	for _, fp := range fingerprints {
		p, err := loadPkg(fp.dir)
		if err != nil {
			continue
		}
		key := fp.dir + ":" + fp.recv + "." + fp.name
		for _, f := range p.files {
			for _, d := range f.Decls {
				fd, ok := d.(*ast.FuncDecl)
				if !ok || fd.Name.Name != fp.name || recvName(fd) != fp.recv {
					continue
				}
				var b bytes.Buffer
				cfg := printer.Config{Mode: printer.RawFormat}
				fd2 := *fd
				fd2.Doc = nil
				_ = cfg.Fprint(&b, token.NewFileSet(), &fd2)
				h := sha256.Sum256(b.Bytes())
				fps[key] = hex.EncodeToString(h[:8])
			}
		}
		if _, ok := fps[key]; !ok {
			fps[key] = "missing"
		}
	}
	facts["fingerprints"] = fps
	facts["errors"] = errs

	if *leanOut != "" {
		old, _ := os.ReadFile(*leanOut)
		if !bytes.Equal(old, out.Bytes()) {
			if err := os.WriteFile(*leanOut, out.Bytes(), 0o644); err != nil {
				fmt.Fprintln(os.Stderr, err)
				os.Exit(2)
			}
		}
	}
	if *jsonOut != "" {
		j, _ := json.MarshalIndent(facts, "", " ")
		_ = os.WriteFile(*jsonOut, j, 0o644)
	}
	if len(errs) > 0 {
		for _, e := range errs {
			fmt.Fprintln(os.Stderr, "extract:", e)
		}
		os.Exit(1)
	}
}
