package main

func lockRows(errs *[]string) []lockRow { return nil }
