package main

import (
	"fmt"
	"go/ast"
	"go/printer"
	"go/token"
	"sort"
	"strings"
)

// Syntactic lock-region analysis for C17: for every access to a field that is declared to be
// protected by a mutex, is that mutex held at that point of the enclosing function (Lock/RLock
// called earlier in source order on the same base expression and not yet released, a deferred
// Unlock keeping it held to the end)? Function literals are analysed as functions of their own.

type guardSpec struct {
	dir    string
	typ    string   // struct type ("" = package-level variables)
	mutex  string   // mutex field / variable name
	fields []string // guarded fields / variables
	// via: methods of OTHER types that reach the guarded value through a field of their receiver
	// (receiver type -> field name), e.g. Downloader.r is the *Receiver
	via map[string]string
}

var guards = []guardSpec{
	{"syncer/receiver", "Receiver", "mu", []string{"snapshotsByInstance", "lastSeenByInstance", "downloadersByInstance", "hasSnapshots", "corruptSnapshots"}, map[string]string{"Downloader": "r"}},
	{"syncer/cleaner", "Worker", "mu", []string{"lastByInstance"}, nil},
	{"utils/topics", "Topic", "mu", []string{"subscribers", "lastID", "last", "hasLast"}, nil},
	{"utils/topics", "Subscription", "mu", []string{"topic", "ch"}, nil},
	{"utils/climit", "Token", "mu", []string{"released", "cl"}, nil},
	{"snapshot/storage", "", "mu", []string{"storage"}, nil},
}

// constructors and hook accessors that touch fields before the value is shared
var lockExempt = map[string]bool{"New": true, "NewWithInitial": true, "Subscribe": false}

func exprStr(e ast.Expr) string {
	var b strings.Builder
	_ = printer.Fprint(&b, token.NewFileSet(), e)
	return b.String()
}

type lockScan struct {
	base string         // the expression denoting the guarded value in this function ("" = none)
	held map[string]int // lock expression -> depth (Lock count)
	rows *[]lockRow
	g    guardSpec
	pkg  string
	fn   string
}

func (ls *lockScan) isGuarded(name string) bool {
	for _, f := range ls.g.fields {
		if f == name {
			return true
		}
	}
	return false
}

// scan walks statements in source order.
func (ls *lockScan) scan(n ast.Node) {
	ast.Inspect(n, func(x ast.Node) bool {
		switch v := x.(type) {
		case *ast.FuncLit:
			sub := &lockScan{base: ls.base, held: map[string]int{}, rows: ls.rows, g: ls.g, pkg: ls.pkg, fn: ls.fn + ".func"}
			sub.scan(v.Body)
			return false
		case *ast.DeferStmt:
			// defer X.mu.Unlock(): the lock stays held until the function returns
			if lockOf(v.Call) != "" {
				return false
			}
		case *ast.CallExpr:
			if base, op := lockCall(v); base != "" {
				switch op {
				case "Lock", "RLock":
					ls.held[base]++
				case "Unlock", "RUnlock":
					if ls.held[base] > 0 {
						ls.held[base]--
					}
				}
				return false
			}
		case *ast.SelectorExpr:
			if ls.g.typ != "" && ls.isGuarded(v.Sel.Name) && ls.base != "" && exprStr(v.X) == ls.base {
				base := exprStr(v.X)
				lock := base + "." + ls.g.mutex
				*ls.rows = append(*ls.rows, lockRow{ls.pkg, ls.g.typ, v.Sel.Name, ls.fn, "access", ls.held[lock] > 0})
			}
		case *ast.Ident:
			if ls.g.typ == "" && ls.isGuarded(v.Name) && v.Obj != nil && v.Obj.Kind == ast.Var {
				*ls.rows = append(*ls.rows, lockRow{ls.pkg, "(package)", v.Name, ls.fn, "access", ls.held[ls.g.mutex] > 0})
			}
		}
		return true
	})
}

func lockOf(c *ast.CallExpr) string {
	b, _ := lockCall(c)
	return b
}

// lockCall recognises X.mu.Lock() etc. and returns ("X.mu", "Lock").
func lockCall(c *ast.CallExpr) (string, string) {
	sel, ok := c.Fun.(*ast.SelectorExpr)
	if !ok {
		return "", ""
	}
	switch sel.Sel.Name {
	case "Lock", "Unlock", "RLock", "RUnlock":
		return exprStr(sel.X), sel.Sel.Name
	}
	return "", ""
}

// receiverBase: does the function operate on the guarded type (method of it, or of a type that
// reaches it through a field, like Downloader.r)? We simply scan every function of the package.
func lockRows(errs *[]string) []lockRow {
	var rows []lockRow
	for _, g := range guards {
		p, err := loadPkg(g.dir)
		if err != nil {
			*errs = append(*errs, err.Error())
			continue
		}
		// the guarded fields must still exist (a renamed field would silently empty the table)
		found := map[string]bool{}
		for _, f := range p.files {
			for _, d := range f.Decls {
				gd, ok := d.(*ast.GenDecl)
				if !ok {
					continue
				}
				for _, s := range gd.Specs {
					switch ts := s.(type) {
					case *ast.TypeSpec:
						st, ok := ts.Type.(*ast.StructType)
						if !ok || ts.Name.Name != g.typ {
							continue
						}
						for _, fl := range st.Fields.List {
							for _, n := range fl.Names {
								found[n.Name] = true
							}
						}
					case *ast.ValueSpec:
						if g.typ == "" {
							for _, n := range ts.Names {
								found[n.Name] = true
							}
						}
					}
				}
			}
		}
		for _, fld := range append([]string{g.mutex}, g.fields...) {
			if !found[fld] {
				*errs = append(*errs, fmt.Sprintf("lock table: %s %s.%s not found", g.dir, g.typ, fld))
			}
		}
		names := make([]string, 0, len(p.files))
		for n := range p.files {
			names = append(names, n)
		}
		sort.Strings(names)
		for _, n := range names {
			f := p.files[n]
			for _, d := range f.Decls {
				fd, ok := d.(*ast.FuncDecl)
				if !ok || fd.Body == nil {
					continue
				}
				if fd.Recv == nil && (fd.Name.Name == "New" || fd.Name.Name == "NewWithInitial") {
					continue // constructor: the value is not shared yet
				}
				fn := fd.Name.Name
				if r := recvName(fd); r != "" {
					fn = r + "." + fn
				}
				base := ""
				if fd.Recv != nil && len(fd.Recv.List) > 0 && len(fd.Recv.List[0].Names) > 0 {
					rv := fd.Recv.List[0].Names[0].Name
					rt := recvName(fd)
					if rt == g.typ {
						base = rv
					} else if f, ok := g.via[rt]; ok {
						base = rv + "." + f
					}
				}
				ls := &lockScan{base: base, held: map[string]int{}, rows: &rows, g: g, pkg: g.dir, fn: fn}
				ls.scan(fd.Body)
			}
		}
	}
	return rows
}
