module verif/harness

go 1.25.11

require (
	github.com/CrowdStrike/csproto v0.35.0
	github.com/PowerDNS/lightningstream v0.0.0
	github.com/PowerDNS/lmdb-go v1.9.3
	github.com/PowerDNS/simpleblob v1.0.0
	github.com/klauspost/compress v1.18.6
	github.com/sirupsen/logrus v1.9.4
)

require (
	github.com/beorn7/perks v1.0.1 // indirect
	github.com/c2h5oh/datasize v0.0.0-20231215233829-aa82cc1e6500 // indirect
	github.com/cespare/xxhash/v2 v2.3.0 // indirect
	github.com/go-logr/logr v1.4.3 // indirect
	github.com/gogo/protobuf v1.3.2 // indirect
	github.com/golang/protobuf v1.5.4 // indirect
	github.com/munnerz/goautoneg v0.0.0-20191010083416-a7dc8b61c822 // indirect
	github.com/prometheus/client_golang v1.23.2 // indirect
	github.com/prometheus/client_model v0.6.2 // indirect
	github.com/prometheus/common v0.68.0 // indirect
	github.com/prometheus/procfs v0.16.1 // indirect
	github.com/samber/lo v1.52.0 // indirect
	github.com/wojas/go-healthz v0.2.0 // indirect
	go.uber.org/atomic v1.11.0 // indirect
	golang.org/x/sys v0.45.0 // indirect
	golang.org/x/text v0.37.0 // indirect
	google.golang.org/protobuf v1.36.11 // indirect
	gopkg.in/yaml.v2 v2.4.0 // indirect
)

replace github.com/PowerDNS/lightningstream => /repo

replace github.com/CrowdStrike/csproto => github.com/wojas/csproto v0.0.0-20260107092112-0e013c7984a2
