package main

import "fmt"

func genConc(g *Gen, n int) {
	rounds := n / 8
	if rounds < 30 {
		rounds = 30
	}
	for i := 0; i < rounds; i++ {
		g.Emit("topic", fmt.Sprintf("conc.topic %d %d %d", 1+g.R.Intn(3), 1+g.R.Intn(4), g.R.Int63()))
	}
	for _, limit := range []int{1, 2, 5} {
		g.Emit("token", fmt.Sprintf("conc.token %d %d %d", limit, 1+g.R.Intn(4), 1+g.R.Intn(3)))
	}
	for _, d := range []int{0, 200, 2000} {
		g.Emit("storage", fmt.Sprintf("conc.storage %d %d", 1+g.R.Intn(3), d))
	}
	for _, p := range []string{"startup.listingFailed", "send.afterTxn", "send.stored", "loop.top", "loop.beforeInfo", "loop.sleep"} {
		g.Emit("cancel", "conc.cancel "+p)
	}
}
