package main

import (
	"fmt"
)

// genRecv: bucket evolutions against the real receiver. To keep the outcome independent of
// goroutine scheduling, either the token limits are at least the number of instances, or only
// one instance gets a new snapshot between two consumer polls.
func genRecv(g *Gen, n int) {
	count := n / 8
	if count < 30 {
		count = 30
	}
	for s := 0; s < count; s++ {
		ninst := 1 + g.R.Intn(4)
		insts := []string{"a", "b", "c", "d"}[:ninst]
		big := g.R.Intn(2) == 0
		dl, dc := 1+g.R.Intn(2), 1+g.R.Intn(2)
		if big {
			// nobody ever waits for a token: one pending and one in-flight snapshot per instance
			// plus the one the consumer holds
			dl, dc = ninst+1, 2*ninst+2
		}
		own := "a"
		if g.R.Intn(3) == 0 {
			own = "z"
		}
		lines := []string{fmt.Sprintf("recv.new %s %d %d", own, dl, dc)}
		ts := uint64(100)
		first := true
		steps := 6 + g.R.Intn(14)
		for k := 0; k < steps; k++ {
			switch x := g.R.Intn(10); {
			case x < 4:
				// new snapshot(s)
				m := 1
				if big {
					m = 1 + g.R.Intn(ninst)
				}
				corrupt := false
				for j := 0; j < m; j++ {
					ts += uint64(1 + g.R.Intn(5))
					kind := []string{"0", "0", "0", "1", "2"}[g.R.Intn(5)]
					corrupt = corrupt || kind != "0"
					lines = append(lines, fmt.Sprintf("recv.put %s %d %s", insts[g.R.Intn(ninst)], ts, kind))
				}
				if g.R.Intn(5) == 0 {
					lines = append(lines, fmt.Sprintf("recv.loadfail %d", 1+g.R.Intn(3)))
				}
				if g.R.Intn(4) == 0 {
					// a file of another kind whose name sorts after the newest snapshot
					lines = append(lines, fmt.Sprintf("recv.putother %s %d", insts[g.R.Intn(ninst)], ts+1))
				}
				inc := "0"
				if first {
					inc = "1"
					first = false
				}
				lines = append(lines, fmt.Sprintf("recv.run %s %s", inc, b2s(g.R.Intn(8) == 0)), "recv.state", "prop.c16.check")
				if !big {
					// drain before the next arrival
					for d := 0; d < 3; d++ {
						lines = append(lines, "recv.next ?", "recv.state", "prop.c16.check")
					}
					if corrupt {
						// the next listing promotes an older snapshot of that instance: let it be
						// processed alone (which downloader wins a token is the scheduler's choice)
						lines = append(lines, "recv.run 0 0", "recv.state", "prop.c16.check")
						for d := 0; d < 3; d++ {
							lines = append(lines, "recv.next ?", "recv.state", "prop.c16.check")
						}
					}
				}
			case x < 7:
				lines = append(lines, "recv.next ?", "recv.state", "prop.c16.check")
			case x < 8 && k%2 == 0:
				// a snapshot vanishes between listing and download; later a newer one is published
				who := insts[g.R.Intn(ninst)]
				ts += uint64(1 + g.R.Intn(5))
				lines = append(lines, fmt.Sprintf("recv.put %s %d 0", who, ts), fmt.Sprintf("recv.runrm %s %d", who, ts), "recv.state", "prop.c16.check")
				if g.R.Intn(3) != 0 {
					ts += uint64(1 + g.R.Intn(5))
					lines = append(lines, fmt.Sprintf("recv.put %s %d 0", who, ts), "recv.run 0 0", "recv.state", "prop.c16.check")
				}
				if !big {
					for d := 0; d < 3; d++ {
						lines = append(lines, "recv.next ?", "recv.state", "prop.c16.check")
					}
					// an older snapshot of that instance may be promoted by the next listing
					lines = append(lines, "recv.run 0 0", "recv.state", "prop.c16.check")
					for d := 0; d < 3; d++ {
						lines = append(lines, "recv.next ?", "recv.state", "prop.c16.check")
					}
				}
			case x < 8:
				lines = append(lines, "recv.close", "recv.state", "prop.c16.check")
			case x < 9:
				lines = append(lines, fmt.Sprintf("recv.run 0 %s", b2s(g.R.Intn(6) == 0)), "recv.state", "prop.c16.check")
			default:
				// the cleaner of some instance removes an old snapshot
				if ts > 103 {
					lines = append(lines, fmt.Sprintf("recv.rm %s %d", insts[g.R.Intn(ninst)], ts-uint64(g.R.Intn(3))), "recv.run 0 0", "recv.state", "prop.c16.check")
					if !big {
						for d := 0; d < 3; d++ {
							lines = append(lines, "recv.next ?", "recv.state", "prop.c16.check")
						}
					}
				}
			}
		}
		// drain completely: at rest nothing may be leaked
		lines = append(lines, "recv.run 0 0")
		for d := 0; d < ninst+2; d++ {
			lines = append(lines, "recv.next ?", "prop.c16.check")
		}
		lines = append(lines, "recv.close", "recv.state", "prop.c16.check")
		// repeated listings (each one can peel one corrupt snapshot off an instance) and drains
		// until the receiver is settled: then everything deliverable must have been delivered
		for round := 0; round < 4; round++ {
			lines = append(lines, "recv.run 0 0")
			for d := 0; d < ninst+1; d++ {
				lines = append(lines, "recv.next ?")
			}
			lines = append(lines, "recv.close", "prop.c16.delivered "+own)
		}
		class := "small-limits"
		if big {
			class = "big-limits"
		}
		g.Emit(class, lines...)
	}
}
