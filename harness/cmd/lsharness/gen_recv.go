package main

import (
	"fmt"
)

// genRecv: bucket evolutions against the real receiver. To keep the outcome independent of
// goroutine scheduling, either the token limits are at least the number of instances, or only
// one instance gets a new snapshot between two consumer polls.
func genRecv(g *Gen, n int) {
	count := n / 8
	if count < 30 {
		count = 30
	}
	for s := 0; s < count; s++ {
		ninst := 1 + g.R.Intn(4)
		insts := []string{"a", "b", "c", "d"}[:ninst]
		big := g.R.Intn(2) == 0
		dl, dc := 1+g.R.Intn(2), 1+g.R.Intn(2)
		if big {
			dl, dc = ninst+1, ninst+1
		}
		own := "a"
		if g.R.Intn(3) == 0 {
			own = "z"
		}
		lines := []string{fmt.Sprintf("recv.new %s %d %d", own, dl, dc)}
		ts := uint64(100)
		first := true
		steps := 6 + g.R.Intn(14)
		for k := 0; k < steps; k++ {
			switch x := g.R.Intn(10); {
			case x < 4:
				// new snapshot(s)
				m := 1
				if big {
					m = 1 + g.R.Intn(ninst)
				}
				for j := 0; j < m; j++ {
					ts += uint64(1 + g.R.Intn(5))
					kind := []string{"0", "0", "0", "1", "2"}[g.R.Intn(5)]
					lines = append(lines, fmt.Sprintf("recv.put %s %d %s", insts[g.R.Intn(ninst)], ts, kind))
				}
				if g.R.Intn(5) == 0 {
					lines = append(lines, fmt.Sprintf("recv.loadfail %d", 1+g.R.Intn(3)))
				}
				inc := "0"
				if first {
					inc = "1"
					first = false
				}
				lines = append(lines, fmt.Sprintf("recv.run %s %s", inc, b2s(g.R.Intn(8) == 0)), "recv.state", "prop.c16.check")
				if !big {
					// drain before the next arrival
					for d := 0; d < 3; d++ {
						lines = append(lines, "recv.next ?", "recv.state", "prop.c16.check")
					}
				}
			case x < 7:
				lines = append(lines, "recv.next ?", "recv.state", "prop.c16.check")
			case x < 8:
				lines = append(lines, "recv.close", "recv.state", "prop.c16.check")
			case x < 9:
				lines = append(lines, fmt.Sprintf("recv.run 0 %s", b2s(g.R.Intn(6) == 0)), "recv.state", "prop.c16.check")
			default:
				// the cleaner of some instance removes an old snapshot
				if ts > 103 {
					lines = append(lines, fmt.Sprintf("recv.rm %s %d", insts[g.R.Intn(ninst)], ts-uint64(g.R.Intn(3))), "recv.run 0 0", "recv.state", "prop.c16.check")
				}
			}
		}
		// drain completely: at rest nothing may be leaked
		lines = append(lines, "recv.run 0 0")
		for d := 0; d < ninst+2; d++ {
			lines = append(lines, "recv.next ?", "prop.c16.check")
		}
		lines = append(lines, "recv.close", "recv.state", "prop.c16.check")
		class := "small-limits"
		if big {
			class = "big-limits"
		}
		g.Emit(class, lines...)
	}
}
