package main

import (
	"fmt"
	"io"
	"strings"

	"github.com/PowerDNS/lightningstream/snapshot"
	"github.com/PowerDNS/lightningstream/syncer"
)

func kvOut(kv snapshot.KV) string {
	return fmt.Sprintf("%s=%s/%d/%d", hx(kv.Key), hx(kv.Value), kv.TimestampNano, kv.Flags)
}

func dbiEntries(d *snapshot.DBI) ([]snapshot.KV, error) {
	var out []snapshot.KV
	d.ResetCursor()
	for {
		kv, err := d.Next()
		if err == io.EOF {
			return out, nil
		}
		if err != nil {
			return nil, err
		}
		out = append(out, snapshot.KV{Key: append([]byte{}, kv.Key...), Value: append([]byte{}, kv.Value...), TimestampNano: kv.TimestampNano, Flags: kv.Flags})
	}
}

func init() {
	implOps["dup.enc"] = func(a []string) string {
		r, err := syncer.VerifDupSortEncodeOne(snapshot.KV{Key: mustUnhx(a[0]), Value: mustUnhx(a[1]), TimestampNano: u64(a[2]), Flags: uint32(u64(a[3]))})
		if err != nil {
			return "err refuse"
		}
		return "ok " + kvOut(r)
	}
	implOps["dup.dec"] = func(a []string) string {
		r, err := syncer.VerifDupSortDecodeOne(snapshot.KV{Key: mustUnhx(a[0]), Value: mustUnhx(a[1]), TimestampNano: u64(a[2]), Flags: uint32(u64(a[3]))})
		if err != nil {
			return "err invalid"
		}
		return "ok " + kvOut(r)
	}
	implOps["dup.encall"] = func(a []string) string {
		size := 64
		var kvs []snapshot.KV
		if a[0] != "-" {
			for _, p := range strings.Split(a[0], ",") {
				f := strings.SplitN(p, "=", 2)
				kv := snapshot.KV{Key: mustUnhx(f[0]), Value: mustUnhx(f[1])}
				size += len(kv.Key) + len(kv.Value) + 16
				kvs = append(kvs, kv)
			}
		}
		d := snapshot.NewDBISize(size)
		d.SetName("x")
		for _, kv := range kvs {
			d.Append(kv)
		}
		enc, err := syncer.VerifDupSortEncode(d)
		if err != nil {
			return "err refuse"
		}
		if enc.Transform() != snapshot.TransformDupSortHackV1 {
			return "FAIL transform-not-stated"
		}
		out, err := dbiEntries(enc)
		if err != nil {
			return "err iterate"
		}
		if len(out) == 0 {
			return "ok -"
		}
		parts := make([]string, len(out))
		for i, kv := range out {
			parts[i] = kvOut(kv)
		}
		return "ok " + strings.Join(parts, ",")
	}
	// prop.c20.pairs <list> : for a sorted duplicate-keys content, either the mapping is refused,
	// or the shadow keys are distinct, of legal length, strictly increasing, and decode back
	// to exactly the original pairs.
	implOps["prop.c20.pairs"] = func(a []string) string {
		var kvs []snapshot.KV
		size := 64
		if a[0] != "-" {
			for _, p := range strings.Split(a[0], ",") {
				f := strings.SplitN(p, "=", 2)
				kv := snapshot.KV{Key: mustUnhx(f[0]), Value: mustUnhx(f[1])}
				size += len(kv.Key) + len(kv.Value) + 16
				kvs = append(kvs, kv)
			}
		}
		d := snapshot.NewDBISize(size)
		d.SetName("x")
		for _, kv := range kvs {
			d.Append(kv)
		}
		enc, err := syncer.VerifDupSortEncode(d)
		if err != nil {
			return "ok refused"
		}
		out, err := dbiEntries(enc)
		if err != nil {
			return "FAIL encoded-dbi-unreadable"
		}
		if len(out) != len(kvs) {
			return fmt.Sprintf("FAIL pair-count %d != %d", len(out), len(kvs))
		}
		seen := map[string]bool{}
		var prev []byte
		for i, kv := range out {
			if len(kv.Key) < 6 || len(kv.Key) > 511 {
				return fmt.Sprintf("FAIL illegal-key-length %d", len(kv.Key))
			}
			if seen[string(kv.Key)] {
				return "FAIL shadow-key-collision " + hx(kv.Key)
			}
			seen[string(kv.Key)] = true
			if i > 0 && string(prev) >= string(kv.Key) {
				return "FAIL order-not-preserved"
			}
			prev = kv.Key
			dec, err := syncer.VerifDupSortDecodeOne(kv)
			if err != nil {
				return "FAIL not-decodable"
			}
			if string(dec.Key) != string(kvs[i].Key) || string(dec.Value) != string(kvs[i].Value) {
				return "FAIL pair-not-recovered " + hx(kvs[i].Key)
			}
		}
		return "ok reversible"
	}
}
