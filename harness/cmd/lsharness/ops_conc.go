package main

import (
	"context"
	"fmt"
	"math/rand"
	"os"
	"os/exec"
	"strings"
	"sync"
	"time"

	"github.com/PowerDNS/lightningstream/snapshot/storage"
	"github.com/PowerDNS/lightningstream/utils/climit"
	"github.com/PowerDNS/lightningstream/utils/topics"
	"github.com/PowerDNS/simpleblob/backends/memory"
)

// Schedule forcing for the concurrent components (C17): real objects, goroutines steered into
// the modelled interleavings, every scenario under a watchdog.

func waitTimeout(wg *sync.WaitGroup, d time.Duration) bool {
	ch := make(chan struct{})
	go func() { wg.Wait(); close(ch) }()
	select {
	case <-ch:
		return true
	case <-time.After(d):
		return false
	}
}

// topicScenario: k subscribers each receive a few events and then Close at a random moment
// (also while an event is being delivered to them); one publisher publishes `rounds` events.
func topicScenario(k, rounds int, r *rand.Rand) string {
	t := topics.New[int]()
	var wg sync.WaitGroup
	ctx, cancel := context.WithCancel(context.Background())
	defer cancel()
	ready := make(chan struct{}, k)
	for i := 0; i < k; i++ {
		take := r.Intn(rounds + 1)
		closeWithoutReading := r.Intn(3) == 0
		delay := time.Duration(r.Intn(300)) * time.Microsecond
		wg.Add(1)
		go func() {
			defer wg.Done()
			sub := t.Subscribe(false)
			ready <- struct{}{}
			if closeWithoutReading {
				time.Sleep(delay) // the publisher is, or soon will be, blocked sending to us
				sub.Close()
				sub.Close() // idempotent
				return
			}
			for n := 0; n < take; n++ {
				if _, err := sub.Next(ctx); err != nil {
					break
				}
			}
			sub.Close()
		}()
	}
	for i := 0; i < k; i++ {
		<-ready
	}
	wg.Add(1)
	var pmu sync.Mutex
	panicked := ""
	go func() {
		defer wg.Done()
		defer func() {
			if r := recover(); r != nil {
				pmu.Lock()
				panicked = fmt.Sprint(r)
				pmu.Unlock()
			}
		}()
		for n := 0; n < rounds; n++ {
			t.Publish(n)
		}
	}()
	if !waitTimeout(&wg, 2*time.Second) {
		return "FAIL topic-wedged publisher-or-subscriber-blocked-forever"
	}
	pmu.Lock()
	defer pmu.Unlock()
	if panicked != "" {
		return "FAIL publisher-panicked " + strings.ReplaceAll(panicked, " ", "-")
	}
	return "ok"
}

func init() {
	implOps["conc.topic"] = func(a []string) string {
		r := rand.New(rand.NewSource(int64(u64(a[2]))))
		return topicScenario(int(u64(a[0])), int(u64(a[1])), r)
	}
	implOps["conc.token"] = func(a []string) string {
		limit, gs, rel := int(u64(a[0])), int(u64(a[1])), int(u64(a[2]))
		cl := climit.New("db", "test", limit, nil)
		var toks []*climit.Token
		for i := 0; i < limit; i++ {
			toks = append(toks, cl.Acquire())
		}
		if cl.VerifFree() != 0 {
			return "FAIL tokens-not-all-held"
		}
		var wg sync.WaitGroup
		for _, tk := range toks {
			for g := 0; g < gs; g++ {
				wg.Add(1)
				go func(tk *climit.Token) {
					defer wg.Done()
					for n := 0; n < rel; n++ {
						tk.Release()
					}
				}(tk)
			}
		}
		if !waitTimeout(&wg, 2*time.Second) {
			return "FAIL release-blocked"
		}
		if cl.VerifFree() != limit {
			return fmt.Sprintf("FAIL token-count free=%d limit=%d", cl.VerifFree(), limit)
		}
		done := make(chan struct{})
		go func() {
			for i := 0; i < limit; i++ {
				cl.Acquire()
			}
			close(done)
		}()
		select {
		case <-done:
		case <-time.After(time.Second):
			return "FAIL acquire-blocked-after-release"
		}
		return "ok"
	}
	// conc.storage <getters> <delay-us>: in a fresh process, goroutines ask for the global storage
	// BEFORE it is set; they must all receive the handle once it is set.
	implOps["conc.storage"] = func(a []string) string {
		cmd := exec.Command(os.Args[0], "-conc-storage-child", a[0]+","+a[1])
		out, err := cmd.CombinedOutput()
		s := strings.TrimSpace(string(out))
		if i := strings.LastIndex(s, "\n"); i >= 0 && (strings.HasPrefix(s[i+1:], "ok") || strings.HasPrefix(s[i+1:], "FAIL")) {
			s = s[i+1:]
		}
		if err != nil && !strings.HasPrefix(s, "FAIL") {
			if strings.Contains(string(out), "panic") {
				return "FAIL getglobal-panicked-after-waiting"
			}
			return "FAIL child: " + clipStr(strings.ReplaceAll(s, "\n", " | "))
		}
		return s
	}
	// conc.cancel <point>: cancelling while the loop is at (or after) the given yield point makes
	// Sync return. "startup.listingFailed": the initial listing keeps failing.
	implOps["conc.cancel"] = func(a []string) string {
		fleetReset()
		l := mkLoop("a", []string{"a", "1", "0", "0", "0", "0", "3"}, nil)
		loops["a"] = l
		defer func() { stopLoop(l); closeEnv(l.env, l.dir); delete(loops, "a") }()
		insts["__loop"] = &l.implInst
		implOps["env.app"]([]string{"__loop", "c:74:0,p:74:6b:" + hx(mkStored(1, 1, 0, 0, 0, 0, []byte("v")))})
		delete(insts, "__loop")
		if a[0] == "startup.listingFailed" {
			l.fs.mu.Lock()
			l.fs.failLists = 1 << 30
			l.fs.mu.Unlock()
		}
		l.started = true
		go func() { l.exitCh <- l.s.VerifSyncLoop(l.ctx, l.env, l.r) }()
		// run to the requested point
		for steps := 0; steps < 40; steps++ {
			select {
			case p := <-l.yieldCh:
				l.at = p
			case err := <-l.exitCh:
				l.exited = true
				return "ok exited-before-point " + exitString(err)
			case <-time.After(3 * time.Second):
				return "FAIL loop-stuck-before-" + a[0]
			}
			if l.at == a[0] {
				break
			}
			l.releaseCh <- struct{}{}
		}
		if l.at != a[0] {
			return "ok point-not-reached"
		}
		l.cancel()
		// release it from the yield point; afterwards it must return by itself, passing at most
		// a few more yield points
		deadline := time.After(3 * time.Second)
		for {
			select {
			case l.releaseCh <- struct{}{}:
			case <-l.yieldCh:
			case <-l.exitCh:
				l.exited = true
				return "ok returned"
			case <-deadline:
				l.exited = true // leave the goroutine behind
				return "FAIL cancel-did-not-make-the-loop-return at=" + a[0]
			}
		}
	}
}

// storageChild runs in a fresh process (package-level state of snapshot/storage is pristine).
func storageChild(arg string) {
	f := strings.Split(arg, ",")
	n, delay := int(u64(f[0])), time.Duration(u64(f[1]))*time.Microsecond
	st := memory.New()
	res := make(chan string, n)
	for i := 0; i < n; i++ {
		go func() {
			defer func() {
				if r := recover(); r != nil {
					res <- "FAIL getglobal-panicked-after-waiting"
				}
			}()
			got := storage.GetGlobal()
			if got != st {
				res <- "FAIL getglobal-returned-wrong-handle"
				return
			}
			res <- "ok"
		}()
	}
	time.Sleep(delay)
	storage.SetGlobal(st)
	for i := 0; i < n; i++ {
		select {
		case s := <-res:
			if s != "ok" {
				fmt.Println(s)
				os.Exit(1)
			}
		case <-time.After(3 * time.Second):
			fmt.Println("FAIL getglobal-never-returned")
			os.Exit(1)
		}
	}
	if !storage.IsReady() {
		fmt.Println("FAIL not-ready-after-set")
		os.Exit(1)
	}
	fmt.Println("ok")
}
