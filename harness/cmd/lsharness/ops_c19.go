package main

import (
	"bytes"
	"fmt"
	"sort"
	"strings"

	"github.com/PowerDNS/lightningstream/lmdbenv/strategy"
	"github.com/PowerDNS/lmdb-go/lmdb"
)

// Reference semantics of the update strategies on a plain Go map (the specification the
// property states: apply the iterator's decision per key), independent of the Lean model.

type refDB struct {
	ik   bool
	keys [][]byte
	vals map[string][]byte
}

func newRefDB(ik bool, kvs []kvPair) *refDB {
	r := &refDB{ik: ik, vals: map[string][]byte{}}
	for _, p := range kvs {
		r.set(p.k, p.v)
	}
	return r
}

func (r *refDB) get(k []byte) ([]byte, bool) { v, ok := r.vals[string(k)]; return v, ok }
func (r *refDB) set(k, v []byte) {
	if _, ok := r.vals[string(k)]; !ok {
		r.keys = append(r.keys, append([]byte{}, k...))
	}
	if v == nil {
		v = []byte{}
	}
	r.vals[string(k)] = v
}
func (r *refDB) del(k []byte) {
	if _, ok := r.vals[string(k)]; !ok {
		return
	}
	delete(r.vals, string(k))
	for i, x := range r.keys {
		if bytes.Equal(x, k) {
			r.keys = append(r.keys[:i], r.keys[i+1:]...)
			break
		}
	}
}
func (r *refDB) dump() string {
	sort.Slice(r.keys, func(i, j int) bool { return keyLess(r.ik, r.keys[i], r.keys[j]) })
	if len(r.keys) == 0 {
		return "-"
	}
	parts := make([]string, len(r.keys))
	for i, k := range r.keys {
		parts[i] = hx(k) + "=" + hx(r.vals[string(k)])
	}
	return strings.Join(parts, ";")
}

func validKey(k []byte) bool { return len(k) >= 1 && len(k) <= 511 }

func init() {
	// prop.c19 <update|iterupdate|emptyput> ik db input clean
	implOps["prop.c19"] = func(a []string) string {
		ik := a[1] == "1"
		db := parseDBArg(a[2])
		input := parseInputArg(a[3])
		clean := parseDecTok(a[4])
		// the property's precondition: valid keys, no failing decisions
		for _, e := range input {
			if !validKey(e.key) || e.dec == "e" {
				return "ok skipped-precondition"
			}
		}
		if clean.dec == "e" {
			return "ok skipped-precondition"
		}
		sorted := true
		for i := 1; i < len(input); i++ {
			if !keyLess(ik, input[i-1].key, input[i].key) {
				sorted = false
			}
		}
		ref := newRefDB(ik, db)
		var run func(txn *lmdb.Txn, dbi lmdb.DBI) error
		it := &scriptIter{ents: input, idx: -1, clean: clean}
		expectErr := ""
		switch a[0] {
		case "update":
			for _, e := range input {
				old, _ := ref.get(e.key)
				val, _ := decApply(e, old)
				if len(val) == 0 {
					ref.del(e.key)
				} else if !bytes.Equal(val, old) {
					ref.set(e.key, val)
				}
			}
			run = func(txn *lmdb.Txn, dbi lmdb.DBI) error { return strategy.Update(txn, dbi, it) }
		case "iterupdate":
			if !sorted {
				expectErr = "not-sorted"
			}
			inInput := map[string]bool{}
			for _, e := range input {
				inInput[string(e.key)] = true
			}
			for _, p := range db {
				if !inInput[string(p.k)] {
					v := p.v
					if v == nil {
						v = []byte{} // a stored value is never nil
					}
					val, _ := decApply(clean, v)
					if val == nil {
						ref.del(p.k)
					} else {
						ref.set(p.k, val)
					}
				}
			}
			for _, e := range input {
				old, found := ref.get(e.key)
				if !found {
					old = nil
				}
				val, _ := decApply(e, old)
				if len(val) == 0 {
					ref.del(e.key)
				} else {
					ref.set(e.key, val)
				}
			}
			run = func(txn *lmdb.Txn, dbi lmdb.DBI) error { return strategy.IterUpdate(txn, dbi, it) }
		case "emptyput":
			ref = newRefDB(ik, nil)
			for _, e := range input {
				val, _ := decApply(e, nil)
				if len(val) > 0 {
					ref.set(e.key, val)
				}
			}
			run = func(txn *lmdb.Txn, dbi lmdb.DBI) error { return strategy.EmptyPut(txn, dbi, it) }
		default:
			return "bad-op"
		}
		got := runStrategy(ik, false, db, run)
		if expectErr != "" {
			if got != "err "+expectErr {
				return fmt.Sprintf("FAIL unsorted-input-not-rejected got=%s", clipStr(got))
			}
			return "ok rejected"
		}
		if strings.HasPrefix(got, "err") {
			return "FAIL valid-input-rejected " + clipStr(got)
		}
		f := strings.Fields(got)
		if f[1] != ref.dump() {
			return fmt.Sprintf("FAIL wrong-content got=%s want=%s", clipStr(f[1]), clipStr(ref.dump()))
		}
		return "ok content"
	}
}

func clipStr(s string) string {
	if len(s) > 200 {
		return s[:200] + "…"
	}
	return s
}
