package main

import (
	"errors"
	"fmt"
	"io"
	"strings"

	"github.com/PowerDNS/lightningstream/lmdbenv/strategy"
	"github.com/PowerDNS/lmdb-go/lmdb"
)

var errScript = errors.New("scripted iterator error")

type scriptEntry struct {
	key []byte
	dec string
	val []byte
}

// scriptIter is a strategy.Iterator whose decisions are scripted per entry.
type scriptIter struct {
	ents  []scriptEntry
	idx   int
	clean scriptEntry
}

func decApply(e scriptEntry, old []byte) ([]byte, error) {
	switch e.dec {
	case "k":
		return old, nil // nil when not found
	case "d":
		return nil, nil
	case "e":
		return nil, errScript
	case "m":
		if len(old) > 0 && old[len(old)-1] == 0xdd {
			return old, nil
		}
		return append(append([]byte{}, old...), 0xdd), nil
	case "r":
		if e.val == nil {
			return []byte{}, nil // empty but not nil
		}
		return e.val, nil
	}
	panic("bad decision " + e.dec)
}

func (it *scriptIter) Next() ([]byte, error) {
	it.idx++
	if it.idx >= len(it.ents) {
		return nil, io.EOF
	}
	return it.ents[it.idx].key, nil
}
func (it *scriptIter) Merge(old []byte) ([]byte, error) { return decApply(it.ents[it.idx], old) }
func (it *scriptIter) Clean(old []byte) ([]byte, error) { return decApply(it.clean, old) }

func parseDBArg(s string) []kvPair {
	if s == "-" {
		return nil
	}
	var out []kvPair
	for _, p := range strings.Split(s, ";") {
		kv := strings.SplitN(p, "=", 2)
		out = append(out, kvPair{mustUnhx(kv[0]), mustUnhx(kv[1])})
	}
	return out
}

func dbOut(kvs []kvPair) string {
	if len(kvs) == 0 {
		return "-"
	}
	parts := make([]string, len(kvs))
	for i, p := range kvs {
		parts[i] = hx(p.k) + "=" + hx(p.v)
	}
	return strings.Join(parts, ";")
}

func parseDecTok(s string) scriptEntry {
	p := strings.Split(s, ":")
	e := scriptEntry{dec: p[0]}
	if p[0] == "r" {
		e.val = mustUnhx(p[1])
	}
	return e
}

func parseInputArg(s string) []scriptEntry {
	if s == "-" {
		return nil
	}
	var out []scriptEntry
	for _, p := range strings.Split(s, ",") {
		f := strings.SplitN(p, ":", 2)
		e := parseDecTok(f[1])
		e.key = mustUnhx(f[0])
		out = append(out, e)
	}
	return out
}

func stratErrClass(err error) string {
	switch {
	case errors.Is(err, strategy.ErrNotSorted):
		return "not-sorted"
	case errors.Is(err, errScript):
		return "iter"
	case isBadValSize(err):
		return "bad-key"
	}
	return "other:" + strings.ReplaceAll(err.Error(), " ", "_")
}

// runStrategy fills a scratch DBI, runs the strategy in its own committed transaction and
// reports the resulting content and whether LMDB recorded the transaction.
func runStrategy(ik, dup bool, db []kvPair, f func(txn *lmdb.Txn, dbi lmdb.DBI) error) string {
	env := scratch()
	name := fmt.Sprintf("s_%v_%v", ik, dup)
	var flags uint
	if ik {
		flags |= 0x08
	}
	if dup {
		flags |= lmdb.DupSort
	}
	if err := fillDBI(env, name, flags, db); err != nil {
		return "err fill:" + strings.ReplaceAll(err.Error(), " ", "_")
	}
	before := lastTxnID(env)
	err := env.Update(func(txn *lmdb.Txn) error {
		dbi, err := txn.OpenDBI(name, 0)
		if err != nil {
			return err
		}
		return f(txn, dbi)
	})
	if err != nil {
		return "err " + stratErrClass(err)
	}
	after := lastTxnID(env)
	out, err := dumpDBI(env, name)
	if err != nil {
		return "err dump"
	}
	return "ok " + dbOut(out) + " " + b2s(after > before)
}

func init() {
	implOps["strat.update"] = func(a []string) string {
		it := &scriptIter{ents: parseInputArg(a[2]), idx: -1, clean: parseDecTok(a[3])}
		return runStrategy(a[0] == "1", false, parseDBArg(a[1]), func(txn *lmdb.Txn, dbi lmdb.DBI) error {
			return strategy.Update(txn, dbi, it)
		})
	}
	implOps["strat.iterupdate"] = func(a []string) string {
		it := &scriptIter{ents: parseInputArg(a[2]), idx: -1, clean: parseDecTok(a[3])}
		return runStrategy(a[0] == "1", false, parseDBArg(a[1]), func(txn *lmdb.Txn, dbi lmdb.DBI) error {
			return strategy.IterUpdate(txn, dbi, it)
		})
	}
	implOps["strat.emptyput"] = func(a []string) string {
		it := &scriptIter{ents: parseInputArg(a[3]), idx: -1, clean: scriptEntry{dec: "k"}}
		return runStrategy(a[0] == "1", a[1] == "1", parseDBArg(a[2]), func(txn *lmdb.Txn, dbi lmdb.DBI) error {
			return strategy.EmptyPut(txn, dbi, it)
		})
	}
}
