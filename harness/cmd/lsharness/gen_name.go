package main

import (
	"fmt"
	"math/rand"
	"strings"
	"time"
)

// Generators for the C15 streams. All randomness comes from g.R.

const maxNanos = uint64(1)<<63 - 1

// scaleBudget: the name functions are cheap, so the random parts run well above the default
// budget (quick 400 -> 2000, thorough 12000 -> 96000 scripts per stream).
func scaleBudget(g *Gen, n int) int {
	if g.Thorough() {
		return n * 8
	}
	return n * 5
}

func dateNanos(y int, m time.Month, d, hh, mm, ss, ns int) uint64 {
	return uint64(time.Date(y, m, d, hh, mm, ss, ns, time.UTC).UnixNano())
}

// nameBoundaryTS: epoch, sub-second / second / day edges, every year edge 1970..2262, every
// 28 Feb / 29 Feb / 1 Mar, every month edge of selected years, powers of two and ten, 2^63-1.
func nameBoundaryTS() []uint64 {
	out := []uint64{0, 1, 9, 10, 999999999, 1000000000, 1000000001, 59999999999, 60000000000,
		3599999999999, 3600000000000, 86399999999999, 86400000000000, 86400000000001,
		maxNanos, maxNanos - 1, maxNanos - 854775807, maxNanos - 854775808,
		dateNanos(2262, 4, 11, 0, 0, 0, 0), dateNanos(2262, 4, 10, 23, 59, 59, 999999999),
		dateNanos(2000, 2, 29, 0, 0, 0, 0), dateNanos(2000, 2, 29, 23, 59, 59, 999999999),
		dateNanos(2100, 2, 28, 23, 59, 59, 999999999), dateNanos(2100, 3, 1, 0, 0, 0, 0),
		dateNanos(2038, 1, 19, 3, 14, 7, 0), dateNanos(2038, 1, 19, 3, 14, 8, 0),
		dateNanos(2001, 9, 9, 1, 46, 39, 999999999), dateNanos(2001, 9, 9, 1, 46, 40, 0),
	}
	for p := uint64(1); p < maxNanos/10; p *= 10 {
		out = append(out, p-1, p, p*9)
	}
	for s := uint(1); s < 63; s++ {
		out = append(out, uint64(1)<<s-1, uint64(1)<<s)
	}
	for y := 1970; y <= 2262; y++ {
		out = append(out, dateNanos(y, 1, 1, 0, 0, 0, 0))
		if y < 2262 {
			out = append(out, dateNanos(y, 12, 31, 23, 59, 59, 999999999))
			out = append(out, dateNanos(y, 2, 28, 23, 59, 59, 999999999), dateNanos(y, 3, 1, 0, 0, 0, 0))
			// time.Date normalises 29 Feb of a common year to 1 Mar: still a boundary
			out = append(out, dateNanos(y, 2, 29, 12, 0, 0, 0))
		}
	}
	for _, y := range []int{1970, 1972, 1999, 2000, 2001, 2024, 2038, 2099, 2100, 2101, 2200, 2261} {
		for m := time.January; m <= time.December; m++ {
			out = append(out, dateNanos(y, m, 1, 0, 0, 0, 0), dateNanos(y, m, 1, 0, 0, 0, 0)-1)
		}
	}
	return out
}

func randNameTS(r *rand.Rand, bnd []uint64) uint64 {
	switch r.Intn(6) {
	case 0:
		return bnd[r.Intn(len(bnd))]
	case 1: // near a boundary
		b := bnd[r.Intn(len(bnd))]
		d := uint64(r.Intn(3))
		if r.Intn(2) == 0 && b >= d {
			return b - d
		}
		if b+d <= maxNanos {
			return b + d
		}
		return b
	case 2: // a random civil time, exact second
		y := 1970 + r.Intn(292)
		return dateNanos(y, time.Month(1+r.Intn(12)), 1+r.Intn(31), r.Intn(24), r.Intn(60), r.Intn(60), 0)
	case 3: // log-uniform
		return r.Uint64() >> (1 + uint(r.Intn(63)))
	}
	return r.Uint64() >> 1
}

const safeAlphabet = "abcdefghijklmnopqrstuvwxyzABCDEFGHIJKLMNOPQRSTUVWXYZ0123456789-"

func randSafe(r *rand.Rand, minLen, maxLen int) []byte {
	n := minLen + r.Intn(maxLen-minLen+1)
	b := make([]byte, n)
	for i := range b {
		switch r.Intn(4) {
		case 0:
			b[i] = '-'
		case 1:
			b[i] = "az09AZ"[r.Intn(6)]
		default:
			b[i] = safeAlphabet[r.Intn(len(safeAlphabet))]
		}
	}
	return b
}

func hxList(l [][]byte) string {
	p := make([]string, len(l))
	for i, e := range l {
		p[i] = hx(e)
	}
	return "[" + strings.Join(p, ",") + "]"
}

func randExtras(r *rand.Rand) [][]byte {
	var out [][]byte
	switch r.Intn(5) {
	case 0:
		out = append(out, append([]byte{'X'}, randSafe(r, 0, 6)...))
	case 1:
		out = append(out, []byte("A1"), []byte("B"), append([]byte{'Z'}, randSafe(r, 0, 3)...))
	case 2:
		out = append(out, nil) // an empty item (the code does not forbid it)
	}
	return out
}

var nameDBs = [][]byte{[]byte("db"), []byte("main"), []byte("a"), []byte("-"), []byte("db-2"), []byte("DB"), nil}
var nameExts = [][]byte{[]byte("pb.gz")}

// genNameBuild: NameTimestamp / BuildName against the model, and the round-trip oracle.
func genNameBuild(g *Gen, n int) {
	n = scaleBudget(g, n)
	bnd := nameBoundaryTS()
	for _, t := range bnd {
		g.Emit("ts-boundary", fmt.Sprintf("name.ts %d", t))
		g.Emit("roundtrip-boundary", fmt.Sprintf("prop.c15.roundtrip 6462 6931 4758 [] %d 70622e677a", t))
	}
	// every day of the range once (thorough), a stride otherwise: the date table itself
	stride := uint64(97)
	if g.Thorough() {
		stride = 1
	}
	for d := uint64(0); d <= 106751; d += stride {
		t := d*86400000000000 + uint64(g.R.Int63n(86400000000000))
		if t > maxNanos {
			t = maxNanos
		}
		g.Emit("ts-day", fmt.Sprintf("name.ts %d", t))
	}
	g.Emit("ts-range", fmt.Sprintf("name.ts %d", uint64(1)<<63))
	for _, db := range nameDBs {
		for _, inst := range [][]byte{[]byte("i1"), []byte("host-1"), nil} {
			for _, ex := range [][][]byte{nil, {[]byte("A1")}, {[]byte("A1"), []byte("B")}, {nil}} {
				args := fmt.Sprintf("%s %s 4758 %s 1700000000123456789 70622e677a", hx(db), hx(inst), hxList(ex))
				g.Emit("build-small", "name.build "+args)
				g.Emit("roundtrip-small", "prop.c15.roundtrip "+args)
			}
		}
	}
	for i := 0; i < n; i++ {
		t := randNameTS(g.R, bnd)
		g.Emit("ts-rand", fmt.Sprintf("name.ts %d", t))
		db, inst, gen := randSafe(g.R, 0, 12), randSafe(g.R, 0, 20), randSafe(g.R, 0, 4)
		ex := randExtras(g.R)
		ext := nameExts[g.R.Intn(len(nameExts))]
		args := fmt.Sprintf("%s %s %s %s %d %s", hx(db), hx(inst), hx(gen), hxList(ex), t, hx(ext))
		g.Emit("build-rand", "name.build "+args)
		g.Emit("roundtrip-rand", "prop.c15.roundtrip "+args)
		if i%8 == 0 {
			// components outside the safe alphabet: BuildName is still compared, the oracle
			// reports pre-false
			db2 := randBytes(g.R, 1+g.R.Intn(6))
			args := fmt.Sprintf("%s %s %s %s %d %s", hx(db2), hx(inst), hx(gen), hxList(ex), t, hx(ext))
			g.Emit("build-unsafe", "name.build "+args)
			g.Emit("roundtrip-unsafe", "prop.c15.roundtrip "+args)
			g.Emit("buildts-unsafe", fmt.Sprintf("name.buildts %s %s %s %s %s %s", hx(db2), hx(inst), hx(randBytes(g.R, 1+g.R.Intn(30))), hx(gen), hxList(ex), hx(randBytes(g.R, g.R.Intn(6)))))
		}
	}
}

var orderDeltas = []uint64{1, 2, 9, 10, 999, 1000, 999999, 1000000, 999999999, 1000000000, 1000000001,
	59000000000, 60000000000, 3600000000000, 86399999999999, 86400000000000, 86400000000001,
	28 * 86400000000000, 29 * 86400000000000, 30 * 86400000000000, 31 * 86400000000000,
	365 * 86400000000000, 366 * 86400000000000, 36524 * 86400000000000}

// genNameOrder: the order, listing and foreign-prefix oracles on name pairs / listings.
func genNameOrder(g *Gen, n int) {
	n = scaleBudget(g, n)
	bnd := nameBoundaryTS()
	emitPair := func(class string, t1, t2 uint64) {
		db, inst := nameDBs[g.R.Intn(len(nameDBs)-1)], randSafe(g.R, 1, 8)
		g1, g2 := []byte("GX"), []byte("GX")
		var e1, e2 [][]byte
		switch g.R.Intn(4) {
		case 0: // what follows the timestamp differs, against the order of the timestamps
			g1, g2 = []byte("zz"), []byte("-")
			if t1 > t2 {
				g1, g2 = g2, g1
			}
		case 1:
			e1, e2 = randExtras(g.R), randExtras(g.R)
			g1, g2 = randSafe(g.R, 0, 3), randSafe(g.R, 0, 3)
		}
		g.Emit(class, fmt.Sprintf("prop.c15.order %s %s %s %s %d %s %s %d", hx(db), hx(inst), hx(g1), hxList(e1), t1, hx(g2), hxList(e2), t2))
	}
	// boundaries against their neighbours
	for _, b := range bnd {
		for _, d := range []uint64{1, 1000000000, 86400000000000} {
			if b >= d {
				emitPair("pair-boundary", b-d, b)
				emitPair("pair-boundary", b, b-d)
			}
		}
		emitPair("pair-equal", b, b)
	}
	for i := 0; i < n; i++ {
		t1 := randNameTS(g.R, bnd)
		var t2 uint64
		switch g.R.Intn(3) {
		case 0:
			t2 = randNameTS(g.R, bnd)
		default:
			d := orderDeltas[g.R.Intn(len(orderDeltas))]
			if g.R.Intn(2) == 0 {
				d = uint64(g.R.Int63n(int64(d))) + 1
			}
			if t1 >= d && g.R.Intn(2) == 0 {
				t2 = t1 - d
			} else if t1+d <= maxNanos {
				t2 = t1 + d
			} else {
				t2 = t1 - d
			}
		}
		emitPair("pair-rand", t1, t2)
		// a listing of 1..8 snapshots of one instance
		k := 1 + g.R.Intn(8)
		ts := make([]string, k)
		base := randNameTS(g.R, bnd)
		for j := range ts {
			t := randNameTS(g.R, bnd)
			if g.R.Intn(2) == 0 { // close to each other
				d := orderDeltas[g.R.Intn(len(orderDeltas))] * uint64(g.R.Intn(4))
				if base+d <= maxNanos {
					t = base + d
				}
			}
			ts[j] = fmt.Sprint(t)
		}
		g.Emit("listing", fmt.Sprintf("prop.c15.listing %s %s %s", hx(nameDBs[g.R.Intn(len(nameDBs)-1)]), hx(randSafe(g.R, 1, 8)), strings.Join(ts, ",")))
		// database names that are prefixes / extensions of each other
		d1 := randSafe(g.R, 0, 6)
		var d2 []byte
		switch g.R.Intn(4) {
		case 0:
			d2 = append(append([]byte{}, d1...), randSafe(g.R, 1, 3)...)
		case 1:
			d2 = append(append([]byte{}, d1...), '-')
		case 2:
			if len(d1) > 0 {
				d2 = d1[:len(d1)-1]
			}
		default:
			d2 = randSafe(g.R, 0, 6)
		}
		g.Emit("foreign", fmt.Sprintf("prop.c15.foreign %s %s %s %d", hx(d1), hx(d2), hx(randSafe(g.R, 0, 5)), randNameTS(g.R, bnd)))
	}
	// unsafe database names can collide with the separator: outside the property's quantifier,
	// reported as pre-false on both sides
	g.Emit("foreign-unsafe", fmt.Sprintf("prop.c15.foreign %s %s 69 5", hx([]byte("a")), hx([]byte("a__b"))))
}

var badTimestamps = []string{
	"20231300-000000-000000000", // month 00 .. 13
	"20230001-000000-000000000",
	"20231301-000000-000000000",
	"20230100-000000-000000000", // day 00
	"20230132-000000-000000000",
	"20230431-000000-000000000", // day 31 in 30-day months
	"20230631-000000-000000000",
	"20230931-000000-000000000",
	"20231131-000000-000000000",
	"20230430-000000-000000000",
	"20230229-000000-000000000", // 29 Feb, common years
	"21000229-000000-000000000",
	"19000229-000000-000000000",
	"20000229-000000-000000000", // 29 Feb, leap years
	"20240229-000000-000000000",
	"24000229-000000-000000000",
	"20230230-000000-000000000",
	"20230101-240000-000000000", // hour 24, minute 60, second 60
	"20230101-236000-000000000",
	"20230101-235960-000000000",
	"20230101-235959-999999999",
	"00000101-000000-000000000", // years 0000, 0001, 9999, before 1970
	"00000229-000000-000000000",
	"00010101-000000-000000000",
	"99991231-235959-999999999",
	"19691231-235959-999999999",
	"16770921-001243-145224192",
	"22620411-234716-854775807",
	"22620411-234716-854775808",
	"20230101-000000-+12345678", // the fraction is read by atoi: signs
	"20230101-000000--00000000",
	"20230101-000000--00000001",
	"20230101-000000-+00000000",
	"20230101-000000-+-0000000",
	"20230101-000000-++0000000",
	"20230101-000000-1234+6789",
	"20230101-000000-12345678 ",
	"20230101-000000- 12345678",
	"+0230101-000000-000000000",
	"-0230101-000000-000000000",
	"2+230101-000000-000000000",
	"2023+101-000000-000000000",
	"202301+1-000000-000000000",
	"20230101-+10000-000000000",
	"20230101-1 0000-000000000",
	"20230101-1:0000-000000000",
	"20230101-1x0000-000000000",
	"20230101-0000 0-000000000",
	"20230101 000000-000000000", // separators
	"20230101_000000-000000000",
	"20230101-000000.000000000",
	"20230101-000000_000000000",
	"20230101-000000,000000000",
	"20230101.000000-000000000",
	"2023010-1000000-000000000",
	"20230101-00000-0000000000",
	"20230101-000000-00000000",   // widths
	"20230101-000000-0000000000", //
	"2023011-000000-000000000",
	"020230101-000000-000000000",
	"20230101-000000-000000000 ",
	" 20230101-000000-000000000",
	"20230101-000000-",
	"20230101-000000",
	"20230101",
	"",
	"2023010a-000000-000000000", // non-digits
	"2023x101-000000-000000000",
	"x0230101-000000-000000000",
	"20230101-00000x-000000000",
	"20230101-000000-00000000x",
	"20230101-000000-x00000000",
	"2023\xd9\xa1101-000000-00000000",     // Arabic-Indic digit (2 bytes), total 25 bytes
	"20230101-000000-0000000\xef\xbc\x91", // full-width digit one (3 bytes)
	"20230101-000000-00000\x00000",
	"20230101T000000-000000000",
	"20230101-000000-000000000Z",
}

// mkName assembles fields the way BuildName does.
func mkName(fields []string, ext string) string {
	return strings.Join(fields, "__") + "." + ext
}

// genNameParse: arbitrary strings fed to ParseName (and the "accepted names rebuild" oracle).
func genNameParse(g *Gen, n int) {
	n = scaleBudget(g, n)
	emit := func(class, name string) {
		g.Emit(class, "name.parse "+hx([]byte(name)))
		g.Emit(class+"/oracle", "prop.c15.parsed "+hx([]byte(name)))
	}
	good := "20231114-221320-123456789"
	for _, ts := range badTimestamps {
		emit("bad-ts", mkName([]string{"db", "i1", ts, "GX"}, "pb.gz"))
	}
	// every position of the timestamp replaced by a few bytes
	for i := 0; i < len(good); i++ {
		for _, c := range []byte{'-', '.', '_', ' ', '+', '0', '9', ':', 'a', '/', 0x80} {
			b := []byte(good)
			b[i] = c
			emit("ts-pos", mkName([]string{"db", "i1", string(b), "GX"}, "pb.gz"))
		}
	}
	// all valid-looking two-digit fields: month, day, hour, minute, second 00..99
	for v := 0; v < 100; v++ {
		emit("ts-field", mkName([]string{"db", "i1", fmt.Sprintf("2023%02d15-000000-000000000", v), "GX"}, "pb.gz"))
		emit("ts-field", mkName([]string{"db", "i1", fmt.Sprintf("202402%02d-000000-000000000", v), "GX"}, "pb.gz"))
		emit("ts-field", mkName([]string{"db", "i1", fmt.Sprintf("20230115-%02d0000-000000000", v), "GX"}, "pb.gz"))
		emit("ts-field", mkName([]string{"db", "i1", fmt.Sprintf("20230115-00%02d00-000000000", v), "GX"}, "pb.gz"))
		emit("ts-field", mkName([]string{"db", "i1", fmt.Sprintf("20230115-0000%02d-000000000", v), "GX"}, "pb.gz"))
	}
	// every day number of every month in a leap, a common, a century-common and a 400-year
	for _, y := range []int{2023, 2024, 2100, 2000, 0, 4, 100, 400, 9999} {
		for m := 1; m <= 12; m++ {
			for _, d := range []int{0, 1, 28, 29, 30, 31, 32} {
				emit("ts-day", mkName([]string{"db", "i1", fmt.Sprintf("%04d%02d%02d-120000-000000001", y, m, d), "GX"}, "pb.gz"))
			}
		}
	}
	// structure
	for _, name := range []string{
		"", ".", "..", "pb.gz", ".pb.gz", "__.pb.gz", "____.pb.gz", "______.pb.gz", "________.pb.gz",
		"db__i1__" + good + "__GX", "db__i1__" + good + "__GX.", "db__i1__" + good + "__GX.pb", "db__i1__" + good + "__GX.gz",
		"db__i1__" + good + "__GX.pb.gz.", "db__i1__" + good + "__GX.pb.gz.tmp", "db__i1__" + good + "__GX.PB.GZ",
		"db__i1__" + good + "__GX..pb.gz", "db__i1__" + good + "__GX.x.pb.gz", "db.x__i1__" + good + "__GX.pb.gz",
		"db__i1__" + good + ".pb.gz", "db__i1.pb.gz", "db.pb.gz", "db__" + good + "__GX.pb.gz",
		"db__i1__" + good + "__.pb.gz", "db__i1__" + good + "__GX__.pb.gz", "db__i1__" + good + "__GX__A1__B__.pb.gz",
		"db__i1__" + good + "__GX__A1__B2__C3__D4__E5.pb.gz", "__i1__" + good + "__GX.pb.gz", "db____" + good + "__GX.pb.gz",
		"db___i1__" + good + "__GX.pb.gz", "db__i1___" + good + "__GX.pb.gz", "db__i1__" + good + "___GX.pb.gz",
		"db__i1__" + good + "____GX.pb.gz", "db_i1__" + good + "__GX.pb.gz", "_db__i1__" + good + "__GX.pb.gz",
		"db__i1_" + "_" + "_" + good + "_" + "__GX.pb.gz", "d_b__i_1__" + good + "__G_X__A_1.pb.gz",
		"db__i1__" + good + "__GX\n.pb.gz", "db__i1__" + good + "__GX.pb.gz\n", "dé__ï1__" + good + "__GX.pb.gz",
		"db__i1__" + good + "__GX.pb.gz__x", "db/x__i1__" + good + "__GX.pb.gz", "db__i1__" + good + "__GX.pb.gz.pb.gz",
		"other__i1__" + good + "__GX.pb.gz", "db__i1__" + good + "__GX__db__i1__" + good + "__GX.pb.gz",
	} {
		emit("structure", name)
	}
	// small scope, exhaustive: all strings over {'_', 'a', '.'} up to length 5, alone and in
	// front of a valid tail
	alpha := []byte{'_', 'a', '.'}
	var rec func(prefix []byte, depth int)
	rec = func(prefix []byte, depth int) {
		emit("small", string(prefix))
		emit("small-tail", string(prefix)+"__"+good+"__GX.pb.gz")
		emit("small-tail2", string(prefix)+"_"+good+"__GX.pb.gz")
		if depth == 0 {
			return
		}
		for _, c := range alpha {
			rec(append(append([]byte{}, prefix...), c), depth-1)
		}
	}
	depth := 4
	if g.Thorough() {
		depth = 6
	}
	rec(nil, depth)
	bnd := nameBoundaryTS()
	for i := 0; i < n; i++ {
		// a valid name, then 0..3 mutations
		fields := []string{string(randSafe(g.R, 0, 6)), string(randSafe(g.R, 0, 8)), "", string(randSafe(g.R, 0, 3))}
		for _, e := range randExtras(g.R) {
			fields = append(fields, string(e))
		}
		ts := []byte(time.Unix(0, int64(randNameTS(g.R, bnd))).UTC().Format("20060102-150405.000000000"))
		ts[15] = '-'
		if g.R.Intn(3) == 0 { // random digits everywhere: mostly invalid dates
			for j := range ts {
				if j != 8 && j != 15 {
					ts[j] = byte('0' + g.R.Intn(10))
				}
			}
			if g.R.Intn(2) == 0 { // but a plausible month/day/time
				copy(ts[4:], fmt.Sprintf("%02d%02d", 1+g.R.Intn(12), 26+g.R.Intn(6)))
				copy(ts[9:], fmt.Sprintf("%02d%02d%02d", g.R.Intn(25), g.R.Intn(61), g.R.Intn(61)))
			}
		}
		fields[2] = string(ts)
		name := []byte(mkName(fields, []string{"pb.gz", "pb.gz", "pb.gz", "pb", "gz", "", "tmp", "pb.gz.x"}[g.R.Intn(8)]))
		for k := g.R.Intn(4); k > 0 && len(name) > 0; k-- {
			p := g.R.Intn(len(name))
			switch g.R.Intn(7) {
			case 0:
				name[p] = "_.-+ 0a9"[g.R.Intn(8)]
			case 1:
				name = append(name[:p], name[p+1:]...)
			case 2:
				name = append(name[:p], append([]byte{"_.-0"[g.R.Intn(4)]}, name[p:]...)...)
			case 3:
				name = append(name[:p], append([]byte("__"), name[p:]...)...)
			case 4:
				name[p] = byte(g.R.Intn(256))
			case 5:
				name = name[:p]
			case 6:
				q := g.R.Intn(len(name))
				name[p], name[q] = name[q], name[p]
			}
		}
		emit("mutated", string(name))
		if i%4 == 0 {
			emit("random-bytes", string(randBytes(g.R, g.R.Intn(60))))
		}
	}
}

// genSanitize: arbitrary instance names, including invalid UTF-8, through the real instanceID().
func genSanitize(g *Gen, n int) {
	n = scaleBudget(g, n)
	emit := func(class string, b []byte) {
		if len(b) == 0 {
			return
		}
		g.Emit(class, "name.sanitize "+hx(b))
		g.Emit(class+"/oracle", "prop.c15.sanitize "+hx(b))
	}
	for c := 0; c < 256; c++ {
		emit("byte", []byte{byte(c)})
		emit("byte-ctx", []byte{'a', byte(c), 'z'})
		emit("byte-cont", []byte{byte(c), 0x80, 0x80, 0x80, 'z'})
	}
	// UTF-8 decoder edges: every interesting lead byte with boundary continuation bytes,
	// complete and truncated
	leads := []byte{0x7f, 0x80, 0xbf, 0xc0, 0xc1, 0xc2, 0xdf, 0xe0, 0xe1, 0xec, 0xed, 0xee, 0xef, 0xf0, 0xf1, 0xf3, 0xf4, 0xf5, 0xf7, 0xf8, 0xff}
	conts := []byte{0x00, 0x7f, 0x80, 0x8f, 0x90, 0x9f, 0xa0, 0xbf, 0xc0, 0xff}
	for _, l := range leads {
		for _, c1 := range conts {
			emit("utf8-2", []byte{l, c1})
			emit("utf8-2z", []byte{l, c1, 'z'})
			for _, c2 := range []byte{0x7f, 0x80, 0xbf, 0xc0} {
				emit("utf8-3", []byte{l, c1, c2})
				emit("utf8-3z", []byte{'a', l, c1, c2, 'z'})
				for _, c3 := range []byte{0x7f, 0x80, 0xbf, 0xc0} {
					emit("utf8-4", []byte{l, c1, c2, c3})
					emit("utf8-4z", []byte{l, c1, c2, c3, 'z', '_'})
				}
			}
		}
	}
	for _, s := range []string{"host", "host-1", "host_1", "host.example.com", "my host", "ns1.example.com.", "a__b", "a.b__c.d",
		"Ünïcödé", "日本語", "host\x00", "\xff\xfe", "a\u0080b", "a߿b", "aࠀb", "a￿b", "a\U00010000b", "a\U0010ffffb", "�",
		"\xed\xa0\x80", "\xed\x9f\xbf", "\xf4\x90\x80\x80", "\xf4\x8f\xbf\xbf", "\xe0\x9f\xbf", "\xe0\xa0\x80", "\xf0\x8f\xbf\xbf", "\xf0\x90\x80\x80",
		"-", "--", "A-Z", "0", strings.Repeat("a.", 300), strings.Repeat("\xe2\x82", 100)} {
		emit("named", []byte(s))
	}
	for i := 0; i < n; i++ {
		switch g.R.Intn(4) {
		case 0:
			emit("rand-bytes", randBytes(g.R, 1+g.R.Intn(24)))
		case 1: // valid UTF-8 of random runes
			var sb strings.Builder
			for k := 1 + g.R.Intn(10); k > 0; k-- {
				switch g.R.Intn(5) {
				case 0:
					sb.WriteRune(rune(g.R.Intn(0x80)))
				case 1:
					sb.WriteRune(rune(0x80 + g.R.Intn(0x780)))
				case 2:
					sb.WriteRune(rune(0x800 + g.R.Intn(0xf800)))
				case 3:
					sb.WriteRune(rune(0x10000 + g.R.Intn(0x100000)))
				default:
					sb.WriteByte(safeAlphabet[g.R.Intn(len(safeAlphabet))])
				}
			}
			emit("rand-utf8", []byte(sb.String()))
		case 2: // valid UTF-8 damaged
			b := []byte("aé日\U0001F600z-_.")
			for k := 1 + g.R.Intn(3); k > 0; k-- {
				p := g.R.Intn(len(b))
				if g.R.Intn(2) == 0 {
					b = append(b[:p], b[p+1:]...)
				} else {
					b[p] = byte(0x80 + g.R.Intn(0x80))
				}
			}
			emit("rand-damaged", b)
		default:
			emit("rand-safe", randSafe(g.R, 1, 30))
		}
	}
}
