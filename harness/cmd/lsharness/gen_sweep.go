package main

import (
	"fmt"
	"math"
	"strings"
)

// genSweep: sweeper passes over DBIs large enough to be chopped into slices (the scanner
// checks its deadline every 1000 entries), with application writes at the slice boundaries
// aimed at the resume key, its neighbours, keys behind and ahead.
func genSweep(g *Gen, n int) {
	count := n / 40
	if count < 8 {
		count = 8
	}
	for s := 0; s < count; s++ {
		native := g.R.Intn(2) == 0
		lines := []string{"clock.reset", fmt.Sprintf("env.new a %s 0 0 0 -", b2s(native))}
		sizes := []int{0, 1, 999, 1000, 1001, 2000, 2500, 3300}
		var dbis []string
		nd := 1 + g.R.Intn(2)
		for d := 0; d < nd; d++ {
			name := []string{"t", "u"}[d]
			if !native {
				name = "_sync_shadow_" + name
				if g.R.Intn(2) == 0 {
					// the application DBI next to it holds plain values: must never be touched
					lines = append(lines, fmt.Sprintf("env.app a c:%s:0,p:%s:6b303030303030:76,p:%s:7a:-", hx([]byte(name[13:])), hx([]byte(name[13:])), hx([]byte(name[13:]))))
				}
			}
			size := sizes[g.R.Intn(len(sizes))]
			if g.Thorough() && g.R.Intn(3) == 0 {
				size = 5000 + g.R.Intn(4000)
			}
			lines = append(lines, fmt.Sprintf("env.fill a %s 0 %d %d", hx([]byte(name)), size, g.R.Uint64()>>1))
			dbis = append(dbis, name)
		}
		lines = append(lines, "env.digest a")
		// application batches at slice boundaries
		var batches []string
		for b := 0; b < 4; b++ {
			if g.R.Intn(3) == 0 {
				batches = append(batches, "-")
				continue
			}
			var ops []string
			for j := 0; j < 1+g.R.Intn(4); j++ {
				dbi := dbis[g.R.Intn(len(dbis))]
				// resume key of boundary b in this DBI is k000999 + 1000*b (if nothing was added before)
				base := 1000*(b+1) - 1
				idx := base + []int{0, 0, 1, -1, -500, 500, 2}[g.R.Intn(7)]
				if idx < 0 {
					idx = 0
				}
				key := []byte(fmt.Sprintf("k%06d", idx))
				if g.R.Intn(5) == 0 {
					key = append(key, 'x') // a new key between existing ones
				}
				switch g.R.Intn(4) {
				case 0:
					ops = append(ops, fmt.Sprintf("d:%s:%s", hx([]byte(dbi)), hx(key)))
				case 1: // an expired marker written by the application mid-pass
					ops = append(ops, fmt.Sprintf("p:%s:%s:%s", hx([]byte(dbi)), hx(key), hx(mkStored(uint64(g.R.Intn(4)), 9, 0, 1, 0, 0, nil))))
				case 2: // a young marker
					ops = append(ops, fmt.Sprintf("p:%s:%s:%s", hx([]byte(dbi)), hx(key), hx(mkStored(uint64(5+g.R.Intn(3)), 9, 0, 1, 0, 0, nil))))
				default:
					ops = append(ops, fmt.Sprintf("p:%s:%s:%s", hx([]byte(dbi)), hx(key), hx(mkStored(uint64(g.R.Intn(8)), 9, 0, 0, g.R.Intn(2), 0, []byte("w")))))
				}
			}
			batches = append(batches, strings.Join(ops, ","))
		}
		cutoff := g.R.Intn(9)
		lines = append(lines, fmt.Sprintf("sweep.pass a %d 1000 %s", cutoff, strings.Join(batches, "/")))
		lines = append(lines, "env.digest a")
		if g.R.Intn(2) == 0 {
			// a second pass finds nothing more unless the application added expired markers behind the cursor
			lines = append(lines, fmt.Sprintf("sweep.pass a %d 1000 -", cutoff), "env.digest a")
		}
		g.Emit(map[bool]string{true: "native", false: "shadow"}[native], lines...)
	}
	// small DBIs with full dumps (no slicing): every entry class around the cut-off
	for c := 0; c < 9; c++ {
		lines := []string{"clock.reset", "env.new a 1 0 0 0 -", "env.app a c:74:0"}
		var ops []string
		for ts := uint64(0); ts < 8; ts++ {
			ops = append(ops, fmt.Sprintf("p:74:%s:%s", hx([]byte(fmt.Sprintf("d%d", ts))), hx(mkStored(ts, 1, 0, 1, 0, 0, nil))))
			ops = append(ops, fmt.Sprintf("p:74:%s:%s", hx([]byte(fmt.Sprintf("l%d", ts))), hx(mkStored(ts, 1, 0, 0, 0, 0, []byte("v")))))
			ops = append(ops, fmt.Sprintf("p:74:%s:%s", hx([]byte(fmt.Sprintf("x%d", ts))), hx(mkStored(ts, 1, 0, 1, 1, 0, nil))))
		}
		lines = append(lines, "env.app a "+strings.Join(ops, ","), fmt.Sprintf("sweep.pass a %d 1000 -", c), "env.dump a")
		g.Emit("small", lines...)
	}
	// a value without a header aborts the pass with an error
	g.Emit("bad-header", "clock.reset", "env.new a 1 0 0 0 -", "env.app a c:74:0,p:74:61:76", "sweep.pass a 5 1000 -", "env.dump a")
}

// genSweepWall: the sweeper's wall-clock cut-off (now - retention): markers and live entries of
// ages around the retention period, in particular inside the band between the loader's shortened
// retention (99 % by default) and the full one.
func genSweepWall(g *Gen, n int) {
	count := 6
	if g.Thorough() {
		count = 40
	}
	days := []float32{2, 1, 0.5, 7, 0.02, 30, 370}
	for s := 0; s < count; s++ {
		d := days[s%len(days)]
		rdMin := float64(d) * 1440
		var toks []string
		for _, f := range []float64{0, 0.3, 0.9, 0.985, 0.992, 0.997, 1.004, 1.02, 1.5, 3} {
			m := uint64(rdMin * f)
			if f > 0.99 && f < 1 && rdMin-float64(m) < 2 {
				continue // too close to the boundary for a wall clock
			}
			if f > 1 && float64(m)-rdMin < 2 {
				continue
			}
			toks = append(toks, fmt.Sprintf("%dD", m))
			if g.R.Intn(2) == 0 {
				toks = append(toks, fmt.Sprintf("%dL", m))
			}
		}
		g.Emit("wall-clock", fmt.Sprintf("sweep.wall %s %d %s", b2s(s%2 == 0), math.Float32bits(d), strings.Join(toks, ",")))
	}
}
