package main

import (
	"fmt"
	"math"
	"strconv"
	"time"

	"github.com/PowerDNS/lightningstream/config"
)

func sweeperCfg(bits string, cutoff string) config.Sweeper {
	b, err := strconv.ParseUint(bits, 10, 32)
	if err != nil {
		panic("bad float bits")
	}
	return config.Sweeper{Enabled: true, RetentionDays: math.Float32frombits(uint32(b)), RetentionLoadCutoffDuration: time.Duration(i64(cutoff))}
}

func init() {
	implOps["cfg.rdmc"] = func(a []string) string {
		sw := sweeperCfg(a[0], a[2])
		if int64(sw.RetentionDuration()) != i64(a[1]) {
			return "err rd-mismatch"
		}
		return fmt.Sprintf("ok %d", int64(sw.RetentionDurationMinusCutoff()))
	}
	implOps["prop.c04.cutoff"] = func(a []string) string {
		sw := sweeperCfg(a[0], a[2])
		rd := int64(sw.RetentionDuration())
		if rd != i64(a[1]) {
			return "err rd-mismatch"
		}
		r := int64(sw.RetentionDurationMinusCutoff())
		if rd >= 0 && r > rd {
			return fmt.Sprintf("FAIL load-cutoff-duration-exceeds-retention rd=%d rdmc=%d", rd, r)
		}
		if rd >= 0 && r < 0 {
			return fmt.Sprintf("FAIL negative-load-cutoff-duration rd=%d rdmc=%d", rd, r)
		}
		return "ok"
	}
}
