package main

import (
	"fmt"
	"math"
	"time"

	"github.com/PowerDNS/lightningstream/config"
)

func genCfg(g *Gen, n int) {
	days := []float32{0, 0.001, 0.5, 1, 7, 30, 370, 3650, 35583, 35584, 35585, 36500, 40000, 50000, 100000, 106000, 106751}
	cutoffs := []int64{0, -1, -int64(time.Hour), 1, int64(time.Second), int64(time.Hour), int64(24 * time.Hour), int64(30 * 24 * time.Hour), math.MaxInt64, math.MinInt64, math.MaxInt64 / 3, math.MaxInt64/4*3 + 1}
	emit := func(d float32, c int64, class string) {
		sw := config.Sweeper{RetentionDays: d}
		rd := int64(sw.RetentionDuration())
		bits := math.Float32bits(d)
		g.Emit(class, fmt.Sprintf("cfg.rdmc %d %d %d", bits, rd, c))
		if d >= 0 {
			g.Emit("oracle/"+class, fmt.Sprintf("prop.c04.cutoff %d %d %d", bits, rd, c))
		}
	}
	for _, d := range days {
		for _, c := range cutoffs {
			emit(d, c, "boundary")
		}
		// cut-offs around the 75 % cap
		sw := config.Sweeper{RetentionDays: d}
		rd := int64(sw.RetentionDuration())
		for _, delta := range []int64{-1, 0, 1} {
			emit(d, rd/4*3+delta, "cap")
			emit(d, rd+delta, "cap")
		}
	}
	for i := 0; i < n; i++ {
		var d float32
		switch g.R.Intn(4) {
		case 0:
			d = float32(g.R.Intn(2000))
		case 1:
			d = g.R.Float32() * 106000
		case 2:
			d = 35000 + g.R.Float32()*2000
		default:
			d = g.R.Float32() * 400
		}
		var c int64
		switch g.R.Intn(4) {
		case 0:
			c = 0
		case 1:
			c = g.R.Int63()
		case 2:
			c = -g.R.Int63n(1 << 50)
		default:
			c = g.R.Int63n(int64(400 * 24 * time.Hour))
		}
		emit(d, c, "rand")
	}
}
