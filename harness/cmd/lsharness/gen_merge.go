package main

import (
	"fmt"
	"strings"
)

var smallVals = [][]byte{nil, []byte("a"), []byte("b"), []byte("ab")}

type storedCase struct {
	b     []byte
	class string
}

func smallStored() []storedCase {
	out := []storedCase{{nil, "absent"}, {make([]byte, 23), "short"}, {mkStored(1, 1, 1, 0, 0, 0, []byte("a")), "badversion"},
		{mkStored(1, 1, 0, 0, 2, 0, nil)[:30], "trunc-ext"}}
	for ts := uint64(0); ts < 4; ts++ {
		for _, fl := range []byte{0, 1} {
			for _, v := range smallVals {
				if fl == 1 && len(v) > 0 {
					continue // deleted ⇒ empty (what Lightning Stream writes)
				}
				for _, ne := range []int{0, 1} {
					out = append(out, storedCase{mkStored(ts, 77, 0, fl, ne, 0, v), "stored"})
				}
			}
		}
	}
	// stored values others may have written: unknown flag bits, deleted with a value
	out = append(out, storedCase{mkStored(2, 77, 0, 0x82, 0, 0, []byte("a")), "stored-odd"})
	out = append(out, storedCase{mkStored(2, 77, 0, 1, 0, 0, []byte("a")), "stored-odd"})
	return out
}

func genMerge(g *Gen, n int) {
	fvs := []int{1, 3}
	if g.Thorough() {
		fvs = []int{1, 2, 3}
	}
	stored := smallStored()
	for _, fv := range fvs {
		for _, defTs := range []uint64{0, 2} {
			for _, cutoff := range []uint64{0, 2} {
				for _, pad := range []bool{false, true} {
					if pad && !g.Thorough() && (fv != 3 || cutoff != 0) {
						continue
					}
					for ts := uint64(0); ts < 4; ts++ {
						for _, v := range smallVals {
							for _, fl := range []uint32{0, 1, 2, 0xff, 256 + 1, 256} {
								for _, st := range stored {
									g.Emit("small/"+st.class, fmt.Sprintf("merge %d %d 9 %d %s 6b %s %d %d %s", fv, defTs, cutoff, b2s(pad), hx(v), ts, fl, hx(st.b)))
								}
							}
						}
					}
					for _, st := range stored {
						g.Emit("clean/"+st.class, fmt.Sprintf("clean %d %d 9 %d %s %s", fv, defTs, cutoff, b2s(pad), hx(st.b)))
					}
				}
			}
		}
	}
	for _, v := range smallVals {
		g.Emit("plain", "plain.merge "+hx(v))
	}
	for i := 0; i < n*4; i++ {
		fv := 1 + g.R.Intn(3)
		defTs := []uint64{0, 0, randTS(g.R)}[g.R.Intn(3)]
		cutoff := []uint64{0, 0, randTS(g.R)}[g.R.Intn(3)]
		ts := randTS(g.R)
		var old []byte
		if g.R.Intn(5) > 0 {
			ots := randTS(g.R)
			if g.R.Intn(2) == 0 {
				ots = ts // force ties
			}
			ov := randBytes(g.R, g.R.Intn(6))
			ofl := byte(0)
			if g.R.Intn(3) == 0 {
				ofl, ov = 1, nil
			}
			old = mkStored(ots, g.R.Uint64(), 0, ofl, []int{0, 0, 0, 1, 3}[g.R.Intn(5)], 0, ov)
			if g.R.Intn(30) == 0 {
				old = old[:g.R.Intn(len(old))]
			}
		}
		v := randBytes(g.R, g.R.Intn(6))
		if old != nil && g.R.Intn(3) == 0 && len(old) >= 24 {
			// same or neighbouring value as stored
			h := 24 + 8*int(old[23])
			if len(old) >= h {
				v = append([]byte{}, old[h:]...)
				if g.R.Intn(2) == 0 && len(v) > 0 {
					v[len(v)-1] ^= 1
				}
			}
		}
		fl := []uint32{0, 0, 1, 1, 2, 0xffffffff, 0x100}[g.R.Intn(7)]
		g.Emit("rand", fmt.Sprintf("merge %d %d %d %d %s %s %s %d %d %s", fv, defTs, 1+g.R.Uint64()>>1, cutoff, b2s(g.R.Intn(4) == 0), hx(randBytes(g.R, 1+g.R.Intn(4))), hx(v), ts, fl, hx(old)))
	}
}

// ---- oracles for C02 ----

func entTok(val []byte, ts uint64, flags uint32) string {
	return fmt.Sprintf("%s/%d/%d", hx(val), ts, flags)
}

func genC02Oracle(g *Gen, n int) {
	genC02Perm(g, n, true)
}

// genMergeOrder: the order-independence oracle without a stale-deletion cut-off (C01: with a
// cut-off the order can matter for stale markers - finding D12 of C02 - which is not a
// convergence question)
func genMergeOrder(g *Gen, n int) { genC02Perm(g, n, false) }

func genC02Perm(g *Gen, n int, withCutoff bool) {
	// all triples over a small well-formed universe, all format versions
	type ent struct {
		v  []byte
		ts uint64
		fl uint32
	}
	var uni []ent
	for ts := uint64(0); ts < 3; ts++ {
		for _, v := range [][]byte{nil, []byte("a"), []byte("b")} {
			uni = append(uni, ent{v, ts, 0})
		}
		uni = append(uni, ent{nil, ts, 1})
	}
	olds := [][]byte{nil}
	for _, e := range uni {
		olds = append(olds, mkStored(e.ts, 5, 0, byte(e.fl), 0, 0, e.v))
	}
	fvs := []int{1, 2, 3}
	cnt := 0
	for _, fv := range fvs {
		for i, a := range uni {
			for j := i; j < len(uni); j++ {
				b := uni[j]
				for k := j; k < len(uni); k++ {
					c := uni[k]
					for oi, old := range olds {
						cnt++
						if !g.Thorough() && (cnt+oi)%3 != 0 {
							continue
						}
						g.Emit("perm-small", fmt.Sprintf("prop.c02.perm %d 0 9 %s %s %s %s", fv, hx(old), entTok(a.v, a.ts, a.fl), entTok(b.v, b.ts, b.fl), entTok(c.v, c.ts, c.fl)))
					}
				}
			}
		}
	}
	for i := 0; i < n; i++ {
		var toks []string
		base := randTS(g.R)
		for j := 0; j < 3; j++ {
			ts := base
			if g.R.Intn(3) == 0 {
				ts = randTS(g.R)
			}
			if g.R.Intn(3) == 0 {
				toks = append(toks, entTok(nil, ts, 1))
			} else {
				toks = append(toks, entTok(randBytes(g.R, g.R.Intn(3)), ts, 0))
			}
		}
		var old []byte
		if g.R.Intn(2) == 0 {
			old = mkStored(base, 3, 0, 0, g.R.Intn(2), 0, randBytes(g.R, g.R.Intn(3)))
		}
		g.Emit("perm-rand", fmt.Sprintf("prop.c02.perm %d %s 9 %s %s", 1+g.R.Intn(3), b2s(g.R.Intn(3) == 0), hx(old), strings.Join(toks, " ")))
	}
	if !withCutoff {
		genMergeStep(g, n)
		return
	}
	// with a cut-off: all triples again (timestamps 1..3 against cut-offs 2 and 3)
	cnt = 0
	for _, cutoff := range []uint64{2, 3} {
		for i, a := range uni {
			for j := i; j < len(uni); j++ {
				b := uni[j]
				for k := j; k < len(uni); k++ {
					c := uni[k]
					for oi, old := range olds {
						cnt++
						if !g.Thorough() && (cnt+oi)%5 != 0 {
							continue
						}
						g.Emit("permc-small", fmt.Sprintf("prop.c02.permc 3 %d 0 9 %s %s %s %s", cutoff, hx(old), entTok(a.v, a.ts+1, a.fl), entTok(b.v, b.ts+1, b.fl), entTok(c.v, c.ts+1, c.fl)))
					}
				}
			}
		}
	}
	genMergeStep(g, n)
}

// genMergeStep: the single-step oracle (never backwards, untouched when not winning, the
// winner is the last-writer-wins winner whatever the cut-off, stale markers refused only for
// absent keys) over the same space as the merge stream (any cutoff / default ts)
func genMergeStep(g *Gen, n int) {
	fvs := []int{1, 2, 3}
	stored := smallStored()
	for _, fv := range fvs {
		for _, defTs := range []uint64{0, 2} {
			for _, cutoff := range []uint64{0, 2} {
				for ts := uint64(0); ts < 4; ts++ {
					for _, v := range smallVals {
						for _, fl := range []uint32{0, 1} {
							if fl == 1 && len(v) > 0 {
								continue
							}
							for _, st := range stored {
								g.Emit("step-small", fmt.Sprintf("prop.c02.step %d %d 9 %d 0 %s %d %d %s", fv, defTs, cutoff, hx(v), ts, fl, hx(st.b)))
							}
						}
					}
				}
			}
		}
	}
}
