package main

import (
	"bytes"
	"fmt"
	"sort"
	"strings"
)

func genDup(g *Gen, n int) {
	keyLens := []int{0, 1, 2, 5, 254, 255, 256, 300}
	valLens := []int{0, 1, 4, 200, 250, 251, 252, 253, 254, 255, 256, 500, 505, 506, 507, 510, 600}
	for _, kl := range keyLens {
		for _, vl := range valLens {
			k := bytes.Repeat([]byte{'k'}, kl)
			v := bytes.Repeat([]byte{'v'}, vl)
			g.Emit("enc-boundary", fmt.Sprintf("dup.enc %s %s 7 1", hx(k), hx(v)))
		}
	}
	for i := 0; i < n; i++ {
		k := randBytes(g.R, []int{0, 1, 1, 2, 3, 10, 255, 256}[g.R.Intn(8)])
		v := randBytes(g.R, []int{0, 1, 2, 5, 300, 520}[g.R.Intn(6)])
		g.Emit("enc-rand", fmt.Sprintf("dup.enc %s %s %d %d", hx(k), hx(v), g.R.Intn(3), g.R.Intn(3)))
		// decode: valid encodings, mutated ones, and arbitrary keys
		enc := append(append(append([]byte{}, k...), 0, 0, 0, 0), v...)
		if len(enc) > 510 {
			enc = enc[:510]
		}
		enc = append(enc, byte(len(k)))
		switch g.R.Intn(5) {
		case 0:
			if len(enc) > 0 {
				enc[g.R.Intn(len(enc))] ^= byte(1 << g.R.Intn(8))
			}
		case 1:
			enc = enc[:g.R.Intn(len(enc)+1)]
		case 2:
			enc = randBytes(g.R, g.R.Intn(12))
		}
		g.Emit("dec-rand", fmt.Sprintf("dup.dec %s %s 0 %d", hx(enc), hx(v), g.R.Intn(2)))
	}
	for l := 0; l < 9; l++ {
		for last := 0; last < 6; last++ {
			k := make([]byte, l)
			if l > 0 {
				k[l-1] = byte(last)
			}
			g.Emit("dec-small", fmt.Sprintf("dup.dec %s 61 0 0", hx(k)))
		}
	}
	// lists: sorted duplicate-keys contents
	for i := 0; i < n; i++ {
		type pair struct{ k, v []byte }
		var ps []pair
		np := g.R.Intn(6)
		base := randBytes(g.R, 1+g.R.Intn(3))
		long := bytes.Repeat([]byte{'p'}, 505)
		for j := 0; j < np; j++ {
			k := base
			if g.R.Intn(3) == 0 {
				k = randBytes(g.R, 1+g.R.Intn(3))
			}
			var v []byte
			switch g.R.Intn(6) {
			case 0:
				v = append(append([]byte{}, long...), randBytes(g.R, 1+g.R.Intn(3))...) // differs beyond what fits
			case 1:
				v = append([]byte{0, 0, 0, 0}, randBytes(g.R, g.R.Intn(3))...) // zero bytes next to the separator
			case 2:
				v = nil
			default:
				v = randBytes(g.R, g.R.Intn(5))
			}
			if g.R.Intn(8) == 0 {
				k = append(append([]byte{}, k...), 0, 0) // keys containing separator bytes
			}
			ps = append(ps, pair{k, v})
		}
		if g.R.Intn(6) != 0 {
			sort.Slice(ps, func(a, b int) bool {
				if c := bytes.Compare(ps[a].k, ps[b].k); c != 0 {
					return c < 0
				}
				return bytes.Compare(ps[a].v, ps[b].v) < 0
			})
		}
		var toks []string
		for _, p := range ps {
			if len(p.k) == 0 {
				continue
			}
			toks = append(toks, hx(p.k)+"="+hx(p.v))
		}
		arg := "-"
		if len(toks) > 0 {
			arg = strings.Join(toks, ",")
		}
		g.Emit("encall", "dup.encall "+arg)
		g.Emit("oracle-pairs", "prop.c20.pairs "+arg)
	}
}
