package main

import (
	"errors"
	"fmt"
	"os"
	"sync"

	"github.com/PowerDNS/lightningstream/lmdbenv"
	"github.com/PowerDNS/lmdb-go/lmdb"
)

// One scratch LMDB environment per harness process for function-level strategy ops
// (no fsync: contents are throw-away).
var (
	scratchOnce sync.Once
	scratchEnv  *lmdb.Env
	scratchDir  string
)

func scratch() *lmdb.Env {
	scratchOnce.Do(func() {
		dir, err := os.MkdirTemp("", "lsharness_lmdb_")
		if err != nil {
			panic(err)
		}
		scratchDir = dir
		env, err := lmdbenv.NewWithOptions(dir, lmdbenv.Options{Create: true, MaxDBs: 64, MapSize: 1 << 30, EnvFlags: lmdb.NoSync | lmdb.NoMetaSync})
		if err != nil {
			panic(err)
		}
		scratchEnv = env
	})
	return scratchEnv
}

// newEnv creates a fresh throw-away environment (for transaction- and trace-level ops).
func newEnv(mapSize int64) (*lmdb.Env, string) {
	dir, err := os.MkdirTemp("", "lsharness_env_")
	if err != nil {
		panic(err)
	}
	opt := lmdbenv.Options{Create: true, MaxDBs: 64, EnvFlags: envFlags()}
	if mapSize > 0 {
		opt.MapSize = 0
		opt.MapSize.UnmarshalText([]byte(fmt.Sprintf("%dB", mapSize)))
	} else {
		opt.MapSize = 1 << 28
	}
	env, err := lmdbenv.NewWithOptions(dir, opt)
	if err != nil {
		panic(err)
	}
	return env, dir
}

func closeEnv(env *lmdb.Env, dir string) {
	if env != nil {
		_ = env.Close()
	}
	if dir != "" {
		_ = os.RemoveAll(dir)
	}
}

type kvPair struct{ k, v []byte }

func lastTxnID(env *lmdb.Env) int64 {
	info, err := env.Info()
	if err != nil {
		panic(err)
	}
	return info.LastTxnID
}

// fillDBI (re)creates the named DBI with exactly the given content, in one committed txn.
func fillDBI(env *lmdb.Env, name string, flags uint, content []kvPair) error {
	return env.Update(func(txn *lmdb.Txn) error {
		dbi, err := txn.OpenDBI(name, lmdb.Create|flags)
		if err != nil {
			return err
		}
		if err := txn.Drop(dbi, false); err != nil {
			return err
		}
		for _, p := range content {
			if err := txn.Put(dbi, p.k, p.v, 0); err != nil {
				return fmt.Errorf("fill put %x: %w", p.k, err)
			}
		}
		return nil
	})
}

func dumpDBITxn(txn *lmdb.Txn, name string) ([]kvPair, error) {
	dbi, err := txn.OpenDBI(name, 0)
	if err != nil {
		return nil, err
	}
	kvs, err := lmdbenv.ReadDBI(txn, dbi)
	if err != nil {
		return nil, err
	}
	out := make([]kvPair, len(kvs))
	for i, kv := range kvs {
		out[i] = kvPair{append([]byte{}, kv.Key...), append([]byte{}, kv.Val...)}
	}
	return out, nil
}

func dumpDBI(env *lmdb.Env, name string) (out []kvPair, err error) {
	err = env.View(func(txn *lmdb.Txn) error {
		out, err = dumpDBITxn(txn, name)
		return err
	})
	return
}

func isBadValSize(err error) bool {
	var e *lmdb.OpError
	if errors.As(err, &e) {
		return e.Errno == lmdb.BadValSize
	}
	return lmdb.IsErrno(err, lmdb.BadValSize)
}

func envFlags() uint {
	if os.Getenv("LSH_SYNC") != "" {
		return 0
	}
	return lmdb.NoSync | lmdb.NoMetaSync
}
