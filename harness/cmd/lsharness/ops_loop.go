package main

import (
	"context"
	"errors"
	"fmt"
	"os"
	"runtime"
	"runtime/debug"
	"sort"
	"strings"
	"sync"
	"time"

	"github.com/PowerDNS/lightningstream/config"
	"github.com/PowerDNS/lightningstream/lmdbenv/header"
	"github.com/PowerDNS/lightningstream/snapshot"
	"github.com/PowerDNS/lightningstream/syncer"
	"github.com/PowerDNS/lightningstream/syncer/events"
	"github.com/PowerDNS/lightningstream/syncer/hooks"
	"github.com/PowerDNS/lightningstream/syncer/receiver"
	"github.com/PowerDNS/simpleblob"
	"github.com/PowerDNS/simpleblob/backends/memory"
	"github.com/sirupsen/logrus"
)

// Trace level: real syncers run their real sync loop in a goroutine and are single-stepped
// through the guard-tagged yield points. One `loop.go` releases the loop until the next yield
// point and reports what is observable there (yield point, bucket, full LMDB dump).

// loopStore: the shared bucket seen by one instance, with scripted Store failures.
type loopStore struct {
	simpleblob.Interface
	mu         sync.Mutex
	failStores int
	failLists  int
	stores     int
	lists      int
	cleanLists int  // List calls made by the instance's cleaner
	failLoads  int  // the next Load calls fail (transient download failures)
	dead       bool // the instance "crashed": nothing it still attempts reaches the bucket
}

var errInjected = errors.New("injected storage failure")
var errD13 = errors.New("D13")

func (f *loopStore) Store(ctx context.Context, name string, data []byte) error {
	f.mu.Lock()
	if f.dead {
		f.mu.Unlock()
		return context.Canceled
	}
	if f.failStores > 0 {
		f.failStores--
		f.mu.Unlock()
		return errInjected
	}
	f.stores++
	f.mu.Unlock()
	return f.Interface.Store(ctx, name, data)
}

func (f *loopStore) List(ctx context.Context, prefix string) (simpleblob.BlobList, error) {
	f.mu.Lock()
	if f.failLists > 0 {
		f.failLists--
		f.mu.Unlock()
		return nil, errInjected
	}
	if calledFromCleaner() {
		f.cleanLists++
	} else {
		f.lists++
	}
	f.mu.Unlock()
	return f.Interface.List(ctx, prefix)
}

func (f *loopStore) Load(ctx context.Context, name string) ([]byte, error) {
	f.mu.Lock()
	if f.failLoads > 0 {
		f.failLoads--
		f.mu.Unlock()
		return nil, errInjected
	}
	f.mu.Unlock()
	return f.Interface.Load(ctx, name)
}

func (f *loopStore) Delete(ctx context.Context, name string) error {
	f.mu.Lock()
	dead := f.dead
	f.mu.Unlock()
	if dead {
		return context.Canceled
	}
	return f.Interface.Delete(ctx, name)
}

// calledFromCleaner: is cleaner.(*Worker).RunOnce on the call stack?
func calledFromCleaner() bool {
	pc := make([]uintptr, 16)
	n := runtime.Callers(2, pc)
	frames := runtime.CallersFrames(pc[:n])
	for {
		fr, more := frames.Next()
		if strings.Contains(fr.Function, "cleaner.(*Worker).RunOnce") {
			return true
		}
		if !more {
			return false
		}
	}
}

type loopInst struct {
	implInst
	fs           *loopStore
	r            *receiver.Receiver
	cancel       context.CancelFunc
	ctx          context.Context
	started      bool
	exited       bool
	exitStr      string
	yieldCh      chan string
	releaseCh    chan struct{}
	exitCh       chan error
	at           string
	delivery     string // observed in the current segment: "inst@symts"
	ownAtStart   bool   // snapshots under this instance's own name existed when the loop started
	cfgArgs      []string
	bgListed     bool
	lsTxnID      uint64               // id Lightning Stream's latest own transaction was opened with
	echo         bool                 // a Store without a preceding application change or start-up (C10)
	earlyUpload  bool                 // a Store while the own newest snapshot found at start-up is not merged yet (C05)
	phantomStore bool                 // SendOnce went on as if stored although no Store call succeeded (C09, C12, C05)
	startNewest  map[string]time.Time // newest snapshot per other instance when the loop started (C16 run-once)
}

var (
	loops      = map[string]*loopInst{}
	loopBySync = map[*syncer.Syncer]*loopInst{}
	loopMu     sync.Mutex
	fleetStore *memory.Backend
)

func fleetReset() {
	tracks = map[string]*loopTrack{}
	prevJoin = nil
	lastSym = 0
	for id, l := range loops {
		stopLoop(l)
		closeEnv(l.env, l.dir)
		delete(loops, id)
	}
	loopMu.Lock()
	loopBySync = map[*syncer.Syncer]*loopInst{}
	loopMu.Unlock()
	fleetStore = memory.New()
	clockReset()
}

func stopLoop(l *loopInst) {
	if l.started && !l.exited {
		l.fs.mu.Lock()
		l.fs.dead = true
		l.fs.mu.Unlock()
		l.cancel()
		// let it run to its exit, releasing it from wherever it is blocked
		deadline := time.After(3 * time.Second)
		for !l.exited {
			select {
			case l.releaseCh <- struct{}{}:
			case <-l.yieldCh:
			case err := <-l.exitCh:
				l.exited = true
				l.exitStr = exitString(err)
			case <-deadline:
				l.exited = true
				l.exitStr = "exit err hang-on-cancel"
			}
		}
	} else if !l.started && l.cancel != nil {
		l.cancel()
	}
}

func exitString(err error) string {
	if err == nil {
		return "exit ok"
	}
	if errors.Is(err, context.Canceled) {
		return "exit err cancelled"
	}
	if errors.Is(err, errInjected) {
		return "exit err store"
	}
	if errors.Is(err, errD13) {
		return "FAIL D13 fault-reading-empty-application-value-at-end-of-data-file"
	}
	return "exit err " + txnErrClass(err)
}

func mkLoop(id string, a []string, env0 *loopInst) *loopInst {
	native, hack, pad, ro, once := a[1] == "1", a[2] == "1", a[3] == "1", a[4] == "1", a[5] == "1"
	l := &loopInst{yieldCh: make(chan string), releaseCh: make(chan struct{}), exitCh: make(chan error, 1), cfgArgs: a}
	l.id = id
	l.native = native
	if env0 != nil {
		l.env, l.dir = env0.env, env0.dir
	} else {
		l.env, l.dir = newEnv(0)
	}
	l.fs = &loopStore{Interface: fleetStore}
	l.st = l.fs
	c, lc := mkConfig(id, native, hack, pad, nil)
	c.OnlyOnce = once
	// the instance's cleaner only runs when the harness says so (loop.clean); with both
	// intervals zero its decisions depend on the order of times only
	c.Storage.Cleanup = config.Cleanup{Enabled: true, Interval: time.Hour}
	// the forced periodic snapshot never becomes due by itself; loop.overdue makes it due
	c.StorageForceSnapshotInterval = time.Hour
	c.StorageRetryCount = int(u64(a[6]))
	c.StoragePollInterval = time.Hour // the harness triggers listings itself
	c.LMDBPollInterval = 50 * time.Microsecond
	ev := events.New()
	hk := hooks.New()
	s, err := syncer.New("db", l.env, l.st, c, lc, syncer.Options{ReceiveOnly: ro, Events: ev, Hooks: hk})
	if err != nil {
		panic(err)
	}
	l.s = s
	l.r = receiver.New(l.st, c, "db", logrus.StandardLogger(), id, ev, hk)
	l.ctx, l.cancel = context.WithCancel(context.Background())
	loopMu.Lock()
	loopBySync[s] = l
	loopMu.Unlock()
	return l
}

// loopAfterRelease, when set, runs once right after a loop has been released from a yield point
var loopAfterRelease func()

func (l *loopInst) cfgRO() bool { return l.cfgArgs[4] == "1" }

func bucketString() string {
	ls, err := fleetStore.List(context.Background(), "db__")
	if err != nil {
		return "?"
	}
	var out []string
	for _, n := range ls.Names() {
		ni, err := snapshot.ParseName(n)
		if err != nil {
			out = append(out, "unparsable:"+n)
			continue
		}
		out = append(out, fmt.Sprintf("%s@%d", ni.InstanceID, realToSym(uint64(ni.Timestamp.UnixNano()))))
	}
	sort.Strings(out)
	if len(out) == 0 {
		return "-"
	}
	return strings.Join(out, ",")
}

func (l *loopInst) observe() string {
	d, err := dumpEnv(&l.implInst)
	if err != nil {
		return "err dump"
	}
	return fmt.Sprintf("at %s B%s %s", l.at, bucketString(), d)
}

// waitIdle waits until the instance's downloaders have done all they can: every one of them is
// waiting on an empty signal channel (nothing to do), or blocked on a token that is only freed
// when the sync loop consumes a snapshot.
func waitIdle(l *loopInst) {
	deadline := time.Now().Add(2 * time.Second)
	ok := 0
	for time.Now().Before(deadline) {
		dlF, _, dcF, _ := l.r.VerifFree()
		l.fs.mu.Lock()
		failing := l.fs.failLoads > 0
		l.fs.mu.Unlock()
		settled, blocked := true, false
		for _, d := range l.r.VerifDownloaders() {
			switch {
			case d[0] == "idle" && d[1] == "nosignal":
			case failing && d[0] != "decoding" && d[0] != "wantDc":
				// downloads keep failing: the downloader retries without getting anywhere
				blocked = true
			case d[0] == "wantDl" && dlF == 0:
				blocked = true
			case d[0] == "wantDc" && dcF == 0:
				blocked = true
			default:
				settled = false
			}
		}
		if settled {
			ok++
			if (!blocked && ok >= 3) || ok >= 25 {
				return
			}
		} else {
			ok = 0
		}
		time.Sleep(50 * time.Microsecond)
	}
	if os.Getenv("VERIF_SLOW") != "" {
		fmt.Fprintln(os.Stderr, "waitIdle timeout", l.id, l.r.VerifDownloaders(), "seen", l.r.VerifLastSeen(), "pending", l.r.VerifPending(), "bucket", bucketString())
	}
}

func init() {
	syncer.VerifYield = func(s *syncer.Syncer, point string) {
		loopMu.Lock()
		l := loopBySync[s]
		loopMu.Unlock()
		if l == nil {
			return // a syncer of the transaction-level ops
		}
		l.yieldCh <- point
		<-l.releaseCh
	}
	syncer.VerifNoteTxn = func(s *syncer.Syncer, txnID header.TxnID) {
		loopMu.Lock()
		l := loopBySync[s]
		loopMu.Unlock()
		if l != nil {
			l.lsTxnID = uint64(txnID)
		}
	}
	syncer.VerifLoadBegin = func(s *syncer.Syncer, instance string, u *snapshot.Update) {
		loopMu.Lock()
		l := loopBySync[s]
		loopMu.Unlock()
		if l == nil {
			return
		}
		l.delivery = fmt.Sprintf("%s@%d", instance, realToSym(uint64(u.NameInfo.Timestamp.UnixNano())))
	}

	implOps["fleet.reset"] = func(a []string) string { fleetReset(); return "ok" }
	implOps["loop.new"] = func(a []string) string {
		if fleetStore == nil {
			fleetReset()
		}
		if old, ok := loops[a[0]]; ok {
			stopLoop(old)
			closeEnv(old.env, old.dir)
		}
		loops[a[0]] = mkLoop(a[0], a, nil)
		return "ok"
	}
	implOps["loop.restart"] = func(a []string) string {
		old := loops[a[0]]
		stopLoop(old)
		var l *loopInst
		if a[1] == "1" {
			closeEnv(old.env, old.dir)
			l = mkLoop(a[0], old.cfgArgs, nil)
		} else {
			l = mkLoop(a[0], old.cfgArgs, old)
		}
		loops[a[0]] = l
		t := trackOf(a[0])
		t.startupStore = true
		t.lsEmpty = false
		// writes not captured before the crash are stamped "in the past" by the start-up capture
		// (documented restart behaviour): the steady-state oracles start afresh
		t.writes = map[string]*trackedWrite{}
		if a[1] == "1" {
			t.appSinceStore = false
		}
		return "ok"
	}
	implOps["loop.app"] = func(a []string) string {
		l := loops[a[0]]
		insts["__loop"] = &l.implInst
		defer delete(insts, "__loop")
		before := appBefore(l)
		txnBefore := lastTxnID(l.env)
		out := implOps["env.app"]([]string{"__loop", a[1]})
		if strings.HasPrefix(out, "ok") {
			trackApp(l, a[1], before, lastTxnID(l.env) > txnBefore)
		}
		return out
	}
	implOps["loop.list"] = func(a []string) string {
		l := loops[a[0]]
		time.Sleep(2 * time.Millisecond) // stay clear of the receiver's own first background listing
		if err := l.r.RunOnce(l.ctx, false); err != nil {
			return "err list"
		}
		waitIdle(l)
		return "ok"
	}
	implOps["bucket.rm"] = func(a []string) string {
		ls, _ := fleetStore.List(context.Background(), "db__"+a[0]+"__")
		for _, n := range ls.Names() {
			ni, err := snapshot.ParseName(n)
			if err == nil && fmt.Sprint(realToSym(uint64(ni.Timestamp.UnixNano()))) == a[1] {
				_ = fleetStore.Delete(context.Background(), n)
			}
		}
		return "ok"
	}
	// loop.overdue <id>: the last snapshot of the instance is suddenly older than the force interval
	// (only while the loop is at its top or asleep: the flag is computed right after the loads)
	implOps["loop.overdue"] = func(a []string) string {
		l := loops[a[0]]
		if l.started && !l.exited && (l.at == "loop.top" || l.at == "loop.sleep") {
			l.s.VerifSetLastSnapshotTime(time.Now().Add(-2 * time.Hour))
			trackOf(l.id).forced = true
		}
		return "ok"
	}
	// loop.loadfail <id> <n>: the next n downloads of this instance fail (and are retried)
	implOps["loop.loadfail"] = func(a []string) string {
		l := loops[a[0]]
		l.fs.mu.Lock()
		l.fs.failLoads = int(u64(a[1]))
		l.fs.mu.Unlock()
		return "ok"
	}
	// loop.clean <id> <now>: one run of the instance's own cleaner on the shared bucket
	implOps["loop.clean"] = func(a []string) string {
		l := loops[a[0]]
		// whatever the receivers of the fleet have listed is downloaded first: a deletion must
		// not race a download (the cleaner's keep interval exists for that; it is zero here)
		for _, o := range loops {
			if o.started && !o.exited {
				waitIdle(o)
			}
		}
		before := map[string]bool{}
		if ls, err := fleetStore.List(context.Background(), "db__"); err == nil {
			for _, n := range ls.Names() {
				before[n] = true
			}
		}
		lastSym = u64(a[1])
		w := beginWindow(u64(a[1]))
		err := l.s.VerifCleaner().RunOnce(context.Background(), time.Now())
		w.end()
		if err != nil {
			return "err list"
		}
		var del []string
		if ls, err := fleetStore.List(context.Background(), "db__"); err == nil {
			for _, n := range ls.Names() {
				delete(before, n)
			}
		}
		for n := range before {
			if ni, err := snapshot.ParseName(n); err == nil {
				del = append(del, fmt.Sprintf("%s@%d", ni.InstanceID, realToSym(uint64(ni.Timestamp.UnixNano()))))
			}
		}
		sort.Strings(del)
		if len(del) == 0 {
			return "ok deleted=-"
		}
		return "ok deleted=" + strings.Join(del, ",")
	}
	// loop.goheld <id> <next|?> <fails> <now> <ops>: the application has a write transaction open
	// (the ops applied, not committed) when the loop is released at its top, and commits while
	// the loop waits for the LMDB write lock: the commit happens before Lightning Stream's next
	// transaction although the loop is already on its way. At other yield points the next step
	// does not start with a write transaction and the commit simply comes first.
	implOps["loop.goheld"] = func(a []string) string {
		l := loops[a[0]]
		finish := func(out string) string {
			if strings.HasPrefix(rewrittenLine, "loop.go ") {
				rewrittenLine = "loop.goheld " + strings.TrimPrefix(rewrittenLine, "loop.go ") + " " + a[4]
			}
			return out
		}
		if l.at != "loop.top" || !l.started || l.exited {
			implOps["loop.app"]([]string{a[0], a[4]})
			return finish(implOps["loop.go"](a[:4]))
		}
		before := appBefore(l)
		txnBefore := lastTxnID(l.env)
		opened := make(chan struct{})
		hold := make(chan struct{})
		done := make(chan string, 1)
		appBeforeCommit = func() { close(opened); <-hold }
		go func() {
			insts["__loopheld"] = &l.implInst
			done <- implOps["env.app"]([]string{"__loopheld", a[4]})
		}()
		select {
		case <-opened:
		case out := <-done: // the transaction failed before it got that far
			appBeforeCommit = nil
			delete(insts, "__loopheld")
			_ = out
			return finish(implOps["loop.go"](a[:4]))
		}
		appBeforeCommit = nil
		loopAfterRelease = func() {
			time.Sleep(2 * time.Millisecond) // the loop reaches env.Update and waits for the lock
			close(hold)
			if out := <-done; strings.HasPrefix(out, "ok") {
				trackApp(l, a[4], before, lastTxnID(l.env) > txnBefore)
			}
			delete(insts, "__loopheld")
		}
		defer func() { loopAfterRelease = nil }()
		return finish(implOps["loop.go"](a[:4]))
	}
	// loop.go <id> <next|?> <fails> <now>
	implOps["loop.go"] = func(a []string) string {
		l := loops[a[0]]
		if l.exited {
			rewrittenLine = fmt.Sprintf("loop.go %s - %s %s", a[0], a[2], a[3])
			return l.observe()
		}
		l.fs.mu.Lock()
		l.fs.failStores = int(u64(a[2]))
		storesBefore := l.fs.stores
		l.fs.mu.Unlock()
		wasSending := l.at == "send.afterTxn"
		l.delivery = ""
		t := trackOf(l.id)
		if l.at == "loop.beforeInfo" {
			t.iter++
		}
		t.txnAtRelease = lastTxnID(l.env)
		lastSym = u64(a[3])
		w := beginWindow(u64(a[3]))
		firstSegment := !l.started
		if !l.started {
			l.started = true
			if _, _, err := newestBlob(fleetStore, l.id); err == nil {
				l.ownAtStart = true
			}
			l.startNewest = map[string]time.Time{}
			if ls, err := fleetStore.List(context.Background(), "db__"); err == nil {
				for _, n := range ls.Names() {
					if ni, err := snapshot.ParseName(n); err == nil && ni.InstanceID != l.id && ni.Timestamp.After(l.startNewest[ni.InstanceID]) {
						l.startNewest[ni.InstanceID] = ni.Timestamp
					}
				}
			}
			go func() {
				defer debug.SetPanicOnFault(debug.SetPanicOnFault(true))
				defer func() {
					if r := recover(); r != nil {
						if !l.native && hasEmptyAppValue(&l.implInst) {
							l.exitCh <- errD13
						} else {
							l.exitCh <- fmt.Errorf("panic: %v", r)
						}
					}
				}()
				l.exitCh <- l.s.VerifSyncLoop(l.ctx, l.env, l.r)
			}()
		} else {
			if l.at == "loop.top" || l.at == "load.afterTxn" {
				waitIdle(l)
			}
			l.releaseCh <- struct{}{}
		}
		if loopAfterRelease != nil {
			loopAfterRelease()
		}
		select {
		case p := <-l.yieldCh:
			l.at = p
		case err := <-l.exitCh:
			l.exited = true
			l.at = exitString(err)
		case <-time.After(5 * time.Second):
			w.end()
			return "err hang"
		}
		if firstSegment && !l.cfgRO() {
			// the cleaner goroutine started with the loop runs once at once: wait for it, so
			// that it happens in this segment (the bucket does not change during it)
			deadline := time.Now().Add(time.Second)
			for time.Now().Before(deadline) {
				l.fs.mu.Lock()
				n := l.fs.cleanLists
				l.fs.mu.Unlock()
				if n >= 1 {
					break
				}
				time.Sleep(50 * time.Microsecond)
			}
			time.Sleep(300 * time.Microsecond) // the run itself (first run: bookkeeping only)
		}
		if l.at == "loop.top" && !l.bgListed {
			// the receiver's own goroutine lists the bucket once when it is started (just before the
			// first loop.top): wait for that listing so that it happens at a fixed point of the schedule
			deadline := time.Now().Add(time.Second)
			for time.Now().Before(deadline) {
				l.fs.mu.Lock()
				n := l.fs.lists
				l.fs.mu.Unlock()
				if n >= 2 {
					break
				}
				time.Sleep(50 * time.Microsecond)
			}
			time.Sleep(200 * time.Microsecond)
			waitIdle(l)
			l.bgListed = true
		}
		w.end()
		// was Lightning Stream's transaction that ended at this yield point left unrecorded by LMDB?
		t.lsEmpty = (l.at == "load.afterTxn" || l.at == "send.afterTxn") && uint64(lastTxnID(l.env)) < l.lsTxnID
		if l.at == "send.afterTxn" {
			// the dump is done: application commits from here on are not in this snapshot
			t.coveredBySend = t.appSinceStore
			t.appSinceStore = false
		}
		if l.at == "send.stored" && wasSending {
			l.fs.mu.Lock()
			stored := l.fs.stores > storesBefore
			l.fs.mu.Unlock()
			if !stored && !l.cfgRO() {
				l.phantomStore = true
			}
		}
		if l.at == "send.stored" {
			if waitingForOwn(l) {
				l.earlyUpload = true
			}
			t.stores++
			if !t.coveredBySend && !t.startupStore && !t.forced {
				l.echo = true
			}
			t.forced = false
			t.coveredBySend = false
			t.startupStore = false
		}
		next := "-"
		if l.delivery != "" {
			next = l.delivery
		}
		rewrittenLine = fmt.Sprintf("loop.go %s %s %s %s", a[0], next, a[2], a[3])
		return l.observe()
	}
}
