package main

import (
	"bytes"
	"context"
	"fmt"
	"sort"
	"strings"

	"github.com/PowerDNS/lightningstream/snapshot"
	"github.com/PowerDNS/lightningstream/syncer"
)

// Implementation-side oracles at trace level (C03, C09, C10 loop part, C05, C01).
// They only read what an outside observer can read: LMDB dumps, the bucket, the yield point.

type trackedWrite struct {
	val   []byte // application value (non-native) or stored bytes (native)
	del   bool
	tag   int    // loop iteration counter when committed
	sym   uint64 // symbolic time of the latest window when committed
	race  bool   // committed at the yield point directly after an EMPTY Lightning Stream write txn
	point string
}

type loopTrack struct {
	writes        map[string]*trackedWrite
	iter          int
	lsEmpty       bool // the LS transaction that ended at the current yield point recorded nothing
	txnAtRelease  int64
	appSinceStore bool
	forced        bool // the forced periodic snapshot was made due (loop.overdue) and not stored yet
	coveredBySend bool // an application change happened before the dump of the send in progress
	stores        int
	startupStore  bool // the next store is the start-up one
}

var tracks = map[string]*loopTrack{}
var lastSym uint64
var prevJoin map[string]lc // C05: join over newest-per-instance snapshots, key -> version

func trackOf(id string) *loopTrack {
	t, ok := tracks[id]
	if !ok {
		t = &loopTrack{writes: map[string]*trackedWrite{}, startupStore: true}
		tracks[id] = t
	}
	return t
}

const trackedDBI = "t"

// decodedNewest returns, per instance, the decoded newest snapshot in the bucket.
func decodedNewest() (map[string]*snapshot.Snapshot, error) {
	ls, err := fleetStore.List(context.Background(), "db__")
	if err != nil {
		return nil, err
	}
	newest := map[string]string{}
	for _, n := range ls.Names() { // sorted: later names overwrite
		ni, err := snapshot.ParseName(n)
		if err != nil {
			continue
		}
		newest[ni.InstanceID] = n
	}
	out := map[string]*snapshot.Snapshot{}
	for inst, n := range newest {
		b, err := fleetStore.Load(context.Background(), n)
		if err != nil {
			return nil, err
		}
		msg, err := snapshot.LoadData(b)
		if err != nil {
			return nil, err
		}
		out[inst] = msg
	}
	return out, nil
}

func snapshotVersions(msg *snapshot.Snapshot, dbi string) (map[string]lc, error) {
	out := map[string]lc{}
	for _, d := range msg.Databases {
		if d.Name() != dbi {
			continue
		}
		ents, err := dbiEntries(d)
		if err != nil {
			return nil, err
		}
		for _, e := range ents {
			del := e.Flags&1 != 0
			v := e.Value
			if del {
				v = nil
			}
			out[string(e.Key)] = lc{true, realToSym(e.TimestampNano), del, v}
		}
	}
	return out, nil
}

// logicalOf returns the logical content (key -> version) of the tracked DBI of an instance.
func logicalOf(l *loopInst) (map[string]lc, map[string][]byte, error) {
	img, err := imageOf(&l.implInst)
	if err != nil {
		return nil, nil, err
	}
	name := trackedDBI
	if !l.native {
		name = syncer.SyncDBIShadowPrefix + trackedDBI
	}
	out := map[string]lc{}
	if d := img.dbis[name]; d != nil {
		for _, p := range d.kvs {
			v, err := decodeStored(p.v)
			if err != nil {
				return nil, nil, err
			}
			out[string(p.k)] = lc{true, realToSym(v.ts), v.del, v.val}
		}
	}
	app := map[string][]byte{}
	if d := img.dbis[trackedDBI]; d != nil {
		for _, p := range d.kvs {
			app[string(p.k)] = p.v
		}
	}
	return out, app, nil
}

// oracleProp is the property being checked (-prop); each trace-level oracle speaks only when its
// own property (or the whole trace level: LOOP, or a replay) is being checked, so that a finding
// of one property is not reported under another.
var oracleProp string

func oracleFor(props ...string) bool {
	if oracleProp == "" || oracleProp == "LOOP" {
		return true
	}
	for _, p := range props {
		if p == oracleProp {
			return true
		}
	}
	return false
}

func checkLoop(l *loopInst) string {
	t := trackOf(l.id)
	if l.echo {
		l.echo = false
		if oracleFor("C10") {
			return "FAIL C10 upload-without-local-change-or-startup"
		}
	}
	if l.phantomStore {
		l.phantomStore = false
		if oracleFor("C09", "C12", "C05") {
			return "FAIL snapshot-treated-as-stored-although-every-store-attempt-failed"
		}
	}
	if l.earlyUpload {
		l.earlyUpload = false
		if oracleFor("C05") {
			return "FAIL C05 uploaded-before-merging-the-own-newest-snapshot-found-at-start-up"
		}
	}
	logical, app, err := logicalOf(l)
	if err != nil {
		return "FAIL stored-value-without-header"
	}
	// ---- C03: a committed application write is still there, unless superseded by a winner
	var keys []string
	for k := range t.writes {
		keys = append(keys, k)
	}
	sort.Strings(keys)
	for _, k := range keys {
		w := t.writes[k]
		cur, present := app[k]
		if l.native {
			if present && bytes.Equal(cur, w.val) {
				continue
			}
			wv, err1 := decodeStored(w.val)
			if !present {
				if oracleFor("C03", "C01") {
					return fmt.Sprintf("FAIL C03 native-entry-removed key=%s", hx([]byte(k)))
				}
				continue
			}
			cv, err2 := decodeStored(cur)
			if err1 != nil || err2 != nil {
				continue
			}
			if !verBeats(cv, wv) {
				if oracleFor("C03", "C01") {
					return fmt.Sprintf("FAIL C03 native-write-replaced-by-non-winner key=%s", hx([]byte(k)))
				}
				continue
			}
			delete(t.writes, k) // superseded
			continue
		}
		same := (w.del && !present) || (!w.del && present && bytes.Equal(cur, w.val))
		if same {
			continue
		}
		// the application's write is gone: legitimate only if the shadow holds a version newer
		// than the moment the application committed (a last-writer-wins winner)
		sv, ok := logical[k]
		if ok && sv.ts > w.sym {
			delete(t.writes, k) // superseded by a later version
			continue
		}
		label := "C03"
		if w.race {
			label = "D9"
		}
		if oracleFor("C03", "C01") {
			return fmt.Sprintf("FAIL %s application-write-destroyed key=%s committed-at=%s", label, hx([]byte(k)), w.point)
		}
	}
	// ---- C09: at the idle point every (not superseded) application write made before this
	// iteration's change check is in the instance's newest snapshot
	if l.at == "loop.sleep" && !l.exited && oracleFor("C09", "C01") {
		newest, err := decodedNewest()
		if err == nil {
			var own map[string]lc
			if msg, ok := newest[l.id]; ok {
				own, _ = snapshotVersions(msg, trackedDBI)
			}
			for _, k := range keys {
				w, ok := t.writes[k]
				if !ok || w.tag >= t.iter {
					continue
				}
				pub, has := own[k]
				okPub := false
				if l.native {
					wv, err := decodeStored(w.val)
					okPub = err == nil && has && (pub.eq(lc{true, wv.ts, wv.del, wv.val}) || lcBeats(pub, lc{true, wv.ts, wv.del, wv.val}))
				} else if w.del {
					okPub = !has || pub.del || pub.ts > w.sym
				} else {
					okPub = has && ((!pub.del && bytes.Equal(pub.val, w.val)) || pub.ts > w.sym)
				}
				if !okPub && !waitingForOwn(l) {
					label := "C09"
					if w.race {
						label = "D9"
					}
					return fmt.Sprintf("FAIL %s committed-change-not-published key=%s committed-at=%s", label, hx([]byte(k)), w.point)
				}
			}
		}
	}
	// ---- C05: the join over the newest snapshots of all instances never decreases
	if newest, err := decodedNewest(); err == nil && oracleFor("C05", "C12") {
		join := map[string]lc{}
		for _, msg := range newest {
			vs, err := snapshotVersions(msg, trackedDBI)
			if err != nil {
				continue
			}
			for k, v := range vs {
				if old, ok := join[k]; !ok || lcBeats(v, old) {
					join[k] = v
				}
			}
		}
		for k, old := range prevJoin {
			nw, ok := join[k]
			if !ok || (!nw.eq(old) && !lcBeats(nw, old)) {
				prevJoin = join
				return fmt.Sprintf("FAIL C05 published-version-lost key=%s had=%s now=%s", hx([]byte(k)), old, nw)
			}
		}
		prevJoin = join
	}
	return "ok"
}

// waitingForOwn: an instance that found snapshots under its own name at start-up must not
// upload before it has merged its own newest one; observable as "own snapshots existed at start
// and none has been loaded yet".
func waitingForOwn(l *loopInst) bool {
	if !l.ownAtStart {
		return false
	}
	_, loaded := l.s.VerifLastByInstance()[l.id]
	return !loaded
}

func init() {
	// prop.c16.once <id>: a run-once loop ends by itself, without error, and not before it has
	// merged the newest snapshot every other instance had in the bucket when it started
	implOps["prop.c16.once"] = func(a []string) string {
		l := loops[a[0]]
		if l == nil {
			return "bad-op"
		}
		if !l.exited {
			return "ok running"
		}
		if l.at != "exit ok" {
			return "ok exited err"
		}
		lb := l.s.VerifLastByInstance()
		var miss []string
		for inst, ts := range l.startNewest {
			if lb[inst].Before(ts) {
				miss = append(miss, inst)
			}
		}
		if len(miss) > 0 {
			sort.Strings(miss)
			return "FAIL run-once-ended-before-merging-the-newest-snapshot-of " + strings.Join(miss, ",")
		}
		return "ok exited ok"
	}
	implOps["prop.loop.check"] = func(a []string) string {
		l := loops[a[0]]
		if l == nil {
			return "bad-op"
		}
		return checkLoop(l)
	}
	// prop.fleet.converged: if the fleet is quiescent (every loop idle, every instance has merged
	// the newest snapshot of every other instance, nothing unpublished) all instances hold
	// identical logical content.
	implOps["prop.fleet.converged"] = func(a []string) string {
		if !oracleFor("C01") {
			return "ok"
		}
		newest, err := decodedNewest()
		if err != nil {
			return "ok"
		}
		var ids []string
		for id := range loops {
			ids = append(ids, id)
		}
		sort.Strings(ids)
		for _, id := range ids {
			l := loops[id]
			if l.exited || !l.started || (l.at != "loop.sleep" && l.at != "loop.top") {
				return "ok"
			}
			lb := l.s.VerifLastByInstance()
			for inst := range newest {
				if inst == id {
					continue
				}
				n, _, err := newestBlob(fleetStore, inst)
				if err != nil {
					return "ok"
				}
				ni, _ := snapshot.ParseName(n)
				if !lb[inst].Equal(ni.Timestamp) {
					return "ok" // not merged yet
				}
			}
			t := trackOf(id)
			if t.appSinceStore {
				return "ok" // unpublished local change
			}
		}
		var ref map[string]lc
		var refApp map[string][]byte
		var refID string
		for _, id := range ids {
			logical, app, err := logicalOf(loops[id])
			if err != nil {
				return "FAIL stored-value-without-header"
			}
			if ref == nil {
				ref, refApp, refID = logical, app, id
				continue
			}
			if len(logical) != len(ref) {
				return fmt.Sprintf("FAIL C01 not-converged %s has %d keys, %s has %d", refID, len(ref), id, len(logical))
			}
			for k, v := range ref {
				if o, ok := logical[k]; !ok || !o.eq(v) {
					return fmt.Sprintf("FAIL C01 not-converged key=%s %s=%s %s=%s", hx([]byte(k)), refID, v, id, o)
				}
			}
			if !loops[id].native {
				for k, v := range refApp {
					if o, ok := app[k]; !ok || !bytes.Equal(o, v) {
						return fmt.Sprintf("FAIL C01 application-dbis-differ key=%s", hx([]byte(k)))
					}
				}
				if len(app) != len(refApp) {
					return "FAIL C01 application-dbis-differ"
				}
			}
		}
		return "ok"
	}
}

// called from the loop ops -------------------------------------------------------------

// appBefore: the application's view (tracked DBI) before a transaction, so that only operations
// with an effect count as the application's writes
func appBefore(l *loopInst) map[string][]byte {
	_, app, err := logicalOf(l)
	if err != nil {
		return nil
	}
	return app
}

func trackApp(l *loopInst, ops string, before map[string][]byte, recorded bool) {
	t := trackOf(l.id)
	if recorded && l.started && !l.exited {
		// LMDB recorded the transaction (whatever its net effect): the loop may upload for it
		t.appSinceStore = true
	}
	if ops == "-" {
		return
	}
	if !l.started || l.exited {
		// writes made while the syncer is down are outside the steady-state properties
		for _, op := range strings.Split(ops, ",") {
			f := strings.Split(op, ":")
			if len(f) >= 3 && (f[0] == "p" || f[0] == "d") && string(mustUnhx(f[1])) == trackedDBI {
				delete(t.writes, string(mustUnhx(f[2])))
			}
		}
		return
	}
	logical, app, err := logicalOf(l)
	if err != nil {
		return
	}
	race := t.lsEmpty && (l.at == "load.afterTxn" || l.at == "send.afterTxn")
	changed := false
	for _, op := range strings.Split(ops, ",") {
		f := strings.Split(op, ":")
		if len(f) < 3 || (f[0] != "p" && f[0] != "d") || string(mustUnhx(f[1])) != trackedDBI {
			continue
		}
		k := string(mustUnhx(f[2]))
		switch f[0] {
		case "p":
			// only what really is in the application's DBI now counts as its committed write
			if cur, ok := app[k]; ok && bytes.Equal(cur, mustUnhx(f[3])) {
				if old, was := before[k]; was && bytes.Equal(old, cur) {
					// the key already held this value: nothing new to track, but LMDB records
					// the transaction, and the loop may upload because of it
					changed = true
					continue
				}
				if sv, ok := logical[k]; !l.native && ok && !sv.del && bytes.Equal(sv.val, cur) {
					// rewriting the value the shadow already holds is not a change Lightning Stream can see
					delete(t.writes, k)
					changed = true
					continue
				}
				t.writes[k] = &trackedWrite{val: mustUnhx(f[3]), tag: t.iter, sym: lastSym, race: race, point: l.at}
				changed = true
			}
		case "d":
			if _, still := app[k]; still {
				continue
			}
			if _, was := before[k]; !was {
				continue // the key was not there: a deletion without effect (LMDB records nothing)
			}
			changed = true
			// a deletion Lightning Stream can know about: the key was live in the shadow (non-native)
			if sv, ok := logical[k]; !l.native && ok && !sv.del {
				t.writes[k] = &trackedWrite{del: true, tag: t.iter, sym: lastSym, race: race, point: l.at}
			} else {
				delete(t.writes, k)
			}
		}
	}
	if changed {
		t.appSinceStore = true
	}
}
