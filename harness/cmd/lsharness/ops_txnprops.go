package main

import (
	"bytes"
	"context"
	"fmt"
	"runtime/debug"
	"sort"
	"strings"
	"time"

	"github.com/PowerDNS/lightningstream/lmdbenv"
	"github.com/PowerDNS/lightningstream/lmdbenv/header"
	"github.com/PowerDNS/lightningstream/snapshot"
	"github.com/PowerDNS/lightningstream/syncer"
	"github.com/PowerDNS/lmdb-go/lmdb"
)

// Implementation-side oracles for the transaction-level properties (C06, C10, C11, C18).
// Each op performs the same state transition as the plain txn.* op, so the model driver
// only mirrors the transition and prints "ok"; the predicates themselves are theorems there.

type dbiImage struct {
	flags uint
	kvs   []kvPair
}

type envImage struct {
	dbis    map[string]*dbiImage
	names   []string
	lastTxn int64
}

func imageOf(i *implInst) (*envImage, error) {
	img := &envImage{dbis: map[string]*dbiImage{}}
	err := i.env.View(func(txn *lmdb.Txn) error {
		names, err := lmdbenv.ReadDBINames(txn)
		if err != nil {
			return err
		}
		img.names = names
		for _, n := range names {
			dbi, err := txn.OpenDBI(n, 0)
			if err != nil {
				return err
			}
			fl, err := txn.Flags(dbi)
			if err != nil {
				return err
			}
			kvs, err := lmdbenv.ReadDBI(txn, dbi)
			if err != nil {
				return err
			}
			d := &dbiImage{flags: fl}
			for _, kv := range kvs {
				d.kvs = append(d.kvs, kvPair{append([]byte{}, kv.Key...), append([]byte{}, kv.Val...)})
			}
			img.dbis[n] = d
		}
		return nil
	})
	img.lastTxn = lastTxnID(i.env)
	return img, err
}

func (a *envImage) equal(b *envImage) string {
	if a.lastTxn != b.lastTxn {
		return fmt.Sprintf("LastTxnID %d -> %d", a.lastTxn, b.lastTxn)
	}
	if strings.Join(a.names, ",") != strings.Join(b.names, ",") {
		return "set of DBIs changed"
	}
	for _, n := range a.names {
		x, y := a.dbis[n], b.dbis[n]
		if x.flags != y.flags || len(x.kvs) != len(y.kvs) {
			return "dbi " + n + " changed"
		}
		for j := range x.kvs {
			if !bytes.Equal(x.kvs[j].k, y.kvs[j].k) || !bytes.Equal(x.kvs[j].v, y.kvs[j].v) {
				return "dbi " + n + " key " + hx(x.kvs[j].k) + " changed"
			}
		}
	}
	return ""
}

func isPrivateName(n string) bool { return strings.HasPrefix(n, syncer.SyncDBIPrefix) }

type ver struct {
	ts  uint64
	del bool
	val []byte
	raw []byte
}

func decodeStored(v []byte) (ver, error) {
	h, app, err := header.Parse(v)
	if err != nil {
		return ver{}, err
	}
	return ver{uint64(h.Timestamp), h.Flags.IsDeleted(), app, v}, nil
}

func verBeats(a, b ver) bool {
	return lcBeats(lc{true, a.ts, a.del, a.val}, lc{true, b.ts, b.del, b.val})
}

// liveOf returns key -> value of the live entries of a (shadow or native) DBI image.
func liveOf(d *dbiImage) (map[string][]byte, error) {
	out := map[string][]byte{}
	if d == nil {
		return out, nil
	}
	for _, p := range d.kvs {
		v, err := decodeStored(p.v)
		if err != nil {
			return nil, err
		}
		if !v.del {
			out[string(p.k)] = v.val
		}
	}
	return out, nil
}

func hasDupSortApp(img *envImage) bool {
	for _, n := range img.names {
		if !isPrivateName(n) && img.dbis[n].flags&lmdb.DupSort != 0 {
			return true
		}
	}
	return false
}

func init() {
	// prop.c18.load <id> <snapshot> <lastSynced> <now> <cutoff>: a load that fails leaves the LMDB
	// exactly as it was (content of every DBI, set of DBIs, LastTxnID).
	implOps["prop.c18.load"] = func(a []string) string {
		i := insts[a[0]]
		before, err := imageOf(i)
		if err != nil {
			return "err image"
		}
		snap, err := parseSnapArg(a[1])
		if err != nil {
			return "err snapshot-arg"
		}
		w := beginWindow(u64(a[3]))
		_, _, lerr := i.s.LoadOnce(context.Background(), i.env, "remote", snapshot.Update{Snapshot: snap, NameInfo: snapshot.NameInfo{Kind: snapshot.KindSnapshot}}, header.TxnID(relTxn(i, a[2])))
		w.end()
		after, err := imageOf(i)
		if err != nil {
			return "err image"
		}
		if lerr != nil {
			if d := before.equal(after); d != "" {
				return "FAIL failed-load-left-changes: " + d + " (error class " + txnErrClass(lerr) + ")"
			}
			// the gates: which refusals are legitimate
			return "ok refused"
		}
		// a successful load must have passed every gate
		hasApp := false
		for _, d := range snap.Databases {
			if !isPrivateName(d.Name()) {
				hasApp = true
			}
		}
		if hasApp && (snap.FormatVersion == 0 || snap.CompatVersion > snapshot.CurrentFormatVersion || snap.FormatVersion < snapshot.CompatFormatVersion) {
			return fmt.Sprintf("FAIL unsupported-version-accepted fv=%d cv=%d", snap.FormatVersion, snap.CompatVersion)
		}
		for _, d := range snap.Databases {
			if isPrivateName(d.Name()) {
				// private DBIs of a snapshot are ignored: must not have been created or changed
				x, y := before.dbis[d.Name()], after.dbis[d.Name()]
				base := strings.TrimPrefix(d.Name(), syncer.SyncDBIShadowPrefix)
				isShadowOfApp := base != d.Name() && after.dbis[base] != nil
				if (x == nil) != (y == nil) && !isShadowOfApp {
					return "FAIL private-dbi-created " + d.Name()
				}
				continue
			}
			if !snapshot.TransformSupported(d.Transform()) {
				return "FAIL unsupported-transform-accepted " + d.Transform()
			}
			if i.native && d.Transform() != snapshot.TransformNone {
				return "FAIL transform-accepted-by-native-schema"
			}
			// create rules: before format 3 a snapshot does not carry the flags of the original
			// DBI, so in shadow mode an application DBI must not be created from it (unless the
			// configuration says with which flags)
			if !i.native && snap.FormatVersion < 3 && before.dbis[d.Name()] == nil && after.dbis[d.Name()] != nil && !i.overridden[d.Name()] {
				return fmt.Sprintf("FAIL application-dbi-created-from-a-pre-v3-snapshot dbi=%s fv=%d", d.Name(), snap.FormatVersion)
			}
		}
		return "ok applied"
	}

	// prop.c18.cancel <id> <snapshot> <lastSynced> <now> <cutoff> <k>: the context is cancelled
	// at its k-th poll inside LoadOnce (between two DBIs, inside the capture or the projection).
	// Either the load fails and leaves the environment untouched, or it reports success and
	// then the snapshot has been merged completely: merging it again changes nothing.
	implOps["prop.c18.cancel"] = func(a []string) string {
		i := insts[a[0]]
		before, err := imageOf(i)
		if err != nil {
			return "err image"
		}
		snap, err := parseSnapArg(a[1])
		if err != nil {
			return "err snapshot-arg"
		}
		closed := make(chan struct{})
		close(closed)
		ctx := &pollCtx{Context: context.Background(), k: int(u64(a[5])), closed: closed, open: make(chan struct{})}
		w := beginWindow(u64(a[3]))
		retID, lc, lerr := i.s.LoadOnce(ctx, i.env, "remote", snapshot.Update{Snapshot: snap, NameInfo: snapshot.NameInfo{Kind: snapshot.KindSnapshot}}, header.TxnID(relTxn(i, a[2])))
		w.end()
		after, err := imageOf(i)
		if err != nil {
			return "err image"
		}
		if lerr != nil {
			rewrittenLine = strings.Join(append([]string{"prop.c18.cancel"}, a...), " ") + " refused"
			if d := before.equal(after); d != "" {
				return "FAIL failed-load-left-changes: " + d + " (error class " + txnErrClass(lerr) + ")"
			}
			return "ok refused"
		}
		rewrittenLine = strings.Join(append([]string{"prop.c18.cancel"}, a...), " ") + " applied"
		if !lc {
			i.lastRet = uint64(retID)
		}
		// complete? merging the same snapshot once more must not change anything (without a
		// stale-deletion cut-off: with one, re-merging is not idempotent, finding D12)
		if u64(a[4]) != 0 {
			return "ok applied"
		}
		snap2, _ := parseSnapArg(a[1])
		w2 := beginWindow(u64(a[3]) + 1)
		_, _, err2 := i.s.LoadOnce(context.Background(), i.env, "remote", snapshot.Update{Snapshot: snap2, NameInfo: snapshot.NameInfo{Kind: snapshot.KindSnapshot}}, header.TxnID(lastTxnID(i.env)))
		w2.end()
		after2, err := imageOf(i)
		if err != nil || err2 != nil {
			return "FAIL second-load-failed"
		}
		if d := after.equal(after2); d != "" {
			return "FAIL success-reported-for-a-partial-merge: " + d
		}
		return "ok applied"
	}
	// prop.c10.reload <id> <snapshot> <now1> <now2>: merging the same snapshot a second time,
	// with no local change in between, changes nothing; without the dupsort hack it does not
	// even record an LMDB transaction, and it never reports a local change.
	implOps["prop.c10.reload"] = func(a []string) string {
		i := insts[a[0]]
		snap, err := parseSnapArg(a[1])
		if err != nil {
			return "err snapshot-arg"
		}
		w := beginWindow(u64(a[2]))
		t1, _, err := i.s.LoadOnce(context.Background(), i.env, "remote", snapshot.Update{Snapshot: snap, NameInfo: snapshot.NameInfo{Kind: snapshot.KindSnapshot}}, header.TxnID(lastTxnID(i.env)))
		w.end()
		if err != nil {
			return "ok refused"
		}
		// the loop bumps lastSyncedTxnID to the returned id when there was no local change;
		// in non-native mode a first load after application writes captures them: send first
		// so that the state is "published", as the loop would.
		before, err := imageOf(i)
		if err != nil {
			return "err image"
		}
		snap2, _ := parseSnapArg(a[1])
		w2 := beginWindow(u64(a[3]))
		t2, lc2, err := i.s.LoadOnce(context.Background(), i.env, "remote", snapshot.Update{Snapshot: snap2, NameInfo: snapshot.NameInfo{Kind: snapshot.KindSnapshot}}, t1)
		w2.end()
		if err != nil {
			return "FAIL second-load-failed " + txnErrClass(err)
		}
		after, err := imageOf(i)
		if err != nil {
			return "err image"
		}
		if lc2 {
			return "FAIL no-op-merge-reported-local-change"
		}
		if hasDupSortApp(before) {
			// EmptyPut rewrites duplicate-keys DBIs: content must still be identical
			after2 := *after
			after2.lastTxn = before.lastTxn
			if d := before.equal(&after2); d != "" {
				return "FAIL no-op-merge-changed-content: " + d
			}
			if uint64(t2) != uint64(after.lastTxn) {
				return "FAIL returned-txn-id-not-last"
			}
			return "ok noop-dupsort"
		}
		if d := before.equal(after); d != "" {
			return "FAIL no-op-merge-wrote: " + d
		}
		if t2 != t1 {
			return fmt.Sprintf("FAIL no-op-merge-changed-txn-id %d -> %d", t1, t2)
		}
		return "ok noop"
	}

	// prop.c06.send <id> <now> <cutoff>: the stored snapshot is the complete image of the LMDB
	// state of the dump transaction.
	implOps["prop.c06.send"] = func(a []string) string {
		i := insts[a[0]]
		w := beginWindow(u64(a[1]))
		txnID, err := i.s.SendOnce(context.Background(), i.env)
		w.end()
		if err != nil {
			return "ok refused " + txnErrClass(err)
		}
		i.lastRet = uint64(txnID)
		img, err := imageOf(i) // nothing else writes: this is the dumped state
		if err != nil {
			return "err image"
		}
		name, blob, err := newestBlob(i.st, i.id)
		if err != nil {
			return "FAIL no-snapshot-stored"
		}
		msg, err := snapshot.LoadData(blob)
		if err != nil {
			return "FAIL stored-snapshot-undecodable"
		}
		ni, err := snapshot.ParseName(name)
		if err != nil || ni.SyncerName != "db" || ni.InstanceID != i.id || ni.Kind != snapshot.KindSnapshot {
			return "FAIL bad-snapshot-name " + name
		}
		if msg.Meta.DatabaseName != "db" || msg.Meta.InstanceID != i.id || msg.Meta.LmdbTxnID != int64(txnID) || int64(txnID) != img.lastTxn {
			return fmt.Sprintf("FAIL bad-meta db=%s inst=%s txn=%d returned=%d last=%d", msg.Meta.DatabaseName, msg.Meta.InstanceID, msg.Meta.LmdbTxnID, txnID, img.lastTxn)
		}
		if uint64(ni.Timestamp.UnixNano()) != msg.Meta.TimestampNano || realToSym(msg.Meta.TimestampNano) != u64(a[1]) {
			return "FAIL snapshot-time-not-taken-inside-the-dump"
		}
		if msg.FormatVersion != snapshot.CurrentFormatVersion {
			return "FAIL format-version"
		}
		// expected DBIs: every application DBI, in name order
		var want []string
		for _, n := range img.names {
			if !isPrivateName(n) {
				want = append(want, n)
			}
		}
		var got []string
		for _, d := range msg.Databases {
			got = append(got, d.Name())
		}
		if strings.Join(want, ",") != strings.Join(got, ",") {
			return fmt.Sprintf("FAIL dbi-set want=%v got=%v", want, got)
		}
		for _, d := range msg.Databases {
			orig := img.dbis[d.Name()]
			src := orig
			if !i.native {
				src = img.dbis[syncer.SyncDBIShadowPrefix+d.Name()]
				if src == nil {
					return "FAIL shadow-missing " + d.Name()
				}
			}
			if uint(d.Flags()) != orig.flags {
				return fmt.Sprintf("FAIL dbi-flags %s want=%d got=%d", d.Name(), orig.flags, d.Flags())
			}
			wantTr := ""
			if orig.flags&lmdb.DupSort != 0 {
				wantTr = snapshot.TransformDupSortHackV1
			}
			if d.Transform() != wantTr {
				return "FAIL transform-not-stated " + d.Name()
			}
			ents, err := dbiEntries(d)
			if err != nil {
				return "FAIL entries-undecodable"
			}
			if len(ents) != len(src.kvs) {
				return fmt.Sprintf("FAIL entry-count %s want=%d got=%d", d.Name(), len(src.kvs), len(ents))
			}
			for j, p := range src.kvs {
				v, err := decodeStored(p.v)
				if err != nil {
					return "FAIL stored-value-without-header"
				}
				e := ents[j]
				fl := uint32(0)
				if v.del {
					fl = 1
				}
				if !bytes.Equal(e.Key, p.k) || !bytes.Equal(e.Value, v.val) || e.TimestampNano != v.ts || e.Flags != fl {
					return fmt.Sprintf("FAIL entry-mismatch %s key=%s", d.Name(), hx(p.k))
				}
			}
		}
		return "ok complete"
	}

	// prop.c11.load <id> <snapshot> <lastSynced> <now> <cutoff>: one sync step in non-native mode:
	//  (O1) afterwards every application DBI holds exactly the live entries of its shadow DBI;
	//  (O2) an application write made before the step survives, unless the shadow holds a version
	//       that wins last-writer-wins against (detection time, that write);
	//  (O3) entries the application did not touch and the snapshot does not mention keep their bytes.
	// txn.loadheld <id> <snapshot> <lastSynced> <now> <cutoff> <ops> / txn.sendheld <id> <now>
	// <cutoff> <ops> (non-native): the application has a write transaction open (ops applied, not
	// committed) when LoadOnce / SendOnce is called, and commits while Lightning Stream waits for
	// the write lock. What Lightning Stream stamps must not lie before that commit: a captured
	// change carries the time of its detection (C11), a snapshot the time its image was taken (C06).
	held := func(i *implInst, ops string, call func()) (commitAt time.Time, appOK bool) {
		opened := make(chan struct{})
		hold := make(chan struct{})
		done := make(chan string, 1)
		appBeforeCommit = func() { close(opened); <-hold }
		go func() { done <- implOps["env.app"]([]string{i.id, ops}) }()
		select {
		case <-opened:
		case out := <-done:
			appBeforeCommit = nil
			call()
			return time.Time{}, strings.HasPrefix(out, "ok")
		}
		appBeforeCommit = nil
		fin := make(chan any, 1)
		go func() {
			// a fault or panic in Lightning Stream's goroutine is handed to the caller, where
			// implStep's recover and fault hook deal with it
			defer debug.SetPanicOnFault(debug.SetPanicOnFault(true))
			defer func() { fin <- recover() }()
			call()
		}()
		time.Sleep(2 * time.Millisecond) // Lightning Stream reaches env.Update and waits
		commitAt = time.Now()
		close(hold)
		out := <-done
		if r := <-fin; r != nil {
			panic(r)
		}
		return commitAt, strings.HasPrefix(out, "ok")
	}
	implOps["txn.loadheld"] = func(a []string) string {
		i := insts[a[0]]
		if i.native {
			return "bad-op"
		}
		snap, err := parseSnapArg(a[1])
		if err != nil {
			return "err snapshot-arg"
		}
		ls := relTxn(i, a[2])
		var txnID header.TxnID
		var lc bool
		var lerr error
		w := beginWindow(u64(a[3]))
		commitAt, appOK := held(i, a[5], func() {
			txnID, lc, lerr = i.s.LoadOnce(context.Background(), i.env, "remote", snapshot.Update{Snapshot: snap, NameInfo: snapshot.NameInfo{Kind: snapshot.KindSnapshot}}, header.TxnID(ls))
		})
		w.end()
		if lerr != nil {
			return "err " + txnErrClass(lerr)
		}
		if !lc {
			i.lastRet = uint64(txnID)
		}
		if appOK && !commitAt.IsZero() && a[5] != "-" {
			if img, err := imageOf(i); err == nil {
				for _, op := range strings.Split(a[5], ",") {
					f := strings.Split(op, ":")
					if f[0] != "p" || len(f) < 4 {
						continue
					}
					sh := img.dbis[syncer.SyncDBIShadowPrefix+string(mustUnhx(f[1]))]
					if v, ok := shadowVer(sh, mustUnhx(f[2])); ok && !v.del && bytes.Equal(v.val, mustUnhx(f[3])) && len(v.val) > 0 &&
						v.ts >= w.tb && v.ts < uint64(commitAt.UnixNano()) {
						return fmt.Sprintf("FAIL captured-change-stamped-before-its-commit key=%s stamped=%d committed-after=%d", f[2], v.ts, commitAt.UnixNano())
					}
				}
			}
		}
		return fmt.Sprintf("ok %d %s T%d", uint64(txnID), b2s(lc), lastTxnID(i.env))
	}
	implOps["txn.sendheld"] = func(a []string) string {
		i := insts[a[0]]
		if i.native {
			return "bad-op"
		}
		var txnID header.TxnID
		var serr error
		w := beginWindow(u64(a[1]))
		commitAt, appOK := held(i, a[3], func() { txnID, serr = i.s.SendOnce(context.Background(), i.env) })
		w.end()
		if serr != nil {
			return "err " + txnErrClass(serr)
		}
		i.lastRet = uint64(txnID)
		snapStr := fmt.Sprintf("%d,%d,-", snapshot.CurrentFormatVersion, snapshot.WriteCompatFormatVersion)
		if name, blob, err := newestBlob(i.st, i.id); err == nil {
			msg, err := snapshot.LoadData(blob)
			if err != nil {
				return "FAIL stored-snapshot-undecodable " + name
			}
			if snapStr, err = snapOut(msg); err != nil {
				return "FAIL stored-snapshot-entries-undecodable"
			}
			if appOK && !commitAt.IsZero() {
				// the dump ran after the application's commit (it waited for the lock)
				ni, _ := snapshot.ParseName(name)
				if msg.Meta.TimestampNano < uint64(commitAt.UnixNano()) || ni.Timestamp.Before(commitAt.Truncate(time.Nanosecond)) {
					return fmt.Sprintf("FAIL snapshot-claims-a-time-before-a-transaction-it-contains meta=%d name=%d committed-after=%d", msg.Meta.TimestampNano, ni.Timestamp.UnixNano(), commitAt.UnixNano())
				}
			}
		}
		return fmt.Sprintf("ok %d T%d %s", uint64(txnID), lastTxnID(i.env), snapStr)
	}
	// prop.c01.load <id> <snapshot> <lastSynced> <now> <cutoff> (native schema): nothing is
	// invented by a merge - afterwards every key of an application DBI holds the version it
	// held before, or exactly a version the snapshot carries for it (its timestamp, deleted
	// flag and value), and the winner is the last-writer-wins maximum of the two.
	implOps["prop.c01.load"] = func(a []string) string {
		i := insts[a[0]]
		if !i.native {
			return "bad-op"
		}
		before, err := imageOf(i)
		if err != nil {
			return "err image"
		}
		snap, err := parseSnapArg(a[1])
		if err != nil {
			return "err snapshot-arg"
		}
		w := beginWindow(u64(a[3]))
		_, _, lerr := i.s.LoadOnce(context.Background(), i.env, "remote", snapshot.Update{Snapshot: snap, NameInfo: snapshot.NameInfo{Kind: snapshot.KindSnapshot}}, header.TxnID(relTxn(i, a[2])))
		w.end()
		if lerr != nil {
			return "ok refused"
		}
		after, err := imageOf(i)
		if err != nil {
			return "err image"
		}
		cand := map[string][]ver{} // dbi \x00 key -> versions the snapshot carries
		for _, d := range snap.Databases {
			if isPrivateName(d.Name()) {
				continue
			}
			ents, err := dbiEntries(d)
			if err != nil {
				return "err snapshot-arg"
			}
			for _, e := range ents {
				del := e.Flags&1 != 0 || (len(e.Value) == 0 && snap.FormatVersion < 2)
				v := ver{ts: e.TimestampNano, del: del, val: e.Value}
				if del {
					v.val = nil
				}
				cand[d.Name()+"\x00"+string(e.Key)] = append(cand[d.Name()+"\x00"+string(e.Key)], v)
			}
		}
		same := func(x, y ver) bool { return x.ts == y.ts && x.del == y.del && bytes.Equal(x.val, y.val) }
		for _, n := range after.names {
			if isPrivateName(n) {
				continue
			}
			for _, p := range after.dbis[n].kvs {
				cur, err := decodeStored(p.v)
				if err != nil {
					continue // not written by Lightning Stream's merge (it would have failed)
				}
				ok := false
				if b := before.dbis[n]; b != nil {
					for _, q := range b.kvs {
						if bytes.Equal(q.k, p.k) {
							if old, err := decodeStored(q.v); err == nil && same(old, cur) {
								ok = true
							}
						}
					}
				}
				for _, c := range cand[n+"\x00"+string(p.k)] {
					ok = ok || same(c, cur)
				}
				if !ok {
					return fmt.Sprintf("FAIL stored-version-is-neither-the-previous-one-nor-one-of-the-snapshot dbi=%s key=%s ts=%d del=%v val=%s", n, hx(p.k), cur.ts, cur.del, hx(cur.val))
				}
			}
		}
		return "ok applied"
	}
	// prop.c04.load <id> <snapshot> <lastSynced> <now> <cutoff>: with the sweeper configured, a
	// deletion marker older than the load cut-off is not created on an instance that has no entry
	// for the key, and one younger than it is (markers travel). Timestamps below 10^17 are
	// decades old; symbolic ones are "now".
	implOps["prop.c04.load"] = func(a []string) string {
		i := insts[a[0]]
		before, err := imageOf(i)
		if err != nil {
			return "err image"
		}
		snap, err := parseSnapArg(a[1])
		if err != nil {
			return "err snapshot-arg"
		}
		w := beginWindow(u64(a[3]))
		_, _, lerr := i.s.LoadOnce(context.Background(), i.env, "remote", snapshot.Update{Snapshot: snap, NameInfo: snapshot.NameInfo{Kind: snapshot.KindSnapshot}}, header.TxnID(relTxn(i, a[2])))
		w.end()
		if lerr != nil {
			return "ok refused"
		}
		after, err := imageOf(i)
		if err != nil {
			return "err image"
		}
		refused, stored := 0, 0
		for _, d := range snap.Databases {
			if isPrivateName(d.Name()) {
				continue
			}
			target := d.Name()
			if !i.native {
				target = syncer.SyncDBIShadowPrefix + d.Name()
			}
			ents, err := dbiEntries(d)
			if err != nil {
				return "err snapshot-arg"
			}
			// a key that occurs more than once among the messages for this DBI is left alone
			count := map[string]int{}
			for _, d2 := range snap.Databases {
				if d2.Name() != d.Name() {
					continue
				}
				e2, err := dbiEntries(d2)
				if err != nil {
					return "err snapshot-arg"
				}
				for _, e := range e2 {
					count[string(e.Key)]++
				}
			}
			has := func(img *envImage, k []byte) bool {
				di := img.dbis[target]
				if di == nil {
					return false
				}
				for _, p := range di.kvs {
					if bytes.Equal(p.k, k) {
						return true
					}
				}
				return false
			}
			for _, e := range ents {
				del := e.Flags&1 != 0 || (len(e.Value) == 0 && snap.FormatVersion < 2)
				if !del || count[string(e.Key)] != 1 || has(before, e.Key) {
					continue
				}
				if d.Transform() != "" {
					continue // shadow keys are encoded (C20)
				}
				old := e.TimestampNano < 100000000000000000
				switch {
				case old && u64(a[4]) != 0 && hasMarker(after, target, e.Key):
					return fmt.Sprintf("FAIL stale-deletion-marker-re-created dbi=%s key=%s ts=%d", target, hx(e.Key), e.TimestampNano)
				case old && u64(a[4]) != 0:
					refused++
				case !has(after, e.Key):
					return fmt.Sprintf("FAIL deletion-marker-not-stored dbi=%s key=%s", target, hx(e.Key))
				default:
					stored++
				}
			}
		}
		return fmt.Sprintf("ok refused=%d stored=%d", refused, stored)
	}
	implOps["prop.c11.load"] = func(a []string) string {
		i := insts[a[0]]
		if i.native {
			return "bad-op"
		}
		before, err := imageOf(i)
		if err != nil {
			return "err image"
		}
		snap, err := parseSnapArg(a[1])
		if err != nil {
			return "err snapshot-arg"
		}
		mentioned := map[string]bool{}
		for _, d := range snap.Databases {
			ents, err := dbiEntries(d)
			if err != nil {
				return "err snapshot-arg"
			}
			for _, e := range ents {
				mentioned[d.Name()+"\x00"+string(e.Key)] = true
			}
		}
		now := u64(a[3])
		w := beginWindow(now)
		retID, localChanged, lerr := i.s.LoadOnce(context.Background(), i.env, "remote", snapshot.Update{Snapshot: snap, NameInfo: snapshot.NameInfo{Kind: snapshot.KindSnapshot}}, header.TxnID(relTxn(i, a[2])))
		w.end()
		if lerr != nil {
			return "ok refused"
		}
		if !localChanged {
			i.lastRet = uint64(retID)
		}
		if uint64(retID) > uint64(lastTxnID(i.env)) {
			// the loop would store an id no recorded transaction has as "synced up to here":
			// the next application commit gets that id, is never noticed, and is then reverted
			return fmt.Sprintf("FAIL LoadOnce-returned-an-id-no-recorded-transaction-has returned=%d last=%d", uint64(retID), lastTxnID(i.env))
		}
		after, err := imageOf(i)
		if err != nil {
			return "err image"
		}
		for _, n := range after.names {
			if isPrivateName(n) {
				continue
			}
			app := after.dbis[n]
			if app.flags&lmdb.DupSort != 0 {
				continue // duplicate-keys DBIs: covered by prop.c20 (shadow keys are encoded)
			}
			sh := after.dbis[syncer.SyncDBIShadowPrefix+n]
			live, err := liveOf(sh)
			if err != nil {
				return "FAIL shadow-value-without-header " + n
			}
			// (O1)
			seen := map[string]bool{}
			for _, p := range app.kvs {
				seen[string(p.k)] = true
				lv, ok := live[string(p.k)]
				if !ok {
					return fmt.Sprintf("FAIL app-has-key-not-live-in-shadow dbi=%s key=%s", n, hx(p.k))
				}
				if !bytes.Equal(lv, p.v) {
					return fmt.Sprintf("FAIL app-value-differs-from-shadow dbi=%s key=%s", n, hx(p.k))
				}
			}
			var missing []string
			for k := range live {
				if !seen[k] {
					missing = append(missing, k)
				}
			}
			sort.Strings(missing)
			for _, k := range missing {
				if len(live[k]) == 0 {
					return fmt.Sprintf("FAIL D7 live-empty-value-missing-from-application-dbi dbi=%s key=%s", n, hx([]byte(k)))
				}
				return fmt.Sprintf("FAIL live-entry-missing-from-application-dbi dbi=%s key=%s", n, hx([]byte(k)))
			}
			if !localChanged {
				continue
			}
			// (O2), (O3) relative to the application's state before the step
			appBefore := before.dbis[n]
			shBefore := before.dbis[syncer.SyncDBIShadowPrefix+n]
			shAfter := map[string]ver{}
			if sh != nil {
				for _, p := range sh.kvs {
					v, _ := decodeStored(p.v)
					shAfter[string(p.k)] = v
				}
			}
			if appBefore == nil {
				continue
			}
			liveBefore, _ := liveOf(shBefore)
			for _, p := range appBefore.kvs {
				if lv, ok := liveBefore[string(p.k)]; ok && bytes.Equal(lv, p.v) {
					continue // not an application change since the previous step
				}
				written := ver{ts: symToRealCapture(now), del: false, val: p.v}
				cur, ok := shAfter[string(p.k)]
				if !ok {
					return fmt.Sprintf("FAIL application-write-not-captured dbi=%s key=%s", n, hx(p.k))
				}
				if !cur.del && bytes.Equal(cur.val, p.v) {
					continue // the write is what is there (captured now or earlier)
				}
				if len(p.v) == 0 && cur.del {
					return fmt.Sprintf("FAIL D7 empty-application-value-not-captured-over-marker dbi=%s key=%s", n, hx(p.k))
				}
				if len(p.v) == 0 {
					if ob, ok := shadowVer(shBefore, p.k); ok && ob.del && !verBeats(cur, written) {
						// the same defect one step later: the empty value written over a marker was
						// not captured, so an older snapshot entry could take the key
						return fmt.Sprintf("FAIL D7 empty-application-value-not-captured-over-marker-then-overwritten dbi=%s key=%s", n, hx(p.k))
					}
				}
				if !verBeats(cur, written) {
					return fmt.Sprintf("FAIL application-write-lost-to-a-non-winner dbi=%s key=%s", n, hx(p.k))
				}
			}
			// an application deletion (live in the shadow before, gone from the application DBI) is
			// a write too: afterwards the shadow holds a marker, or a version that wins against a
			// deletion stamped at detection time
			inAppBefore := map[string]bool{}
			for _, q := range appBefore.kvs {
				inAppBefore[string(q.k)] = true
			}
			var gone []string
			for k, lv := range liveBefore {
				if !inAppBefore[k] && len(lv) > 0 {
					gone = append(gone, k)
				}
			}
			sort.Strings(gone)
			for _, k := range gone {
				cur, ok := shAfter[k]
				if !ok {
					return fmt.Sprintf("FAIL application-delete-not-captured dbi=%s key=%s", n, hx([]byte(k)))
				}
				if !cur.del && !verBeats(cur, ver{ts: symToRealCapture(now), del: true}) {
					return fmt.Sprintf("FAIL application-delete-undone-by-a-non-winner dbi=%s key=%s", n, hx([]byte(k)))
				}
			}
			if shBefore != nil {
				for _, p := range shBefore.kvs {
					if mentioned[n+"\x00"+string(p.k)] {
						continue
					}
					old, _ := decodeStored(p.v)
					var appv []byte
					inApp := false
					for _, q := range appBefore.kvs {
						if bytes.Equal(q.k, p.k) {
							appv, inApp = q.v, true
						}
					}
					untouched := (old.del && !inApp) || (!old.del && inApp && bytes.Equal(appv, old.val))
					if untouched {
						cur := shAfter[string(p.k)]
						if !bytes.Equal(cur.raw, p.v) {
							return fmt.Sprintf("FAIL untouched-entry-rewritten dbi=%s key=%s", n, hx(p.k))
						}
					}
				}
			}
		}
		return "ok mirrored"
	}
}

// hasMarker: the DBI holds a deletion marker under the key
func hasMarker(img *envImage, target string, k []byte) bool {
	di := img.dbis[target]
	if di == nil {
		return false
	}
	for _, p := range di.kvs {
		if bytes.Equal(p.k, k) {
			v, err := decodeStored(p.v)
			return err == nil && v.del
		}
	}
	return false
}

// pollCtx: a context that turns out cancelled from its k-th poll on
type pollCtx struct {
	context.Context
	calls, k     int
	closed, open chan struct{}
}

func (c *pollCtx) Done() <-chan struct{} {
	c.calls++
	if c.calls > c.k {
		return c.closed
	}
	return c.open
}

func (c *pollCtx) Err() error {
	if c.calls > c.k {
		return context.Canceled
	}
	return nil
}

func shadowVer(sh *dbiImage, k []byte) (ver, bool) {
	if sh == nil {
		return ver{}, false
	}
	for _, p := range sh.kvs {
		if bytes.Equal(p.k, k) {
			v, err := decodeStored(p.v)
			return v, err == nil
		}
	}
	return ver{}, false
}

// symToRealCapture: the real capture timestamp used in window `sym` is not observable before the
// call; for comparisons "does X beat the write stamped at detection time" the window end is used
// (every capture in the window is ≤ it, every later one >).
func symToRealCapture(sym uint64) uint64 { return symToReal(sym) }
