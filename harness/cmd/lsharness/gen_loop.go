package main

import (
	"fmt"
	"math/rand"
	"strings"
)

type fleetGen struct {
	r       *rand.Rand
	lines   []string
	ids     []string
	native  bool
	nowIdx  uint64
	tsCtr   uint64
	started map[string]bool
	lastTs  map[string]uint64 // native: last timestamp used per instance/key (writes are monotone per key per instance)
	curID   string
}

func (f *fleetGen) now() uint64 {
	f.nowIdx++
	return symBase + symStep*f.nowIdx
}

func (f *fleetGen) appOpsFor(id string, first bool) string {
	f.curID = id
	return f.appOps(first)
}

func (f *fleetGen) appOps(first bool) string {
	var ops []string
	if first {
		ops = append(ops, "c:74:0")
	}
	for i := 0; i < 1+f.r.Intn(3); i++ {
		k := [][]byte{[]byte("a"), []byte("b"), []byte("c"), []byte("d")}[f.r.Intn(4)]
		if f.r.Intn(4) == 0 && !f.native {
			ops = append(ops, fmt.Sprintf("d:74:%s", hx(k)))
			continue
		}
		v := randBytes(f.r, 1+f.r.Intn(2))
		if f.native {
			// a native application stamps its own (monotone) time; sometimes ties across instances
			if f.r.Intn(3) != 0 {
				f.tsCtr++
			}
			ts := f.tsCtr
			if f.lastTs == nil {
				f.lastTs = map[string]uint64{}
			}
			lk := f.curID + "/" + string(k)
			if last, ok := f.lastTs[lk]; ok && last >= ts {
				ts = last + 1
				if ts > f.tsCtr {
					f.tsCtr = ts
				}
			}
			f.lastTs[lk] = ts
			if f.r.Intn(4) == 0 {
				v = mkStored(ts, 0, 0, 1, 0, 0, nil)
			} else {
				v = mkStored(ts, 0, 0, 0, 0, 0, v)
			}
		}
		ops = append(ops, fmt.Sprintf("p:74:%s:%s", hx(k), hx(v)))
	}
	return strings.Join(ops, ",")
}

// genFleetScript: a fleet of real sync loops on one bucket, single-stepped in a random schedule.
func genFleetScript(g *Gen, n int, native bool, steps int, withFaults, withRestart, withCleaner bool) []string {
	f := &fleetGen{r: g.R, native: native, started: map[string]bool{}}
	f.lines = append(f.lines, "fleet.reset")
	for i := 0; i < n; i++ {
		id := string(rune('a' + i))
		f.ids = append(f.ids, id)
		f.lines = append(f.lines, fmt.Sprintf("loop.new %s %s 0 0 0 0 3", id, b2s(native)))
		if f.r.Intn(3) != 0 {
			f.lines = append(f.lines, fmt.Sprintf("loop.app %s %s", id, f.appOpsFor(id, true)))
		}
	}
	created := map[string]bool{}
	for _, l := range f.lines {
		if strings.HasPrefix(l, "loop.app") {
			created[strings.Fields(l)[1]] = true
		}
	}
	for s := 0; s < steps; s++ {
		id := f.ids[f.r.Intn(len(f.ids))]
		switch x := f.r.Intn(10); {
		case x < 6:
			fails := 0
			if withFaults && f.r.Intn(6) == 0 {
				fails = 1 + f.r.Intn(3)
			}
			if f.started[id] && f.r.Intn(6) == 0 {
				// the application commits while the loop is already waiting for the write lock
				f.lines = append(f.lines, fmt.Sprintf("loop.goheld %s ? %d %d %s", id, fails, f.now(), f.appOpsFor(id, !created[id])), "prop.loop.check "+id)
				created[id] = true
			} else {
				f.lines = append(f.lines, fmt.Sprintf("loop.go %s ? %d %d", id, fails, f.now()), "prop.loop.check "+id)
			}
			f.started[id] = true
		case x < 8 && f.started[id] && f.r.Intn(4) == 0:
			// the forced periodic snapshot becomes due
			f.lines = append(f.lines, "loop.overdue "+id)
		case x < 8:
			f.lines = append(f.lines, fmt.Sprintf("loop.app %s %s", id, f.appOpsFor(id, !created[id])), "prop.loop.check "+id)
			created[id] = true
		case x < 9:
			if withCleaner && f.started[id] {
				// the instance's cleaner runs (twice in a row now and then: a snapshot is only
				// considered the second time it is seen)
				for k := 0; k < 1+f.r.Intn(2); k++ {
					f.lines = append(f.lines, fmt.Sprintf("loop.clean %s %d", id, f.now()), "prop.loop.check "+id)
				}
			} else if f.started[id] {
				f.lines = append(f.lines, "loop.list "+id)
			}
		default:
			if withRestart && f.started[id] && f.r.Intn(3) == 0 {
				f.lines = append(f.lines, fmt.Sprintf("loop.restart %s %s", id, b2s(f.r.Intn(2) == 0)))
				if f.r.Intn(2) == 0 {
					// the first downloads after the restart fail and are retried
					f.lines = append(f.lines, fmt.Sprintf("loop.loadfail %s %d", id, 1+f.r.Intn(3)))
				}
				f.started[id] = false
				if f.r.Intn(2) == 0 {
					created[id] = created[id] && false
				}
			}
		}
	}
	// settle: no more application writes; everybody lists, loads and sends until nothing moves
	for round := 0; round < 3; round++ {
		for _, id := range f.ids {
			for k := 0; k < 14; k++ {
				if k%7 == 0 && f.started[id] {
					f.lines = append(f.lines, "loop.list "+id)
				}
				f.lines = append(f.lines, fmt.Sprintf("loop.go %s ? 0 %d", id, f.now()), "prop.loop.check "+id)
				f.started[id] = true
			}
		}
	}
	f.lines = append(f.lines, "prop.fleet.converged")
	return f.lines
}

// genLoopRestart: as genLoop, with crashes/restarts (LMDB kept or emptied) and failing stores.
// genLoopForcedOwn: an instance restarts with an emptied LMDB while its own snapshot is in the
// bucket and cannot be downloaded for a while; the application writes, and the forced periodic
// snapshot becomes due: nothing may be uploaded before the own snapshot has been merged.
func genLoopForcedOwn(g *Gen) {
	for _, native := range []bool{true, false} {
		f := &fleetGen{r: g.R, native: native, started: map[string]bool{}}
		f.lines = append(f.lines, "fleet.reset", fmt.Sprintf("loop.new a %s 0 0 0 0 3", b2s(native)))
		f.lines = append(f.lines, fmt.Sprintf("loop.app a %s", f.appOpsFor("a", true)))
		step := func(k int) {
			for j := 0; j < k; j++ {
				f.lines = append(f.lines, fmt.Sprintf("loop.go a ? 0 %d", f.now()), "prop.loop.check a")
			}
		}
		step(7)
		f.lines = append(f.lines, "loop.restart a 1", "loop.loadfail a 1000000")
		step(3)
		f.lines = append(f.lines, fmt.Sprintf("loop.app a %s", f.appOpsFor("a", true)), "prop.loop.check a")
		step(2)
		for j := 0; j < 8; j++ {
			// (arming only takes effect at the top of the loop or in its sleep)
			f.lines = append(f.lines, "loop.overdue a", fmt.Sprintf("loop.go a ? 0 %d", f.now()), "prop.loop.check a")
		}
		f.lines = append(f.lines, "loop.loadfail a 0")
		step(10)
		g.Emit("forced-own-guard/"+map[bool]string{true: "native", false: "shadow"}[native], f.lines...)
	}
}

func genLoopRestart(g *Gen, n int) {
	genLoopForcedOwn(g)
	count := n / 20
	if count < 10 {
		count = 10
	}
	for i := 0; i < count; i++ {
		native := g.R.Intn(2) == 0
		class := map[bool]string{true: "native", false: "shadow"}[native]
		g.Emit("fleet-restart/"+class, genFleetScript(g, 2+g.R.Intn(2), native, 25+g.R.Intn(40), true, true, i%2 == 0)...)
	}
}

func genLoop(g *Gen, n int) {
	count := n / 20
	if count < 10 {
		count = 10
	}
	for i := 0; i < count; i++ {
		native := g.R.Intn(2) == 0
		class := map[bool]string{true: "native", false: "shadow"}[native]
		g.Emit("fleet/"+class, genFleetScript(g, 1+g.R.Intn(3), native, 20+g.R.Intn(40), g.R.Intn(3) == 0, false, false)...)
	}
}

// genLoopOnce (C16, run-once mode): publishers fill the bucket, then an instance started with
// only_once runs until it ends by itself; after every segment the oracle checks that it did not
// end before it had merged the newest snapshot each other instance had at its start-up.
func genLoopOnce(g *Gen, n int) {
	count := n / 20
	if count < 10 {
		count = 10
	}
	for i := 0; i < count; i++ {
		native := g.R.Intn(2) == 0
		class := map[bool]string{true: "native", false: "shadow"}[native]
		f := &fleetGen{r: g.R, native: native, started: map[string]bool{}}
		f.lines = append(f.lines, "fleet.reset")
		pubs := []string{"a", "b", "c"}[:1+g.R.Intn(3)]
		for _, id := range pubs {
			f.lines = append(f.lines, fmt.Sprintf("loop.new %s %s 0 0 0 0 3", id, b2s(native)))
			f.lines = append(f.lines, fmt.Sprintf("loop.app %s %s", id, f.appOpsFor(id, true)))
		}
		// the publishers run for a while (some publish more than one snapshot)
		for s := 0; s < 10+g.R.Intn(25); s++ {
			id := pubs[g.R.Intn(len(pubs))]
			if g.R.Intn(5) == 0 {
				f.lines = append(f.lines, fmt.Sprintf("loop.app %s %s", id, f.appOpsFor(id, false)))
			} else {
				f.lines = append(f.lines, fmt.Sprintf("loop.go %s ? 0 %d", id, f.now()))
			}
		}
		f.lines = append(f.lines, fmt.Sprintf("loop.new z %s 0 0 0 1 3", b2s(native)))
		if g.R.Intn(2) == 0 {
			f.lines = append(f.lines, fmt.Sprintf("loop.app z %s", f.appOpsFor("z", true)))
		}
		for s := 0; s < 45; s++ {
			if g.R.Intn(6) == 0 {
				// the others keep going meanwhile
				id := pubs[g.R.Intn(len(pubs))]
				if g.R.Intn(3) == 0 {
					f.lines = append(f.lines, fmt.Sprintf("loop.app %s %s", id, f.appOpsFor(id, false)))
				} else {
					f.lines = append(f.lines, fmt.Sprintf("loop.go %s ? 0 %d", id, f.now()))
				}
				continue
			}
			f.lines = append(f.lines, fmt.Sprintf("loop.go z ? 0 %d", f.now()), "prop.c16.once z")
		}
		g.Emit("run-once/"+class, f.lines...)
	}
}
