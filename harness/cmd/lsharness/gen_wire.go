package main

// Generators for the snapshot codec streams (C07, C08).  Messages are built with a small
// protobuf writer of the harness's own (not with the code under test), so that field order,
// unknown fields, repeated scalars, overlong varints and adversarial lengths are all expressible.

import (
	"bytes"
	"encoding/binary"
	"fmt"
	"math/rand"
)

// ---- a minimal protobuf writer ----

func pbVarint(v uint64) []byte {
	var b []byte
	for v >= 0x80 {
		b = append(b, byte(v)|0x80)
		v >>= 7
	}
	return append(b, byte(v))
}

// pbVarintPad encodes v in exactly n bytes (overlong; n <= 10 keeps it a legal varint).
func pbVarintPad(v uint64, n int) []byte {
	b := make([]byte, n)
	for i := 0; i < n; i++ {
		b[i] = byte(v&0x7f) | 0x80
		v >>= 7
	}
	b[n-1] &= 0x7f
	return b
}

func pbTag(field uint64, wt int) []byte { return pbVarint(field<<3 | uint64(wt)) }

func cat(parts ...[]byte) []byte {
	var out []byte
	for _, p := range parts {
		out = append(out, p...)
	}
	return out
}

func pbLenField(field uint64, payload []byte) []byte {
	return cat(pbTag(field, 2), pbVarint(uint64(len(payload))), payload)
}

func pbVarintField(field uint64, v uint64) []byte { return cat(pbTag(field, 0), pbVarint(v)) }

func pbFixed64Field(field uint64, v uint64) []byte {
	b := make([]byte, 8)
	binary.LittleEndian.PutUint64(b, v)
	return cat(pbTag(field, 1), b)
}

func pbFixed32Field(field uint64, v uint32) []byte {
	b := make([]byte, 4)
	binary.LittleEndian.PutUint32(b, v)
	return cat(pbTag(field, 5), b)
}

// ---- re-encoder: every serialisation a conforming encoder may produce ----

type pbOpts struct {
	r        *rand.Rand
	shuffle  bool // permute fields (repeated fields keep their relative order)
	unknown  bool // inject unknown fields of wire types 0,1,2,5
	repeat   bool // scalars occur several times, the last one carries the value
	splitMsg bool // the embedded meta message occurs several times (merge)
	overlong bool // non-minimal varints for tags and lengths
	defaults bool // zero-valued scalars are written explicitly
	bigField bool // unknown field numbers up to 2^29-1 also at snapshot / meta level
}

// a field of a message being assembled; grp > 0 marks members of an ordered group
// (repeated fields, or the successive occurrences of one scalar)
type pbField struct {
	b   []byte
	grp int
}

func (o *pbOpts) tag(field uint64, wt int) []byte {
	if o.overlong && o.r.Intn(4) == 0 {
		v := field<<3 | uint64(wt)
		return pbVarintPad(v, len(pbVarint(v))+1+o.r.Intn(2))
	}
	return pbTag(field, wt)
}

func (o *pbOpts) length(n int) []byte {
	if o.overlong && o.r.Intn(4) == 0 {
		return pbVarintPad(uint64(n), len(pbVarint(uint64(n)))+1+o.r.Intn(3))
	}
	return pbVarint(uint64(n))
}

func (o *pbOpts) lenField(field uint64, payload []byte) []byte {
	return cat(o.tag(field, 2), o.length(len(payload)), payload)
}

func (o *pbOpts) unknownField(level int, known map[uint64]bool) []byte {
	var f uint64
	for {
		switch o.r.Intn(6) {
		case 0:
			f = uint64(5 + o.r.Intn(11))
		case 1:
			f = uint64(16 + o.r.Intn(2000))
		case 2:
			f = 1<<26 - 1 - uint64(o.r.Intn(3))
		case 3:
			if level >= 2 || o.bigField { // DBI and KV level (own parser): full range
				f = []uint64{1 << 26, 1<<28 + 5, 1<<29 - 1}[o.r.Intn(3)]
			} else {
				f = uint64(9 + o.r.Intn(5))
			}
		default:
			f = uint64(1 + o.r.Intn(12))
		}
		if !known[f] && f >= 1 {
			break
		}
	}
	switch o.r.Intn(4) {
	case 0:
		return cat(o.tag(f, 0), pbVarint(advValues[o.r.Intn(len(advValues))]))
	case 1:
		return cat(o.tag(f, 1), randBytes(o.r, 8))
	case 2:
		n := []int{0, 1, 2, 7, 20, 127, 128, 300}[o.r.Intn(8)]
		return o.lenField(f, randBytes(o.r, n))
	}
	return cat(o.tag(f, 5), randBytes(o.r, 4))
}

// assemble orders the fields: groups keep their internal order, everything else is shuffled.
func (o *pbOpts) assemble(level int, known map[uint64]bool, fields []pbField) []byte {
	if o.unknown {
		k := o.r.Intn(4)
		for i := 0; i < k; i++ {
			fields = append(fields, pbField{b: o.unknownField(level, known)})
		}
	}
	if o.shuffle {
		// a random interleaving that preserves the relative order inside each group:
		// shuffle positions, then re-sort each group's members into their original order
		idx := o.r.Perm(len(fields))
		out := make([]pbField, len(fields))
		for i, p := range idx {
			out[p] = fields[i]
		}
		pos := map[int][]int{}
		for i, f := range out {
			if f.grp > 0 {
				pos[f.grp] = append(pos[f.grp], i)
			}
		}
		for g, ps := range pos {
			var members []pbField
			for _, f := range fields {
				if f.grp == g {
					members = append(members, f)
				}
			}
			for i, p := range ps {
				out[p] = members[i]
			}
		}
		fields = out
	}
	var b []byte
	for _, f := range fields {
		b = append(b, f.b...)
	}
	return b
}

var grpCounter int

func newGrp() int { grpCounter++; return grpCounter }

// scalar emits a scalar field: possibly earlier occurrences with other values first.
func (o *pbOpts) scalar(fields []pbField, isZero bool, mk func(final bool) []byte) []pbField {
	if isZero && !(o.defaults && o.r.Intn(2) == 0) && !(o.repeat && o.r.Intn(4) == 0) {
		return fields
	}
	g := newGrp()
	if o.repeat && o.r.Intn(3) == 0 {
		for i := o.r.Intn(3); i >= 0; i-- {
			fields = append(fields, pbField{mk(false), g})
		}
	}
	return append(fields, pbField{mk(true), g})
}

func (o *pbOpts) junk(n int) []byte { return randBytes(o.r, o.r.Intn(n+1)) }

func (o *pbOpts) encKV(e wKV) []byte {
	var f []pbField
	f = o.scalar(f, len(e.Key) == 0, func(fin bool) []byte {
		if fin {
			return o.lenField(1, e.Key)
		}
		return o.lenField(1, o.junk(5))
	})
	f = o.scalar(f, len(e.Val) == 0, func(fin bool) []byte {
		if fin {
			return o.lenField(2, e.Val)
		}
		return o.lenField(2, o.junk(5))
	})
	f = o.scalar(f, e.TS == 0, func(fin bool) []byte {
		if fin {
			return cat(o.tag(3, 1), pbFixed64Field(3, e.TS)[1:])
		}
		return cat(o.tag(3, 1), randBytes(o.r, 8))
	})
	f = o.scalar(f, e.Flags == 0, func(fin bool) []byte {
		if fin {
			return cat(o.tag(4, 0), pbVarint(uint64(e.Flags)))
		}
		return cat(o.tag(4, 0), pbVarint(uint64(o.r.Uint32())))
	})
	return o.assemble(3, map[uint64]bool{1: true, 2: true, 3: true, 4: true}, f)
}

func (o *pbOpts) encDBI(d wDBI) []byte {
	var f []pbField
	f = o.scalar(f, len(d.Name) == 0, func(fin bool) []byte {
		if fin {
			return o.lenField(1, d.Name)
		}
		return o.lenField(1, o.junk(5))
	})
	f = o.scalar(f, d.Flags == 0, func(fin bool) []byte {
		if fin {
			return cat(o.tag(3, 0), pbVarint(d.Flags))
		}
		return cat(o.tag(3, 0), pbVarint(o.r.Uint64()))
	})
	f = o.scalar(f, len(d.Transform) == 0, func(fin bool) []byte {
		if fin {
			return o.lenField(4, d.Transform)
		}
		return o.lenField(4, o.junk(5))
	})
	g := newGrp()
	for _, e := range d.Entries {
		f = append(f, pbField{o.lenField(2, o.encKV(e)), g})
	}
	return o.assemble(2, map[uint64]bool{1: true, 2: true, 3: true, 4: true}, f)
}

// metaFields returns the fields of the meta message selected by `which`.
func (o *pbOpts) metaFields(m wMeta, which func(i int) bool) []pbField {
	var f []pbField
	str := func(i int, field uint64, s []byte) {
		if !which(i) {
			return
		}
		f = o.scalar(f, len(s) == 0, func(fin bool) []byte {
			if fin {
				return o.lenField(field, s)
			}
			return o.lenField(field, o.junk(5))
		})
	}
	vint := func(i int, field uint64, v int64) {
		if !which(i) {
			return
		}
		f = o.scalar(f, v == 0, func(fin bool) []byte {
			if fin {
				return cat(o.tag(field, 0), pbVarint(uint64(v)))
			}
			return cat(o.tag(field, 0), pbVarint(o.r.Uint64()))
		})
	}
	str(0, 1, m.Gen)
	str(1, 2, m.Inst)
	str(2, 3, m.Host)
	vint(3, 4, m.Txn)
	if which(4) {
		f = o.scalar(f, m.TS == 0, func(fin bool) []byte {
			if fin {
				return cat(o.tag(5, 1), pbFixed64Field(5, m.TS)[1:])
			}
			return cat(o.tag(5, 1), randBytes(o.r, 8))
		})
	}
	str(5, 7, m.DBName)
	vint(6, 8, m.From)
	return f
}

var metaKnown = map[uint64]bool{1: true, 2: true, 3: true, 4: true, 5: true, 7: true, 8: true}

func (o *pbOpts) encSnap(s wSnap) []byte {
	var f []pbField
	f = o.scalar(f, s.FV == 0, func(fin bool) []byte {
		if fin {
			return cat(o.tag(1, 0), pbVarint(uint64(s.FV)))
		}
		return cat(o.tag(1, 0), pbVarint(uint64(o.r.Uint32())))
	})
	f = o.scalar(f, s.CV == 0, func(fin bool) []byte {
		if fin {
			return cat(o.tag(4, 0), pbVarint(uint64(s.CV)))
		}
		return cat(o.tag(4, 0), pbVarint(uint64(o.r.Uint32())))
	})
	// meta: one message, or several occurrences that are merged (each field's final value in
	// the last occurrence that carries the field)
	gm := newGrp()
	if o.splitMsg && o.r.Intn(2) == 0 {
		// first occurrence: junk values for every field; then the real fields split over two
		junk := wMeta{o.junk(4), o.junk(4), o.junk(4), int64(o.r.Uint64()), o.r.Uint64(), o.junk(4), int64(o.r.Uint64())}
		all := func(int) bool { return true }
		cut := o.r.Intn(8)
		f = append(f, pbField{o.lenField(2, o.assemble(1, metaKnown, o.metaFields(junk, all))), gm})
		// fields whose real value is zero must be reset explicitly after the junk occurrence
		save := *o
		o.defaults = true
		first := o.metaFieldsForce(m0(s.Meta), func(i int) bool { return i < cut })
		second := o.metaFieldsForce(m0(s.Meta), func(i int) bool { return i >= cut })
		o.defaults = save.defaults
		f = append(f, pbField{o.lenField(2, o.assemble(1, metaKnown, first)), gm})
		f = append(f, pbField{o.lenField(2, o.assemble(1, metaKnown, second)), gm})
	} else {
		all := func(int) bool { return true }
		mf := o.metaFields(s.Meta, all)
		if len(mf) > 0 || o.r.Intn(2) == 0 {
			f = append(f, pbField{o.lenField(2, o.assemble(1, metaKnown, mf)), gm})
		}
	}
	gd := newGrp()
	for _, d := range s.DBIs {
		f = append(f, pbField{o.lenField(3, o.encDBI(d)), gd})
	}
	return o.assemble(0, map[uint64]bool{1: true, 2: true, 3: true, 4: true}, f)
}

func m0(m wMeta) wMeta { return m }

// metaFieldsForce writes every selected field explicitly, zero or not.
func (o *pbOpts) metaFieldsForce(m wMeta, which func(i int) bool) []pbField {
	var f []pbField
	add := func(i int, b []byte) {
		if which(i) {
			f = append(f, pbField{b: b})
		}
	}
	add(0, o.lenField(1, m.Gen))
	add(1, o.lenField(2, m.Inst))
	add(2, o.lenField(3, m.Host))
	add(3, cat(o.tag(4, 0), pbVarint(uint64(m.Txn))))
	add(4, cat(o.tag(5, 1), pbFixed64Field(5, m.TS)[1:]))
	add(5, o.lenField(7, m.DBName))
	add(6, cat(o.tag(8, 0), pbVarint(uint64(m.From))))
	return f
}

// canonical serialisation (field-number order, minimal varints, no defaults)
func plainOpts(r *rand.Rand) *pbOpts { return &pbOpts{r: r} }

// ---- snapshot descriptions ----

var lenBoundaries = []int{0, 1, 2, 3, 126, 127, 128, 129, 255, 256, 511, 512}

func randLen(r *rand.Rand, big bool) int {
	switch r.Intn(10) {
	case 0, 1, 2:
		return lenBoundaries[r.Intn(len(lenBoundaries))]
	case 3:
		if big {
			return []int{16382, 16383, 16384, 16385}[r.Intn(4)]
		}
	}
	return r.Intn(12)
}

var u64Boundary = []uint64{0, 1, 127, 128, 255, 256, 16383, 16384, 1<<21 - 1, 1 << 21, 1<<28 - 1, 1 << 28, 1<<31 - 1, 1 << 31, 1<<32 - 1, 1 << 32, 1<<35 - 1, 1 << 35, 1<<56 - 1, 1 << 56, 1<<63 - 1, 1 << 63, 1<<64 - 1}

func randU64(r *rand.Rand) uint64 {
	switch r.Intn(3) {
	case 0:
		return u64Boundary[r.Intn(len(u64Boundary))]
	case 1:
		return uint64(r.Intn(4))
	}
	return r.Uint64() >> uint(r.Intn(64))
}

func randU32(r *rand.Rand) uint32 {
	switch r.Intn(3) {
	case 0:
		return []uint32{0, 1, 2, 127, 128, 16383, 16384, 1<<21 - 1, 1 << 21, 1<<28 - 1, 1 << 28, 1<<32 - 1}[r.Intn(12)]
	case 1:
		return uint32(r.Intn(4))
	}
	return r.Uint32() >> uint(r.Intn(32))
}

func nonEmpty(r *rand.Rand, n int) []byte {
	if n < 1 {
		n = 1
	}
	return randBytes(r, n)
}

// randSnap: a well-formed snapshot (names 1..511, transforms <= 64, keys non-empty, txn ids >= 0)
// unless wild, in which case those limits are crossed too.
func randSnap(r *rand.Rand, wild, big bool) wSnap {
	s := wSnap{FV: randU32(r), CV: randU32(r)}
	if r.Intn(3) == 0 {
		s.FV, s.CV = 3, 1
	}
	mstr := func() []byte {
		if r.Intn(3) == 0 {
			return nil
		}
		return randBytes(r, randLen(r, false))
	}
	s.Meta = wMeta{mstr(), mstr(), mstr(), int64(randU64(r) >> 1), randU64(r), mstr(), int64(randU64(r) >> 1)}
	if wild && r.Intn(2) == 0 {
		s.Meta.Txn = -s.Meta.Txn
		s.Meta.From = int64(randU64(r))
	}
	nd := []int{0, 1, 1, 2, 3}[r.Intn(5)]
	for i := 0; i < nd; i++ {
		var d wDBI
		nl := 1 + r.Intn(8)
		switch r.Intn(8) {
		case 0:
			nl = []int{1, 127, 128, 510, 511}[r.Intn(5)]
		}
		d.Name = nonEmpty(r, nl)
		d.Flags = randU64(r)
		switch r.Intn(4) {
		case 0:
			d.Transform = []byte("dupsort_hack_v1")
		case 1:
			d.Transform = randBytes(r, []int{1, 2, 50, 63, 64}[r.Intn(5)])
		}
		if wild {
			switch r.Intn(6) {
			case 0:
				d.Name = nil
			case 1:
				d.Name = randBytes(r, []int{512, 600, 900, 985, 990, 994, 995, 996, 997, 998, 1000, 1200}[r.Intn(12)])
			case 2:
				d.Transform = randBytes(r, []int{65, 127, 128, 400, 600, 1000}[r.Intn(6)])
			}
		}
		ne := []int{0, 0, 1, 2, 3, 5, 9}[r.Intn(7)]
		for j := 0; j < ne; j++ {
			e := wKV{Key: nonEmpty(r, randLen(r, false)), TS: randU64(r), Flags: randU32(r)}
			if r.Intn(3) != 0 {
				e.Val = randBytes(r, randLen(r, big))
			}
			if big && r.Intn(30) == 0 {
				e.Key = nonEmpty(r, randLen(r, true))
			}
			if wild && r.Intn(5) == 0 {
				e.Key = nil
				if r.Intn(2) == 0 {
					e = wKV{}
				}
			}
			d.Entries = append(d.Entries, e)
		}
		s.DBIs = append(s.DBIs, d)
	}
	return s
}

func (s wSnap) wellFormed() bool {
	if s.Meta.Txn < 0 || s.Meta.From < 0 {
		return false
	}
	for _, d := range s.DBIs {
		if len(d.Name) < 1 || len(d.Name) > 511 || len(d.Transform) > 64 {
			return false
		}
		for _, e := range d.Entries {
			if len(e.Key) == 0 {
				return false
			}
		}
	}
	return true
}

// ---- streams ----

// adversarial integer values for lengths, tags and varint payloads
var advValues = func() []uint64 {
	var vs []uint64
	for k := uint(0); k < 64; k++ {
		vs = append(vs, 1<<k-1, 1<<k, 1<<k+1)
	}
	vs = append(vs, 1<<64-1, 1<<64-2, 100<<30, 100<<30+1, 1<<31-2)
	return vs
}()

var advValuesQuick = func() []uint64 {
	var vs []uint64
	for _, k := range []uint{0, 1, 3, 6, 7, 8, 13, 14, 15, 21, 28, 29, 31, 32, 33, 36, 37, 62, 63} {
		vs = append(vs, 1<<k-1, 1<<k, 1<<k+1)
	}
	vs = append(vs, 1<<64-1, 100<<30, 100<<30+1)
	return vs
}()

// every way a varint with (roughly) value v can be written, legal or not
func advEncodings(v uint64) [][]byte {
	min := pbVarint(v)
	out := [][]byte{min}
	if len(min) < 10 {
		out = append(out, pbVarintPad(v, 10)) // overlong, legal
	}
	if len(min) < 9 {
		out = append(out, pbVarintPad(v, len(min)+1))
	}
	return out
}

func genWireVarint(g *Gen, n int) {
	emit := func(class string, b []byte) { g.Emit(class, "wire.varint "+hx(b)) }
	emit("empty", nil)
	for i := 0; i < 256; i++ {
		emit("one-byte", []byte{byte(i)})
		emit("two-byte", []byte{0x80 | byte(i), byte(i)})
	}
	for _, v := range advValues {
		for _, e := range advEncodings(v) {
			emit("boundary", e)
			emit("boundary-trailing", cat(e, []byte{0xff, 0x01}))
			emit("boundary-truncated", e[:len(e)-1])
		}
	}
	// ten-byte forms: every value of the tenth byte; eleven bytes; all-continuation runs
	for last := 0; last < 256; last++ {
		b := bytes9ff()
		emit("ten-byte", append(b, byte(last)))
		emit("ten-byte-trailing", append(append(b, byte(last)), 0x01, 0x02))
	}
	for l := 1; l <= 12; l++ {
		b := make([]byte, l)
		for i := range b {
			b[i] = 0x80
		}
		emit("continuation-run", b)
		emit("continuation-run-then-0", append(b, 0))
	}
	for i := 0; i < n; i++ {
		b := randBytes(g.R, g.R.Intn(13))
		if g.R.Intn(2) == 0 {
			for j := range b {
				if g.R.Intn(3) != 0 {
					b[j] |= 0x80
				}
			}
		}
		emit("random", b)
	}
}

func bytes9ff() []byte {
	b := make([]byte, 9)
	for i := range b {
		b[i] = 0xff
	}
	return b
}

// emitDecodes: all decoders on a snapshot message and on its parts
func emitDecodes(g *Gen, class string, b []byte) {
	if len(b) > 40000 {
		g.Emit(class, "wire.snapshot "+hx(b))
		return
	}
	g.Emit(class, "wire.snapshot "+hx(b))
	g.Emit(class, "pb.parse "+hx(b))
}

func genWireValid(g *Gen, n int) {
	big := 0
	emitSnap := func(class string, s wSnap) {
		desc := s.String()
		g.Emit(class, "wire.encode "+desc)
		if s.wellFormed() {
			g.Emit(class, "prop.c07.roundtrip "+desc)
		}
		b := plainOpts(g.R).encSnap(s)
		if len(b) > 30000 {
			big++
			if big > 12 && !g.Thorough() {
				return
			}
		}
		emitDecodes(g, class, b)
		g.Emit(class, "prop.c07.compat "+hx(b))
		// the reference codec's own serialisation (field-number order, meta always present)
		if gb, err := toGogo(s).Marshal(); err == nil && len(gb) <= 40000 {
			g.Emit(class+"/gogo-marshal", "prop.c07.compat "+hx(gb))
			g.Emit(class+"/gogo-marshal", "wire.snapshot "+hx(gb))
			g.Emit(class+"/gogo-marshal", "pb.parse "+hx(gb))
		}
		for _, d := range s.DBIs {
			db := plainOpts(g.R).encDBI(d)
			if len(db) > 30000 {
				continue
			}
			g.Emit(class, "wire.dbi.iter "+hx(db))
			g.Emit(class, "wire.dbi.index "+hx(db))
			for i, e := range d.Entries {
				if i < 2 {
					g.Emit(class, "wire.kv "+hx(plainOpts(g.R).encKV(e)))
				}
			}
		}
	}
	// small scope: the empty snapshot, DBIs without entries, entries without value, extremes
	emitSnap("empty", wSnap{})
	emitSnap("versions-only", wSnap{FV: 3, CV: 1})
	meta := wMeta{[]byte("G"), []byte("inst"), []byte("host"), 42, 1700000000000000000, []byte("main"), 41}
	for _, fl := range []uint32{0, 1, 1<<32 - 1} {
		for _, ts := range []uint64{0, 1, 1<<64 - 1} {
			for _, val := range [][]byte{nil, []byte("v")} {
				s := wSnap{FV: 3, CV: 1, Meta: meta, DBIs: []wDBI{
					{Name: []byte("empty-dbi"), Flags: 0},
					{Name: []byte("d"), Flags: 1<<64 - 1, Transform: []byte("dupsort_hack_v1"), Entries: []wKV{{[]byte("k"), val, ts, fl}}},
				}}
				emitSnap("small", s)
			}
		}
	}
	// sizes crossing the varint boundaries, for keys, values, names, the KV message, the DBI
	sizes := []int{126, 127, 128, 129, 16382, 16383, 16384, 16385}
	for _, kl := range []int{1, 126, 127, 128, 511} {
		for _, vl := range sizes {
			if kl > 1 && vl > 200 {
				continue
			}
			s := wSnap{FV: 3, CV: 1, Meta: meta, DBIs: []wDBI{{Name: []byte("d"), Entries: []wKV{{nonEmpty(g.R, kl), randBytes(g.R, vl), 5, 0}}}}}
			emitSnap("size-boundary", s)
		}
	}
	// KV message size around 127/128 and 16383/16384 exactly
	for _, target := range []int{127, 128, 16383, 16384} {
		for d := -4; d <= 4; d++ {
			vl := target - 3 - d // key "k": 3 bytes; value header 2..3 bytes
			if vl < 1 {
				continue
			}
			s := wSnap{DBIs: []wDBI{{Name: []byte("n"), Entries: []wKV{{[]byte("k"), randBytes(g.R, vl), 0, 0}}}}}
			emitSnap("msgsize-boundary", s)
		}
	}
	for _, nl := range []int{1, 127, 128, 510, 511} {
		for _, tl := range []int{0, 1, 63, 64} {
			s := wSnap{DBIs: []wDBI{{Name: nonEmpty(g.R, nl), Flags: 1<<64 - 1, Transform: randBytes(g.R, tl)}}}
			emitSnap("name-boundary", s)
		}
	}
	// the field buffer of doFlushFields (1000 bytes) — beyond the well-formedness limits
	for _, nl := range []int{512, 900, 985, 986, 987, 988, 990, 994, 995, 996, 997, 998, 999, 1000, 1001, 1500} {
		for _, fl := range []uint64{0, 1, 1<<64 - 1} {
			for _, tl := range []int{0, 1, 5, 65, 600} {
				d := wDBI{Name: nonEmpty(g.R, nl), Flags: fl, Transform: randBytes(g.R, tl)}
				g.Emit("field-buffer", "wire.encode "+wSnap{DBIs: []wDBI{d}}.String())
			}
		}
	}
	for _, tl := range []int{65, 400, 980, 990, 995, 996, 997, 1000, 1100} {
		d := wDBI{Name: []byte("n"), Flags: 3, Transform: randBytes(g.R, tl), Entries: []wKV{{[]byte("k"), nil, 0, 0}}}
		g.Emit("field-buffer", "wire.encode "+wSnap{DBIs: []wDBI{d}}.String())
	}
	for i := 0; i < n; i++ {
		wild := g.R.Intn(4) == 0
		emitSnap(map[bool]string{false: "random-wf", true: "random-wild"}[wild], randSnap(g.R, wild, i%10 == 0))
	}
	// highly compressible content (better than the 1:10 the loader's buffer sizing assumes):
	// constant values, near-identical entries, a second DBI behind the compressible one
	for _, vl := range []int{300, 4000, 20000} {
		for _, ne := range []int{1, 12} {
			if !g.Thorough() && vl == 20000 && ne == 12 {
				continue
			}
			var es []wKV
			for i := 0; i < ne; i++ {
				es = append(es, wKV{[]byte(fmt.Sprintf("key-%04d", i)), bytes.Repeat([]byte{byte(0x41 + vl%7)}, vl), 1000 + uint64(i), 0})
			}
			s := wSnap{FV: 3, CV: 1, Meta: meta, DBIs: []wDBI{{Name: []byte("rep"), Entries: es}, {Name: []byte("tail"), Entries: []wKV{{[]byte("last"), []byte("entry"), 5, 0}}}}}
			g.Emit("compressible", "prop.c07.roundtrip "+s.String())
			g.Emit("compressible", "wire.snapshot "+hx(plainOpts(g.R).encSnap(s)))
		}
	}
	if g.Thorough() {
		// 2^21: three-byte/four-byte length varints; many entries
		for _, vl := range []int{1<<21 - 2, 1<<21 - 1, 1 << 21, 1<<21 + 1} {
			s := wSnap{FV: 3, CV: 1, Meta: meta, DBIs: []wDBI{{Name: []byte("big"), Entries: []wKV{{[]byte("k"), randBytes(g.R, vl), 7, 1}, {[]byte("k2"), []byte("after"), 8, 0}}}}}
			g.Emit("size-2^21", "prop.c07.roundtrip "+s.String())
			g.Emit("size-2^21", "wire.encode "+s.String())
		}
		var es []wKV
		for i := 0; i < 3000; i++ {
			es = append(es, wKV{[]byte{byte(i >> 8), byte(i), 'k'}, randBytes(g.R, g.R.Intn(6)), randU64(g.R), randU32(g.R)})
		}
		s := wSnap{FV: 3, CV: 1, Meta: meta, DBIs: []wDBI{{Name: []byte("many"), Entries: es}}}
		g.Emit("many-entries", "prop.c07.roundtrip "+s.String())
		g.Emit("many-entries", "wire.snapshot "+hx(plainOpts(g.R).encSnap(s)))
	}
}

func genWireReencode(g *Gen, n int) {
	emit := func(class string, s wSnap, o *pbOpts) {
		b := o.encSnap(s)
		g.Emit(class, "prop.c07.compat "+hx(b))
		g.Emit(class, "pb.parse "+hx(b))
		g.Emit(class, "wire.snapshot "+hx(b))
	}
	for i := 0; i < n; i++ {
		s := randSnap(g.R, false, false)
		if g.R.Intn(6) == 0 {
			s = randSnap(g.R, true, false)
		}
		o := &pbOpts{r: g.R}
		class := "reencode"
		mode := g.R.Intn(8)
		switch mode {
		case 0:
			o.shuffle = true
			class += "-shuffle"
		case 1:
			o.unknown = true
			class += "-unknown"
		case 2:
			o.repeat = true
			class += "-repeat"
		case 3:
			o.splitMsg = true
			class += "-split-meta"
		case 4:
			o.overlong = true
			class += "-overlong"
		case 5:
			o.defaults = true
			class += "-defaults"
		default:
			o.shuffle, o.unknown, o.repeat, o.splitMsg = true, true, true, true
			o.overlong, o.defaults = g.R.Intn(2) == 0, g.R.Intn(2) == 0
			class += "-all"
		}
		emit(class, s, o)
		// truncations of a valid message are valid only at record boundaries
		if i%5 == 0 {
			b := o.encSnap(s)
			if len(b) > 1 {
				t := b[:g.R.Intn(len(b))]
				g.Emit(class+"-truncated", "pb.parse "+hx(t))
				g.Emit(class+"-truncated", "wire.snapshot "+hx(t))
				g.Emit(class+"-truncated", "prop.c07.compat "+hx(t))
			}
		}
	}
}

// D2's input class: unknown fields at DBI level, in front of / between / behind known ones.
func genWireUnknownDBI(g *Gen, n int) {
	for wt := 0; wt < 8; wt++ {
		for _, pos := range []int{0, 1, 2} {
			for _, f := range []uint64{5, 6, 15, 16, 2047, 1 << 26, 1<<29 - 1} {
				var u []byte
				switch wt {
				case 0:
					u = pbVarintField(f, 300)
				case 1:
					u = pbFixed64Field(f, 0x1122334455667788)
				case 2:
					u = pbLenField(f, []byte("xyzxyz"))
				case 5:
					u = pbFixed32Field(f, 0x11223344)
				default:
					u = cat(pbTag(f, wt), []byte{0})
				}
				parts := [][]byte{pbLenField(1, []byte("abc")), pbLenField(2, pbLenField(1, []byte("k"))), pbVarintField(3, 8)}
				var d []byte
				for i, p := range parts {
					if i == pos {
						d = append(d, u...)
					}
					d = append(d, p...)
				}
				if pos == 2 {
					d = append(d, u...)
				}
				g.Emit("unknown-dbi-field", "wire.dbi.index "+hx(d))
				g.Emit("unknown-dbi-field", "wire.dbi.iter "+hx(d))
				sb := cat(pbVarintField(1, 3), pbLenField(3, d))
				g.Emit("unknown-dbi-field", "wire.snapshot "+hx(sb))
				if wt == 0 || wt == 1 || wt == 2 || wt == 5 {
					g.Emit("unknown-dbi-field", "prop.c07.compat "+hx(sb))
				}
			}
		}
	}
}

// genWireBlobs: damaged gzip containers as they could come from the bucket
func genWireBlobs(g *Gen) {
	valid := gz(plainOpts(g.R).encSnap(randSnap(g.R, false, false)))
	for _, size := range []uint32{0xffffffff, 0x80000000, 0x7fffffff, 0x40000000, 1 << 20, 0} {
		// the size trailer (last four bytes) lies
		b := append([]byte{}, valid...)
		binary.LittleEndian.PutUint32(b[len(b)-4:], size)
		g.Emit("gzip-trailer", "prop.c08.blob "+hx(b))
		// ... on a truncated stream
		g.Emit("gzip-trailer", "prop.c08.blob "+hx(append(append([]byte{}, valid[:len(valid)/2]...), b[len(b)-4:]...)))
		// ... on a header with nothing behind it
		g.Emit("gzip-trailer", "prop.c08.blob "+hx(append(append([]byte{}, valid[:10]...), b[len(b)-8:]...)))
	}
	for i := 0; i < 6; i++ {
		b := append([]byte{}, valid...)
		b[g.R.Intn(len(b))] ^= byte(1 << uint(g.R.Intn(8))) // one flipped bit anywhere
		g.Emit("gzip-bitflip", "prop.c08.blob "+hx(b))
	}
	g.Emit("gzip-valid", "prop.c08.blob "+hx(valid))
}

func genWireMalformed(g *Gen, n int) {
	genWireBlobs(g)
	vals := advValuesQuick
	if g.Thorough() {
		vals = advValues
	}
	// wrappers that place inner bytes at each nesting level with correct outer lengths
	asEntry := func(kvBytes []byte) []byte {
		return cat(pbLenField(1, []byte("db")), pbLenField(2, pbLenField(1, []byte("first"))), pbLenField(2, kvBytes), pbLenField(2, pbLenField(1, []byte("last"))))
	}
	asDBI := func(dbiBytes []byte) []byte {
		return cat(pbVarintField(1, 3), pbLenField(2, pbLenField(1, []byte("g"))), pbLenField(3, dbiBytes), pbVarintField(4, 1))
	}
	asMeta := func(metaBytes []byte) []byte {
		return cat(pbVarintField(1, 3), pbLenField(2, metaBytes), pbLenField(3, pbLenField(1, []byte("d"))))
	}
	snapLevel := func(class string, s []byte) {
		g.Emit(class, "wire.snapshot "+hx(s))
		g.Emit(class, "prop.c08.total "+hx(s))
	}
	kvLevel := func(class string, kv []byte) {
		g.Emit(class, "wire.kv "+hx(kv))
		g.Emit(class, "wire.dbi.iter "+hx(asEntry(kv)))
		snapLevel(class, asDBI(asEntry(kv)))
	}
	dbiLevel := func(class string, d []byte) {
		g.Emit(class, "wire.dbi.index "+hx(d))
		g.Emit(class, "wire.dbi.iter "+hx(d))
		snapLevel(class, asDBI(d))
	}
	metaLevel := func(class string, m []byte) { snapLevel(class, asMeta(m)) }
	levels := []func(string, []byte){kvLevel, dbiLevel, metaLevel, snapLevel}
	names := []string{"kv", "dbi", "meta", "snapshot"}
	payload := []byte("0123456789")
	for li, put := range levels {
		// the fields of this level that carry a length / a varint / a fixed value
		var lenFields, varFields []uint64
		switch li {
		case 0:
			lenFields, varFields = []uint64{1, 2, 9}, []uint64{4, 9}
		case 1:
			lenFields, varFields = []uint64{1, 2, 4, 9}, []uint64{3, 9}
		case 2:
			lenFields, varFields = []uint64{1, 2, 3, 7, 9}, []uint64{4, 8, 9}
		case 3:
			lenFields, varFields = []uint64{2, 3, 9}, []uint64{1, 4, 9}
		}
		for _, v := range vals {
			for _, enc := range advEncodings(v) {
				for _, f := range lenFields {
					// adversarial length: with less, exactly 10, and more data behind it
					put("adv-length-"+names[li], cat(pbTag(f, 2), enc, payload))
					put("adv-length-"+names[li], cat(pbVarintField(15, 1), pbTag(f, 2), enc, payload, payload))
					put("adv-length-"+names[li], cat(pbTag(f, 2), enc))
				}
				for _, f := range varFields {
					put("adv-varint-"+names[li], cat(pbTag(f, 0), enc))
					put("adv-varint-"+names[li], cat(pbTag(f, 0), enc, pbVarintField(14, 1)))
				}
				// adversarial tag varint (field number and wire type from the value)
				put("adv-tag-"+names[li], cat(enc, payload))
				put("adv-tag-"+names[li], cat(pbVarintField(15, 1), enc, []byte{0x02, 0x41, 0x42}))
			}
		}
		// ten-byte varints whose tenth byte carries bits beyond 2^64; eleven-byte varints
		for _, last := range []byte{0x00, 0x01, 0x02, 0x7e, 0x7f, 0x80, 0x81, 0xff} {
			w := append(bytes9ff(), last)
			for _, f := range lenFields {
				put("adv-10byte-"+names[li], cat(pbTag(f, 2), w, payload))
			}
			for _, f := range varFields {
				put("adv-10byte-"+names[li], cat(pbTag(f, 0), w, payload))
			}
			put("adv-10byte-"+names[li], cat(w, payload))
		}
		// every wire type on every small field number
		for f := uint64(0); f <= 9; f++ {
			for wt := 0; wt < 8; wt++ {
				put("wiretype-"+names[li], cat(pbTag(f, wt), []byte{0x03, 0x41, 0x42, 0x43, 0, 0, 0, 0, 0}))
				put("wiretype-"+names[li], pbTag(f, wt))
			}
		}
	}
	// D3's witness family: negative skip at KV level
	kvLevel("negative-skip", []byte{0x2a, 0xf5, 0xff, 0xff, 0xff, 0xff, 0xff, 0xff, 0xff, 0xff, 0x01})
	for d := 0; d < 40; d++ {
		kvLevel("negative-skip", cat([]byte{0x0a, 0x01, 0x6b, 0x2a}, pbVarint(uint64(1<<64-1)-uint64(d))))
		dbiLevel("negative-skip", cat(pbLenField(1, []byte("n")), []byte{0x2a}, pbVarint(uint64(1<<64-1)-uint64(d))))
		dbiLevel("negative-skip", cat(pbLenField(1, []byte("n")), []byte{0x12}, pbVarint(uint64(1<<63)+uint64(d))))
	}
	// random bytes, truncations and bit flips of valid messages
	for i := 0; i < n; i++ {
		b := randBytes(g.R, g.R.Intn(40))
		levels[g.R.Intn(4)]("random-bytes", b)
	}
	for i := 0; i < n; i++ {
		o := &pbOpts{r: g.R, unknown: g.R.Intn(2) == 0, shuffle: g.R.Intn(2) == 0, repeat: g.R.Intn(3) == 0}
		s := randSnap(g.R, g.R.Intn(4) == 0, false)
		b := o.encSnap(s)
		if len(b) == 0 {
			continue
		}
		for k := 0; k < 3; k++ {
			m := append([]byte{}, b...)
			class := "bitflip"
			switch g.R.Intn(4) {
			case 0:
				m = m[:g.R.Intn(len(m))]
				class = "truncated"
			case 1:
				m[g.R.Intn(len(m))] ^= 1 << uint(g.R.Intn(8))
			case 2:
				for j := g.R.Intn(3); j >= 0; j-- {
					m[g.R.Intn(len(m))] ^= 1 << uint(g.R.Intn(8))
				}
			case 3:
				p := g.R.Intn(len(m))
				m = cat(m[:p], advEncodings(advValues[g.R.Intn(len(advValues))])[0], m[p:])
				class = "spliced-varint"
			}
			snapLevel(class, m)
		}
		if len(s.DBIs) > 0 {
			db := o.encDBI(s.DBIs[0])
			if len(db) > 0 {
				db[g.R.Intn(len(db))] ^= 1 << uint(g.R.Intn(8))
				dbiLevel("bitflip-dbi", db)
			}
		}
	}
}
