package main

import (
	"fmt"
	"math/rand"
	"strings"
)

type txnGen struct {
	g      *Gen
	r      *rand.Rand
	lines  []string
	native bool
	hack   bool
	nowIdx uint64
	known  []uint64 // symbolic times of windows that certainly exist on the implementation side
	// dbi name -> flags (application DBIs the script created)
	dbis    map[string]uint
	order   []string
	noEmpty bool
}

func (t *txnGen) now() uint64 {
	t.nowIdx++
	n := symBase + symStep*t.nowIdx
	t.known = append(t.known, n)
	return n
}

// nowMaybe: a symbolic time whose window may not come to exist (op may return early)
func (t *txnGen) nowMaybe() uint64 {
	t.nowIdx++
	return symBase + symStep*t.nowIdx
}

func (t *txnGen) keyFor(name string) []byte {
	fl := t.dbis[name]
	if fl&0x08 != 0 {
		return le32([]uint32{0, 1, 2, 255, 256, 1 << 31, 1<<32 - 1, 7}[t.r.Intn(8)])
	}
	pool := [][]byte{[]byte("a"), []byte("b"), []byte("c"), []byte("ab"), {'a', 0}, {0xff}, []byte("k1"), []byte("k2")}
	return pool[t.r.Intn(len(pool))]
}

func (t *txnGen) appVal() []byte {
	switch t.r.Intn(8) {
	case 0:
		if t.noEmpty {
			return []byte("e")
		}
		return nil // empty application value
	case 1:
		return []byte("v")
	}
	return randBytes(t.r, 1+t.r.Intn(3))
}

// storedVal: what an application with a native schema writes (header + value)
func (t *txnGen) storedVal() []byte {
	ts := uint64(1 + t.r.Intn(6))
	if t.r.Intn(3) == 0 {
		return mkStored(ts, uint64(t.r.Intn(9)), 0, 1, 0, 0, nil) // deletion marker
	}
	ne := 0
	if t.r.Intn(5) == 0 {
		ne = 1 + t.r.Intn(2)
	}
	return mkStored(ts, uint64(t.r.Intn(9)), 0, 0, ne, 0, t.appVal())
}

func (t *txnGen) appOps(n int) string {
	var ops []string
	for i := 0; i < n; i++ {
		if len(t.order) == 0 || t.r.Intn(12) == 0 {
			name := []string{"t", "u", "w"}[t.r.Intn(3)]
			if t.native && t.r.Intn(4) == 0 {
				// left over from a migration from shadow mode: never part of a snapshot
				name = []string{"_sync_shadow_t", "_sync_meta"}[t.r.Intn(2)]
			}
			if _, ok := t.dbis[name]; !ok {
				fl := uint(0)
				switch t.r.Intn(6) {
				case 0:
					fl = 0x08
				case 1:
					if t.hack {
						fl = 0x04
					}
				}
				t.dbis[name] = fl
				t.order = append(t.order, name)
				ops = append(ops, fmt.Sprintf("c:%s:%d", hx([]byte(name)), fl))
			}
			continue
		}
		name := t.order[t.r.Intn(len(t.order))]
		k := t.keyFor(name)
		if t.r.Intn(4) == 0 {
			ops = append(ops, fmt.Sprintf("d:%s:%s", hx([]byte(name)), hx(k)))
		} else {
			v := t.appVal()
			if t.native {
				v = t.storedVal()
			}
			if t.dbis[name]&0x04 != 0 && len(v) == 0 {
				v = []byte("d") // LMDB refuses zero-length duplicates
			}
			ops = append(ops, fmt.Sprintf("p:%s:%s:%s", hx([]byte(name)), hx(k), hx(v)))
		}
	}
	if len(ops) == 0 {
		return "-"
	}
	return strings.Join(ops, ",")
}

// wipeOps: the application deletes every key of one of its DBIs (the whole key universe of the
// generator), leaving the DBI itself in place.
func (t *txnGen) wipeOps() string {
	var cands []string
	for _, n := range t.order {
		if t.dbis[n]&0x04 == 0 {
			cands = append(cands, n)
		}
	}
	if len(cands) == 0 {
		return t.appOps(2)
	}
	name := cands[t.r.Intn(len(cands))]
	var keys [][]byte
	if t.dbis[name]&0x08 != 0 {
		for _, v := range []uint32{0, 1, 2, 255, 256, 1 << 31, 1<<32 - 1, 7} {
			keys = append(keys, le32(v))
		}
	} else {
		keys = [][]byte{[]byte("a"), []byte("b"), []byte("c"), []byte("ab"), {'a', 0}, {0xff}, []byte("k1"), []byte("k2")}
	}
	var ops []string
	for _, k := range keys {
		ops = append(ops, fmt.Sprintf("d:%s:%s", hx([]byte(name)), hx(k)))
	}
	return strings.Join(ops, ",")
}

func (t *txnGen) snapshot() string {
	fv := []int{3, 3, 3, 3, 2, 1, 0, 4}[t.r.Intn(8)]
	cv := []int{1, 1, 1, 0, 3, 4}[t.r.Intn(6)]
	nd := t.r.Intn(3)
	if t.r.Intn(8) != 0 && nd == 0 {
		nd = 1
	}
	var ds []string
	for i := 0; i < nd; i++ {
		var name string
		var fl uint
		switch t.r.Intn(10) {
		case 0:
			name, fl = "_sync_shadow_t", 0
		case 1:
			name, fl = "_sync_meta", 0
		case 2:
			name = "n" + string(rune('0'+t.r.Intn(2)))
			if f, ok := t.dbis[name]; ok {
				fl = f
			} else {
				fl = []uint{0, 0, 8}[t.r.Intn(3)]
				t.dbis[name] = fl // may get created by the load
			}
		default:
			if len(t.order) > 0 {
				name = t.order[t.r.Intn(len(t.order))]
				fl = t.dbis[name]
			} else {
				name, fl = "t", []uint{0, 0, 0, 8, 4}[t.r.Intn(5)]
				if fl == 4 && !t.hack {
					fl = 0
				}
			}
		}
		if t.r.Intn(15) == 0 && fl&0x08 == 0 {
			fl ^= 0x04 // inconsistent dupsort flag
		}
		if _, known := t.dbis[name]; !known && !strings.HasPrefix(name, "_sync") {
			t.dbis[name] = fl // may get created by the load
			t.order = append(t.order, name)
		}
		if t.native && fv < 3 {
			fl &^= 0x04 // a duplicate-keys DBI under a native schema is unsupported (refused from v3 on)
		}
		tr := ""
		if fl&0x04 != 0 {
			tr = "dupsort_hack_v1"
		}
		switch t.r.Intn(15) {
		case 0:
			tr = "bogus"
		case 1:
			if tr == "" && fl&0x08 == 0 {
				tr = "dupsort_hack_v1"
			} else {
				tr = ""
			}
		}
		ne := t.r.Intn(5)
		var es []string
		for j := 0; j < ne; j++ {
			var k []byte
			if fl&0x08 != 0 {
				k = le32([]uint32{0, 1, 2, 255, 256, 1 << 31, 1<<32 - 1, 7}[t.r.Intn(8)])
			} else {
				k = [][]byte{[]byte("a"), []byte("b"), []byte("c"), []byte("ab"), {'a', 0}, {0xff}, []byte("k1"), []byte("zz")}[t.r.Intn(8)]
			}
			if tr == "dupsort_hack_v1" {
				k = append(append(append([]byte{}, k...), 0, 0, 0, 0, byte('x'+t.r.Intn(2))), byte(len(k)))
			}
			var ts uint64
			switch t.r.Intn(6) {
			case 0:
				ts = 0
			case 1, 2:
				ts = uint64(1 + t.r.Intn(6))
			case 3:
				if len(t.known) > 0 {
					ts = t.known[t.r.Intn(len(t.known))] + uint64(1+t.r.Intn(50))
				} else {
					ts = 3
				}
			case 4:
				ts = symTop + uint64(t.r.Intn(5))
			default:
				ts = uint64(1 + t.r.Intn(3))
			}
			efl := uint32(0)
			v := t.appVal()
			if t.r.Intn(4) == 0 {
				efl, v = 1, nil
			}
			if t.r.Intn(30) == 0 {
				efl |= 0x10 // unknown flag bit
			}
			es = append(es, fmt.Sprintf("%s=%s@%d@%d", hx(k), hx(v), ts, efl))
		}
		e := "-"
		if len(es) > 0 {
			e = strings.Join(es, ";")
		}
		ds = append(ds, fmt.Sprintf("%s:%d:%s:%s", hx([]byte(name)), fl, hx([]byte(tr)), e))
	}
	d := "-"
	if len(ds) > 0 {
		d = strings.Join(ds, "|")
	}
	return fmt.Sprintf("%d,%d,%s", fv, cv, d)
}

func genTxnScript(g *Gen, native, hack, pad bool, steps int) []string {
	return genTxnScriptF(g, native, hack, pad, steps, "")
}

// flavor selects which property's oracle op replaces the plain op: "c18", "c10", "c06", "c11".
func genTxnScriptF(g *Gen, native, hack, pad bool, steps int, flavor string) []string {
	t := &txnGen{g: g, r: g.R, native: native, hack: hack, dbis: map[string]uint{}}
	t.noEmpty = flavor == "c04" // empty application values are findings D7/D13 of other properties
	// the tomb sweeper is configured in some environments (always for C04, never for C10's
	// re-merge oracle): every transaction then works with a stale-deletion cut-off
	cut, sw := "0", ""
	if flavor == "c04" || (flavor != "c10" && g.R.Intn(4) == 0) {
		cut, sw = "1000000000000000000", " sw"
		if g.R.Intn(4) == 0 {
			cut, sw = "0", " swoff" // retention configured, sweeper off: no cut-off at all
		}
	}
	// receive-only instances (never for the flavors whose oracle is about uploads)
	ro := "0"
	if (flavor == "" || flavor == "c11" || flavor == "c18") && g.R.Intn(6) == 0 {
		ro = "1"
	}
	// configured creation flags for DBIs a snapshot may create (with the dupsort hack: the
	// duplicate-keys flag, as in the documented set-up)
	ovr := "-"
	if g.R.Intn(4) == 0 {
		fl := 0 // (an integer-key override over byte-string keys is LMDB-undefined territory)
		if hack {
			fl = 4
		}
		ovr = fmt.Sprintf("%s=%d", hx([]byte([]string{"t", "u", "n0", "n1"}[g.R.Intn(4)])), fl)
	}
	t.lines = append(t.lines, "clock.reset", fmt.Sprintf("env.new a %s %s %s %s %s%s", b2s(native), b2s(hack), b2s(pad), ro, ovr, sw))
	for s := 0; s < steps; s++ {
		switch t.r.Intn(7) {
		case 0, 1:
			if t.r.Intn(5) == 0 {
				t.lines = append(t.lines, "env.app a "+t.wipeOps())
			} else {
				t.lines = append(t.lines, "env.app a "+t.appOps(1+t.r.Intn(4)))
			}
		case 2, 3, 4:
			ls := []string{"T", "T", "T-1", "0", "T+1", "R", "R"}[t.r.Intn(7)]
			switch {
			case flavor == "c18" && !hack && t.r.Intn(3) == 0:
				t.lines = append(t.lines, fmt.Sprintf("prop.c18.cancel a %s %s %d %s %d", t.snapshot(), ls, t.now(), cut, t.r.Intn(7)))
			case flavor == "c18":
				t.lines = append(t.lines, fmt.Sprintf("prop.c18.load a %s %s %d %s", t.snapshot(), ls, t.now(), cut))
			case flavor == "c01" && native:
				t.lines = append(t.lines, fmt.Sprintf("prop.c01.load a %s %s %d %s", t.snapshot(), ls, t.now(), cut))
			case flavor == "c04":
				t.lines = append(t.lines, fmt.Sprintf("prop.c04.load a %s %s %d %s", t.snapshot(), ls, t.now(), cut))
			case flavor == "c11" && !native:
				// the loop's bookkeeping: lastSynced is the id after the previous LS transaction
				t.lines = append(t.lines, fmt.Sprintf("prop.c11.load a %s %s %d %s", t.snapshot(), []string{"0", "T-1", "R", "R"}[t.r.Intn(4)], t.now(), cut))
			case flavor == "c10":
				snap := t.snapshot() // before the op's own windows exist
				n1 := t.now()
				t.lines = append(t.lines, fmt.Sprintf("prop.c10.reload a %s %d %d", snap, n1, t.nowMaybe()))
			case !native && (flavor == "" || flavor == "c11h") && t.r.Intn(3) == 0:
				// the application commits while LoadOnce waits for the write lock
				snap := t.snapshot()
				t.lines = append(t.lines, fmt.Sprintf("txn.loadheld a %s %s %d %s %s", snap, ls, t.now(), cut, t.appOps(1+t.r.Intn(3))))
			default:
				t.lines = append(t.lines, fmt.Sprintf("txn.load a %s %s %d %s", t.snapshot(), ls, t.now(), cut))
			}
		case 5:
			if flavor == "c06" || flavor == "c10" {
				t.lines = append(t.lines, fmt.Sprintf("prop.c06.send a %d %s", t.now(), cut))
			} else if !native && t.r.Intn(3) == 0 {
				t.lines = append(t.lines, fmt.Sprintf("txn.sendheld a %d %s %s", t.now(), cut, t.appOps(1+t.r.Intn(3))))
			} else {
				t.lines = append(t.lines, fmt.Sprintf("txn.send a %d %s", t.now(), cut))
			}
		case 6:
			if !native {
				if t.r.Intn(2) == 0 {
					t.lines = append(t.lines, fmt.Sprintf("txn.m2s a %d %s", t.now(), cut))
				} else {
					t.lines = append(t.lines, "txn.s2m a")
				}
			}
		}
		t.lines = append(t.lines, "env.dump a")
	}
	return t.lines
}

func genTxnFlavor(flavor string) func(g *Gen, n int) {
	return func(g *Gen, n int) {
		count := n / 4
		if count < 40 {
			count = 40
		}
		for i := 0; i < count; i++ {
			native := g.R.Intn(2) == 0
			if flavor == "c11" {
				native = false
			}
			if flavor == "c01" {
				native = true
			}
			hack := !native && g.R.Intn(3) == 0
			if flavor == "c20" {
				native, hack = false, true // the mirror cycle on duplicate-keys DBIs
			}
			pad := g.R.Intn(4) == 0
			class := "shadow"
			if native {
				class = "native"
			}
			if hack {
				class = "shadow-hack"
			}
			g.Emit(flavor+"/"+class, genTxnScriptF(g, native, hack, pad, 4+g.R.Intn(10), flavor)...)
		}
	}
}

func genTxn(g *Gen, n int) {
	count := n / 4
	if count < 40 {
		count = 40
	}
	for i := 0; i < count; i++ {
		native := g.R.Intn(2) == 0
		hack := !native && g.R.Intn(3) == 0
		pad := g.R.Intn(4) == 0
		class := "shadow"
		if native {
			class = "native"
		}
		if hack {
			class = "shadow-hack"
		}
		g.Emit(class, genTxnScript(g, native, hack, pad, 4+g.R.Intn(10))...)
	}
}
