package main

import (
	"fmt"
	"math/rand"
	"sort"
	"strings"
	"time"

	"github.com/PowerDNS/lightningstream/snapshot"
)

// Generators for the cleaner stream (C12).
//
// Inside the property's quantifier (oracle fully on): snapshots of one instance appear in the
// bucket in timestamp order, carry distinct timestamps, and the clock handed to RunOnce never
// goes backwards. Outside it (newest-snapshot clause of the oracle off, everything else on,
// model ⇄ code still compared): snapshots arriving late / reappearing, clocks going backwards.
// Two snapshots of one instance never share a timestamp: slices.SortFunc is not stable, the
// outcome would depend on an order the code does not guarantee.

func snapName(db, inst string, nanos int64) string {
	return snapshot.Name(db, inst, "GX", time.Unix(0, nanos))
}

func otherKindFileName(db, inst string, nanos int64) string {
	return snapshot.NameInfo{Extension: otherKindExt, SyncerName: db, InstanceID: inst, GenerationID: "GX",
		Timestamp: time.Unix(0, nanos)}.BuildName()
}

func putLine(names ...string) string {
	toks := make([]string, len(names))
	for i, n := range names {
		toks[i] = nameToken(n)
	}
	return "cleaner.put " + joinOr(toks)
}

func rmLine(names ...string) string {
	h := make([]string, len(names))
	for i, n := range names {
		h[i] = hx([]byte(n))
	}
	return "cleaner.rm " + joinOr(h)
}

func runLine(now int64, listFails bool, delFail ...string) string {
	h := make([]string, len(delFail))
	for i, n := range delFail {
		h[i] = hx([]byte(n))
	}
	return fmt.Sprintf("cleaner.run %d %s %s", now, b2s(listFails), joinOr(h))
}

func commitLine(m map[string]int64) string {
	var ks []string
	for k := range m {
		ks = append(ks, k)
	}
	sort.Strings(ks)
	var out []string
	for _, k := range ks {
		out = append(out, fmt.Sprintf("%s=%d", hx([]byte(k)), m[k]))
	}
	return "cleaner.commit " + joinOr(out)
}

// ---- small scope, exhaustive ----

// perInstanceSeqs: all sequences of `steps` subsets of {older, newer} (bit 0 = older, bit 1 =
// newer) in which the older snapshot never (re)appears once the newer one has appeared.
func perInstanceSeqs(steps int, withNewer bool) [][]int {
	var out [][]int
	var rec func(seq []int, newerSeen bool)
	rec = func(seq []int, newerSeen bool) {
		if len(seq) == steps {
			out = append(out, append([]int{}, seq...))
			return
		}
		prev := 0
		if len(seq) > 0 {
			prev = seq[len(seq)-1]
		}
		for s := 0; s < 4; s++ {
			if !withNewer && s&2 != 0 {
				continue
			}
			olderAppears := s&1 != 0 && prev&1 == 0
			if olderAppears && newerSeen {
				continue
			}
			rec(append(seq, s), newerSeen || s&2 != 0)
		}
	}
	rec(nil, false)
	return out
}

func nonDecreasing(c []int64) bool {
	for i := 1; i < len(c); i++ {
		if c[i] < c[i-1] {
			return false
		}
	}
	return true
}

func genCleanerSmall(g *Gen) {
	registerOtherKind()
	const t1, t2 = 10, 11
	a := [2]string{snapName(cleanerDB, "a", t1), snapName(cleanerDB, "a", t2)}
	b := [2]string{snapName(cleanerDB, "b", t1), snapName(cleanerDB, "b", t2)}
	nows := []int64{12, 13, 14}
	type cm struct {
		label string
		m     map[string]int64
	}
	commits := []cm{{"none", nil}, {"a=10", map[string]int64{"a": 10, "b": 11}}, {"a=11", map[string]int64{"a": 11, "b": 9}}}
	emit := func(class string, steps int, sa, sb []int, clock []int64, mk, ro int64, c cm, commitAt int, listFailAt int, delFail string) {
		lines := []string{fmt.Sprintf("cleaner.new %d %d 1", mk, ro)}
		if !nonDecreasing(clock) {
			lines = append(lines, "cleaner.oracle 0")
		}
		pa, pb := 0, 0
		for k := 0; k < steps; k++ {
			var put, rm []string
			for bit := 0; bit < 2; bit++ {
				for _, x := range []struct {
					cur, prev int
					n         string
				}{{sa[k], pa, a[bit]}, {sb[k], pb, b[bit]}} {
					if x.cur&(1<<bit) != 0 && x.prev&(1<<bit) == 0 {
						put = append(put, x.n)
					}
					if x.cur&(1<<bit) == 0 && x.prev&(1<<bit) != 0 {
						rm = append(rm, x.n)
					}
				}
			}
			pa, pb = sa[k], sb[k]
			if len(rm) > 0 {
				lines = append(lines, rmLine(rm...))
			}
			if len(put) > 0 {
				lines = append(lines, putLine(put...))
			}
			if c.m != nil && commitAt == k {
				lines = append(lines, commitLine(c.m))
			}
			var df []string
			if delFail != "" {
				df = []string{delFail}
			}
			lines = append(lines, runLine(clock[k], listFailAt == k, df...))
			// (what the Worker deletes stays deleted: later rm lines for it are no-ops)
		}
		g.Emit(class, lines...)
	}
	var clocks [][]int64
	for steps := 1; steps <= 3; steps++ {
		var rec func(c []int64)
		rec = func(c []int64) {
			if len(c) == steps {
				clocks = append(clocks, append([]int64{}, c...))
				return
			}
			for _, n := range nows {
				rec(append(c, n))
			}
		}
		rec(nil)
	}
	for _, clock := range clocks {
		steps := len(clock)
		seqA := perInstanceSeqs(steps, true)
		seqB := perInstanceSeqs(steps, g.Thorough())
		for _, sa := range seqA {
			for _, sb := range seqB {
				if !g.Thorough() {
					// quick: instance b is either absent or holds its one snapshot throughout
					same := true
					for _, s := range sb {
						if s != sb[0] {
							same = false
						}
					}
					if !same {
						continue
					}
				}
				for _, mk := range []int64{0, 1} {
					for _, c := range commits {
						commitAts := []int{steps - 1}
						if g.Thorough() && c.m != nil && steps > 1 {
							commitAts = []int{0, steps - 1}
						}
						for _, at := range commitAts {
							emit(fmt.Sprintf("small/len%d", steps), steps, sa, sb, clock, mk, 2, c, at, -1, "")
						}
					}
				}
			}
		}
	}
	// faults on the fixed clock 12,13,14: every List-failure position, every single failing Delete
	clock := []int64{12, 13, 14}
	for _, sa := range perInstanceSeqs(3, true) {
		for _, sb := range [][]int{{0, 0, 0}, {1, 1, 1}, {1, 3, 3}} {
			for _, mk := range []int64{0, 1} {
				for lf := 0; lf < 3; lf++ {
					emit("small/list-fails", 3, sa, sb, clock, mk, 2, commits[2], 2, lf, "")
				}
				for _, df := range []string{a[0], a[1], b[0]} {
					emit("small/delete-fails", 3, sa, sb, clock, mk, 2, commits[2], 2, -1, df)
				}
			}
		}
	}
	// disabled cleaner: nothing is listed or deleted, whatever the history
	for _, sa := range perInstanceSeqs(2, true) {
		lines := []string{"cleaner.new 0 0 0"}
		p := 0
		for k := 0; k < 2; k++ {
			for bit := 0; bit < 2; bit++ {
				if sa[k]&(1<<bit) != 0 && p&(1<<bit) == 0 {
					lines = append(lines, putLine(a[bit]))
				}
			}
			p = sa[k]
			lines = append(lines, commitLine(map[string]int64{"a": 11}), runLine(100+int64(k)*100, false))
		}
		g.Emit("small/disabled", lines...)
	}
}

// ---- random multi-run histories ----

type cleanerWorld struct {
	r       *rand.Rand
	present map[string]bool
	gone    []string         // names that were present once
	maxTs   map[string]int64 // per instance: highest timestamp ever created
	usedTs  map[string]map[int64]bool
	insts   []string
	snaps   map[string][]int64 // per instance: timestamps created
	unit    int64
}

var junkNames = []string{
	"README", "zzz.pb.gz", "db__nodot", "db__a__b.pb.gz", "db__a__2020bad__GX.pb.gz",
	"db__x.unknownext", "db__a__20200101-000000-000000000__GX.pb.gz.tmp",
	"db__a__20201301-000000-000000000__GX.pb.gz", "db__a__20200101-000000.000000000__GX.pb.gz",
	"db__.pb.gz", "db__", "db__a__20200101-000000-000000000.pb.gz", "db_a__20200101-000000-000000000__GX.pb.gz",
}

func (w *cleanerWorld) junk() string {
	r := w.r
	ts := w.unit * int64(1+r.Intn(50))
	switch r.Intn(9) {
	case 0: // another database, not sharing the prefix
		return snapName("other", w.insts[r.Intn(len(w.insts))], ts)
	case 1: // another database whose name extends ours without the separator
		return snapName("db2", w.insts[r.Intn(len(w.insts))], ts)
	case 2: // another database whose name shares the prefix including the separator
		return snapName("db__x", w.insts[r.Intn(len(w.insts))], ts)
	case 3: // a non-snapshot kind of our database
		return otherKindFileName(cleanerDB, w.insts[r.Intn(len(w.insts))], ts)
	case 4: // a non-snapshot kind of another database
		return otherKindFileName("other", "a", ts)
	case 5: // snapshot with extra name items (parses, kind snapshot) is not junk: handled by newSnap
		return "db__" + string(randBytes(r, 1+r.Intn(6)))
	default:
		return junkNames[r.Intn(len(junkNames))]
	}
}

// newSnap creates a snapshot of inst newer than everything that instance ever had
// (inOrder) or anywhere (¬inOrder), never reusing a timestamp of that instance.
func (w *cleanerWorld) newSnap(inst string, now int64, inOrder bool) string {
	r := w.r
	var ts int64
	for tries := 0; ; tries++ {
		switch {
		case !inOrder && r.Intn(2) == 0:
			ts = w.unit * int64(r.Intn(60))
		case r.Intn(3) == 0: // stamped near the cleaner's clock
			ts = now + w.unit*int64(r.Intn(5)-3)
		default:
			ts = w.maxTs[inst] + w.unit*int64(1+r.Intn(3))
		}
		if ts < 0 {
			ts = 0
		}
		if inOrder && len(w.snaps[inst]) > 0 && ts <= w.maxTs[inst] {
			ts = w.maxTs[inst] + 1 + int64(r.Intn(3))
		}
		if !w.usedTs[inst][ts] {
			break
		}
		if tries > 20 {
			ts = w.maxTs[inst] + 1 // never used: above the maximum
			break
		}
	}
	if w.usedTs[inst] == nil {
		w.usedTs[inst] = map[int64]bool{}
	}
	w.usedTs[inst][ts] = true
	if ts > w.maxTs[inst] || len(w.snaps[inst]) == 0 {
		w.maxTs[inst] = ts
	}
	w.snaps[inst] = append(w.snaps[inst], ts)
	if r.Intn(12) == 0 {
		return snapshot.NameInfo{Extension: snapshot.DefaultExtension, SyncerName: cleanerDB, InstanceID: inst,
			GenerationID: "GX", Timestamp: time.Unix(0, ts), Extra: snapshot.NameExtra{"Xy1"}}.BuildName()
	}
	return snapName(cleanerDB, inst, ts)
}

func pickInterval(r *rand.Rand, unit int64) int64 {
	switch r.Intn(10) {
	case 0:
		return 0
	case 1:
		return 1
	case 2:
		return -1
	case 3:
		return 1 << 62
	case 4:
		return 1<<63 - 1
	default:
		return unit * int64(1+r.Intn(8))
	}
}

// genCleanerHistory emits one random history. mode: "in" (inside the quantifier), "late"
// (snapshots arriving out of order / reappearing), "back" (clock may go backwards).
func genCleanerHistory(g *Gen, mode string) {
	r := g.R
	registerOtherKind()
	unit := []int64{1, 1, 1000, int64(time.Second), int64(time.Hour)}[r.Intn(5)]
	w := &cleanerWorld{r: r, present: map[string]bool{}, maxTs: map[string]int64{}, usedTs: map[string]map[int64]bool{},
		snaps: map[string][]int64{}, unit: unit}
	allInsts := []string{"a", "b", "c", "inst-1", "", "A"}
	w.insts = allInsts[:1+r.Intn(3)]
	mk := pickInterval(r, unit)
	ro := pickInterval(r, unit*4)
	enabled := r.Intn(25) != 0
	lines := []string{fmt.Sprintf("cleaner.new %d %d %s", mk, ro, b2s(enabled))}
	wired := ""
	if r.Intn(8) == 0 { // the Worker as syncer.New wires it, sometimes in receive-only mode
		rcv := r.Intn(2) == 0
		lines[0] = fmt.Sprintf("cleaner.newsyncer %d %d %s %s", mk, ro, b2s(enabled), b2s(rcv))
		wired = "/syncer"
		if rcv {
			wired = "/receive-only"
		}
	}
	inOrder := mode != "late"
	if mode != "in" {
		lines = append(lines, "cleaner.oracle 0")
	}
	now := unit * int64(20+r.Intn(40))
	runs := 5 + r.Intn(26)
	if g.Thorough() && r.Intn(10) == 0 {
		runs = 30 + r.Intn(90)
	}
	for k := 0; k < runs; k++ {
		// the bucket changes
		var put, rm []string
		nNew := []int{0, 0, 1, 1, 1, 2, 3}[r.Intn(7)]
		if k == 0 {
			nNew = 1 + r.Intn(5)
		}
		for i := 0; i < nNew; i++ {
			if len(w.insts) < len(allInsts) && r.Intn(8) == 0 {
				w.insts = append(w.insts, allInsts[len(w.insts)])
			}
			inst := w.insts[r.Intn(len(w.insts))]
			n := w.newSnap(inst, now, inOrder)
			if !w.present[n] {
				w.present[n] = true
				put = append(put, n)
			}
		}
		if r.Intn(4) == 0 {
			n := w.junk()
			if !w.present[n] {
				w.present[n] = true
				put = append(put, n)
			}
		}
		if r.Intn(5) == 0 && len(w.present) > 0 { // someone else deletes a file
			var ns []string
			for n := range w.present {
				ns = append(ns, n)
			}
			sort.Strings(ns)
			n := ns[r.Intn(len(ns))]
			delete(w.present, n)
			w.gone = append(w.gone, n)
			rm = append(rm, n)
		}
		if !inOrder && r.Intn(4) == 0 && len(w.gone) > 0 { // a file reappears
			n := w.gone[r.Intn(len(w.gone))]
			if !w.present[n] {
				w.present[n] = true
				put = append(put, n)
			}
		}
		if len(rm) > 0 {
			lines = append(lines, rmLine(rm...))
		}
		if len(put) > 0 {
			lines = append(lines, putLine(put...))
		}
		// merge-commit notifications
		if r.Intn(3) == 0 {
			m := map[string]int64{}
			for i := 0; i < 1+r.Intn(2); i++ {
				inst := allInsts[r.Intn(len(allInsts))]
				var t int64
				if ts := w.snaps[inst]; len(ts) > 0 && r.Intn(5) > 0 {
					t = ts[r.Intn(len(ts))] + int64(r.Intn(3)) - 1
				} else {
					t = unit * int64(r.Intn(80))
				}
				if t < 0 {
					t = 0
				}
				m[inst] = t
			}
			lines = append(lines, commitLine(m))
		}
		// faults
		listFails := r.Intn(12) == 0
		var df []string
		if r.Intn(5) == 0 {
			var ns []string
			for n := range w.present {
				ns = append(ns, n)
			}
			sort.Strings(ns)
			for i := 0; i < 1+r.Intn(3) && len(ns) > 0; i++ {
				df = append(df, ns[r.Intn(len(ns))])
			}
			if r.Intn(4) == 0 {
				df = ns // every Delete fails
			}
		}
		lines = append(lines, runLine(now, listFails, df...))
		// the clock
		var d int64
		switch r.Intn(9) {
		case 0:
			d = 0
		case 1:
			d = 1
		case 2:
			d = mk
		case 3:
			d = mk + 1
		case 4:
			d = mk - 1
		case 5:
			d = ro + 1
		case 6:
			d = unit * int64(r.Intn(30))
		default:
			d = unit * int64(r.Intn(4))
		}
		if d < 0 || d > 1<<50 {
			d = unit
		}
		if mode == "back" && r.Intn(3) == 0 {
			d = -unit * int64(r.Intn(6))
		}
		now += d
		if now < 0 {
			now = 0
		}
	}
	class := "hist/" + mode + wired
	if !enabled {
		class += "/disabled"
	}
	g.Emit(class, lines...)
}

func genCleaner(g *Gen, n int) {
	genCleanerSmall(g)
	for i := 0; i < n; i++ {
		genCleanerHistory(g, "in")
		if i%2 == 0 {
			genCleanerHistory(g, "late")
		}
		if i%2 == 1 {
			genCleanerHistory(g, "back")
		}
	}
	// a long-lived bucket: many instances, many snapshots per run
	big := 2
	if g.Thorough() {
		big = 40
	}
	for i := 0; i < big; i++ {
		genCleanerBig(g)
	}
}

func genCleanerBig(g *Gen) {
	r := g.R
	unit := int64(time.Minute)
	mk := 10 * unit
	ro := 7 * 24 * 60 * unit
	lines := []string{fmt.Sprintf("cleaner.new %d %d 1", mk, ro)}
	nInst := 5 + r.Intn(20)
	last := make([]int64, nInst)
	now := int64(1700000000) * int64(time.Second)
	for k := 0; k < 30; k++ {
		var put []string
		for i := 0; i < nInst; i++ {
			if i%7 == 3 && k > 3 {
				continue // an instance that went silent
			}
			for j := r.Intn(4); j > 0; j-- {
				ts := now - int64(r.Intn(int(unit)))
				if ts <= last[i] {
					ts = last[i] + 1
				}
				last[i] = ts
				put = append(put, snapName(cleanerDB, fmt.Sprintf("i%02d", i), ts))
			}
		}
		if len(put) > 0 {
			lines = append(lines, putLine(put...))
		}
		if k%5 == 4 {
			m := map[string]int64{}
			for i := 0; i < nInst; i++ {
				if r.Intn(2) == 0 {
					m[fmt.Sprintf("i%02d", i)] = last[i] - int64(r.Intn(2))
				}
			}
			lines = append(lines, commitLine(m))
		}
		lines = append(lines, runLine(now, false))
		switch r.Intn(6) {
		case 0:
			now += ro + unit
		case 1:
			now += mk
		default:
			now += unit * int64(1+r.Intn(15))
		}
	}
	g.Emit("hist/big", lines...)
}

// genCleanerCommit (C05): the record "merged AND contained in an own uploaded snapshot" that
// guards the removal of a stale instance's last snapshot changes only through SetCommitted:
// sequences of SetCommitted calls on the real worker, each followed by the caller going on to
// update its own map (the oracle inside cleaner.commit).
func genCleanerCommit(g *Gen, n int) {
	count := 6
	if g.Thorough() {
		count = 60
	}
	for s := 0; s < count; s++ {
		lines := []string{"cleaner.new 10 100 1"}
		for k := 0; k < 1+g.R.Intn(4); k++ {
			var kv []string
			for _, inst := range []string{"61", "62", "63"}[:1+g.R.Intn(3)] {
				kv = append(kv, fmt.Sprintf("%s=%d", inst, 1+g.R.Intn(90)))
			}
			lines = append(lines, "cleaner.commit "+strings.Join(kv, ","))
		}
		g.Emit("commit-provenance", lines...)
	}
}

// genCleanerForeign: the bucket also holds snapshots of databases whose names merely start with
// this database's name ("db-eu", "dbx"); they are never the cleaner's business (C15: a name of
// another database never has the prefix "<database>__").
func genCleanerForeign(g *Gen, n int) {
	count := 4
	if g.Thorough() {
		count = 40
	}
	for s := 0; s < count; s++ {
		lines := []string{"cleaner.new 10 100 1"}
		other := []string{cleanerDB + "-eu", cleanerDB + "x", cleanerDB + "_"}[g.R.Intn(3)]
		ts := int64(5)
		now := int64(30)
		for k := 0; k < 4+g.R.Intn(4); k++ {
			var names []string
			for j := 0; j < 1+g.R.Intn(3); j++ {
				ts += int64(1 + g.R.Intn(6))
				db := cleanerDB
				if g.R.Intn(2) == 0 {
					db = other
				}
				names = append(names, snapName(db, []string{"a", "b"}[g.R.Intn(2)], ts))
			}
			lines = append(lines, putLine(names...))
			now += int64(5 + g.R.Intn(60))
			lines = append(lines, fmt.Sprintf("cleaner.run %d 0 -", now))
			if g.R.Intn(3) == 0 {
				lines = append(lines, fmt.Sprintf("cleaner.commit %s=%d,%s=%d", hx([]byte("a")), ts, hx([]byte("b")), ts))
			}
		}
		now += 500
		lines = append(lines, fmt.Sprintf("cleaner.run %d 0 -", now), fmt.Sprintf("cleaner.run %d 0 -", now+200))
		g.Emit("foreign-database", lines...)
	}
}
