package main

import (
	"bufio"
	"bytes"
	"encoding/hex"
	"encoding/json"
	"fmt"
	"hash/fnv"
	"math/rand"
	"os"
	"os/exec"
	"runtime/debug"
	"sort"
	"strings"
	"time"
)

// A Script is the unit of comparison: one or more protocol lines that are run, in order,
// on the implementation (in-process) and on the model (lsdriver). Function-level scripts
// have one line; stateful ones start with an op that resets the state they use.
type Script struct {
	Stream string
	Class  string   // generator's label for the input class (for the distribution report)
	Lines  []string // protocol lines
	// ModelLines, when set by runImpl, are the lines given to the model: identical to Lines
	// except where the implementation resolved a nondeterministic choice that the model takes
	// as an input (trace validation: e.g. which snapshot the receiver handed over).
	ModelLines []string
}

// Stream is a named generator of scripts.
type Stream struct {
	Name string
	// Gen emits scripts; n is the budget hint (number of random scripts), the small-scope
	// exhaustive part is always emitted completely.
	Gen func(g *Gen, n int)
}

type Gen struct {
	R       *rand.Rand
	Stream  string
	Tier    string
	scripts []Script
}

func (g *Gen) Emit(class string, lines ...string) {
	g.scripts = append(g.scripts, Script{Stream: g.Stream, Class: class, Lines: lines})
}

func (g *Gen) Thorough() bool { return g.Tier == "thorough" }

// hx encodes bytes for the protocol ("-" is the empty string).
func hx(b []byte) string {
	if len(b) == 0 {
		return "-"
	}
	return hex.EncodeToString(b)
}

func unhx(s string) ([]byte, error) {
	if s == "-" {
		return nil, nil
	}
	return hex.DecodeString(s)
}

func mustUnhx(s string) []byte {
	b, err := unhx(s)
	if err != nil {
		panic("bad hex in protocol line: " + s)
	}
	return b
}

func optHx(b []byte) string {
	if b == nil {
		return "nil"
	}
	return hx(b)
}

func b2s(b bool) string {
	if b {
		return "1"
	}
	return "0"
}

func subSeed(seed int64, name string) int64 {
	h := fnv.New64a()
	fmt.Fprintf(h, "%d/%s", seed, name)
	return int64(h.Sum64() & 0x7fffffffffffffff)
}

// ---- implementation side: an interpreter of the same protocol ----

type implFunc func(args []string) string

var implOps = map[string]implFunc{}

// implState is reset by ops that declare so; see the stateful op files.
func implStep(line string) (out string) {
	f := strings.Fields(line)
	if len(f) == 0 {
		return "bad-op"
	}
	h, ok := implOps[f[0]]
	if !ok {
		return "bad-op"
	}
	// a fault inside Go code (e.g. reading through a pointer into an LMDB page) becomes a panic
	// instead of killing the harness
	defer debug.SetPanicOnFault(debug.SetPanicOnFault(true))
	defer func() {
		if r := recover(); r != nil {
			out = "err panic"
			lastPanic = fmt.Sprint(r)
			if os.Getenv("LSH_TRACE") != "" {
				fmt.Fprintf(os.Stderr, "PANIC %v\n%s\n", r, debug.Stack())
			}
			if faultHook != nil {
				if o := faultHook(f, lastPanic); o != "" {
					out = o
				}
			}
		}
	}()
	if os.Getenv("VERIF_SLOW") != "" {
		t0 := time.Now()
		defer func() {
			if d := time.Since(t0); d > 300*time.Millisecond {
				fmt.Fprintf(os.Stderr, "SLOW %s %s -> %s\n", d.Round(time.Millisecond), clipS(line)[:min(len(line), 60)], clipS(out)[:min(len(out), 40)])
			}
		}()
	}
	return h(f[1:])
}

var lastPanic string

// rewrittenLine is set by an implementation op that resolved a nondeterministic choice.
var rewrittenLine string

// faultHook lets an op family classify a recovered panic (see ops_txn.go, finding D13).
var faultHook func(fields []string, panicText string) string

// implStepWatch runs implStep with a watchdog; a hang is reported as "err hang" (the
// goroutine is abandoned).
func implStepWatch(line string, d time.Duration) string {
	ch := make(chan string, 1)
	go func() { ch <- implStep(line) }()
	select {
	case s := <-ch:
		return s
	case <-time.After(d):
		return "err hang"
	}
}

func watched(op string) bool {
	return strings.HasPrefix(op, "wire.") || strings.HasPrefix(op, "pb.")
}

func runImpl(s *Script) []string {
	out := make([]string, len(s.Lines))
	s.ModelLines = make([]string, len(s.Lines))
	for i, l := range s.Lines {
		rewrittenLine = ""
		if os.Getenv("LSH_TRACE") != "" {
			fmt.Fprintln(os.Stderr, "TRACE", l)
		}
		if watched(l) {
			out[i] = implStepWatch(l, 3*time.Second)
		} else {
			out[i] = implStep(l)
		}
		if rewrittenLine != "" {
			s.ModelLines[i] = rewrittenLine
		} else {
			s.ModelLines[i] = l
		}
	}
	return out
}

// ---- model side ----

var driverPath string

// runModel pipes all lines of all scripts through one lsdriver process.
func runModel(scripts []Script) ([][]string, error) {
	var in bytes.Buffer
	total := 0
	for _, s := range scripts {
		ls := s.Lines
		if len(s.ModelLines) == len(s.Lines) {
			ls = s.ModelLines
		}
		for _, l := range ls {
			in.WriteString(l)
			in.WriteByte('\n')
			total++
		}
	}
	cmd := exec.Command(driverPath)
	cmd.Stdin = &in
	var stderr bytes.Buffer
	cmd.Stderr = &stderr
	stdout, err := cmd.StdoutPipe()
	if err != nil {
		return nil, err
	}
	if err := cmd.Start(); err != nil {
		return nil, err
	}
	sc := bufio.NewScanner(stdout)
	sc.Buffer(make([]byte, 1<<20), 1<<28)
	var lines []string
	for sc.Scan() {
		lines = append(lines, sc.Text())
	}
	werr := cmd.Wait()
	if len(lines) != total {
		return nil, fmt.Errorf("driver produced %d lines for %d ops (wait: %v, stderr: %s)", len(lines), total, werr, stderr.String())
	}
	res := make([][]string, len(scripts))
	k := 0
	for i, s := range scripts {
		res[i] = lines[k : k+len(s.Lines)]
		k += len(s.Lines)
	}
	return res, nil
}

// ---- comparison, shrinking, reporting ----

type Finding struct {
	Kind   string   `json:"kind"` // "disagreement" | "violation" | "model-violation"
	Stream string   `json:"stream"`
	Class  string   `json:"class"`
	Lines  []string `json:"lines"`
	Impl   []string `json:"impl"`
	Model  []string `json:"model"`
	Detail string   `json:"detail,omitempty"`
	// FirstDiff: where the first run of the (unshrunk) script differed
	FirstDiff string `json:"first_diff,omitempty"`
	// Repro: how many of the two immediate re-runs of the unshrunk script failed the same way
	Repro int `json:"repro"`
}

type StreamStat struct {
	Name     string         `json:"name"`
	Scripts  int            `json:"scripts"`
	Lines    int            `json:"lines"`
	Distinct int            `json:"distinct"`
	Classes  map[string]int `json:"classes"`
	Outcomes map[string]int `json:"outcomes"`
}

type Result struct {
	Property     string       `json:"property"`
	Tier         string       `json:"tier"`
	Seed         int64        `json:"seed"`
	Streams      []StreamStat `json:"streams"`
	Evaluations  int          `json:"evaluations"`
	Distinct     int          `json:"distinct_nontrivial"`
	Samples      []any        `json:"samples"`
	Findings     []Finding    `json:"findings"`
	WallS        float64      `json:"wall_s"`
	HarnessError string       `json:"harness_error,omitempty"`
	// Unstable: failing scripts that did not fail again in two immediate re-runs (timing)
	Unstable        int      `json:"unstable"`
	UnstableSamples []string `json:"unstable_samples,omitempty"`
}

func isViolationLine(s string) bool { return strings.HasPrefix(s, "FAIL") }

func equalLines(a, b []string) bool {
	if len(a) != len(b) {
		return false
	}
	for i := range a {
		if a[i] != b[i] {
			return false
		}
	}
	return true
}

// outcomeClass reduces an output line to a small label for the distribution report.
func outcomeClass(s string) string {
	f := strings.Fields(s)
	if len(f) == 0 {
		return "empty"
	}
	if f[0] == "err" && len(f) > 1 {
		return "err:" + f[1]
	}
	if f[0] == "ok" && len(f) > 1 && strings.HasPrefix(f[1], "deleted=") {
		if f[1] == "deleted=-" {
			return "cleaner:nothing-deleted"
		}
		return "cleaner:deleted"
	}
	if f[0] == "ok" && len(f) > 1 && (f[1] == "nil" || f[1] == "-") {
		return "ok:" + f[1]
	}
	return f[0]
}

func evaluate(scripts []Script) (impl, model [][]string, err error) {
	impl = make([][]string, len(scripts))
	for i := range scripts {
		impl[i] = runImpl(&scripts[i])
	}
	model, err = runModel(scripts)
	return
}

// classify returns "" when the script agrees and no oracle fails.
func classify(impl, model []string) string {
	for _, l := range impl {
		if isViolationLine(l) {
			return "violation"
		}
	}
	if !equalLines(impl, model) {
		// the code panicked on input the model handles: the input is the failing input
		for i, l := range impl {
			if l == "err panic" && i < len(model) && model[i] != "err panic" {
				return "violation"
			}
		}
		return "disagreement"
	}
	for _, l := range model {
		if isViolationLine(l) {
			return "model-violation"
		}
	}
	return ""
}

// shrink reduces a failing script while it keeps failing with the same kind:
// drops lines (except the first of a stateful script), then shortens hex tokens.
func shrink(s Script, kind string) Script {
	fails := func(c Script) bool {
		if len(c.Lines) == 0 {
			return false
		}
		impl := runImpl(&c)
		model, err := runModel([]Script{c})
		if err != nil {
			return false
		}
		for i := range impl {
			// a candidate that broke the script's own set-up is not a smaller failing case
			if impl[i] == "bad-op" || model[0][i] == "bad-op" || strings.Contains(impl[i], "mismatch") || (impl[i] == "err panic" && strings.Contains(lastPanic, "nil pointer")) {
				return false
			}
		}
		return classify(impl, model[0]) == kind
	}
	cur := s
	budget := 400
	if len(s.Lines) > 20 {
		budget = 120
	}
	// drop lines
	for changed := true; changed && budget > 0; {
		changed = false
		for i := len(cur.Lines) - 1; i >= 1 && budget > 0; i-- {
			c := cur
			c.Lines = append(append([]string{}, cur.Lines[:i]...), cur.Lines[i+1:]...)
			budget--
			if fails(c) {
				cur = c
				changed = true
			}
		}
	}
	// shorten hex tokens of single-line scripts
	if len(cur.Lines) == 1 {
		for changed := true; changed && budget > 0; {
			changed = false
			toks := strings.Fields(cur.Lines[0])
			for ti := 1; ti < len(toks) && budget > 0; ti++ {
				t := toks[ti]
				if len(t) < 4 || len(t)%2 != 0 {
					continue
				}
				if _, err := hex.DecodeString(t); err != nil {
					continue
				}
				for _, cand := range []string{t[:len(t)/2/2*2], t[2:], t[:len(t)-2]} {
					if cand == "" {
						cand = "-"
					}
					nt := append([]string{}, toks...)
					nt[ti] = cand
					c := cur
					c.Lines = []string{strings.Join(nt, " ")}
					budget--
					if fails(c) {
						cur = c
						toks = nt
						changed = true
						break
					}
				}
			}
		}
	}
	return cur
}

func runStreams(prop, tier string, seed int64, streams []Stream, budget int, corpusDir string) Result {
	t0 := time.Now()
	res := Result{Property: prop, Tier: tier, Seed: seed}
	var all []Script
	// corpus first
	if corpusDir != "" {
		all = append(all, loadCorpus(corpusDir)...)
	}
	for _, st := range streams {
		g := &Gen{R: rand.New(rand.NewSource(subSeed(seed, st.Name))), Stream: st.Name, Tier: tier}
		st.Gen(g, budget)
		all = append(all, g.scripts...)
	}
	impl, model, err := evaluate(all)
	if err != nil {
		res.HarnessError = err.Error()
		res.WallS = time.Since(t0).Seconds()
		return res
	}
	stats := map[string]*StreamStat{}
	seen := map[string]map[string]bool{}
	var order []string
	sampled := map[string]int{}
	verdicts := map[string]int{}
	for i, s := range all {
		st, ok := stats[s.Stream]
		if !ok {
			st = &StreamStat{Name: s.Stream, Classes: map[string]int{}, Outcomes: map[string]int{}}
			stats[s.Stream] = st
			seen[s.Stream] = map[string]bool{}
			order = append(order, s.Stream)
		}
		st.Scripts++
		st.Lines += len(s.Lines)
		st.Classes[s.Class]++
		key := strings.Join(s.Lines, "\n")
		if !seen[s.Stream][key] {
			seen[s.Stream][key] = true
			// non-trivial: the implementation accepted the op and produced a result
			nt := false
			for _, o := range impl[i] {
				if o != "bad-op" {
					nt = true
				}
			}
			if nt {
				st.Distinct++
			}
		}
		for _, o := range impl[i] {
			st.Outcomes[outcomeClass(o)]++
		}
		if sampled[s.Stream] < 2 {
			sampled[s.Stream]++
			n := len(s.Lines)
			if n > 12 {
				n = 12 // the first lines of a long script
			}
			res.Samples = append(res.Samples, map[string]any{"stream": s.Stream, "class": s.Class, "script_lines": len(s.Lines), "lines": clip(s.Lines[:n]), "impl": clip(impl[i][:n]), "model": clip(model[i][:n])})
		}
		if kind := classify(impl[i], model[i]); kind != "" {
			// scripts that drive real goroutines can depend on timing: a failure that does not
			// show again in two immediate re-runs is recorded as "unstable" (reported in the
			// evidence, not a verdict on the code)
			fd := firstDiff(s.Lines, impl[i], model[i])
			repro := 0
			for k := 0; k < 2; k++ {
				c := s
				ri := runImpl(&c)
				rm, err := runModel([]Script{c})
				if err == nil && classify(ri, rm[0]) == kind {
					repro++
				}
			}
			if repro == 0 {
				res.Unstable++
				if len(res.UnstableSamples) < 5 {
					res.UnstableSamples = append(res.UnstableSamples, s.Stream+"/"+s.Class+": "+fd)
				}
				continue
			}
			// per kind and verdict, so that thousands of disagreements (or many instances of
			// one known finding) cannot crowd out a different oracle verdict
			vk := kind + "|" + s.Stream + "|" + verdictKey(impl[i])
			verdicts[vk]++
			if verdicts[vk] <= 8 && len(res.Findings) < 200 {
				sh := s
				if verdicts[vk] <= 3 && os.Getenv("VERIF_NOSHRINK") == "" {
					sh = shrink(s, kind)
				}
				si := runImpl(&sh)
				sm, _ := runModel([]Script{sh})
				if len(sm) != 1 || classify(si, sm[0]) != kind {
					// timing-dependent: this run of the (shrunk) script does not show the failure;
					// record the original script with the outputs that did
					sh = s
					si = impl[i]
					sm = [][]string{model[i]}
				}
				f := Finding{Kind: kind, Stream: s.Stream, Class: s.Class, Lines: sh.Lines, Impl: si, FirstDiff: fd, Repro: repro}
				if len(sm) == 1 {
					f.Model = sm[0]
				}
				if lastPanic != "" {
					f.Detail = "panic: " + lastPanic
				}
				res.Findings = append(res.Findings, f)
			}
		}
	}
	sort.Strings(order)
	for _, n := range order {
		res.Streams = append(res.Streams, *stats[n])
		res.Evaluations += stats[n].Lines
		res.Distinct += stats[n].Distinct
	}
	res.WallS = time.Since(t0).Seconds()
	return res
}

// verdictKey: the first two words of the first oracle verdict of a script ("" if none)
func verdictKey(impl []string) string {
	for _, l := range impl {
		if isViolationLine(l) {
			f := strings.Fields(l)
			if len(f) > 2 {
				f = f[:2]
			}
			return strings.Join(f, " ")
		}
	}
	return ""
}

func firstDiff(lines, impl, model []string) string {
	for i := range impl {
		if isViolationLine(impl[i]) {
			return fmt.Sprintf("line %d %q: %s", i, clipS(lines[i]), clipS(impl[i]))
		}
		if i >= len(model) || impl[i] != model[i] {
			m := "<none>"
			if i < len(model) {
				m = model[i]
			}
			return fmt.Sprintf("line %d %q: impl %q model %q", i, clipS(lines[i]), clipS(impl[i]), clipS(m))
		}
	}
	return ""
}

func clipS(s string) string {
	if len(s) > 240 {
		return s[:240] + "…"
	}
	return s
}

func countKind(fs []Finding, k string) int {
	n := 0
	for _, f := range fs {
		if f.Kind == k {
			n++
		}
	}
	return n
}

func clip(ls []string) []string {
	out := make([]string, len(ls))
	for i, l := range ls {
		if len(l) > 300 {
			l = l[:300] + "…"
		}
		out[i] = l
	}
	return out
}

func loadCorpus(dir string) []Script {
	ents, err := os.ReadDir(dir)
	if err != nil {
		return nil
	}
	var out []Script
	for _, e := range ents {
		if e.IsDir() || !strings.HasSuffix(e.Name(), ".ops") {
			continue
		}
		b, err := os.ReadFile(dir + "/" + e.Name())
		if err != nil {
			continue
		}
		var lines []string
		for _, l := range strings.Split(string(b), "\n") {
			l = strings.TrimSpace(l)
			if l == "" || strings.HasPrefix(l, "#") {
				continue
			}
			lines = append(lines, l)
		}
		if len(lines) > 0 {
			out = append(out, Script{Stream: "corpus", Class: e.Name(), Lines: lines})
		}
	}
	return out
}

func writeJSON(path string, v any) {
	b, _ := json.MarshalIndent(v, "", " ")
	if path == "" || path == "-" {
		os.Stdout.Write(b)
		os.Stdout.WriteString("\n")
		return
	}
	_ = os.WriteFile(path, b, 0o644)
}
