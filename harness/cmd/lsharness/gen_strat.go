package main

import (
	"bytes"
	"encoding/binary"
	"fmt"
	"math/rand"
	"sort"
	"strings"
)

func le32(v uint32) []byte { b := make([]byte, 4); binary.LittleEndian.PutUint32(b, v); return b }
func le64b(v uint64) []byte {
	b := make([]byte, 8)
	binary.LittleEndian.PutUint64(b, v)
	return b
}

func intKeyVal(b []byte) uint64 {
	switch len(b) {
	case 4:
		return uint64(binary.LittleEndian.Uint32(b))
	case 8:
		return binary.LittleEndian.Uint64(b)
	case 2:
		return uint64(binary.LittleEndian.Uint16(b))
	}
	return 0
}

func keyLess(ik bool, a, b []byte) bool {
	if ik {
		return intKeyVal(a) < intKeyVal(b)
	}
	return bytes.Compare(a, b) < 0
}

func byteKeyPool(r *rand.Rand) [][]byte {
	long := bytes.Repeat([]byte{'z'}, 511)
	long2 := append(bytes.Repeat([]byte{'z'}, 510), 'y')
	pool := [][]byte{[]byte("a"), []byte("aa"), []byte("ab"), []byte("b"), {'a', 0}, {'a', 0xff}, {0xff}, {0}, {0, 0}, long, long2, []byte("k1"), []byte("k2"), []byte("k3")}
	for i := 0; i < 6; i++ {
		pool = append(pool, randBytes(r, 1+r.Intn(6)))
	}
	return pool
}

func intKeyPool(r *rand.Rand, size int) [][]byte {
	vals := []uint64{0, 1, 2, 255, 256, 65535, 65536, 1 << 31, 1<<32 - 1}
	if size == 8 {
		vals = append(vals, 1<<32, 1<<63, 1<<64-1)
	}
	for i := 0; i < 4; i++ {
		vals = append(vals, uint64(r.Uint32()))
	}
	var out [][]byte
	for _, v := range vals {
		if size == 4 {
			out = append(out, le32(uint32(v)))
		} else {
			out = append(out, le64b(v))
		}
	}
	return out
}

func dedupKeys(ik bool, ks [][]byte) [][]byte {
	sort.Slice(ks, func(i, j int) bool { return keyLess(ik, ks[i], ks[j]) })
	var out [][]byte
	for i, k := range ks {
		if i > 0 && !keyLess(ik, ks[i-1], k) {
			continue
		}
		out = append(out, k)
	}
	return out
}

func pickSubset(r *rand.Rand, pool [][]byte, n int) [][]byte {
	var out [][]byte
	for i := 0; i < n; i++ {
		out = append(out, pool[r.Intn(len(pool))])
	}
	return out
}

func dbArg(keys [][]byte, val func(i int) []byte) string {
	if len(keys) == 0 {
		return "-"
	}
	parts := make([]string, len(keys))
	for i, k := range keys {
		parts[i] = hx(k) + "=" + hx(val(i))
	}
	return strings.Join(parts, ";")
}

var decToks = []string{"k", "d", "m", "r:02", "r:0102", "r:-", "e"}

func genStrat(g *Gen, n int) {
	// small scope, exhaustive: universe {a,b,c}
	uni := [][]byte{[]byte("a"), []byte("b"), []byte("c")}
	decs := []string{"k", "d", "m", "r:02", "r:-"}
	var inputs []string
	inputs = append(inputs, "-")
	for _, k1 := range uni {
		for _, d1 := range decs {
			inputs = append(inputs, hx(k1)+":"+d1)
			for _, k2 := range uni {
				for _, d2 := range decs {
					inputs = append(inputs, hx(k1)+":"+d1+","+hx(k2)+":"+d2)
				}
			}
		}
	}
	for mask := 0; mask < 8; mask++ {
		var ks [][]byte
		for i, k := range uni {
			if mask&(1<<i) != 0 {
				ks = append(ks, k)
			}
		}
		for variant := 0; variant < 2; variant++ {
			db := dbArg(ks, func(i int) []byte {
				if variant == 1 && i == 0 {
					return []byte{2} // equals the replacement value: the "unchanged" branch
				}
				return []byte{1}
			})
			for ii, in := range inputs {
				if !g.Thorough() && (ii+mask)%3 != 0 && ii > 16 {
					continue
				}
				for _, cl := range []string{"k", "d", "m"} {
					g.Emit("small-update", fmt.Sprintf("strat.update 0 %s %s %s", db, in, cl))
					g.Emit("small-iterupdate", fmt.Sprintf("strat.iterupdate 0 %s %s %s", db, in, cl))
					g.Emit("oracle-small", fmt.Sprintf("prop.c19 update 0 %s %s %s", db, in, cl))
					g.Emit("oracle-small", fmt.Sprintf("prop.c19 iterupdate 0 %s %s %s", db, in, cl))
				}
				g.Emit("oracle-small", fmt.Sprintf("prop.c19 emptyput 0 %s %s k", db, in))
				g.Emit("small-emptyput", fmt.Sprintf("strat.emptyput 0 0 %s %s", db, in))
			}
		}
	}
	// random, larger scope, byte keys and integer keys
	for i := 0; i < n; i++ {
		mode := g.R.Intn(4) // 0,1: bytes; 2: int4; 3: int8
		ik := mode >= 2
		var pool [][]byte
		switch mode {
		case 2:
			pool = intKeyPool(g.R, 4)
		case 3:
			pool = intKeyPool(g.R, 8)
		default:
			pool = byteKeyPool(g.R)
		}
		dbKeys := dedupKeys(ik, pickSubset(g.R, pool, g.R.Intn(8)))
		db := dbArg(dbKeys, func(int) []byte {
			if g.R.Intn(6) == 0 {
				return nil // empty stored value
			}
			return randBytes(g.R, 1+g.R.Intn(3))
		})
		inKeys := pickSubset(g.R, pool, g.R.Intn(8))
		class := "rand-sorted"
		switch g.R.Intn(10) {
		case 0: // leave unsorted / with duplicates
			class = "rand-unsorted"
		case 1:
			if !ik {
				inKeys = append(inKeys, nil) // empty key
				class = "rand-emptykey"
			}
			inKeys = dedupKeys(ik, inKeys)
		case 2:
			if !ik {
				inKeys = append(inKeys, bytes.Repeat([]byte{'q'}, 512)) // too long for LMDB
				class = "rand-longkey"
			}
			inKeys = dedupKeys(ik, inKeys)
		default:
			inKeys = dedupKeys(ik, inKeys)
		}
		var parts []string
		for _, k := range inKeys {
			d := decToks[g.R.Intn(len(decToks))]
			if d == "e" && g.R.Intn(4) != 0 {
				d = "r:07"
			}
			parts = append(parts, hx(k)+":"+d)
		}
		in := "-"
		if len(parts) > 0 {
			in = strings.Join(parts, ",")
		}
		cl := []string{"k", "d", "m", "m", "r:09", "e"}[g.R.Intn(6)]
		g.Emit(class+"/update", fmt.Sprintf("strat.update %s %s %s %s", b2s(ik), db, in, cl))
		g.Emit(class+"/iterupdate", fmt.Sprintf("strat.iterupdate %s %s %s %s", b2s(ik), db, in, cl))
		if !ik {
			g.Emit(class+"/emptyput", fmt.Sprintf("strat.emptyput 0 0 %s %s", db, in))
		}
		g.Emit("oracle/"+class, fmt.Sprintf("prop.c19 update %s %s %s %s", b2s(ik), db, in, cl))
		g.Emit("oracle/"+class, fmt.Sprintf("prop.c19 iterupdate %s %s %s %s", b2s(ik), db, in, cl))
		g.Emit("oracle/"+class, fmt.Sprintf("prop.c19 emptyput %s %s %s k", b2s(ik), db, in))
	}
	// D6: integer-key DBI whose first input key is 0
	g.Emit("int-zero-first", "strat.iterupdate 1 - 00000000:r:01,01000000:r:02 k")
	g.Emit("int-zero-first", "strat.iterupdate 1 00000000=05;02000000=06 00000000:m,01000000:r:02 m")
	g.Emit("int-zero-first", "strat.iterupdate 1 - 0000000000000000:r:01 k")
	g.Emit("int-zero-first", "prop.c19 iterupdate 1 - 00000000:r:01,01000000:r:02 k")
	g.Emit("int-zero-first", "prop.c19 iterupdate 1 00000000=05;02000000=06 00000000:m,01000000:r:02 m")
}
