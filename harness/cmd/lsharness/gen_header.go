package main

import (
	"encoding/binary"
	"fmt"
	"math/rand"
)

func randBytes(r *rand.Rand, n int) []byte {
	b := make([]byte, n)
	for i := range b {
		switch r.Intn(6) {
		case 0:
			b[i] = 0
		case 1:
			b[i] = 0xff
		case 2:
			b[i] = byte('a' + r.Intn(3))
		default:
			b[i] = byte(r.Intn(256))
		}
	}
	return b
}

var tsBoundary = []uint64{0, 1, 2, 3, 255, 256, 1 << 31, 1 << 32, 1<<63 - 1, 1 << 63, 1<<64 - 1, 1700000000000000000}

func randTS(r *rand.Rand) uint64 {
	switch r.Intn(3) {
	case 0:
		return tsBoundary[r.Intn(len(tsBoundary))]
	case 1:
		return uint64(r.Intn(4))
	}
	return r.Uint64()
}

// mkStored builds a stored value: header (version, flags, n extension blocks) + app value.
func mkStored(ts, txn uint64, version, flags byte, numExtra int, reserved byte, app []byte) []byte {
	b := make([]byte, 24+8*numExtra, 24+8*numExtra+len(app))
	binary.BigEndian.PutUint64(b[0:8], ts)
	binary.BigEndian.PutUint64(b[8:16], txn)
	b[16] = version
	b[17] = flags
	b[18], b[19], b[20], b[21] = reserved, reserved, reserved, reserved
	binary.BigEndian.PutUint16(b[22:24], uint16(numExtra))
	for i := 24; i < len(b); i++ {
		b[i] = byte(i)
	}
	return append(b, app...)
}

func genHeader(g *Gen, n int) {
	// hdr.put: boundaries × all flag bytes
	for _, ts := range tsBoundary {
		for _, txn := range []uint64{0, 1, 1<<64 - 1} {
			for _, fl := range []int{0, 1, 2, 0x80, 0xff} {
				g.Emit("put-boundary", fmt.Sprintf("hdr.put %d %d %d", ts, txn, fl))
			}
		}
	}
	for fl := 0; fl < 256; fl++ {
		g.Emit("put-flags", fmt.Sprintf("hdr.put %d %d %d", 5, 7, fl))
	}
	// hdr.parse / hdr.skip: exhaustive small scope
	for l := 0; l <= 48; l++ {
		for _, ver := range []byte{0, 1, 0xff} {
			for _, ne := range []int{0, 1, 2, 3, 255, 256, 65535} {
				b := make([]byte, l)
				for i := range b {
					b[i] = byte(i + 1)
				}
				if l > 16 {
					b[16] = ver
				}
				if l > 23 {
					binary.BigEndian.PutUint16(b[22:24], uint16(ne))
				}
				g.Emit("parse-small", "hdr.parse "+hx(b))
				g.Emit("skip-small", "hdr.skip "+hx(b))
			}
		}
	}
	for i := 0; i < n; i++ {
		ne := []int{0, 0, 0, 1, 2, 5, 300}[g.R.Intn(7)]
		v := mkStored(randTS(g.R), randTS(g.R), []byte{0, 0, 0, 1}[g.R.Intn(4)], byte(g.R.Intn(256)), ne, byte(g.R.Intn(2))*0x55, randBytes(g.R, g.R.Intn(40)))
		if g.R.Intn(4) == 0 && len(v) > 0 {
			v = v[:g.R.Intn(len(v))]
		}
		g.Emit("parse-rand", "hdr.parse "+hx(v))
		g.Emit("skip-rand", "hdr.skip "+hx(v))
	}
	// extension counts around 2^13 (8 * count no longer fits 16 bits): complete values, values
	// one byte short of their announced extensions, values with nothing behind the header
	for _, ne := range []int{8191, 8192, 8193} {
		v := mkStored(3, 4, 0, 1, ne, 0, []byte("app"))
		g.Emit("parse-large", "hdr.parse "+hx(v), "hdr.skip "+hx(v))
		g.Emit("parse-large", "hdr.parse "+hx(v[:len(v)-4]), "hdr.skip "+hx(v[:len(v)-4]))
		g.Emit("parse-large", "hdr.parse "+hx(v[:30]), "hdr.skip "+hx(v[:30]))
	}
	if g.Thorough() {
		for _, ne := range []int{1000, 65535} {
			v := mkStored(1, 2, 0, 1, ne, 0, randBytes(g.R, 100))
			g.Emit("parse-large", "hdr.parse "+hx(v))
			g.Emit("parse-large", "hdr.parse "+hx(v[:len(v)-101]))
			g.Emit("parse-large", "hdr.parse "+hx(v[:len(v)-100]))
		}
	}
}
