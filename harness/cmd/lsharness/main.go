// lsharness: correspondence check and implementation-side oracles for the Lean model of
// PowerDNS/lightningstream. It calls the real code in-process (module replaced by /repo,
// build tag verif) and the model through lsdriver, on the same protocol lines.
package main

import (
	"flag"
	"fmt"
	"io"
	"os"
	"strings"
	"time"

	"github.com/sirupsen/logrus"
)

// props maps a property id to the streams that tie its model components to the code and
// to its implementation-side oracles.
var props = map[string][]Stream{}

func main() {
	prop := flag.String("prop", "", "property id (C01..C20)")
	tier := flag.String("tier", "quick", "quick|thorough")
	seed := flag.Int64("seed", 1, "PRNG seed")
	out := flag.String("out", "-", "result JSON")
	replay := flag.String("replay", "", "replay a script file (.ops) or a finding JSON on both sides")
	corpus := flag.String("corpus", "", "corpus directory for this property")
	budget := flag.Int("budget", 0, "random scripts per stream (0 = tier default)")
	flag.StringVar(&driverPath, "driver", "/verif/lean/.lake/build/bin/lsdriver", "lsdriver binary")
	concChild := flag.String("conc-storage-child", "", "internal: run the global-storage scenario in this fresh process")
	only := flag.String("stream", "", "run only this stream of the property (debugging)")
	flag.Parse()
	// Lightning Stream must not depend on the host's time zone: the whole harness runs with a
	// non-UTC local zone (time.Now(), time.Unix and header.Timestamp.Time() all carry it).
	time.Local = time.FixedZone("VERIF", -(7*3600 + 1800))
	if *concChild != "" {
		storageChild(*concChild)
		return
	}

	logrus.SetOutput(io.Discard)
	logrus.SetLevel(logrus.PanicLevel)

	if *replay != "" {
		os.Exit(doReplay(*replay))
	}
	oracleProp = *prop
	streams, ok := props[*prop]
	if !ok {
		fmt.Fprintln(os.Stderr, "unknown property", *prop)
		os.Exit(2)
	}
	if *only != "" {
		var f []Stream
		for _, st := range streams {
			if st.Name == *only {
				f = append(f, st)
			}
		}
		streams = f
	}
	b := *budget
	if b == 0 {
		b = 400
		if *tier == "thorough" {
			b = 12000
		}
	}
	res := runStreams(*prop, *tier, *seed, streams, b, *corpus)
	writeJSON(*out, res)
	if res.HarnessError != "" {
		fmt.Fprintln(os.Stderr, "harness error:", res.HarnessError)
		os.Exit(3)
	}
	if len(res.Findings) > 0 {
		os.Exit(1)
	}
}

func doReplay(path string) int {
	scripts := loadCorpusFile(path)
	rc := 0
	for _, s := range scripts {
		impl := runImpl(&s)
		model, err := runModel([]Script{s})
		if err != nil {
			fmt.Println("driver error:", err)
			return 3
		}
		for i, l := range s.Lines {
			if s.ModelLines[i] != l {
				l = l + "   [model: " + s.ModelLines[i] + "]"
			}
			fmt.Printf("op    %s\nimpl  %s\nmodel %s\n", l, impl[i], model[0][i])
		}
		if k := classify(impl, model[0]); k != "" {
			fmt.Println("RESULT", k)
			rc = 1
		} else {
			fmt.Println("RESULT agree")
		}
	}
	return rc
}

func loadCorpusFile(path string) []Script {
	b, err := os.ReadFile(path)
	if err != nil {
		fmt.Fprintln(os.Stderr, err)
		os.Exit(2)
	}
	var lines []string
	for _, l := range strings.Split(string(b), "\n") {
		l = strings.TrimSpace(l)
		if l == "" || strings.HasPrefix(l, "#") {
			continue
		}
		lines = append(lines, l)
	}
	return []Script{{Stream: "replay", Class: path, Lines: lines}}
}
