package main

func init() {
	props["C14"] = []Stream{{"header", genHeader}, {"merge", genMerge}}
	props["C02"] = []Stream{{"merge", genMerge}, {"c02-oracle", genC02Oracle}}
}

func init() {
	props["C19"] = []Stream{{"strategy", genStrat}}
}

func init() {
	props["C20"] = []Stream{{"dupsort", genDup}}
}

func init() {
	props["TXN"] = []Stream{{"txn", genTxn}}
}

func init() {
	props["C12"] = []Stream{{"cleaner", genCleaner}}
}
