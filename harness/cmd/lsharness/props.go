package main

func init() {
	props["C14"] = []Stream{{"header", genHeader}, {"merge", genMerge}}
	props["C02"] = []Stream{{"merge", genMerge}, {"c02-oracle", genC02Oracle}}
}

func init() {
	props["C19"] = []Stream{{"strategy", genStrat}}
}

func init() {
	props["C20"] = []Stream{{"c20-txn", genTxnFlavor("c20")}, {"dupsort", genDup}}
}

func init() {
	props["TXN"] = []Stream{{"txn", genTxn}}
}

func init() {
	props["C12"] = []Stream{{"cleaner", genCleaner}, {"cleaner-foreign", genCleanerForeign}, {"loop-restart", genLoopRestart}}
}

func init() {
	props["C18"] = []Stream{{"txn", genTxn}, {"c18-oracle", genTxnFlavor("c18")}}
	props["C10"] = []Stream{{"txn", genTxn}, {"c10-oracle", genTxnFlavor("c10")}, {"strategy", genStrat}, {"loop", genLoop}}
	props["C06"] = []Stream{{"txn", genTxn}, {"c06-oracle", genTxnFlavor("c06")}}
	props["C11"] = []Stream{{"txn", genTxn}, {"c11-oracle", genTxnFlavor("c11")}}
}

func init() {
	props["C04"] = []Stream{{"config", genCfg}, {"merge", genMerge}, {"c04-oracle", genMergeStep}, {"c04-load", genTxnFlavor("c04")}}
}

func init() {
	props["C15"] = []Stream{{"name-build", genNameBuild}, {"name-order", genNameOrder}, {"name-parse", genNameParse}, {"name-sanitize", genSanitize}, {"cleaner-foreign", genCleanerForeign}, {"recv", genRecv}}
}

func init() {
	props["C13"] = []Stream{{"sweep", genSweep}, {"sweep-wall", genSweepWall}}
}

func init() {
	props["LOOP"] = []Stream{{"loop", genLoop}}
}

func init() {
	props["C07"] = []Stream{{"wire-varint", genWireVarint}, {"wire-valid", genWireValid}, {"wire-reencode", genWireReencode}, {"wire-unknown-dbi", genWireUnknownDBI}}
	props["C08"] = []Stream{{"wire-varint", genWireVarint}, {"wire-malformed", genWireMalformed}, {"wire-unknown-dbi", genWireUnknownDBI}, {"recv", genRecv}}
}

func init() {
	props["C01"] = []Stream{{"merge", genMerge}, {"merge-order", genMergeOrder}, {"c01-load", genTxnFlavor("c01")}, {"c11-oracle", genTxnFlavor("c11")}, {"loop", genLoop}}
	props["C03"] = []Stream{{"loop", genLoop}, {"c11-oracle", genTxnFlavor("c11")}}
	props["C09"] = []Stream{{"loop", genLoop}, {"loop-restart", genLoopRestart}}
	props["C05"] = []Stream{{"loop-restart", genLoopRestart}, {"cleaner-commit", genCleanerCommit}, {"cleaner", genCleaner}}
}

func init() {
	props["C17"] = []Stream{{"conc", genConc}, {"cleaner-commit", genCleanerCommit}, {"recv", genRecv}}
}

func init() {
	props["C16"] = []Stream{{"recv", genRecv}, {"loop-once", genLoopOnce}}
}
