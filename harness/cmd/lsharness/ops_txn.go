package main

import (
	"context"
	"encoding/binary"
	"errors"
	"fmt"
	"os"
	"sort"
	"strings"
	"time"

	"github.com/PowerDNS/lightningstream/config"
	"github.com/PowerDNS/lightningstream/lmdbenv"
	"github.com/PowerDNS/lightningstream/lmdbenv/dbiflags"
	"github.com/PowerDNS/lightningstream/lmdbenv/header"
	"github.com/PowerDNS/lightningstream/lmdbenv/strategy"
	"github.com/PowerDNS/lightningstream/snapshot"
	"github.com/PowerDNS/lightningstream/syncer"
	"github.com/PowerDNS/lmdb-go/lmdb"
	"github.com/PowerDNS/simpleblob"
	"github.com/PowerDNS/simpleblob/backends/memory"
)

// ---- symbolic clock -------------------------------------------------------------------
// Lightning Stream reads time.Now() inside its transactions. Protocol lines carry a symbolic
// time `now = symBase + symStep*i`; the harness records the wall-clock window of each call and
// maps real timestamps found in dumps / snapshots back to the symbolic value (and symbolic
// values in inputs forward), so both sides see the same order of times.

const (
	symBase = uint64(4_000_000_000_000_000_000)
	symStep = uint64(10000)
	symTop  = uint64(5_000_000_000_000_000_000) // ≥ this: identity again ("far future")
	realLo  = uint64(1_000_000_000_000_000_000)
)

type window struct {
	sym    uint64
	tb, ta uint64
}

var windows []window

func clockReset() { windows = nil }

func beginWindow(sym uint64) *window {
	// keep windows apart so that "between two calls" has room
	if n := len(windows); n > 0 {
		for uint64(time.Now().UnixNano()) <= windows[n-1].ta+symStep {
		}
	}
	windows = append(windows, window{sym: sym, tb: uint64(time.Now().UnixNano())})
	return &windows[len(windows)-1]
}

func (w *window) end() { w.ta = uint64(time.Now().UnixNano()) }

func realToSym(r uint64) uint64 {
	if r < realLo || r >= symBase {
		return r
	}
	for _, w := range windows {
		if r >= w.tb && r <= w.ta {
			return w.sym
		}
		if r > w.ta && r < w.ta+symStep {
			return w.sym + (r - w.ta)
		}
	}
	return r // unmapped real time: shows up as a disagreement
}

func symToReal(s uint64) uint64 {
	if s < symBase || s >= symTop {
		return s
	}
	off := (s - symBase) % symStep
	base := s - off
	for _, w := range windows {
		if w.sym == base {
			if off == 0 {
				return w.ta // inside the window is only known after the fact; ties use capture values read back
			}
			return w.ta + off
		}
	}
	return s
}

// ---- instances ------------------------------------------------------------------------

type implInst struct {
	id     string
	env    *lmdb.Env
	dir    string
	s      *syncer.Syncer
	st     simpleblob.Interface
	native bool
	// lastRet: what the sync loop would hold as lastSyncedTxnID (protocol token "R")
	lastRet uint64
	// overridden: DBIs with override_create_flags in the configuration
	overridden map[string]bool
}

var insts = map[string]*implInst{}

func closeInst(id string) {
	if i, ok := insts[id]; ok {
		closeEnv(i.env, i.dir)
		delete(insts, id)
	}
}

func closeAllInsts() {
	for id := range insts {
		closeInst(id)
	}
}

var sharedStore simpleblob.Interface

func mkConfig(id string, native, hack, pad bool, override map[string]config.DBIOptions) (config.Config, config.LMDB) {
	c := config.Config{
		Instance:                    id,
		LMDBs:                       map[string]config.LMDB{},
		LMDBPollInterval:            time.Millisecond,
		StoragePollInterval:         time.Millisecond,
		StorageRetryInterval:        time.Millisecond,
		StorageRetryCount:           3,
		MemoryDownloadedSnapshots:   2,
		MemoryDecompressedSnapshots: 3,
	}
	lc := config.LMDB{SchemaTracksChanges: native, DupSortHack: hack, HeaderExtraPaddingBlock: pad, DBIOptions: override}
	c.LMDBs["db"] = lc
	return c, lc
}

// appBeforeCommit, when set, runs inside an application transaction just before it commits
var appBeforeCommit func()

func txnErrClass(err error) string {
	var ee syncer.ErrEntry
	switch {
	case errors.As(err, &ee):
		return "entry"
	case errors.Is(err, strategy.ErrNotSorted):
		return "not-sorted"
	case lmdb.IsNotFound(err):
		return "dbi-missing"
	case isBadValSize(err):
		return "bad-key"
	case errors.Is(err, header.ErrTooShort), errors.Is(err, header.ErrVersion):
		return "iter"
	}
	// plain fmt.Errorf errors: classified by the stable, code-level keyword they carry
	m := err.Error()
	switch {
	case strings.Contains(m, "dupsort_hack disabled"):
		return "dupsort-no-hack"
	case strings.Contains(m, "transform"):
		return "transform"
	case strings.Contains(m, "dupsort_hack"):
		return "dup-hack"
	case strings.Contains(m, "cannot safely create"):
		return "create-unsafe"
	case strings.Contains(m, "formatVersion"), strings.Contains(m, "compatVersion"):
		return "version"
	case strings.Contains(m, "header parse error"):
		return "iter"
	}
	return "other:" + strings.ReplaceAll(clipStr(m), " ", "_")
}

func canonVal(name string, v []byte, native bool) []byte {
	// values with a Lightning Stream header: map the real capture time to its symbolic value
	if (native && !strings.HasPrefix(name, "_sync")) || strings.HasPrefix(name, syncer.SyncDBIShadowPrefix) {
		if len(v) >= 8 {
			ts := binary.BigEndian.Uint64(v[:8])
			if s := realToSym(ts); s != ts {
				out := append([]byte{}, v...)
				binary.BigEndian.PutUint64(out[:8], s)
				return out
			}
		}
	}
	return v
}

func dumpEnv(i *implInst) (string, error) {
	var parts []string
	err := i.env.View(func(txn *lmdb.Txn) error {
		names, err := lmdbenv.ReadDBINames(txn)
		if err != nil {
			return err
		}
		for _, n := range names {
			dbi, err := txn.OpenDBI(n, 0)
			if err != nil {
				return err
			}
			fl, err := txn.Flags(dbi)
			if err != nil {
				return err
			}
			kvs, err := lmdbenv.ReadDBI(txn, dbi)
			if err != nil {
				return err
			}
			ents := make([]string, len(kvs))
			for j, kv := range kvs {
				ents[j] = hx(kv.Key) + "=" + hx(canonVal(n, kv.Val, i.native))
			}
			e := "-"
			if len(ents) > 0 {
				e = strings.Join(ents, ";")
			}
			parts = append(parts, fmt.Sprintf("%s:%d:%s", hx([]byte(n)), fl, e))
		}
		return nil
	})
	if err != nil {
		return "", err
	}
	d := "-"
	if len(parts) > 0 {
		d = strings.Join(parts, "|")
	}
	return fmt.Sprintf("%s T%d", d, lastTxnID(i.env)), nil
}

func parseSnapArg(s string) (*snapshot.Snapshot, error) {
	f := strings.SplitN(s, ",", 3)
	if len(f) != 3 {
		return nil, fmt.Errorf("bad snapshot token")
	}
	snap := &snapshot.Snapshot{FormatVersion: uint32(u64(f[0])), CompatVersion: uint32(u64(f[1]))}
	snap.Meta.TimestampNano = 1 // the snapshot itself may be arbitrarily old
	if f[2] == "-" {
		return snap, nil
	}
	for _, ds := range strings.Split(f[2], "|") {
		p := strings.SplitN(ds, ":", 4)
		size := len(ds)/2 + 64
		d := snapshot.NewDBISize(size)
		d.SetName(string(mustUnhx(p[0])))
		d.SetFlags(u64(p[1]))
		d.SetTransform(string(mustUnhx(p[2])))
		if p[3] != "-" {
			for _, es := range strings.Split(p[3], ";") {
				q := strings.Split(es, "@")
				kv := strings.SplitN(q[0], "=", 2)
				d.Append(snapshot.KV{Key: mustUnhx(kv[0]), Value: mustUnhx(kv[1]), TimestampNano: symToReal(u64(q[1])), Flags: uint32(u64(q[2]))})
			}
		}
		// round-trip through the wire format as a received snapshot would
		d2, err := snapshot.NewDBIFromData(d.Marshal())
		if err != nil {
			return nil, err
		}
		snap.Databases = append(snap.Databases, d2)
	}
	return snap, nil
}

func snapOut(snap *snapshot.Snapshot) (string, error) {
	var ds []string
	for _, d := range snap.Databases {
		kvs, err := dbiEntries(d)
		if err != nil {
			return "", err
		}
		ents := make([]string, len(kvs))
		for j, kv := range kvs {
			ents[j] = fmt.Sprintf("%s=%s@%d@%d", hx(kv.Key), hx(kv.Value), realToSym(kv.TimestampNano), kv.Flags)
		}
		e := "-"
		if len(ents) > 0 {
			e = strings.Join(ents, ";")
		}
		ds = append(ds, fmt.Sprintf("%s:%d:%s:%s", hx([]byte(d.Name())), d.Flags(), hx([]byte(d.Transform())), e))
	}
	dd := "-"
	if len(ds) > 0 {
		dd = strings.Join(ds, "|")
	}
	return fmt.Sprintf("%d,%d,%s", snap.FormatVersion, snap.CompatVersion, dd), nil
}

// newestBlob returns the newest stored snapshot of an instance in the store.
func newestBlob(st simpleblob.Interface, inst string) (string, []byte, error) {
	ls, err := st.List(context.Background(), "db__"+inst+"__")
	if err != nil {
		return "", nil, err
	}
	names := ls.Names()
	if len(names) == 0 {
		return "", nil, fmt.Errorf("no snapshot stored")
	}
	sort.Strings(names)
	n := names[len(names)-1]
	b, err := st.Load(context.Background(), n)
	return n, b, err
}

// hasEmptyAppValue: does some application (non-private) DBI hold a zero-length value?
func hasEmptyAppValue(i *implInst) bool {
	found := false
	_ = i.env.View(func(txn *lmdb.Txn) error {
		names, err := lmdbenv.ReadDBINames(txn)
		if err != nil {
			return err
		}
		for _, n := range names {
			if strings.HasPrefix(n, syncer.SyncDBIPrefix) {
				continue
			}
			dbi, err := txn.OpenDBI(n, 0)
			if err != nil {
				continue
			}
			kvs, err := lmdbenv.ReadDBI(txn, dbi)
			if err != nil {
				continue
			}
			for _, kv := range kvs {
				if len(kv.Val) == 0 {
					found = true
				}
			}
		}
		return nil
	})
	return found
}

func init() {
	// Finding D13: with txn.RawRead the lmdb-go binding dereferences the value pointer even for
	// a zero-length value; when that value's node sits at the very end of the data file the
	// pointer is one past the mapping and the process dies with SIGBUS (here: recovered fault).
	faultHook = func(f []string, txt string) string {
		if os.Getenv("LSH_TRACE") != "" {
			fmt.Fprintln(os.Stderr, "PANIC", f[0], txt)
		}
		if !(strings.HasPrefix(f[0], "txn.") || strings.HasPrefix(f[0], "prop.c")) || !(strings.Contains(txt, "fault") || strings.Contains(txt, "invalid memory address")) || len(f) < 2 {
			return ""
		}
		i, ok := insts[f[1]]
		if !ok || i.native || !hasEmptyAppValue(i) {
			return ""
		}
		return "FAIL D13 fault-reading-empty-application-value-at-end-of-data-file"
	}
	implOps["clock.reset"] = func(a []string) string {
		clockReset()
		closeAllInsts()
		sharedStore = memory.New()
		return "ok"
	}
	implOps["env.new"] = func(a []string) string {
		id := a[0]
		closeInst(id)
		if sharedStore == nil {
			sharedStore = memory.New()
		}
		var override map[string]config.DBIOptions
		if a[5] != "-" {
			override = map[string]config.DBIOptions{}
			for _, p := range strings.Split(a[5], ",") {
				f := strings.SplitN(p, "=", 2)
				fl := dbiflags.Flags(u64(f[1]))
				override[string(mustUnhx(f[0]))] = config.DBIOptions{OverrideCreateFlags: &fl}
			}
		}
		env, dir := newEnv(0)
		c, lc := mkConfig(id, a[1] == "1", a[2] == "1", a[3] == "1", override)
		if len(a) > 6 && a[6] == "swoff" {
			// a retention is configured but the sweeper is off (the shipped defaults): nothing is
			// swept, so no deletion marker may be refused either
			c.Sweeper = config.Sweeper{Enabled: false, RetentionDays: 2}
		}
		if len(a) > 6 && a[6] == "sw" {
			// tomb sweeper configured (its goroutine only runs under Sync): LoadOnce and the
			// shadow capture refuse deletion markers older than now - (99% of) two days
			c.Sweeper = config.Sweeper{Enabled: true, RetentionDays: 2}
		}
		s, err := syncer.New("db", env, sharedStore, c, lc, syncer.Options{ReceiveOnly: a[4] == "1"})
		if err != nil {
			closeEnv(env, dir)
			return "err new"
		}
		ovr := map[string]bool{}
		for n := range override {
			ovr[n] = true
		}
		insts[id] = &implInst{id: id, env: env, dir: dir, s: s, st: sharedStore, native: a[1] == "1", overridden: ovr}
		return "ok"
	}
	implOps["env.app"] = func(a []string) string {
		i := insts[a[0]]
		err := i.env.Update(func(txn *lmdb.Txn) error {
			if a[1] == "-" {
				return nil
			}
			for _, op := range strings.Split(a[1], ",") {
				f := strings.Split(op, ":")
				name := string(mustUnhx(f[1]))
				switch f[0] {
				case "c":
					if _, err := txn.OpenDBI(name, lmdb.Create|uint(u64(f[2]))); err != nil {
						return err
					}
				case "p":
					dbi, err := txn.OpenDBI(name, 0)
					if lmdb.IsNotFound(err) {
						continue
					}
					if err != nil {
						return err
					}
					if fl, err := txn.Flags(dbi); err == nil && fl&lmdb.DupSort != 0 && f[3] == "-" {
						continue // the harness's application never writes zero-length duplicates
					}
					if err := txn.Put(dbi, mustUnhx(f[2]), mustUnhx(f[3]), 0); err != nil {
						return err
					}
				case "d":
					dbi, err := txn.OpenDBI(name, 0)
					if lmdb.IsNotFound(err) {
						continue
					}
					if err != nil {
						return err
					}
					fl, err := txn.Flags(dbi)
					if err != nil {
						return err
					}
					if fl&lmdb.DupSort != 0 {
						// delete all duplicates of the key (what an application does with MDB_NODUPDATA)
						c, err := txn.OpenCursor(dbi)
						if err != nil {
							return err
						}
						_, _, err = c.Get(mustUnhx(f[2]), nil, lmdb.Set)
						if err == nil {
							err = c.Del(lmdb.NoDupData)
						}
						c.Close()
						if err != nil && !lmdb.IsNotFound(err) {
							return err
						}
					} else if err := txn.Del(dbi, mustUnhx(f[2]), nil); err != nil && !lmdb.IsNotFound(err) {
						return err
					}
				}
			}
			if appBeforeCommit != nil {
				appBeforeCommit() // the application keeps its write transaction open for a while
			}
			return nil
		})
		if err != nil {
			return "err app"
		}
		return fmt.Sprintf("ok T%d", lastTxnID(i.env))
	}
	implOps["env.dump"] = func(a []string) string {
		d, err := dumpEnv(insts[a[0]])
		if err != nil {
			return "err dump"
		}
		return "ok " + d
	}
	implOps["txn.load"] = func(a []string) string {
		i := insts[a[0]]
		snap, err := parseSnapArg(a[1])
		if err != nil {
			return "err snapshot-arg"
		}
		w := beginWindow(u64(a[3]))
		txnID, lc, err := i.s.LoadOnce(context.Background(), i.env, "remote", snapshot.Update{Snapshot: snap, NameInfo: snapshot.NameInfo{Kind: snapshot.KindSnapshot}}, header.TxnID(relTxn(i, a[2])))
		w.end()
		if err != nil {
			return "err " + txnErrClass(err)
		}
		if !lc {
			i.lastRet = uint64(txnID)
		}
		if uint64(txnID) > uint64(lastTxnID(i.env)) {
			return fmt.Sprintf("FAIL LoadOnce-returned-an-id-no-recorded-transaction-has returned=%d last=%d", uint64(txnID), lastTxnID(i.env))
		}
		return fmt.Sprintf("ok %d %s T%d", uint64(txnID), b2s(lc), lastTxnID(i.env))
	}
	implOps["txn.send"] = func(a []string) string {
		i := insts[a[0]]
		w := beginWindow(u64(a[1]))
		txnID, err := i.s.SendOnce(context.Background(), i.env)
		w.end()
		if err != nil {
			return "err " + txnErrClass(err)
		}
		i.lastRet = uint64(txnID)
		if uint64(txnID) > uint64(lastTxnID(i.env)) {
			// the loop would take an id no recorded transaction has for "synced up to here":
			// the next application commit gets that id and is never noticed (C09, C03)
			return fmt.Sprintf("FAIL SendOnce-returned-an-id-no-recorded-transaction-has returned=%d last=%d", uint64(txnID), lastTxnID(i.env))
		}
		// decode what was stored
		snapStr := fmt.Sprintf("%d,%d,-", snapshot.CurrentFormatVersion, snapshot.WriteCompatFormatVersion)
		if name, blob, err := newestBlob(i.st, i.id); err == nil {
			msg, err := snapshot.LoadData(blob)
			if err != nil {
				return "FAIL stored-snapshot-undecodable " + name
			}
			if snapStr, err = snapOut(msg); err != nil {
				return "FAIL stored-snapshot-entries-undecodable"
			}
		}
		return fmt.Sprintf("ok %d T%d %s", uint64(txnID), lastTxnID(i.env), snapStr)
	}
	implOps["txn.m2s"] = func(a []string) string {
		i := insts[a[0]]
		w := beginWindow(u64(a[1]))
		err := i.env.Update(func(txn *lmdb.Txn) error {
			return i.s.VerifMainToShadow(context.Background(), txn, header.Timestamp(symToRealNow(w)))
		})
		w.end()
		if err != nil {
			return "err " + txnErrClass(err)
		}
		return fmt.Sprintf("ok T%d", lastTxnID(i.env))
	}
	implOps["txn.s2m"] = func(a []string) string {
		i := insts[a[0]]
		err := i.env.Update(func(txn *lmdb.Txn) error {
			return i.s.VerifShadowToMain(context.Background(), txn)
		})
		if err != nil {
			return "err " + txnErrClass(err)
		}
		return fmt.Sprintf("ok T%d", lastTxnID(i.env))
	}
}

// relTxn resolves "T", "T-1", "T+1" relative to the environment's LastTxnID.
func relTxn(i *implInst, s string) uint64 {
	t := uint64(lastTxnID(i.env))
	switch s {
	case "T":
		return t
	case "T-1":
		if t == 0 {
			return 0
		}
		return t - 1
	case "T+1":
		return t + 1
	case "R":
		return i.lastRet
	}
	return u64(s)
}

// symToRealNow: an explicit capture time for the direct mainToShadow wrapper (inside the window)
func symToRealNow(w *window) uint64 { return w.tb }
