package main

import (
	"bytes"
	"fmt"
	"math/big"
	"sort"
	"strings"
	"time"

	"github.com/PowerDNS/lightningstream/config"
	"github.com/PowerDNS/lightningstream/lmdbenv/header"
	"github.com/PowerDNS/lightningstream/snapshot"
	"github.com/PowerDNS/lightningstream/syncer"
)

// Implementation side of the name.* ops and the C15 oracles: the real snapshot.NameTimestamp /
// NameInfo.BuildName / snapshot.ParseName and the real (*syncer.Syncer).instanceID (through the
// verif-tagged wrapper VerifInstanceID).

// hexList parses "[h1,h2,...]" ("[]" = empty list, "-" = empty string).
func hexList(s string) [][]byte {
	if len(s) < 2 || s[0] != '[' || s[len(s)-1] != ']' {
		panic("bad list in protocol line: " + s)
	}
	inner := s[1 : len(s)-1]
	if inner == "" {
		return nil
	}
	var out [][]byte
	for _, t := range strings.Split(inner, ",") {
		out = append(out, mustUnhx(t))
	}
	return out
}

func hexListOut(l []snapshot.NameExtraItem) string {
	p := make([]string, len(l))
	for i, e := range l {
		p[i] = hx([]byte(e))
	}
	return "[" + strings.Join(p, ",") + "]"
}

func extraItems(l [][]byte) snapshot.NameExtra {
	var out snapshot.NameExtra
	for _, e := range l {
		out = append(out, snapshot.NameExtraItem(e))
	}
	return out
}

const two63 = uint64(1) << 63

// nameInfoFor is what syncer/send.go constructs before calling BuildName (TimestampString empty).
func nameInfoFor(db, inst, gen []byte, extras [][]byte, nanos uint64, ext []byte) snapshot.NameInfo {
	return snapshot.NameInfo{
		Kind:         snapshot.KindSnapshot,
		Extension:    string(ext),
		SyncerName:   string(db),
		InstanceID:   string(inst),
		GenerationID: string(gen),
		Timestamp:    header.Timestamp(nanos).Time(),
		Extra:        extraItems(extras),
	}
}

// unixNanosExact is the mathematical number of nanoseconds since the epoch (UnixNano overflows
// outside 1678..2262).
func unixNanosExact(t time.Time) string {
	v := new(big.Int).Mul(big.NewInt(t.Unix()), big.NewInt(1000000000))
	v.Add(v, big.NewInt(int64(t.Nanosecond())))
	return v.String()
}

// extRegistered asks the real registry through the real parser: a well-formed base name with
// this extension parses iff the extension is registered.
func extRegistered(ext string) bool {
	_, err := snapshot.ParseName("a__b__20060102-150405-000000000__G." + ext)
	return err == nil
}

// parseErrClass: the branch ParseName took. Its errors are plain fmt.Errorf values, so the
// branch is read from the fixed message prefix, and cross-checked against the condition
// re-derived here from the input; a mismatch is reported as its own class (and so shows up
// as a disagreement with the model).
func parseErrClass(name string, err error) string {
	msg := err.Error()
	byMsg := "other"
	switch {
	case strings.HasPrefix(msg, "invalid name: no dot"):
		byMsg = "no-dot"
	case strings.HasPrefix(msg, "unknown extension"):
		byMsg = "unknown-ext"
	case strings.HasPrefix(msg, "not enough name parts"):
		byMsg = "too-few-parts"
	case strings.HasPrefix(msg, "invalid timestamp format"):
		byMsg = "ts-format"
	case strings.HasPrefix(msg, "timestamp parse error"):
		byMsg = "ts-parse"
	}
	derived := "ts-parse"
	base, ext, found := strings.Cut(name, ".")
	p := strings.Split(base, "__")
	switch {
	case !found:
		derived = "no-dot"
	case !extRegistered(ext):
		derived = "unknown-ext"
	case len(p) < 4:
		derived = "too-few-parts"
	case len(p[2]) != 25 || p[2][15] != '-':
		derived = "ts-format"
	}
	if byMsg != derived {
		return "mismatch/" + byMsg + "/" + derived
	}
	return byMsg
}

func isSafeByte(c byte) bool {
	return c >= 'a' && c <= 'z' || c >= 'A' && c <= 'Z' || c >= '0' && c <= '9' || c == '-'
}

func allSafe(b []byte) bool {
	for _, c := range b {
		if !isSafeByte(c) {
			return false
		}
	}
	return true
}

// realSanitize runs the real instanceID() of a real Syncer configured with this instance name.
func realSanitize(inst string) (string, error) {
	s, err := syncer.New("verif", nil, nil, config.Config{Instance: inst}, config.LMDB{}, syncer.Options{})
	if err != nil {
		return "", err
	}
	return s.VerifInstanceID(), nil
}

func sgn(c int) string {
	switch {
	case c < 0:
		return "lt"
	case c == 0:
		return "eq"
	}
	return "gt"
}

func cmpU64(a, b uint64) int {
	switch {
	case a < b:
		return -1
	case a == b:
		return 0
	}
	return 1
}

func init() {
	implOps["name.ts"] = func(a []string) string {
		t := u64(a[0])
		if t >= two63 {
			return "err range"
		}
		return "ok " + snapshot.NameTimestampFromNano(header.Timestamp(t))
	}
	implOps["name.build"] = func(a []string) string {
		t := u64(a[4])
		if t >= two63 {
			return "err range"
		}
		ni := nameInfoFor(mustUnhx(a[0]), mustUnhx(a[1]), mustUnhx(a[2]), hexList(a[3]), t, mustUnhx(a[5]))
		return "ok " + hx([]byte(ni.BuildName()))
	}
	implOps["name.buildts"] = func(a []string) string {
		tss := mustUnhx(a[2])
		if len(tss) == 0 {
			return "err empty-ts"
		}
		ni := snapshot.NameInfo{
			Extension:       string(mustUnhx(a[5])),
			SyncerName:      string(mustUnhx(a[0])),
			InstanceID:      string(mustUnhx(a[1])),
			TimestampString: string(tss),
			GenerationID:    string(mustUnhx(a[3])),
			Extra:           extraItems(hexList(a[4])),
		}
		return "ok " + hx([]byte(ni.BuildName()))
	}
	implOps["name.parse"] = func(a []string) string {
		name := string(mustUnhx(a[0]))
		ni, err := snapshot.ParseName(name)
		if err != nil {
			return "err " + parseErrClass(name, err)
		}
		return fmt.Sprintf("ok %s %s %s %s %s %s %s %s", hx([]byte(ni.SyncerName)), hx([]byte(ni.InstanceID)),
			hx([]byte(ni.TimestampString)), hx([]byte(ni.GenerationID)), hexListOut(ni.Extra), hx([]byte(ni.Extension)),
			hx([]byte(ni.Kind)), unixNanosExact(ni.Timestamp))
	}
	implOps["name.sanitize"] = func(a []string) string {
		in := mustUnhx(a[0])
		if len(in) == 0 {
			return "err empty" // instanceID() substitutes the hostname for an empty name
		}
		out, err := realSanitize(string(in))
		if err != nil {
			return "err other"
		}
		return "ok " + hx([]byte(out))
	}

	implOps["prop.c15.roundtrip"] = func(a []string) string {
		db, inst, gen, extras, t, ext := mustUnhx(a[0]), mustUnhx(a[1]), mustUnhx(a[2]), hexList(a[3]), u64(a[4]), mustUnhx(a[5])
		pre := t < two63 && allSafe(db) && allSafe(inst) && allSafe(gen) && extRegistered(string(ext))
		for _, e := range extras {
			pre = pre && allSafe(e)
		}
		if !pre {
			return "ok pre-false"
		}
		in := nameInfoFor(db, inst, gen, extras, t, ext)
		n := in.BuildName()
		ni, err := snapshot.ParseName(n)
		if err != nil {
			return "FAIL roundtrip parse-error " + parseErrClass(n, err) + " name=" + hx([]byte(n))
		}
		same := ni.SyncerName == string(db) && ni.InstanceID == string(inst) && ni.GenerationID == string(gen) &&
			ni.Extension == string(ext) && len(ni.Extra) == len(extras) && ni.FullName == n &&
			ni.TimestampString == snapshot.NameTimestamp(in.Timestamp) &&
			ni.Timestamp.Equal(in.Timestamp) && uint64(ni.Timestamp.UnixNano()) == t && ni.Kind != ""
		for i := range extras {
			same = same && len(ni.Extra) == len(extras) && string(ni.Extra[i]) == string(extras[i])
		}
		if !same {
			return "FAIL roundtrip components-differ name=" + hx([]byte(n))
		}
		return "ok"
	}
	implOps["prop.c15.order"] = func(a []string) string {
		db, inst := mustUnhx(a[0]), mustUnhx(a[1])
		g1, e1, t1 := mustUnhx(a[2]), hexList(a[3]), u64(a[4])
		g2, e2, t2 := mustUnhx(a[5]), hexList(a[6]), u64(a[7])
		if t1 >= two63 || t2 >= two63 || !allSafe(db) || !allSafe(inst) {
			return "ok pre-false"
		}
		ext := []byte(snapshot.DefaultExtension)
		n1 := nameInfoFor(db, inst, g1, e1, t1, ext).BuildName()
		n2 := nameInfoFor(db, inst, g2, e2, t2, ext).BuildName()
		c := strings.Compare(n1, n2)
		if t1 != t2 {
			if c == cmpU64(t1, t2) {
				return "ok " + sgn(c)
			}
			return fmt.Sprintf("FAIL order t1=%d t2=%d names-compare=%s", t1, t2, sgn(c))
		}
		if bytes.Equal(g1, g2) && a[3] == a[6] {
			if c == 0 {
				return "ok eq"
			}
			return "FAIL order equal-inputs names-compare=" + sgn(c)
		}
		return "ok same-ts"
	}
	implOps["prop.c15.listing"] = func(a []string) string {
		db, inst := mustUnhx(a[0]), mustUnhx(a[1])
		var ts []uint64
		if a[2] != "-" && a[2] != "" {
			for _, t := range strings.Split(a[2], ",") {
				ts = append(ts, u64(t))
			}
		}
		pre := len(ts) > 0 && allSafe(db) && allSafe(inst)
		var mx uint64
		for _, t := range ts {
			pre = pre && t < two63
			if t > mx {
				mx = t
			}
		}
		if !pre {
			return "ok pre-false"
		}
		var names []string
		for _, t := range ts {
			names = append(names, nameInfoFor(db, inst, []byte("GX"), nil, t, []byte(snapshot.DefaultExtension)).BuildName())
		}
		sort.Strings(names) // the listing order of the blob store
		// what receiver.go does: walk the sorted listing, the later name overwrites the earlier
		last := map[string]snapshot.NameInfo{}
		for _, n := range names {
			ni, err := snapshot.ParseName(n)
			if err != nil {
				return "FAIL listing built name does not parse: " + hx([]byte(n))
			}
			last[ni.InstanceID] = ni
		}
		got := uint64(last[string(inst)].Timestamp.UnixNano())
		if got != mx {
			return fmt.Sprintf("FAIL listing last=%d newest=%d", got, mx)
		}
		return fmt.Sprintf("ok %d", got)
	}
	implOps["prop.c15.foreign"] = func(a []string) string {
		d1, d2, inst, t := mustUnhx(a[0]), mustUnhx(a[1]), mustUnhx(a[2]), u64(a[3])
		if t >= two63 || !allSafe(d1) || !allSafe(d2) || bytes.Equal(d1, d2) {
			return "ok pre-false"
		}
		n := nameInfoFor(d2, inst, []byte("GX"), nil, t, []byte(snapshot.DefaultExtension)).BuildName()
		if strings.HasPrefix(n, string(d1)+"__") { // receiver.go / cleaner.go: prefix = name + "__"
			return "FAIL foreign name=" + hx([]byte(n))
		}
		return "ok"
	}
	implOps["prop.c15.parsed"] = func(a []string) string {
		name := string(mustUnhx(a[0]))
		ni, err := snapshot.ParseName(name)
		if err != nil {
			return "ok rejected"
		}
		if ni.BuildName() != name || len(ni.TimestampString) != 25 || !extRegistered(ni.Extension) {
			return "FAIL parsed rebuild-differs"
		}
		return "ok accepted"
	}
	// not part of the C15 streams (see theorem C15_foreign_noncanonical_witness)
	implOps["prop.c15.canonical"] = func(a []string) string {
		name := string(mustUnhx(a[0]))
		ni, err := snapshot.ParseName(name)
		if err != nil {
			return "ok rejected"
		}
		if re := snapshot.NameTimestamp(ni.Timestamp); re != ni.TimestampString {
			return "FAIL noncanonical tss=" + ni.TimestampString + " reformatted=" + re
		}
		return "ok canonical"
	}
	implOps["prop.c15.sanitize"] = func(a []string) string {
		in := mustUnhx(a[0])
		if len(in) == 0 {
			return "ok same"
		}
		out, err := realSanitize(string(in))
		if err != nil {
			return "err other"
		}
		if !allSafe([]byte(out)) {
			return "FAIL sanitize unsafe-output"
		}
		if again, err := realSanitize(out); out != "" && (err != nil || again != out) {
			return "FAIL sanitize not-idempotent"
		}
		if allSafe(in) && out != string(in) {
			return "FAIL sanitize changed-safe-input"
		}
		if out == string(in) {
			return "ok same"
		}
		return "ok changed"
	}
}
