package main

import (
	"bytes"
	"compress/gzip"
	"context"
	"fmt"
	"io"
	"os"
	"sort"
	"strings"
	"sync"
	"time"

	"github.com/PowerDNS/lightningstream/snapshot"
	"github.com/PowerDNS/lightningstream/syncer/events"
	"github.com/PowerDNS/lightningstream/syncer/hooks"
	"github.com/PowerDNS/lightningstream/syncer/receiver"
	"github.com/PowerDNS/simpleblob"
	"github.com/PowerDNS/simpleblob/backends/memory"
	"github.com/sirupsen/logrus"
)

// The real Receiver (with its per-instance downloader goroutines and both token limits) on a
// fault-injecting in-memory bucket; the harness plays the consuming sync loop.

type recvStore struct {
	simpleblob.Interface
	mu        sync.Mutex
	failLoads int
	failLists int
	loads     int
	// lastInjected[instance]: the last failed load of that instance was an injected failure
	lastInjected map[string]bool
	// vanish: this blob disappears at the moment a downloader asks for it
	vanish string
}

func (s *recvStore) Load(ctx context.Context, name string) ([]byte, error) {
	s.mu.Lock()
	s.loads++
	inst := ""
	if ni, err := snapshot.ParseName(name); err == nil {
		inst = ni.InstanceID
	}
	if s.lastInjected == nil {
		s.lastInjected = map[string]bool{}
	}
	if s.failLoads > 0 {
		s.failLoads--
		s.lastInjected[inst] = true
		s.mu.Unlock()
		return nil, errInjected
	}
	s.lastInjected[inst] = false
	if s.vanish == name {
		_ = s.Interface.Delete(ctx, name)
	}
	s.mu.Unlock()
	return s.Interface.Load(ctx, name)
}

func (s *recvStore) List(ctx context.Context, prefix string) (simpleblob.BlobList, error) {
	s.mu.Lock()
	if s.failLists > 0 {
		s.failLists--
		s.mu.Unlock()
		return nil, errInjected
	}
	s.mu.Unlock()
	return s.Interface.List(ctx, prefix)
}

type recvImpl struct {
	st        *recvStore
	r         *receiver.Receiver
	ctx       context.Context
	cancel    context.CancelFunc
	held      *snapshot.Update
	heldID    string
	seen      map[string]string
	good      map[string]bool // names stored as decodable blobs
	delivered map[string]bool // names Next() has handed over
	// downloaders parked in their back-off after a load that failed for good (blob gone)
	pmu    sync.Mutex
	parked map[string]bool
	wake   chan struct{}
}

// backoff is the receiver's VerifBackoff hook: after an injected (transient) failure the
// downloader retries at once; after a real one (the blob is gone) it stays parked until the next
// settle, as in the model's quiesce ("sleeping downloaders retry first").
func (x *recvImpl) backoff(ctx context.Context, inst string) {
	x.st.mu.Lock()
	inj := x.st.lastInjected[inst]
	x.st.mu.Unlock()
	if inj {
		return
	}
	x.pmu.Lock()
	x.parked[inst] = true
	ch := x.wake
	x.pmu.Unlock()
	select {
	case <-ch:
	case <-ctx.Done():
	}
}

func (x *recvImpl) release() {
	x.pmu.Lock()
	x.parked = map[string]bool{}
	close(x.wake)
	x.wake = make(chan struct{})
	x.pmu.Unlock()
}

// settled: every downloader is waiting for a signal with nothing to do, parked after a load
// that failed for good, or blocked on a token that nobody in motion is going to release.
func (x *recvImpl) settled() (ok, blocked bool) {
	dlF, _, dcF, _ := x.r.VerifFree()
	x.pmu.Lock()
	defer x.pmu.Unlock()
	for inst, d := range x.r.VerifDownloaders() {
		switch {
		case d[0] == "idle" && d[1] == "nosignal":
		case d[0] == "backoff" && x.parked[inst]:
		case d[0] == "wantDl" && dlF == 0:
			blocked = true
		case d[0] == "wantDc" && dcF == 0:
			blocked = true
		default:
			return false, false
		}
	}
	return true, blocked
}

var rcv *recvImpl

func recvName(inst string, ts uint64) string {
	return snapshot.Name("db", inst, "GX", time.Unix(0, int64(ts)))
}

func recvTok(name string) string {
	ni, err := snapshot.ParseName(name)
	if err != nil {
		return "unparsable"
	}
	return fmt.Sprintf("%s@%d", ni.InstanceID, ni.Timestamp.UnixNano())
}

func validBlob(inst string, ts uint64) []byte {
	msg := &snapshot.Snapshot{FormatVersion: snapshot.CurrentFormatVersion, CompatVersion: snapshot.WriteCompatFormatVersion}
	msg.Meta.InstanceID = inst
	msg.Meta.TimestampNano = ts
	d := snapshot.NewDBISize(64)
	d.SetName("t")
	d.Append(snapshot.KV{Key: []byte("k"), Value: []byte(inst), TimestampNano: ts})
	msg.Databases = append(msg.Databases, d)
	b, _, err := snapshot.DumpData(msg)
	if err != nil {
		panic(err)
	}
	return b
}

// lazyCorruptBlob: a valid gzip container and a valid outer message whose DBI holds an entry
// with a length field pointing past its end: only decoding the entries reveals the corruption.
func lazyCorruptBlob() []byte {
	dbi := []byte{0x0a, 0x01, 0x74, 0x12, 0x03, 0x0a, 0x05, 0x61}
	pb := append([]byte{0x08, 0x03, 0x1a, byte(len(dbi))}, dbi...)
	var buf bytes.Buffer
	gw := gzip.NewWriter(&buf)
	_, _ = gw.Write(pb)
	_ = gw.Close()
	return buf.Bytes()
}

func (x *recvImpl) stateString() string {
	dlF, dlL, dcF, dcL := x.r.VerifFree()
	var pend []string
	for _, n := range x.r.VerifPending() {
		pend = append(pend, recvTok(n))
	}
	sort.Strings(pend)
	var cor []string
	for _, n := range x.r.VerifCorrupt() {
		cor = append(cor, recvTok(n))
	}
	sort.Strings(cor)
	var seen []string
	for _, n := range x.r.VerifLastSeen() {
		seen = append(seen, recvTok(n))
	}
	sort.Strings(seen)
	j := func(l []string) string {
		if len(l) == 0 {
			return "-"
		}
		return strings.Join(l, ",")
	}
	held := "-"
	if x.held != nil {
		held = x.heldID
	}
	return fmt.Sprintf("dl=%d/%d dc=%d/%d pending=%s corrupt=%s seen=%s held=%s", dlF, dlL, dcF, dcL, j(pend), j(cor), j(seen), held)
}

// settle lets parked downloaders retry and waits until the downloaders have done all they can
// (see settled); the condition must hold on three consecutive polls, because a token-blocked
// downloader can be woken by one that has just released.
func (x *recvImpl) settle() {
	x.release()
	deadline := time.Now().Add(2 * time.Second)
	ok := 0
	for time.Now().Before(deadline) {
		// "waiting for a token and none is free" also describes a downloader that has just got
		// the last token and has not announced its next phase yet: look longer in that case
		if st, blocked := x.settled(); st {
			ok++
			if (!blocked && ok >= 3) || ok >= 25 {
				return
			}
		} else {
			ok = 0
		}
		time.Sleep(50 * time.Microsecond)
	}
	recvSettleTimeouts++
	if os.Getenv("VERIF_DEBUG") != "" {
		dlF, _, dcF, _ := x.r.VerifFree()
		fmt.Fprintln(os.Stderr, "settle timeout:", x.r.VerifDownloaders(), "parked", x.parked, "dlFree", dlF, "dcFree", dcF)
	}
}

var recvSettleTimeouts int

// orderHint: the order in which the real downloaders got their turn, as far as it is visible
// after settling: those that finished without keeping anything (parked after a failed or corrupt
// load), those that finished, those waiting for a decompress token (they hold a download token),
// those waiting for a download token. The model moves its downloaders in this order.
func (x *recvImpl) orderHint() string {
	var g [4][]string
	for inst, d := range x.r.VerifDownloaders() {
		switch d[0] {
		case "backoff":
			g[0] = append(g[0], inst)
		case "idle":
			g[1] = append(g[1], inst)
		case "wantDc":
			g[2] = append(g[2], inst)
		default:
			g[3] = append(g[3], inst)
		}
	}
	var all []string
	for i := range g {
		sort.Strings(g[i])
		all = append(all, g[i]...)
	}
	return "ord=" + strings.Join(all, ",")
}

func init() {
	implOps["recv.new"] = func(a []string) string {
		if rcv != nil {
			rcv.cancel()
		}
		st := &recvStore{Interface: memory.New()}
		c, _ := mkConfig(a[0], true, false, false, nil)
		c.MemoryDownloadedSnapshots = int(u64(a[1]))
		c.MemoryDecompressedSnapshots = int(u64(a[2]))
		c.StorageRetryInterval = 200 * time.Microsecond
		c.StoragePollInterval = time.Hour
		ctx, cancel := context.WithCancel(context.Background())
		rcv = &recvImpl{st: st, ctx: ctx, cancel: cancel, parked: map[string]bool{}, wake: make(chan struct{}), good: map[string]bool{}, delivered: map[string]bool{}}
		receiver.VerifBackoff = rcv.backoff
		rcv.r = receiver.New(st, c, "db", logrus.StandardLogger(), a[0], events.New(), hooks.New())
		return "ok"
	}
	implOps["recv.put"] = func(a []string) string {
		ts := u64(a[1])
		var blob []byte
		if a[2] == "1" {
			blob = []byte("this is not a gzip stream " + a[0])
		} else if a[2] == "2" {
			blob = lazyCorruptBlob()
		} else {
			blob = validBlob(a[0], ts)
		}
		if err := rcv.st.Interface.Store(context.Background(), recvName(a[0], ts), blob); err != nil {
			return "err store"
		}
		rcv.good[recvName(a[0], ts)] = a[2] == "0"
		return "ok"
	}
	// recv.putother <inst> <ts>: a file of ANOTHER registered kind (not a snapshot) appears under
	// the same database and instance; the receiver must never take it for a snapshot
	implOps["recv.putother"] = func(a []string) string {
		registerOtherKind()
		name := otherKindFileName("db", a[0], int64(u64(a[1])))
		if err := rcv.st.Interface.Store(context.Background(), name, validBlob(a[0], u64(a[1]))); err != nil {
			return "err store"
		}
		return "ok"
	}
	implOps["recv.rm"] = func(a []string) string {
		_ = rcv.st.Interface.Delete(context.Background(), recvName(a[0], u64(a[1])))
		return "ok"
	}
	implOps["recv.loadfail"] = func(a []string) string {
		rcv.st.mu.Lock()
		rcv.st.failLoads = int(u64(a[0]))
		rcv.st.mu.Unlock()
		return "ok"
	}
	implOps["recv.run"] = func(a []string) string {
		if a[1] == "1" {
			rcv.st.mu.Lock()
			rcv.st.failLists = 1
			rcv.st.mu.Unlock()
		}
		err := rcv.r.RunOnce(rcv.ctx, a[0] == "1")
		rcv.settle()
		rewrittenLine = fmt.Sprintf("recv.run %s %s %s", a[0], a[1], rcv.orderHint())
		if err != nil {
			return "err list"
		}
		return "ok"
	}
	// recv.runrm <inst> <ts>: a listing after which the named blob vanishes before any downloader
	// gets to load it (cleaned by its owner between listing and download)
	implOps["recv.runrm"] = func(a []string) string {
		name := recvName(a[0], u64(a[1]))
		rcv.st.mu.Lock()
		rcv.st.vanish = name
		rcv.st.mu.Unlock()
		err := rcv.r.RunOnce(rcv.ctx, false)
		rcv.st.mu.Lock()
		rcv.st.vanish = ""
		rcv.st.mu.Unlock()
		_ = rcv.st.Interface.Delete(context.Background(), name)
		if err != nil {
			return "err list"
		}
		rcv.settle()
		rewrittenLine = fmt.Sprintf("recv.runrm %s %s %s", a[0], a[1], rcv.orderHint())
		return "ok"
	}
	implOps["recv.next"] = func(a []string) string {
		// as in the model: close what is held, let the downloaders do all they can, then Next()
		if rcv.held != nil {
			rcv.held.Close()
			rcv.held = nil
		}
		rcv.settle()
		hint := rcv.orderHint()
		inst, u := rcv.r.Next()
		if inst == "" {
			rewrittenLine = "recv.next - " + hint
			return "ok none"
		}
		if u.NameInfo.Kind != snapshot.KindSnapshot {
			return "FAIL a-file-that-is-not-a-snapshot-was-handed-to-the-merge-loop " + u.NameInfo.FullName
		}
		rcv.held = &u
		rcv.heldID = recvTok(u.NameInfo.FullName)
		rcv.delivered[u.NameInfo.FullName] = true
		rewrittenLine = "recv.next " + inst + " " + hint
		return "ok " + rcv.heldID
	}
	implOps["recv.close"] = func(a []string) string {
		if rcv.held != nil {
			rcv.held.Close()
			rcv.held = nil
		}
		rcv.settle()
		rewrittenLine = "recv.close " + rcv.orderHint()
		return "ok"
	}
	implOps["recv.state"] = func(a []string) string { return "ok " + rcv.stateString() }
	// prop.c16.delivered (after a successful listing and a complete drain by the consumer): the
	// newest decodable snapshot of every other instance in the bucket has been handed over
	implOps["prop.c16.delivered"] = func(a []string) string {
		ls, err := rcv.st.Interface.List(context.Background(), "")
		if err != nil {
			return "err list"
		}
		newest := map[string]string{}
		for _, n := range ls.Names() { // sorted: later names are newer
			ni, err := snapshot.ParseName(n)
			if err != nil || !rcv.good[n] || ni.Kind != snapshot.KindSnapshot {
				continue
			}
			newest[ni.InstanceID] = n
		}
		// only a settled receiver is judged: every downloader waits on an empty signal channel,
		// nothing is pending or held, and a listing now (with every corrupt name ignored) would
		// give what the last listing gave
		corrupt := map[string]bool{}
		for _, n := range rcv.r.VerifCorrupt() {
			corrupt[n] = true
		}
		fresh := map[string]string{}
		for _, n := range ls.Names() {
			if ni, err := snapshot.ParseName(n); err == nil && !corrupt[n] && ni.Kind == snapshot.KindSnapshot {
				fresh[ni.InstanceID] = n
			}
		}
		seen := map[string]string{}
		for _, n := range rcv.r.VerifLastSeen() {
			if ni, err := snapshot.ParseName(n); err == nil {
				seen[ni.InstanceID] = n
			}
		}
		rest := rcv.held == nil && len(rcv.r.VerifPending()) == 0 && len(fresh) == len(seen)
		for inst, n := range fresh {
			rest = rest && seen[inst] == n
		}
		// (a downloader still retrying a name that is gone although the listing is up to date is
		// not going anywhere either: it counts as settled, and what it should have fetched as owed)
		rcv.pmu.Lock()
		for inst, d := range rcv.r.VerifDownloaders() {
			rest = rest && ((d[0] == "idle" && d[1] == "nosignal") || (d[0] == "backoff" && rcv.parked[inst]))
		}
		rcv.pmu.Unlock()
		if !rest {
			return "ok not-at-rest"
		}
		var miss []string
		for inst, n := range newest {
			if inst == a[0] {
				continue // the own instance is only wanted during start-up
			}
			if !rcv.delivered[n] {
				miss = append(miss, recvTok(n))
			}
		}
		if len(miss) > 0 {
			sort.Strings(miss)
			return "FAIL newest-decodable-snapshot-never-delivered " + strings.Join(miss, ",")
		}
		return "ok"
	}
	// prop.c16.check: token accounting as an outside observer sees it
	implOps["prop.c16.check"] = func(a []string) string {
		dlF, dlL, dcF, dcL := rcv.r.VerifFree()
		pend := len(rcv.r.VerifPending())
		held := 0
		if rcv.held != nil {
			held = 1
		}
		if dlF < 0 || dlF > dlL || dcF < 0 || dcF > dcL {
			return "FAIL token-count-out-of-range"
		}
		if pend+held > dcL {
			return fmt.Sprintf("FAIL more-decoded-snapshots-in-memory-than-configured pending=%d held=%d limit=%d", pend, held, dcL)
		}
		if rcv.r.VerifIdle() {
			if dlF != dlL {
				return fmt.Sprintf("FAIL download-token-leaked free=%d limit=%d", dlF, dlL)
			}
			if dcF+pend+held != dcL {
				return fmt.Sprintf("FAIL decompress-token-leaked free=%d pending=%d held=%d limit=%d", dcF, pend, held, dcL)
			}
		}
		for _, n := range rcv.r.VerifPending() {
			for _, c := range rcv.r.VerifCorrupt() {
				if n == c {
					return "FAIL corrupt-snapshot-delivered"
				}
			}
		}
		// what the consumer holds must be mergeable: every entry decodes
		if rcv.held != nil && rcv.held.Snapshot != nil {
			for _, d := range rcv.held.Snapshot.Databases {
				d.ResetCursor()
				for {
					_, err := d.Next()
					if err == io.EOF {
						break
					}
					if err != nil {
						return "FAIL undecodable-snapshot-handed-to-the-merge-loop " + rcv.heldID
					}
				}
				d.ResetCursor()
			}
		}
		return "ok"
	}
}
