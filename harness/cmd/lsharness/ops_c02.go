package main

import (
	"bytes"
	"fmt"
	"strings"

	"github.com/PowerDNS/lightningstream/lmdbenv/header"
	"github.com/PowerDNS/lightningstream/snapshot"
)

// logical content of a stored value
type lc struct {
	present bool
	ts      uint64
	del     bool
	val     []byte
}

func (a lc) String() string {
	if !a.present {
		return "absent"
	}
	return fmt.Sprintf("%d/%s/%s", a.ts, b2s(a.del), hx(a.val))
}

func (a lc) eq(b lc) bool {
	return a.present == b.present && a.ts == b.ts && a.del == b.del && bytes.Equal(a.val, b.val)
}

func decodeLC(stored []byte) (lc, error) {
	if len(stored) == 0 {
		return lc{}, nil
	}
	h, v, err := header.Parse(stored)
	if err != nil {
		return lc{}, err
	}
	return lc{true, uint64(h.Timestamp), h.Flags.IsDeleted(), append([]byte{}, v...)}, nil
}

// lcBeats is the last-writer-wins order of the specification: higher timestamp; then the
// lexicographically lower value; then deleted over live.
func lcBeats(a, b lc) bool {
	if a.ts != b.ts {
		return a.ts > b.ts
	}
	if c := bytes.Compare(a.val, b.val); c != 0 {
		return c < 0
	}
	return a.del && !b.del
}

func parseEnt(tok string) snapshot.KV {
	p := strings.Split(tok, "/")
	return snapshot.KV{Key: []byte("k"), Value: mustUnhx(p[0]), TimestampNano: u64(p[1]), Flags: uint32(u64(p[2]))}
}

// applyMerge does what strategy.Update does with the iterator's decision for one key.
func applyMerge(fv, defTs, txn, cutoff, pad string, kv snapshot.KV, old []byte) ([]byte, error) {
	it := mkNative(fv, defTs, txn, cutoff, pad, kv)
	if it == nil {
		return old, nil // the entry cannot be represented in a snapshot at all
	}
	res, err := it.Merge(old)
	if err != nil {
		return nil, err
	}
	if len(res) == 0 {
		return nil, nil // setNewVal deletes
	}
	return append([]byte{}, res...), nil
}

var perms3 = [][3]int{{0, 1, 2}, {0, 2, 1}, {1, 0, 2}, {1, 2, 0}, {2, 0, 1}, {2, 1, 0}}

func init() {
	// prop.c02.perm fv pad txn old e1 e2 e3 : all six merge orders give the same logical content
	implOps["prop.c02.perm"] = func(a []string) string {
		old := mustUnhx(a[3])
		ents := []snapshot.KV{parseEnt(a[4]), parseEnt(a[5]), parseEnt(a[6])}
		var first lc
		for pi, p := range perms3 {
			cur := old
			for _, i := range p {
				var err error
				cur, err = applyMerge(a[0], "0", a[2], "0", a[1], ents[i], cur)
				if err != nil {
					return "err header"
				}
			}
			l, err := decodeLC(cur)
			if err != nil {
				return "err header"
			}
			if pi == 0 {
				first = l
			} else if !l.eq(first) {
				return fmt.Sprintf("FAIL order-dependent perm012=%s perm%d%d%d=%s", first, p[0], p[1], p[2], l)
			}
		}
		// idempotence: merging everything again changes nothing
		return "ok " + first.String()
	}
	// prop.c02.permc fv cutoff pad txn old e1 e2 e3 : as perm, with a stale-deletion cut-off.
	// Order dependence whose overall last-writer-wins winner is a marker older than the
	// cut-off is labelled "stale-winner" (finding D12, tombstone expiry); anything else is not.
	implOps["prop.c02.permc"] = func(a []string) string {
		old := mustUnhx(a[4])
		cutoff := u64(a[1])
		ents := []snapshot.KV{parseEnt(a[5]), parseEnt(a[6]), parseEnt(a[7])}
		var first lc
		for pi, p := range perms3 {
			cur := old
			for _, i := range p {
				var err error
				cur, err = applyMerge(a[0], "0", a[3], a[1], a[2], ents[i], cur)
				if err != nil {
					return "err header"
				}
			}
			l, err := decodeLC(cur)
			if err != nil {
				return "err header"
			}
			if pi == 0 {
				first = l
			} else if !l.eq(first) {
				// overall winner
				w, _ := decodeLC(old)
				for _, e := range ents {
					del := e.Flags&1 != 0 || (len(e.Value) == 0 && a[0] == "1")
					v := e.Value
					if del {
						v = nil
					}
					c := lc{true, e.TimestampNano, del, v}
					if !w.present || lcBeats(c, w) {
						w = c
					}
				}
				if w.present && w.del && w.ts < cutoff {
					return "FAIL order-dependent stale-winner winner=" + w.String()
				}
				return fmt.Sprintf("FAIL order-dependent perm012=%s perm%d%d%d=%s", first, p[0], p[1], p[2], l)
			}
		}
		return "ok " + first.String()
	}
	// prop.c02.step fv defTs txn cutoff pad val ts flags old : one merge never goes backwards
	implOps["prop.c02.step"] = func(a []string) string {
		old := mustUnhx(a[8])
		kv := snapshot.KV{Key: []byte("k"), Value: mustUnhx(a[5]), TimestampNano: u64(a[6]), Flags: uint32(u64(a[7]))}
		lo, err := decodeLC(old)
		if err != nil {
			return "ok unparsable-old"
		}
		it := mkNative(a[0], a[1], a[2], a[3], a[4], kv)
		if it == nil {
			return "ok no-entry"
		}
		res, err := it.Merge(old)
		if err != nil {
			return "FAIL error-on-parsable-old"
		}
		var cur []byte
		if len(res) > 0 {
			cur = res
		}
		ln, err := decodeLC(cur)
		if err != nil {
			return "FAIL result-unparsable"
		}
		if lo.present {
			if !ln.present {
				return "FAIL stored-entry-removed"
			}
			if ln.ts < lo.ts {
				return fmt.Sprintf("FAIL moved-backwards old=%s new=%s", lo, ln)
			}
			if ln.eq(lo) && !bytes.Equal(cur, old) {
				return "FAIL rewritten-without-change"
			}
		}
		// the result is the stored version or the (normalised) entry
		ets := kv.TimestampNano
		if ets == 0 {
			ets = u64(a[1])
		}
		edel := kv.Flags&1 != 0 || (len(kv.Value) == 0 && a[0] == "1")
		ev := kv.Value
		if edel {
			ev = nil
		}
		en := lc{true, ets, edel, ev}
		if !(ln.eq(lo) || ln.eq(en)) {
			return fmt.Sprintf("FAIL invented old=%s entry=%s new=%s", lo, en, ln)
		}
		// the winner is decided by last-writer-wins alone (C02, C04): a stored version that
		// loses against the entry is replaced - in particular a deletion at T removes any
		// version older than T whatever the cut-off - and one that does not lose stays. Only
		// a stale marker for an absent key is refused; a default-timestamp capture of
		// unchanged content keeps the stored version. (Entries flagged deleted with a value
		// are never produced by Lightning Stream and are left to the weaker rule above.)
		if !(edel && len(kv.Value) > 0) {
			var want lc
			switch {
			case !lo.present:
				if !(edel && kv.TimestampNano < u64(a[3])) {
					want = en
				}
			case kv.TimestampNano == 0 && bytes.Equal(lo.val, kv.Value) && !(edel && !lo.del):
				want = lo
			case lcBeats(en, lo):
				want = en
			default:
				want = lo
			}
			if !ln.eq(want) {
				return fmt.Sprintf("FAIL wrong-winner old=%s entry=%s cutoff=%s new=%s want=%s", lo, en, a[3], ln, want)
			}
		}
		return "ok " + ln.String()
	}
}
