package main

import (
	"errors"
	"fmt"
	"strconv"

	"github.com/PowerDNS/lightningstream/lmdbenv/header"
	"github.com/PowerDNS/lightningstream/snapshot"
	"github.com/PowerDNS/lightningstream/syncer"
)

func u64(s string) uint64 {
	v, err := strconv.ParseUint(s, 10, 64)
	if err != nil {
		panic("bad uint in protocol line: " + s)
	}
	return v
}

func hdrErrClass(err error) string {
	switch {
	case errors.Is(err, header.ErrTooShort):
		return "too-short"
	case errors.Is(err, header.ErrVersion):
		return "bad-version"
	}
	return "other"
}

func init() {
	implOps["hdr.put"] = func(a []string) string {
		b := make([]byte, header.MinHeaderSize)
		for i := range b {
			b[i] = 0xEE // dirty buffer: PutBasic must overwrite every byte
		}
		header.PutBasic(b, header.Timestamp(u64(a[0])), header.TxnID(u64(a[1])), header.Flags(u64(a[2])))
		return "ok " + hx(b)
	}
	implOps["hdr.parse"] = func(a []string) string {
		h, rest, err := header.Parse(mustUnhx(a[0]))
		if err != nil {
			return "err " + hdrErrClass(err)
		}
		return fmt.Sprintf("ok %d %d %d %d %d %s %s", uint64(h.Timestamp), uint64(h.TxnID), h.Version, uint8(h.Flags), h.NumExtra, hx(h.Extra), hx(rest))
	}
	implOps["hdr.skip"] = func(a []string) string {
		rest, err := header.Skip(mustUnhx(a[0]))
		if err != nil {
			return "err " + hdrErrClass(err)
		}
		return "ok " + hx(rest)
	}
	implOps["merge"] = func(a []string) string {
		it := mkNative(a[0], a[1], a[2], a[3], a[4], snapshot.KV{Key: mustUnhx(a[5]), Value: mustUnhx(a[6]), TimestampNano: u64(a[7]), Flags: uint32(u64(a[8]))})
		if it == nil {
			return "err no-entry"
		}
		res, err := it.Merge(mustUnhx(a[9]))
		if err != nil {
			return "err header"
		}
		return "ok " + optHx(res)
	}
	implOps["clean"] = func(a []string) string {
		it := mkNative(a[0], a[1], a[2], a[3], a[4], snapshot.KV{Key: []byte("k"), Value: []byte("v")})
		res, err := it.Clean(mustUnhx(a[5]))
		if err != nil {
			return "err header"
		}
		return "ok " + optHx(res)
	}
	implOps["plain.merge"] = func(a []string) string {
		d := snapshot.NewDBISize(len(a[0]) + 64)
		d.Append(snapshot.KV{Key: []byte("k"), Value: mustUnhx(a[0])})
		it := &syncer.PlainIterator{DBIMsg: d}
		if _, err := it.Next(); err != nil {
			return "err no-entry"
		}
		res, err := it.Merge([]byte("whatever"))
		if err != nil {
			return "err other"
		}
		return "ok " + optHx(res)
	}
}

// mkNative builds a real NativeIterator positioned on the given entry.
func mkNative(fv, defTs, txn, cutoff, pad string, kv snapshot.KV) *syncer.NativeIterator {
	d := snapshot.NewDBISize(len(kv.Key) + len(kv.Value) + 64)
	d.Append(kv)
	it := &syncer.NativeIterator{
		DBIMsg:               d,
		DefaultTimestampNano: header.Timestamp(u64(defTs)),
		TxnID:                header.TxnID(u64(txn)),
		FormatVersion:        uint32(u64(fv)),
		HeaderPaddingBlock:   pad == "1",
		DeletedCutoff:        header.Timestamp(u64(cutoff)),
	}
	if _, err := it.Next(); err != nil {
		return nil
	}
	return it
}
