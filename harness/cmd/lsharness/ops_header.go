package main

import (
	"bytes"
	"encoding/binary"
	"errors"
	"fmt"
	"strconv"

	"github.com/PowerDNS/lightningstream/lmdbenv/header"
	"github.com/PowerDNS/lightningstream/snapshot"
	"github.com/PowerDNS/lightningstream/syncer"
)

func u64(s string) uint64 {
	v, err := strconv.ParseUint(s, 10, 64)
	if err != nil {
		panic("bad uint in protocol line: " + s)
	}
	return v
}

func hdrErrClass(err error) string {
	switch {
	case errors.Is(err, header.ErrTooShort):
		return "too-short"
	case errors.Is(err, header.ErrVersion):
		return "bad-version"
	}
	return "other"
}

func init() {
	implOps["hdr.put"] = func(a []string) string {
		b := make([]byte, header.MinHeaderSize)
		for i := range b {
			b[i] = 0xEE // dirty buffer: PutBasic must overwrite every byte
		}
		header.PutBasic(b, header.Timestamp(u64(a[0])), header.TxnID(u64(a[1])), header.Flags(u64(a[2])))
		return "ok " + hx(b)
	}
	implOps["hdr.parse"] = func(a []string) string {
		in := mustUnhx(a[0])
		h, rest, err := header.Parse(in)
		// an independent reader of the documented layout decides what the answer has to be
		wantErr, wantRest := "", []byte(nil)
		switch {
		case len(in) < 24:
			wantErr = "too-short"
		case in[16] != 0:
			wantErr = "bad-version"
		case len(in) < 24+8*int(binary.BigEndian.Uint16(in[22:24])):
			wantErr = "too-short"
		default:
			wantRest = in[24+8*int(binary.BigEndian.Uint16(in[22:24])):]
		}
		if err != nil {
			if wantErr == "" {
				return "FAIL well-formed-value-rejected " + hdrErrClass(err)
			}
			return "err " + hdrErrClass(err)
		}
		if wantErr != "" {
			return "FAIL malformed-value-accepted should-be-" + wantErr
		}
		if !bytes.Equal(rest, wantRest) {
			return fmt.Sprintf("FAIL application-value-misread got-%d-bytes want-%d-bytes extension-count=%d", len(rest), len(wantRest), binary.BigEndian.Uint16(in[22:24]))
		}
		return fmt.Sprintf("ok %d %d %d %d %d %s %s", uint64(h.Timestamp), uint64(h.TxnID), h.Version, uint8(h.Flags), h.NumExtra, hx(h.Extra), hx(rest))
	}
	implOps["hdr.skip"] = func(a []string) string {
		in := mustUnhx(a[0])
		rest, err := header.Skip(in)
		if err == nil && len(in) >= 24 && in[16] == 0 {
			if n := 24 + 8*int(binary.BigEndian.Uint16(in[22:24])); len(in) < n {
				return "FAIL malformed-value-accepted should-be-too-short"
			} else if !bytes.Equal(rest, in[n:]) {
				return fmt.Sprintf("FAIL application-value-misread got-%d-bytes want-%d-bytes", len(rest), len(in)-n)
			}
		}
		if err != nil {
			return "err " + hdrErrClass(err)
		}
		return "ok " + hx(rest)
	}
	implOps["merge"] = func(a []string) string {
		it := mkNative(a[0], a[1], a[2], a[3], a[4], snapshot.KV{Key: mustUnhx(a[5]), Value: mustUnhx(a[6]), TimestampNano: u64(a[7]), Flags: uint32(u64(a[8]))})
		if it == nil {
			return "err no-entry"
		}
		old := mustUnhx(a[9])
		res, err := it.Merge(old)
		if err != nil {
			return "err header"
		}
		// C14 oracle: whatever the merge routine decides to write is read back by an
		// independent reader of the documented format
		if len(res) > 0 && !bytes.Equal(res, old) {
			if why := writtenNotWF(res, u64(a[2]), a[4] == "1"); why != "" {
				return "FAIL c14-written-value-not-well-formed " + why + " value=" + hx(res)
			}
		}
		return "ok " + optHx(res)
	}
	implOps["clean"] = func(a []string) string {
		it := mkNative(a[0], a[1], a[2], a[3], a[4], snapshot.KV{Key: []byte("k"), Value: []byte("v")})
		res, err := it.Clean(mustUnhx(a[5]))
		if err != nil {
			return "err header"
		}
		return "ok " + optHx(res)
	}
	implOps["plain.merge"] = func(a []string) string {
		d := snapshot.NewDBISize(len(a[0]) + 64)
		d.Append(snapshot.KV{Key: []byte("k"), Value: mustUnhx(a[0])})
		it := &syncer.PlainIterator{DBIMsg: d}
		if _, err := it.Next(); err != nil {
			return "err no-entry"
		}
		res, err := it.Merge([]byte("whatever"))
		if err != nil {
			return "err other"
		}
		return "ok " + optHx(res)
	}
}

// mkNative builds a real NativeIterator positioned on the given entry.
func mkNative(fv, defTs, txn, cutoff, pad string, kv snapshot.KV) *syncer.NativeIterator {
	d := snapshot.NewDBISize(len(kv.Key) + len(kv.Value) + 64)
	d.Append(kv)
	it := &syncer.NativeIterator{
		DBIMsg:               d,
		DefaultTimestampNano: header.Timestamp(u64(defTs)),
		TxnID:                header.TxnID(u64(txn)),
		FormatVersion:        uint32(u64(fv)),
		HeaderPaddingBlock:   pad == "1",
		DeletedCutoff:        header.Timestamp(u64(cutoff)),
	}
	if _, err := it.Next(); err != nil {
		return nil
	}
	return it
}

// writtenNotWF reads a value Lightning Stream wrote with an independent reader of the
// documented layout (docs/schema-native.md): 0-7 timestamp, 8-15 transaction id, 16 version,
// 17 flags, 18-21 reserved, 22-23 number of 8-byte extension blocks. It returns "" when the
// value is a well-formed version-0 header with only synced flags, zero reserved bytes, the id
// of the writing transaction, the expected number of extension blocks present, and an empty
// application value when the deleted flag is set.
func writtenNotWF(v []byte, txn uint64, padded bool) string {
	if len(v) < 24 {
		return "shorter-than-header"
	}
	if v[16] != 0 {
		return "version"
	}
	if v[17]&^0x01 != 0 {
		return fmt.Sprintf("flags-outside-synced-set-0x%02x", v[17])
	}
	if v[18]|v[19]|v[20]|v[21] != 0 {
		return "reserved-nonzero"
	}
	if binary.BigEndian.Uint64(v[8:16]) != txn {
		return "txnid"
	}
	n := int(binary.BigEndian.Uint16(v[22:24]))
	want := 0
	if padded {
		want = 1
	}
	if n != want {
		return "extension-count"
	}
	if len(v) < 24+8*n {
		return "extension-bytes-missing"
	}
	if v[17]&0x01 != 0 && len(v) != 24+8*n {
		return "deleted-with-value"
	}
	return ""
}
