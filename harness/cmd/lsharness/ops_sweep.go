package main

import (
	"context"
	"encoding/binary"
	"errors"
	"fmt"
	"hash/fnv"
	"math"
	"strings"
	"time"

	"github.com/PowerDNS/lightningstream/config"
	"github.com/PowerDNS/lightningstream/lmdbenv/header"
	"github.com/PowerDNS/lightningstream/syncer"
	"github.com/PowerDNS/lightningstream/syncer/sweeper"
	"github.com/PowerDNS/lmdb-go/lmdb"
	"github.com/sirupsen/logrus"
)

func lcgNext(x uint64) uint64 { return x*6364136223846793005 + 1442695040888963407 }

func fillEntry(i int, x uint64) ([]byte, []byte, uint64) {
	x = lcgNext(x)
	ts := (x >> 33) % 8
	del := (x>>40)%3 == 0
	var app []byte
	fl := byte(0)
	if del {
		fl = 1
	} else {
		app = []byte{byte(x >> 48)}
	}
	ne := 0
	if (x>>44)%4 == 0 {
		ne = 1 // a header with one extension block (what header_extra_padding_block writes)
	}
	return []byte(fmt.Sprintf("k%06d", i)), mkStored(ts, (x>>20)%5, 0, fl, ne, 0, app), x
}

// applyAppOps runs one application transaction (same semantics as env.app).
func applyAppOps(i *implInst, ops string) string { return implOps["env.app"]([]string{i.id, ops}) }

func init() {
	implOps["env.fill"] = func(a []string) string {
		i := insts[a[0]]
		name := string(mustUnhx(a[1]))
		count := int(u64(a[3]))
		x := u64(a[4])
		err := i.env.Update(func(txn *lmdb.Txn) error {
			dbi, err := txn.OpenDBI(name, lmdb.Create|uint(u64(a[2])))
			if err != nil {
				return err
			}
			for j := 0; j < count; j++ {
				var k, v []byte
				k, v, x = fillEntry(j, x)
				if err := txn.Put(dbi, k, v, 0); err != nil {
					return err
				}
			}
			return nil
		})
		if err != nil {
			return "err app"
		}
		return fmt.Sprintf("ok T%d", lastTxnID(i.env))
	}
	implOps["env.digest"] = func(a []string) string {
		i := insts[a[0]]
		d, err := dumpEnv(i)
		if err != nil {
			return "err dump"
		}
		img, _ := imageOf(i)
		n := 0
		for _, x := range img.dbis {
			n += len(x.kvs)
		}
		h := fnv.New64a()
		h.Write([]byte(d))
		return fmt.Sprintf("ok %d %d %d", len(img.names), n, h.Sum64())
	}
	// sweep.pass <id> <cutoff> <n> <batches>: one full sweeper pass with a scripted cut-off; the
	// application commits batch k at the k-th slice boundary. n must equal the scanner's check
	// interval (the real slice length with an always-expired lock duration).
	// sweep.wall <native 0|1> <retention_days float32 bits> <age1,age2,...>: the sweeper's own
	// wall-clock cut-off (no scripted cut-off). A fresh DBI holds one entry per age token
	// "<minutes>D" (deletion marker written that many minutes ago) or "<minutes>L" (live entry);
	// the answer lists the indices of the entries that survive one full sweep. The model gets the
	// line with the retention period in nanoseconds as the code's own configuration computes it.
	implOps["sweep.wall"] = func(a []string) string {
		native := a[0] == "1"
		conf := config.Sweeper{Enabled: true, RetentionDays: math.Float32frombits(uint32(u64(a[1]))), LockDuration: time.Second, ReleaseDuration: 0}
		rd := conf.RetentionDuration()
		rewrittenLine = fmt.Sprintf("sweep.wall %s %d %s", a[0], int64(rd), a[2])
		env, dir := newEnv(0)
		defer closeEnv(env, dir)
		name := "t"
		if !native {
			name = "_sync_shadow_t"
		}
		toks := strings.Split(a[2], ",")
		now := time.Now()
		err := env.Update(func(txn *lmdb.Txn) error {
			dbi, err := txn.OpenDBI(name, lmdb.Create)
			if err != nil {
				return err
			}
			for j, t := range toks {
				mins := u64(t[:len(t)-1])
				ts := uint64(now.Add(-time.Duration(mins) * time.Minute).UnixNano())
				var v []byte
				if t[len(t)-1] == 'D' {
					v = mkStored(ts, 1, 0, 1, 0, 0, nil)
				} else {
					v = mkStored(ts, 1, 0, 0, 0, 0, []byte("v"))
				}
				if err := txn.Put(dbi, []byte(fmt.Sprintf("w%04d", j)), v, 0); err != nil {
					return err
				}
			}
			return nil
		})
		if err != nil {
			return "err app"
		}
		sw := sweeper.New("db", conf, env, logrus.StandardLogger(), native)
		if err := sw.VerifSweepOnce(context.Background()); err != nil {
			return "err other:" + strings.ReplaceAll(clipStr(err.Error()), " ", "_")
		}
		var kept []string
		err = env.View(func(txn *lmdb.Txn) error {
			dbi, err := txn.OpenDBI(name, 0)
			if err != nil {
				return err
			}
			for j := range toks {
				if _, err := txn.Get(dbi, []byte(fmt.Sprintf("w%04d", j))); err == nil {
					kept = append(kept, fmt.Sprint(j))
				}
			}
			return nil
		})
		if err != nil {
			return "err dump"
		}
		// the property itself: a marker younger than the retention period is never swept,
		// a live entry never, and an older marker always. The retention period is computed
		// here from the configured days, not taken from the code under test.
		rd = time.Duration(float64(math.Float32frombits(uint32(u64(a[1])))) * 86400e9)
		for j, t := range toks {
			mins := u64(t[:len(t)-1])
			has := false
			for _, k := range kept {
				has = has || k == fmt.Sprint(j)
			}
			age := time.Duration(mins) * time.Minute
			switch {
			case t[len(t)-1] == 'L' && !has:
				return fmt.Sprintf("FAIL live-entry-swept age=%s retention=%s", age, rd)
			case t[len(t)-1] == 'D' && age < rd && !has:
				return fmt.Sprintf("FAIL marker-younger-than-retention-swept age=%s retention=%s", age, rd)
			case t[len(t)-1] == 'D' && age > rd && has:
				return fmt.Sprintf("FAIL expired-marker-not-swept age=%s retention=%s", age, rd)
			}
		}
		return "ok kept=" + strings.Join(kept, ",")
	}
	implOps["sweep.pass"] = func(a []string) string {
		i := insts[a[0]]
		cutoff := header.Timestamp(u64(a[1]))
		batches := strings.Split(a[3], "/")
		conf := config.Sweeper{Enabled: true, RetentionDays: 1, LockDuration: time.Nanosecond, ReleaseDuration: 0}
		sw := sweeper.New("db", conf, i.env, logrus.StandardLogger(), i.native)
		k := 0
		sweeper.VerifCutoff = func(*sweeper.Sweeper, header.Timestamp) header.Timestamp { return cutoff }
		sweeper.VerifYield = func(_ *sweeper.Sweeper, point string) {
			if point == "sweep.slice" {
				if k < len(batches) && batches[k] != "-" {
					applyAppOps(i, batches[k])
				}
				k++
			}
		}
		defer func() { sweeper.VerifCutoff = nil; sweeper.VerifYield = nil }()
		before := lastTxnID(i.env)
		_ = before
		imgBefore, _ := imageOf(i)
		err := sw.VerifSweepOnce(context.Background())
		if err != nil {
			if errors.Is(err, header.ErrTooShort) || errors.Is(err, header.ErrVersion) {
				return "err header"
			}
			if lmdb.IsNotFound(err) {
				return "err dbi-missing"
			}
			return "err other:" + strings.ReplaceAll(clipStr(err.Error()), " ", "_")
		}
		st := sw.VerifLastStats()
		// completeness (no application writes during the pass): no marker older than the cut-off
		// is left in a DBI the sweeper is responsible for, whatever its header looks like
		quiet := true
		for _, b := range batches {
			quiet = quiet && b == "-"
		}
		if quiet && imgBefore != nil {
			// soundness: whatever disappeared was a deletion marker strictly older than the cut-off
			if img, err := imageOf(i); err == nil {
				for _, n := range imgBefore.names {
					now := map[string]bool{}
					if d := img.dbis[n]; d != nil {
						for _, p := range d.kvs {
							now[string(p.k)] = true
						}
					}
					for _, p := range imgBefore.dbis[n].kvs {
						if now[string(p.k)] {
							continue
						}
						if !(len(p.v) >= 24 && p.v[16] == 0 && p.v[17]&1 == 1 && binary.BigEndian.Uint64(p.v[0:8]) < uint64(cutoff)) {
							return fmt.Sprintf("FAIL swept-an-entry-that-is-not-an-expired-marker dbi=%s key=%s value=%s cutoff=%d", n, hx(p.k), hx(p.v), uint64(cutoff))
						}
					}
				}
			}
		}
		if quiet {
			if img, err := imageOf(i); err == nil {
				for _, n := range img.names {
					if i.native == isPrivateName(n) {
						continue // native schema: application DBIs; otherwise: the shadow DBIs
					}
					if !i.native && !strings.HasPrefix(n, syncer.SyncDBIShadowPrefix) {
						continue
					}
					for _, p := range img.dbis[n].kvs {
						if len(p.v) >= 24 && p.v[16] == 0 && p.v[17]&1 == 1 && binary.BigEndian.Uint64(p.v[0:8]) < uint64(cutoff) {
							return fmt.Sprintf("FAIL expired-marker-left-after-a-complete-pass dbi=%s key=%s value=%s", n, hx(p.k), hx(p.v))
						}
					}
				}
			}
		}
		return fmt.Sprintf("ok T%d txns=%d cleaned=%d", lastTxnID(i.env), st[0], st[1])
	}
}
