package main

// Implementation side of the snapshot codec ops (C07, C08): the same protocol lines the Lean
// driver interprets (lean/LsModel/DriverWire.lean), run on the real code:
//   wire.varint      csproto.DecodeVarint
//   wire.kv          snapshot.KV.Unmarshal
//   wire.dbi.index   snapshot.NewDBIFromData (indexData)
//   wire.dbi.iter    NewDBIFromData + DBI.Next until io.EOF
//   wire.snapshot    Snapshot.Unmarshal + full iteration, and again through LoadData with a gzip container
//   wire.encode      NewDBI/Set*/Append + Snapshot.WriteTo, and again through DumpData
//   pb.parse         the generated gogo codec (reference implementation of the published schema)
//   prop.c07.roundtrip / prop.c07.compat   the property's own statement as oracles

import (
	"bytes"
	"errors"
	"fmt"
	"io"
	"runtime"
	"strconv"
	"strings"
	"time"

	"github.com/CrowdStrike/csproto"
	"github.com/PowerDNS/lightningstream/snapshot"
	"github.com/PowerDNS/lightningstream/snapshot/gogosnapshot"
	"github.com/klauspost/compress/gzip"
)

type wKV struct {
	Key, Val []byte
	TS       uint64
	Flags    uint32
}

type wDBI struct {
	Name      []byte
	Flags     uint64
	Transform []byte
	Entries   []wKV
}

type wMeta struct {
	Gen, Inst, Host []byte
	Txn             int64
	TS              uint64
	DBName          []byte
	From            int64
}

type wSnap struct {
	FV, CV uint32
	Meta   wMeta
	DBIs   []wDBI
}

func (kv wKV) String() string {
	return hx(kv.Key) + "/" + hx(kv.Val) + "/" + strconv.FormatUint(kv.TS, 10) + "/" + strconv.FormatUint(uint64(kv.Flags), 10)
}

func entriesStr(es []wKV) string {
	if len(es) == 0 {
		return "-"
	}
	var sb strings.Builder
	for i, e := range es {
		if i > 0 {
			sb.WriteByte(',')
		}
		sb.WriteString(e.String())
	}
	return sb.String()
}

func (d wDBI) hdrStr() string {
	return hx(d.Name) + ":" + strconv.FormatUint(d.Flags, 10) + ":" + hx(d.Transform)
}

func (d wDBI) String() string { return d.hdrStr() + ":" + entriesStr(d.Entries) }

func (m wMeta) String() string {
	return fmt.Sprintf("%s/%s/%s/%d/%d/%s/%d", hx(m.Gen), hx(m.Inst), hx(m.Host), m.Txn, m.TS, hx(m.DBName), m.From)
}

func (s wSnap) String() string {
	ds := "-"
	if len(s.DBIs) > 0 {
		parts := make([]string, len(s.DBIs))
		for i, d := range s.DBIs {
			parts[i] = d.String()
		}
		ds = strings.Join(parts, ";")
	}
	return fmt.Sprintf("%d %d %s %s", s.FV, s.CV, s.Meta.String(), ds)
}

func (s wSnap) contentSize() int {
	n := len(s.Meta.Gen) + len(s.Meta.Inst) + len(s.Meta.Host) + len(s.Meta.DBName)
	for _, d := range s.DBIs {
		n += len(d.Name) + len(d.Transform)
		for _, e := range d.Entries {
			n += len(e.Key) + len(e.Val)
		}
	}
	return n
}

func (s wSnap) hasEmptyKey() bool {
	for _, d := range s.DBIs {
		for _, e := range d.Entries {
			if len(e.Key) == 0 {
				return true
			}
		}
	}
	return false
}

func parseWSnap(a []string) wSnap {
	var s wSnap
	s.FV = uint32(u64(a[0]))
	s.CV = uint32(u64(a[1]))
	m := strings.Split(a[2], "/")
	if len(m) != 7 {
		panic("bad meta token")
	}
	s.Meta = wMeta{mustUnhx(m[0]), mustUnhx(m[1]), mustUnhx(m[2]), i64(m[3]), u64(m[4]), mustUnhx(m[5]), i64(m[6])}
	if a[3] != "-" {
		for _, dt := range strings.Split(a[3], ";") {
			p := strings.Split(dt, ":")
			if len(p) != 4 {
				panic("bad dbi token")
			}
			d := wDBI{Name: mustUnhx(p[0]), Flags: u64(p[1]), Transform: mustUnhx(p[2])}
			if p[3] != "-" {
				for _, et := range strings.Split(p[3], ",") {
					q := strings.Split(et, "/")
					if len(q) != 4 {
						panic("bad entry token")
					}
					d.Entries = append(d.Entries, wKV{mustUnhx(q[0]), mustUnhx(q[1]), u64(q[2]), uint32(u64(q[3]))})
				}
			}
			s.DBIs = append(s.DBIs, d)
		}
	}
	return s
}

// wireErrClass maps a Go error of the codec to the model's error enum by sentinel / type.
func wireErrClass(err error) string {
	var wt snapshot.ErrUnexpectedWireType
	switch {
	case errors.As(err, &wt):
		return "wire-type"
	case errors.Is(err, csproto.ErrInvalidVarintData):
		return "varint-empty"
	case errors.Is(err, io.ErrUnexpectedEOF):
		return "eof"
	case errors.Is(err, csproto.ErrValueOverflow):
		return "overflow"
	case errors.Is(err, csproto.ErrLenOverflow):
		return "len-overflow"
	case errors.Is(err, csproto.ErrInvalidFieldTag):
		return "bad-tag"
	}
	return "other"
}

func fromKV(kv snapshot.KV) wKV {
	return wKV{append([]byte{}, kv.Key...), append([]byte{}, kv.Value...), kv.TimestampNano, kv.Flags}
}

// iterDBI runs the caller's loop over DBI.Next; returns the entries delivered and the first
// error other than io.EOF.
func iterDBI(d *snapshot.DBI) ([]wKV, error) {
	var out []wKV
	d.ResetCursor()
	for {
		kv, err := d.Next()
		if err != nil {
			if err == io.EOF {
				return out, nil
			}
			return out, err
		}
		out = append(out, fromKV(kv))
	}
}

// customContent iterates everything of an unmarshalled snapshot, as loading does.
func customContent(s *snapshot.Snapshot) (wSnap, error) {
	out := wSnap{FV: s.FormatVersion, CV: s.CompatVersion}
	m := s.Meta
	out.Meta = wMeta{[]byte(m.GenerationID), []byte(m.InstanceID), []byte(m.Hostname), m.LmdbTxnID, m.TimestampNano, []byte(m.DatabaseName), m.FromLmdbTxnID}
	for _, d := range s.Databases {
		es, err := iterDBI(d)
		if err != nil {
			return out, err
		}
		out.DBIs = append(out.DBIs, wDBI{[]byte(d.Name()), d.Flags(), []byte(d.Transform()), es})
	}
	return out, nil
}

func customDecode(b []byte) (wSnap, error) {
	// private copy with cap == len, as a buffer read from storage would not be shared
	data := append(make([]byte, 0, len(b)), b...)
	var s snapshot.Snapshot
	if err := s.Unmarshal(data); err != nil {
		return wSnap{}, err
	}
	return customContent(&s)
}

func gz(b []byte) []byte {
	var out bytes.Buffer
	w, _ := gzip.NewWriterLevel(&out, gzip.BestSpeed)
	_, _ = w.Write(b)
	_ = w.Close()
	return out.Bytes()
}

func gunzip(b []byte) ([]byte, error) {
	r, err := gzip.NewReader(bytes.NewReader(b))
	if err != nil {
		return nil, err
	}
	return io.ReadAll(r)
}

func customDecodeViaLoadData(b []byte) (wSnap, error) {
	s, err := snapshot.LoadData(gz(b))
	if err != nil {
		return wSnap{}, err
	}
	return customContent(s)
}

func buildSnapshot(s wSnap) *snapshot.Snapshot {
	msg := &snapshot.Snapshot{FormatVersion: s.FV, CompatVersion: s.CV}
	msg.Meta = snapshot.Meta{GenerationID: string(s.Meta.Gen), InstanceID: string(s.Meta.Inst), Hostname: string(s.Meta.Host),
		LmdbTxnID: s.Meta.Txn, TimestampNano: s.Meta.TS, DatabaseName: string(s.Meta.DBName), FromLmdbTxnID: s.Meta.From}
	for _, d := range s.DBIs {
		dm := snapshot.NewDBI()
		dm.SetName(string(d.Name))
		dm.SetFlags(d.Flags)
		dm.SetTransform(string(d.Transform))
		for _, e := range d.Entries {
			dm.Append(snapshot.KV{Key: e.Key, Value: e.Val, TimestampNano: e.TS, Flags: e.Flags})
		}
		msg.Databases = append(msg.Databases, dm)
	}
	return msg
}

// customEncode: Snapshot.WriteTo, cross-checked against DumpData's gzip container.
func customEncode(s wSnap) ([]byte, error) {
	var buf bytes.Buffer
	if _, err := buildSnapshot(s).WriteTo(&buf); err != nil {
		return nil, err
	}
	dumped, _, err := snapshot.DumpData(buildSnapshot(s))
	if err != nil {
		return nil, err
	}
	plain, err := gunzip(dumped)
	if err != nil {
		return nil, err
	}
	if !bytes.Equal(plain, buf.Bytes()) {
		return nil, errors.New("DumpData differs from WriteTo")
	}
	return buf.Bytes(), nil
}

func gogoContent(g *gogosnapshot.Snapshot) wSnap {
	out := wSnap{FV: g.FormatVersion, CV: g.CompatVersion}
	m := g.Meta
	out.Meta = wMeta{[]byte(m.GenerationID), []byte(m.InstanceID), []byte(m.Hostname), m.LmdbTxnID, m.TimestampNano, []byte(m.DatabaseName), m.FromLmdbTxnID}
	for _, d := range g.Databases {
		wd := wDBI{Name: []byte(d.Name), Flags: d.Flags, Transform: []byte(d.Transform)}
		for _, e := range d.Entries {
			wd.Entries = append(wd.Entries, wKV{e.Key, e.Value, e.TimestampNano, e.Flags})
		}
		out.DBIs = append(out.DBIs, wd)
	}
	return out
}

func gogoDecode(b []byte) (wSnap, error) {
	var g gogosnapshot.Snapshot
	if err := g.Unmarshal(b); err != nil {
		return wSnap{}, err
	}
	return gogoContent(&g), nil
}

func toGogo(s wSnap) *gogosnapshot.Snapshot {
	g := &gogosnapshot.Snapshot{FormatVersion: s.FV, CompatVersion: s.CV}
	g.Meta = gogosnapshot.Snapshot_Meta{GenerationID: string(s.Meta.Gen), InstanceID: string(s.Meta.Inst), Hostname: string(s.Meta.Host),
		LmdbTxnID: s.Meta.Txn, TimestampNano: s.Meta.TS, DatabaseName: string(s.Meta.DBName), FromLmdbTxnID: s.Meta.From}
	for _, d := range s.DBIs {
		gd := &gogosnapshot.DBI{Name: string(d.Name), Flags: d.Flags, Transform: string(d.Transform)}
		for _, e := range d.Entries {
			gd.Entries = append(gd.Entries, gogosnapshot.KV{Key: e.Key, Value: e.Val, TimestampNano: e.TS, Flags: e.Flags})
		}
		g.Databases = append(g.Databases, gd)
	}
	return g
}

func init() {
	implOps["wire.varint"] = func(a []string) string {
		v, n, err := csproto.DecodeVarint(mustUnhx(a[0]))
		if err != nil {
			return "err " + wireErrClass(err)
		}
		return fmt.Sprintf("ok %d %d", v, n)
	}
	implOps["wire.kv"] = func(a []string) string {
		b := mustUnhx(a[0])
		var kv snapshot.KV
		if err := kv.Unmarshal(b[:len(b):len(b)]); err != nil {
			return "err " + wireErrClass(err)
		}
		return "ok " + fromKV(kv).String()
	}
	implOps["wire.dbi.index"] = func(a []string) string {
		b := mustUnhx(a[0])
		d, err := snapshot.NewDBIFromData(b[:len(b):len(b)])
		if err != nil {
			return "err " + wireErrClass(err)
		}
		return "ok " + wDBI{Name: []byte(d.Name()), Flags: d.Flags(), Transform: []byte(d.Transform())}.hdrStr()
	}
	implOps["wire.dbi.iter"] = func(a []string) string {
		b := mustUnhx(a[0])
		d, err := snapshot.NewDBIFromData(b[:len(b):len(b)])
		if err != nil {
			return "err " + wireErrClass(err)
		}
		es, err := iterDBI(d)
		if err != nil {
			return fmt.Sprintf("err %s %d", wireErrClass(err), len(es))
		}
		return "ok " + wDBI{Name: []byte(d.Name()), Flags: d.Flags(), Transform: []byte(d.Transform())}.hdrStr() + " " + entriesStr(es)
	}
	implOps["wire.snapshot"] = func(a []string) string {
		b := mustUnhx(a[0])
		s1, err1 := customDecode(b)
		r1 := "ok " + s1.String()
		if err1 != nil {
			r1 = "err " + wireErrClass(err1)
		}
		s2, err2 := customDecodeViaLoadData(b)
		r2 := "ok " + s2.String()
		if err2 != nil {
			r2 = "err " + wireErrClass(err2)
		}
		if r1 != r2 {
			return "FAIL loaddata-differs-from-unmarshal"
		}
		return r1
	}
	implOps["wire.encode"] = func(a []string) string {
		b, err := customEncode(parseWSnap(a))
		if err != nil {
			return "err other"
		}
		return "ok " + hx(b)
	}
	implOps["pb.parse"] = func(a []string) string {
		s, err := gogoDecode(mustUnhx(a[0]))
		if err != nil {
			return "err invalid"
		}
		return "ok " + s.String()
	}
	// prop.c07.roundtrip <snapshot>: custom encode -> custom decode = content, and the
	// reference codec reads the same content from the custom encoder's bytes.
	implOps["prop.c07.roundtrip"] = func(a []string) string {
		s := parseWSnap(a)
		want := s.String()
		b, err := customEncode(s)
		if err != nil {
			return "FAIL encode-" + err.Error()
		}
		got, err := customDecode(b)
		if err != nil {
			return "FAIL decode-" + wireErrClass(err)
		}
		if got.String() != want {
			return "FAIL decode-differs"
		}
		got2, err := customDecodeViaLoadData(b)
		if err != nil || got2.String() != want {
			return "FAIL decode-differs via LoadData"
		}
		ref, err := gogoDecode(b)
		if err != nil {
			return "FAIL reference-rejects"
		}
		if ref.String() != want {
			return "FAIL reference-differs"
		}
		return fmt.Sprintf("ok %d", len(b))
	}
	// prop.c07.compat <bytes>: a message the reference codec accepts and that describes LMDB
	// content must decode to the same content with the custom codec.
	implOps["prop.c07.compat"] = func(a []string) string {
		b := mustUnhx(a[0])
		ref, err := gogoDecode(b)
		if err != nil {
			return "ok invalid"
		}
		if ref.hasEmptyKey() {
			return "ok not-lmdb-content"
		}
		got, err := customDecode(b)
		if err != nil {
			return "FAIL custom-err " + wireErrClass(err)
		}
		if got.String() != ref.String() {
			return "FAIL differs"
		}
		return "ok " + ref.String()
	}
	// prop.c08.blob <raw blob>: a blob as it comes from the bucket (the gzip container itself may
	// be damaged or lie about its size): never a panic, never a hang, and memory in proportion to
	// the blob (the loader sizes its buffer at 10x the blob)
	implOps["prop.c08.blob"] = func(a []string) string {
		b := mustUnhx(a[0])
		ch := make(chan string, 1)
		go func() {
			defer func() {
				if r := recover(); r != nil {
					lastPanic = fmt.Sprint(r)
					ch <- "FAIL panic"
				}
			}()
			var m0, m1 runtime.MemStats
			runtime.ReadMemStats(&m0)
			s, err := snapshot.LoadData(b)
			if err == nil {
				_, err = customContent(s)
			}
			runtime.ReadMemStats(&m1)
			if alloc := m1.TotalAlloc - m0.TotalAlloc; alloc > uint64(64*len(b))+(32<<20) {
				ch <- fmt.Sprintf("FAIL allocation-out-of-proportion blob=%d-bytes allocated=%d-bytes", len(b), alloc)
				return
			}
			ch <- "ok"
		}()
		select {
		case r := <-ch:
			return r
		case <-time.After(10 * time.Second):
			return "FAIL hang"
		}
	}
	// prop.c08.total <bytes>: the blob, inside a valid gzip container, through LoadData and a
	// full iteration of every DBI: never a panic, never a hang, decoded content no larger
	// than the input. (Own recover and watchdog: the verdict is part of the oracle's output.)
	implOps["prop.c08.total"] = func(a []string) string {
		b := mustUnhx(a[0])
		ch := make(chan string, 1)
		go func() {
			defer func() {
				if r := recover(); r != nil {
					lastPanic = fmt.Sprint(r)
					ch <- "FAIL panic"
				}
			}()
			s, err := customDecodeViaLoadData(b)
			if err != nil {
				ch <- "ok rejected " + wireErrClass(err)
				return
			}
			if s.contentSize() > len(b) {
				ch <- "FAIL decoded-larger-than-input"
				return
			}
			ch <- fmt.Sprintf("ok decoded %d", s.contentSize())
		}()
		select {
		case r := <-ch:
			return r
		case <-time.After(3 * time.Second):
			return "FAIL hang"
		}
	}
}
