package main

import (
	"context"
	"errors"
	"fmt"
	"sort"
	"strconv"
	"strings"
	"time"

	"github.com/PowerDNS/lightningstream/config"
	"github.com/PowerDNS/lightningstream/snapshot"
	"github.com/PowerDNS/lightningstream/syncer"
	"github.com/PowerDNS/lightningstream/syncer/cleaner"
	"github.com/PowerDNS/simpleblob"
	"github.com/PowerDNS/simpleblob/backends/memory"
	"github.com/sirupsen/logrus"
)

// Implementation side of the cleaner ops (C12): the real cleaner.Worker on a fault-injecting
// in-memory simpleblob backend. Protocol (see lean/LsModel/DriverCleaner.lean):
//
//	cleaner.new <mustKeep> <removeOld> <enabled>
//	cleaner.newsyncer <mustKeep> <removeOld> <enabled> <receiveOnly>   (the Worker syncer.New creates)
//	cleaner.oracle <0/1>
//	cleaner.put <namehex>:<kind|bad>:<insthex>:<unixnanos>,…
//	cleaner.rm <namehex>,…
//	cleaner.commit <insthex>=<unixnanos>,…
//	cleaner.run <now> <listFails> <namehex,…|->
//
// The token after a name is what the real snapshot.ParseName says about it; cleaner.put
// re-checks that against the real ParseName, so a stale token (corpus, replay) shows up as a
// disagreement ("err token-mismatch" is never printed by the model).

const cleanerDB = "db"

// otherKindExt is registered (lazily, only when a cleaner op runs) so that the
// `ni.Kind != snapshot.KindSnapshot` branch is reachable.
const (
	otherKindExt  = "verifidx"
	otherKindName = "verif-index"
)

var otherKindRegistered bool

func registerOtherKind() {
	if !otherKindRegistered {
		snapshot.RegisterExtension(otherKindExt, otherKindName)
		otherKindRegistered = true
	}
}

var (
	errInjectedList   = errors.New("injected List failure")
	errInjectedDelete = errors.New("injected Delete failure")
)

// faultStore wraps the real memory backend: scripted List failure, per-name Delete failure,
// and a record of every List/Delete call the Worker makes.
type faultStore struct {
	*memory.Backend
	listFail bool
	delFail  map[string]bool
	lists    int
	listOK   bool
	listed   []string // names the last successful List returned
	delCalls []string
	deleted  []string
	others   int // Store/Load calls (the cleaner must make none)
}

func (f *faultStore) List(ctx context.Context, prefix string) (simpleblob.BlobList, error) {
	f.lists++
	if f.listFail {
		return nil, errInjectedList
	}
	bl, err := f.Backend.List(ctx, prefix)
	if err == nil {
		f.listOK = true
		f.listed = bl.Names()
	}
	return bl, err
}

func (f *faultStore) Delete(ctx context.Context, name string) error {
	f.delCalls = append(f.delCalls, name)
	if f.delFail[name] {
		return errInjectedDelete
	}
	f.deleted = append(f.deleted, name)
	return f.Backend.Delete(ctx, name)
}

func (f *faultStore) Store(ctx context.Context, name string, data []byte) error {
	f.others++
	return f.Backend.Store(ctx, name, data)
}

func (f *faultStore) Load(ctx context.Context, name string) ([]byte, error) {
	f.others++
	return f.Backend.Load(ctx, name)
}

type ctoken struct {
	bad   bool
	kind  string
	inst  string // hex
	nanos int64
}

type cleanerImpl struct {
	w         *cleaner.Worker
	st        *faultStore
	enabled   bool
	mustKeep  int64
	removeOld int64
	tokens    map[string]ctoken // hex name -> ParseName's verdict
	// the oracle's own bookkeeping
	since       map[string]int64 // hex name -> now of the first run that listed it since it was last absent
	committed   map[string]int64 // hex instance -> last value passed to SetCommitted
	checkNewest bool
}

var cl *cleanerImpl

var cleanerPfxHex = hx([]byte(cleanerDB + "__"))

func i64(s string) int64 {
	v, err := strconv.ParseInt(s, 10, 64)
	if err != nil {
		panic("bad int in protocol line: " + s)
	}
	return v
}

func splitList(s string) []string {
	if s == "-" || s == "" {
		return nil
	}
	return strings.Split(s, ",")
}

func joinOr(l []string) string {
	if len(l) == 0 {
		return "-"
	}
	return strings.Join(l, ",")
}

func hexSorted(names []string) []string {
	out := make([]string, len(names))
	for i, n := range names {
		out[i] = hx([]byte(n))
	}
	sort.Strings(out)
	return out
}

// nameToken is what the real ParseName says about a name, in protocol form.
func nameToken(name string) string {
	ni, err := snapshot.ParseName(name)
	if err != nil {
		return hx([]byte(name)) + ":bad:-:0"
	}
	return fmt.Sprintf("%s:%s:%s:%d", hx([]byte(name)), ni.Kind, hx([]byte(ni.InstanceID)), ni.Timestamp.UnixNano())
}

func (c *cleanerImpl) isSnap(hn string) bool {
	t, ok := c.tokens[hn]
	return ok && !t.bad && t.kind == snapshot.KindSnapshot
}

// isNewest: hn is the strictly newest listed snapshot of its instance.
func (c *cleanerImpl) isNewest(names []string, hn string) bool {
	t, ok := c.tokens[hn]
	if !ok || t.bad {
		return false
	}
	for _, m := range names {
		if m == hn {
			continue
		}
		u, ok := c.tokens[m]
		if !ok || u.bad {
			continue
		}
		if u.kind == snapshot.KindSnapshot && u.inst == t.inst && !(u.nanos < t.nanos) {
			return false
		}
	}
	return true
}

func contains(l []string, s string) bool {
	for _, x := range l {
		if x == s {
			return true
		}
	}
	return false
}

// oracle is the property's statement evaluated on what the real Worker did; names are hex.
// It uses only the harness's own bookkeeping. Returns "" when nothing is violated.
func (c *cleanerImpl) oracle(now int64, listOK bool, names, delCalls, deleted []string, lists int) string {
	if !c.enabled {
		if lists != 0 || len(delCalls) != 0 {
			return "disabled-active"
		}
		return ""
	}
	if !listOK {
		if len(delCalls) != 0 {
			return "delete-after-list-error"
		}
		return ""
	}
	for _, n := range delCalls { // sorted
		if !(contains(names, n) && strings.HasPrefix(n, cleanerPfxHex) && c.isSnap(n)) {
			return "not-own-snapshot " + n
		}
		t, ok := c.since[n]
		if !ok {
			return "keep-new " + n
		}
		if now-t <= c.mustKeep {
			return "keep-interval " + n
		}
		if c.checkNewest && c.isNewest(names, n) {
			tok := c.tokens[n]
			ct, proven := c.committed[tok.inst]
			proven = proven && tok.nanos <= ct
			if !(now-tok.nanos > c.removeOld && proven) {
				return "newest " + n
			}
		}
	}
	if len(deleted) != len(delCalls) {
		return ""
	}
	var old []string
	for _, n := range names {
		if !c.isSnap(n) || contains(deleted, n) {
			continue
		}
		if t, ok := c.since[n]; ok && now-t > c.mustKeep {
			old = append(old, n)
		}
	}
	sort.Strings(old)
	for _, n := range old {
		for _, m := range old {
			if m != n && c.tokens[m].inst == c.tokens[n].inst {
				return "unbounded " + n
			}
		}
	}
	return ""
}

func init() {
	implOps["cleaner.new"] = func(a []string) string {
		registerOtherKind()
		st := &faultStore{Backend: memory.New(), delFail: map[string]bool{}}
		c := &cleanerImpl{st: st, enabled: a[2] == "1", mustKeep: i64(a[0]), removeOld: i64(a[1]),
			tokens: map[string]ctoken{}, since: map[string]int64{}, committed: map[string]int64{}, checkNewest: true}
		lg := logrus.New()
		lg.SetOutput(discard{})
		c.w = cleaner.New(cleanerDB, st, config.Cleanup{
			Enabled:                    c.enabled,
			Interval:                   time.Minute,
			MustKeepInterval:           time.Duration(c.mustKeep),
			RemoveOldInstancesInterval: time.Duration(c.removeOld),
		}, lg)
		cl = c
		return "ok"
	}
	// cleaner.newsyncer: the Worker is the one the real syncer.New wires up (receive-only mode must
	// hand it a disabled configuration). No LMDB environment is needed: New only stores it.
	implOps["cleaner.newsyncer"] = func(a []string) string {
		registerOtherKind()
		st := &faultStore{Backend: memory.New(), delFail: map[string]bool{}}
		receiveOnly := a[3] == "1"
		c := &cleanerImpl{st: st, mustKeep: i64(a[0]), removeOld: i64(a[1]),
			tokens: map[string]ctoken{}, since: map[string]int64{}, committed: map[string]int64{}, checkNewest: true}
		// what the oracle holds the Worker to: in receive-only mode nothing may be listed or deleted
		c.enabled = a[2] == "1" && !receiveOnly
		if receiveOnly {
			c.mustKeep, c.removeOld = 0, 0
		}
		var conf config.Config
		conf.Instance = "verif"
		conf.Storage.Cleanup = config.Cleanup{
			Enabled:                    a[2] == "1",
			Interval:                   time.Minute,
			MustKeepInterval:           time.Duration(i64(a[0])),
			RemoveOldInstancesInterval: time.Duration(i64(a[1])),
		}
		s, err := syncer.New(cleanerDB, nil, st, conf, config.LMDB{}, syncer.Options{ReceiveOnly: receiveOnly})
		if err != nil {
			return "err new"
		}
		c.w = s.VerifCleaner()
		cl = c
		return "ok"
	}
	implOps["cleaner.oracle"] = func(a []string) string {
		cl.checkNewest = a[0] == "1"
		return "ok"
	}
	implOps["cleaner.put"] = func(a []string) string {
		ctx := context.Background()
		for _, tok := range splitList(a[0]) {
			p := strings.Split(tok, ":")
			if len(p) != 4 {
				return "bad-op"
			}
			name := string(mustUnhx(p[0]))
			if nameToken(name) != tok {
				return "err token-mismatch"
			}
			cl.tokens[p[0]] = ctoken{bad: p[1] == "bad", kind: p[1], inst: p[2], nanos: i64(p[3])}
			if err := cl.st.Backend.Store(ctx, name, []byte{'x'}); err != nil {
				return "err store"
			}
		}
		bl, _ := cl.st.Backend.List(ctx, "")
		return fmt.Sprintf("ok %d", len(bl))
	}
	implOps["cleaner.rm"] = func(a []string) string {
		ctx := context.Background()
		for _, hn := range splitList(a[0]) {
			_ = cl.st.Backend.Delete(ctx, string(mustUnhx(hn)))
		}
		bl, _ := cl.st.Backend.List(ctx, "")
		return fmt.Sprintf("ok %d", len(bl))
	}
	implOps["cleaner.commit"] = func(a []string) string {
		m := map[string]time.Time{}
		for _, kv := range splitList(a[0]) {
			p := strings.Split(kv, "=")
			if len(p) != 2 {
				return "bad-op"
			}
			m[string(mustUnhx(p[0]))] = time.Unix(0, i64(p[1]))
			cl.committed[p[0]] = i64(p[1])
		}
		cl.w.SetCommitted(m)
		var keys []string
		for k := range cl.committed {
			keys = append(keys, k)
		}
		sort.Strings(keys)
		var out []string
		for _, k := range keys {
			out = append(out, fmt.Sprintf("%s=%d", k, cl.w.GetCommitted(string(mustUnhx(k))).UnixNano()))
		}
		// the caller (the syncer) keeps updating its own map as it merges snapshots: what the
		// cleaner was told is "merged AND uploaded" must only change through SetCommitted
		for k := range m {
			m[k] = time.Unix(0, 1<<62)
		}
		m["a-new-instance-the-caller-has-merged-since"] = time.Unix(0, 1<<62)
		for i, k := range keys {
			if now := fmt.Sprintf("%s=%d", k, cl.w.GetCommitted(string(mustUnhx(k))).UnixNano()); now != out[i] {
				return fmt.Sprintf("FAIL committed-record-changed-without-SetCommitted %s -> %s (the cleaner keeps the caller's live map)", out[i], now)
			}
		}
		if !cl.w.GetCommitted("a-new-instance-the-caller-has-merged-since").IsZero() {
			return "FAIL committed-record-changed-without-SetCommitted (the cleaner keeps the caller's live map)"
		}
		return "ok " + joinOr(out)
	}
	implOps["cleaner.run"] = func(a []string) string {
		ctx := context.Background()
		now := i64(a[0])
		st := cl.st
		st.listFail = a[1] == "1"
		st.delFail = map[string]bool{}
		for _, hn := range splitList(a[2]) {
			st.delFail[string(mustUnhx(hn))] = true
		}
		st.lists, st.listOK, st.listed, st.delCalls, st.deleted, st.others = 0, false, nil, nil, nil, 0
		err := cl.w.RunOnce(ctx, time.Unix(0, now))
		status := "ok"
		if err != nil {
			if !errors.Is(err, errInjectedList) {
				return "err other"
			}
			status = "err list"
		}
		names := hexSorted(st.listed)
		delCalls := hexSorted(st.delCalls)
		deleted := hexSorted(st.deleted)
		verdict := cl.oracle(now, st.listOK, names, delCalls, deleted, st.lists)
		for _, n := range st.delCalls {
			// a cleaner only ever touches the snapshots of its own database: names that start
			// with "<database>__" (another database may share a prefix of the name itself)
			if !strings.HasPrefix(n, cleanerDB+"__") && verdict == "" {
				verdict = "delete-called-on-a-snapshot-of-another-database " + n
			}
		}
		if verdict == "" && st.others != 0 {
			verdict = "store-or-load-called"
		}
		if cl.enabled && st.listOK {
			since := map[string]int64{}
			for _, n := range names {
				if t, ok := cl.since[n]; ok {
					since[n] = t
				} else {
					since[n] = now
				}
			}
			cl.since = since
		}
		bl, _ := st.Backend.List(ctx, "")
		line := fmt.Sprintf("%s deleted=%s delcalls=%s lists=%d left=%d", status, joinOr(deleted), joinOr(delCalls), st.lists, len(bl))
		if verdict != "" {
			return "FAIL " + verdict + " | " + line
		}
		return line
	}
}

type discard struct{}

func (discard) Write(p []byte) (int, error) { return len(p), nil }
