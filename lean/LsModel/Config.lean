import LsModel.Bytes
/-
  config/config.go : Sweeper.RetentionDurationMinusCutoff on int64 (time.Duration) with Go's
  wrap-around multiplication/subtraction and truncated division. `rd` is the result of
  RetentionDuration() (a float32 product, outside the model: an input).
-/
namespace Ls.Config
open Ls

/-- Go's integer division truncates toward zero -/
def tdiv (a b : Int) : Int := Int.tdiv a b

/-- `RetentionDurationMinusCutoff` for `rd = RetentionDuration()` and the configured cut-off -/
def rdmc (rd cutoff : Int) : Int :=
  if cutoff > 0 then
    let maxBuffer := wrapInt64 (tdiv rd 4 * 3)       -- retention / 4 * 3
    let buffer := if cutoff > maxBuffer then maxBuffer else cutoff
    wrapInt64 (rd - buffer)
  else wrapInt64 (rd - tdiv rd 100)

/-- the sweeper's cut-off and the load cut-off at a given time (nanoseconds, as integers) -/
def sweepCutoff (tSweep rd : Int) : Int := tSweep - rd
def loadCutoff (tLoad rd cutoff : Int) : Int := tLoad - rdmc rd cutoff

end Ls.Config
