import LsModel.DriverUtil
import LsModel.DupSort
namespace Ls.Drv
open Ls Ls.Merge Ls.DupSort

def kvOut (kv : KV) : String := s!"{hexOut kv.key}={hexOut kv.val}/{kv.ts}/{kv.flags}"

def parsePairs (s : String) : Option (List KV) :=
  (listArg s ',').mapM fun p =>
    match (p.split (· == '=')).toList.map (·.toString) with
    | [k, v] => do pure { key := ← hexArg k, val := ← hexArg v, ts := 0, flags := 0 }
    | _ => none

def opDup (op : String) (a : List String) : Option String :=
  match op, a with
  | "dup.enc", [k, v, ts, fl] => do
    let e : KV := { key := ← hexArg k, val := ← hexArg v, ts := ← natArg ts, flags := ← natArg fl }
    pure (match encodeOne e with | .ok r => s!"ok {kvOut r}" | .error _ => "err refuse")
  | "dup.dec", [k, v, ts, fl] => do
    let e : KV := { key := ← hexArg k, val := ← hexArg v, ts := ← natArg ts, flags := ← natArg fl }
    pure (match decodeOne e with | .ok r => s!"ok {kvOut r}" | .error _ => "err invalid")
  | "dup.encall", [l] => do
    let l ← parsePairs l
    pure (match encodeAll l with
      | .ok r => "ok " ++ (if r.isEmpty then "-" else ",".intercalate (r.map kvOut))
      | .error _ => "err refuse")
  | "prop.c20.pairs", [l] => do
    let l ← parsePairs l
    match encodeAll l with
    | .error _ => pure "ok refused"
    | .ok r =>
      if r.length ≠ l.length then pure "FAIL pair-count" else
      let lenOk := r.all fun kv => 6 ≤ kv.key.length && kv.key.length ≤ 511
      let rec incr : List KV → Bool
        | a :: b :: rest => bcmp a.key b.key < 0 && incr (b :: rest)
        | _ => true
      let back := (r.zip l).all fun (enc, orig) =>
        match decodeOne enc with
        | .ok d => d.key == orig.key && d.val == orig.val
        | .error _ => false
      if !lenOk then pure "FAIL illegal-key-length"
      else if !incr r then pure "FAIL order-not-preserved"
      else if !back then pure "FAIL pair-not-recovered"
      else pure "ok reversible"
  | _, _ => none

end Ls.Drv
