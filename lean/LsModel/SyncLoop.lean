import LsModel.Txn
/-
  Layer C: the sync loop of one instance (syncer/sync.go syncLoop, with SendOnce's storage
  part from syncer/send.go), as a machine whose program counter ranges over the yield points
  of the guard-tagged hooks. One `go` runs from one yield point to the next; application
  transactions commit only at yield points (Lightning Stream's own transactions are atomic:
  LMDB's writer exclusion). Environment inputs (what the receiver hands over, how often Store
  fails, the time) are parameters of the step, never hidden state.
-/
namespace Ls.SyncLoop
open Ls Ls.Txn

abbrev InstId := String

/-- a stored snapshot: who made it, its (symbolic) snapshot time, its content -/
structure Blob where
  inst : InstId
  ts : Nat
  snap : Snap
  deriving Repr, DecidableEq

abbrev Bucket := List Blob

structure LoopCfg where
  txn : Txn.Cfg
  own : InstId
  onlyOnce : Bool
  retryCount : Nat
  deriving Repr

inductive Caller where
  | initial | loop
  deriving Repr, DecidableEq

inductive Exit where
  | ok
  | err (cls : String)
  deriving Repr, DecidableEq

inductive Pc where
  | boot
  | top
  | loadAfterTxn (txnID : Nat) (localChanged : Bool) (inst : InstId) (ts : Nat) (nLoads : Nat)
  | beforeInfo
  | beforeSend
  | sendAfterTxn (who : Caller) (txnID : Nat) (ts : Nat) (snap : Snap)
  | sendStored (who : Caller) (txnID : Nat)
  | sleep
  | exited (e : Exit)
  deriving Repr, DecidableEq

structure St where
  env : Env
  lastSynced : Nat
  hasDataAtStart : Bool
  waiting : List InstId
  seen : List InstId                   -- the receiver's SeenInstances() (last listing)
  lastBy : List (InstId × Nat)         -- Syncer.lastByInstance
  committed : List (InstId × Nat)      -- what the cleaner was told (SetCommitted)
  bgListed : Bool                      -- the receiver's own goroutine has done its first listing
  /-- `storage_force_snapshot_interval`: the last snapshot is older than the force interval
      (`forceSnapshotEnabled && time.Since(s.lastSnapshotTime) > forceSnapshotInterval`). Set only
      from outside (`armForce`: the test harness turns the clock back); `go` only ever clears it
      (after a successful store: `SendOnce` sets `s.lastSnapshotTime = time.Now()`). -/
  forceArmed : Bool
  pc : Pc
  deriving Repr, DecidableEq

/-- inputs of one segment -/
structure In where
  next : Option (InstId × Nat)   -- what Receiver.Next() returns if it is called in this segment
  fails : Nat                    -- how many Store attempts fail before one succeeds
  now : Nat                      -- the (symbolic) time read inside the transaction of this segment
  deriving Repr

def maxConsecutive : Nat := Gen.maxConsecutiveSnapshotLoads

def setAssoc (l : List (InstId × Nat)) (k : InstId) (v : Nat) : List (InstId × Nat) :=
  (k, v) :: l.filter (·.1 != k)

def instancesOf (b : Bucket) : List InstId := (b.map (·.inst)).eraseDups

def findBlob (b : Bucket) (inst : InstId) (ts : Nat) : Option Blob :=
  b.find? fun x => x.inst == inst && x.ts == ts

/-- the tail of an iteration after the send part: exit in only-once mode, else sleep -/
def afterSend (c : LoopCfg) (s : St) : St :=
  if c.onlyOnce ∧ s.waiting.isEmpty then { s with pc := .exited .ok } else { s with pc := .sleep }

/-- `loadReadySnapshotsLoop` has ended: clean the waiting set, go to the change check -/
def afterLoads (s : St) : St :=
  { s with waiting := s.waiting.filter (fun i => s.seen.contains i), pc := .beforeInfo }

/-- one `r.Next()` poll and, if it returns a snapshot, the LoadOnce transaction -/
def poll (c : LoopCfg) (b : Bucket) (s : St) (i : In) (nLoads : Nat) : St :=
  match i.next with
  | none => afterLoads s
  | some (inst, ts) =>
    match findBlob b inst ts with
    | none => { s with pc := .exited (.err "unknown-snapshot") }
    | some blob =>
      let s := { s with waiting := s.waiting.filter (· != inst) }
      match loadOnce c.txn s.env blob.snap s.lastSynced i.now 0 with
      | .error e => { s with pc := .exited (.err e.cls) }
      | .ok r =>
        -- the transaction has committed; LoadOnce has not yet looked at env.Info()
        { s with env := r.env, pc := .loadAfterTxn (s.env.lastTxn + 1) r.localChanged inst ts (nLoads + 1) }

/-- SendOnce's transaction (then the loop is at the yield point after it) -/
def beginSend (c : LoopCfg) (s : St) (who : Caller) (now : Nat) : St :=
  match sendOnce c.txn s.env now 0 with
  | .error e => { s with pc := .exited (.err e.cls) }
  | .ok r =>
    let raw := if c.txn.native then s.env.lastTxn else s.env.lastTxn + 1
    { s with env := r.env, pc := .sendAfterTxn who raw now r.snap }

/-- what happens after SendOnce returned `txnID` to its caller -/
def sendReturned (c : LoopCfg) (s : St) (who : Caller) (txnID : Nat) : St :=
  let s := { s with lastSynced := txnID }
  match who with
  | .initial => { s with pc := .top }
  | .loop => afterSend c s

/-- run from the current yield point to the next one -/
def goRaw (c : LoopCfg) (b : Bucket) (s : St) (i : In) : St × Bucket :=
  match s.pc with
  | .boot =>
    let hasData := s.env.lastTxn > 0
    let seen := instancesOf b
    let s := { s with hasDataAtStart := hasData, lastSynced := 0, seen := seen, waiting := seen }
    -- startup capture with a timestamp in the past
    let r : Except Txn.Err Env :=
      if hasData ∧ ¬ c.txn.native then
        (mainToShadow c.txn { dbis := s.env.dbis, dirty := false } (s.env.lastTxn + 1) 1 0).map (commit s.env)
      else .ok s.env
    match r with
    | .error e => ({ s with pc := .exited (.err e.cls) }, b)
    | .ok env =>
      let s := { s with env := env }
      if hasData ∧ b.isEmpty then (beginSend c s .initial i.now, b) else ({ s with pc := .top }, b)
  | .top => (poll c b s i 0, b)
  | .loadAfterTxn txnID lc inst ts nLoads =>
    let txnID := if s.env.lastTxn < txnID then s.env.lastTxn else txnID
    let s := { s with lastBy := setAssoc s.lastBy inst ts }
    let s := if lc then s else { s with lastSynced := txnID }
    if lc ∧ nLoads > maxConsecutive then (afterLoads s, b) else (poll c b s i nLoads, b)
  | .beforeInfo =>
    -- `info.LastTxnID > lastSyncedTxnID || snapshotOverdue`. The code computes `snapshotOverdue`
    -- at the end of the loads (before the yield point `loop.beforeInfo`) and reads it here; the
    -- harness arms only while the loop is at `top` or `sleep` (`armForce`), so the flag cannot
    -- change between the two places and reading `s.forceArmed` here is the same thing.
    if s.env.lastTxn > s.lastSynced ∨ s.forceArmed = true then
      if s.waiting.contains c.own then (afterSend c s, b)
      else
        let s := { s with lastSynced := s.env.lastTxn }
        if s.hasDataAtStart ∨ s.lastSynced > 0 then ({ s with pc := .beforeSend }, b) else (afterSend c s, b)
    else (afterSend c s, b)
  | .beforeSend => (beginSend c s .loop i.now, b)
  | .sendAfterTxn who txnID ts snap =>
    let txnID := if s.env.lastTxn < txnID then s.env.lastTxn else txnID
    if c.txn.receiveOnly then (sendReturned c s who txnID, b)
    else if i.fails ≥ c.retryCount then ({ s with pc := .exited (.err "store") }, b)
    else ({ s with pc := .sendStored who txnID }, b ++ [{ inst := c.own, ts := ts, snap := snap }])
  | .sendStored who txnID =>
    -- the store succeeded: `s.lastSnapshotTime = time.Now()` (send.go, just before the yield point
    -- `send.stored`; nothing arms between the store and this segment), so no snapshot is overdue
    let s := { s with committed := s.lastBy.foldl (fun acc p => setAssoc acc p.1 p.2) s.committed,
                      forceArmed := false }
    (sendReturned c s who txnID, b)
  | .sleep => ({ s with pc := .top }, b)
  | .exited _ => (s, b)

/-- `go`: one segment; when the loop reaches its main loop for the first time the receiver's
    own goroutine is started and lists the bucket once -/
def go (c : LoopCfg) (b : Bucket) (s : St) (i : In) : St × Bucket :=
  let (s', b') := goRaw c b s i
  if s'.pc = .top ∧ ¬ s'.bgListed then ({ s' with seen := instancesOf b', bgListed := true }, b') else (s', b')

def init (env : Env) : St :=
  { env := env, lastSynced := 0, hasDataAtStart := false, waiting := [], seen := [], lastBy := [],
    committed := [], bgListed := false, forceArmed := false, pc := .boot }

/-- the receiver listed the bucket (RunOnce): SeenInstances follows -/
def listed (b : Bucket) (s : St) : St := { s with seen := instancesOf b }

/-- the clock is turned back (or the force interval passes): from now on the last snapshot is
    older than `storage_force_snapshot_interval`. The only way `forceArmed` becomes true; `syncLoop`
    starts with `s.lastSnapshotTime = time.Now()` ("first not due to interval"), hence `init`
    is not armed. (In receive-only mode `forceSnapshotEnabled` is false: the harness does not
    arm a receive-only instance.) -/
def armForce (s : St) : St := { s with forceArmed := true }

/-- an application transaction commits while the loop is at a yield point -/
def appCommit (s : St) (ops : List AppOp) : St :=
  match appTxn s.env ops with
  | some e => { s with env := e }
  | none => s

end Ls.SyncLoop
