import LsModel.Bytes
/-
  Civil (proleptic Gregorian, UTC) date arithmetic, as Go's `time` package computes it for
  `Time.UTC().Format` / `time.Date`: days since 1970-01-01 <-> (year, month, day), and the
  time-of-day split of a nanosecond UNIX timestamp. The algorithms are the standard
  days-from-civil / civil-from-days ones (era = 400 years = 146097 days, year starting in March).
  Core Lean only.
-/
namespace Ls.Civil

/-- (year, month 1..12, day 1..31) of the day `z` days after 1970-01-01 (`z ≥ 0`). -/
def civilFromDays (z : Nat) : Nat × Nat × Nat :=
  let z := z + 719468
  let era := z / 146097
  let doe := z % 146097
  let yoe := (doe - doe / 1460 + doe / 36524 - doe / 146096) / 365
  let y := yoe + era * 400
  let doy := doe - (365 * yoe + yoe / 4 - yoe / 100)
  let mp := (5 * doy + 2) / 153
  let d := doy - (153 * mp + 2) / 5 + 1
  let m := if mp < 10 then mp + 3 else mp - 9
  (if m ≤ 2 then y + 1 else y, m, d)

/-- days from 1 March of the year −400 to the civil date (y, m, d): the standard
    days-from-civil algorithm with the year shifted by one 400-year era, so that every year ≥ 0
    (also year 0 with m ≤ 2) stays within the natural numbers. m in 1..12. -/
def daysFromCivilShifted (y m d : Nat) : Nat :=
  let y' := if m ≤ 2 then y + 399 else y + 400
  let era := y' / 400
  let yoe := y' % 400
  let mp := if m > 2 then m - 3 else m + 9
  era * 146097 + yoe * 365 + yoe / 4 - yoe / 100 + (153 * mp + 2) / 5 + d

/-- days from (−400)-03-01 to 1970-01-01, plus one (day numbers start at 1) -/
def epochShift : Nat := 865566

/-- days since 1970-01-01 of the civil date (y, m, d); any year ≥ 0, m in 1..12 (negative
    before 1970). -/
def daysFromCivil (y m d : Nat) : Int := (daysFromCivilShifted y m d : Int) - (epochShift : Int)

def isLeap (y : Nat) : Bool := y % 4 == 0 && (y % 100 != 0 || y % 400 == 0)

/-- Go's `daysIn(month, year)` for month 1..12 (0 otherwise). -/
def daysIn (m y : Nat) : Nat :=
  match m with
  | 1 => 31 | 2 => if isLeap y then 29 else 28 | 3 => 31 | 4 => 30 | 5 => 31 | 6 => 30
  | 7 => 31 | 8 => 31 | 9 => 30 | 10 => 31 | 11 => 30 | 12 => 31
  | _ => 0

def nsPerSec : Nat := 1000000000
def secPerDay : Nat := 86400
def nsPerDay : Nat := 86400000000000

/-- broken-down UTC time of a nanosecond UNIX timestamp `t ≥ 0` -/
structure Civil where
  year : Nat
  month : Nat
  day : Nat
  hour : Nat
  min : Nat
  sec : Nat
  nsec : Nat
  deriving Repr, DecidableEq

def ofNanos (t : Nat) : Civil :=
  let secs := t / nsPerSec
  let sod := secs % secPerDay
  let (y, m, d) := civilFromDays (secs / secPerDay)
  { year := y, month := m, day := d, hour := sod / 3600, min := sod % 3600 / 60, sec := sod % 60,
    nsec := t % nsPerSec }

/-- `time.Date(y, m, d, h, mi, s, ns, UTC)` as nanoseconds since the epoch (mathematical
    integer; Go's `UnixNano` overflows outside 1678..2262, this does not). -/
def toNanos (c : Civil) : Int :=
  ((daysFromCivil c.year c.month c.day * 86400 + (c.hour * 3600 + c.min * 60 + c.sec : Nat)) * 1000000000
    + (c.nsec : Nat))

end Ls.Civil
