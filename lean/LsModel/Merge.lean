import LsModel.Header
/-
  syncer/iterators.go : NativeIterator.Merge / Clean / addHeader, PlainIterator.Merge / Clean.
  Go `nil` results are `none`.
-/
namespace Ls.Merge
open Ls Ls.Header

/-- a snapshot entry (`snapshot.KV`) -/
structure KV where
  key : Bytes
  val : Bytes
  ts : Nat      -- uint64
  flags : Nat   -- uint32
  deriving Repr, DecidableEq, Inhabited

/-- iterator configuration (fields of `NativeIterator` that `Merge` reads) -/
structure Cfg where
  fv : Nat          -- FormatVersion
  defTs : Nat       -- DefaultTimestampNano
  txn : Nat         -- TxnID
  cutoff : Nat      -- DeletedCutoff
  pad : Bool        -- HeaderPaddingBlock
  deriving Repr, DecidableEq

/-- `KV.MaskedFlags`: uint32 → uint8 truncation, then the sync mask -/
def maskedFlags (kv : KV) : UInt8 := masked (UInt8.ofNat (kv.flags % 256))

/-- `addHeader` (the `fromClean` argument is unused by the Go code) -/
def addHeader (c : Cfg) (entryVal : Bytes) (ts : Nat) (flags : UInt8) : Bytes :=
  let ts := if ts = 0 then c.defTs else ts
  let flags := if entryVal.length = 0 ∧ c.fv < 2 then flags ||| UInt8.ofNat Gen.flagDeleted else flags
  let entryVal := if isDeleted flags then [] else entryVal
  let h := putBasic ts c.txn flags
  let h := if c.pad then (h.set Gen.numExtraOffsetLow 1) ++ [0, 0, 0, 0, 0, 0, 0, 0] else h
  h ++ entryVal

/-- `NativeIterator.entryDeleted`: will `addHeader` store this entry as deleted? -/
def entryDeleted (c : Cfg) (e : KV) : Bool :=
  isDeleted (maskedFlags e) || (e.val.length = 0 && c.fv < 2)

/-- `NativeIterator.Merge`; `old = []` is "not in destination db" (`len(oldval) == 0`). -/
def merge (c : Cfg) (e : KV) (old : Bytes) : Except Header.Err (Option Bytes) :=
  if old.length = 0 then
    if entryDeleted c e ∧ e.ts < c.cutoff then .ok none
    else .ok (some (addHeader c e.val e.ts (maskedFlags e)))
  else
    match parse old with
    | .error err => .error err
    | .ok (h, appVal) =>
      let oldTS := h.ts
      let deletionOfLive := entryDeleted c e ∧ ¬ isDeleted h.flags
      if e.ts = 0 ∧ appVal = e.val ∧ ¬ deletionOfLive then .ok (some old)
      else
        let newTS := if e.ts = 0 then c.defTs else e.ts
        if newTS < oldTS then .ok (some old)
        else if newTS = oldTS ∧ (bcmp appVal e.val < 0 ∨ (bcmp appVal e.val = 0 ∧ ¬ deletionOfLive)) then
          .ok (some old)
        else .ok (some (addHeader c e.val newTS (maskedFlags e)))

/-- `NativeIterator.Clean` -/
def clean (c : Cfg) (old : Bytes) : Except Header.Err (Option Bytes) :=
  match parse old with
  | .error err => .error err
  | .ok (h, _) =>
    if isDeleted h.flags then .ok (some old)
    else .ok (some (addHeader c [] 0 (UInt8.ofNat Gen.flagDeleted)))

/-- `PlainIterator.Merge`: the entry's value, `nil` when empty -/
def plainMerge (e : KV) : Option Bytes := if e.val.length = 0 then none else some e.val

/-- `PlainIterator.Clean` -/
def plainClean : Option Bytes := none

end Ls.Merge
