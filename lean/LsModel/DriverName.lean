import LsModel.DriverUtil
import LsModel.Name
/- driver operations: snapshot names, name timestamps, the instance-id sanitiser, and the
   executable predicates of C15 (the same predicates the harness evaluates on the
   implementation). Strings travel hex-encoded; a list of strings is `[h1,h2,…]` (`[]` empty,
   `-` inside the brackets is the empty string). -/
namespace Ls.Drv
open Ls Ls.Civil Ls.Name

def hexListArg (s : String) : Option (List Bytes) :=
  if s.length < 2 || s.front != '[' || s.back != ']' then none
  else
    let inner := ((s.drop 1).dropEnd 1).toString
    if inner == "" then some []
    else (inner.split (· == ',')).toList.mapM (fun t => hexArg t.toString)

def hexListOut (l : List Bytes) : String :=
  "[" ++ ",".intercalate (l.map hexOut) ++ "]"

def asciiStr (b : Bytes) : String := String.ofList (b.map (fun c => Char.ofNat c.toNat))

def sgn (i : Int) : String := if i < 0 then "lt" else if i = 0 then "eq" else "gt"

def natCmp (a b : Nat) : Int := if a < b then -1 else if a = b then 0 else 1

def allSafe (b : Bytes) : Bool := b.all isSafe

def two63n : Nat := 9223372036854775808

/-- insertion sort by `bcmp` (the listing order of the blob store) -/
def insertSorted (x : Bytes × Nat) : List (Bytes × Nat) → List (Bytes × Nat)
  | [] => [x]
  | y :: ys => if bcmp x.1 y.1 ≤ 0 then x :: y :: ys else y :: insertSorted x ys

def sortNames (l : List (Bytes × Nat)) : List (Bytes × Nat) := l.foldr insertSorted []

def isPrefix : Bytes → Bytes → Bool
  | [], _ => true
  | _ :: _, [] => false
  | a :: as, b :: bs => a == b && isPrefix as bs

def opName (op : String) (a : List String) : Option String :=
  match op, a with
  | "name.ts", [t] => do
    let t ← natArg t
    if t ≥ two63n then pure "err range" else
    pure s!"ok {asciiStr (nameTimestamp t)}"
  | "name.build", [db, inst, gen, extras, t, ext] => do
    let t ← natArg t
    if t ≥ two63n then pure "err range" else
    pure s!"ok {hexOut (buildName (← hexArg db) (← hexArg inst) (← hexArg gen) (← hexListArg extras) t (← hexArg ext))}"
  | "name.buildts", [db, inst, tss, gen, extras, ext] => do
    let tss ← hexArg tss
    if tss.isEmpty then pure "err empty-ts" else
    pure s!"ok {hexOut (buildNameTs (← hexArg db) (← hexArg inst) tss (← hexArg gen) (← hexListArg extras) (← hexArg ext))}"
  | "name.parse", [n] => do
    let n ← hexArg n
    match parseName n with
    | .error e => pure s!"err {e.cls}"
    | .ok ni =>
      pure s!"ok {hexOut ni.db} {hexOut ni.inst} {hexOut ni.tss} {hexOut ni.gen} {hexListOut ni.extras} {hexOut ni.ext} {hexOut ni.kind} {toNanos ni.time}"
  | "name.sanitize", [n] => do
    let n ← hexArg n
    -- instanceID() substitutes the hostname for an empty name: not a sanitiser input
    if n.isEmpty then pure "err empty" else
    pure s!"ok {hexOut (sanitize n)}"
  -- C15_roundtrip on one input: build, parse, compare every component and the timestamp
  | "prop.c15.roundtrip", [db, inst, gen, extras, t, ext] => do
    let db ← hexArg db; let inst ← hexArg inst; let gen ← hexArg gen
    let extras ← hexListArg extras; let t ← natArg t; let ext ← hexArg ext
    if t ≥ two63n || !(allSafe db && allSafe inst && allSafe gen && extras.all allSafe) || (lookupExt ext).isNone then
      pure "ok pre-false"
    else
      let n := buildName db inst gen extras t ext
      match parseName n with
      | .error e => pure s!"FAIL roundtrip parse-error {e.cls} name={hexOut n}"
      | .ok ni =>
        if ni.db == db && ni.inst == inst && ni.gen == gen && ni.extras == extras && ni.ext == ext
            && ni.tss == nameTimestamp t && toNanos ni.time == (t : Int) && ni.fullName == n
            && some ni.kind == lookupExt ext then pure "ok"
        else pure s!"FAIL roundtrip components-differ name={hexOut n}"
  -- C15_order on one pair: byte order of the names = order of the timestamps, whatever follows
  | "prop.c15.order", [db, inst, g1, e1, t1, g2, e2, t2] => do
    let db ← hexArg db; let inst ← hexArg inst
    let g1 ← hexArg g1; let e1 ← hexListArg e1; let t1 ← natArg t1
    let g2 ← hexArg g2; let e2 ← hexListArg e2; let t2 ← natArg t2
    let ext := strBytes Gen.defaultExtension
    if t1 ≥ two63n || t2 ≥ two63n || !(allSafe db && allSafe inst) then pure "ok pre-false" else
    let n1 := buildName db inst g1 e1 t1 ext
    let n2 := buildName db inst g2 e2 t2 ext
    let c := bcmp n1 n2
    if t1 ≠ t2 then
      if c == natCmp t1 t2 then pure s!"ok {sgn c}" else pure s!"FAIL order t1={t1} t2={t2} names-compare={sgn c}"
    else if g1 == g2 && e1 == e2 then
      if c == 0 then pure "ok eq" else pure s!"FAIL order equal-inputs names-compare={sgn c}"
    else pure "ok same-ts"
  -- C15_last_is_newest on one listing: sort the names bytewise, the last one carries the
  -- largest timestamp
  | "prop.c15.listing", [db, inst, ts] => do
    let db ← hexArg db; let inst ← hexArg inst
    let ts ← (listArg ts ',').mapM natArg
    let ext := strBytes Gen.defaultExtension
    if ts.isEmpty || ts.any (· ≥ two63n) || !(allSafe db && allSafe inst) then pure "ok pre-false" else
    let sorted := sortNames (ts.map fun t => (buildName db inst [71, 88] [] t ext, t))
    let mx := ts.foldl max 0
    match sorted.getLast? with
    | none => pure "ok pre-false"
    | some (_, t) => if t == mx then pure s!"ok {t}" else pure s!"FAIL listing last={t} newest={mx}"
  -- C15_no_foreign on one input: a name of database d2 never carries the prefix of d1 ≠ d2
  | "prop.c15.foreign", [d1, d2, inst, t] => do
    let d1 ← hexArg d1; let d2 ← hexArg d2; let inst ← hexArg inst; let t ← natArg t
    if t ≥ two63n || !(allSafe d1 && allSafe d2) || d1 == d2 then pure "ok pre-false" else
    let n := buildName d2 inst [71, 88] [] t (strBytes Gen.defaultExtension)
    if isPrefix (d1 ++ uu) n then pure s!"FAIL foreign name={hexOut n}" else pure "ok"
  -- what an accepted name looks like: rebuilding the parsed components gives the name back
  | "prop.c15.parsed", [n] => do
    let n ← hexArg n
    match parseName n with
    | .error _ => pure "ok rejected"
    | .ok ni =>
      if buildNameTs ni.db ni.inst ni.tss ni.gen ni.extras ni.ext == n && ni.tss.length == 25
          && (lookupExt ni.ext).isSome then pure "ok accepted"
      else pure s!"FAIL parsed rebuild-differs"
  -- not part of the C15 streams (see C15_foreign_noncanonical_witness): is the timestamp string of
  -- an accepted name the one NameTimestamp prints for the parsed time?
  | "prop.c15.canonical", [n] => do
    let n ← hexArg n
    match parseName n with
    | .error _ => pure "ok rejected"
    | .ok ni =>
      if formatCivil ni.time == ni.tss then pure "ok canonical"
      else pure s!"FAIL noncanonical tss={asciiStr ni.tss} reformatted={asciiStr (formatCivil ni.time)}"
  -- C15_sanitise on one input
  | "prop.c15.sanitize", [n] => do
    let n ← hexArg n
    let s := sanitize n
    if !allSafe s then pure "FAIL sanitize unsafe-output"
    else if sanitize s != s then pure "FAIL sanitize not-idempotent"
    else if allSafe n && s != n then pure "FAIL sanitize changed-safe-input"
    else pure s!"ok {if s == n then "same" else "changed"}"
  | _, _ => none

end Ls.Drv
