import LsModel.DriverUtil
import LsModel.DriverState
/- driver operations: transaction level (stateful: environments by id) -/
namespace Ls.Drv
open Ls Ls.Lmdb Ls.Merge Ls.Txn

def splitOn (s : String) (c : Char) : List String := (s.split (· == c)).toList.map (·.toString)

def kvsOut (kvs : KVs) : String :=
  if kvs.isEmpty then "-" else ";".intercalate (kvs.map fun (k, v) => s!"{hexOut k}={hexOut v}")

def envOut (e : Env) : String :=
  let ds := e.dbis.map fun d => s!"{hexOut d.name}:{d.flags}:{kvsOut d.kvs}"
  (if ds.isEmpty then "-" else "|".intercalate ds) ++ s!" T{e.lastTxn}"

def entOut (e : KV) : String := s!"{hexOut e.key}={hexOut e.val}@{e.ts}@{e.flags}"

def snapOut (s : Snap) : String :=
  let ds := s.dbs.map fun d =>
    s!"{hexOut d.name}:{d.flags}:{hexOut d.transform}:{if d.entries.isEmpty then "-" else ";".intercalate (d.entries.map entOut)}"
  s!"{s.fv},{s.cv},{if ds.isEmpty then "-" else "|".intercalate ds}"

def parseEntry (s : String) : Option KV :=
  match splitOn s '@' with
  | [kv, ts, fl] =>
    match splitOn kv '=' with
    | [k, v] => do pure { key := ← hexArg k, val := ← hexArg v, ts := ← natArg ts, flags := ← natArg fl }
    | _ => none
  | _ => none

def parseDbiMsg (s : String) : Option DbiMsg :=
  match splitOn s ':' with
  | [n, fl, tr, es] => do
    pure { name := ← hexArg n, flags := ← natArg fl, transform := ← hexArg tr,
           entries := ← (listArg es ';').mapM parseEntry }
  | _ => none

def parseSnap (s : String) : Option Snap :=
  match splitOn s ',' with
  | [fv, cv, dbs] => do
    pure { fv := ← natArg fv, cv := ← natArg cv, dbs := ← (listArg dbs '|').mapM parseDbiMsg }
  | _ => none

def parseAppOp (s : String) : Option AppOp :=
  match splitOn s ':' with
  | ["c", n, fl] => do pure (.create (← hexArg n) (← natArg fl))
  | ["p", n, k, v] => do pure (.put (← hexArg n) (← hexArg k) (← hexArg v))
  | ["d", n, k] => do pure (.del (← hexArg n) (← hexArg k))
  | _ => none

def parseOverride (s : String) : Option (List (Bytes × Nat)) :=
  (listArg s ',').mapM fun p =>
    match splitOn p '=' with
    | [n, fl] => do pure (← hexArg n, ← natArg fl)
    | _ => none

def opTxnCore (op : String) (a : List String) (st : DrvState) : Option (DrvState × String) :=
  match op, a with
  | "clock.reset", [] => some ({ st with envs := [] }, "ok")
  | "env.new", [id, native, hack, pad, ro, ovr] => do
    let native ← boolArg native
    let hack ← boolArg hack
    let pad ← boolArg pad
    let ro ← boolArg ro
    let ovr ← parseOverride ovr
    let cfg : Txn.Cfg := { native := native, hack := hack, pad := pad, receiveOnly := ro, override := ovr }
    pure (st.setEnv id { cfg := cfg, env := { dbis := [], lastTxn := 0 } }, "ok")
  | "env.app", [id, ops] => do
    let i ← st.getEnv id
    let ops ← (listArg ops ',').mapM parseAppOp
    match appTxn i.env ops with
    | none => pure (st, "err app")
    | some e => pure (st.setEnv id { i with env := e }, s!"ok T{e.lastTxn}")
  | "env.dump", [id] => do
    let i ← st.getEnv id
    pure (st, s!"ok {envOut i.env}")
  | "txn.load", [id, snap, lastSynced, now, cutoff] => do
    let i ← st.getEnv id
    let snap ← parseSnap snap
    let ls ← relTxn i lastSynced
    match loadOnce i.cfg i.env snap ls (← natArg now) (← natArg cutoff) with
    | .error e => pure (st, s!"err {e.cls}")
    | .ok r => pure (st.setEnv id { i with env := r.env, lastRet := if r.localChanged then i.lastRet else r.txnID },
        s!"ok {r.txnID} {if r.localChanged then "1" else "0"} T{r.env.lastTxn}")
  | "txn.send", [id, now, cutoff] => do
    let i ← st.getEnv id
    match sendOnce i.cfg i.env (← natArg now) (← natArg cutoff) with
    | .error e => pure (st, s!"err {e.cls}")
    | .ok r => pure (st.setEnv id { i with env := r.env, lastRet := r.txnID }, s!"ok {r.txnID} T{r.env.lastTxn} {snapOut r.snap}")
  | "txn.m2s", [id, now, cutoff] => do
    let i ← st.getEnv id
    let w : W := { dbis := i.env.dbis, dirty := false }
    match mainToShadow i.cfg w (i.env.lastTxn + 1) (← natArg now) (← natArg cutoff) with
    | .error e => pure (st, s!"err {e.cls}")
    | .ok w' =>
      let e := commit i.env w'
      pure (st.setEnv id { i with env := e }, s!"ok T{e.lastTxn}")
  | "txn.s2m", [id] => do
    let i ← st.getEnv id
    let w : W := { dbis := i.env.dbis, dirty := false }
    match shadowToMain i.cfg w with
    | .error e => pure (st, s!"err {e.cls}")
    | .ok w' =>
      let e := commit i.env w'
      pure (st.setEnv id { i with env := e }, s!"ok T{e.lastTxn}")
  -- property ops: the same transitions; the predicates are theorems on this side
  | "prop.c18.load", [id, snap, lastSynced, now, cutoff] => do
    let i ← st.getEnv id
    let snap ← parseSnap snap
    let ls ← relTxn i lastSynced
    match loadOnce i.cfg i.env snap ls (← natArg now) (← natArg cutoff) with
    | .error _ => pure (st, "ok refused")
    | .ok r => pure (st.setEnv id { i with env := r.env }, "ok applied")
  | "prop.c18.cancel", [id, _snap, _lastSynced, _now, _cutoff, _k] => do
    -- (the implementation could not even build the snapshot from the token)
    let _ ← st.getEnv id
    pure (st, "err snapshot-arg")
  | "prop.c18.cancel", [id, snap, lastSynced, now, cutoff, _k, outcome] => do
    -- cancellation inside LoadOnce: the implementation says whether the load failed (nothing
    -- changes: C18_all_or_nothing) or went through (then it is the complete load)
    let i ← st.getEnv id
    let snap ← parseSnap snap
    let ls ← relTxn i lastSynced
    if outcome == "refused" then pure (st, "ok refused") else
    match loadOnce i.cfg i.env snap ls (← natArg now) (← natArg cutoff) with
    | .error _ => pure (st, "FAIL model-refuses-what-the-code-merged")
    | .ok r => pure (st.setEnv id { i with env := r.env, lastRet := if r.localChanged then i.lastRet else r.txnID }, "ok applied")
  | "prop.c01.load", [id, snap, lastSynced, now, cutoff] => do
    -- (no invention: C01_content_is_written / C01_load_refines_native on this side)
    let i ← st.getEnv id
    if !i.cfg.native then none else
    let snap ← parseSnap snap
    let ls ← relTxn i lastSynced
    match loadOnce i.cfg i.env snap ls (← natArg now) (← natArg cutoff) with
    | .error _ => pure (st, "ok refused")
    | .ok r => pure (st.setEnv id { i with env := r.env }, "ok applied")
  | "prop.c04.load", [id, snap, lastSynced, now, cutoff] => do
    let i ← st.getEnv id
    let snap ← parseSnap snap
    let ls ← relTxn i lastSynced
    let cutoff ← natArg cutoff
    match loadOnce i.cfg i.env snap ls (← natArg now) cutoff with
    | .error _ => pure (st, "ok refused")
    | .ok r =>
      let has (e : Env) (target k : Bytes) : Bool :=
        match findDbi e.dbis target with
        | some d => d.kvs.any fun p => p.1 == k
        | none => false
      let hasMarker (e : Env) (target k : Bytes) : Bool :=
        match findDbi e.dbis target with
        | some d => d.kvs.any fun p => p.1 == k && (match Header.parse p.2 with | .ok (h, _) => Header.isDeleted h.flags | _ => false)
        | none => false
      let res := snap.dbs.foldl (fun (acc : Nat × Nat × Option String) m =>
        if isPrivate m.name || m.transform != [] then acc else
        let target := if i.cfg.native then m.name else shadowName m.name
        m.entries.foldl (fun (acc : Nat × Nat × Option String) e =>
          let del := e.flags % 2 == 1 || (e.val.length == 0 && snap.fv < 2)
          let once := ((snap.dbs.filter fun m2 => m2.name == m.name).foldl
            (fun n m2 => n + (m2.entries.filter fun x => x.key == e.key).length) 0) == 1
          if !del || !once || has i.env target e.key then acc else
          let old := e.ts < 100000000000000000
          if old && cutoff != 0 then
            (if hasMarker r.env target e.key then (acc.1, acc.2.1, some "FAIL stale-deletion-marker-re-created") else (acc.1 + 1, acc.2.1, acc.2.2))
          else if !has r.env target e.key then (acc.1, acc.2.1, some "FAIL deletion-marker-not-stored")
          else (acc.1, acc.2.1 + 1, acc.2.2)) acc) (0, 0, none)
      let st' := st.setEnv id { i with env := r.env }
      match res.2.2 with
      | some f => pure (st', f)
      | none => pure (st', s!"ok refused={res.1} stored={res.2.1}")
  | "prop.c11.load", [id, snap, lastSynced, now, cutoff] => do
    let i ← st.getEnv id
    if i.cfg.native then none else
    let snap ← parseSnap snap
    let ls ← relTxn i lastSynced
    match loadOnce i.cfg i.env snap ls (← natArg now) (← natArg cutoff) with
    | .error _ => pure (st, "ok refused")
    | .ok r => pure (st.setEnv id { i with env := r.env, lastRet := if r.localChanged then i.lastRet else r.txnID }, "ok mirrored")
  | "prop.c10.reload", [id, snap, now1, now2] => do
    let i ← st.getEnv id
    let snap ← parseSnap snap
    match loadOnce i.cfg i.env snap i.env.lastTxn (← natArg now1) 0 with
    | .error _ => pure (st, "ok refused")
    | .ok r1 =>
      let dup := r1.env.dbis.any fun d => !isPrivate d.name && isDupSort d.flags
      match loadOnce i.cfg r1.env snap r1.txnID (← natArg now2) 0 with
      | .error _ => pure (st.setEnv id { i with env := r1.env }, "FAIL second-load-failed")
      | .ok r2 =>
        let st' := st.setEnv id { i with env := r2.env }
        if r2.localChanged then pure (st', "FAIL no-op-merge-reported-local-change")
        else if dup then
          (if r2.env.dbis = r1.env.dbis ∧ r2.txnID = r2.env.lastTxn then pure (st', "ok noop-dupsort")
           else pure (st', "FAIL no-op-merge-changed-content"))
        else if r2.env = r1.env ∧ r2.txnID = r1.txnID then pure (st', "ok noop")
        else pure (st', "FAIL no-op-merge-wrote")
  | "prop.c06.send", [id, now, cutoff] => do
    let i ← st.getEnv id
    match sendOnce i.cfg i.env (← natArg now) (← natArg cutoff) with
    | .error e => pure (st, s!"ok refused {e.cls}")
    | .ok r => pure (st.setEnv id { i with env := r.env, lastRet := r.txnID }, "ok complete")
  | _, _ => none
where
  relTxn (i : Inst) (s : String) : Option Nat :=
    match s with
    | "T" => some i.env.lastTxn
    | "T-1" => some (i.env.lastTxn - 1)
    | "T+1" => some (i.env.lastTxn + 1)
    | "R" => some i.lastRet
    | s => natArg s

/-- derived operations (an abbreviation, or an application commit followed by a core operation) -/
def opTxn (op : String) (a : List String) (st : DrvState) : Option (DrvState × String) :=
  match op, a with
  | "env.new", [id, native, hack, pad, ro, ovr, _sw] =>
    -- "sw": the tomb sweeper is configured; the cut-off it implies is an argument of every
    -- transaction op
    opTxnCore "env.new" [id, native, hack, pad, ro, ovr] st
  | "txn.loadheld", [id, snap, lastSynced, now, cutoff, ops] => do
    -- the application commits while LoadOnce waits for the write lock: the commit comes first
    -- (lastSynced is read off the state before it, as the caller did)
    let i ← st.getEnv id
    if i.cfg.native then none else
    let ls ← opTxnCore.relTxn i lastSynced
    let ops ← (listArg ops ',').mapM parseAppOp
    let env1 := (appTxn i.env ops).getD i.env
    opTxnCore "txn.load" [id, snap, toString ls, now, cutoff] (st.setEnv id { i with env := env1 })
  | "txn.sendheld", [id, now, cutoff, ops] => do
    let i ← st.getEnv id
    if i.cfg.native then none else
    let ops ← (listArg ops ',').mapM parseAppOp
    let env1 := (appTxn i.env ops).getD i.env
    opTxnCore "txn.send" [id, now, cutoff] (st.setEnv id { i with env := env1 })
  | _, _ => opTxnCore op a st

end Ls.Drv
