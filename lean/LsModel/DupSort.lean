import LsModel.Merge
/-
  syncer/dupsorthack.go : dupSortHackEncodeOne / DecodeOne / Encode (over DBI.Map).
-/
namespace Ls.DupSort
open Ls Ls.Merge

inductive Err where
  | emptyKey | keyTooLong | invalid | notUnique | reverseOrder
  deriving Repr, DecidableEq

def maxKey : Nat := Gen.lmdbMaxKeySize           -- 511
def hackMaxKey : Nat := Gen.dupSortHackMaxKeySize -- 255

/-- `dupSortHackEncodeOne`: key ++ 0000 ++ (as much of the value as fits) ++ [len key].
    The result's timestamp is not copied (zero value), as in the Go code. -/
def encodeOne (e : KV) : Except Err KV :=
  if e.key.length = 0 then .error .emptyKey
  else if e.key.length > hackMaxKey then .error .keyTooLong
  else
    let k := e.key ++ [0, 0, 0, 0]
    let remaining := maxKey - k.length - 1
    .ok { key := k ++ e.val.take remaining ++ [UInt8.ofNat e.key.length], val := e.val,
          ts := 0, flags := e.flags }

/-- `dupSortHackDecodeOne` -/
def decodeOne (e : KV) : Except Err KV :=
  if e.key.length < 6 then .error .invalid
  else
    let keyLen := (e.key.getLast?.getD 0).toNat
    if e.key.length < keyLen + 5 then .error .invalid
    else if e.key.getD keyLen 1 ≠ 0 ∨ e.key.getD (keyLen + 1) 1 ≠ 0 ∨ e.key.getD (keyLen + 2) 1 ≠ 0
         ∨ e.key.getD (keyLen + 3) 1 ≠ 0 then .error .invalid
    else .ok { key := e.key.take keyLen, val := e.val, ts := 0, flags := e.flags }

/-- `dupSortHackEncode`: encode every entry, refusing equal or decreasing encoded keys -/
def encodeAllAux (prev : Bytes) : List KV → Except Err (List KV)
  | [] => .ok []
  | e :: rest =>
    match encodeOne e with
    | .error err => .error err
    | .ok kv =>
      if bcmp prev kv.key = 0 then .error .notUnique
      else if bcmp prev kv.key > 0 then .error .reverseOrder
      else match encodeAllAux kv.key rest with
        | .error err => .error err
        | .ok r => .ok (kv :: r)

def encodeAll (l : List KV) : Except Err (List KV) := encodeAllAux [] l

def decodeAll (l : List KV) : Except Err (List KV) := l.mapM decodeOne

end Ls.DupSort
