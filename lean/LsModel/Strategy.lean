import LsModel.Lmdb
/-
  lmdbenv/strategy : Update, IterUpdate (with iterBoth), EmptyPut (with doPut), setNewVal.
  Generic in the iterator (any merge / clean decision functions).
-/
namespace Ls.Strategy
open Ls Ls.Lmdb

/-- the `strategy.Iterator` interface seen from a strategy: entries in iteration order, each
    with its key, a merge decision depending on the stored value (`[]` = not found / nil), and a
    clean decision for stored values. Go `nil` results are `none`. -/
structure Iter (E ε : Type) where
  key : E → Bytes
  merge : E → Bytes → Except ε (Option Bytes)
  clean : Bytes → Except ε (Option Bytes)

inductive SErr (ε : Type) where
  | iter (e : ε)        -- the iterator's Merge / Clean returned an error
  | notSorted           -- ErrNotSorted
  | badKey              -- LMDB refused the key (MDB_BAD_VALSIZE)
  | hang                -- fuel exhausted (unreachable; proved in LsLemmas)
  | panic               -- iterBoth's `prevKey[:len(itKey)]` with a key longer than its 511-byte buffer
  deriving Repr

/-- DBI content plus "has this transaction written anything" -/
structure S where
  db : KVs
  dirty : Bool
  deriving Repr, DecidableEq

def liftIter {ε α} : Except ε α → Except (SErr ε) α
  | .ok a => .ok a
  | .error e => .error (.iter e)

def putS {ε} (ik : Bool) (s : S) (k v : Bytes) : Except (SErr ε) S :=
  if badKey k then .error .badKey else .ok { db := put ik s.db k v, dirty := true }

def delS (ik : Bool) (s : S) (k : Bytes) : S :=
  let (db', found) := del ik s.db k
  { db := db', dirty := s.dirty || found }

/-- `setNewVal`: empty/nil new value deletes the key, an unchanged value writes nothing -/
def setNewVal {ε} (ik : Bool) (s : S) (key oldVal : Bytes) (newVal : Option Bytes) : Except (SErr ε) S :=
  match newVal with
  | none => .ok (delS ik s key)
  | some v =>
    if v.length = 0 then .ok (delS ik s key)
    else if v = oldVal then .ok s
    else putS ik s key v

/-- `strategy.Update` -/
def update {E ε} (ik : Bool) (it : Iter E ε) (s : S) (input : List E) : Except (SErr ε) S :=
  input.foldlM (fun s e => do
    let key := it.key e
    if key.length = 0 then throw .badKey     -- txn.Get refuses an empty key (a too long one is just not found)
    let dbv := (get ik s.db key).getD []
    let val ← liftIter (it.merge e dbv)
    setNewVal ik s key dbv val) s

/-- the callback of `IterUpdate` for a stored entry without matching input (`itEOF || itKey == nil`) -/
def cbClean {E ε} (ik : Bool) (it : Iter E ε) (s : S) (dbKey dbVal : Bytes) : Except (SErr ε) S := do
  let val ← liftIter (it.clean dbVal)
  match val with
  | none => pure (delS ik s dbKey)
  | some v => if v = dbVal then pure s else putS ik s dbKey v

/-- the callback for an input entry without stored counterpart (db EOF or iterator behind) -/
def cbInsert {E ε} (ik : Bool) (it : Iter E ε) (s : S) (e : E) : Except (SErr ε) S := do
  let val ← liftIter (it.merge e [])
  match val with
  | none => pure s
  | some v => if v.length = 0 then pure s else putS ik s (it.key e) v

/-- the callback for equal keys; note the Go code first calls `Merge(nil)` and then `Merge(dbVal)` -/
def cbBoth {E ε} (ik : Bool) (it : Iter E ε) (s : S) (e : E) (dbVal : Bytes) : Except (SErr ε) S := do
  let _ ← liftIter (it.merge e [])
  let val ← liftIter (it.merge e dbVal)
  match val with
  | none => pure (delS ik s (it.key e))
  | some v =>
    if v.length = 0 then pure (delS ik s (it.key e))
    else if v = dbVal then pure s
    else putS ik s (it.key e) v

/-- `iterBoth` driving the `IterUpdate` callback. `dbs` is the key sequence the cursor
    enumerates (the content at the start: the callback only puts at/behind and deletes at the
    cursor). `prev` is the previous iterator key (`none` before the first one). -/
def iuLoop {E ε} (ik : Bool) (it : Iter E ε) :
    Nat → Option Bytes → Option E → List E → Option (Bytes × Bytes) → KVs → S → Except (SErr ε) S
  | 0, _, _, _, _, _, _ => .error .hang
  | fuel + 1, prev, itCur, its, dbCur, dbs, s =>
    -- next iterator key if needed (with the sortedness check)
    let fetched : Except (SErr ε) (Option Bytes × Option E × List E) :=
      match itCur, its with
      | none, x :: xs =>
        -- sortedness check; empty keys keep failing it (they compare equal to the initial empty prevKey)
        if (prev.isSome ∨ (it.key x).length = 0) ∧ kcmp ik (prev.getD []) (it.key x) ≥ 0 then .error .notSorted
        else if (it.key x).length > Gen.strategyMaxKeySize then .error .panic
        else .ok (some (it.key x), some x, xs)
      | c, r => .ok (prev, c, r)
    match fetched with
    | .error e => .error e
    | .ok (prev, itCur, its) =>
      -- next LMDB key if needed
      let (dbCur, dbs) : Option (Bytes × Bytes) × KVs :=
        match dbCur, dbs with
        | none, y :: ys => (some y, ys)
        | c, r => (c, r)
      match itCur, dbCur with
      | none, none => .ok s
      | none, some (dk, dv) => do
        let s ← cbClean ik it s dk dv
        iuLoop ik it fuel prev none its none dbs s
      | some e, none => do
        let s ← cbInsert ik it s e
        iuLoop ik it fuel prev none its none dbs s
      | some e, some (dk, dv) =>
        let c := kcmp ik dk (it.key e)
        if c < 0 then do
          let s ← cbClean ik it s dk dv
          iuLoop ik it fuel prev (some e) its none dbs s
        else if c = 0 then do
          let s ← cbBoth ik it s e dv
          iuLoop ik it fuel prev none its none dbs s
        else do
          let s ← cbInsert ik it s e
          iuLoop ik it fuel prev none its (some (dk, dv)) dbs s

/-- `strategy.IterUpdate` -/
def iterUpdate {E ε} (ik : Bool) (it : Iter E ε) (s : S) (input : List E) : Except (SErr ε) S :=
  iuLoop ik it (input.length + s.db.length + 1) none none input none s.db s

/-- `doPut(…, isEmpty = true)` on an ordinary or a duplicate-keys DBI -/
def doPutEmpty {E ε} (ik dup : Bool) (it : Iter E ε) (s : S) (input : List E) : Except (SErr ε) S :=
  input.foldlM (fun s e => do
    let val ← liftIter (it.merge e [])
    match val with
    | none => pure s
    | some v =>
      if v.length = 0 then pure s
      else if badKey (it.key e) then throw .badKey
      else if dup then pure { db := putDup s.db (it.key e) v, dirty := true }
      else pure { db := put ik s.db (it.key e) v, dirty := true }) s

/-- `strategy.EmptyPut`: drop the content (always recorded by LMDB), then put everything -/
def emptyPut {E ε} (ik dup : Bool) (it : Iter E ε) (_s : S) (input : List E) : Except (SErr ε) S :=
  doPutEmpty ik dup it { db := [], dirty := true } input

end Ls.Strategy
