import LsModel.DriverUtil
import LsModel.Codec
import LsModel.PbSpec
/-
  driver operations for the snapshot codec (C07, C08).

  Canonical text form of a snapshot (four tokens, no spaces inside a token):
      <formatVersion> <compatVersion> <meta> <dbis>
      meta  = gen/inst/host/lmdbTxnID/timestampNano/dbname/fromLmdbTxnID   (strings hex, "-" = empty)
      dbis  = "-" | dbi;dbi;…       dbi = name:flags:transform:entries
      entries = "-" | e,e,…         e = key/val/ts/flags
-/
namespace Ls.Drv
open Ls Ls.Wire Ls.Codec

def kvStr (kv : KV) : String := s!"{hexOut kv.key}/{hexOut kv.val}/{kv.ts}/{kv.flags}"

def joinWith (sep : String) (l : List String) : String :=
  if l.isEmpty then "-" else sep.intercalate l

def entriesStr (es : List KV) : String := joinWith "," (es.map kvStr)

def hdrStr (h : DBIHdr) : String := s!"{hexOut h.name}:{h.flags}:{hexOut h.transform}"

def dbiStr (d : DBI') : String :=
  s!"{hexOut d.name}:{d.flags}:{hexOut d.transform}:{entriesStr d.entries}"

def metaStr (m : Meta) : String :=
  s!"{hexOut m.generationID}/{hexOut m.instanceID}/{hexOut m.hostname}/{m.lmdbTxnID}/{m.timestampNano}/{hexOut m.databaseName}/{m.fromLmdbTxnID}"

def snapStr (s : Snapshot') : String :=
  s!"{s.formatVersion} {s.compatVersion} {metaStr s.info} {joinWith ";" (s.dbis.map dbiStr)}"

def splitOnW (s : String) (sep : Char) : List String :=
  (s.split (· == sep)).toList.map (·.toString)

def intArgW (s : String) : Option Int := s.toInt?

def parseKVTok (t : String) : Option KV :=
  match splitOnW t '/' with
  | [k, v, ts, fl] => do
    pure { key := ← hexArg k, val := ← hexArg v, ts := ← natArg ts, flags := ← natArg fl }
  | _ => none

def parseEntries (t : String) : Option (List KV) :=
  if t == "-" then some [] else (splitOnW t ',').mapM parseKVTok

def parseDBITok (t : String) : Option DBI' :=
  match splitOnW t ':' with
  | [n, fl, tr, es] => do
    pure { name := ← hexArg n, flags := ← natArg fl, transform := ← hexArg tr, entries := ← parseEntries es }
  | _ => none

def parseMetaTok (t : String) : Option Meta :=
  match splitOnW t '/' with
  | [g, i, h, txn, ts, dn, from'] => do
    pure { generationID := ← hexArg g, instanceID := ← hexArg i, hostname := ← hexArg h,
           lmdbTxnID := ← intArgW txn, timestampNano := ← natArg ts, databaseName := ← hexArg dn,
           fromLmdbTxnID := ← intArgW from' }
  | _ => none

def parseSnapW (fv cv m ds : String) : Option Snapshot' := do
  let dbis ← if ds == "-" then some [] else (splitOnW ds ';').mapM parseDBITok
  pure { formatVersion := ← natArg fv, compatVersion := ← natArg cv, info := ← parseMetaTok m, dbis := dbis }

def outcomeStr {α : Type} (f : α → String) : Outcome α → String
  | .ok a => s!"ok {f a}"
  | .err e => s!"err {e.cls}"
  | .panic => "err panic"
  | .hang => "err hang"

def hasEmptyKey (s : Snapshot') : Bool := s.dbis.any fun d => d.entries.any fun e => e.key.isEmpty

/-- bytes of decoded content that alias the input (strings, keys, values) -/
def contentSize (s : Snapshot') : Nat :=
  s.info.generationID.length + s.info.instanceID.length + s.info.hostname.length + s.info.databaseName.length
  + (s.dbis.map fun d => d.name.length + d.transform.length
      + (d.entries.map fun e => e.key.length + e.val.length).sum).sum

def opWire (op : String) (a : List String) : Option String :=
  match op, a with
  | "wire.varint", [h] => do
    let b ← hexArg h
    pure (outcomeStr (fun (p : Nat × Nat) => s!"{p.1} {p.2}") (decodeVarint b))
  | "wire.kv", [h] => do
    let b ← hexArg h
    pure (outcomeStr kvStr (kvUnmarshal b))
  | "wire.dbi.index", [h] => do
    let b ← hexArg h
    pure (outcomeStr hdrStr (indexData b))
  | "wire.dbi.iter", [h] => do
    let b ← hexArg h
    match indexData b with
    | .ok hd =>
      match dbiIter b (b.length + 1) 0 [] with
      | (es, .ok _) => pure s!"ok {hdrStr hd} {entriesStr es}"
      | (es, o) => pure s!"err {o.cls} {es.length}"
    | o => pure (outcomeStr hdrStr o)
  | "wire.snapshot", [h] => do
    let b ← hexArg h
    pure (outcomeStr snapStr (decodeAll b))
  | "wire.encode", [fv, cv, m, ds] => do
    let s ← parseSnapW fv cv m ds
    pure (outcomeStr hexOut (encode s))
  | "pb.parse", [h] => do
    let b ← hexArg h
    match PbSpec.parse b with
    | none => pure "err invalid"
    | some s => pure s!"ok {snapStr s}"
  | "prop.c07.roundtrip", [fv, cv, m, ds] => do
    let s ← parseSnapW fv cv m ds
    match encode s with
    | .ok b =>
      match decodeAll b with
      | .ok s' =>
        if s' ≠ s then pure "FAIL decode-differs"
        else match PbSpec.parse b with
          | none => pure "FAIL reference-rejects"
          | some s'' => if s'' ≠ s then pure "FAIL reference-differs" else pure s!"ok {b.length}"
      | o => pure s!"FAIL decode-{o.cls}"
    | o => pure s!"FAIL encode-{o.cls}"
  | "prop.c07.compat", [h] => do
    let b ← hexArg h
    match PbSpec.parse b with
    | none => pure "ok invalid"
    | some s =>
      if hasEmptyKey s then pure "ok not-lmdb-content"
      else match decodeAll b with
        | .ok s' => if s' = s then pure s!"ok {snapStr s}" else pure "FAIL differs"
        | o => pure s!"FAIL custom-err {o.cls}"
  | "prop.c08.blob", [h] => do
    -- the gzip container is outside the model (trusted base): the line is acknowledged
    let _ ← hexArg h
    pure "ok"
  | "prop.c08.total", [h] => do
    let b ← hexArg h
    match decodeAll b with
    | .ok s => if contentSize s ≤ b.length then pure s!"ok decoded {contentSize s}" else pure "FAIL decoded-larger-than-input"
    | .err e => pure s!"ok rejected {e.cls}"
    | .panic => pure "FAIL panic"
    | .hang => pure "FAIL hang"
  | _, _ => none

end Ls.Drv
