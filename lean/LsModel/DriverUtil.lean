import LsModel.Bytes
namespace Ls.Drv
open Ls

def natArg (s : String) : Option Nat := s.toNat?
def boolArg (s : String) : Option Bool :=
  if s == "1" then some true else if s == "0" then some false else none
def hexArg (s : String) : Option Bytes := fromHex s

def optHex : Option Bytes → String
  | none => "nil"
  | some b => hexOut b

/-- split on a separator, treating "-" or "" as the empty list -/
def listArg (s : String) (sep : Char) : List String :=
  if s == "-" || s == "" then [] else s.split (· == sep) |>.toList |>.map (·.toString)

def strHex (s : String) : String := hexOut s.toUTF8.toList
def hexStr (b : Bytes) : String := String.fromUTF8! (ByteArray.mk b.toArray)

end Ls.Drv
