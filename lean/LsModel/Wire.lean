import LsModel.Bytes
import LsModel.Generated
/-
  Protobuf wire primitives as the Go code uses them:
    csproto.DecodeVarint / EncodeVarint / EncodeTag / SizeOfVarint  (github.com/CrowdStrike/csproto)
    snapshot/utils.go : skipTag
  Go slice expressions are bounds-checked explicitly (failure = `panic`), `int(uint64)` is
  `toInt64` (two's complement), loops whose termination is not syntactically evident take fuel
  (exhaustion = `hang`).  Offsets are `Int` (Go `int`); additions of offsets are exact because the
  offsets are proved to stay within `[0, len]` (LsLemmas/CodecRefine.lean).
-/
namespace Ls.Wire
open Ls

/-- error classes; the harness classifies the Go error with `errors.Is` / `errors.As` -/
inductive Err where
  | varintEmpty   -- csproto.ErrInvalidVarintData
  | eof           -- io.ErrUnexpectedEOF
  | overflow      -- csproto.ErrValueOverflow
  | wireType      -- snapshot.ErrUnexpectedWireType
  | lenOverflow   -- csproto.ErrLenOverflow
  | badTag        -- csproto.ErrInvalidFieldTag
  | other         -- fmt.Errorf without sentinel: "remaining data to short …", "unsupported wire type …"
  deriving DecidableEq, Repr

def Err.cls : Err → String
  | .varintEmpty => "varint-empty"
  | .eof => "eof"
  | .overflow => "overflow"
  | .wireType => "wire-type"
  | .lenOverflow => "len-overflow"
  | .badTag => "bad-tag"
  | .other => "other"

inductive Outcome (α : Type) where
  | ok : α → Outcome α
  | err : Err → Outcome α
  | panic : Outcome α
  | hang : Outcome α
  deriving Repr

def Outcome.bind {α β : Type} (x : Outcome α) (f : α → Outcome β) : Outcome β :=
  match x with
  | .ok a => f a
  | .err e => .err e
  | .panic => .panic
  | .hang => .hang

instance : Monad Outcome where
  pure := .ok
  bind := Outcome.bind

def Outcome.cls {α : Type} : Outcome α → String
  | .ok _ => "ok"
  | .err e => e.cls
  | .panic => "panic"
  | .hang => "hang"

/-- Go `data[off:]`: panics unless `0 ≤ off ≤ len(data)` -/
def sliceFrom (data : Bytes) (off : Int) : Outcome Bytes :=
  if 0 ≤ off ∧ off ≤ data.length then .ok (data.drop off.toNat) else .panic

/-- Go `data[lo:hi]` / `data[lo:hi:hi]`: panics unless `0 ≤ lo ≤ hi ≤ len(data)` (the real bound
    is `cap(data) ≥ len(data)`; the model is the stricter one) -/
def sliceLH (data : Bytes) (lo hi : Int) : Outcome Bytes :=
  if 0 ≤ lo ∧ lo ≤ hi ∧ hi ≤ data.length then .ok ((data.drop lo.toNat).take (hi - lo).toNat)
  else .panic

/-- the loop of `csproto.DecodeVarint` over at most 10 bytes: `k` bytes still allowed, `i` read so
    far, `acc` the value so far.  Bits shifted beyond 64 are dropped silently, as in Go.  Running
    out of bytes is `io.ErrUnexpectedEOF` (only possible when `len(p) < 10`), ten continuation
    bytes are `ErrValueOverflow`. -/
def dvLoop : Nat → Bytes → Nat → Nat → Outcome (Nat × Nat)
  | 0, _, _, _ => .err .overflow
  | _ + 1, [], _, _ => .err .eof
  | k + 1, b :: rest, i, acc =>
    let acc' := (acc + (b.toNat % 128) * 2 ^ (7 * i)) % two64
    if b.toNat < 128 then .ok (acc', i + 1) else dvLoop k rest (i + 1) acc'

/-- `csproto.DecodeVarint`: value and number of bytes consumed -/
def decodeVarint (p : Bytes) : Outcome (Nat × Nat) :=
  match p with
  | [] => .err .varintEmpty
  | b :: _ => if b.toNat < 128 then .ok (b.toNat, 1) else dvLoop 10 p 0 0

/-- the loop of `csproto.EncodeVarint` (`for v >= 1<<7`); a uint64 needs at most 9 continuation
    bytes, so 9 units of fuel are exact -/
def evLoop : Nat → Nat → Bytes
  | 0, v => [UInt8.ofNat v]
  | k + 1, v =>
    if v < 128 then [UInt8.ofNat v] else UInt8.ofNat (v % 128 + 128) :: evLoop k (v / 128)

/-- `csproto.EncodeVarint` of a uint64 -/
def encodeVarint (v : Nat) : Bytes := evLoop 9 (v % two64)

/-- `csproto.EncodeTag`: `(uint64(tag) << 3) | wireType` -/
def encodeTag (tag wt : Nat) : Bytes := encodeVarint (tag * 8 + wt)

/-- `csproto.SizeOfVarint`: `(bits.Len64(v|1) + 6) / 7` -/
def sizeOfVarint (v : Nat) : Nat := (Nat.log2 ((v % two64) ||| 1) + 1 + 6) / 7

/-- `csproto.SizeOfTagKey` -/
def sizeOfTagKey (tag : Nat) : Nat := sizeOfVarint (tag * 8)

def wtVarint : Nat := 0
def wtFixed64 : Nat := 1
def wtLen : Nat := 2
def wtFixed32 : Nat := 5

/-- `snapshot.skipTag` (with the length compared as `uint64` before it is converted) -/
def skipTag (data : Bytes) (wt : Nat) : Outcome Int :=
  let fin (skip : Int) : Outcome Int :=
    if skip > (data.length : Int) then .err .eof else .ok skip
  if wt = wtVarint then
    match decodeVarint data with
    | .ok (_, n) => fin n
    | .err e => .err e
    | .panic => .panic
    | .hang => .hang
  else if wt = wtLen then
    match decodeVarint data with
    | .ok (size, n) =>
      if size > toUInt64 ((data.length : Int) - n) then .err .eof
      else fin (wrapInt64 (toInt64 size + n))
    | .err e => .err e
    | .panic => .panic
    | .hang => .hang
  else if wt = wtFixed32 then fin 4
  else if wt = wtFixed64 then fin 8
  else .err .other

end Ls.Wire
