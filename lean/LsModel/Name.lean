import LsModel.Bytes
import LsModel.Generated
import LsModel.Civil
/-
  snapshot/name.go : NameTimestamp, NameInfo.BuildName, ParseName, registeredExtensions;
  syncer/utils.go  : reUnsafe.ReplaceAllString(n, "-") in instanceID.

  Go strings are byte strings, so every name is modelled as `Bytes` (= `List UInt8`); "byte-wise
  order" is the lexicographic order `<` on `List UInt8`, which is what `sort.Strings` /
  simpleblob's sorted listing use.

  What is modelled by hand from the Go standard library (each has a correspondence stream):
  * `time.Time.Format` and `time.Parse` for the one layout `Gen.timeFormat`
    ("20060102-150405.000000000"): fixed widths, zero padding; the parser accepts exactly what
    Go 1.25's parser accepts for this layout, including its quirk that the nine-character
    fraction is read by `atoi`, which allows a leading sign ("+12345678", "-00000000").
  * `strings.Cut(name, ".")`, `strings.Split(basename, "__")` (leftmost, non-overlapping).
  * `regexp.ReplaceAllString` for the class `Gen.reUnsafe` = "[^a-zA-Z0-9-]": the input is decoded
    rune by rune as `utf8.DecodeRuneInString` does (an invalid byte is one rune of width 1); every
    rune that is not an ASCII letter, digit or '-' becomes one '-'.
  Core Lean only.
-/
namespace Ls.Name
open Ls Ls.Civil

def dash : UInt8 := 45
def dot : UInt8 := 46
def us : UInt8 := 95
/-- the field separator "__" -/
def uu : Bytes := [us, us]

/-- the bytes of a (generated) string constant -/
def strBytes (s : String) : Bytes := s.toUTF8.data.toList

/-! ### timestamps -/

/-- `n mod 10^k` as exactly `k` decimal digits, zero padded (Go `appendInt(b, n, k)` for
    `0 ≤ n < 10^k`). -/
def decDigits : Nat → Nat → Bytes
  | 0, _ => []
  | k + 1, n => decDigits k (n / 10) ++ [UInt8.ofNat (48 + n % 10)]

/-- `len(timeFormat)` -/
def tsLen : Nat := Gen.timeFormat.utf8ByteSize

/-- the layout "20060102-150405.000000000" applied to a broken-down time, '.' replaced by '-' -/
def formatCivil (c : Civil) : Bytes :=
  decDigits 4 c.year ++ decDigits 2 c.month ++ decDigits 2 c.day ++ [dash]
    ++ decDigits 2 c.hour ++ decDigits 2 c.min ++ decDigits 2 c.sec ++ [dash] ++ decDigits 9 c.nsec

/-- `snapshot.NameTimestamp(time.Unix(0, t))` for `0 ≤ t < 2^63` (years 1970..2262). -/
def nameTimestamp (t : Nat) : Bytes := formatCivil (ofNanos t)

def isDigit (b : UInt8) : Bool := 48 ≤ b && b ≤ 57

/-- decimal value of a digit string continuing from `acc`; `none` on any non-digit
    (Go's `leadingInt` with nothing left over; its overflow guard is out of reach at ≤ 9 digits) -/
def digitsAux (acc : Nat) : Bytes → Option Nat
  | [] => some acc
  | c :: cs => if isDigit c then digitsAux (acc * 10 + (c.toNat - 48)) cs else none

def digits (b : Bytes) : Option Nat := digitsAux 0 b

/-- consume exactly `k` digits from the front (Go's `getnum(value, fixed)` for k = 2, the
    four-digit `atoi(value[0:4])` guarded by `isDigit(value, 0)` for k = 4) -/
def takeDigits : Nat → Nat → Bytes → Option (Nat × Bytes)
  | 0, acc, s => some (acc, s)
  | _ + 1, _, [] => none
  | k + 1, acc, c :: s => if isDigit c then takeDigits k (acc * 10 + (c.toNat - 48)) s else none

/-- consume one given byte (Go's `skip(value, prefix)` for a one-byte literal prefix) -/
def expect (b : UInt8) : Bytes → Option Bytes
  | [] => none
  | c :: s => if c = b then some s else none

/-- Go's `parseNanoseconds(value, 10)` on the nine bytes after the '.': `atoi` accepts an
    optional sign; a negative result is a range error ("-00000000" is 0 and accepted). -/
def parseFrac (f : Bytes) : Option Nat :=
  match f with
  | [] => digits []
  | c :: ds =>
    if c = 43 then digits ds
    else if c = 45 then (match digits ds with
      | some 0 => some 0
      | _ => none)
    else digits (c :: ds)

/-- `time.Parse(timeFormat, tss[:15] + "." + tss[16:])` for a `tss` whose byte 15 is '-' (the
    caller has established that, and that the length is 25): left to right as Go's parser
    consumes the value — year 4 digits, month 2 digits in 1..12, day 2 digits, literal '-', hour
    2 digits < 24 (a one-digit hour always fails later at this fixed length), minute and second
    2 digits < 60, the separator, then exactly nine more bytes read as the fraction, nothing
    left over; finally the day must exist in that month of that year. `none` = any
    `*time.ParseError`. -/
def timeParse (s : Bytes) : Option Civil :=
  (takeDigits 4 0 s).bind fun year =>          -- (value, rest)
  (takeDigits 2 0 year.2).bind fun month =>
  (takeDigits 2 0 month.2).bind fun day =>
  (expect dash day.2).bind fun s1 =>
  (takeDigits 2 0 s1).bind fun hour =>
  (takeDigits 2 0 hour.2).bind fun min =>
  (takeDigits 2 0 min.2).bind fun sec =>
  (expect dash sec.2).bind fun s2 =>
  if s2.length ≠ 9 then none else
  (parseFrac s2).bind fun nsec =>
  if month.1 < 1 ∨ 12 < month.1 then none
  else if 24 ≤ hour.1 ∨ 60 ≤ min.1 ∨ 60 ≤ sec.1 then none
  else if day.1 < 1 ∨ daysIn month.1 year.1 < day.1 then none
  else some { year := year.1, month := month.1, day := day.1, hour := hour.1, min := min.1,
              sec := sec.1, nsec := nsec }

/-! ### names -/

/-- `strings.Cut(name, ".")` -/
def cutDot : Bytes → Option (Bytes × Bytes)
  | [] => none
  | c :: rest =>
    if c = dot then some ([], rest)
    else match cutDot rest with
      | none => none
      | some (a, b) => some (c :: a, b)

def consHead (c : UInt8) : List Bytes → List Bytes
  | [] => [[c]]
  | h :: t => (c :: h) :: t

/-- `strings.Split(s, "__")`: leftmost non-overlapping separators; never empty. -/
def splitUU : Bytes → List Bytes
  | [] => [[]]
  | [c] => [[c]]
  | c :: d :: rest =>
    if c = us ∧ d = us then [] :: splitUU rest
    else consHead c (splitUU (d :: rest))

/-- `strings.Join(parts, "__")` -/
def joinUU : List Bytes → Bytes
  | [] => []
  | [p] => p
  | p :: q :: ps => p ++ uu ++ joinUU (q :: ps)

/-- `registeredExtensions[ext]` -/
def lookupExt (ext : Bytes) : Option Bytes :=
  match Gen.registeredExtensions.find? (fun p => strBytes p.1 == ext) with
  | none => none
  | some p => some (strBytes p.2)

inductive Err where
  | noDot
  | unknownExt
  | tooFewParts
  | tsFormat
  | tsParse
  deriving Repr, DecidableEq

def Err.cls : Err → String
  | .noDot => "no-dot"
  | .unknownExt => "unknown-ext"
  | .tooFewParts => "too-few-parts"
  | .tsFormat => "ts-format"
  | .tsParse => "ts-parse"

/-- `snapshot.NameInfo` (the `Timestamp` field as broken-down UTC time; `Civil.toNanos` gives
    its UNIX nanoseconds). -/
structure NameInfo where
  fullName : Bytes
  baseName : Bytes
  ext : Bytes
  kind : Bytes
  db : Bytes
  inst : Bytes
  tss : Bytes
  gen : Bytes
  extras : List Bytes
  time : Civil
  deriving Repr, DecidableEq

/-- `snapshot.ParseName`, branch for branch. -/
def parseName (name : Bytes) : Except Err NameInfo :=
  match cutDot name with
  | none => .error .noDot
  | some (base, ext) =>
    match lookupExt ext with
    | none => .error .unknownExt
    | some kind =>
      match splitUU base with
      | db :: inst :: tss :: gen :: extras =>
        if tss.length ≠ tsLen ∨ tss.getD Gen.dotIndex 0 ≠ dash then .error .tsFormat
        else match timeParse tss with
          | none => .error .tsParse
          | some c => .ok { fullName := name, baseName := base, ext := ext, kind := kind, db := db,
                            inst := inst, tss := tss, gen := gen, extras := extras, time := c }
      | _ => .error .tooFewParts

/-- `NameInfo.BuildName` with a non-empty `TimestampString` -/
def buildNameTs (db inst tss gen : Bytes) (extras : List Bytes) (ext : Bytes) : Bytes :=
  joinUU (db :: inst :: tss :: gen :: extras) ++ [dot] ++ ext

/-- `NameInfo.BuildName` with an empty `TimestampString` and `Timestamp = time.Unix(0, t)`,
    `0 ≤ t < 2^63` -/
def buildName (db inst gen : Bytes) (extras : List Bytes) (t : Nat) (ext : Bytes) : Bytes :=
  buildNameTs db inst (nameTimestamp t) gen extras ext

/-! ### the instance-id sanitiser -/

/-- the complement of the class in `Gen.reUnsafe`: ASCII letters, digits, '-' -/
def isSafe (b : UInt8) : Bool :=
  (97 ≤ b && b ≤ 122) || (65 ≤ b && b ≤ 90) || (48 ≤ b && b ≤ 57) || b == dash

def inRange (lo hi : UInt8) (o : Option UInt8) : Bool :=
  match o with
  | none => false
  | some b => lo ≤ b && b ≤ hi

/-- width (1..4) of the rune `utf8.DecodeRuneInString` decodes at a byte `b0 ≥ 0x80` followed by
    `rest`; invalid or truncated encodings have width 1. -/
def runeLen (b0 : UInt8) (rest : Bytes) : Nat :=
  let cont (i : Nat) : Bool := inRange 0x80 0xBF rest[i]?
  if 0xC2 ≤ b0 ∧ b0 ≤ 0xDF then (if cont 0 then 2 else 1)
  else if b0 = 0xE0 then (if inRange 0xA0 0xBF rest[0]? && cont 1 then 3 else 1)
  else if (0xE1 ≤ b0 ∧ b0 ≤ 0xEC) ∨ b0 = 0xEE ∨ b0 = 0xEF then (if cont 0 && cont 1 then 3 else 1)
  else if b0 = 0xED then (if inRange 0x80 0x9F rest[0]? && cont 1 then 3 else 1)
  else if b0 = 0xF0 then (if inRange 0x90 0xBF rest[0]? && cont 1 && cont 2 then 4 else 1)
  else if 0xF1 ≤ b0 ∧ b0 ≤ 0xF3 then (if cont 0 && cont 1 && cont 2 then 4 else 1)
  else if b0 = 0xF4 then (if inRange 0x80 0x8F rest[0]? && cont 1 && cont 2 then 4 else 1)
  else 1

/-- `skip` = continuation bytes of the current rune still to be consumed -/
def sanitizeAux : Nat → Bytes → Bytes
  | _, [] => []
  | k + 1, _ :: rest => sanitizeAux k rest
  | 0, b :: rest =>
    if b < 0x80 then (if isSafe b then b else dash) :: sanitizeAux 0 rest
    else dash :: sanitizeAux (runeLen b rest - 1) rest

/-- `reUnsafe.ReplaceAllString(n, "-")` -/
def sanitize (n : Bytes) : Bytes := sanitizeAux 0 n

end Ls.Name
