/-
  Byte strings and the integer conversions the Go code uses.
  Core Lean only (no Mathlib) so that the driver executable links.
-/
namespace Ls

abbrev Bytes := List UInt8

/-- Go's `bytes.Compare`: -1, 0, 1 by lexicographic order. -/
def bcmp : Bytes → Bytes → Int
  | [], [] => 0
  | [], _ :: _ => -1
  | _ :: _, [] => 1
  | a :: as, b :: bs =>
    if a < b then -1 else if b < a then 1 else bcmp as bs

/-- big-endian encoding of `n mod 256^k` in exactly `k` bytes -/
def beBytes : Nat → Nat → Bytes
  | 0, _ => []
  | k + 1, n => beBytes k (n / 256) ++ [UInt8.ofNat (n % 256)]

/-- little-endian encoding of `n mod 256^k` in exactly `k` bytes -/
def leBytes : Nat → Nat → Bytes
  | 0, _ => []
  | k + 1, n => UInt8.ofNat (n % 256) :: leBytes k (n / 256)

def beNat (b : Bytes) : Nat := b.foldl (fun acc x => acc * 256 + x.toNat) 0

def leNat : Bytes → Nat
  | [] => 0
  | x :: xs => x.toNat + 256 * leNat xs

def be64 (n : Nat) : Bytes := beBytes 8 n
def le64 (n : Nat) : Bytes := leBytes 8 n

/-- Go slice expression `b[i:j]` for `i ≤ j ≤ len b` (callers establish the bounds). -/
def slice (b : Bytes) (i j : Nat) : Bytes := (b.drop i).take (j - i)

def two64 : Nat := 18446744073709551616
def two63 : Nat := 9223372036854775808
def two32 : Nat := 4294967296

/-- Go `int(v)` for a `uint64` on a 64-bit platform. -/
def toInt64 (v : Nat) : Int :=
  let w := v % two64
  if w < two63 then (w : Int) else (w : Int) - (two64 : Int)

/-- Go `uint64(i)` for an `int64`. -/
def toUInt64 (i : Int) : Nat := (i % (two64 : Int)).toNat

/-- wrap an integer into the int64 range (Go signed overflow wraps) -/
def wrapInt64 (i : Int) : Int := toInt64 (toUInt64 i)

def hexDigit (n : Nat) : Char :=
  if n < 10 then Char.ofNat (48 + n) else Char.ofNat (87 + n)

def toHex (b : Bytes) : String :=
  String.ofList (b.foldr (fun x acc => hexDigit (x.toNat / 16) :: hexDigit (x.toNat % 16) :: acc) [])

def hexVal (c : Char) : Option Nat :=
  if '0' ≤ c ∧ c ≤ '9' then some (c.toNat - 48)
  else if 'a' ≤ c ∧ c ≤ 'f' then some (c.toNat - 87)
  else if 'A' ≤ c ∧ c ≤ 'F' then some (c.toNat - 55)
  else none

def fromHexAux : List Char → Option Bytes
  | [] => some []
  | [_] => none
  | a :: b :: rest => do
    let x ← hexVal a
    let y ← hexVal b
    let r ← fromHexAux rest
    pure (UInt8.ofNat (x * 16 + y) :: r)

/-- "-" denotes the empty string (so that fields are never empty on a line). -/
def fromHex (s : String) : Option Bytes :=
  if s == "-" then some [] else fromHexAux s.toList

def hexOut (b : Bytes) : String := if b.isEmpty then "-" else toHex b

end Ls
