import LsModel.DriverUtil
import LsModel.Header
import LsModel.Merge
/- driver operations: header, merge -/
namespace Ls.Drv
open Ls Ls.Header Ls.Merge

def opHeader (op : String) (a : List String) : Option String :=
  match op, a with
  | "hdr.put", [ts, txn, fl] => do
    let ts ← natArg ts; let txn ← natArg txn; let fl ← natArg fl
    pure s!"ok {hexOut (putBasic ts txn (UInt8.ofNat fl))}"
  | "hdr.parse", [v] => do
    let v ← hexArg v
    match parse v with
    | .error e => pure s!"err {e.cls}"
    | .ok (h, rest) =>
      pure s!"ok {h.ts} {h.txn} {h.version} {h.flags.toNat} {h.numExtra} {hexOut h.extra} {hexOut rest}"
  | "hdr.skip", [v] => do
    let v ← hexArg v
    match skip v with
    | .error e => pure s!"err {e.cls}"
    | .ok rest => pure s!"ok {hexOut rest}"
  | _, _ => none

def cfgArgs (fv defTs txn cutoff pad : String) : Option Cfg := do
  pure { fv := ← natArg fv, defTs := ← natArg defTs, txn := ← natArg txn,
         cutoff := ← natArg cutoff, pad := ← boolArg pad }

def resOut : Except Header.Err (Option Bytes) → String
  | .error _ => "err header"
  | .ok r => s!"ok {optHex r}"

def opMerge (op : String) (a : List String) : Option String :=
  match op, a with
  | "merge", [fv, defTs, txn, cutoff, pad, key, val, ts, fl, old] => do
    let c ← cfgArgs fv defTs txn cutoff pad
    let e : KV := { key := ← hexArg key, val := ← hexArg val, ts := ← natArg ts, flags := ← natArg fl }
    pure (resOut (merge c e (← hexArg old)))
  | "clean", [fv, defTs, txn, cutoff, pad, old] => do
    let c ← cfgArgs fv defTs txn cutoff pad
    pure (resOut (clean c (← hexArg old)))
  | "plain.merge", [val] => do
    let e : KV := { key := [], val := ← hexArg val, ts := 0, flags := 0 }
    pure s!"ok {optHex (plainMerge e)}"
  | _, _ => none

end Ls.Drv
