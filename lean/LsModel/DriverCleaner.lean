import LsModel.DriverUtil
import LsModel.DriverState
/-
  driver operations for the cleaner (C12). Names and instance ids stay hex-encoded inside the model
  (they are opaque to it; the List prefix is compared on the hex form, which is the byte-wise prefix).

    cleaner.new <mustKeep> <removeOld> <enabled 0/1>      reset: cleaner.New on an empty bucket
    cleaner.newsyncer <mustKeep> <removeOld> <enabled> <receiveOnly 0/1>
                                                          reset: the cleaner that syncer.New creates
    cleaner.oracle <0/1>                                  newest-snapshot clause of the oracle on/off
    cleaner.put <name>:<kind|bad>:<inst>:<unixnanos>,…    blobs appear (token = ParseName's verdict)
    cleaner.rm <name>,…                                   blobs disappear (someone else deleted them)
    cleaner.commit <inst>=<unixnanos>,…                   SetCommitted
    cleaner.run <now> <listFails 0/1> <name,…|->          RunOnce(now); Delete fails for the given names
-/
namespace Ls.Drv
open Ls Ls.Cleaner

def intArg (s : String) : Option Int := s.toInt?

/-- hex of the prefix `"db__"` the harness's Worker is created with (`cleaner.New("db", …)`) -/
def cleanerPfxHex : String := strHex "db__"

def parseToken (tok : String) : Option (String × Option Info) :=
  match (tok.split (· == ':')).toList.map (·.toString) with
  | [n, k, i, t] => do
    let t ← intArg t
    if k == "bad" then pure (n, none) else pure (n, some { kind := k, inst := i, ts := t })
  | _ => none

def parsePair (tok : String) : Option (String × Int) :=
  match (tok.split (· == '=')).toList.map (·.toString) with
  | [i, t] => do pure (i, ← intArg t)
  | _ => none

def joinOr (l : List String) : String := if l.isEmpty then "-" else ",".intercalate l

/-- canonical view of the committed map: every key once (first binding counts), sorted -/
def committedOut (st : St) : String :=
  let keys := (sortStr (st.committed.map (·.1))).eraseDups
  joinOr (keys.map fun k => s!"{k}={(getCommitted st k).getD 0}")

def opCleaner : HandlerS := fun op a s =>
  let d := s.cleaner
  match op, a with
  | "cleaner.new", [mk, ro, en] => do
    let cfg : Cfg := { enabled := ← boolArg en, mustKeep := ← intArg mk, removeOld := ← intArg ro,
                       pfx := cleanerPfxHex }
    pure ({ s with cleaner := { cfg := cfg } }, "ok")
  | "cleaner.newsyncer", [mk, ro, en, rcv] => do
    let cc : Cfg := { enabled := ← boolArg en, mustKeep := ← intArg mk, removeOld := ← intArg ro,
                      pfx := cleanerPfxHex }
    pure ({ s with cleaner := { cfg := syncerCleanerCfg (← boolArg rcv) cc } }, "ok")
  | "cleaner.oracle", [b] => do
    pure ({ s with cleaner := { d with checkNewest := ← boolArg b } }, "ok")
  | "cleaner.put", [toks] => do
    let ts ← (listArg toks ',').mapM parseToken
    let table := ts.foldl (fun tb t => t :: tb.filter (·.1 != t.1)) d.table
    let bucket := ts.foldl (fun b t => if b.contains t.1 then b else b ++ [t.1]) d.bucket
    pure ({ s with cleaner := { d with table := table, bucket := bucket } }, s!"ok {bucket.length}")
  | "cleaner.rm", [names] => do
    let ns := listArg names ','
    let bucket := d.bucket.filter (fun n => !ns.contains n)
    pure ({ s with cleaner := { d with bucket := bucket } }, s!"ok {bucket.length}")
  | "cleaner.commit", [m] => do
    let m ← (listArg m ',').mapM parsePair
    let st := setCommitted d.st m
    let tr := { d.track with committed := m.foldl (fun acc kv => kv :: acc) d.track.committed }
    pure ({ s with cleaner := { d with st := st, track := tr } }, s!"ok {committedOut st}")
  | "cleaner.run", [now, lf, dfs] => do
    let now ← intArg now
    let lf ← boolArg lf
    let dfs := listArg dfs ','
    let parse := tableParse d.table
    -- what List(prefix) returns: the names with the prefix, sorted
    let listing : Option (List String) :=
      if lf then none else some (sortStr (d.bucket.filter (d.cfg.pfx.isPrefixOf ·)))
    let (st, out) := runOnce parse d.cfg d.st now listing (fun n => dfs.contains n)
    let verdict := oracle parse d.cfg d.track d.checkNewest now (if d.cfg.enabled then listing else none) out
    let track := match d.cfg.enabled, listing with
      | true, some names => d.track.listed now names
      | _, _ => d.track
    let bucket := d.bucket.filter (fun n => !out.deleted.contains n)
    let line := s!"{if out.err then "err list" else "ok"} deleted={joinOr (sortStr out.deleted)} delcalls={joinOr (sortStr out.delCalls)} lists={out.listCalls} left={bucket.length}"
    let line := match verdict with
      | some m => s!"FAIL {m} | {line}"
      | none => line
    pure ({ s with cleaner := { d with st := st, track := track, bucket := bucket } }, line)
  | _, _ => none

end Ls.Drv
