import LsModel.DriverUtil
import LsModel.Merge
/- executable property predicates for C02 (the same predicates the harness evaluates on the
   implementation) -/
namespace Ls.Drv
open Ls Ls.Header Ls.Merge

/-- logical content of a stored value -/
structure LC where
  ts : Nat
  del : Bool
  val : Bytes
  deriving DecidableEq, Repr

def decodeLC (stored : Bytes) : Except Header.Err (Option LC) :=
  if stored.length = 0 then .ok none
  else match parse stored with
    | .error e => .error e
    | .ok (h, v) => .ok (some { ts := h.ts, del := isDeleted h.flags, val := v })

def lcStr : Option LC → String
  | none => "absent"
  | some l => s!"{l.ts}/{if l.del then "1" else "0"}/{hexOut l.val}"

/-- what `strategy.Update` leaves for one key: the decision, empty/nil meaning "deleted" -/
def applyMerge (c : Cfg) (e : KV) (old : Bytes) : Except Header.Err Bytes :=
  match merge c e old with
  | .error err => .error err
  | .ok none => .ok []
  | .ok (some b) => .ok b

def parseEnt (tok : String) : Option KV :=
  match (tok.split (· == '/')).toList.map (·.toString) with
  | [v, ts, fl] => do
    pure { key := [0x6b], val := ← hexArg v, ts := ← natArg ts, flags := ← natArg fl }
  | _ => none

def foldMerge (c : Cfg) (es : List KV) (old : Bytes) : Except Header.Err Bytes :=
  es.foldlM (fun cur e => applyMerge c e cur) old

def lcBeats (a b : LC) : Bool :=
  if a.ts ≠ b.ts then a.ts > b.ts
  else if bcmp a.val b.val ≠ 0 then bcmp a.val b.val < 0
  else a.del && !b.del

def perms3 {α} (a b c : α) : List (List α) :=
  [[a, b, c], [a, c, b], [b, a, c], [b, c, a], [c, a, b], [c, b, a]]

def opC02 (op : String) (a : List String) : Option String :=
  match op, a with
  | "prop.c02.perm", [fv, pad, txn, old, e1, e2, e3] => do
    let c ← cfgOf fv "0" txn "0" pad
    let old ← hexArg old
    let e1 ← parseEnt e1; let e2 ← parseEnt e2; let e3 ← parseEnt e3
    let results := (perms3 e1 e2 e3).map fun p =>
      match foldMerge c p old with
      | .error _ => none
      | .ok cur => match decodeLC cur with
        | .error _ => none
        | .ok l => some l
    match results with
    | [] => none
    | r0 :: rest =>
      if results.any (· == none) then pure "err header"
      else match rest.find? (· ≠ r0) with
        | some r => pure s!"FAIL order-dependent {lcStr (r0.getD none)} {lcStr (r.getD none)}"
        | none => pure s!"ok {lcStr (r0.getD none)}"
  | "prop.c02.permc", [fv, cutoff, pad, txn, old, e1, e2, e3] => do
    let c ← cfgOf fv "0" txn cutoff pad
    let old ← hexArg old
    let e1 ← parseEnt e1; let e2 ← parseEnt e2; let e3 ← parseEnt e3
    let results := (perms3 e1 e2 e3).map fun p =>
      match foldMerge c p old with
      | .error _ => none
      | .ok cur => match decodeLC cur with
        | .error _ => none
        | .ok l => some l
    match results with
    | [] => none
    | r0 :: rest =>
      if results.any (· == none) then pure "err header"
      else match rest.find? (· ≠ r0) with
        | some _ =>
          let cand := [e1, e2, e3].map fun e =>
            let del := e.flags % 2 = 1 ∨ (e.val.length = 0 ∧ c.fv = 1)
            ({ ts := e.ts, del := del, val := if del then [] else e.val } : LC)
          let w0 : Option LC := match decodeLC old with | .ok l => l | .error _ => none
          let w := cand.foldl (fun w x => match w with
            | none => some x
            | some y => if lcBeats x y then some x else some y) w0
          match w with
          | some wv =>
            if wv.del ∧ wv.ts < c.cutoff then pure s!"FAIL order-dependent stale-winner winner={lcStr w}"
            else pure "FAIL order-dependent"
          | none => pure "FAIL order-dependent"
        | none => pure s!"ok {lcStr (r0.getD none)}"
  | "prop.c02.step", [fv, defTs, txn, cutoff, pad, val, ts, fl, old] => do
    let c ← cfgOf fv defTs txn cutoff pad
    let old ← hexArg old
    let e : KV := { key := [0x6b], val := ← hexArg val, ts := ← natArg ts, flags := ← natArg fl }
    match decodeLC old with
    | .error _ => pure "ok unparsable-old"
    | .ok lo =>
      match merge c e old with
      | .error _ => pure "FAIL error-on-parsable-old"
      | .ok res =>
        let cur : Bytes := res.getD []
        match decodeLC cur with
        | .error _ => pure "FAIL result-unparsable"
        | .ok ln =>
          let ets := if e.ts = 0 then c.defTs else e.ts
          let edel := e.flags % 2 = 1 ∨ (e.val.length = 0 ∧ c.fv = 1)
          let en : LC := { ts := ets, del := edel, val := if edel then [] else e.val }
          let bad1 := match lo, ln with
            | some _, none => some "FAIL stored-entry-removed"
            | some o, some n =>
              if n.ts < o.ts then some "FAIL moved-backwards"
              else if n = o ∧ cur ≠ old then some "FAIL rewritten-without-change"
              else none
            | _, _ => none
          match bad1 with
          | some m => pure m
          | none =>
            if ¬ (ln = lo ∨ ln = some en) then pure "FAIL invented"
            else if edel ∧ e.val.length > 0 then pure s!"ok {lcStr ln}"
            else
              let want : Option LC := match lo with
                | none => if edel ∧ e.ts < c.cutoff then none else some en
                | some o =>
                  if e.ts = 0 ∧ o.val = e.val ∧ ¬ (edel ∧ ¬ o.del) then some o
                  else if lcBeats en o then some en else some o
              if ln = want then pure s!"ok {lcStr ln}" else pure "FAIL wrong-winner"
  | _, _ => none
where
  cfgOf (fv defTs txn cutoff pad : String) : Option Cfg := do
    pure { fv := ← natArg fv, defTs := ← natArg defTs, txn := ← natArg txn,
           cutoff := ← natArg cutoff, pad := ← boolArg pad }

end Ls.Drv
