import LsModel.DriverLoop
/-
  driver operations: the receiver model (C16). The Go harness prints the same lines from the real
  `receiver.Receiver` on a scripted in-memory backend.

    recv.new <own> <dlLimit> <dcLimit>      ok        (limits < 1 become 1, as in climit.New)
    recv.put <inst> <ts> <0|1>              ok        (1 = a blob snapshot.LoadData rejects)
    recv.rm <inst> <ts>                     ok
    recv.loadfail <n>                       ok        (see below)
    recv.run <includingOwn 0|1> <listFails 0|1>   ok | err list
    recv.next <inst|-|?>                    ok <inst>@<ts> | ok none
    recv.close                              ok
    recv.state     ok dl=<free>/<limit> dc=<free>/<limit> pending=… corrupt=… seen=… held=…

  Every operation that can free a token or change the listing ends with `quiesce`: all sleeping
  downloaders retry and every downloader runs, fault-free, until it is parked (idle, in a retry
  sleep after a corrupt or vanished blob, or in `Acquire` with no free token); downloaders move
  in lexicographic order of their instance ids. With limits ≥ number of instances no downloader is
  ever parked in `Acquire`, and the result does not depend on that order.

  `recv.loadfail n`: the next `n` `Load` calls of the backend fail. A failed load sends the
  downloader through `backoff → check → wantDl → loading` again with the token released in
  between (model steps `load d fail`, `retry d`, …), so once the failures are used up the
  quiescent state is the one without failures; the driver therefore only acknowledges the line.

  `recv.next`: the real `Next()` takes the first entry in Go map order; the harness resolves that
  choice and rewrites the line to `recv.next <inst>` (`-` when `Next` returned nothing). `?` lets
  the model choose: the smallest pending instance id. The held update (if any) is closed first,
  then `quiesce` (the freed token may unblock a downloader), then the entry is taken.

  Lists are `inst@ts` strings, sorted as strings, joined by `,`; `-` when empty.
-/
namespace Ls.Drv
open Ls Ls.Recv

def recvOrder (s : Recv.St String) : List String := sortStrsL (s.dls.map Prod.fst)

def recvQuiesce (s : Recv.St String) : Recv.St String := (quiesceOrd (recvOrder s) s).2

/-- quiesce with the order in which the real downloaders were observed to get their turn (trace
    validation: which downloader wins a token is the Go scheduler's choice); `ord=a,b,…`, the
    remaining downloaders follow in lexicographic order -/
def recvQuiesceH (hint : Option String) (s : Recv.St String) : Recv.St String :=
  match hint with
  | none => recvQuiesce s
  | some h =>
    let first := ((h.drop 4).toString.splitOn ",").filter (· ≠ "")
    let order := first ++ (recvOrder s).filter (fun d => !first.contains d)
    (quiesceOrd order s).2

/-- split a trailing `ord=…` argument off -/
def splitHint (a : List String) : List String × Option String :=
  match a.getLast? with
  | some l => if l.startsWith "ord=" then (a.dropLast, some l) else (a, none)
  | none => (a, none)

def recvClose (s : Recv.St String) : Recv.St String := (Recv.step s .close).getD s

def nameOut (n : String × Nat) : String := s!"{n.1}@{n.2}"

def namesOut (l : List (String × Nat)) : String :=
  let l := sortStrsL (l.map nameOut)
  if l.isEmpty then "-" else ",".intercalate l

def recvStateOut (s : Recv.St String) : String :=
  let held := match s.holding with | some n => nameOut n | none => "-"
  s!"ok dl={s.dlFree}/{s.dlLimit} dc={s.dcFree}/{s.dcLimit} pending={namesOut s.pending} corrupt={namesOut s.corrupt} seen={namesOut s.lastSeen} held={held}"

def opRecv (op : String) (a0 : List String) (st : DrvState) : Option (DrvState × String) :=
  let (a, hint) := splitHint a0
  match op, a with
  | "recv.new", [own, dl, dc] => do
    let dl ← natArg dl
    let dc ← natArg dc
    pure ({ st with recv := some (Recv.init own (max 1 dl) (max 1 dc)) }, "ok")
  | "recv.put", [inst, ts, bad] => do
    let s ← st.recv
    -- kind 1: not a gzip stream; kind 2: container and outer message decode, the entry data does
    -- not (detected by the downloader's validation): both are undecodable blobs
    let bad ← natArg bad
    let s' ← Recv.step s (.put { inst := inst, ts := ← natArg ts, bad := bad != 0 })
    pure ({ st with recv := some s' }, "ok")
  | "recv.putother", [_inst, ts] => do
    -- a file of another registered kind: not a snapshot, invisible to the receiver
    let _ ← st.recv
    let _ ← natArg ts
    pure (st, "ok")
  | "recv.rm", [inst, ts] => do
    let s ← st.recv
    let s' ← Recv.step s (.rm inst (← natArg ts))
    pure ({ st with recv := some s' }, "ok")
  | "recv.loadfail", [n] => do
    let _ ← st.recv
    let _ ← natArg n
    pure (st, "ok")
  | "recv.run", [inc, fails] => do
    let s ← st.recv
    let inc ← boolArg inc
    let fails ← boolArg fails
    let s' ← Recv.step s (.runOnce inc (!fails))
    pure ({ st with recv := some (recvQuiesceH hint s') }, if fails then "err list" else "ok")
  | "recv.runrm", [inst, ts] => do
    -- a successful listing, then the named blob vanishes before any downloader loads it
    let s ← st.recv
    let s' ← Recv.step s (.runOnce false true)
    let s'' ← Recv.step s' (.rm inst (← natArg ts))
    pure ({ st with recv := some (recvQuiesceH hint s'') }, "ok")
  | "recv.next", [who] => do
    let s ← st.recv
    let s := recvQuiesceH hint (recvClose s)
    let who : Option String :=
      if who == "-" then none
      else if who == "?" then (sortStrsL (s.pending.map Prod.fst)).head?
      else some who
    match who with
    | none => pure ({ st with recv := some s }, "ok none")
    | some d =>
      match AL.get s.pending d, Recv.step s (.next d) with
      | some t, some s' => pure ({ st with recv := some s' }, s!"ok {nameOut (d, t)}")
      | _, _ => pure ({ st with recv := some s }, "ok none")
  | "recv.close", [] => do
    let s ← st.recv
    pure ({ st with recv := some (recvQuiesceH hint (recvClose s)) }, "ok")
  | "recv.state", [] => do
    let s ← st.recv
    pure (st, recvStateOut s)
  | "prop.c16.delivered", [own] => do
    -- the statement of C16_progress_delivery evaluated on the model's state: when the receiver
    -- is settled (every downloader waiting on an empty signal channel, nothing pending or held,
    -- the last listing is what a listing would give now with every corrupt name ignored), the
    -- newest decodable blob of every other instance has been delivered
    let s ← st.recv
    let ig := ignoredNow s
    let fresh := mkLastSeen ((s.bucket.map Blob.name).filter (fun n => !ig.contains n))
    let atRest := s.dls.all (fun p => !p.2.busy) && s.pending.isEmpty && s.holding.isNone
    if !(atRest && namesOut fresh == namesOut s.lastSeen) then pure (st, "ok not-at-rest")
    else
      let others := (s.bucket.filter (fun b => !b.bad && b.inst != own)).map (·.inst) |>.eraseDups
      let newest (d : String) : Nat := (s.bucket.filter (fun b => !b.bad && b.inst == d)).foldl (fun m b => max m b.ts) 0
      let miss := others.filter fun d => !s.delivered.contains (d, newest d)
      if miss.isEmpty then pure (st, "ok") else pure (st, "FAIL newest-decodable-snapshot-never-delivered")
  | "prop.c16.check", [] => do
    -- the token accounting of C16_tokens / C16_no_leak, evaluated on the model's state
    let s ← st.recv
    let held := if s.holding.isSome then 1 else 0
    if s.dlFree > s.dlLimit ∨ s.dcFree > s.dcLimit then pure (st, "FAIL token-count-out-of-range")
    else if s.pending.length + held > s.dcLimit then pure (st, "FAIL more-decoded-snapshots-in-memory-than-configured")
    else if s.pending.any (fun n => s.corrupt.contains n) then pure (st, "FAIL corrupt-snapshot-delivered")
    else pure (st, "ok")
  | _, _ => none

end Ls.Drv
