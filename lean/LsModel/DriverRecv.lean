import LsModel.DriverLoop
/-
  driver operations: the receiver model (C16). The Go harness prints the same lines from the real
  `receiver.Receiver` on a scripted in-memory backend.

    recv.new <own> <dlLimit> <dcLimit>      ok        (limits < 1 become 1, as in climit.New)
    recv.put <inst> <ts> <0|1>              ok        (1 = a blob snapshot.LoadData rejects)
    recv.rm <inst> <ts>                     ok
    recv.loadfail <n>                       ok        (see below)
    recv.run <includingOwn 0|1> <listFails 0|1>   ok | err list
    recv.next <inst|-|?>                    ok <inst>@<ts> | ok none
    recv.close                              ok
    recv.state     ok dl=<free>/<limit> dc=<free>/<limit> pending=… corrupt=… seen=… held=…

  Every operation that can free a token or change the listing ends with `quiesce`: all sleeping
  downloaders retry and every downloader runs, fault-free, until it is parked (idle, in a retry
  sleep after a corrupt or vanished blob, or in `Acquire` with no free token); downloaders move
  in lexicographic order of their instance ids. With limits ≥ number of instances no downloader is
  ever parked in `Acquire`, and the result does not depend on that order.

  `recv.loadfail n`: the next `n` `Load` calls of the backend fail. A failed load sends the
  downloader through `backoff → check → wantDl → loading` again with the token released in
  between (model steps `load d fail`, `retry d`, …), so once the failures are used up the
  quiescent state is the one without failures; the driver therefore only acknowledges the line.

  `recv.next`: the real `Next()` takes the first entry in Go map order; the harness resolves that
  choice and rewrites the line to `recv.next <inst>` (`-` when `Next` returned nothing). `?` lets
  the model choose: the smallest pending instance id. The held update (if any) is closed first,
  then `quiesce` (the freed token may unblock a downloader), then the entry is taken.

  Lists are `inst@ts` strings, sorted as strings, joined by `,`; `-` when empty.
-/
namespace Ls.Drv
open Ls Ls.Recv

def recvOrder (s : Recv.St String) : List String := sortStrsL (s.dls.map Prod.fst)

def recvQuiesce (s : Recv.St String) : Recv.St String := (quiesceOrd (recvOrder s) s).2

def recvClose (s : Recv.St String) : Recv.St String := (Recv.step s .close).getD s

def nameOut (n : String × Nat) : String := s!"{n.1}@{n.2}"

def namesOut (l : List (String × Nat)) : String :=
  let l := sortStrsL (l.map nameOut)
  if l.isEmpty then "-" else ",".intercalate l

def recvStateOut (s : Recv.St String) : String :=
  let held := match s.holding with | some n => nameOut n | none => "-"
  s!"ok dl={s.dlFree}/{s.dlLimit} dc={s.dcFree}/{s.dcLimit} pending={namesOut s.pending} corrupt={namesOut s.corrupt} seen={namesOut s.lastSeen} held={held}"

def opRecv (op : String) (a : List String) (st : DrvState) : Option (DrvState × String) :=
  match op, a with
  | "recv.new", [own, dl, dc] => do
    let dl ← natArg dl
    let dc ← natArg dc
    pure ({ st with recv := some (Recv.init own (max 1 dl) (max 1 dc)) }, "ok")
  | "recv.put", [inst, ts, bad] => do
    let s ← st.recv
    -- kind 1: not a gzip stream; kind 2: container and outer message decode, the entry data does
    -- not (detected by the downloader's validation): both are undecodable blobs
    let bad ← natArg bad
    let s' ← Recv.step s (.put { inst := inst, ts := ← natArg ts, bad := bad != 0 })
    pure ({ st with recv := some s' }, "ok")
  | "recv.rm", [inst, ts] => do
    let s ← st.recv
    let s' ← Recv.step s (.rm inst (← natArg ts))
    pure ({ st with recv := some s' }, "ok")
  | "recv.loadfail", [n] => do
    let _ ← st.recv
    let _ ← natArg n
    pure (st, "ok")
  | "recv.run", [inc, fails] => do
    let s ← st.recv
    let inc ← boolArg inc
    let fails ← boolArg fails
    let s' ← Recv.step s (.runOnce inc (!fails))
    pure ({ st with recv := some (recvQuiesce s') }, if fails then "err list" else "ok")
  | "recv.next", [who] => do
    let s ← st.recv
    let s := recvQuiesce (recvClose s)
    let who : Option String :=
      if who == "-" then none
      else if who == "?" then (sortStrsL (s.pending.map Prod.fst)).head?
      else some who
    match who with
    | none => pure ({ st with recv := some s }, "ok none")
    | some d =>
      match AL.get s.pending d, Recv.step s (.next d) with
      | some t, some s' => pure ({ st with recv := some s' }, s!"ok {nameOut (d, t)}")
      | _, _ => pure ({ st with recv := some s }, "ok none")
  | "recv.close", [] => do
    let s ← st.recv
    pure ({ st with recv := some (recvQuiesce (recvClose s)) }, "ok")
  | "recv.state", [] => do
    let s ← st.recv
    pure (st, recvStateOut s)
  | "prop.c16.check", [] => do
    -- the token accounting of C16_tokens / C16_no_leak, evaluated on the model's state
    let s ← st.recv
    let held := if s.holding.isSome then 1 else 0
    if s.dlFree > s.dlLimit ∨ s.dcFree > s.dcLimit then pure (st, "FAIL token-count-out-of-range")
    else if s.pending.length + held > s.dcLimit then pure (st, "FAIL more-decoded-snapshots-in-memory-than-configured")
    else if s.pending.any (fun n => s.corrupt.contains n) then pure (st, "FAIL corrupt-snapshot-delivered")
    else pure (st, "ok")
  | _, _ => none

end Ls.Drv
