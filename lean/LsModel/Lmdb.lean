import LsModel.Bytes
import LsModel.Generated
/-
  Abstract LMDB: a DBI is a list of (key, value) kept strictly sorted by the DBI's key order
  (byte-wise, or unsigned little-endian integer order under MDB_INTEGERKEY).
  Modelled, not verified (DESIGN.md §5); validated by every transaction-level correspondence run.
-/
namespace Ls.Lmdb
open Ls

abbrev KVs := List (Bytes × Bytes)

/-- `bytesToInt` of lmdbenv/strategy/utils.go -/
def intVal (b : Bytes) : Nat :=
  if b.length = 4 ∨ b.length = 8 ∨ b.length = 2 then leNat b else 0

/-- the comparison `iterBoth` uses: `cmpIntegerLittleEndian` for integer-key DBIs, else `bytes.Compare` -/
def kcmp (intKey : Bool) (a b : Bytes) : Int :=
  if intKey then
    (if intVal a < intVal b then -1 else if intVal a > intVal b then 1 else 0)
  else bcmp a b

def get (ik : Bool) : KVs → Bytes → Option Bytes
  | [], _ => none
  | (k', v') :: rest, k => if kcmp ik k k' = 0 then some v' else get ik rest k

def put (ik : Bool) : KVs → Bytes → Bytes → KVs
  | [], k, v => [(k, v)]
  | (k', v') :: rest, k, v =>
    if kcmp ik k k' < 0 then (k, v) :: (k', v') :: rest
    else if kcmp ik k k' = 0 then (k', v) :: rest
    else (k', v') :: put ik rest k v

/-- delete; the flag says whether the key existed (only then LMDB records a change) -/
def del (ik : Bool) : KVs → Bytes → KVs × Bool
  | [], _ => ([], false)
  | (k', v') :: rest, k =>
    if kcmp ik k k' = 0 then (rest, true)
    else let (r, f) := del ik rest k; ((k', v') :: r, f)

/-- LMDB rejects empty keys and keys longer than 511 bytes (MDB_BAD_VALSIZE) -/
def badKey (k : Bytes) : Bool := k.length = 0 || k.length > Gen.strategyMaxKeySize

/-- duplicate-keys DBI: a sorted set of (key, value) pairs -/
def pairLt (a b : Bytes × Bytes) : Bool :=
  bcmp a.1 b.1 < 0 || (bcmp a.1 b.1 = 0 && bcmp a.2 b.2 < 0)

def putDup : KVs → Bytes → Bytes → KVs
  | [], k, v => [(k, v)]
  | p :: rest, k, v =>
    if pairLt (k, v) p then (k, v) :: p :: rest
    else if p = (k, v) then p :: rest
    else p :: putDup rest k v

end Ls.Lmdb
