import LsModel.DriverUtil
/- the concurrency scenarios are run on the real objects; on the model side the corresponding
   statements are theorems (LsProps/C17.lean), so the driver only acknowledges the scenario -/
namespace Ls.Drv

def opConc (op : String) (a : List String) : Option String :=
  match op, a with
  | "conc.topic", [_, _, _] => some "ok"
  | "conc.token", [_, _, _] => some "ok"
  | "conc.storage", [_, _] => some "ok"
  | "conc.cancel", [p] =>
    if p == "startup.listingFailed" || p == "send.afterTxn" || p == "send.stored" || p == "loop.top"
        || p == "loop.beforeInfo" || p == "loop.sleep" then some "ok returned" else none
  | _, _ => none

end Ls.Drv
