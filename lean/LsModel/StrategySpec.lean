import LsModel.Strategy
/-
  The specification of the update strategies the property states: apply the iterator's merge
  decision to each input key (with the value stored for it) and, for the iterating strategies,
  its clean decision to each stored key absent from the input.
-/
namespace Ls.Strategy
open Ls Ls.Lmdb

/-- the stored value after a merge decision: empty/nil decision removes the key -/
def setNew (v : Option Bytes) : Option Bytes :=
  match v with
  | none => none
  | some b => if b.length = 0 then none else some b

def applyOpt (ik : Bool) (db : KVs) (k : Bytes) (v : Option Bytes) : KVs :=
  match v with
  | none => (del ik db k).1
  | some b => put ik db k b

def inInput {E ε} (ik : Bool) (it : Iter E ε) (input : List E) (k : Bytes) : Bool :=
  input.any (fun e => kcmp ik (it.key e) k = 0)

/-- Update: left fold of the pointwise decision (any input order, duplicates allowed) -/
def specUpdate {E ε} (ik : Bool) (it : Iter E ε) (db : KVs) (input : List E) : Except ε KVs :=
  input.foldlM (fun acc e => do
    let old := (get ik acc (it.key e)).getD []
    let v ← it.merge e old
    pure (applyOpt ik acc (it.key e) (setNew v))) db

/-- IterUpdate: clean every stored key absent from the input, merge every input key -/
def specIterUpdate {E ε} (ik : Bool) (it : Iter E ε) (db : KVs) (input : List E) : Except ε KVs := do
  let db1 ← db.foldlM (fun acc (kv : Bytes × Bytes) =>
    if inInput ik it input kv.1 then pure acc
    else do
      let v ← it.clean kv.2
      pure (applyOpt ik acc kv.1 v)) db
  input.foldlM (fun acc e => do
    let old := (get ik db (it.key e)).getD []
    let v ← it.merge e old
    pure (applyOpt ik acc (it.key e) (setNew v))) db1

/-- EmptyPut: the input's non-empty decisions on an empty DBI -/
def specEmptyPut {E ε} (ik : Bool) (it : Iter E ε) (input : List E) : Except ε KVs :=
  input.foldlM (fun acc e => do
    let v ← it.merge e []
    pure (match setNew v with
      | none => acc
      | some b => put ik acc (it.key e) b)) []

/-- strictly increasing in the DBI's order -/
def sortedKeys (ik : Bool) : List Bytes → Bool
  | [] => true
  | [_] => true
  | a :: b :: rest => kcmp ik a b < 0 && sortedKeys ik (b :: rest)

end Ls.Strategy
