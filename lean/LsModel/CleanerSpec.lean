import LsModel.Cleaner
/-
  Vocabulary in which C12 is stated: observers of a cleaner history that do not look at the Worker's
  state, and the assumptions of the property's quantifier. Definitions only.
-/
namespace Ls.Cleaner

/-- `ParseName` accepts `n` as a snapshot (kind `snapshot`) with fields `i` -/
def IsSnap (parse : Parse) (n : String) (i : Info) : Prop :=
  parse n = some i ∧ i.kind = Gen.kindSnapshot

/-- one step of the `since` observer -/
def sinceStep (tr : String → Option Int) : Ev → String → Option Int
  | .run now (some l) _ => fun n =>
      if n ∈ l then (match tr n with | some t => some t | none => some now) else none
  | _ => tr

/-- `since h n = some t`: `n` was in the last listing handed to the cleaner in `h`, and `t` is the `now`
    of the first run of the unbroken series of listings containing `n` that ends there — "when the
    cleaner first saw `n`". `none`: `n` was not in the last listing (or there was none), so a run that
    lists it next sees it for the first time. Runs whose List fails hand no listing to the cleaner. -/
def since (h : List Ev) : String → Option Int := h.foldl sinceStep (fun _ => none)

/-- the `now` of every run, in order -/
def nows : List Ev → List Int
  | [] => []
  | .run now _ _ :: es => now :: nows es
  | .commit _ :: es => nows es

/-- the clock handed to successive runs never goes backwards (it may stand still) -/
def MonotoneClock (h : List Ev) : Prop := (nows h).Pairwise (· ≤ ·)

/-- snapshots of one instance appear in timestamp order: whenever a run's listing contains a snapshot `a`
    the cleaner has not been listing and a snapshot `b` of the same instance it has been listing, `a` is
    not older than `b` -/
def AppearInOrder (parse : Parse) (h : List Ev) : Prop :=
  ∀ h' now l df, (h' ++ [Ev.run now (some l) df]) <+: h →
    ∀ a b i j, a ∈ l → b ∈ l → IsSnap parse a i → IsSnap parse b j → i.inst = j.inst →
      since h' a = none → since h' b ≠ none → j.ts ≤ i.ts

/-- in one listing, two different snapshots of one instance carry different timestamps (this also rules
    out a name being listed twice as a snapshot) -/
def DistinctTimes (parse : Parse) (l : List String) : Prop :=
  l.Pairwise fun a b => ∀ i j, IsSnap parse a i → IsSnap parse b j → i.inst = j.inst → i.ts ≠ j.ts

/-- `n` (with fields `i`) is the newest listed snapshot of its instance -/
def Newest (parse : Parse) (l : List String) (n : String) (i : Info) : Prop :=
  IsSnap parse n i ∧ ∀ m j, m ∈ l → m ≠ n → IsSnap parse m j → j.inst = i.inst → j.ts < i.ts

/-- what `List(prefix)` guarantees -/
def HasPrefix (pfx : String) (l : List String) : Prop := ∀ n ∈ l, pfx.isPrefixOf n = true

end Ls.Cleaner
