import LsModel.Txn
/- state the driver keeps between protocol lines (stateful ops reset what they use) -/
namespace Ls.Drv
open Ls

structure Inst where
  cfg : Txn.Cfg
  env : Txn.Env

structure DrvState where
  envs : List (String × Inst) := []

def DrvState.getEnv (s : DrvState) (id : String) : Option Inst := (s.envs.find? (·.1 == id)).map (·.2)
def DrvState.setEnv (s : DrvState) (id : String) (i : Inst) : DrvState :=
  { s with envs := (id, i) :: s.envs.filter (·.1 != id) }

end Ls.Drv
