import LsModel.Txn
import LsModel.CleanerOracle
/-
  State the driver threads from one protocol line to the next. One field per stateful component;
  stateless operations ignore it.
-/
namespace Ls.Drv
open Ls

structure Inst where
  cfg : Txn.Cfg
  env : Txn.Env

structure DrvState where
  cleaner : Ls.Cleaner.Drv := {}
  envs : List (String × Inst) := []

/-- a stateful handler: `none` = not my op / malformed arguments -/
abbrev HandlerS := String → List String → DrvState → Option (DrvState × String)

def DrvState.getEnv (s : DrvState) (id : String) : Option Inst := (s.envs.find? (·.1 == id)).map (·.2)
def DrvState.setEnv (s : DrvState) (id : String) (i : Inst) : DrvState :=
  { s with envs := (id, i) :: s.envs.filter (·.1 != id) }

end Ls.Drv
