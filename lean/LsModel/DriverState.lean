import LsModel.Txn
import LsModel.CleanerOracle
import LsModel.SyncLoop
import LsModel.Receiver
/-
  State the driver threads from one protocol line to the next. One field per stateful component;
  stateless operations ignore it.
-/
namespace Ls.Drv
open Ls

structure Inst where
  cfg : Txn.Cfg
  env : Txn.Env
  /-- what the sync loop would hold as `lastSyncedTxnID`: the id returned by the last `SendOnce`,
      or by the last `LoadOnce` that saw no local change (token `R` of the protocol) -/
  lastRet : Nat := 0

structure LoopInst where
  cfg : SyncLoop.LoopCfg
  st : SyncLoop.St
  /-- the instance's snapshot cleaner (`Syncer.cleaner`) -/
  cl : Cleaner.St := Cleaner.St.init

structure DrvState where
  cleaner : Ls.Cleaner.Drv := {}
  envs : List (String × Inst) := []
  loops : List (String × LoopInst) := []
  bucket : SyncLoop.Bucket := []
  /-- snapshots a cleaner has deleted: a receiver may still hold one in memory and hand it over -/
  grave : SyncLoop.Bucket := []
  /-- the receiver model (C16), instances named by strings -/
  recv : Option (Recv.St String) := none

/-- a stateful handler: `none` = not my op / malformed arguments -/
abbrev HandlerS := String → List String → DrvState → Option (DrvState × String)

def DrvState.getEnv (s : DrvState) (id : String) : Option Inst := (s.envs.find? (·.1 == id)).map (·.2)
def DrvState.setEnv (s : DrvState) (id : String) (i : Inst) : DrvState :=
  { s with envs := (id, i) :: s.envs.filter (·.1 != id) }

def DrvState.getLoop (s : DrvState) (id : String) : Option LoopInst := (s.loops.find? (·.1 == id)).map (·.2)
def DrvState.setLoop (s : DrvState) (id : String) (i : LoopInst) : DrvState :=
  { s with loops := (id, i) :: s.loops.filter (·.1 != id) }

end Ls.Drv
