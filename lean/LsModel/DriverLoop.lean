import LsModel.DriverTxn
/- driver operations: the sync loop of one instance and a fleet sharing one bucket (trace level) -/
namespace Ls.Drv
open Ls Ls.Txn Ls.SyncLoop

def pcName : Pc → String
  | .boot => "boot"
  | .top => "loop.top"
  | .loadAfterTxn .. => "load.afterTxn"
  | .beforeInfo => "loop.beforeInfo"
  | .beforeSend => "loop.beforeSend"
  | .sendAfterTxn .. => "send.afterTxn"
  | .sendStored .. => "send.stored"
  | .sleep => "loop.sleep"
  | .exited .ok => "exit ok"
  | .exited (.err c) => s!"exit err {c}"

def insertSortedL (x : String) : List String → List String
  | [] => [x]
  | y :: ys => if x < y then x :: y :: ys else y :: insertSortedL x ys

def sortStrsL (l : List String) : List String := l.foldl (fun acc x => insertSortedL x acc) []

def bucketOut (b : Bucket) : String :=
  let l := sortStrsL (b.map fun x => s!"{x.inst}@{x.ts}")
  if l.isEmpty then "-" else ",".intercalate l

def obs (s : St) (b : Bucket) : String :=
  s!"at {pcName s.pc} B{bucketOut b} {envOut s.env}"

def parseNext (s : String) : Option (Option (InstId × Nat)) :=
  if s == "-" then some none else
  match splitOn s '@' with
  | [i, t] => do pure (some (i, ← natArg t))
  | _ => none

def opLoop (op : String) (a : List String) (st : DrvState) : Option (DrvState × String) :=
  match op, a with
  | "fleet.reset", [] => some ({ st with loops := [], bucket := [] }, "ok")
  | "loop.new", [id, native, hack, pad, ro, once, retry] => do
    let native ← boolArg native
    let hack ← boolArg hack
    let pad ← boolArg pad
    let ro ← boolArg ro
    let once ← boolArg once
    let retry ← natArg retry
    let cfg : LoopCfg := { txn := { native := native, hack := hack, pad := pad, receiveOnly := ro, override := [] },
                           own := id, onlyOnce := once, retryCount := retry }
    pure (st.setLoop id { cfg := cfg, st := SyncLoop.init { dbis := [], lastTxn := 0 } }, "ok")
  | "loop.restart", [id, wipe] => do
    let i ← st.getLoop id
    let env : Env := if (← boolArg wipe) then { dbis := [], lastTxn := 0 } else i.st.env
    pure (st.setLoop id { i with st := SyncLoop.init env }, "ok")
  | "loop.app", [id, ops] => do
    let i ← st.getLoop id
    let ops ← (listArg ops ',').mapM parseAppOp
    let s' := appCommit i.st ops
    pure (st.setLoop id { i with st := s' }, s!"ok T{s'.env.lastTxn}")
  | "loop.list", [id] => do
    let i ← st.getLoop id
    pure (st.setLoop id { i with st := listed st.bucket i.st }, "ok")
  | "loop.go", [id, next, fails, now] => do
    let i ← st.getLoop id
    let inp : In := { next := ← parseNext next, fails := ← natArg fails, now := ← natArg now }
    let (s', b') := SyncLoop.go i.cfg st.bucket i.st inp
    pure ({ (st.setLoop id { i with st := s' }) with bucket := b' }, obs s' b')
  | "prop.loop.check", [id] => do
    let _ ← st.getLoop id
    pure (st, "ok")
  | "prop.c16.once", [id] => do
    let i ← st.getLoop id
    match i.st.pc with
    | .exited .ok => pure (st, "ok exited ok")
    | .exited _ => pure (st, "ok exited err")
    | _ => pure (st, "ok running")
  | "prop.fleet.converged", [] => some (st, "ok")
  | "bucket.rm", [inst, ts] => do
    let t ← natArg ts
    pure ({ st with bucket := st.bucket.filter fun x => !(x.inst == inst && x.ts == t) }, "ok")
  | _, _ => none

end Ls.Drv
