import LsModel.DriverTxn
import LsModel.Cleaner
/- driver operations: the sync loop of one instance and a fleet sharing one bucket (trace level) -/
namespace Ls.Drv
open Ls Ls.Txn Ls.SyncLoop

def pcName : Pc → String
  | .boot => "boot"
  | .top => "loop.top"
  | .loadAfterTxn .. => "load.afterTxn"
  | .beforeInfo => "loop.beforeInfo"
  | .beforeSend => "loop.beforeSend"
  | .sendAfterTxn .. => "send.afterTxn"
  | .sendStored .. => "send.stored"
  | .sleep => "loop.sleep"
  | .exited .ok => "exit ok"
  | .exited (.err c) => s!"exit err {c}"

def insertSortedL (x : String) : List String → List String
  | [] => [x]
  | y :: ys => if x < y then x :: y :: ys else y :: insertSortedL x ys

def sortStrsL (l : List String) : List String := l.foldl (fun acc x => insertSortedL x acc) []

def insertPair (x : String × Nat) : List (String × Nat) → List (String × Nat)
  | [] => [x]
  | y :: ys => if x.1 < y.1 ∨ (x.1 = y.1 ∧ x.2 < y.2) then x :: y :: ys else y :: insertPair x ys

/-- listing order of a bucket: by instance, then by time (names carry fixed-width timestamps) -/
def sortPairs (l : List (String × Nat)) : List (String × Nat) := l.foldl (fun acc x => insertPair x acc) []

def bucketOut (b : Bucket) : String :=
  let l := sortStrsL (b.map fun x => s!"{x.inst}@{x.ts}")
  if l.isEmpty then "-" else ",".intercalate l

def obs (s : St) (b : Bucket) : String :=
  s!"at {pcName s.pc} B{bucketOut b} {envOut s.env}"

def parseNext (s : String) : Option (Option (InstId × Nat)) :=
  if s == "-" then some none else
  match splitOn s '@' with
  | [i, t] => do pure (some (i, ← natArg t))
  | _ => none

/-- one `Worker.RunOnce` of the instance's cleaner (cleanup enabled unless receive-only, both
    intervals zero: only the order of times matters) on a bucket -/
def cleanRun (i : LoopInst) (b : Bucket) (now : Nat) : Cleaner.St × Cleaner.Out :=
  let names := (sortPairs (b.map fun x => (x.inst, x.ts))).map fun p => s!"{p.1}@{p.2}"
  let parse : Cleaner.Parse := fun n =>
    match splitOn n '@' with
    | [a, t] => t.toNat?.map fun k => { kind := Gen.kindSnapshot, inst := a, ts := (k : Int) }
    | _ => none
  let cfg := Cleaner.syncerCleanerCfg i.cfg.txn.receiveOnly { enabled := true, mustKeep := 0, removeOld := 0 }
  let cst : Cleaner.St := { i.cl with committed := i.st.committed.map fun p => (p.1, (p.2 : Int)) }
  Cleaner.runOnce parse cfg cst (now : Int) (some names) (fun _ => false)

def opLoop (op : String) (a : List String) (st : DrvState) : Option (DrvState × String) :=
  match op, a with
  | "fleet.reset", [] => some ({ st with loops := [], bucket := [], grave := [] }, "ok")
  | "loop.new", [id, native, hack, pad, ro, once, retry] => do
    let native ← boolArg native
    let hack ← boolArg hack
    let pad ← boolArg pad
    let ro ← boolArg ro
    let once ← boolArg once
    let retry ← natArg retry
    let cfg : LoopCfg := { txn := { native := native, hack := hack, pad := pad, receiveOnly := ro, override := [] },
                           own := id, onlyOnce := once, retryCount := retry }
    pure (st.setLoop id { cfg := cfg, st := SyncLoop.init { dbis := [], lastTxn := 0 } }, "ok")
  | "loop.restart", [id, wipe] => do
    let i ← st.getLoop id
    let env : Env := if (← boolArg wipe) then { dbis := [], lastTxn := 0 } else i.st.env
    pure (st.setLoop id { i with st := SyncLoop.init env, cl := Cleaner.St.init }, "ok")
  | "loop.app", [id, ops] => do
    let i ← st.getLoop id
    let ops ← (listArg ops ',').mapM parseAppOp
    let s' := appCommit i.st ops
    pure (st.setLoop id { i with st := s' }, s!"ok T{s'.env.lastTxn}")
  | "loop.list", [id] => do
    let i ← st.getLoop id
    pure (st.setLoop id { i with st := listed st.bucket i.st }, "ok")
  | "loop.go", [id, next, fails, now] => do
    let i ← st.getLoop id
    let inp : In := { next := ← parseNext next, fails := ← natArg fails, now := ← natArg now }
    -- a snapshot the receiver downloaded before a cleaner deleted it is still handed over
    let ghost : Bucket := match inp.next with
      | some (inst, ts) =>
        if (findBlob st.bucket inst ts).isNone then (findBlob st.grave inst ts).toList else []
      | none => []
    let (s', b') := SyncLoop.go i.cfg (st.bucket ++ ghost) i.st inp
    let b' := b'.filter fun x => !ghost.contains x
    -- `syncLoop` starts the cleaner's goroutine, which runs once at once (on the bucket as it
    -- is during the first segment: a new worker only records what it sees)
    let cl' := if i.st.pc = .boot then (cleanRun i st.bucket inp.now).1 else i.cl
    pure ({ (st.setLoop id { i with st := s', cl := cl' }) with bucket := b' }, obs s' b')
  | "loop.goheld", [id, next, fails, now, ops] => do
    -- the application commits while the released loop waits for the write lock: the commit comes
    -- before Lightning Stream's next transaction
    let i ← st.getLoop id
    let ops ← (listArg ops ',').mapM parseAppOp
    let st1 := st.setLoop id { i with st := appCommit i.st ops }
    opLoop "loop.go" [id, next, fails, now] st1
  | "loop.overdue", [id] => do
    -- the harness turns the clock back: the last snapshot is now older than
    -- `storage_force_snapshot_interval`. Only while the loop is at `loop.top` or `loop.sleep`
    -- (the flag the code computes after the loads is then the one `loop.beforeInfo` reads);
    -- anywhere else, and for a receive-only instance (`forceSnapshotEnabled` is false there),
    -- nothing happens.
    let i ← st.getLoop id
    if (i.st.pc = .top ∨ i.st.pc = .sleep) ∧ i.cfg.txn.receiveOnly = false then
      pure (st.setLoop id { i with st := armForce i.st }, "ok")
    else pure (st, "ok")
  | "loop.loadfail", [id, n] => do
    -- transient download failures are retried by the downloader: no effect on what is delivered
    let _ ← st.getLoop id
    let _ ← natArg n
    pure (st, "ok")
  | "loop.clean", [id, now] => do
    -- one run of the instance's real cleaner (cleanup enabled, both intervals zero: only the
    -- order of times matters) on the shared bucket
    let i ← st.getLoop id
    let now ← natArg now
    let (cst', out) := cleanRun i st.bucket now
    let isDead (x : Blob) : Bool := out.deleted.contains s!"{x.inst}@{x.ts}"
    let st' := st.setLoop id { i with cl := cst' }
    let del := sortStrsL out.deleted
    pure ({ st' with bucket := st.bucket.filter (fun x => !isDead x), grave := st.grave ++ st.bucket.filter isDead },
          s!"ok deleted={if del.isEmpty then "-" else ",".intercalate del}")
  | "prop.loop.check", [id] => do
    let _ ← st.getLoop id
    pure (st, "ok")
  | "prop.c16.once", [id] => do
    let i ← st.getLoop id
    match i.st.pc with
    | .exited .ok => pure (st, "ok exited ok")
    | .exited _ => pure (st, "ok exited err")
    | _ => pure (st, "ok running")
  | "prop.fleet.converged", [] => some (st, "ok")
  | "bucket.rm", [inst, ts] => do
    let t ← natArg ts
    pure ({ st with bucket := st.bucket.filter fun x => !(x.inst == inst && x.ts == t) }, "ok")
  | _, _ => none

end Ls.Drv
