import LsModel.Codec
/-
  A declarative semantics of the proto3 wire format for the published schema
  snapshot/gogosnapshot/snapshot.proto — independent of the hand-written codec and of the Go
  constants (field numbers are the literals of the .proto file):

    message KV       { bytes key = 1; bytes value = 2; fixed64 timestampNano = 3; uint32 flags = 4; }
    message DBI      { string name = 1; repeated KV entries = 2; uint64 flags = 3; string transform = 4; }
    message Snapshot { uint32 formatVersion = 1; Meta meta = 2; repeated DBI databases = 3;
                       uint32 compatVersion = 4; }
    message Meta     { string generationID = 1; string instanceID = 2; string hostname = 3;
                       int64 lmdbTxnID = 4; fixed64 timestampNano = 5; string databaseName = 7;
                       int64 fromLmdbTxnID = 8; }

  1. A message is a sequence of records (field number, wire type, payload); `records` tokenises.
     Varints are base-128 little-endian, at most 10 bytes, reduced mod 2^64 (what the generated
     gogo codec and the C++ implementation do; overlong encodings are accepted).  Field numbers are
     1 … 2^29-1.  Wire types 0 (varint), 1 (64-bit), 2 (length-delimited), 5 (32-bit); groups
     (3, 4) do not exist in proto3 and 6, 7 are undefined: such a message is not valid.
  2. A message value is the fold of its records over the default value (all zero / empty):
     a scalar field takes the last occurrence ("last one wins"), a repeated field appends, an
     embedded non-repeated message (`meta`) merges — its records are folded over the value
     accumulated so far, i.e. last-wins per inner field (protobuf "merge" semantics; the gogo
     codec does `m.Meta.Unmarshal(sub)` without reset, which is the same).  A known field with
     another wire type than the schema's makes the message invalid (gogo: "wrong wireType";
     packed encodings do not arise, no repeated scalars).  Unknown fields are ignored.
     uint32 ← varint mod 2^32, int64 ← two's complement, `string` fields are taken as bytes
     (UTF-8 validity is not checked, as in gogo).
-/
namespace Ls.PbSpec
open Ls Ls.Codec

inductive Payload where
  | varint (v : Nat)
  | i64 (b : Bytes)
  | len (b : Bytes)
  | i32 (b : Bytes)
  deriving Repr, DecidableEq

structure Rec where
  field : Nat
  payload : Payload
  deriving Repr, DecidableEq

/-- base-128 little-endian number of at most `k` bytes, and the rest of the input -/
def varintN : Nat → Bytes → Option (Nat × Bytes)
  | 0, _ => none
  | _ + 1, [] => none
  | k + 1, b :: rest =>
    if b.toNat < 128 then some (b.toNat, rest)
    else match varintN k rest with
      | none => none
      | some (v, r) => some (b.toNat - 128 + 128 * v, r)

def varint (b : Bytes) : Option (Nat × Bytes) :=
  match varintN 10 b with
  | none => none
  | some (v, r) => some (v % 2 ^ 64, r)

def takeN (n : Nat) (b : Bytes) : Option (Bytes × Bytes) :=
  if n ≤ b.length then some (b.take n, b.drop n) else none

/-- one record and the rest of the input -/
def record (b : Bytes) : Option (Rec × Bytes) :=
  match varint b with
  | none => none
  | some (key, r) =>
    let field := key / 8
    let wt := key % 8
    if field = 0 ∨ field ≥ 2 ^ 29 then none
    else if wt = 0 then
      match varint r with
      | none => none
      | some (v, r) => some (⟨field, .varint v⟩, r)
    else if wt = 1 then
      match takeN 8 r with
      | none => none
      | some (x, r) => some (⟨field, .i64 x⟩, r)
    else if wt = 2 then
      match varint r with
      | none => none
      | some (n, r) =>
        match takeN n r with
        | none => none
        | some (x, r) => some (⟨field, .len x⟩, r)
    else if wt = 5 then
      match takeN 4 r with
      | none => none
      | some (x, r) => some (⟨field, .i32 x⟩, r)
    else none

/-- all records of a message (every record takes at least two bytes; fuel = length) -/
def recordsN : Nat → Bytes → Option (List Rec)
  | _, [] => some []
  | 0, _ :: _ => none
  | f + 1, b =>
    match record b with
    | none => none
    | some (r, rest) =>
      match recordsN f rest with
      | none => none
      | some rs => some (r :: rs)

def records (b : Bytes) : Option (List Rec) := recordsN b.length b

/-- fold of the records of a message over an initial value -/
def foldRecs {α : Type} (f : α → Rec → Option α) (init : α) (rs : List Rec) : Option α :=
  rs.foldlM f init

def kvField (kv : KV) (r : Rec) : Option KV :=
  if r.field = 1 then match r.payload with
    | .len b => some { kv with key := b }
    | _ => none
  else if r.field = 2 then match r.payload with
    | .len b => some { kv with val := b }
    | _ => none
  else if r.field = 3 then match r.payload with
    | .i64 b => some { kv with ts := leNat b }
    | _ => none
  else if r.field = 4 then match r.payload with
    | .varint v => some { kv with flags := v % 2 ^ 32 }
    | _ => none
  else some kv

def parseKV (b : Bytes) : Option KV :=
  match records b with
  | none => none
  | some rs => foldRecs kvField kvZero rs

def dbiZero : DBI' := { name := [], flags := 0, transform := [], entries := [] }

def dbiField (d : DBI') (r : Rec) : Option DBI' :=
  if r.field = 1 then match r.payload with
    | .len b => some { d with name := b }
    | _ => none
  else if r.field = 2 then match r.payload with
    | .len b => match parseKV b with
      | none => none
      | some kv => some { d with entries := d.entries ++ [kv] }
    | _ => none
  else if r.field = 3 then match r.payload with
    | .varint v => some { d with flags := v }
    | _ => none
  else if r.field = 4 then match r.payload with
    | .len b => some { d with transform := b }
    | _ => none
  else some d

def parseDBI (b : Bytes) : Option DBI' :=
  match records b with
  | none => none
  | some rs => foldRecs dbiField dbiZero rs

def metaField (m : Meta) (r : Rec) : Option Meta :=
  if r.field = 1 then match r.payload with
    | .len b => some { m with generationID := b }
    | _ => none
  else if r.field = 2 then match r.payload with
    | .len b => some { m with instanceID := b }
    | _ => none
  else if r.field = 3 then match r.payload with
    | .len b => some { m with hostname := b }
    | _ => none
  else if r.field = 4 then match r.payload with
    | .varint v => some { m with lmdbTxnID := toInt64 v }
    | _ => none
  else if r.field = 5 then match r.payload with
    | .i64 b => some { m with timestampNano := leNat b }
    | _ => none
  else if r.field = 7 then match r.payload with
    | .len b => some { m with databaseName := b }
    | _ => none
  else if r.field = 8 then match r.payload with
    | .varint v => some { m with fromLmdbTxnID := toInt64 v }
    | _ => none
  else some m

/-- merge an embedded `Meta` message into the value so far -/
def mergeMeta (m : Meta) (b : Bytes) : Option Meta :=
  match records b with
  | none => none
  | some rs => foldRecs metaField m rs

def snapZero' : Snapshot' := { formatVersion := 0, compatVersion := 0, info := metaZero, dbis := [] }

def snapField (s : Snapshot') (r : Rec) : Option Snapshot' :=
  if r.field = 1 then match r.payload with
    | .varint v => some { s with formatVersion := v % 2 ^ 32 }
    | _ => none
  else if r.field = 2 then match r.payload with
    | .len b => match mergeMeta s.info b with
      | none => none
      | some m => some { s with info := m }
    | _ => none
  else if r.field = 3 then match r.payload with
    | .len b => match parseDBI b with
      | none => none
      | some d => some { s with dbis := s.dbis ++ [d] }
    | _ => none
  else if r.field = 4 then match r.payload with
    | .varint v => some { s with compatVersion := v % 2 ^ 32 }
    | _ => none
  else some s

/-- the value of a byte string as a `Snapshot` message of the published schema, if it is one -/
def parse (b : Bytes) : Option Snapshot' :=
  match records b with
  | none => none
  | some rs => foldRecs snapField snapZero' rs

end Ls.PbSpec
