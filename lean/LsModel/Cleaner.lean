import LsModel.Generated
/-
  Model of syncer/cleaner/cleaner.go: `Worker.RunOnce(ctx, now)`, `SetCommitted`, `GetCommitted`.
  Core Lean only.

  What is a parameter here (modelled, not verified):
  * `snapshot.ParseName` is the function `parse : String → Option Info`; `none` = ParseName returns an
    error; `some i` = the fields of `NameInfo` the cleaner reads (Kind, InstanceID, Timestamp).
  * the blob store: `List(prefix)` is the argument `listing` (`none` = List returned an error, `some names`
    = the names it returned); `Delete(name)` fails iff `deleteFails name`.
  * times are unix nanoseconds (`Int`), durations are `Int` nanoseconds. Go's `Time.Sub` saturates at
    ±(2^63−1) ns (≈ ±292 years); the generated range (times in [0, 2^62]) never reaches saturation and the
    model does not represent it. "never committed" (`lastByInstance[instance]` = zero `time.Time`, year 1)
    is `none`.
  * `slices.SortFunc` is not stable. The model sorts with the stable `List.mergeSort`; the relative order
    of candidates with *equal* timestamps is therefore a modelling choice the code does not guarantee. It
    can only influence the result when two snapshots of the *same* instance in one listing carry the same
    timestamp (decisions are per instance); theorems that depend on it assume `DistinctTimes`, and the
    correspondence generators give the snapshots of one instance distinct timestamps.
-/
namespace Ls.Cleaner

/-- the fields of `snapshot.NameInfo` the cleaner reads -/
structure Info where
  kind : String
  inst : String
  ts : Int
  deriving Repr, DecidableEq, Inhabited

abbrev Parse := String → Option Info

/-- a removal candidate (`snapshot.NameInfo` of a listed snapshot) -/
structure Cand where
  name : String
  inst : String
  ts : Int
  deriving Repr, DecidableEq, Inhabited

/-- `config.Cleanup` plus the List prefix (`name + "__"`). `interval` is only used by `Run`'s sleep. -/
structure Cfg where
  enabled : Bool
  interval : Int := 0
  mustKeep : Int
  removeOld : Int
  pfx : String := ""
  deriving Repr, Inhabited

/-- `syncer.New`: the cleanup configuration the syncer creates its cleaner with — the zero value
    (disabled) in receive-only mode, `c.Storage.Cleanup` otherwise -/
def syncerCleanerCfg (receiveOnly : Bool) (cc : Cfg) : Cfg :=
  if receiveOnly then { enabled := false, interval := 0, mustKeep := 0, removeOld := 0, pfx := cc.pfx }
  else cc

/-- the Worker's mutable fields: `ignoredFilenames` (a set), `snapFirstSeen`, `lastByInstance` (maps, as
    association lists read with `look`: the first binding of a key counts) -/
structure St where
  ignored : List String
  firstSeen : List (String × Int)
  committed : List (String × Int)
  deriving Repr, Inhabited

/-- `cleaner.New` -/
def St.init : St := { ignored := [], firstSeen := [], committed := [] }

/-- map lookup -/
def look (k : String) : List (String × Int) → Option Int
  | [] => none
  | (a, v) :: es => if k = a then some v else look k es

/-- `SetCommitted`: `maps.Copy(w.lastByInstance, last)` — entries are overwritten or added, never removed -/
def setCommitted (st : St) (m : List (String × Int)) : St :=
  { st with committed := m.foldl (fun acc kv => kv :: acc) st.committed }

/-- `GetCommitted` (`none` = zero time) -/
def getCommitted (st : St) (inst : String) : Option Int := look inst st.committed

/-- first loop of RunOnce, per name: ignored / unparsable / other kind → no candidate -/
def candOf (parse : Parse) (ignored : List String) (n : String) : Option Cand :=
  if n ∈ ignored then none
  else match parse n with
    | none => none
    | some i => if i.kind = Gen.kindSnapshot then some { name := n, inst := i.inst, ts := i.ts } else none

/-- names the first loop adds to `ignoredFilenames` -/
def newIgnored (parse : Parse) (ignored : List String) (names : List String) : List String :=
  names.filter (fun n => decide (n ∉ ignored) && (parse n).isNone)

/-- the sort comparison: newest first -/
def newerEq (a b : Cand) : Bool := decide (a.ts ≥ b.ts)

/-- first `lo.Filter`: returns (remaining candidates, snapFirstSeen, seenInstances) -/
def filter1 (mustKeep now : Int) :
    List Cand → List (String × Int) → List String → List Cand × List (String × Int) × List String
  | [], fs, seen => ([], fs, seen)
  | c :: cs, fs, seen =>
    match look c.name fs with
    | none =>
      -- first time in a listing: record, keep; seenInstances deliberately not set
      filter1 mustKeep now cs ((c.name, now) :: fs) seen
    | some t =>
      if now - t ≤ mustKeep then
        filter1 mustKeep now cs fs (c.inst :: seen)
      else
        let p := filter1 mustKeep now cs fs seen
        (c :: p.1, p.2.1, p.2.2)

/-- second `lo.Filter` (continues with the same seenInstances map): returns (remaining candidates, tooOld) -/
def filter2 (removeOld now : Int) : List Cand → List String → List Cand × List Cand
  | [], _ => ([], [])
  | c :: cs, seen =>
    if c.inst ∈ seen then
      let p := filter2 removeOld now cs seen
      (c :: p.1, p.2)
    else
      let p := filter2 removeOld now cs (c.inst :: seen)
      (p.1, if now - c.ts > removeOld then c :: p.2 else p.2)

/-- the stale-instance rule: `!ni.Timestamp.After(lastCommitted)` with the zero time for "never" -/
def provenMerged (committed : List (String × Int)) (c : Cand) : Bool :=
  match look c.inst committed with
  | none => false
  | some t => decide (c.ts ≤ t)

/-- what one RunOnce did to the store -/
structure Out where
  listCalls : Nat          -- number of List calls
  err : Bool               -- RunOnce returned an error
  delCalls : List String   -- names Delete was called on, in call order
  deleted : List String    -- those for which Delete succeeded
  deriving Repr, Inhabited

def Out.none (lists : Nat) (err : Bool) : Out := { listCalls := lists, err := err, delCalls := [], deleted := [] }

/-- first loop of RunOnce: the listed snapshots that are removal candidates, in listing order -/
def candidates (parse : Parse) (st : St) (names : List String) : List Cand :=
  names.filterMap (candOf parse st.ignored)

/-- clean snapFirstSeen of names that are no longer listed as snapshots -/
def gcFirstSeen (st : St) (cands : List Cand) : List (String × Int) :=
  st.firstSeen.filter (fun p => decide (p.1 ∈ cands.map (·.name)))

/-- `slices.SortFunc`, newest first -/
def sortCands (cands : List Cand) : List Cand := cands.mergeSort newerEq

/-- sort and first filter, on a fresh seenInstances map -/
def stage1 (cfg : Cfg) (st : St) (now : Int) (cands : List Cand) :
    List Cand × List (String × Int) × List String :=
  filter1 cfg.mustKeep now (sortCands cands) (gcFirstSeen st cands) []

/-- second filter, continuing with the first filter's seenInstances -/
def stage2 (cfg : Cfg) (st : St) (now : Int) (cands : List Cand) : List Cand × List Cand :=
  filter2 cfg.removeOld now (stage1 cfg st now cands).1 (stage1 cfg st now cands).2.2

/-- the candidates Delete is called on, in call order: first the superseded ones, then the stale
    newest-of-instance ones whose merge is proven -/
def toDelete (cfg : Cfg) (st : St) (now : Int) (cands : List Cand) : List Cand :=
  (stage2 cfg st now cands).1 ++ (stage2 cfg st now cands).2.filter (provenMerged st.committed)

/-- `Worker.RunOnce(ctx, now)` -/
def runOnce (parse : Parse) (cfg : Cfg) (st : St) (now : Int) (listing : Option (List String))
    (deleteFails : String → Bool) : St × Out :=
  if cfg.enabled = false then (st, Out.none 0 false)
  else match listing with
  | none => (st, Out.none 1 true)
  | some names =>
    let cands := candidates parse st names
    let calls := (toDelete cfg st now cands).map (·.name)
    ({ ignored := st.ignored ++ newIgnored parse st.ignored names,
       firstSeen := (stage1 cfg st now cands).2.1,
       committed := st.committed },
     { listCalls := 1, err := false, delCalls := calls, deleted := calls.filter (fun n => !deleteFails n) })

/-- events of a cleaner history -/
inductive Ev where
  | run (now : Int) (listing : Option (List String)) (deleteFails : String → Bool)
  | commit (m : List (String × Int))

def step (parse : Parse) (cfg : Cfg) (st : St) : Ev → St
  | .run now l df => (runOnce parse cfg st now l df).1
  | .commit m => setCommitted st m

/-- the Worker's state after a history, from `cleaner.New` -/
def exec (parse : Parse) (cfg : Cfg) (h : List Ev) : St := h.foldl (step parse cfg) St.init

end Ls.Cleaner
