import LsModel.Cleaner
/-
  C12's property predicate made executable (the same predicate the Go harness evaluates on the real
  Worker), and the driver's cleaner state. The oracle uses ONLY its own bookkeeping (`Track`): when each
  name was first listed to the cleaner since it was last absent, what was passed to SetCommitted, what the
  current listing is. It never reads the Worker state `St`.
-/
namespace Ls.Cleaner

/-- harness-side bookkeeping, independent of the Worker's -/
structure Track where
  /-- name ↦ `now` of the first run, since the name was last absent from a listing, that listed it -/
  since : List (String × Int) := []
  /-- all pairs ever passed to SetCommitted, newest first -/
  committed : List (String × Int) := []
  deriving Inhabited

/-- state the driver keeps between protocol lines for the cleaner ops -/
structure Drv where
  cfg : Cfg := { enabled := false, mustKeep := 0, removeOld := 0 }
  st : St := St.init
  /-- ParseName's verdict for every name ever put in the bucket (from the protocol tokens) -/
  table : List (String × Option Info) := []
  bucket : List String := []
  track : Track := {}
  /-- evaluate the newest-snapshot clause (off for streams outside the property's quantifier:
      snapshots appearing out of timestamp order, non-monotone clock) -/
  checkNewest : Bool := true
  deriving Inhabited

def tableParse (table : List (String × Option Info)) : Parse := fun n =>
  match table.find? (fun p => p.1 == n) with
  | some (_, some i) => some i
  | _ => none

def isSnap (parse : Parse) (n : String) : Bool :=
  match parse n with
  | some i => i.kind == Gen.kindSnapshot
  | none => false

/-- `n` is the strictly newest listed snapshot of its instance -/
def isNewest (parse : Parse) (names : List String) (n : String) : Bool :=
  match parse n with
  | none => false
  | some i => names.all fun m =>
      m == n || match parse m with
        | some j => !(j.kind == Gen.kindSnapshot && j.inst == i.inst) || decide (j.ts < i.ts)
        | none => true

def sortStr (l : List String) : List String := l.mergeSort (fun a b => decide (a < b) || a == b)

/-- per Delete call: the safety clauses of the property; `none` = fine -/
def checkCall (parse : Parse) (cfg : Cfg) (tr : Track) (checkNewest : Bool) (now : Int)
    (names : List String) (n : String) : Option String :=
  if !(names.contains n && cfg.pfx.isPrefixOf n && isSnap parse n) then some s!"not-own-snapshot {n}"
  else match look n tr.since with
    | none => some s!"keep-new {n}"
    | some t =>
      if now - t ≤ cfg.mustKeep then some s!"keep-interval {n}"
      else if checkNewest && isNewest parse names n then
        match parse n with
        | none => none
        | some i =>
          let proven := match look i.inst tr.committed with
            | some c => decide (i.ts ≤ c)
            | none => false
          if decide (now - i.ts > cfg.removeOld) && proven then none else some s!"newest {n}"
      else none

/-- after a run in which every Delete succeeded: per instance at most one listed snapshot that has been
    listed for longer than the keep interval survives -/
def checkBounded (parse : Parse) (cfg : Cfg) (tr : Track) (now : Int) (names : List String)
    (out : Out) : Option String :=
  if out.deleted.length ≠ out.delCalls.length then none else
  let old := names.filter fun n =>
    isSnap parse n && !out.deleted.contains n &&
      match look n tr.since with
      | some t => decide (now - t > cfg.mustKeep)
      | none => false
  (sortStr old).findSome? fun n =>
    match parse n with
    | none => none
    | some i =>
      if old.any (fun m => m != n && match parse m with | some j => j.inst == i.inst | none => false)
      then some s!"unbounded {n}" else none

/-- the whole oracle for one run; `listing` is what List returned to the Worker -/
def oracle (parse : Parse) (cfg : Cfg) (tr : Track) (checkNewest : Bool) (now : Int)
    (listing : Option (List String)) (out : Out) : Option String :=
  if !cfg.enabled then
    if out.listCalls ≠ 0 || !out.delCalls.isEmpty then some "disabled-active" else none
  else match listing with
  | none => if !out.delCalls.isEmpty then some "delete-after-list-error" else none
  | some names =>
    match (sortStr out.delCalls).findSome? (checkCall parse cfg tr checkNewest now names) with
    | some m => some m
    | none => checkBounded parse cfg tr now names out

/-- bookkeeping after a run that listed `names` -/
def Track.listed (tr : Track) (now : Int) (names : List String) : Track :=
  { tr with since := names.map fun n => (n, (look n tr.since).getD now) }

end Ls.Cleaner
