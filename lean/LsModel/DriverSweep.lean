import LsModel.DriverTxn
import LsModel.Sweeper
/- driver operations: bulk fill, digest, sweeper pass -/
namespace Ls.Drv
open Ls Ls.Lmdb Ls.Txn

def lcgNext (x : Nat) : Nat := (x * 6364136223846793005 + 1442695040888963407) % two64

def dec6 (i : Nat) : Bytes :=
  let d (k : Nat) : UInt8 := UInt8.ofNat (48 + (i / k) % 10)
  [d 100000, d 10000, d 1000, d 100, d 10, d 1]

/-- the i-th generated entry and the next generator state -/
def fillEntry (i x : Nat) : (Bytes × Bytes) × Nat :=
  let x := lcgNext x
  let ts := (x >>> 33) % 8
  let del := (x >>> 40) % 3 == 0
  let app : Bytes := if del then [] else [UInt8.ofNat ((x >>> 48) % 256)]
  let ext : Bytes := if (x >>> 44) % 4 == 0 then [24, 25, 26, 27, 28, 29, 30, 31] else []
  let v := be64 ts ++ be64 ((x >>> 20) % 5) ++ [0, if del then 1 else 0, 0, 0, 0, 0, 0, if ext.isEmpty then 0 else 1] ++ ext ++ app
  ((([0x6b] : Bytes) ++ dec6 i, v), x)

def fillOps (dbi : Bytes) (count seed : Nat) : List AppOp :=
  let rec go (i n x : Nat) (acc : List AppOp) : List AppOp :=
    match n with
    | 0 => acc.reverse
    | n + 1 =>
      let (kv, x') := fillEntry i x
      go (i + 1) n x' (AppOp.put dbi kv.1 kv.2 :: acc)
  go 0 count seed []

def fnv64 (s : String) : Nat :=
  s.toUTF8.toList.foldl (fun h b => ((h ^^^ b.toNat) * 1099511628211) % two64) 14695981039346656037

def opSweep (op : String) (a : List String) (st : DrvState) : Option (DrvState × String) :=
  match op, a with
  | "env.fill", [id, dbi, flags, count, seed] => do
    let i ← st.getEnv id
    let dbi ← hexArg dbi
    let ops := AppOp.create dbi (← natArg flags) :: fillOps dbi (← natArg count) (← natArg seed)
    match appTxn i.env ops with
    | none => pure (st, "err app")
    | some e => pure (st.setEnv id { i with env := e }, s!"ok T{e.lastTxn}")
  | "env.digest", [id] => do
    let i ← st.getEnv id
    let n := i.env.dbis.foldl (fun acc d => acc + d.kvs.length) 0
    pure (st, s!"ok {i.env.dbis.length} {n} {fnv64 (envOut i.env)}")
  | "sweep.wall", [_native, rd, ages] => do
    -- the sweeper's own cut-off: now - retention; an entry written `m` minutes ago carries the
    -- timestamp now - m minutes (any `now` beyond the largest age gives the same answer)
    let rd ← natArg rd
    let toks := splitOn ages ','
    let now := 4000000000000000000
    let cutoff := now - rd
    let kept ← (toks.zipIdx).filterMapM fun (t, j) => do
      let mins ← natArg ((t.dropEnd 1).toString)
      let del := t.endsWith "D"
      let ts := now - mins * 60000000000
      let v : Bytes := be64 ts ++ be64 1 ++ [0, if del then 1 else 0, 0, 0, 0, 0, 0, 0] ++ (if del then [] else [0x76])
      match Sweeper.expired cutoff v with
      | .ok true => pure none
      | _ => pure (some (toString j))
    pure (st, "ok kept=" ++ ",".intercalate kept)
  | "sweep.pass", [id, cutoff, n, batches] => do
    let i ← st.getEnv id
    let bs ← (splitOn batches '/').mapM fun b => (listArg b ',').mapM parseAppOp
    let app (k : Nat) (e : Env) : Env :=
      match bs[k]? with
      | some ops => (appTxn e ops).getD e
      | none => e
    match Sweeper.pass i.cfg.native (← natArg cutoff) (← natArg n) app i.env with
    | .error .header => pure (st, "err header")
    | .error .dbiMissing => pure (st, "err dbi-missing")
    | .ok (e, nt, nc) => pure (st.setEnv id { i with env := e }, s!"ok T{e.lastTxn} txns={nt} cleaned={nc}")
  | _, _ => none

end Ls.Drv
