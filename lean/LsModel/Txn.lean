import LsModel.Strategy
import LsModel.Merge
import LsModel.DupSort
/-
  Layer B: one Lightning Stream transaction as a function of the LMDB state.
  syncer/utils.go readDBI, syncer/shadow.go mainToShadow / shadowToMain,
  syncer/sync.go LoadOnce, syncer/send.go SendOnce (the transaction and the id adjustment).
-/
namespace Ls.Txn
open Ls Ls.Lmdb Ls.Strategy Ls.Merge

/-- one named DBI: persistent flags and content (sorted by its own order; a duplicate-keys DBI
    holds sorted (key, value) pairs) -/
structure Dbi where
  name : Bytes
  flags : Nat
  kvs : KVs
  deriving Repr, DecidableEq

/-- an LMDB environment: named DBIs in root-DBI (byte-wise name) order and the id of the last
    recorded write transaction -/
structure Env where
  dbis : List Dbi
  lastTxn : Nat
  deriving Repr, DecidableEq

/-- a DBI message of a snapshot -/
structure DbiMsg where
  name : Bytes
  flags : Nat
  transform : Bytes
  entries : List KV
  deriving Repr, DecidableEq

structure Snap where
  fv : Nat
  cv : Nat
  dbs : List DbiMsg
  deriving Repr, DecidableEq

structure Cfg where
  native : Bool        -- schema_tracks_changes
  hack : Bool          -- dupsort_hack
  pad : Bool           -- header_extra_padding_block
  receiveOnly : Bool
  override : List (Bytes × Nat)   -- dbi_options.override_create_flags
  deriving Repr

inductive Err where
  | dbiMissing          -- OpenDBI of a DBI that does not exist (MDB_NOTFOUND)
  | dupsortNoHack       -- a duplicate-keys DBI without the dupsort_hack option
  | entry               -- a stored value without a parsable header (ErrEntry)
  | dupHack             -- dupsort_hack refused the content or the shadow content is not decodable
  | transform           -- ValidateTransform refused the DBI message
  | createUnsafe        -- missing DBI cannot be created from a pre-v3 snapshot
  | version             -- NewNativeIterator refused the format / compat version
  | notSorted | iter | badKey | hang | panic   -- from the strategy
  deriving Repr, DecidableEq

def Err.cls : Err → String
  | .dbiMissing => "dbi-missing" | .dupsortNoHack => "dupsort-no-hack" | .entry => "entry"
  | .dupHack => "dup-hack" | .transform => "transform" | .createUnsafe => "create-unsafe"
  | .version => "version" | .notSorted => "not-sorted" | .iter => "iter" | .badKey => "bad-key"
  | .hang => "hang" | .panic => "panic"

/-- the working state of a write transaction -/
structure W where
  dbis : List Dbi
  dirty : Bool
  deriving Repr, DecidableEq

def strBytes (s : String) : Bytes := s.toUTF8.toList
def syncPrefix : Bytes := strBytes Gen.syncDBIPrefix
def shadowPrefix : Bytes := strBytes Gen.syncDBIShadowPrefix

def isPrivate (name : Bytes) : Bool := syncPrefix.isPrefixOf name
def shadowName (name : Bytes) : Bytes := shadowPrefix ++ name

def isDupSort (flags : Nat) : Bool := flags &&& Gen.dbiDupSort != 0
def isIntKey (flags : Nat) : Bool := flags &&& Gen.lmdbIntegerKeyFlag != 0

def findDbi (dbis : List Dbi) (name : Bytes) : Option Dbi := dbis.find? (·.name = name)

def setKvs (dbis : List Dbi) (name : Bytes) (kvs : KVs) : List Dbi :=
  dbis.map fun d => if d.name = name then { d with kvs := kvs } else d

/-- insert a new DBI keeping the root DBI's byte-wise name order -/
def insertDbi : List Dbi → Dbi → List Dbi
  | [], d => [d]
  | x :: rest, d => if bcmp d.name x.name < 0 then d :: x :: rest else x :: insertDbi rest d

/-- `txn.OpenDBI(name, lmdb.Create|flags)`: creates the DBI (a recorded change) when missing -/
def openCreate (w : W) (name : Bytes) (flags : Nat) : W :=
  match findDbi w.dbis name with
  | some _ => w
  | none => { dbis := insertDbi w.dbis { name := name, flags := flags, kvs := [] }, dirty := true }

/-- `lmdbenv.ReadDBINames` -/
def dbiNames (w : W) : List Bytes := w.dbis.map (·.name)

def mapStratErr {ε α} : Except (SErr ε) α → Except Err α
  | .ok a => .ok a
  | .error (.iter _) => .error .iter
  | .error .notSorted => .error .notSorted
  | .error .badKey => .error .badKey
  | .error .hang => .error .hang
  | .error .panic => .error .panic

/-- `Syncer.readDBI` -/
def readDBI (c : Cfg) (w : W) (dbiName origName : Bytes) (raw : Bool) : Except Err DbiMsg := do
  let some d := findDbi w.dbis dbiName | throw .dbiMissing
  let flags ← if dbiName ≠ origName then
      (match findDbi w.dbis origName with
       | some o => pure o.flags
       | none => throw .dbiMissing)
    else pure d.flags
  let dup := isDupSort flags
  if dup ∧ ¬ c.hack then throw .dupsortNoHack
  let entries ← d.kvs.mapM fun (kv : Bytes × Bytes) =>
    if raw then pure ({ key := kv.1, val := kv.2, ts := 0, flags := 0 } : KV)
    else match Header.parse kv.2 with
      | .error _ => throw Err.entry
      | .ok (h, app) =>
        pure ({ key := kv.1, val := app, ts := h.ts, flags := (Header.masked h.flags).toNat } : KV)
  pure { name := origName, flags := flags,
         transform := if dup then strBytes Gen.transformDupSortHackV1 else [],
         entries := entries }

/-- the iterator a `NativeIterator` presents to a strategy -/
def nativeIter (mc : Merge.Cfg) : Iter KV Header.Err :=
  { key := (·.key), merge := fun e old => Merge.merge mc e old, clean := fun old => Merge.clean mc old }

/-- the iterator a `PlainIterator` presents to a strategy -/
def plainIter : Iter KV Header.Err :=
  { key := (·.key), merge := fun e _ => .ok (Merge.plainMerge e), clean := fun _ => .ok Merge.plainClean }

def runOn (w : W) (name : Bytes) (f : S → Except Err S) : Except Err W := do
  let some d := findDbi w.dbis name | throw .dbiMissing
  let s ← f { db := d.kvs, dirty := w.dirty }
  pure { dbis := setKvs w.dbis name s.db, dirty := s.dirty }

/-- `Syncer.mainToShadow` (txnID = id of the enclosing write transaction, `now` = capture time,
    `cutoff` = deletedCutoff) -/
def mainToShadow (c : Cfg) (w : W) (txnID now cutoff : Nat) : Except Err W :=
  (dbiNames w).foldlM (fun w name => do
    if isPrivate name then pure w else
    let msg ← readDBI c w name name true
    let some d := findDbi w.dbis name | throw .dbiMissing
    let dup := isDupSort d.flags
    if dup ∧ ¬ c.hack then throw .dupsortNoHack
    let targetFlags := d.flags &&& Gen.allowedShadowDBIFlagsMask
    let entries ← if c.hack ∧ dup then
        (match DupSort.encodeAll msg.entries with
         | .ok r => pure r
         | .error _ => throw Err.dupHack)
      else pure msg.entries
    let w := openCreate w (shadowName name) targetFlags
    let some sd := findDbi w.dbis (shadowName name) | throw .dbiMissing
    let mc : Merge.Cfg := { fv := Gen.currentFormatVersion, defTs := now, txn := txnID, cutoff := cutoff, pad := false }
    runOn w (shadowName name) fun s => mapStratErr (iterUpdate (isIntKey sd.flags) (nativeIter mc) s entries)) w

/-- `Syncer.shadowToMain` -/
def shadowToMain (c : Cfg) (w : W) : Except Err W :=
  (dbiNames w).foldlM (fun w name => do
    if isPrivate name then pure w else
    let some d := findDbi w.dbis name | throw .dbiMissing
    let dup := isDupSort d.flags
    if dup ∧ ¬ c.hack then throw .dupsortNoHack
    let msg ← readDBI c w (shadowName name) name false
    let entries ← if dup then
        (match DupSort.decodeAll msg.entries with
         | .ok r => pure r
         | .error _ => throw Err.dupHack)
      else pure msg.entries
    runOn w name fun s =>
      if dup then mapStratErr (emptyPut (isIntKey d.flags) true plainIter s entries)
      else mapStratErr (iterUpdate (isIntKey d.flags) plainIter s entries)) w

def transformSupported (t : Bytes) : Bool := t = [] || t = strBytes Gen.transformDupSortHackV1

/-- `DBI.ValidateTransform` -/
def validateTransform (m : DbiMsg) (fv : Nat) (native : Bool) : Bool :=
  if ¬ transformSupported m.transform then false
  else if native ∧ m.transform ≠ [] then false
  else if fv ≥ 3 then
    let fd := isDupSort (m.flags % 2 ^ 64)   -- uint(d.Flags())
    let td := m.transform = strBytes Gen.transformDupSortHackV1
    if fd ∧ ¬ td then false else if ¬ fd ∧ td then false else true
  else true

/-- the checks of `NewNativeIterator` -/
def versionOk (fv cv : Nat) : Bool :=
  fv ≠ 0 && cv ≤ Gen.currentFormatVersion && fv ≥ Gen.compatFormatVersion

/-- the per-DBI part of `LoadOnce` -/
def loadDbi (c : Cfg) (snap : Snap) (txnID cutoff : Nat) (w : W) (m : DbiMsg) : Except Err W := do
  if isPrivate m.name then pure w else
  if ¬ validateTransform m snap.fv c.native then throw .transform
  let ovr := (c.override.find? (·.1 = m.name)).map (·.2)
  let target := if c.native then m.name else shadowName m.name
  let w ← if c.native then pure w else
    (match findDbi w.dbis m.name with
     | some _ => pure w
     | none =>
       if snap.fv < 3 ∧ ovr.isNone then throw Err.createUnsafe
       else pure (openCreate w m.name ((ovr.getD m.flags) % 2 ^ 16)))
  let w := match findDbi w.dbis target with
    | some _ => w
    | none =>
      let fl := (ovr.getD m.flags) % 2 ^ 16
      openCreate w target (if c.native then fl else fl &&& Gen.allowedShadowDBIFlagsMask)
  let some td := findDbi w.dbis target | throw .dbiMissing
  if ¬ versionOk snap.fv snap.cv then throw .version
  let mc : Merge.Cfg := { fv := snap.fv, defTs := 0, txn := txnID, cutoff := cutoff, pad := c.pad }
  runOn w target fun s => mapStratErr (update (isIntKey td.flags) (nativeIter mc) s m.entries)

/-- result of `LoadOnce`: new environment, the returned (adjusted) transaction id, localChanged -/
structure LoadRes where
  env : Env
  txnID : Nat
  localChanged : Bool
  deriving Repr, DecidableEq

/-- commit: LMDB records the transaction only if it changed something -/
def commit (e : Env) (w : W) : Env :=
  { dbis := w.dbis, lastTxn := if w.dirty then e.lastTxn + 1 else e.lastTxn }

/-- `Syncer.LoadOnce` (one write transaction; any error aborts it and leaves `e` as it was) -/
def loadOnce (c : Cfg) (e : Env) (snap : Snap) (lastSynced now cutoff : Nat) : Except Err LoadRes := do
  let txnID := e.lastTxn + 1
  let localChanged := lastSynced < txnID - 1
  let w : W := { dbis := e.dbis, dirty := false }
  let w ← if ¬ c.native ∧ localChanged then mainToShadow c w txnID now cutoff else pure w
  let w ← snap.dbs.foldlM (loadDbi c snap txnID cutoff) w
  let w ← if ¬ c.native then shadowToMain c w else pure w
  let e' := commit e w
  pure { env := e', txnID := if e'.lastTxn < txnID then e'.lastTxn else txnID, localChanged := localChanged }

structure SendRes where
  env : Env
  txnID : Nat
  snap : Snap
  deriving Repr, DecidableEq

/-- `Syncer.SendOnce` up to and including the transaction-id adjustment (the snapshot is what
    is then encoded and stored, unless receive-only) -/
def sendOnce (c : Cfg) (e : Env) (now cutoff : Nat) : Except Err SendRes := do
  let txnID := if c.native then e.lastTxn else e.lastTxn + 1
  let w : W := { dbis := e.dbis, dirty := false }
  let w ← if c.native then pure w else mainToShadow c w txnID now cutoff
  let dbs ← if c.receiveOnly then pure [] else
    (dbiNames w).filter (fun n => !isPrivate n) |>.mapM fun name =>
      readDBI c w (if c.native then name else shadowName name) name false
  let e' := if c.native then e else commit e w
  pure { env := e', txnID := if e'.lastTxn < txnID then e'.lastTxn else txnID,
         snap := { fv := Gen.currentFormatVersion, cv := Gen.writeCompatFormatVersion, dbs := dbs } }

/-- an application write inside one committed application transaction -/
inductive AppOp where
  | put (dbi key val : Bytes)
  | del (dbi key : Bytes)
  | create (dbi : Bytes) (flags : Nat)
  deriving Repr, DecidableEq

def appStep (w : W) : AppOp → W
  | .create name flags => openCreate w name flags
  | .put name k v =>
    match findDbi w.dbis name with
    | none => w
    | some d =>
      -- (the harness's application never writes zero-length duplicates: LMDB's handling of
      --  those depends on the number of duplicates already present)
      if isDupSort d.flags ∧ v.length = 0 then w else
      let kvs := if isDupSort d.flags then putDup d.kvs k v else put (isIntKey d.flags) d.kvs k v
      { dbis := setKvs w.dbis name kvs, dirty := true }
  | .del name k =>
    match findDbi w.dbis name with
    | none => w
    | some d =>
      if isDupSort d.flags then
        let kvs := d.kvs.filter (fun p => p.1 ≠ k)
        { dbis := setKvs w.dbis name kvs, dirty := w.dirty || kvs.length ≠ d.kvs.length }
      else
        let (kvs, found) := Lmdb.del (isIntKey d.flags) d.kvs k
        { dbis := setKvs w.dbis name kvs, dirty := w.dirty || found }

/-- does LMDB refuse this application write (the harness's application then aborts)? -/
def appRefused (w : W) : AppOp → Bool
  | .put name k v =>
    match findDbi w.dbis name with
    | none => false
    | some d => badKey k || (isDupSort d.flags && v.length > Gen.strategyMaxKeySize)
  | _ => false

/-- one application transaction: committed, or aborted as a whole when LMDB refuses a write -/
def appTxn (e : Env) (ops : List AppOp) : Option Env :=
  let r := ops.foldl (fun (acc : Option W) op =>
    match acc with
    | none => none
    | some w => if appRefused w op then none else some (appStep w op)) (some { dbis := e.dbis, dirty := false })
  r.map (commit e)

end Ls.Txn
