import LsModel.Txn
/-
  syncer/sweeper/sweeper.go (sweep) + lmdbenv/limitscanner/scanner.go (LimitScanner).
  One pass = for each swept DBI a sequence of write-lock slices; between slices the
  application may commit anything.
-/
namespace Ls.Sweeper
open Ls Ls.Lmdb Ls.Txn

/-- position at which a slice starts scanning: the first entry, or after `SetRange(last.key)`:
    the first entry with key ≥ last.key, skipping it iff key and value both equal `last` -/
def startAt (ik : Bool) (db : KVs) (last : Option (Bytes × Bytes)) : KVs :=
  match last with
  | none => db
  | some (lk, lv) =>
    let rest := db.dropWhile (fun kv => kcmp ik kv.1 lk < 0)
    match rest with
    | (k, v) :: tl => if k = lk ∧ v = lv then tl else rest
    | [] => []

inductive Err where
  | header        -- a swept value does not parse (the slice's transaction aborts)
  | dbiMissing
  deriving Repr, DecidableEq

structure SliceRes where
  db : KVs
  last : Option (Bytes × Bytes)
  limitReached : Bool
  cleaned : Nat
  deriving Repr, DecidableEq

/-- is this stored value a deletion marker older than the cut-off? -/
def expired (cutoff : Nat) (v : Bytes) : Except Err Bool :=
  match Header.parse v with
  | .error _ => .error .header
  | .ok (h, _) => .ok (Header.isDeleted h.flags && h.ts < cutoff)

/-- scan up to `n` entries (`none`: no limit) of `todo`, deleting expired markers from `db` -/
def scan (ik : Bool) (cutoff : Nat) : Option Nat → KVs → KVs → Option (Bytes × Bytes) → Nat → Except Err SliceRes
  | some 0, _, db, last, cleaned => .ok { db := db, last := last, limitReached := true, cleaned := cleaned }
  | _, [], db, last, cleaned => .ok { db := db, last := last, limitReached := false, cleaned := cleaned }
  | lim, (k, v) :: rest, db, _, cleaned =>
    match expired cutoff v with
    | .error e => .error e
    | .ok true => scan ik cutoff (lim.map (· - 1)) rest (del ik db k).1 (some (k, v)) (cleaned + 1)
    | .ok false => scan ik cutoff (lim.map (· - 1)) rest db (some (k, v)) cleaned

/-- one write-lock slice on one DBI: `n` = number of entries after which the deadline check
    trips (a positive multiple of the check interval), `none` = the deadline never trips -/
def slice (ik : Bool) (cutoff : Nat) (db : KVs) (last : Option (Bytes × Bytes)) (n : Option Nat) :
    Except Err SliceRes :=
  scan ik cutoff n (startAt ik db last) db last 0

/-- which DBIs a pass sweeps: all of them under a native schema, only Lightning Stream's own
    (private prefix) otherwise -/
def swept (native : Bool) (name : Bytes) : Bool := native || isPrivate name

/-- a whole pass over an environment, with `app i` = what the application commits at the i-th
    slice boundary (in order over the whole pass) and `n` = the slice length. Returns the final
    environment, the number of write transactions opened and of markers removed.
    Fuel bounds the number of slices (each slice consumes at least one entry or ends the DBI). -/
def passDbi (ik : Bool) (cutoff n : Nat) (app : Nat → Env → Env) (name : Bytes) :
    Nat → Env → Option (Bytes × Bytes) → Nat → Nat → Nat → Except Err (Env × Nat × Nat × Nat)
  | 0, e, _, bi, nt, nc => .ok (e, bi, nt, nc)
  | fuel + 1, e, last, bi, nt, nc =>
    match findDbi e.dbis name with
    | none => .error .dbiMissing
    | some d =>
      match slice ik cutoff d.kvs last (some n) with
      | .error err => .error err
      | .ok r =>
        let e' : Env := { dbis := setKvs e.dbis name r.db, lastTxn := if r.cleaned > 0 then e.lastTxn + 1 else e.lastTxn }
        if r.limitReached then passDbi ik cutoff n app name fuel (app bi e') r.last (bi + 1) (nt + 1) (nc + r.cleaned)
        else .ok (e', bi, nt + 1, nc + r.cleaned)

def pass (native : Bool) (cutoff n : Nat) (app : Nat → Env → Env) (e : Env) : Except Err (Env × Nat × Nat) :=
  let names := (e.dbis.map (·.name)).filter (swept native)
  let r : Except Err (Env × Nat × Nat × Nat) := names.foldlM (fun (acc : Env × Nat × Nat × Nat) name =>
    let (e, bi, nt, nc) := acc
    match findDbi e.dbis name with
    | none => Except.error Err.dbiMissing
    | some d => passDbi (isIntKey d.flags) cutoff n app name (d.kvs.length + 2 + 1000) e none bi nt nc) (e, 0, 0, 0)
  r.map fun (e, _, nt, nc) => (e, nt, nc)

end Ls.Sweeper
