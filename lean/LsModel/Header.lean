import LsModel.Bytes
import LsModel.Generated
/-
  lmdbenv/header/header.go : PutBasic, Parse, Skip.
-/
namespace Ls.Header
open Ls

structure Hdr where
  ts : Nat
  txn : Nat
  version : Nat
  flags : UInt8
  numExtra : Nat
  extra : Bytes
  deriving Repr, DecidableEq

inductive Err where
  | tooShort
  | version
  deriving Repr, DecidableEq

def Err.cls : Err → String
  | .tooShort => "too-short"
  | .version => "bad-version"

def hsz : Nat := Gen.minHeaderSize
def bsz : Nat := Gen.blockSize

/-- `getNumExtra`: big-endian uint16 at offsets 22,23 -/
def getNumExtra (val : Bytes) : Nat :=
  beNat (slice val Gen.numExtraOffsetHigh (Gen.numExtraOffsetHigh + 2))

/-- `header.Parse` -/
def parse (val : Bytes) : Except Err (Hdr × Bytes) :=
  if val.length < hsz then .error .tooShort
  else if val.getD Gen.versionOffset 0 ≠ 0 then .error .version
  else
    let n := getNumExtra val
    if n > 0 ∧ val.length < hsz + bsz * n then .error .tooShort
    else
      let off := hsz + bsz * n
      .ok ({ ts := beNat (slice val 0 8), txn := beNat (slice val 8 16),
             version := (val.getD Gen.versionOffset 0).toNat,
             flags := val.getD Gen.flagsOffset 0, numExtra := n,
             extra := if n > 0 then slice val hsz off else [] },
           val.drop off)

/-- `header.Skip` -/
def skip (val : Bytes) : Except Err Bytes :=
  if val.length < hsz then .error .tooShort
  else if val.getD Gen.versionOffset 0 ≠ 0 then .error .version
  else
    let n := getNumExtra val
    if n > 0 ∧ val.length < hsz + bsz * n then .error .tooShort
    else .ok (val.drop (hsz + bsz * n))

/-- the 24 bytes `PutBasic` writes: ts, txnid big-endian; version 0; flags; four reserved
    zero bytes; extension count 0. Offsets are checked against the generated constants in
    `LsProps.C14` (`layout_matches_generated`). -/
def putBasic (ts txn : Nat) (flags : UInt8) : Bytes :=
  be64 ts ++ be64 txn ++ [0, flags, 0, 0, 0, 0, 0, 0]

def isDeleted (f : UInt8) : Bool := f &&& UInt8.ofNat Gen.flagDeleted != 0
def masked (f : UInt8) : UInt8 := f &&& UInt8.ofNat Gen.flagSyncMask

end Ls.Header
