import LsModel.Bytes
/-
  Layer D: logical versions and the last-writer-wins order.
-/
namespace Ls

/-- the logical content of one key: timestamp, deleted flag, application value -/
structure Ver where
  ts : Nat
  del : Bool
  val : Bytes
  deriving DecidableEq, Repr, Inhabited

/-- what Lightning Stream writes and reads: a deleted entry has no value -/
def Ver.WF (v : Ver) : Prop := v.del = true → v.val = []

instance (v : Ver) : Decidable v.WF := by unfold Ver.WF; exact inferInstance

/-- `a` strictly wins last-writer-wins against `b`: higher timestamp; on equal timestamps the
    lexicographically lower value; on equal values a deletion wins over a live entry. -/
def Ver.beats (a b : Ver) : Prop :=
  b.ts < a.ts ∨ (a.ts = b.ts ∧ (a.val < b.val ∨ (a.val = b.val ∧ a.del = true ∧ b.del = false)))

instance (a b : Ver) : Decidable (a.beats b) := by unfold Ver.beats; exact inferInstance

/-- the winner of two versions (left-biased on equal versions) -/
def Ver.max (a b : Ver) : Ver := if b.beats a then b else a

/-- join on optional versions (absent is the bottom element) -/
def join : Option Ver → Option Ver → Option Ver
  | none, b => b
  | a, none => a
  | some a, some b => some (a.max b)

end Ls
