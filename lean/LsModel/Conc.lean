/-
  Layer E: small-step models of the three concurrent components of C17.

  Every goroutine has an explicit program counter; a mutex is a field holding its owner; an
  unbuffered channel is a rendez-vous: the sender waits in a `sending` program counter until a
  receiver that waits in its `nextWait` program counter takes the value (one joint step), a
  buffered channel is a counter with a capacity; closing a channel sets a flag. "Blocked" is
  therefore explicit: a goroutine whose guard is false. A state is *stuck* when some goroutine is
  unfinished and no step at all is enabled.

  * `Topic`   — utils/topics/topic.go + subscription.go: one publisher goroutine calling `Publish`
                any number of times, k subscriber goroutines `Subscribe; (Next | Close)*` with
                `Close` at any moment and any number of times. `fixed = true` is the current code
                (`Publish` selects on the per-subscription `closing` channel, `Close` closes it
                before it asks for the topic mutex), `fixed = false` the code before 6c0a76e.
  * `Token`   — utils/climit/climit.go: a channel of capacity `limit`, pre-filled; `Acquire`
                receives, `Token.Release` (any goroutine, any number of times, any token) is
                `lock; if ¬released { send; released := true }; unlock`.
  * `Storage` — snapshot/storage/storage.go: `SetGlobal`, `GetGlobal`, `wait` under the package's
                RWMutex and the `ready` channel. `fixed = true` is the current nil check after the
                wait, `fixed = false` the inverted one before 9c71a0d. `wpref` selects whether a
                pending writer holds back new readers (Go's RWMutex does) or not.

  Core Lean only; every guard is a `Bool`, every step a total function: the models run.
-/
namespace Ls.Conc

/-! ## Topic -/
namespace Topic

/-- who can own the topic mutex -/
inductive Tid where
  | pub
  | sub (i : Nat)
  deriving DecidableEq, Repr

/-- the publisher goroutine: `for { Publish(v) }`.
    `loop todo`: inside `Publish`, holding `t.mu`, `todo` = subscribers still to be visited by the
    `range` over the map; `sending i todo`: blocked in the `select` on subscriber `i`. -/
inductive PubPc where
  | idle
  | lockWait
  | loop (todo : List Nat)
  | sending (i : Nat) (todo : List Nat)
  | done
  | panic                               -- a send on a closed channel
  deriving DecidableEq, Repr

/-- a subscriber goroutine -/
inductive SubPc where
  | start                               -- before `Subscribe`: needs `t.mu`
  | subscribing                         -- in `Subscribe`, holding `t.mu`
  | ready                               -- between calls: may call `Next` or `Close`
  | nextWait                            -- in `Next`, blocked in the `select`
  | cLock                               -- `Close`: waiting for `s.mu`
  | cCheck                              -- holding `s.mu`, at `if s.topic == nil`
  | cClosing                            -- at `close(s.closing)`
  | cLockT                              -- `unsubscribeID`: waiting for `t.mu`
  | cUnsub                              -- holding `t.mu`, at the map lookup
  | cUnlockT                            -- at `t.mu.Unlock()`
  | cNil                                -- at `s.ch = nil; s.topic = nil`
  | cUnlockS                            -- at `s.mu.Unlock()`
  | closedIdle                          -- a `Close` has returned: may `Close` again or finish
  | done
  deriving DecidableEq, Repr

/-- one subscription and its goroutine. `nClosing`, `nCh`, `got` are ghost counters: how often
    `close(closing)` / `close(ch)` were executed, how many values `Next` returned. -/
structure Sub where
  pc : SubPc := .start
  smu : Bool := false                   -- `s.mu` is held
  topicNil : Bool := true               -- `s.topic == nil`
  inMap : Bool := false                 -- the id is in `t.subscribers`
  closing : Bool := false               -- the `closing` channel is closed
  chClosed : Bool := false              -- the value channel is closed
  nClosing : Nat := 0
  nCh : Nat := 0
  got : Nat := 0
  deriving DecidableEq, Repr

structure St where
  fixed : Bool
  tmu : Option Tid
  cancelled : Bool                      -- the subscribers' context
  pub : PubPc
  subs : List Sub
  deriving DecidableEq, Repr

inductive SubAct where
  | subLock | subInsert | nextCall | recvClosed | ctxDone | closeCall
  | lockS | check | closeClosing | lockT | unsub | unlockT | setNil | unlockS | finish
  deriving DecidableEq, Repr

inductive Step where
  | pubCall | pubFinish | pubLock
  | pubPick (i : Nat)
  | pubDeliver                          -- the rendez-vous: publisher's send + subscriber's receive
  | pubSkip                             -- `case <-sub.closing`
  | pubSendClosed                       -- send on a closed channel: panics
  | pubUnlock
  | cancel
  | sub (i : Nat) (a : SubAct)
  deriving DecidableEq, Repr

def init (fixed : Bool) (k : Nat) : St :=
  { fixed := fixed, tmu := none, cancelled := false, pub := .idle, subs := List.replicate k {} }

/-- the ids in `t.subscribers` -/
def inMapIdx (subs : List Sub) : List Nat :=
  (List.range subs.length).filter fun j => match subs[j]? with
    | some sb => sb.inMap
    | none => false

def subGuard (tmu : Option Tid) (cancelled : Bool) (sb : Sub) : SubAct → Bool
  | .subLock => decide (sb.pc = .start ∧ tmu = none)
  | .subInsert => decide (sb.pc = .subscribing)
  | .nextCall => decide (sb.pc = .ready)
  | .recvClosed => decide (sb.pc = .nextWait ∧ sb.chClosed = true)
  | .ctxDone => decide (sb.pc = .nextWait ∧ cancelled = true)
  | .closeCall => decide (sb.pc = .ready ∨ sb.pc = .closedIdle)
  | .lockS => decide (sb.pc = .cLock ∧ sb.smu = false)
  | .check => decide (sb.pc = .cCheck)
  | .closeClosing => decide (sb.pc = .cClosing)
  | .lockT => decide (sb.pc = .cLockT ∧ tmu = none)
  | .unsub => decide (sb.pc = .cUnsub)
  | .unlockT => decide (sb.pc = .cUnlockT)
  | .setNil => decide (sb.pc = .cNil)
  | .unlockS => decide (sb.pc = .cUnlockS)
  | .finish => decide (sb.pc = .closedIdle)

/-- the subscriber's own fields after its step -/
def subLoc (fixed : Bool) (sb : Sub) : SubAct → Sub
  | .subLock => { sb with pc := .subscribing }
  | .subInsert => { sb with pc := .ready, inMap := true, topicNil := false }
  | .nextCall => { sb with pc := .nextWait }
  | .recvClosed => { sb with pc := .ready }          -- `Next` returns io.ErrClosedPipe
  | .ctxDone => { sb with pc := .ready }             -- `Next` returns ctx.Err()
  | .closeCall => { sb with pc := .cLock }
  | .lockS => { sb with pc := .cCheck, smu := true }
  | .check =>
    if sb.topicNil then { sb with pc := .cUnlockS }  -- already closed: return
    else if fixed then { sb with pc := .cClosing }
    else { sb with pc := .cLockT }
  | .closeClosing => { sb with pc := .cLockT, closing := true, nClosing := sb.nClosing + 1 }
  | .lockT => { sb with pc := .cUnsub }
  | .unsub =>
    if sb.inMap then { sb with pc := .cUnlockT, inMap := false, chClosed := true, nCh := sb.nCh + 1 }
    else { sb with pc := .cUnlockT }
  | .unlockT => { sb with pc := .cNil }
  | .setNil => { sb with pc := .cUnlockS, topicNil := true }
  | .unlockS => { sb with pc := .closedIdle, smu := false }
  | .finish => { sb with pc := .done }

/-- the topic mutex after subscriber `i`'s step -/
def subTmu (i : Nat) (tmu : Option Tid) : SubAct → Option Tid
  | .subLock => some (.sub i)
  | .lockT => some (.sub i)
  | .subInsert => none
  | .unlockT => none
  | _ => tmu

def guard (s : St) : Step → Bool
  | .pubCall => decide (s.pub = .idle)
  | .pubFinish => decide (s.pub = .idle)
  | .pubLock => decide (s.pub = .lockWait ∧ s.tmu = none)
  | .pubPick i => match s.pub with
    | .loop todo => decide (i ∈ todo)
    | _ => false
  | .pubDeliver => match s.pub with
    | .sending i _ => match s.subs[i]? with
      | some sb => decide (sb.pc = .nextWait ∧ sb.chClosed = false)
      | none => false
    | _ => false
  | .pubSkip => match s.pub with
    | .sending i _ => match s.subs[i]? with
      | some sb => s.fixed && sb.closing
      | none => false
    | _ => false
  | .pubSendClosed => match s.pub with
    | .sending i _ => match s.subs[i]? with
      | some sb => sb.chClosed
      | none => false
    | _ => false
  | .pubUnlock => decide (s.pub = .loop [])
  | .cancel => !s.cancelled
  | .sub i a => match s.subs[i]? with
    | some sb => subGuard s.tmu s.cancelled sb a
    | none => false

def next (s : St) : Step → St
  | .pubCall => { s with pub := .lockWait }
  | .pubFinish => { s with pub := .done }
  | .pubLock => { s with pub := .loop (inMapIdx s.subs), tmu := some .pub }
  | .pubPick i => match s.pub with
    | .loop todo => { s with pub := .sending i (todo.erase i) }
    | _ => s
  | .pubDeliver => match s.pub with
    | .sending i todo => match s.subs[i]? with
      | some sb => { s with pub := .loop todo, subs := s.subs.set i { sb with pc := .ready, got := sb.got + 1 } }
      | none => s
    | _ => s
  | .pubSkip => match s.pub with
    | .sending _ todo => { s with pub := .loop todo }
    | _ => s
  | .pubSendClosed => { s with pub := .panic }
  | .pubUnlock => { s with pub := .idle, tmu := none }
  | .cancel => { s with cancelled := true }
  | .sub i a => match s.subs[i]? with
    | some sb => { s with tmu := subTmu i s.tmu a, subs := s.subs.set i (subLoc s.fixed sb a) }
    | none => s

def enabled (s : St) (a : Step) : Prop := guard s a = true

instance (s : St) (a : Step) : Decidable (enabled s a) := by unfold enabled; infer_instance

/-- run a schedule; `none` when a step of the schedule is not enabled -/
def run (s : St) : List Step → Option St
  | [] => some s
  | a :: rest => if guard s a then run (next s a) rest else none

def allDone (s : St) : Prop := s.pub = .done ∧ ∀ sb ∈ s.subs, sb.pc = .done

instance (s : St) : Decidable (allDone s) := by unfold allDone; infer_instance

/-- deadlock: a goroutine is unfinished and no step at all is enabled -/
def Stuck (s : St) : Prop := ¬ allDone s ∧ ∀ a, guard s a = false

/-- reachable from the initial state with `k` subscriber goroutines -/
inductive Reach (fixed : Bool) (k : Nat) : St → Prop where
  | init : Reach fixed k (init fixed k)
  | step {s : St} (a : Step) : Reach fixed k s → enabled s a → Reach fixed k (next s a)

/-- subscribers still to be served by the current `Publish` call, including the one it is
    blocked on -/
def pubRemaining : PubPc → Nat
  | .loop todo => todo.length
  | .sending _ todo => todo.length + 1
  | _ => 0

/-- how many steps of its own subscriber `i` needs at most before a publisher that is blocked on
    it can move on (0: the publisher can move now) -/
def waitDist : SubPc → Nat
  | .ready => 4
  | .cLock => 3
  | .cCheck => 2
  | .cClosing => 1
  | _ => 0

end Topic

/-! ## Token -/
namespace Token

inductive GPc where
  | idle
  | acquiring                           -- in `Acquire`, blocked in `<-cl.ch`
  | rLock (t : Nat)                     -- in `Release` of token `t`, waiting for `t.mu`
  | rCheck (t : Nat)                    -- holding `t.mu`, at `if t.released`
  | rSend (t : Nat)                     -- at `t.cl.ch <- t.token`
  | rSet (t : Nat)                      -- at `t.released = true`
  | rUnlock (t : Nat)
  | done
  deriving DecidableEq, Repr

/-- a token handed out by `Acquire`; `nSends` is a ghost counter of sends made for it -/
structure Tok where
  mu : Option Nat := none
  released : Bool := false
  nSends : Nat := 0
  deriving DecidableEq, Repr

structure St where
  limit : Nat
  free : Nat                            -- number of values in the channel (capacity `limit`)
  toks : List Tok
  gs : List GPc
  deriving DecidableEq, Repr

inductive Act where
  | acquireCall | acquire | releaseCall (t : Nat) | lock | check | send | setReleased | unlock | finish
  deriving DecidableEq, Repr

structure Step where
  g : Nat
  a : Act
  deriving DecidableEq, Repr

def init (limit n : Nat) : St :=
  { limit := limit, free := limit, toks := [], gs := List.replicate n .idle }

def tokMu (s : St) (t : Nat) : Option (Option Nat) := (s.toks[t]?).map (·.mu)

def actGuard (s : St) (pc : GPc) : Act → Bool
  | .acquireCall => decide (pc = .idle)
  | .acquire => decide (pc = .acquiring ∧ 0 < s.free)
  | .releaseCall t => decide (pc = .idle ∧ t < s.toks.length)
  | .lock => match pc with
    | .rLock t => decide (tokMu s t = some none)
    | _ => false
  | .check => match pc with
    | .rCheck _ => true
    | _ => false
  | .send => match pc with
    | .rSend _ => decide (s.free < s.limit)          -- the channel has room
    | _ => false
  | .setReleased => match pc with
    | .rSet _ => true
    | _ => false
  | .unlock => match pc with
    | .rUnlock _ => true
    | _ => false
  | .finish => decide (pc = .idle)

def modTok (s : St) (t : Nat) (f : Tok → Tok) : List Tok :=
  match s.toks[t]? with
  | some tk => s.toks.set t (f tk)
  | none => s.toks

def actNext (s : St) (g : Nat) (pc : GPc) : Act → St
  | .acquireCall => { s with gs := s.gs.set g .acquiring }
  | .acquire => { s with free := s.free - 1, toks := s.toks ++ [{}], gs := s.gs.set g .idle }
  | .releaseCall t => { s with gs := s.gs.set g (.rLock t) }
  | .lock => match pc with
    | .rLock t => { s with toks := modTok s t (fun tk => { tk with mu := some g }), gs := s.gs.set g (.rCheck t) }
    | _ => s
  | .check => match pc with
    | .rCheck t =>
      match s.toks[t]? with
      | some tk => { s with gs := s.gs.set g (if tk.released then .rUnlock t else .rSend t) }
      | none => s
    | _ => s
  | .send => match pc with
    | .rSend t => { s with free := s.free + 1, toks := modTok s t (fun tk => { tk with nSends := tk.nSends + 1 }),
                           gs := s.gs.set g (.rSet t) }
    | _ => s
  | .setReleased => match pc with
    | .rSet t => { s with toks := modTok s t (fun tk => { tk with released := true }), gs := s.gs.set g (.rUnlock t) }
    | _ => s
  | .unlock => match pc with
    | .rUnlock t => { s with toks := modTok s t (fun tk => { tk with mu := none }), gs := s.gs.set g .idle }
    | _ => s
  | .finish => { s with gs := s.gs.set g .done }

def guard (s : St) (x : Step) : Bool :=
  match s.gs[x.g]? with
  | some pc => actGuard s pc x.a
  | none => false

def next (s : St) (x : Step) : St :=
  match s.gs[x.g]? with
  | some pc => actNext s x.g pc x.a
  | none => s

def enabled (s : St) (x : Step) : Prop := guard s x = true

instance (s : St) (x : Step) : Decidable (enabled s x) := by unfold enabled; infer_instance

def run (s : St) : List Step → Option St
  | [] => some s
  | a :: rest => if guard s a then run (next s a) rest else none

def allDone (s : St) : Prop := ∀ pc ∈ s.gs, pc = .done

instance (s : St) : Decidable (allDone s) := by unfold allDone; infer_instance

def Stuck (s : St) : Prop := ¬ allDone s ∧ ∀ x, guard s x = false

/-- reachable with capacity `limit` and `n` goroutines -/
inductive Reach (limit n : Nat) : St → Prop where
  | init : Reach limit n (init limit n)
  | step {s : St} (x : Step) : Reach limit n s → enabled s x → Reach limit n (next s x)

/-- tokens for which no value has been sent back yet -/
def unsent (toks : List Tok) : Nat := toks.countP fun tk => tk.nSends = 0

end Token

/-! ## Global storage -/
namespace Storage

/-- `SetGlobal` -/
inductive SPc where
  | start
  | pending                             -- `mu.Lock()` called, not yet granted
  | check                               -- holding `mu`, at `if storage == nil`
  | close                               -- at `close(ready)`
  | store                               -- at `storage = st`
  | unlock
  | done
  deriving DecidableEq, Repr

/-- `GetGlobal`; the Boolean carried is "the value read is non-nil" -/
inductive GPc where
  | start                               -- at the first `mu.RLock()`
  | read1                               -- holding the read lock
  | unlock1 (v : Bool)
  | test1 (v : Bool)                    -- at `if st != nil`
  | wait                                -- in `wait()`, blocked on `<-ready`
  | lock2                               -- at the second `mu.RLock()`
  | read2
  | unlock2 (v : Bool)
  | test2 (v : Bool)                    -- at the check after the wait
  | done (v : Bool)                     -- returned; `v`: the handle returned is non-nil
  | panic
  deriving DecidableEq, Repr

structure St where
  fixed : Bool
  wpref : Bool                          -- a pending writer holds back new readers
  writer : Option Nat
  readers : Nat
  stored : Bool                         -- `storage != nil`
  ready : Bool                          -- `ready` is closed
  nClose : Nat                          -- ghost: number of `close(ready)` executed
  setters : List SPc
  getters : List GPc
  deriving DecidableEq, Repr

inductive SAct where
  | call | lock | check | closeReady | store | unlock
  deriving DecidableEq, Repr

inductive GAct where
  | rlock1 | read1 | runlock1 | test1 | wake | rlock2 | read2 | runlock2 | test2
  deriving DecidableEq, Repr

inductive Step where
  | set (i : Nat) (a : SAct)
  | get (i : Nat) (a : GAct)
  deriving DecidableEq, Repr

def init (fixed wpref : Bool) (nSet nGet : Nat) : St :=
  { fixed := fixed, wpref := wpref, writer := none, readers := 0, stored := false, ready := false,
    nClose := 0, setters := List.replicate nSet .start, getters := List.replicate nGet .start }

/-- `RLock` is granted -/
def canRead (s : St) : Bool :=
  decide (s.writer = none) && (!s.wpref || s.setters.all fun pc => decide (pc ≠ .pending))

def sGuard (s : St) (pc : SPc) : SAct → Bool
  | .call => decide (pc = .start)
  | .lock => decide (pc = .pending ∧ s.writer = none ∧ s.readers = 0)
  | .check => decide (pc = .check)
  | .closeReady => decide (pc = .close)
  | .store => decide (pc = .store)
  | .unlock => decide (pc = .unlock)

def sNext (s : St) (i : Nat) : SAct → St
  | .call => { s with setters := s.setters.set i .pending }
  | .lock => { s with writer := some i, setters := s.setters.set i .check }
  | .check => { s with setters := s.setters.set i (if s.stored then .store else .close) }
  | .closeReady => { s with ready := true, nClose := s.nClose + 1, setters := s.setters.set i .store }
  | .store => { s with stored := true, setters := s.setters.set i .unlock }
  | .unlock => { s with writer := none, setters := s.setters.set i .done }

def gGuard (s : St) (pc : GPc) : GAct → Bool
  | .rlock1 => decide (pc = .start) && canRead s
  | .read1 => decide (pc = .read1)
  | .runlock1 => match pc with
    | .unlock1 _ => true
    | _ => false
  | .test1 => match pc with
    | .test1 _ => true
    | _ => false
  | .wake => decide (pc = .wait) && s.ready
  | .rlock2 => decide (pc = .lock2) && canRead s
  | .read2 => decide (pc = .read2)
  | .runlock2 => match pc with
    | .unlock2 _ => true
    | _ => false
  | .test2 => match pc with
    | .test2 _ => true
    | _ => false

/-- the check after `wait()`; `v`: the value read is non-nil -/
def afterWait (fixed v : Bool) : GPc :=
  if fixed then (if v then .done true else .panic)    -- `if st == nil { panic }`
  else (if v then .panic else .done false)            -- before 9c71a0d: `if st != nil { panic }`

def gNext (s : St) (i : Nat) (pc : GPc) : GAct → St
  | .rlock1 => { s with readers := s.readers + 1, getters := s.getters.set i .read1 }
  | .read1 => { s with getters := s.getters.set i (.unlock1 s.stored) }
  | .runlock1 => match pc with
    | .unlock1 v => { s with readers := s.readers - 1, getters := s.getters.set i (.test1 v) }
    | _ => s
  | .test1 => match pc with
    | .test1 v => { s with getters := s.getters.set i (if v then .done true else .wait) }
    | _ => s
  | .wake => { s with getters := s.getters.set i .lock2 }
  | .rlock2 => { s with readers := s.readers + 1, getters := s.getters.set i .read2 }
  | .read2 => { s with getters := s.getters.set i (.unlock2 s.stored) }
  | .runlock2 => match pc with
    | .unlock2 v => { s with readers := s.readers - 1, getters := s.getters.set i (.test2 v) }
    | _ => s
  | .test2 => match pc with
    | .test2 v => { s with getters := s.getters.set i (afterWait s.fixed v) }
    | _ => s

def guard (s : St) : Step → Bool
  | .set i a => match s.setters[i]? with
    | some pc => sGuard s pc a
    | none => false
  | .get i a => match s.getters[i]? with
    | some pc => gGuard s pc a
    | none => false

def next (s : St) : Step → St
  | .set i a => match s.setters[i]? with
    | some _ => sNext s i a
    | none => s
  | .get i a => match s.getters[i]? with
    | some pc => gNext s i pc a
    | none => s

def enabled (s : St) (x : Step) : Prop := guard s x = true

instance (s : St) (x : Step) : Decidable (enabled s x) := by unfold enabled; infer_instance

def run (s : St) : List Step → Option St
  | [] => some s
  | a :: rest => if guard s a then run (next s a) rest else none

def gFinished : GPc → Bool
  | .done _ => true
  | _ => false

def allDone (s : St) : Prop := (∀ pc ∈ s.setters, pc = .done) ∧ ∀ pc ∈ s.getters, gFinished pc = true

instance (s : St) : Decidable (allDone s) := by unfold allDone; infer_instance

def Stuck (s : St) : Prop := ¬ allDone s ∧ ∀ x, guard s x = false

inductive Reach (fixed wpref : Bool) (nSet nGet : Nat) : St → Prop where
  | init : Reach fixed wpref nSet nGet (init fixed wpref nSet nGet)
  | step {s : St} (x : Step) : Reach fixed wpref nSet nGet s → enabled s x →
      Reach fixed wpref nSet nGet (next s x)

def sHolds : SPc → Bool
  | .check | .close | .store | .unlock => true
  | _ => false

def gHolds : GPc → Bool
  | .read1 | .unlock1 _ | .read2 | .unlock2 _ => true
  | _ => false

end Storage

end Ls.Conc
