import LsModel.DriverUtil
import LsModel.Config
namespace Ls.Drv
open Ls Ls.Config

def opCfg (op : String) (a : List String) : Option String :=
  match op, a with
  | "cfg.rdmc", [_bits, rd, cutoff] => do
    pure s!"ok {rdmc (← rd.toInt?) (← cutoff.toInt?)}"
  | "prop.c04.cutoff", [_bits, rd, cutoff] => do
    let rd ← rd.toInt?
    let r := rdmc rd (← cutoff.toInt?)
    if rd ≥ 0 ∧ r > rd then pure s!"FAIL load-cutoff-duration-exceeds-retention rd={rd} rdmc={r}"
    else if rd ≥ 0 ∧ r < 0 then pure s!"FAIL negative-load-cutoff-duration rd={rd} rdmc={r}"
    else pure "ok"
  | _, _ => none

end Ls.Drv
