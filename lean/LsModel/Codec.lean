import LsModel.Wire
import LsModel.Merge
/-
  The hand-written streaming snapshot codec, branch for branch:
    snapshot/kv.go       : KV.Unmarshal
    snapshot/dbi.go      : indexData (NewDBIFromData), Next, doFlushFields, Append, Marshal
    snapshot/meta.go     : Meta.Marshal, Meta.Unmarshal
    snapshot/snapshot.go : Snapshot.Unmarshal, Snapshot.WriteTo
  and the csproto.Decoder methods the last two use (DecoderModeFast).
  Decoders: data + `Int` offset exactly as the Go code (slice expressions bounds-checked, failure
  = `panic`; loops on fuel = len+1, exhaustion = `hang`).  Encoders: the bytes written; fixed
  buffers (`make([]byte, 1000)`, the `outerSize` region of Append) are capacity-checked
  (an index out of range is `panic`, `copy` truncates silently as in Go).
-/
namespace Ls.Codec
open Ls Ls.Wire

abbrev KV := Ls.Merge.KV

def kvZero : KV := { key := [], val := [], ts := 0, flags := 0 }

/-! ## KV.Unmarshal -/

/-- one iteration of the `for` loop of `KV.Unmarshal`: new offset and entry -/
def kvStep (data : Bytes) (offset : Int) (kv : KV) : Outcome (Int × KV) := do
  let dataSize : Int := data.length
  let p ← sliceFrom data offset
  let (v, n) ← decodeVarint p
  let offset := offset + n
  let tag := v / 8
  let wt := v % 8
  if tag = Gen.fieldKVKey ∨ tag = Gen.fieldKVValue then
    if wt ≠ wtLen then .err .wireType else do
      let p ← sliceFrom data offset
      let (v, n) ← decodeVarint p
      let offset := offset + n
      if toUInt64 (dataSize - offset) < v then .err .other else do
        let size := toInt64 v
        let b ← sliceLH data offset (offset + size)
        let offset := offset + size
        if tag = Gen.fieldKVKey then .ok (offset, { kv with key := b })
        else .ok (offset, { kv with val := b })
  else if tag = Gen.fieldKVFlags then
    if wt ≠ wtVarint then .err .wireType else do
      let p ← sliceFrom data offset
      let (v, n) ← decodeVarint p
      .ok (offset + n, { kv with flags := v % two32 })
  else if tag = Gen.fieldKVTimestampNano then
    if wt ≠ wtFixed64 then .err .wireType
    else if dataSize - offset < 8 then .err .other else do
      let b ← sliceLH data offset (offset + 8)
      .ok (offset + 8, { kv with ts := leNat b })
  else do
    let p ← sliceFrom data offset
    let n ← skipTag p wt
    .ok (offset + n, kv)

def kvLoop (data : Bytes) : Nat → Int → KV → Outcome KV
  | 0, _, _ => .hang
  | fuel + 1, offset, kv =>
    match kvStep data offset kv with
    | .ok (offset', kv') =>
      if offset' = (data.length : Int) then .ok kv' else kvLoop data fuel offset' kv'
    | .err e => .err e
    | .panic => .panic
    | .hang => .hang

/-- `KV.Unmarshal` on a zero `KV` -/
def kvUnmarshal (data : Bytes) : Outcome KV := kvLoop data (data.length + 1) 0 kvZero

/-! ## DBI: indexData, Next -/

structure DBIHdr where
  name : Bytes
  flags : Nat
  transform : Bytes
  deriving Repr, DecidableEq

def hdrZero : DBIHdr := { name := [], flags := 0, transform := [] }

/-- one iteration of the loop of `indexData` (after the `offset >= len(data)` test) -/
def idxStep (data : Bytes) (offset : Int) (h : DBIHdr) : Outcome (Int × DBIHdr) := do
  let p ← sliceFrom data offset
  let (v, n) ← decodeVarint p
  let offset := offset + n
  let tag := v / 8
  let wt := v % 8
  if tag = Gen.fieldDBIEntries ∨ tag = Gen.fieldDBIName ∨ tag = Gen.fieldDBITransform then
    if wt ≠ wtLen then .err .wireType else do
      let p ← sliceFrom data offset
      let (v, n) ← decodeVarint p
      let offset := offset + n
      if toUInt64 ((data.length : Int) - offset) < v then .err .other else do
        let size := toInt64 v
        let b ← sliceLH data offset (offset + size)
        if tag = Gen.fieldDBIEntries then .ok (offset + size, h)
        else if tag = Gen.fieldDBIName then .ok (offset + size, { h with name := b })
        else if tag = Gen.fieldDBITransform then .ok (offset + size, { h with transform := b })
        else .panic
  else if tag = Gen.fieldDBIFlags then
    if wt ≠ wtVarint then .err .wireType else do
      let p ← sliceFrom data offset
      let (v, n) ← decodeVarint p
      .ok (offset + n, { h with flags := v })
  else do
    let p ← sliceFrom data offset
    let n ← skipTag p wt
    .ok (offset + n, h)

def idxLoop (data : Bytes) : Nat → Int → DBIHdr → Outcome DBIHdr
  | 0, _, _ => .hang
  | fuel + 1, offset, h =>
    if offset ≥ (data.length : Int) then .ok h
    else match idxStep data offset h with
      | .ok (offset', h') => idxLoop data fuel offset' h'
      | .err e => .err e
      | .panic => .panic
      | .hang => .hang

/-- `NewDBIFromData` / `indexData` -/
def indexData (data : Bytes) : Outcome DBIHdr := idxLoop data (data.length + 1) 0 hdrZero

/-- the `for tag != FieldDBIEntries` loop of `Next`: `none` is `io.EOF`, otherwise the offset
    behind the entries tag and its wire type -/
def nextSeek (data : Bytes) : Nat → Int → Outcome (Option (Int × Nat))
  | 0, _ => .hang
  | fuel + 1, offset =>
    if offset ≥ (data.length : Int) then .ok none
    else
      match sliceFrom data offset with
      | .ok p =>
        match decodeVarint p with
        | .ok (v, n) =>
          let offset := offset + n
          let tag := v / 8
          let wt := v % 8
          if tag ≠ Gen.fieldDBIEntries then
            match sliceFrom data offset with
            | .ok p =>
              match skipTag p wt with
              | .ok n => nextSeek data fuel (offset + n)
              | .err e => .err e
              | .panic => .panic
              | .hang => .hang
            | .err e => .err e
            | .panic => .panic
            | .hang => .hang
          else .ok (some (offset, wt))
        | .err e => .err e
        | .panic => .panic
        | .hang => .hang
      | .err e => .err e
      | .panic => .panic
      | .hang => .hang

/-- what `Next` does once positioned behind an entries tag: length, slice, new cursor -/
def nextEntry (data : Bytes) (offset : Int) (wt : Nat) : Outcome (Bytes × Int) :=
  if wt ≠ wtLen then .err .wireType else do
    let p ← sliceFrom data offset
    let (v, n) ← decodeVarint p
    let offset := offset + n
    if toUInt64 ((data.length : Int) - offset) < v then .err .other else do
      let size := toInt64 v
      let b ← sliceLH data offset (offset + size)
      .ok (b, offset + size)

/-- `DBI.Next` from cursor `cur`: `none` = `io.EOF`, else the entry and the new cursor.
    (`d.cur` is advanced before `kv.Unmarshal` runs; callers stop at the first error.) -/
def dbiNext (data : Bytes) (cur : Int) : Outcome (Option (KV × Int)) := do
  match ← nextSeek data (data.length + 1) cur with
  | none => .ok none
  | some (offset, wt) =>
    let (b, cur') ← nextEntry data offset wt
    let kv ← kvUnmarshal b
    .ok (some (kv, cur'))

/-- the caller's loop (`for { kv, err := d.Next(); if err == io.EOF break … }`): entries
    delivered so far and how the loop ended -/
def dbiIter (data : Bytes) : Nat → Int → List KV → List KV × Outcome Unit
  | 0, _, acc => (acc, .hang)
  | fuel + 1, cur, acc =>
    match dbiNext data cur with
    | .ok none => (acc, .ok ())
    | .ok (some (kv, cur')) => dbiIter data fuel cur' (acc ++ [kv])
    | .err e => (acc, .err e)
    | .panic => (acc, .panic)
    | .hang => (acc, .hang)

def dbiEntries (data : Bytes) : Outcome (List KV) :=
  match dbiIter data (data.length + 1) 0 [] with
  | (l, .ok _) => .ok l
  | (_, .err e) => .err e
  | (_, .panic) => .panic
  | (_, .hang) => .hang

/-! ## csproto.Decoder (fast mode) over buffer `p` at `offset` -/

def maxTagValue : Nat := 536870911          -- csproto.MaxTagValue
def defaultMaxFieldLen : Nat := 2147483647  -- csproto maxFieldLen = math.MaxInt32
def snapshotMaxFieldLen : Nat := 100 * 1073741824  -- snapshot.MaxFieldLength = 100 * datasize.GB

/-- `Decoder.DecodeTag`: tag, wire type, new offset -/
def decTag (p : Bytes) (offset : Int) : Outcome (Nat × Nat × Int) :=
  if offset ≥ (p.length : Int) then .err .eof else do
    let q ← sliceFrom p offset
    let (v, n) ← decodeVarint q
    if n < 1 ∨ v < 1 ∨ v > maxTagValue then .err .badTag
    else .ok (v / 8, v % 8, offset + n)

/-- the varint part of DecodeUInt32 / DecodeInt64 -/
def decVarint (p : Bytes) (offset : Int) : Outcome (Nat × Int) :=
  if offset ≥ (p.length : Int) then .err .eof else do
    let q ← sliceFrom p offset
    let (v, n) ← decodeVarint q
    if n = 0 then .err .varintEmpty else .ok (v, offset + n)

/-- `getUInt32` -/
def getUInt32 (p : Bytes) (offset : Int) (wt : Nat) : Outcome (Nat × Int) :=
  if wt ≠ wtVarint then .err .wireType else do
    let (v, offset') ← decVarint p offset
    if v > 4294967295 then .err .overflow else .ok (v, offset')

/-- `getInt64` -/
def getInt64 (p : Bytes) (offset : Int) (wt : Nat) : Outcome (Int × Int) :=
  if wt ≠ wtVarint then .err .wireType else do
    let (v, offset') ← decVarint p offset
    .ok (toInt64 v, offset')

/-- `getFixed64` -/
def getFixed64 (p : Bytes) (offset : Int) (wt : Nat) : Outcome (Nat × Int) :=
  if wt ≠ wtFixed64 then .err .wireType
  else if offset ≥ (p.length : Int) then .err .eof else do
    let q ← sliceFrom p offset
    if q.length < 8 then .err .eof else .ok (leNat (q.take 8), offset + 8)

/-- `Decoder.DecodeBytes` -/
def decBytes (p : Bytes) (maxLen : Nat) (offset : Int) : Outcome (Bytes × Int) :=
  if offset ≥ (p.length : Int) then .err .eof else do
    let q ← sliceFrom p offset
    let (l, n) ← decodeVarint q
    if n = 0 then .err .varintEmpty
    else if l > maxLen then .err .lenOverflow
    else
      let nb := toInt64 l
      if offset + n + nb > (p.length : Int) then .err .eof else do
        let b ← sliceLH p (offset + n) (offset + n + nb)
        .ok (b, offset + n + nb)

/-- `getBytes` / `getString` (`DecodeString` repeats the end-of-data test and calls DecodeBytes) -/
def getBytes (p : Bytes) (maxLen : Nat) (offset : Int) (wt : Nat) : Outcome (Bytes × Int) :=
  if wt ≠ wtLen then .err .wireType else decBytes p maxLen offset

/-- `Decoder.Skip` in fast mode (the returned raw bytes `d.p[bof:d.offset]` are discarded by the
    callers; the slice expression is still evaluated) -/
def decSkip (p : Bytes) (maxLen : Nat) (offset : Int) (tag wt : Nat) : Outcome Int :=
  if offset ≥ (p.length : Int) then .err .eof else
    let sz : Int := sizeOfTagKey tag
    let bof : Int := if offset - sz < 0 then 0 else offset - sz
    let fin (skipped : Int) : Outcome Int :=
      if offset + skipped > (p.length : Int) then .err .eof else do
        let _ ← sliceLH p bof (offset + skipped)
        .ok (offset + skipped)
    if wt = wtVarint then do
      let q ← sliceFrom p offset
      let (_, n) ← decodeVarint q
      fin n
    else if wt = wtFixed64 then fin 8
    else if wt = wtLen then do
      let q ← sliceFrom p offset
      let (l, n) ← decodeVarint q
      if n = 0 then .err .varintEmpty
      else if l > maxLen then .err .lenOverflow
      else fin (n + toInt64 l)
    else if wt = wtFixed32 then fin 4
    else .err .other

/-! ## Meta -/

structure Meta where
  generationID : Bytes
  instanceID : Bytes
  hostname : Bytes
  lmdbTxnID : Int       -- int64
  timestampNano : Nat   -- uint64
  databaseName : Bytes
  fromLmdbTxnID : Int   -- int64
  deriving Repr, DecidableEq

def metaZero : Meta :=
  { generationID := [], instanceID := [], hostname := [], lmdbTxnID := 0, timestampNano := 0,
    databaseName := [], fromLmdbTxnID := 0 }

/-- one iteration of `Meta.Unmarshal` (after `d.More()`) -/
def metaStep (p : Bytes) (offset : Int) (m : Meta) : Outcome (Int × Meta) := do
  let (tag, wt, offset) ← decTag p offset
  if tag = Gen.fieldMetaGenerationID then do
    let (s, o) ← getBytes p defaultMaxFieldLen offset wt
    .ok (o, { m with generationID := s })
  else if tag = Gen.fieldMetaInstanceID then do
    let (s, o) ← getBytes p defaultMaxFieldLen offset wt
    .ok (o, { m with instanceID := s })
  else if tag = Gen.fieldMetaHostname then do
    let (s, o) ← getBytes p defaultMaxFieldLen offset wt
    .ok (o, { m with hostname := s })
  else if tag = Gen.fieldMetaLMDBTxnID then do
    let (v, o) ← getInt64 p offset wt
    .ok (o, { m with lmdbTxnID := v })
  else if tag = Gen.fieldMetaTimestampNano then do
    let (v, o) ← getFixed64 p offset wt
    .ok (o, { m with timestampNano := v })
  else if tag = Gen.fieldMetaDatabaseName then do
    let (s, o) ← getBytes p defaultMaxFieldLen offset wt
    .ok (o, { m with databaseName := s })
  else if tag = Gen.fieldMetaFromLMDBTxnID then do
    let (v, o) ← getInt64 p offset wt
    .ok (o, { m with fromLmdbTxnID := v })
  else do
    let o ← decSkip p defaultMaxFieldLen offset tag wt
    .ok (o, m)

def metaLoop (p : Bytes) : Nat → Int → Meta → Outcome Meta
  | 0, _, _ => .hang
  | fuel + 1, offset, m =>
    if ¬ (offset < (p.length : Int)) then .ok m
    else match metaStep p offset m with
      | .ok (offset', m') => metaLoop p fuel offset' m'
      | .err e => .err e
      | .panic => .panic
      | .hang => .hang

/-- `(*Meta).Unmarshal(data)` into an existing `Meta` (fields not present keep their value) -/
def metaUnmarshal (data : Bytes) (m : Meta) : Outcome Meta := metaLoop data (data.length + 1) 0 m

def strField (tag : Nat) (s : Bytes) : Bytes :=
  if s.length > 0 then encodeTag tag wtLen ++ encodeVarint s.length ++ s else []

/-- `Meta.Marshal`: the buffer is `Σ(len+20) + 1000` bytes, never exceeded
    (`metaMarshal_fits` in LsLemmas) -/
def metaMarshal (m : Meta) : Bytes :=
  strField Gen.fieldMetaGenerationID m.generationID
  ++ strField Gen.fieldMetaInstanceID m.instanceID
  ++ strField Gen.fieldMetaHostname m.hostname
  ++ strField Gen.fieldMetaDatabaseName m.databaseName
  ++ (if m.lmdbTxnID > 0 then encodeTag Gen.fieldMetaLMDBTxnID wtVarint ++ encodeVarint (toUInt64 m.lmdbTxnID) else [])
  ++ (if m.timestampNano > 0 then encodeTag Gen.fieldMetaTimestampNano wtFixed64 ++ le64 m.timestampNano else [])
  ++ (if m.fromLmdbTxnID > 0 then encodeTag Gen.fieldMetaFromLMDBTxnID wtVarint ++ encodeVarint (toUInt64 m.fromLmdbTxnID) else [])

def metaBufSize (m : Meta) : Nat :=
  (m.generationID.length + 20) + (m.instanceID.length + 20) + (m.hostname.length + 20)
  + (m.databaseName.length + 20) + 1000

/-! ## Snapshot.Unmarshal -/

/-- a DBI as `NewDBIFromData` leaves it: indexed top-level fields and the raw protobuf -/
structure DBIRaw where
  hdr : DBIHdr
  data : Bytes
  deriving Repr, DecidableEq

structure SnapRaw where
  formatVersion : Nat
  compatVersion : Nat
  info : Meta
  dbs : List DBIRaw
  deriving Repr, DecidableEq

def snapZero : SnapRaw := { formatVersion := 0, compatVersion := 0, info := metaZero, dbs := [] }

/-- one iteration of `Snapshot.Unmarshal` (after `d.More()`) -/
def snapStep (p : Bytes) (offset : Int) (s : SnapRaw) : Outcome (Int × SnapRaw) := do
  let (tag, wt, offset) ← decTag p offset
  if tag = Gen.fieldSnapshotFormatVersion then do
    let (v, o) ← getUInt32 p offset wt
    .ok (o, { s with formatVersion := v })
  else if tag = Gen.fieldSnapshotCompatVersion then do
    let (v, o) ← getUInt32 p offset wt
    .ok (o, { s with compatVersion := v })
  else if tag = Gen.fieldSnapshotMeta then do
    let (msg, o) ← getBytes p snapshotMaxFieldLen offset wt
    let m ← metaUnmarshal msg s.info
    .ok (o, { s with info := m })
  else if tag = Gen.fieldSnapshotDBI then do
    let (msg, o) ← getBytes p snapshotMaxFieldLen offset wt
    let h ← indexData msg
    .ok (o, { s with dbs := s.dbs ++ [{ hdr := h, data := msg }] })
  else do
    let o ← decSkip p snapshotMaxFieldLen offset tag wt
    .ok (o, s)

def snapLoop (p : Bytes) : Nat → Int → SnapRaw → Outcome SnapRaw
  | 0, _, _ => .hang
  | fuel + 1, offset, s =>
    if ¬ (offset < (p.length : Int)) then .ok s
    else match snapStep p offset s with
      | .ok (offset', s') => snapLoop p fuel offset' s'
      | .err e => .err e
      | .panic => .panic
      | .hang => .hang

/-- `Snapshot.Unmarshal` on a zero `Snapshot` -/
def snapshotUnmarshal (data : Bytes) : Outcome SnapRaw := snapLoop data (data.length + 1) 0 snapZero

/-! ## decoded content -/

structure DBI' where
  name : Bytes
  flags : Nat
  transform : Bytes
  entries : List KV
  deriving Repr, DecidableEq

structure Snapshot' where
  formatVersion : Nat
  compatVersion : Nat
  info : Meta
  dbis : List DBI'
  deriving Repr, DecidableEq

def dbisAll : List DBIRaw → Outcome (List DBI')
  | [] => .ok []
  | d :: ds => do
    let es ← dbiEntries d.data
    let rest ← dbisAll ds
    .ok ({ name := d.hdr.name, flags := d.hdr.flags, transform := d.hdr.transform, entries := es } :: rest)

/-- what loading a snapshot eventually does: `Snapshot.Unmarshal`, then every DBI iterated with
    `Next` until `io.EOF` -/
def decodeAll (b : Bytes) : Outcome Snapshot' := do
  let s ← snapshotUnmarshal b
  let ds ← dbisAll s.dbs
  .ok { formatVersion := s.formatVersion, compatVersion := s.compatVersion, info := s.info, dbis := ds }

/-! ## encoders -/

/-- write `bs` into a fixed buffer of `cap` bytes of which `buf` are used: indexing past the end
    panics (EncodeTag, EncodeVarint, PutUint64) -/
def putB (cap : Nat) (buf bs : Bytes) : Outcome Bytes :=
  if buf.length + bs.length > cap then .panic else .ok (buf ++ bs)

/-- Go `copy(b[offset:], s)`: copies what fits -/
def putCopy (cap : Nat) (buf s : Bytes) : Bytes := buf ++ s.take (cap - buf.length)

/-- `DBI.doFlushFields` -/
def flushFields (h : DBIHdr) : Outcome Bytes := do
  let cap := 1000
  let b : Bytes := []
  let b ← if h.name.length > 0 then do
      let b ← putB cap b (encodeTag Gen.fieldDBIName wtLen)
      let b ← putB cap b (encodeVarint h.name.length)
      .ok (putCopy cap b h.name)
    else .ok b
  let b ← if h.flags > 0 then do
      let b ← putB cap b (encodeTag Gen.fieldDBIFlags wtVarint)
      putB cap b (encodeVarint h.flags)
    else .ok b
  let b ← if h.transform.length > 0 then do
      let b ← putB cap b (encodeTag Gen.fieldDBITransform wtLen)
      let b ← putB cap b (encodeVarint h.transform.length)
      .ok (putCopy cap b h.transform)
    else .ok b
  .ok b

/-- the size computation of `DBI.Append` -/
def kvMsgSize (kv : KV) : Nat :=
  (if kv.key.length > 0 then Gen.tagSize0To15 + sizeOfVarint kv.key.length + kv.key.length else 0)
  + (if kv.val.length > 0 then Gen.tagSize0To15 + sizeOfVarint kv.val.length + kv.val.length else 0)
  + (if kv.flags > 0 then Gen.tagSize0To15 + sizeOfVarint kv.flags else 0)
  + (if kv.ts > 0 then Gen.tagSize0To15 + 8 else 0)

/-- `DBI.Append` on flushed data: reserves `outerSize` bytes behind `data` and writes the entry
    into them (zero-filled if the computed size were too large, panic if too small) -/
def dbiAppend (data : Bytes) (kv : KV) : Outcome Bytes :=
  let msgSize := kvMsgSize kv
  if msgSize = 0 then .ok data
  else do
    let outerSize := Gen.tagSize0To15 + sizeOfVarint msgSize + msgSize
    let w : Bytes := []
    let w ← putB outerSize w (encodeTag Gen.fieldDBIEntries wtLen)
    let w ← putB outerSize w (encodeVarint msgSize)
    let w ← if kv.key.length > 0 then do
        let w ← putB outerSize w (encodeTag Gen.fieldKVKey wtLen)
        let w ← putB outerSize w (encodeVarint kv.key.length)
        .ok (putCopy outerSize w kv.key)
      else .ok w
    let w ← if kv.val.length > 0 then do
        let w ← putB outerSize w (encodeTag Gen.fieldKVValue wtLen)
        let w ← putB outerSize w (encodeVarint kv.val.length)
        .ok (putCopy outerSize w kv.val)
      else .ok w
    let w ← if kv.flags > 0 then do
        let w ← putB outerSize w (encodeTag Gen.fieldKVFlags wtVarint)
        putB outerSize w (encodeVarint kv.flags)
      else .ok w
    let w ← if kv.ts > 0 then do
        let w ← putB outerSize w (encodeTag Gen.fieldKVTimestampNano wtFixed64)
        putB outerSize w (le64 kv.ts)
      else .ok w
    .ok (data ++ w ++ List.replicate (outerSize - w.length) 0)

def appendAll : Bytes → List KV → Outcome Bytes
  | data, [] => .ok data
  | data, kv :: kvs => do
    let data ← dbiAppend data kv
    appendAll data kvs

/-- `NewDBI; SetName; SetFlags; SetTransform; Append…; Marshal` -/
def dbiMarshal (d : DBI') : Outcome Bytes := do
  let hdr ← flushFields { name := d.name, flags := d.flags, transform := d.transform }
  appendAll hdr d.entries

def varintField (tag v : Nat) : Bytes :=
  if v > 0 then encodeTag tag wtVarint ++ encodeVarint v else []

def lenField (tag : Nat) (msg : Bytes) : Bytes :=
  if msg.length = 0 then [] else encodeTag tag wtLen ++ encodeVarint msg.length ++ msg

def writeDBIs : List DBI' → Outcome Bytes
  | [] => .ok []
  | d :: ds => do
    let pb ← dbiMarshal d
    let rest ← writeDBIs ds
    .ok (lenField Gen.fieldSnapshotDBI pb ++ rest)

/-- `Snapshot.WriteTo` (the 1000-byte tag buffer holds at most 2×(1+5) resp. 1+10 bytes) -/
def encode (s : Snapshot') : Outcome Bytes := do
  let ds ← writeDBIs s.dbis
  .ok (varintField Gen.fieldSnapshotFormatVersion s.formatVersion
       ++ varintField Gen.fieldSnapshotCompatVersion s.compatVersion
       ++ lenField Gen.fieldSnapshotMeta (metaMarshal s.info)
       ++ ds)

end Ls.Codec
