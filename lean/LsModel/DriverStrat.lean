import LsModel.DriverUtil
import LsModel.Strategy
import LsModel.StrategySpec
/- driver operations: update strategies with a scripted iterator -/
namespace Ls.Drv
open Ls Ls.Lmdb Ls.Strategy

inductive Dec where
  | keep | del | err | mark
  | repl (v : Bytes)
  deriving Repr

structure SE where
  key : Bytes
  dec : Dec
  deriving Repr

def markOf (old : Bytes) : Bytes := if old.getLast? = some 0xdd then old else old ++ [0xdd]

def decApply (d : Dec) (old : Bytes) : Except Unit (Option Bytes) :=
  match d with
  | .keep => .ok (some old)   -- Go returns `old` itself: nil only when the key was not found
  | .del => .ok none
  | .err => .error ()
  | .mark => .ok (some (markOf old))
  | .repl v => .ok (some v)

def scripted (clean : Dec) : Iter SE Unit :=
  { key := (·.key), merge := fun e old => decApply e.dec old, clean := fun old => decApply clean old }

def parseDec (toks : List String) : Option Dec :=
  match toks with
  | ["k"] => some .keep
  | ["d"] => some .del
  | ["e"] => some .err
  | ["m"] => some .mark
  | ["r", v] => do pure (.repl (← hexArg v))
  | _ => none

def parseDB (s : String) : Option KVs :=
  (listArg s ';').mapM fun p =>
    match (p.split (· == '=')).toList.map (·.toString) with
    | [k, v] => do pure (← hexArg k, ← hexArg v)
    | _ => none

def parseInput (s : String) : Option (List SE) :=
  (listArg s ',').mapM fun p =>
    match (p.split (· == ':')).toList.map (·.toString) with
    | k :: rest => do pure { key := ← hexArg k, dec := ← parseDec rest }
    | _ => none

def dbOut (db : KVs) : String :=
  if db.isEmpty then "-" else ";".intercalate (db.map fun (k, v) => s!"{hexOut k}={hexOut v}")

def stratOut : Except (SErr Unit) S → String
  | .ok s => s!"ok {dbOut s.db} {if s.dirty then "1" else "0"}"
  | .error (.iter _) => "err iter"
  | .error .notSorted => "err not-sorted"
  | .error .badKey => "err bad-key"
  | .error .hang => "err hang"
  | .error .panic => "err panic"

def opStrat (op : String) (a : List String) : Option String :=
  match op, a with
  | "strat.update", [ik, db, input, clean] => do
    let it := scripted (← parseDec ((clean.split (· == ':')).toList.map (·.toString)))
    pure (stratOut (update (← boolArg ik) it { db := ← parseDB db, dirty := false } (← parseInput input)))
  | "strat.iterupdate", [ik, db, input, clean] => do
    let it := scripted (← parseDec ((clean.split (· == ':')).toList.map (·.toString)))
    pure (stratOut (iterUpdate (← boolArg ik) it { db := ← parseDB db, dirty := false } (← parseInput input)))
  | "strat.emptyput", [ik, dup, db, input] => do
    let it := scripted .keep
    pure (stratOut (emptyPut (← boolArg ik) (← boolArg dup) it { db := ← parseDB db, dirty := false } (← parseInput input)))
  | "prop.c19", [which, ik, db, input, clean] => do
    let ik ← boolArg ik
    let cl ← parseDec ((clean.split (· == ':')).toList.map (·.toString))
    let it := scripted cl
    let db ← parseDB db
    let input ← parseInput input
    let pre := input.all (fun e => !badKey e.key && (match e.dec with | .err => false | _ => true))
      && (match cl with | .err => false | _ => true)
    if !pre then pure "ok skipped-precondition" else
    let sorted := sortedKeys ik (input.map (·.key))
    let s0 : S := { db := db, dirty := false }
    let (got, want, needSorted) ← match which with
      | "update" => some (update ik it s0 input, specUpdate ik it db input, false)
      | "iterupdate" => some (iterUpdate ik it s0 input, specIterUpdate ik it db input, true)
      | "emptyput" => some (emptyPut ik false it s0 input, specEmptyPut ik it input, false)
      | _ => none
    if needSorted && !sorted then
      pure (match got with
        | .error .notSorted => "ok rejected"
        | _ => "FAIL unsorted-input-not-rejected")
    else
      pure (match got, want with
        | .ok s, .ok w => if s.db = w then "ok content" else "FAIL wrong-content"
        | .error _, _ => "FAIL valid-input-rejected"
        | _, _ => "FAIL spec-error")
  | "cmp.int", [x, y] => do
    pure s!"ok {kcmp true (← hexArg x) (← hexArg y)}"
  | _, _ => none

end Ls.Drv
