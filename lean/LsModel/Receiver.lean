/-
  Receiver model (C16): Lightning Stream's snapshot receiver, its per-instance downloaders, the
  two concurrency limits and the consuming sync loop, as a small-step machine with explicit
  nondeterminism.

  Go anchors: syncer/receiver/receiver.go (`RunOnce`, `Next`, `MarkCorrupt`, `getDownloader`),
  syncer/receiver/downloader.go (`Run`, `LoadOnce`), utils/climit/climit.go (`Acquire`,
  `Token.Release`, idempotent).

  Abstractions.
  * A snapshot name is `(instance, timestamp)`. Names of one instance sort by timestamp (C15), so
    "the last name of the instance in the sorted listing" = the one with the maximal timestamp.
  * A blob carries one bit: does `snapshot.LoadData` fail on it (`bad`).
  * `Token.Release` is idempotent; the download token is released explicitly after decoding and
    again by `defer`: the model releases it once, on every path out of `LoadOnce`.
  * A decoded `snapshot.Update` owns its decompress token until `Close`: entries of `pending`
    (`snapshotsByInstance`), the entry the consumer `holding`s, and a downloader between
    `Acquire` and insertion (`decoding`) each own one.
  * `hist` and `delivered` are history variables (listings that succeeded; what `Next` returned);
    no step reads them.
  Core Lean only (linked into the driver).
-/
namespace Ls.Recv

/-! ### association lists: the first entry of a key counts -/
namespace AL
variable {κ : Type} [DecidableEq κ] {α : Type}

def get : List (κ × α) → κ → Option α
  | [], _ => none
  | (k', v) :: r, k => if k' = k then some v else get r k

/-- replace the first entry of `k`, or append one -/
def set : List (κ × α) → κ → α → List (κ × α)
  | [], k, v => [(k, v)]
  | (k', v') :: r, k, v => if k' = k then (k, v) :: r else (k', v') :: set r k v

/-- remove the first entry of `k` -/
def erase : List (κ × α) → κ → List (κ × α)
  | [], _ => []
  | (k', v') :: r, k => if k' = k then r else (k', v') :: erase r k

/-- number of entries whose value satisfies `p` -/
def count (p : α → Bool) : List (κ × α) → Nat
  | [] => 0
  | (_, v) :: r => (if p v then 1 else 0) + count p r

end AL

/-! ### state -/

/-- a blob of the bucket -/
structure Blob (ι : Type) where
  inst : ι
  ts : Nat
  /-- `snapshot.LoadData` fails on it -/
  bad : Bool
deriving DecidableEq, Repr

def Blob.name {ι : Type} (b : Blob ι) : ι × Nat := (b.inst, b.ts)

/-- where a downloader goroutine is -/
inductive Pc where
  /-- blocked on `newSnapshotSignal` -/
  | idle
  /-- at the top of the retry loop, about to read `lastSeenByInstance[instance]` -/
  | check
  /-- in `downloadSnapshotLimit.Acquire()` -/
  | wantDl (t : Nat)
  /-- holds a download token, in `st.Load` -/
  | loading (t : Nat)
  /-- holds the downloaded blob, in `decompressedSnapshotLimit.Acquire()` -/
  | wantDc (t : Nat) (bad : Bool)
  /-- holds both tokens, in `snapshot.LoadData` -/
  | decoding (t : Nat) (bad : Bool)
  /-- `LoadOnce` returned an error; in `SleepContext(StorageRetryInterval)` -/
  | backoff
deriving DecidableEq, Repr

/-- the name the downloader is working on -/
def Pc.ts? : Pc → Option Nat
  | .wantDl t | .loading t | .wantDc t _ | .decoding t _ => some t
  | _ => none

/-- holds a download token -/
def Pc.hasDl : Pc → Bool
  | .loading _ | .wantDc .. | .decoding .. => true
  | _ => false

/-- holds a decompress token (not yet handed to an `Update`) -/
def Pc.hasDc : Pc → Bool
  | .decoding .. => true
  | _ => false

structure Dl where
  /-- `d.last` -/
  last : Option Nat
  /-- `newSnapshotSignal` (capacity 1) is full -/
  signal : Bool
  pc : Pc
deriving DecidableEq, Repr

/-- busy: not parked on an empty signal channel -/
def Dl.busy (x : Dl) : Bool := x.signal || x.pc != .idle

structure St (ι : Type) where
  own : ι
  bucket : List (Blob ι)
  /-- `ignoredFilenames` -/
  ignored : List (ι × Nat)
  /-- `corruptSnapshots` -/
  corrupt : List (ι × Nat)
  /-- `lastSeenByInstance` -/
  lastSeen : List (ι × Nat)
  /-- `lastNotifiedByInstance` -/
  lastNotified : List (ι × Nat)
  /-- `snapshotsByInstance` -/
  pending : List (ι × Nat)
  /-- the `Update` the sync loop got from `Next` and has not closed yet -/
  holding : Option (ι × Nat)
  dlFree : Nat
  dcFree : Nat
  dlLimit : Nat
  dcLimit : Nat
  /-- `downloadersByInstance` with the goroutine state -/
  dls : List (ι × Dl)
  /-- history: (bucket, ignored names) at every successful listing, newest first -/
  hist : List (List (Blob ι) × List (ι × Nat))
  /-- history: what `Next` returned, newest first -/
  delivered : List (ι × Nat)
deriving DecidableEq, Repr

variable {ι : Type} [DecidableEq ι]

def init (own : ι) (dlLimit dcLimit : Nat) : St ι :=
  { own := own, bucket := [], ignored := [], corrupt := [], lastSeen := [], lastNotified := [],
    pending := [], holding := none, dlFree := dlLimit, dcFree := dcLimit, dlLimit := dlLimit,
    dcLimit := dcLimit, dls := [], hist := [], delivered := [] }

def getDl (s : St ι) (d : ι) : Option Dl := AL.get s.dls d
def setDl (s : St ι) (d : ι) (x : Dl) : St ι := { s with dls := AL.set s.dls d x }

def hasBlob (s : St ι) (d : ι) (t : Nat) : Option (Blob ι) := s.bucket.find? (fun b => b.name = (d, t))

/-! ### `RunOnce` -/

/-- keep the larger timestamp per instance -/
def upsertMax (l : List (ι × Nat)) (d : ι) (t : Nat) : List (ι × Nat) :=
  match AL.get l d with
  | none => AL.set l d t
  | some t0 => if t0 ≤ t then AL.set l d t else l

/-- `lastSeenByInstance` of a listing: per instance the name with the largest timestamp -/
def mkLastSeen (names : List (ι × Nat)) : List (ι × Nat) :=
  names.foldl (fun acc n => upsertMax acc n.1 n.2) []

/-- `getDownloader` + `NotifyNewSnapshot` -/
def signalDl (dls : List (ι × Dl)) (d : ι) : List (ι × Dl) :=
  match AL.get dls d with
  | none => AL.set dls d { last := none, signal := true, pc := .idle }
  | some x => AL.set dls d { x with signal := true }

/-- one iteration of the notification loop of `RunOnce` -/
def notifyOne (inclOwn : Bool) (s : St ι) (d : ι) : St ι :=
  match AL.get s.lastSeen d with
  | none => s
  | some t =>
    if AL.get s.lastNotified d = some t then s
    else if inclOwn = false ∧ d = s.own then s
    else { s with dls := signalDl s.dls d, lastNotified := AL.set s.lastNotified d t }

/-- the names a listing ignores from now on -/
def ignoredNow (s : St ι) : List (ι × Nat) := s.ignored ++ s.corrupt.filter (fun n => n ∉ s.ignored)

/-- a successful `RunOnce` -/
def runOnce (inclOwn : Bool) (s : St ι) : St ι :=
  let ig := ignoredNow s
  let seen := mkLastSeen ((s.bucket.map Blob.name).filter (fun n => n ∉ ig))
  let s1 : St ι := { s with ignored := ig, lastSeen := seen, hist := (s.bucket, ig) :: s.hist }
  (seen.map Prod.fst).foldl (notifyOne inclOwn) s1

/-! ### steps -/

inductive LoadRes where
  | ok | fail | notFound
deriving DecidableEq, Repr

inductive Step (ι : Type) where
  /-- `Receiver.RunOnce(includingOwn)`; `listOk = false`: `st.List` failed -/
  | runOnce (inclOwn listOk : Bool)
  /-- downloader `d` receives from its signal channel -/
  | wake (d : ι)
  /-- reads `lastSeenByInstance[d]` and compares with `d.last` -/
  | check (d : ι)
  | acqDl (d : ι)
  | load (d : ι) (r : LoadRes)
  | acqDc (d : ι)
  /-- `snapshot.LoadData` and everything after it in `LoadOnce` -/
  | decode (d : ι)
  /-- the retry sleep ends -/
  | retry (d : ι)
  /-- `Receiver.Next()` returns the pending entry of instance `d` -/
  | next (d : ι)
  /-- the sync loop closes the update it holds -/
  | close
  /-- environment: a blob is stored (replacing a blob of the same name) -/
  | put (b : Blob ι)
  /-- environment: a blob is removed -/
  | rm (d : ι) (t : Nat)
deriving DecidableEq, Repr

def insertName (l : List (ι × Nat)) (n : ι × Nat) : List (ι × Nat) := if n ∈ l then l else l ++ [n]

/-- `none` = the step is not enabled -/
def step (s : St ι) : Step ι → Option (St ι)
  | .runOnce inc ok => some (if ok then runOnce inc s else s)
  | .wake d =>
    match getDl s d with
    | some x => if x.pc = .idle ∧ x.signal = true then some (setDl s d { x with signal := false, pc := .check }) else none
    | none => none
  | .check d =>
    match getDl s d with
    | some x =>
      if x.pc = .check then
        match AL.get s.lastSeen d with
        | none => some (setDl s d { x with pc := .idle })
        | some t => if x.last = some t then some (setDl s d { x with pc := .idle })
                    else some (setDl s d { x with pc := .wantDl t })
      else none
    | none => none
  | .acqDl d =>
    match getDl s d with
    | some x =>
      match x.pc with
      | .wantDl t => if 0 < s.dlFree then some { setDl s d { x with pc := .loading t } with dlFree := s.dlFree - 1 } else none
      | _ => none
    | none => none
  | .load d r =>
    match getDl s d with
    | some x =>
      match x.pc with
      | .loading t =>
        match r with
        | .ok =>
          match hasBlob s d t with
          | some b => some (setDl s d { x with pc := .wantDc t b.bad })
          | none => none
        | .notFound =>
          match hasBlob s d t with
          | some _ => none
          | none => some { setDl s d { x with pc := .backoff } with dlFree := s.dlFree + 1 }
        | .fail => some { setDl s d { x with pc := .backoff } with dlFree := s.dlFree + 1 }
      | _ => none
    | none => none
  | .acqDc d =>
    match getDl s d with
    | some x =>
      match x.pc with
      | .wantDc t bad => if 0 < s.dcFree then some { setDl s d { x with pc := .decoding t bad } with dcFree := s.dcFree - 1 } else none
      | _ => none
    | none => none
  | .decode d =>
    match getDl s d with
    | some x =>
      match x.pc with
      | .decoding t bad =>
        if bad then
          -- token.Release(); MarkCorrupt; d.last = ni; return err (defer: downloadToken.Release())
          some { setDl s d { x with last := some t, pc := .backoff } with
                 dlFree := s.dlFree + 1, dcFree := s.dcFree + 1, corrupt := insertName s.corrupt (d, t) }
        else
          -- downloadToken.Release(); snapshotsByInstance[d] = update; overwritten.Close(); d.last = ni
          some { setDl s d { x with last := some t, pc := .idle } with
                 dlFree := s.dlFree + 1,
                 dcFree := s.dcFree + (if (AL.get s.pending d).isSome then 1 else 0),
                 pending := AL.set s.pending d t }
      | _ => none
    | none => none
  | .retry d =>
    match getDl s d with
    | some x => if x.pc = .backoff then some (setDl s d { x with pc := .check }) else none
    | none => none
  | .next d =>
    match s.holding, AL.get s.pending d with
    | none, some t => some { s with holding := some (d, t), pending := AL.erase s.pending d, delivered := (d, t) :: s.delivered }
    | _, _ => none
  | .close =>
    match s.holding with
    | some _ => some { s with holding := none, dcFree := s.dcFree + 1 }
    | none => none
  | .put b => some { s with bucket := b :: s.bucket.filter (fun x => x.name ≠ b.name) }
  | .rm d t => some { s with bucket := s.bucket.filter (fun x => x.name ≠ (d, t)) }

/-- run a sequence of steps; `none` if one of them is not enabled -/
def run (s : St ι) : List (Step ι) → Option (St ι)
  | [] => some s
  | x :: r => match step s x with
    | some s' => run s' r
    | none => none

/-! ### quiescence (big step used by the driver) -/

/-- the fault-free step downloader `d` can take now (`retry` excluded), if any; a downloader in
    `Acquire` with no free token has none -/
def dlStepOf (s : St ι) (d : ι) : Option (Step ι) :=
  match getDl s d with
  | none => none
  | some x =>
    match x.pc with
    | .idle => if x.signal then some (.wake d) else none
    | .check => some (.check d)
    | .wantDl _ => if 0 < s.dlFree then some (.acqDl d) else none
    | .loading t => some (.load d (if (hasBlob s d t).isSome then .ok else .notFound))
    | .wantDc .. => if 0 < s.dcFree then some (.acqDc d) else none
    | .decoding .. => some (.decode d)
    | .backoff => none

/-- first downloader of `order` with an enabled fault-free step: that step and its result -/
def firstStep (s : St ι) : List ι → Option (Step ι × St ι)
  | [] => none
  | d :: r =>
    match dlStepOf s d with
    | some x => match step s x with
      | some s' => some (x, s')
      | none => firstStep s r
    | none => firstStep s r

def quiesceLoop (order : List ι) : Nat → St ι → List (Step ι) × St ι
  | 0, s => ([], s)
  | fuel + 1, s =>
    match firstStep s order with
    | some (x, s') => let r := quiesceLoop order fuel s'; (x :: r.1, r.2)
    | none => ([], s)

/-- end the retry sleep of every downloader of `order` that is in one -/
def retryAll : List ι → St ι → List (Step ι) × St ι
  | [], s => ([], s)
  | d :: r, s =>
    match step s (.retry d) with
    | some s' => let q := retryAll r s'; (.retry d :: q.1, q.2)
    | none => retryAll r s

/-- Run the downloaders to quiescence, fault-free: first every sleeping downloader retries, then
    the first downloader of `order` that can move does, until none can. Loads succeed iff the blob
    is in the bucket; a downloader whose blob is gone, or whose blob was corrupt, stays in its retry
    sleep until the next `quiesce` (the real one loops there until the listing changes); a
    downloader in `Acquire` with no free token stays there. Each downloader moves at most 16 times
    (the rank `8·signal + position` decreases), hence the fuel. -/
def quiesceOrd (order : List ι) (s : St ι) : List (Step ι) × St ι :=
  let a := retryAll order s
  let b := quiesceLoop order (16 * order.length + 16) a.2
  (a.1 ++ b.1, b.2)

/-- downloaders in creation order -/
def quiesce (s : St ι) : St ι := (quiesceOrd (s.dls.map Prod.fst) s).2

end Ls.Recv
