import LsLemmas.Bytes
import LsModel.Merge
namespace Ls.Header
open Ls

theorem list_len8 {α} (l : List α) (h : l.length = 8) :
    ∃ a b c d e f g i, l = [a, b, c, d, e, f, g, i] := by
  match l, h with
  | [a, b, c, d, e, f, g, i], _ => exact ⟨a, b, c, d, e, f, g, i, rfl⟩

/-- the generated layout constants are the ones the model's `putBasic` hard-codes -/
theorem layout :
    Gen.minHeaderSize = 24 ∧ Gen.blockSize = 8 ∧ Gen.versionOffset = 16 ∧ Gen.flagsOffset = 17 ∧
    Gen.reserved1Offset = 18 ∧ Gen.reserved2Offset = 19 ∧ Gen.reserved3Offset = 20 ∧
    Gen.reserved4Offset = 21 ∧ Gen.numExtraOffsetHigh = 22 ∧ Gen.numExtraOffsetLow = 23 ∧
    Gen.flagDeleted = 1 ∧ Gen.flagSyncMask = 1 := by decide

@[simp] theorem hsz_eq : hsz = 24 := rfl
@[simp] theorem bsz_eq : bsz = 8 := rfl

theorem putBasic_length (ts txn : Nat) (fl : UInt8) : (putBasic ts txn fl).length = 24 := by
  simp [putBasic]

/-- header of the form PutBasic writes, followed by anything, parses back -/
theorem parse_putBasic (ts txn : Nat) (fl : UInt8) (v : Bytes) (hts : ts < two64) (htx : txn < two64) :
    parse (putBasic ts txn fl ++ v)
      = .ok ({ ts := ts, txn := txn, version := 0, flags := fl, numExtra := 0, extra := [] }, v) := by
  have h1 := beNat_be64 ts hts
  have h2 := beNat_be64 txn htx
  obtain ⟨a0, a1, a2, a3, a4, a5, a6, a7, ha⟩ := list_len8 (be64 ts) (be64_length ts)
  obtain ⟨b0, b1, b2, b3, b4, b5, b6, b7, hb⟩ := list_len8 (be64 txn) (be64_length txn)
  rw [ha] at h1; rw [hb] at h2
  simp only [putBasic, ha, hb]
  simp [parse, getNumExtra, slice, Gen.versionOffset, Gen.flagsOffset, Gen.numExtraOffsetHigh,
    Gen.minHeaderSize, Gen.blockSize, hsz, bsz, h1, h2]
  simp [beNat]

theorem mask_or_deleted (fl : UInt8) (h : fl &&& ~~~ (UInt8.ofNat Gen.flagSyncMask) = 0) :
    (fl ||| UInt8.ofNat Gen.flagDeleted) &&& ~~~ (UInt8.ofNat Gen.flagSyncMask) = 0 := by
  have h' := congrArg UInt8.toBitVec h
  apply UInt8.eq_of_toBitVec_eq
  simp only [Gen.flagSyncMask, Gen.flagDeleted, UInt8.toBitVec_and, UInt8.toBitVec_or,
    UInt8.toBitVec_not, UInt8.toBitVec_ofNat] at *
  revert h'
  generalize fl.toBitVec = x
  decide +revert

theorem masked_in_mask (f : UInt8) : masked f &&& ~~~ (UInt8.ofNat Gen.flagSyncMask) = 0 := by
  apply UInt8.eq_of_toBitVec_eq
  simp only [masked, Gen.flagSyncMask, UInt8.toBitVec_and, UInt8.toBitVec_not, UInt8.toBitVec_ofNat]
  generalize f.toBitVec = x
  decide +revert

theorem flagDeleted_in_mask :
    UInt8.ofNat Gen.flagDeleted &&& ~~~ (UInt8.ofNat Gen.flagSyncMask) = 0 := by decide

end Ls.Header
