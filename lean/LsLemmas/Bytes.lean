import LsModel.Bytes
namespace Ls

@[simp] theorem beBytes_length (k n : Nat) : (beBytes k n).length = k := by
  induction k generalizing n with
  | zero => rfl
  | succ k ih => simp [beBytes, ih]

@[simp] theorem leBytes_length (k n : Nat) : (leBytes k n).length = k := by
  induction k generalizing n with
  | zero => rfl
  | succ k ih => simp [leBytes, ih]

theorem beNat_foldl (acc : Nat) (b : Bytes) :
    b.foldl (fun acc x => acc * 256 + x.toNat) acc = acc * 256 ^ b.length + beNat b := by
  unfold beNat
  induction b generalizing acc with
  | nil => simp
  | cons x xs ih =>
    simp only [List.foldl_cons, List.length_cons]
    rw [ih, ih (0 * 256 + x.toNat)]
    simp [Nat.pow_succ, Nat.add_mul, Nat.mul_assoc, Nat.add_assoc, Nat.mul_comm 256]

theorem beNat_append (a b : Bytes) : beNat (a ++ b) = beNat a * 256 ^ b.length + beNat b := by
  show (a ++ b).foldl _ 0 = _
  rw [List.foldl_append, beNat_foldl]
  rfl

theorem UInt8.toNat_ofNat_mod (n : Nat) : (UInt8.ofNat (n % 256)).toNat = n % 256 := by
  simp [UInt8.toNat_ofNat']

theorem beNat_beBytes (k n : Nat) : beNat (beBytes k n) = n % 256 ^ k := by
  induction k generalizing n with
  | zero => simp [beBytes, beNat, Nat.mod_one]
  | succ k ih =>
    rw [beBytes, beNat_append, ih]
    simp only [List.length_singleton, Nat.pow_one]
    have : beNat [UInt8.ofNat (n % 256)] = n % 256 := by
      simp [beNat, UInt8.toNat_ofNat']
    rw [this, Nat.pow_succ, Nat.mul_comm (256 ^ k) 256, Nat.mod_mul]
    generalize n / 256 % 256 ^ k = t
    omega

theorem leNat_leBytes (k n : Nat) : leNat (leBytes k n) = n % 256 ^ k := by
  induction k generalizing n with
  | zero => simp [leBytes, leNat, Nat.mod_one]
  | succ k ih =>
    rw [leBytes, leNat, ih, UInt8.toNat_ofNat_mod, Nat.pow_succ, Nat.mul_comm (256 ^ k) 256,
      Nat.mod_mul]

theorem beNat_be64 (n : Nat) (h : n < two64) : beNat (be64 n) = n := by
  unfold be64; rw [beNat_beBytes]; exact Nat.mod_eq_of_lt (by simpa [two64] using h)

@[simp] theorem be64_length (n : Nat) : (be64 n).length = 8 := by simp [be64]

theorem beNat_lt (b : Bytes) : beNat b < 256 ^ b.length := by
  induction b with
  | nil => simp [beNat]
  | cons x xs ih =>
    have h := beNat_append [x] xs
    simp only [List.singleton_append] at h
    rw [h, List.length_cons, Nat.pow_succ]
    have hx : beNat [x] < 256 := by simp [beNat]; exact x.toNat_lt
    calc beNat [x] * 256 ^ xs.length + beNat xs < beNat [x] * 256 ^ xs.length + 256 ^ xs.length := by omega
      _ = (beNat [x] + 1) * 256 ^ xs.length := by rw [Nat.add_mul]; simp
      _ ≤ 256 * 256 ^ xs.length := Nat.mul_le_mul_right _ hx
      _ = 256 ^ xs.length * 256 := Nat.mul_comm _ _

theorem u8_tri (a b : UInt8) : a < b ∨ a = b ∨ b < a := by
  rcases Nat.lt_trichotomy a.toNat b.toNat with h | h | h
  · exact Or.inl (UInt8.lt_iff_toNat_lt.mpr h)
  · exact Or.inr (Or.inl (UInt8.toNat_inj.mp h))
  · exact Or.inr (Or.inr (UInt8.lt_iff_toNat_lt.mpr h))

/-- Go's `bytes.Compare` is the lexicographic order of `List UInt8` -/
theorem bcmp_spec (a b : Bytes) :
    (bcmp a b < 0 ↔ a < b) ∧ (bcmp a b = 0 ↔ a = b) ∧ (0 < bcmp a b ↔ b < a) := by
  induction a generalizing b with
  | nil => cases b <;> simp [bcmp]
  | cons x xs ih =>
    cases b with
    | nil => simp [bcmp]
    | cons y ys =>
      simp only [bcmp, List.cons_lt_cons_iff, List.cons.injEq]
      rcases u8_tri x y with h | h | h
      · have h' : ¬ y < x := UInt8.lt_asymm h
        have hne : x ≠ y := UInt8.ne_of_lt h
        simp [h, h', hne, hne.symm]
      · subst h
        have := ih ys
        simp [UInt8.lt_irrefl, this]
      · have h' : ¬ x < y := UInt8.lt_asymm h
        have hne : y ≠ x := UInt8.ne_of_lt h
        simp [h, h', hne, hne.symm]

theorem bcmp_lt {a b : Bytes} : bcmp a b < 0 ↔ a < b := (bcmp_spec a b).1
theorem bcmp_eq {a b : Bytes} : bcmp a b = 0 ↔ a = b := (bcmp_spec a b).2.1
theorem bcmp_gt {a b : Bytes} : 0 < bcmp a b ↔ b < a := (bcmp_spec a b).2.2

end Ls
