import LsLemmas.AbsBucketNewest
/-
  The inductive invariant of the abstract bucket system (AbsBucket.lean) behind C05, one
  preservation lemma per step, and `inv_reach`.
-/
namespace Ls.Abs
open Ls

theorem empty_wf : DB.empty.WF := fun _ => trivial

theorem upd_wf {d : DB} (hd : d.WF) {v : Ver} (hv : v.WF) (k : Key) : (upd d k v).WF := by
  intro k'
  by_cases hk : k' = k
  · subst hk; rw [upd_same]; exact hv
  · rw [upd_other _ _ _ _ hk]; exact hd k'

/-- a monotone application write only grows the database -/
theorem le_upd {d : DB} {k : Key} {v : Ver} (hm : join (d k) (some v) = some v) :
    d.le (upd d k v) := by
  intro k'
  by_cases hk : k' = k
  · subst hk; rw [upd_same]; exact hm
  · rw [upd_other _ _ _ _ hk]; exact join_idem _

/-- The invariant. `own`/`chain` speak about ALIVE own snapshots only: a snapshot deleted as
    stale by another instance (which re-published its content) need not be below what its
    owner publishes after a restart with an emptied database. -/
structure Inv (f : BF) : Prop where
  /-- all databases are well-formed -/
  dbWF : ∀ i, (f.db i).WF
  /-- all snapshot contents are well-formed -/
  blobWF : ∀ (p : Nat) (x : Blob), f.bucket[p]? = some x → x.content.WF
  /-- an instance that is not waiting for its own snapshot holds all its alive snapshots -/
  own : ∀ i, f.waitingOwn i = false → ∀ (p : Nat) (x : Blob), f.bucket[p]? = some x →
    x.inst = i → x.alive = true → x.content.le (f.db i)
  /-- an alive snapshot is below every later snapshot of the same instance -/
  chain : ∀ (p q : Nat) (x y : Blob), p < q → f.bucket[p]? = some x → f.bucket[q]? = some y →
    x.inst = y.inst → x.alive = true → x.content.le y.content
  /-- what an instance merged since its last restart is in its database -/
  merged : ∀ a idx, idx ∈ f.merged a → ∃ y : Blob, f.bucket[idx]? = some y ∧ y.content.le (f.db a)
  /-- what an instance merged before its latest upload is in a snapshot of its own stored
      strictly later -/
  committed : ∀ a idx, idx ∈ f.committed a → ∃ (y : Blob) (q : Nat) (z : Blob),
    f.bucket[idx]? = some y ∧ idx < q ∧ f.bucket[q]? = some z ∧ z.inst = a ∧ y.content.le z.content
  /-- every snapshot ever stored has a witness: a newest alive snapshot, stored no earlier, above it -/
  wit : ∀ (p : Nat) (x : Blob), f.bucket[p]? = some x →
    ∃ (q : Nat) (w : Blob), Newest f.bucket q w ∧ p ≤ q ∧ x.content.le w.content

theorem inv_init : Inv binit where
  dbWF := fun _ => empty_wf
  blobWF := fun p x h => by simp [binit] at h
  own := fun _ _ p x h => by simp [binit] at h
  chain := fun p q x y _ h => by simp [binit] at h
  merged := fun a idx h => by simp [binit] at h
  committed := fun a idx h => by simp [binit] at h
  wit := fun p x h => by simp [binit] at h

/-- growing the databases (monotone write, merge) preserves the invariant -/
theorem inv_grow {f : BF} (h : Inv f) (db' : Nat → DB) (hwf : ∀ i, (db' i).WF)
    (hle : ∀ i, (f.db i).le (db' i)) : Inv { f with db := db' } where
  dbWF := hwf
  blobWF := h.blobWF
  own := fun i hw p x hx hi ha =>
    le_trans (h.blobWF p x hx) (h.dbWF i) (hwf i) (h.own i hw p x hx hi ha) (hle i)
  chain := h.chain
  merged := fun a idx hm => by
    obtain ⟨y, hy, hyle⟩ := h.merged a idx hm
    exact ⟨y, hy, le_trans (h.blobWF idx y hy) (h.dbWF a) (hwf a) hyle (hle a)⟩
  committed := h.committed
  wit := h.wit

theorem inv_write {f : BF} (h : Inv f) (i : Nat) (k : Key) (v : Ver) (hv : v.WF)
    (hm : join (f.db i k) (some v) = some v) : Inv (bstep f (.write i k v)) := by
  apply inv_grow h
  · intro j; by_cases hj : j = i
    · simp only [if_pos hj]; exact upd_wf (h.dbWF i) hv k
    · simp only [if_neg hj]; exact h.dbWF j
  · intro j; by_cases hj : j = i
    · subst hj; simp only [if_true]; exact le_upd hm
    · simp only [if_neg hj]; exact le_refl _

theorem inv_send {f : BF} (h : Inv f) (i : Nat) (hw : f.waitingOwn i = false) :
    Inv (bstep f (.send i)) := by
  have hlen : ∀ {p : Nat} {x : Blob}, f.bucket[p]? = some x → p < f.bucket.length := getElem?_lt
  refine ⟨h.dbWF, ?_, ?_, ?_, ?_, ?_, ?_⟩
  · intro p x hx
    rcases getElem?_append_one hx with hx | ⟨_, rfl⟩
    · exact h.blobWF p x hx
    · exact h.dbWF i
  · intro j hj p x hx hi ha
    rcases getElem?_append_one hx with hx | ⟨_, rfl⟩
    · exact h.own j hj p x hx hi ha
    · simp only at hi; subst hi; exact le_refl _
  · intro p q x y hpq hx hy hi ha
    rcases getElem?_append_one hy with hy | ⟨hq, rfl⟩
    · rcases getElem?_append_one hx with hx | ⟨hp, _⟩
      · exact h.chain p q x y hpq hx hy hi ha
      · have := hlen hy; omega
    · rcases getElem?_append_one hx with hx | ⟨hp, _⟩
      · exact h.own i hw p x hx hi ha
      · omega
  · intro a idx hm
    obtain ⟨y, hy, hyle⟩ := h.merged a idx hm
    exact ⟨y, getElem?_append_old hy, hyle⟩
  · intro a idx hc
    by_cases ha : a = i
    · subst ha
      simp only [bstep, if_true] at hc
      obtain ⟨y, hy, hyle⟩ := h.merged a idx hc
      exact ⟨y, f.bucket.length, _, getElem?_append_old hy, hlen hy, getElem?_append_new _ _, rfl, hyle⟩
    · simp only [bstep, if_neg ha] at hc
      obtain ⟨y, q, z, hy, hq, hz, hza, hle⟩ := h.committed a idx hc
      exact ⟨y, q, z, getElem?_append_old hy, hq, getElem?_append_old hz, hza, hle⟩
  · intro p x hx
    rcases getElem?_append_one hx with hx | ⟨hp, rfl⟩
    · obtain ⟨q, w, hn, hpq, hle⟩ := h.wit p x hx
      by_cases hwi : w.inst = i
      · refine ⟨f.bucket.length, _, Newest.append_new _ _ rfl, Nat.le_of_lt (hlen hx), ?_⟩
        exact le_trans (h.blobWF p x hx) (h.blobWF q w hn.1) (h.dbWF i) hle
          (h.own i hw q w hn.1 hwi hn.2.1)
      · exact ⟨q, w, hn.append_other _ (fun e => hwi e.symm), hpq, hle⟩
    · exact ⟨f.bucket.length, _, Newest.append_new _ _ rfl, Nat.le_of_eq hp, le_refl _⟩

theorem bstep_load_some {f : BF} {i idx : Nat} {x : Blob} (hx : f.bucket[idx]? = some x) :
    bstep f (.load i idx) =
      { f with db := fun j => if j = i then (f.db i).join x.content else f.db j,
               merged := fun j => if j = i then idx :: f.merged i else f.merged j,
               waitingOwn := fun j =>
                 if j = i ∧ x.inst = i ∧ newestIdx f.bucket i = some idx then false
                 else f.waitingOwn j } := by
  simp only [bstep, hx]

theorem bstep_load_none {f : BF} {i idx : Nat} (hx : f.bucket[idx]? = none) :
    bstep f (.load i idx) = f := by
  simp only [bstep, hx]

/-- merging any snapshot of the bucket (alive or not) preserves the invariant -/
theorem inv_load {f : BF} (h : Inv f) (i idx : Nat) : Inv (bstep f (.load i idx)) := by
  cases hx : f.bucket[idx]? with
  | none => rw [bstep_load_none hx]; exact h
  | some x =>
    rw [bstep_load_some hx]
    have hxwf := h.blobWF idx x hx
    have hjwf : ((f.db i).join x.content).WF := join_wf' (h.dbWF i) hxwf
    have hwf : ∀ j, (if j = i then (f.db i).join x.content else f.db j).WF := by
      intro j; by_cases hj : j = i
      · simp only [if_pos hj]; exact hjwf
      · simp only [if_neg hj]; exact h.dbWF j
    have hle : ∀ j, (f.db j).le (if j = i then (f.db i).join x.content else f.db j) := by
      intro j; by_cases hj : j = i
      · subst hj; simp only [if_true]; exact le_join_left (h.dbWF j) hxwf
      · simp only [if_neg hj]; exact le_refl _
    have hg := inv_grow h _ hwf hle
    refine ⟨hg.dbWF, hg.blobWF, ?_, hg.chain, ?_, hg.committed, hg.wit⟩
    · intro j hj p y hy hyi hya
      simp only at hj
      by_cases hc : j = i ∧ x.inst = i ∧ newestIdx f.bucket i = some idx
      · obtain ⟨hji, hxi, hnew⟩ := hc
        subst hji
        simp only [if_true]
        obtain ⟨w, hn, _⟩ := newestIdx_some hnew
        have hwx : w = x := by
          have := hn.1; rw [hx] at this; injection this with this; exact this.symm
        subst hwx
        have hpi : p ≤ idx := by
          rcases Nat.lt_or_ge idx p with hlt | hge
          · have := hn.2.2 p y hlt hy (hyi.trans hxi.symm)
            rw [this] at hya; cases hya
          · exact hge
        have hyx : y.content.le w.content := by
          rcases Nat.lt_or_eq_of_le hpi with hlt | heq
          · exact h.chain p idx y w hlt hy hx (hyi.trans hxi.symm) hya
          · subst heq; rw [hx] at hy; injection hy with hy; subst hy; exact le_refl _
        exact le_trans (h.blobWF p y hy) hxwf hjwf hyx (le_join_right (h.dbWF j) hxwf)
      · rw [if_neg hc] at hj
        exact hg.own j hj p y hy hyi hya
    · intro a idx' hm
      simp only at hm
      by_cases ha : a = i
      · subst ha
        simp only [if_true] at hm ⊢
        rcases List.mem_cons.mp hm with rfl | hm
        · exact ⟨x, hx, le_join_right (h.dbWF a) hxwf⟩
        · have := hg.merged a idx' hm; simpa using this
      · simp only [if_neg ha] at hm
        exact hg.merged a idx' hm

theorem inv_restart {f : BF} (h : Inv f) (i : Nat) (wipe : Bool) :
    Inv (bstep f (.restart i wipe)) := by
  refine ⟨?_, h.blobWF, ?_, h.chain, ?_, ?_, h.wit⟩
  · intro j
    simp only [bstep]
    split
    · exact empty_wf
    · exact h.dbWF j
  · intro j hj p x hx hi ha
    simp only [bstep] at hj ⊢
    by_cases hji : j = i
    · subst hji
      simp only [if_true] at hj
      have hn : newestIdx f.bucket j = none := by
        cases hn : newestIdx f.bucket j with
        | none => rfl
        | some q => rw [hn] at hj; cases hj
      have := newestIdx_none hn p x hx hi
      rw [this] at ha; cases ha
    · rw [if_neg hji] at hj
      rw [if_neg (fun hc => hji hc.1)]
      exact h.own j hj p x hx hi ha
  · intro a idx hm
    simp only [bstep] at hm ⊢
    by_cases ha : a = i
    · simp [ha] at hm
    · rw [if_neg ha] at hm
      rw [if_neg (fun hc => ha hc.1)]
      exact h.merged a idx hm
  · intro a idx hm
    simp only [bstep] at hm ⊢
    by_cases ha : a = i
    · simp [ha] at hm
    · rw [if_neg ha] at hm
      exact h.committed a idx hm

/-- deleting blob `idx` preserves the invariant provided that, if it is the newest of its
    instance, some newest snapshot stored strictly later is above it -/
theorem inv_delete {f : BF} (h : Inv f) (idx : Nat)
    (hc : ∀ w, Newest f.bucket idx w →
      ∃ (q' : Nat) (w' : Blob), Newest f.bucket q' w' ∧ idx < q' ∧ w.content.le w'.content) :
    Inv { f with bucket := setAlive f.bucket idx } := by
  refine ⟨h.dbWF, ?_, ?_, ?_, ?_, ?_, ?_⟩
  · intro p x hx
    obtain ⟨x0, hx0, _, hc0, _⟩ := getElem?_setAlive_some hx
    rw [hc0]; exact h.blobWF p x0 hx0
  · intro i hw p x hx hi ha
    obtain ⟨x0, hx0, hi0, hc0, hal⟩ := getElem?_setAlive_some hx
    rw [hc0]; exact h.own i hw p x0 hx0 (hi0 ▸ hi) (hal ha).1
  · intro p q x y hpq hx hy hi ha
    obtain ⟨x0, hx0, hxi, hxc, hxa⟩ := getElem?_setAlive_some hx
    obtain ⟨y0, hy0, hyi, hyc, _⟩ := getElem?_setAlive_some hy
    rw [hxc, hyc]
    exact h.chain p q x0 y0 hpq hx0 hy0 (by rw [← hxi, ← hyi]; exact hi) (hxa ha).1
  · intro a i hm
    obtain ⟨y0, hy0, hle⟩ := h.merged a i hm
    obtain ⟨y, hy, _, hyc, _⟩ := getElem?_setAlive_old (idx := idx) hy0
    exact ⟨y, hy, by rw [hyc]; exact hle⟩
  · intro a i hm
    obtain ⟨y0, q, z0, hy0, hq, hz0, hza, hle⟩ := h.committed a i hm
    obtain ⟨y, hy, _, hyc, _⟩ := getElem?_setAlive_old (idx := idx) hy0
    obtain ⟨z, hz, hzi, hzc, _⟩ := getElem?_setAlive_old (idx := idx) hz0
    exact ⟨y, q, z, hy, hq, hz, hzi.trans hza, by rw [hyc, hzc]; exact hle⟩
  · intro p x hx
    obtain ⟨x0, hx0, _, hxc, _⟩ := getElem?_setAlive_some hx
    obtain ⟨q, w, hn, hpq, hle⟩ := h.wit p x0 hx0
    rw [hxc]
    by_cases hq : q = idx
    · subst hq
      obtain ⟨q', w', hn', hlt, hle'⟩ := hc w hn
      refine ⟨q', w', hn'.setAlive (by omega), by omega, ?_⟩
      exact le_trans (h.blobWF p x0 hx0) (h.blobWF q w hn.1) (h.blobWF q' w' hn'.1) hle hle'
    · exact ⟨q, w, hn.setAlive hq, hpq, hle⟩

theorem inv_cleanSuperseded {f : BF} (h : Inv f) (idx : Nat)
    (he : enabled f (.cleanSuperseded idx)) : Inv (bstep f (.cleanSuperseded idx)) := by
  apply inv_delete h idx
  intro w hn
  obtain ⟨x, hx, hne⟩ := he
  have : w = x := by
    have := hn.1; rw [hx] at this; injection this with this; exact this.symm
  subst this
  exact absurd hn.toIdx hne

theorem inv_cleanStale {f : BF} (h : Inv f) (a idx : Nat)
    (he : enabled f (.cleanStale a idx)) : Inv (bstep f (.cleanStale a idx)) := by
  apply inv_delete h idx
  intro w hn
  obtain ⟨y, q, z, hy, hq, hz, _, hle⟩ := h.committed a idx he
  have : w = y := by
    have := hn.1; rw [hy] at this; injection this with this; exact this.symm
  subst this
  obtain ⟨q', w', hn', hqq', hle'⟩ := h.wit q z hz
  refine ⟨q', w', hn', by omega, ?_⟩
  exact le_trans (h.blobWF idx w hy) (h.blobWF q z hz) (h.blobWF q' w' hn'.1) hle hle'

theorem inv_step {f : BF} (h : Inv f) (s : BStep) (he : enabled f s) : Inv (bstep f s) := by
  cases s with
  | write i k v => exact inv_write h i k v he.1 he.2
  | send i => exact inv_send h i he
  | sendFails i => exact h
  | load i idx => exact inv_load h i idx
  | restart i wipe => exact inv_restart h i wipe
  | cleanSuperseded idx => exact inv_cleanSuperseded h idx he
  | cleanStale a idx => exact inv_cleanStale h a idx he

theorem inv_reach {f : BF} (h : Reach f) : Inv f := by
  induction h with
  | init => exact inv_init
  | step s _ he ih => exact inv_step ih s he

/-! ### runs -/

/-- apply a schedule -/
def brun (f : BF) (steps : List BStep) : BF := steps.foldl bstep f

/-- every step of the schedule is enabled in the state it is taken in -/
def EnabledFrom (f : BF) : List BStep → Prop
  | [] => True
  | s :: rest => enabled f s ∧ EnabledFrom (bstep f s) rest

theorem reach_run {f : BF} (h : Reach f) (steps : List BStep) (he : EnabledFrom f steps) :
    Reach (brun f steps) := by
  induction steps generalizing f with
  | nil => exact h
  | cons s rest ih => exact ih (Reach.step s h he.1) he.2

/-- no step removes a blob from the list or changes its instance or content -/
theorem bstep_keeps {f : BF} (s : BStep) {p : Nat} {x : Blob} (hx : f.bucket[p]? = some x) :
    ∃ x', (bstep f s).bucket[p]? = some x' ∧ x'.inst = x.inst ∧ x'.content = x.content := by
  cases s with
  | write i k v => exact ⟨x, hx, rfl, rfl⟩
  | send i => exact ⟨x, getElem?_append_old hx, rfl, rfl⟩
  | sendFails i => exact ⟨x, hx, rfl, rfl⟩
  | load i idx =>
    cases hb : f.bucket[idx]? with
    | none => rw [bstep_load_none hb]; exact ⟨x, hx, rfl, rfl⟩
    | some y => rw [bstep_load_some hb]; exact ⟨x, hx, rfl, rfl⟩
  | restart i wipe => exact ⟨x, hx, rfl, rfl⟩
  | cleanSuperseded idx =>
    obtain ⟨x', h1, h2, h3, _⟩ := getElem?_setAlive_old (idx := idx) hx
    exact ⟨x', h1, h2, h3⟩
  | cleanStale a idx =>
    obtain ⟨x', h1, h2, h3, _⟩ := getElem?_setAlive_old (idx := idx) hx
    exact ⟨x', h1, h2, h3⟩

theorem brun_keeps {f : BF} (steps : List BStep) {p : Nat} {x : Blob} (hx : f.bucket[p]? = some x) :
    ∃ x', (brun f steps).bucket[p]? = some x' ∧ x'.inst = x.inst ∧ x'.content = x.content := by
  induction steps generalizing f x with
  | nil => exact ⟨x, hx, rfl, rfl⟩
  | cons s rest ih =>
    obtain ⟨x1, h1, hi1, hc1⟩ := bstep_keeps s hx
    obtain ⟨x2, h2, hi2, hc2⟩ := ih h1
    exact ⟨x2, h2, hi2.trans hi1, hc2.trans hc1⟩

end Ls.Abs
