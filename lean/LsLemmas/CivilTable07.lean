import LsLemmas.CivilTableDefs
/- civil-date table, rows 56000 … 63999 (kernel evaluation; see CivilTableDefs) -/
namespace Ls.Civil

theorem chunk07 : chunkOK 56000 8000 = true := by decide +kernel

end Ls.Civil
