import LsLemmas.Bytes
import LsModel.Wire
import LsModel.PbSpec
/-
  Lemmas about the wire primitives: the Outcome monad, Go slice expressions in range,
  csproto.DecodeVarint vs. the declarative base-128 number of PbSpec, EncodeVarint round trip.
-/
namespace Ls.Wire
open Ls

@[simp] theorem bind_ok {α β : Type} (a : α) (f : α → Outcome β) : (Outcome.ok a >>= f) = f a := rfl
@[simp] theorem bind_err {α β : Type} (e : Err) (f : α → Outcome β) :
    ((Outcome.err e : Outcome α) >>= f) = .err e := rfl
@[simp] theorem bind_panic {α β : Type} (f : α → Outcome β) :
    ((Outcome.panic : Outcome α) >>= f) = .panic := rfl
@[simp] theorem bind_hang {α β : Type} (f : α → Outcome β) :
    ((Outcome.hang : Outcome α) >>= f) = .hang := rfl
@[simp] theorem pure_eq {α : Type} (a : α) : (pure a : Outcome α) = .ok a := rfl

/-- an outcome that is a result or an error — neither a panic nor a hang -/
def Outcome.Safe {α : Type} : Outcome α → Prop
  | .ok _ => True
  | .err _ => True
  | .panic => False
  | .hang => False

@[simp] theorem safe_ok {α : Type} (a : α) : (Outcome.ok a).Safe := trivial
@[simp] theorem safe_err {α : Type} (e : Err) : (Outcome.err e : Outcome α).Safe := trivial
@[simp] theorem safe_panic {α : Type} : ¬ (Outcome.panic : Outcome α).Safe := id
@[simp] theorem safe_hang {α : Type} : ¬ (Outcome.hang : Outcome α).Safe := id

theorem safe_iff {α : Type} (o : Outcome α) : o.Safe ↔ (∃ a, o = .ok a) ∨ (∃ e, o = .err e) := by
  cases o <;> simp [Outcome.Safe]

theorem safe_bind {α β : Type} {x : Outcome α} {f : α → Outcome β}
    (hx : x.Safe) (hf : ∀ a, x = .ok a → (f a).Safe) : (x >>= f).Safe := by
  cases x with
  | ok a => exact hf a rfl
  | err e => trivial
  | panic => exact hx.elim
  | hang => exact hx.elim

/-! ### Go slice expressions -/

theorem sliceFrom_eq (data : Bytes) (off : Int) (m : Nat) (h : off = m) (hm : m ≤ data.length) :
    sliceFrom data off = .ok (data.drop m) := by
  subst h
  simp [sliceFrom, hm]

theorem sliceLH_eq (data : Bytes) (lo hi : Int) (a b : Nat) (ha : lo = a) (hb : hi = b)
    (hab : a ≤ b) (hbl : b ≤ data.length) :
    sliceLH data lo hi = .ok ((data.drop a).take (b - a)) := by
  subst ha hb
  have h1 : ((a : Int) ≤ (b : Int)) := by omega
  have h2 : ((b : Int) ≤ (data.length : Int)) := by omega
  have h3 : ((b : Int) - (a : Int)).toNat = b - a := by omega
  simp [sliceLH, h1, h2, h3]

theorem toInt64_small (v : Nat) (h : v < two63) : toInt64 v = (v : Int) := by
  have h2 : v % two64 = v := Nat.mod_eq_of_lt (by simp [two63, two64] at *; omega)
  simp [toInt64, h2, h]

theorem toUInt64_nat (n : Nat) (h : n < two64) : toUInt64 (n : Int) = n := by
  unfold toUInt64
  have : ((n : Int) % ((two64 : Nat) : Int)) = (n : Int) :=
    Int.emod_eq_of_lt (by omega) (by omega)
  rw [this]; simp

theorem wrapInt64_small (i : Int) (h0 : 0 ≤ i) (h1 : i < (two63 : Nat)) : wrapInt64 i = i := by
  obtain ⟨n, rfl⟩ := Int.eq_ofNat_of_zero_le h0
  have hn : n < two63 := by exact_mod_cast h1
  unfold wrapInt64
  rw [toUInt64_nat n (by simp [two63, two64] at *; omega), toInt64_small n hn]

/-! ### DecodeVarint -/

theorem dvLoop_bounds (k : Nat) (p : Bytes) (i acc v n : Nat)
    (h : dvLoop k p i acc = .ok (v, n)) :
    ∃ m, n = i + m ∧ 1 ≤ m ∧ m ≤ p.length ∧ m ≤ k ∧ v < two64 := by
  induction k generalizing p i acc with
  | zero => simp [dvLoop] at h
  | succ k ih =>
    cases p with
    | nil => simp [dvLoop] at h
    | cons b rest =>
      simp only [dvLoop] at h
      split at h
      · injection h with h; injection h with h1 h2
        refine ⟨1, h2.symm, Nat.le_refl _, by simp, by omega, ?_⟩
        rw [← h1]; exact Nat.mod_lt _ (by decide)
      · obtain ⟨m, hm, h1, h2, h3, h4⟩ := ih rest (i + 1) _ h
        exact ⟨m + 1, by omega, by omega, by simp; omega, by omega, h4⟩

/-- a decoded varint consumed between 1 and 10 bytes of the input and fits 64 bits -/
theorem decodeVarint_bounds (p : Bytes) (v n : Nat) (h : decodeVarint p = .ok (v, n)) :
    1 ≤ n ∧ n ≤ p.length ∧ n ≤ 10 ∧ v < two64 := by
  cases p with
  | nil => simp [decodeVarint] at h
  | cons b rest =>
    simp only [decodeVarint] at h
    split at h
    · injection h with h; injection h with h1 h2
      subst h1 h2
      refine ⟨Nat.le_refl _, by simp, by omega, ?_⟩
      have := b.toNat_lt
      simp [two64]; omega
    · obtain ⟨m, hm, h1, h2, h3, h4⟩ := dvLoop_bounds _ _ _ _ _ _ h
      exact ⟨by omega, by omega, by omega, h4⟩

theorem decodeVarint_safe (p : Bytes) : (decodeVarint p).Safe := by
  have hl : ∀ k p i acc, (dvLoop k p i acc).Safe := by
    intro k
    induction k with
    | zero => intros; simp [dvLoop]
    | succ k ih =>
      intro p i acc
      cases p with
      | nil => simp [dvLoop]
      | cons b rest =>
        simp only [dvLoop]
        split
        · simp
        · exact ih _ _ _
  cases p with
  | nil => simp [decodeVarint]
  | cons b rest =>
    simp only [decodeVarint]
    split
    · simp
    · exact hl _ _ _ _

/-- what PbSpec's base-128 reader returns is a proper suffix, at most `k` bytes shorter -/
theorem varintN_suffix (k : Nat) (p : Bytes) (w : Nat) (rest : Bytes)
    (h : PbSpec.varintN k p = some (w, rest)) :
    ∃ c, p = c ++ rest ∧ 1 ≤ c.length ∧ c.length ≤ k := by
  induction k generalizing p w rest with
  | zero => simp [PbSpec.varintN] at h
  | succ k ih =>
    cases p with
    | nil => simp [PbSpec.varintN] at h
    | cons b tl =>
      simp only [PbSpec.varintN] at h
      split at h
      · injection h with h; injection h with h1 h2
        subst h2
        exact ⟨[b], rfl, by simp, by simp⟩
      · split at h
        · simp at h
        · rename_i v r hv
          injection h with h; injection h with h1 h2
          subst h2
          obtain ⟨c, hc, h1, h2⟩ := ih tl v r hv
          exact ⟨b :: c, by simp [hc], by simp, by simp; omega⟩

theorem dvLoop_varintN (k : Nat) (p : Bytes) (i acc w : Nat) (rest : Bytes)
    (h : PbSpec.varintN k p = some (w, rest)) :
    dvLoop k p i acc = .ok ((acc + w * 2 ^ (7 * i)) % two64, i + (p.length - rest.length)) := by
  induction k generalizing p i acc w rest with
  | zero => simp [PbSpec.varintN] at h
  | succ k ih =>
    cases p with
    | nil => simp [PbSpec.varintN] at h
    | cons b tl =>
      simp only [PbSpec.varintN] at h
      split at h
      · rename_i hb
        injection h with h; injection h with h1 h2
        subst h1 h2
        have hm : b.toNat % 128 = b.toNat := Nat.mod_eq_of_lt hb
        simp [dvLoop, hb, hm]
      · rename_i hb
        split at h
        · simp at h
        · rename_i v r hv
          injection h with h; injection h with h1 h2
          subst h1 h2
          have hlt := b.toNat_lt
          have hm : b.toNat % 128 = b.toNat - 128 := by omega
          obtain ⟨c, hc, hc1, _⟩ := varintN_suffix k tl v r hv
          have hlen : (b :: tl).length - r.length = 1 + (tl.length - r.length) := by
            subst hc; simp; omega
          simp only [dvLoop, hb, if_false]
          rw [ih tl (i + 1) _ v r hv, hlen, hm]
          have hp : 2 ^ (7 * (i + 1)) = 128 * 2 ^ (7 * i) := by
            rw [Nat.mul_add, Nat.pow_add]; simp [Nat.mul_comm]
          rw [hp, Nat.add_mod, Nat.mod_mod, ← Nat.add_mod]
          congr 2
          · rw [Nat.add_mul, Nat.add_assoc]
            congr 1
            rw [Nat.mul_assoc, Nat.mul_comm v, ← Nat.mul_assoc, Nat.mul_right_comm 128]
          · omega

/-- csproto.DecodeVarint reads what the declarative varint of PbSpec denotes -/
theorem decodeVarint_of_spec (p : Bytes) (v : Nat) (rest : Bytes)
    (h : PbSpec.varint p = some (v, rest)) :
    ∃ n, decodeVarint p = .ok (v, n) ∧ rest = p.drop n ∧ 1 ≤ n ∧ n ≤ p.length := by
  unfold PbSpec.varint at h
  split at h
  · simp at h
  · rename_i w r hw
    injection h with h; injection h with h1 h2
    subst h1 h2
    obtain ⟨c, hc, hc1, hc2⟩ := varintN_suffix 10 p w r hw
    have hlen : p.length - r.length = c.length := by subst hc; simp
    have hdrop : r = p.drop c.length := by subst hc; simp
    refine ⟨c.length, ?_, hdrop, hc1, by subst hc; simp⟩
    cases p with
    | nil => simp [PbSpec.varintN] at hw
    | cons b tl =>
      simp only [decodeVarint]
      split
      · rename_i hb
        simp only [PbSpec.varintN, hb, if_true] at hw
        injection hw with hw; injection hw with h1 h2
        subst h1 h2
        have : b.toNat % 2 ^ 64 = b.toNat := Nat.mod_eq_of_lt (by have := b.toNat_lt; omega)
        rw [this]
        have : c.length = 1 := by
          have := congrArg List.length hc; simp at this; omega
        rw [this]
      · have := dvLoop_varintN 10 (b :: tl) 0 0 w r hw
        rw [this, hlen]
        simp [two64]

/-! ### EncodeVarint -/

theorem evLoop_ne_nil (k v : Nat) : evLoop k v ≠ [] := by
  cases k <;> simp [evLoop] <;> split <;> simp

theorem evLoop_length_le (k v : Nat) : (evLoop k v).length ≤ k + 1 := by
  induction k generalizing v with
  | zero => simp [evLoop]
  | succ k ih =>
    simp only [evLoop]; split
    · simp
    · simp; exact ih _

theorem encodeVarint_length_le (v : Nat) : (encodeVarint v).length ≤ 10 := evLoop_length_le 9 _
theorem encodeVarint_length_pos (v : Nat) : 1 ≤ (encodeVarint v).length := by
  have := evLoop_ne_nil 9 (v % two64)
  unfold encodeVarint
  cases h : evLoop 9 (v % two64) with
  | nil => exact absurd h this
  | cons _ _ => simp

/-- the declarative reader reads back what EncodeVarint wrote, whatever follows -/
theorem varintN_evLoop (k v : Nat) (rest : Bytes) (hv : v < 128 ^ (k + 1)) :
    PbSpec.varintN (k + 1) (evLoop k v ++ rest) = some (v, rest) := by
  induction k generalizing v with
  | zero =>
    have hv' : v < 128 := by simpa using hv
    have : (UInt8.ofNat v).toNat = v := by
      simp [UInt8.toNat_ofNat']; omega
    simp [evLoop, PbSpec.varintN, this, hv']
  | succ k ih =>
    simp only [evLoop]
    split
    · rename_i hlt
      have : (UInt8.ofNat v).toNat = v := by
        simp [UInt8.toNat_ofNat']; omega
      simp [PbSpec.varintN, this, hlt]
    · rename_i hge
      have hb : (UInt8.ofNat (v % 128 + 128)).toNat = v % 128 + 128 := by
        simp [UInt8.toNat_ofNat']; omega
      have hdiv : v / 128 < 128 ^ (k + 1) := by
        rw [Nat.div_lt_iff_lt_mul (by decide)]
        rw [Nat.pow_succ] at hv; exact hv
      have hnot : ¬ (v % 128 + 128 < 128) := by omega
      simp only [List.cons_append, PbSpec.varintN, hb, hnot, if_false, ih (v / 128) hdiv]
      congr 2
      omega

theorem varint_encodeVarint (v : Nat) (rest : Bytes) (hv : v < two64) :
    PbSpec.varint (encodeVarint v ++ rest) = some (v, rest) := by
  have h1 : v % two64 = v := Nat.mod_eq_of_lt hv
  have h2 : v < 128 ^ 10 := by simp [two64] at hv; omega
  unfold PbSpec.varint encodeVarint
  rw [h1, varintN_evLoop 9 v rest h2]
  simp
  simpa [two64] using hv

end Ls.Wire
