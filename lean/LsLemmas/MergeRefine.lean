import LsLemmas.Merge
import LsLemmas.Join
/-
  Refinement of the byte-level `merge` to the abstract last-writer-wins join.
-/
namespace Ls.Merge
open Ls Ls.Header

/-- logical content of a stored value (`[]` = absent) -/
def decodeS (stored : Bytes) : Except Header.Err (Option Ver) :=
  if stored.length = 0 then .ok none
  else match parse stored with
    | .error e => .error e
    | .ok (h, v) => .ok (some { ts := h.ts, del := isDeleted h.flags, val := v })

/-- the version an entry denotes for an iterator: default timestamp applied, format-v1
    "empty means deleted" applied, value dropped when deleted (what `addHeader` writes) -/
def norm (c : Cfg) (e : KV) : Ver :=
  { ts := if e.ts = 0 then c.defTs else e.ts,
    del := entryDeleted c e,
    val := if entryDeleted c e then [] else e.val }

/-- decidable well-formedness of an entry: a deleted entry carries no value. Everything
    Lightning Stream itself emits satisfies it (`readDBI` emits the stored application value, which
    `addHeader` made empty for deleted entries). -/
def EntryWF (e : KV) : Prop := isDeleted (maskedFlags e) = true → e.val = []

instance (e : KV) : Decidable (EntryWF e) := by unfold EntryWF; exact inferInstance

def Bounded (c : Cfg) (e : KV) : Prop := c.defTs < two64 ∧ c.txn < two64 ∧ e.ts < two64

/-- is the entry a deletion marker older than the cut-off (refused when the key is absent)? -/
def stale (c : Cfg) (e : KV) : Prop := entryDeleted c e = true ∧ e.ts < c.cutoff

theorem norm_wf (c : Cfg) (e : KV) : (norm c e).WF := by
  intro h; simp only [norm] at h ⊢; simp [h]

theorem norm_val_of_wf {c : Cfg} {e : KV} (hw : EntryWF e) : (norm c e).val = e.val := by
  unfold norm entryDeleted
  by_cases h1 : isDeleted (maskedFlags e) = true
  · simp [h1, hw h1]
  · by_cases h2 : e.val.length = 0 ∧ c.fv < 2
    · have : e.val = [] := List.length_eq_zero_iff.mp h2.1
      simp [this]
    · simp only [Bool.not_eq_true] at h1
      simp [h1]
      intro h3 _; exact h3

theorem isDeleted_or_deleted (fl : UInt8) : isDeleted (fl ||| UInt8.ofNat Gen.flagDeleted) = true := by
  unfold isDeleted
  have : (fl ||| UInt8.ofNat Gen.flagDeleted) &&& UInt8.ofNat Gen.flagDeleted ≠ 0 := by
    intro h
    have h' := congrArg UInt8.toBitVec h
    simp only [Gen.flagDeleted, UInt8.toBitVec_and, UInt8.toBitVec_or, UInt8.toBitVec_ofNat] at h'
    revert h'
    generalize fl.toBitVec = x
    decide +revert
  simpa using this

theorem isDeleted_effFlags (c : Cfg) (e : KV) :
    isDeleted (effFlags c e.val (maskedFlags e)) = entryDeleted c e := by
  unfold effFlags entryDeleted
  by_cases h2 : e.val.length = 0 ∧ c.fv < 2
  · rw [if_pos h2, isDeleted_or_deleted]; simp [h2.1, h2.2]
  · rw [if_neg h2]
    simp only [List.length_eq_zero_iff] at h2
    simp
    intro h3 h4; exact absurd ⟨h3, h4⟩ h2

/-- a value of the written shape parses back -/
theorem parse_written (txn ts : Nat) (pad : Bool) (fl : UInt8) (app : Bytes)
    (hts : ts < two64) (htx : txn < two64) :
    parse (be64 ts ++ be64 txn ++ [0, fl, 0, 0, 0, 0, 0, if pad then 1 else 0]
        ++ (if pad then [0, 0, 0, 0, 0, 0, 0, 0] else []) ++ app)
      = .ok ({ ts := ts, txn := txn, version := 0, flags := fl, numExtra := if pad then 1 else 0,
               extra := if pad then [0, 0, 0, 0, 0, 0, 0, 0] else [] }, app) := by
  have h1 := beNat_be64 ts hts
  have h2 := beNat_be64 txn htx
  obtain ⟨a0, a1, a2, a3, a4, a5, a6, a7, ha⟩ := list_len8 (be64 ts) (be64_length ts)
  obtain ⟨b0, b1, b2, b3, b4, b5, b6, b7, hb⟩ := list_len8 (be64 txn) (be64_length txn)
  rw [ha] at h1; rw [hb] at h2
  have h1' : ((((((a0.toNat * 256 + a1.toNat) * 256 + a2.toNat) * 256 + a3.toNat) * 256 + a4.toNat) * 256 +
      a5.toNat) * 256 + a6.toNat) * 256 + a7.toNat = ts := by simpa [beNat] using h1
  have h2' : ((((((b0.toNat * 256 + b1.toNat) * 256 + b2.toNat) * 256 + b3.toNat) * 256 + b4.toNat) * 256 +
      b5.toNat) * 256 + b6.toNat) * 256 + b7.toNat = txn := by simpa [beNat] using h2
  cases pad
  · simp [parse, getNumExtra, slice, Gen.versionOffset, Gen.flagsOffset, Gen.numExtraOffsetHigh,
      Gen.minHeaderSize, Gen.blockSize, hsz, bsz, ha, hb, beNat]
    rw [if_neg (by omega)]
    simp [h1', h2']
  · simp [parse, getNumExtra, slice, Gen.versionOffset, Gen.flagsOffset, Gen.numExtraOffsetHigh,
      Gen.minHeaderSize, Gen.blockSize, hsz, bsz, ha, hb, beNat]
    rw [if_neg (by omega)]
    simp [h1', h2']

theorem addHeader_length_pos (c : Cfg) (v : Bytes) (ts : Nat) (fl : UInt8) :
    (addHeader c v ts fl).length ≠ 0 := by
  rw [addHeader_eq]; simp

/-- the logical content of what `addHeader` writes for an entry is the entry's normal form -/
theorem decodeS_addHeader (c : Cfg) (e : KV) (hb : Bounded c e) :
    decodeS (addHeader c e.val e.ts (maskedFlags e)) = .ok (some (norm c e)) := by
  unfold decodeS
  rw [if_neg (addHeader_length_pos c e.val e.ts (maskedFlags e)), addHeader_eq, parse_written]
  · simp only [norm, isDeleted_effFlags]
  · split
    · exact hb.1
    · exact hb.2.2
  · exact hb.2.1

/-- the condition under which `Merge` returns the stored bytes (stored value present, parsed) -/
def keep (c : Cfg) (e : KV) (h : Hdr) (appVal : Bytes) : Prop :=
  (e.ts = 0 ∧ appVal = e.val ∧ ¬ (entryDeleted c e = true ∧ ¬ isDeleted h.flags = true)) ∨
  (if e.ts = 0 then c.defTs else e.ts) < h.ts ∨
    ((if e.ts = 0 then c.defTs else e.ts) = h.ts ∧ (bcmp appVal e.val < 0 ∨
      (bcmp appVal e.val = 0 ∧ ¬ (entryDeleted c e = true ∧ ¬ isDeleted h.flags = true))))

instance (c : Cfg) (e : KV) (h : Hdr) (appVal : Bytes) : Decidable (keep c e h appVal) := by
  unfold keep; exact inferInstance

theorem merge_present (c : Cfg) (e : KV) (old : Bytes) (h : Hdr) (appVal : Bytes)
    (hl : old.length ≠ 0) (hp : parse old = .ok (h, appVal)) :
    (keep c e h appVal → merge c e old = .ok (some old)) ∧
    (¬ keep c e h appVal → merge c e old = .ok (some (addHeader c e.val e.ts (maskedFlags e)))) := by
  unfold merge keep
  rw [if_neg hl, hp]
  simp only
  rw [← addHeader_ts_norm c e.val e.ts]
  generalize (if e.ts = 0 then c.defTs else e.ts) = newTS
  constructor
  · intro hk
    split
    · rfl
    · split
      · rfl
      · split
        · rfl
        · rename_i h1 h2 h3
          rcases hk with hk | hk | hk
          · exact absurd hk h1
          · exact absurd hk h2
          · exact absurd hk h3
  · intro hk
    simp only [not_or] at hk
    rw [if_neg hk.1, if_neg hk.2.1, if_neg hk.2.2]

/-- whenever `Merge` does not keep the stored bytes, the entry strictly wins against them -/
theorem not_keep_beats {c : Cfg} {e : KV} {h : Hdr} {appVal : Bytes} (hw : EntryWF e)
    (hk : ¬ keep c e h appVal) :
    (norm c e).beats { ts := h.ts, del := isDeleted h.flags, val := appVal } := by
  unfold keep at hk
  rw [not_or, not_or] at hk
  obtain ⟨_, h2, h3⟩ := hk
  unfold Ver.beats
  rw [norm_val_of_wf hw]
  simp only [norm]
  rcases Nat.lt_trichotomy (if e.ts = 0 then c.defTs else e.ts) h.ts with ht | ht | ht
  · exact absurd ht h2
  · right
    refine ⟨ht, ?_⟩
    have h3a : ¬ bcmp appVal e.val < 0 := fun x => h3 ⟨ht, Or.inl x⟩
    have h3b : ¬ (bcmp appVal e.val = 0 ∧ ¬(entryDeleted c e = true ∧ ¬isDeleted h.flags = true)) :=
      fun x => h3 ⟨ht, Or.inr x⟩
    rcases bytes_trichotomy e.val appVal with hv | hv | hv
    · exact Or.inl hv
    · right
      have hb0 : bcmp appVal e.val = 0 := bcmp_eq.mpr hv.symm
      have hd : entryDeleted c e = true ∧ ¬isDeleted h.flags = true :=
        Classical.not_not.mp (fun x => h3b ⟨hb0, x⟩)
      refine ⟨hv, hd.1, ?_⟩
      simpa using hd.2
    · exact absurd (bcmp_lt.mpr hv) h3a
  · exact Or.inl ht

/-- for the snapshot-load use (no default timestamp) the stored bytes are kept exactly when the
    entry does not win -/
theorem keep_not_beats {c : Cfg} {e : KV} {h : Hdr} {appVal : Bytes} (hw : EntryWF e)
    (hd : c.defTs = 0) (hk : keep c e h appVal) :
    ¬ (norm c e).beats { ts := h.ts, del := isDeleted h.flags, val := appVal } := by
  unfold keep at hk
  unfold Ver.beats
  rw [norm_val_of_wf hw]
  simp only [norm]
  intro hb
  rcases hk with ⟨h0, hv, hdol⟩ | hk | ⟨ht, hk⟩
  · simp only [h0, hd, if_true] at hb
    rcases hb with hb | ⟨ht, hb | ⟨_, hb⟩⟩
    · omega
    · rw [hv] at hb; exact bytes_lt_irrefl _ hb
    · apply hdol; refine ⟨hb.1, ?_⟩; simp [hb.2]
  · rcases hb with hb | ⟨ht, _⟩ <;> omega
  · rcases hb with hb | ⟨_, hb | ⟨hv, hb⟩⟩
    · omega
    · rcases hk with hk | ⟨hk, _⟩
      · exact bytes_lt_asymm hb (bcmp_lt.mp hk)
      · rw [bcmp_eq.mp hk] at hb; exact bytes_lt_irrefl _ hb
    · rcases hk with hk | ⟨_, hk⟩
      · rw [hv] at hk; exact bytes_lt_irrefl _ (bcmp_lt.mp hk)
      · apply hk; refine ⟨hb.1, ?_⟩; simp [hb.2]

/-- what `strategy.Update` leaves stored for one key after the iterator's decision
    (`nil`/empty decision = key deleted or not added; `[]` = absent) -/
def mergeStore (c : Cfg) (e : KV) (old : Bytes) : Except Header.Err Bytes :=
  match merge c e old with
  | .error err => .error err
  | .ok none => .ok []
  | .ok (some b) => .ok b

/-- merging a list of entries for one key, in list order -/
def foldMerge (c : Cfg) (es : List KV) (old : Bytes) : Except Header.Err Bytes :=
  es.foldlM (fun cur e => mergeStore c e cur) old

theorem merge_absent (c : Cfg) (e : KV) :
    merge c e [] = if entryDeleted c e = true ∧ e.ts < c.cutoff then .ok none
                   else .ok (some (addHeader c e.val e.ts (maskedFlags e))) := by
  unfold merge; simp

theorem decodeS_some {old : Bytes} {o : Ver} (h : decodeS old = .ok (some o)) :
    old.length ≠ 0 ∧ ∃ hd appVal, parse old = .ok (hd, appVal) ∧
      o = { ts := hd.ts, del := isDeleted hd.flags, val := appVal } := by
  unfold decodeS at h
  split at h
  · cases h
  · rename_i hl
    refine ⟨hl, ?_⟩
    split at h
    · cases h
    · rename_i hd v hp
      injection h with h; injection h with h
      exact ⟨hd, v, hp, h.symm⟩

theorem decodeS_none {old : Bytes} (h : decodeS old = .ok none) : old = [] := by
  unfold decodeS at h
  split at h
  · rename_i hl; exact List.length_eq_zero_iff.mp hl
  · split at h <;> cases h

/-- one merge step computes the join (snapshot-load use: no default timestamp) -/
theorem mergeStore_join (c : Cfg) (e : KV) (old : Bytes) (ov : Option Ver)
    (hw : EntryWF e) (hb : Bounded c e) (hd : c.defTs = 0)
    (hold : decodeS old = .ok ov) (hst : ov = none → ¬ stale c e) :
    ∃ r, mergeStore c e old = .ok r ∧ decodeS r = .ok (join ov (some (norm c e))) := by
  cases ov with
  | none =>
    have := decodeS_none hold
    subst this
    have hs : ¬ (entryDeleted c e = true ∧ e.ts < c.cutoff) := hst rfl
    unfold mergeStore
    rw [merge_absent, if_neg hs]
    exact ⟨_, rfl, by rw [decodeS_addHeader c e hb]; rfl⟩
  | some o =>
    obtain ⟨hl, hdr, appVal, hp, ho⟩ := decodeS_some hold
    obtain ⟨hk1, hk2⟩ := merge_present c e old hdr appVal hl hp
    by_cases hk : keep c e hdr appVal
    · refine ⟨old, by unfold mergeStore; rw [hk1 hk], ?_⟩
      rw [hold]
      have := keep_not_beats hw hd hk
      rw [← ho] at this
      simp [join, Ver.max, this]
    · refine ⟨_, by unfold mergeStore; rw [hk2 hk], ?_⟩
      rw [decodeS_addHeader c e hb]
      have := not_keep_beats hw hk
      rw [← ho] at this
      simp [join, Ver.max, this]

end Ls.Merge
