import LsLemmas.LoopGhost
/-
  Invariants of the sync loop that hold for EVERY schedule (no race-freedom needed):
  transaction-id bounds, "no local cause ⇒ lastSynced keeps up with lastTxn" (no echo),
  the own-instance guard, ghost coverage of application transactions, run-once bookkeeping.
-/
namespace Ls.Loop
open Ls Ls.Txn Ls.SyncLoop

/-- no cause for an upload is outstanding -/
def Calm (gh : Gh) : Prop := gh.appDirty = false ∧ gh.startDirty = false

def AllLe (n : Nat) (gh : Gh) : Prop := (∀ p ∈ gh.uncap, p ≤ n) ∧ (∀ p ∈ gh.unpub, p ≤ n)

def AllGt (n : Nat) (gh : Gh) : Prop := (∀ p ∈ gh.uncap, n < p) ∧ (∀ p ∈ gh.unpub, n < p)

/-- what a dump in progress / stored carries along -/
def SendInv (c : LoopCfg) (L S : Nat) (w : List InstId) (gh : Gh) (who : Caller) (t : Nat) : Prop :=
  S ≤ t ∧ gh.startDirty = false ∧ (gh.appDirty = false → L ≤ t) ∧
  (gh.sendApp = true ∨ gh.sendStart = true) ∧ c.own ∉ w ∧ (who = .initial → w = [])

/-- the per-yield-point part of the invariant -/
def PcInv0 (c : LoopCfg) (L S : Nat) (w : List InstId) (gh : Gh) : Pc → Prop
  | .boot => gh.startSet = []
  | .top => Calm gh → L ≤ S
  | .beforeInfo => Calm gh → L ≤ S
  | .sleep => Calm gh → L ≤ S
  | .loadAfterTxn t lc _ _ _ => t ≤ L + 1 ∧ (Calm gh → lc = false ∧ L ≤ t)
  | .beforeSend => ¬ Calm gh ∧ c.own ∉ w
  | .sendAfterTxn who t _ _ => t ≤ L + 1 ∧ SendInv c L S w gh who t
  | .sendStored who t => t ≤ L ∧ SendInv c L S w gh who t
  | .exited _ => True

/-- a dump may be in flight (or the loop has ended) -/
def pcSending : Pc → Bool
  | .sendAfterTxn .. => true
  | .exited _ => true
  | _ => false

/-- the invariant on the projections it depends on -/
structure Inv0c (c : LoopCfg) (L S : Nat) (w : List InstId) (pc : Pc) (gh : Gh) : Prop where
  sync_le : S ≤ L
  all_le : AllLe L gh
  pcinv : PcInv0 c L S w gh pc
  inflight : c.txn.receiveOnly = false → pcSending pc = false → gh.inflight = []
  cover : ∀ p ∈ gh.allApp, p ∈ gh.unpub ∨ p ∈ gh.inflight ∨ p ∈ gh.published
  left : ∀ x ∈ gh.startSet, x ∈ w ∨ x ∈ gh.merged ∨ x ∈ gh.gone

/-- **the invariant of every schedule** (of the event language `Ev`, which has no arming event:
    no snapshot is overdue, `unarmed`; what holds for armed states is in `LoopQuiet.lean`,
    `OwnGuard`, and in the `…_forced_…` theorems) -/
structure Inv0 (c : LoopCfg) (g : G) : Prop extends
    Inv0c c g.st.env.lastTxn g.st.lastSynced g.st.waiting g.st.pc g.gh where
  unarmed : g.st.forceArmed = false

theorem Inv0.init (c : LoopCfg) (env : Env) (b : Bucket) : Inv0 c (G.init env b) := by
  exact { sync_le := Nat.zero_le _
          all_le := ⟨fun p hp => (nomatch hp), fun p hp => (nomatch hp)⟩
          pcinv := rfl
          inflight := fun _ _ => rfl
          cover := fun p hp => nomatch hp
          left := fun p hp => nomatch hp
          unarmed := rfl }

/-! ## events other than `go` -/

theorem not_calm_app (gh : Gh) (p : Nat) : ¬ Calm (gh.app p) := fun h => Bool.noConfusion h.1

theorem Inv0.app {c : LoopCfg} {g : G} (h : Inv0 c g) (ops : List AppOp) : Inv0 c (step c g (.app ops)) := by
  obtain ⟨hpc, hS, hw, _, _, hL⟩ := appCommit_facts g.st ops
  obtain ⟨⟨h1, h2, h3, h4, h5, h6⟩, hu⟩ := h
  refine ⟨?_, (appCommit_force g.st ops).trans hu⟩
  by_cases hr : recorded g.st ops = true
  · have hL' : (appCommit g.st ops).env.lastTxn = g.st.env.lastTxn + 1 := by
      unfold recorded at hr
      rcases hL with hL | hL
      · simp [hL] at hr
      · exact hL
    refine ⟨?_, ?_, ?_, ?_, ?_, ?_⟩
    all_goals simp only [step, hr, if_true, hpc, hS, hw, hL']
    · omega
    · refine ⟨fun p hp => ?_, fun p hp => ?_⟩
      · rcases List.mem_cons.mp hp with rfl | hp
        · exact Nat.le_refl _
        · exact Nat.le_succ_of_le (h2.1 p hp)
      · rcases List.mem_cons.mp hp with rfl | hp
        · exact Nat.le_refl _
        · exact Nat.le_succ_of_le (h2.2 p hp)
    · revert h3
      cases g.st.pc <;> simp only [PcInv0] <;> intro h3
      · exact h3
      · exact fun hc => absurd hc (not_calm_app _ _)
      · exact ⟨by omega, fun hc => absurd hc (not_calm_app _ _)⟩
      · exact fun hc => absurd hc (not_calm_app _ _)
      · exact ⟨not_calm_app _ _, h3.2⟩
      · obtain ⟨a1, a2, a3, a4, a5⟩ := h3
        exact ⟨by omega, a2, a3, fun hc => Bool.noConfusion hc, a5⟩
      · obtain ⟨a1, a2, a3, a4, a5⟩ := h3
        exact ⟨by omega, a2, a3, fun hc => Bool.noConfusion hc, a5⟩
      · exact fun hc => absurd hc (not_calm_app _ _)
      · trivial
    · exact h4
    · intro p hp
      rcases List.mem_cons.mp hp with rfl | hp
      · exact Or.inl (List.mem_cons_self)
      · rcases h5 p hp with h | h | h
        · exact Or.inl (List.mem_cons_of_mem _ h)
        · exact Or.inr (Or.inl h)
        · exact Or.inr (Or.inr h)
    · exact h6
  · have hL' : (appCommit g.st ops).env.lastTxn = g.st.env.lastTxn := by
      unfold recorded at hr
      simpa using hr
    refine ⟨?_, ?_, ?_, ?_, ?_, ?_⟩
    all_goals simp only [step, hr, hpc, hS, hw, hL', Bool.false_eq_true, if_false]
    · exact h1
    · exact h2
    · exact h3
    · exact h4
    · exact h5
    · exact h6

theorem Inv0.list {c : LoopCfg} {g : G} (h : Inv0 c g) : Inv0 c (step c g .list) := by
  obtain ⟨⟨h1, h2, h3, h4, h5, h6⟩, hu⟩ := h
  exact ⟨⟨h1, h2, h3, h4, h5, h6⟩, hu⟩

theorem Inv0.others {c : LoopCfg} {g : G} (h : Inv0 c g) (bs : List Blob) :
    Inv0 c (step c g (.others bs)) := by
  obtain ⟨⟨h1, h2, h3, h4, h5, h6⟩, hu⟩ := h
  exact ⟨⟨h1, h2, h3, h4, h5, h6⟩, hu⟩

end Ls.Loop

namespace Ls.Loop
open Ls Ls.Txn Ls.SyncLoop

/-! ## the `go` event -/

theorem step_go (c : LoopCfg) (g : G) (i : In) :
    (step c g (.go i)).st = relist (goRaw c g.bucket g.st i).1 (goRaw c g.bucket g.st i).2 ∧
    (step c g (.go i)).bucket = (goRaw c g.bucket g.st i).2 ∧
    (step c g (.go i)).gh =
      g.gh.afterGo g.bucket g.st i (goRaw c g.bucket g.st i).1.pc (goRaw c g.bucket g.st i).1.waiting := by
  obtain ⟨_, h2, _, h4, _⟩ := relist_facts (goRaw c g.bucket g.st i).1 (goRaw c g.bucket g.st i).2
  refine ⟨?_, ?_, ?_⟩
  · simp only [step, go_eq]
  · simp only [step, go_eq]
  · simp only [step, go_eq]; rw [h2, h4]

/-- the invariant after a `go` event, reduced to `goRaw` -/
theorem Inv0.of_raw {c : LoopCfg} {g : G} {i : In} (hu : g.st.forceArmed = false)
    (h : Inv0c c (goRaw c g.bucket g.st i).1.env.lastTxn (goRaw c g.bucket g.st i).1.lastSynced
      (goRaw c g.bucket g.st i).1.waiting (goRaw c g.bucket g.st i).1.pc
      (g.gh.afterGo g.bucket g.st i (goRaw c g.bucket g.st i).1.pc (goRaw c g.bucket g.st i).1.waiting)) :
    Inv0 c (step c g (.go i)) := by
  obtain ⟨h1, _, h3⟩ := step_go c g i
  obtain ⟨r1, r2, r3, r4, _⟩ := relist_facts (goRaw c g.bucket g.st i).1 (goRaw c g.bucket g.st i).2
  refine ⟨?_, step_unarmed hu (.go i)⟩
  rw [h1, h3, r1, r2, r3, r4]
  exact h

/-- is this the yield point after a `LoadOnce` that saw a local change (and so captured)? -/
def isLcLoad : Pc → Bool
  | .loadAfterTxn _ true _ _ _ => true
  | _ => false

/-- the ghost effect of a segment that starts in the load part of the loop -/
def Gh.loadPart (g : Gh) (b : Bucket) (s : St) (i : In) (pc' : Pc) : Gh :=
  { g with merged := match pollTarget b s i with
                     | some x => x :: g.merged
                     | none => g.merged,
           gone := if runsAfterLoads s i then
                     g.gone ++ s.waiting.filter (fun x => !s.seen.contains x)
                   else g.gone,
           uncap := if isLcLoad pc' then [] else g.uncap }

theorem afterGo_top {gh : Gh} {b : Bucket} {s : St} {i : In} {pc' : Pc} {w' : List InstId}
    (h : s.pc = .top) : gh.afterGo b s i pc' w' = gh.loadPart b s i pc' := by
  unfold Gh.afterGo Gh.loadPart
  rw [h]
  cases pc' with
  | loadAfterTxn t lc a b c => cases lc <;> rfl
  | _ => rfl

theorem afterGo_load {gh : Gh} {b : Bucket} {s : St} {i : In} {pc' : Pc} {w' : List InstId}
    {t : Nat} {lc : Bool} {inst : InstId} {ts n : Nat}
    (h : s.pc = .loadAfterTxn t lc inst ts n) : gh.afterGo b s i pc' w' = gh.loadPart b s i pc' := by
  unfold Gh.afterGo Gh.loadPart
  rw [h]
  cases pc' with
  | loadAfterTxn t lc a b c => cases lc <;> rfl
  | _ => rfl

/-- a segment that starts anywhere else and does not begin or finish a dump leaves the ghost state
    alone, except for `sinceInfo` at `beforeInfo` -/
theorem afterGo_plain {gh : Gh} {b : Bucket} {s : St} {i : In} {pc' : Pc} {w' : List InstId}
    (h1 : s.pc ≠ .top) (h2 : ∀ t lc inst ts n, s.pc ≠ .loadAfterTxn t lc inst ts n)
    (h3 : s.pc ≠ .boot) (h4 : s.pc ≠ .beforeInfo)
    (h5 : ∀ who t ts snap, pc' ≠ .sendAfterTxn who t ts snap) (h6 : ∀ who t, pc' ≠ .sendStored who t) :
    gh.afterGo b s i pc' w' = gh := by
  unfold Gh.afterGo pollTarget runsAfterLoads
  cases hs : s.pc with
  | top => exact absurd hs h1
  | loadAfterTxn t lc a b c => exact absurd hs (h2 _ _ _ _ _)
  | boot => exact absurd hs h3
  | beforeInfo => exact absurd hs h4
  | _ => cases pc' <;> first | rfl | exact absurd rfl (h5 _ _ _ _) | exact absurd rfl (h6 _ _)

theorem load_part_inv {c : LoopCfg} {b : Bucket} {s s1 : St} {i : In} {gh : Gh} {n : Nat} {s' : St}
    (hw : s1.waiting = s.waiting) (hseen : s1.seen = s.seen)
    (hsl : s1.lastSynced ≤ s1.env.lastTxn) (hle : AllLe s1.env.lastTxn gh)
    (hq : Calm gh → s1.env.lastTxn ≤ s1.lastSynced)
    (hin : c.txn.receiveOnly = false → gh.inflight = [])
    (hcov : ∀ p ∈ gh.allApp, p ∈ gh.unpub ∨ p ∈ gh.inflight ∨ p ∈ gh.published)
    (hleft : ∀ x ∈ gh.startSet, x ∈ s.waiting ∨ x ∈ gh.merged ∨ x ∈ gh.gone)
    (hout : (s' = afterLoads s1 ∧ runsAfterLoads s i = true) ∨
      (PollOut c b s1 i n s' ∧ (i.next = none → runsAfterLoads s i = true) ∧
        ∀ inst ts blob, i.next = some (inst, ts) → findBlob b inst ts = some blob →
          pollTarget b s i = some inst)) :
    Inv0c c s'.env.lastTxn s'.lastSynced s'.waiting s'.pc (gh.loadPart b s i s'.pc) := by
  have hal : ∀ (hr : runsAfterLoads s i = true),
      Inv0c c (afterLoads s1).env.lastTxn (afterLoads s1).lastSynced (afterLoads s1).waiting
        (afterLoads s1).pc (gh.loadPart b s i (afterLoads s1).pc) := by
    intro hr
    refine ⟨hsl, hle, hq, fun hro _ => hin hro, hcov, ?_⟩
    intro x hx
    simp only [afterLoads, Gh.loadPart, hr, if_true, hw, hseen]
    rcases hleft x hx with h | h | h
    · by_cases hc : s.seen.contains x = true
      · exact Or.inl (List.mem_filter.mpr ⟨h, hc⟩)
      · exact Or.inr (Or.inr (List.mem_append_right _ (List.mem_filter.mpr ⟨h, by simpa using hc⟩)))
    · right; left; split
      · exact List.mem_cons_of_mem _ h
      · exact h
    · exact Or.inr (Or.inr (List.mem_append_left _ h))
  have hmono : ∀ x pc', x ∈ gh.merged → x ∈ (gh.loadPart b s i pc').merged := by
    intro x pc' h
    simp only [Gh.loadPart]
    split
    · exact List.mem_cons_of_mem _ h
    · exact h
  have hgmono : ∀ x pc', x ∈ gh.gone → x ∈ (gh.loadPart b s i pc').gone := by
    intro x pc' h
    simp only [Gh.loadPart]
    split
    · exact List.mem_append_left _ h
    · exact h
  have hleU : ∀ pc' L, AllLe s1.env.lastTxn gh → s1.env.lastTxn ≤ L → AllLe L (gh.loadPart b s i pc') := by
    intro pc' L h hL
    refine ⟨fun p hp => ?_, fun p hp => Nat.le_trans (h.2 p hp) hL⟩
    simp only [Gh.loadPart] at hp
    split at hp
    · cases hp
    · exact Nat.le_trans (h.1 p hp) hL
  have hfilter : ∀ (inst : InstId) pc', pollTarget b s i = some inst →
      ∀ x ∈ gh.startSet, x ∈ s1.waiting.filter (· != inst) ∨ x ∈ (gh.loadPart b s i pc').merged ∨
        x ∈ (gh.loadPart b s i pc').gone := by
    intro inst pc' ht x hx
    rcases hleft x hx with h | h | h
    · by_cases hc : x = inst
      · right; left
        simp only [Gh.loadPart, ht, hc]
        exact List.mem_cons_self
      · left
        rw [hw]
        exact List.mem_filter.mpr ⟨h, by simpa using hc⟩
    · exact Or.inr (Or.inl (hmono _ _ h))
    · exact Or.inr (Or.inr (hgmono _ _ h))
  rcases hout with ⟨rfl, hr⟩ | ⟨hp, hnone, htgt⟩
  · exact hal hr
  · cases hp with
    | none hn => exact hal (hnone hn)
    | unknown inst ts hn hb =>
      refine ⟨hsl, hleU _ _ hle (Nat.le_refl _), trivial, fun _ hc => Bool.noConfusion hc, hcov, ?_⟩
      intro x hx
      rcases hleft x hx with h | h | h
      · exact Or.inl (hw ▸ h)
      · exact Or.inr (Or.inl (hmono _ _ h))
      · exact Or.inr (Or.inr (hgmono _ _ h))
    | failed inst ts blob e hn hb hl =>
      refine ⟨hsl, hleU _ _ hle (Nat.le_refl _), trivial, fun _ hc => Bool.noConfusion hc, hcov, ?_⟩
      exact hfilter inst _ (htgt inst ts blob hn hb)
    | loaded inst ts blob r hn hb hl =>
      obtain ⟨hL, hlc⟩ := loadOnce_facts hl
      have hLle : s1.env.lastTxn ≤ r.env.lastTxn := by omega
      refine ⟨Nat.le_trans hsl hLle, hleU _ _ hle hLle, ⟨?_, fun hc => ?_⟩,
        fun hro _ => hin hro, hcov, hfilter inst _ (htgt inst ts blob hn hb)⟩
      · dsimp only; omega
      · have := hq hc
        refine ⟨?_, ?_⟩
        · rw [hlc]; simp; omega
        · dsimp only; omega


/-! ### ghost effect by starting yield point -/

theorem afterGo_store {gh : Gh} {b : Bucket} {s : St} {i : In} {w' : List InstId}
    {who who' : Caller} {t t' ts : Nat} {snap : Snap} (h : s.pc = .sendAfterTxn who t ts snap) :
    gh.afterGo b s i (.sendStored who' t') w' =
      { gh with published := gh.published ++ gh.inflight, inflight := [], stores := gh.stores + 1 } := by
  unfold Gh.afterGo pollTarget runsAfterLoads
  rw [h]; rfl

theorem afterGo_dump {gh : Gh} {b : Bucket} {s : St} {i : In} {w' : List InstId}
    {who : Caller} {t ts : Nat} {snap : Snap} (h : s.pc = .beforeSend) :
    gh.afterGo b s i (.sendAfterTxn who t ts snap) w' = gh.beginDump := by
  unfold Gh.afterGo pollTarget runsAfterLoads
  rw [h]; rfl

theorem afterGo_info {gh : Gh} {b : Bucket} {s : St} {i : In} {pc' : Pc} {w' : List InstId}
    (h : s.pc = .beforeInfo) : gh.afterGo b s i pc' w' = { gh with sinceInfo := [] } := by
  unfold Gh.afterGo pollTarget runsAfterLoads
  rw [h]; cases pc' <;> rfl

/-- ghost state after the start-up segment, before a possible dump -/
def Gh.booted (gh : Gh) (s : St) (w' : List InstId) : Gh :=
  { gh with startDirty := decide (0 < s.env.lastTxn), startSet := w' }

theorem afterGo_boot_send {gh : Gh} {b : Bucket} {s : St} {i : In} {w' : List InstId}
    {who : Caller} {t ts : Nat} {snap : Snap} (h : s.pc = .boot) :
    gh.afterGo b s i (.sendAfterTxn who t ts snap) w' = (gh.booted s w').beginDump := by
  unfold Gh.afterGo pollTarget runsAfterLoads
  rw [h]; rfl

theorem afterGo_boot {gh : Gh} {b : Bucket} {s : St} {i : In} {pc' : Pc} {w' : List InstId}
    (h : s.pc = .boot) (h' : ∀ who t ts snap, pc' ≠ .sendAfterTxn who t ts snap) :
    gh.afterGo b s i pc' w' = gh.booted s w' := by
  unfold Gh.afterGo pollTarget runsAfterLoads
  rw [h]
  cases pc' with
  | sendAfterTxn who t ts snap => exact absurd rfl (h' who t ts snap)
  | _ => rfl

/-- the invariant does not read `sinceInfo` -/
theorem Inv0c.clearInfo {c : LoopCfg} {L S : Nat} {w : List InstId} {pc : Pc} {gh : Gh}
    (h : Inv0c c L S w pc gh) : Inv0c c L S w pc { gh with sinceInfo := [] } := by
  obtain ⟨h1, h2, h3, h4, h5, h6⟩ := h
  refine ⟨h1, h2, ?_, h4, h5, h6⟩
  cases pc <;> exact h3

/-- back from `SendOnce` (stored, or receive-only) with the adjusted id `t` -/
theorem ret_inv {c : LoopCfg} {L : Nat} {w : List InstId} {gh : Gh} {t : Nat} {pc' : Pc}
    (hle : AllLe L gh) (ht : t ≤ L) (hq : gh.appDirty = false → L ≤ t)
    (hin : c.txn.receiveOnly = false → gh.inflight = [])
    (hcov : ∀ p ∈ gh.allApp, p ∈ gh.unpub ∨ p ∈ gh.inflight ∨ p ∈ gh.published)
    (hleft : ∀ x ∈ gh.startSet, x ∈ w ∨ x ∈ gh.merged ∨ x ∈ gh.gone)
    (hpc' : pc' = .top ∨ pc' = .sleep ∨ ∃ e, pc' = .exited e) : Inv0c c L t w pc' gh := by
  refine ⟨ht, hle, ?_, fun hro _ => hin hro, hcov, hleft⟩
  rcases hpc' with rfl | rfl | ⟨e, rfl⟩
  · exact fun hc => hq hc.1
  · exact fun hc => hq hc.1
  · trivial

theorem sendReturned_pc (c : LoopCfg) (s : St) (who : Caller) (t : Nat) :
    (sendReturned c s who t).pc = .top ∨ (sendReturned c s who t).pc = .sleep ∨
      ∃ e, (sendReturned c s who t).pc = .exited e := by
  rw [(sendReturned_facts c s who t).2.2.2.2.2]
  cases who
  · exact Or.inl rfl
  · simp only
    split
    · exact Or.inr (Or.inr ⟨_, rfl⟩)
    · exact Or.inr (Or.inl rfl)

theorem min_le_of {L t : Nat} (h : L ≤ t) : L ≤ (if L < t then L else t) := by
  split <;> omega

theorem goRaw_inv0 {c : LoopCfg} {b : Bucket} {s : St} {i : In} {gh : Gh}
    (h : Inv0c c s.env.lastTxn s.lastSynced s.waiting s.pc gh) (hu : s.forceArmed = false) :
    Inv0c c (goRaw c b s i).1.env.lastTxn (goRaw c b s i).1.lastSynced (goRaw c b s i).1.waiting
      (goRaw c b s i).1.pc (gh.afterGo b s i (goRaw c b s i).1.pc (goRaw c b s i).1.waiting) := by
  obtain ⟨h1, h2, h3, h4, h5, h6⟩ := h
  cases hpc : s.pc with
  | exited e =>
    rw [hpc] at h3 h4
    rw [goRaw_exited hpc]
    rw [afterGo_plain (by simp [hpc]) (by simp [hpc]) (by simp [hpc]) (by simp [hpc]) (by simp [hpc])
      (by simp [hpc])]
    rw [hpc]
    exact ⟨h1, h2, h3, h4, h5, h6⟩
  | sleep =>
    rw [hpc] at h3 h4
    rw [goRaw_sleep hpc]
    rw [afterGo_plain (by simp [hpc]) (by simp [hpc]) (by simp [hpc]) (by simp [hpc]) (by simp)
      (by simp)]
    exact ⟨h1, h2, h3, fun hro _ => h4 hro rfl, h5, h6⟩
  | sendStored who t =>
    rw [hpc] at h3 h4
    rw [goRaw_sendStored hpc]
    obtain ⟨f1, f2, f3, _, _, _⟩ := sendReturned_facts c (stored s) who t
    have f6 := sendReturned_pc c (stored s) who t
    simp only
    rw [f1, f2, f3]
    show Inv0c c s.env.lastTxn t s.waiting _ _
    rw [afterGo_plain (by simp [hpc]) (by simp [hpc]) (by simp [hpc]) (by simp [hpc])
      (by rcases f6 with h | h | ⟨e, h⟩ <;> simp [h]) (by rcases f6 with h | h | ⟨e, h⟩ <;> simp [h])]
    exact ret_inv h2 h3.1 h3.2.2.2.1 (fun hro => h4 hro rfl) h5 h6 f6
  | sendAfterTxn who t ts snap =>
    rw [hpc] at h3 h4
    rw [goRaw_sendAfterTxn hpc]
    obtain ⟨a1, a2, a3, a4, a5, a6, a7⟩ := h3
    by_cases hro : c.txn.receiveOnly = true
    · rw [if_pos hro]
      obtain ⟨f1, f2, f3, _, _, _⟩ := sendReturned_facts c s who
        (if s.env.lastTxn < t then s.env.lastTxn else t)
      have f6 := sendReturned_pc c s who (if s.env.lastTxn < t then s.env.lastTxn else t)
      simp only
      rw [f1, f2, f3]
      rw [afterGo_plain (by simp [hpc]) (by simp [hpc]) (by simp [hpc]) (by simp [hpc])
        (by rcases f6 with h | h | ⟨e, h⟩ <;> simp [h]) (by rcases f6 with h | h | ⟨e, h⟩ <;> simp [h])]
      exact ret_inv h2 (by split <;> omega) (fun hd => min_le_of (a4 hd))
        (fun hro' => by rw [hro] at hro'; cases hro') h5 h6 f6
    · rw [if_neg hro]
      by_cases hf : i.fails ≥ c.retryCount
      · rw [if_pos hf]
        simp only
        rw [afterGo_plain (by simp [hpc]) (by simp [hpc]) (by simp [hpc]) (by simp [hpc]) (by simp)
          (by simp)]
        exact ⟨h1, h2, trivial, fun _ hc => Bool.noConfusion hc, h5, h6⟩
      · rw [if_neg hf]
        simp only
        rw [afterGo_store hpc]
        refine ⟨h1, h2, ⟨by split <;> omega, by split <;> omega, a3, fun hd => min_le_of (a4 hd), a5, a6, a7⟩,
          fun _ _ => rfl, ?_, h6⟩
        intro p hp
        rcases h5 p hp with h | h | h
        · exact Or.inl h
        · exact Or.inr (Or.inr (List.mem_append_right _ h))
        · exact Or.inr (Or.inr (List.mem_append_left _ h))
  | beforeSend =>
    rw [hpc] at h3 h4
    rw [goRaw_beforeSend hpc]
    have hout := beginSend_out c s .loop i.now
    generalize beginSend c s .loop i.now = s' at hout ⊢
    cases hout with
    | failed e he =>
      simp only
      rw [afterGo_plain (by simp [hpc]) (by simp [hpc]) (by simp [hpc]) (by simp [hpc]) (by simp)
        (by simp)]
      exact ⟨h1, h2, trivial, fun _ hc => Bool.noConfusion hc, h5, h6⟩
    | dumped r hr =>
      simp only
      rw [afterGo_dump hpc]
      obtain ⟨hn, hL⟩ := sendOnce_facts hr
      refine ⟨by omega, ⟨fun p hp => (nomatch hp), fun p hp => (nomatch hp)⟩, ⟨?_, ?_, rfl, fun _ => ?_, ?_, h3.2, fun hc => (nomatch hc)⟩,
        fun _ hc => Bool.noConfusion hc, ?_, h6⟩
      · split <;> omega
      · split <;> omega
      · cases hnat : c.txn.native with
        | true => rw [hn hnat]; simp
        | false => simp; omega
      · have hnc := h3.1
        unfold Calm at hnc
        simp only [Gh.beginDump]
        cases ha : gh.appDirty <;> cases hs : gh.startDirty <;> simp_all
      · intro p hp
        rcases h5 p hp with h | h | h
        · exact Or.inr (Or.inl (List.mem_append_right _ h))
        · exact Or.inr (Or.inl (List.mem_append_left _ h))
        · exact Or.inr (Or.inr h)
  | beforeInfo =>
    rw [hpc] at h3 h4
    rw [goRaw_beforeInfo_unarmed hpc hu, afterGo_info hpc]
    apply Inv0c.clearInfo
    have hAS : ∀ (hq : Calm gh → s.env.lastTxn ≤ s.lastSynced),
        Inv0c c (afterSend c s).env.lastTxn (afterSend c s).lastSynced (afterSend c s).waiting
          (afterSend c s).pc gh := by
      intro hq
      obtain ⟨f1, f2, f3, _, _, f6⟩ := afterSend_facts c s
      rw [f1, f2, f3]
      refine ⟨h1, h2, ?_, fun hro _ => h4 hro rfl, h5, h6⟩
      rcases f6 with f6 | ⟨f6, _⟩ <;> rw [f6]
      · exact hq
      · trivial
    by_cases hgt : s.env.lastTxn > s.lastSynced
    · rw [if_pos hgt]
      by_cases hown : s.waiting.contains c.own = true
      · rw [if_pos hown]; exact hAS h3
      · rw [if_neg hown]
        rw [if_pos (Or.inr (by omega))]
        refine ⟨Nat.le_refl _, h2, ⟨fun hc => by have := h3 hc; omega, by simpa using hown⟩,
          fun hro _ => h4 hro rfl, h5, h6⟩
    · rw [if_neg hgt]; exact hAS h3
  | top =>
    rw [hpc] at h3 h4
    rw [goRaw_top hpc, afterGo_top hpc]
    refine load_part_inv rfl rfl h1 h2 h3 (fun hro => h4 hro rfl) h5 h6
      (Or.inr ⟨poll_out c b s i 0, fun hn => ?_, fun inst ts blob hn hb => ?_⟩)
    · unfold runsAfterLoads; rw [hpc]; simp [hn]
    · unfold pollTarget; rw [hpc]; simp [hn, hb]
  | loadAfterTxn t lc inst ts n =>
    rw [hpc] at h3 h4
    rw [goRaw_loadAfterTxn hpc]
    obtain ⟨d1, d2, d3, d4, _, d6⟩ := loadDone_facts s t lc inst ts
    have hsl : (loadDone s t lc inst ts).lastSynced ≤ (loadDone s t lc inst ts).env.lastTxn := by
      rw [d1, d6]; split
      · exact h1
      · split <;> omega
    have hq : Calm gh → (loadDone s t lc inst ts).env.lastTxn ≤ (loadDone s t lc inst ts).lastSynced := by
      intro hc
      obtain ⟨hlc, hL⟩ := h3.2 hc
      rw [d1, d6, hlc]
      simp only [Bool.false_eq_true, if_false]
      exact min_le_of hL
    by_cases hbr : lc = true ∧ n > maxConsecutive
    · rw [if_pos hbr]
      simp only
      rw [afterGo_load hpc]
      refine load_part_inv (b := b) (n := n) d3 d4 hsl (d1 ▸ h2) hq (fun hro => h4 hro rfl) h5 h6 (Or.inl ⟨rfl, ?_⟩)
      unfold runsAfterLoads; rw [hpc]; simp [hbr.1, hbr.2]
    · rw [if_neg hbr]
      simp only
      rw [afterGo_load hpc]
      refine load_part_inv d3 d4 hsl (d1 ▸ h2) hq (fun hro => h4 hro rfl) h5 h6
        (Or.inr ⟨poll_out c b _ i n, fun hn => ?_, fun inst' ts' blob hn hb => ?_⟩)
      · unfold runsAfterLoads; rw [hpc]; simp [hn]
      · unfold pollTarget; rw [hpc]; simp only [if_neg hbr, hn]; simp [hb]
  | boot =>
    rw [hpc] at h3 h4
    obtain ⟨_, hb⟩ := goRaw_boot (c := c) (b := b) (i := i) hpc
    generalize (goRaw c b s i).1 = s' at hb ⊢
    cases hb with
    | captureFailed e s0 e1 e2 e3 =>
      simp only
      rw [afterGo_boot hpc (by simp)]
      refine ⟨by rw [e2]; exact Nat.zero_le _, by rw [e1]; exact h2, trivial, fun _ hc => Bool.noConfusion hc, h5, ?_⟩
      intro x hx; exact Or.inl hx
    | noSend s0 e1 e2 e3 e4 e5 e6 e7 =>
      simp only
      rw [afterGo_boot hpc (by simp)]
      refine ⟨by rw [e1]; exact Nat.zero_le _, ?_, ?_, fun hro _ => h4 hro rfl, h5, fun x hx => Or.inl hx⟩
      · exact ⟨fun p hp => by have := h2.1 p hp; omega, fun p hp => by have := h2.2 p hp; omega⟩
      · intro hc
        have h0 : s.env.lastTxn = 0 := by
          have := hc.2
          simp only [Gh.booted, decide_eq_false_iff_not] at this
          omega
        rw [e5 h0, h0]; exact Nat.zero_le _
    | send s0 e1 e2 e3 e4 e5 e6 e7 =>
      have hout := beginSend_out c s0 .initial i.now
      generalize beginSend c s0 .initial i.now = s'' at hout ⊢
      cases hout with
      | failed e he =>
        simp only
        rw [afterGo_boot hpc (by simp)]
        refine ⟨by rw [e1]; exact Nat.zero_le _, ?_, trivial, fun _ hc => Bool.noConfusion hc, h5, fun x hx => Or.inl hx⟩
        exact ⟨fun p hp => by have := h2.1 p hp; omega, fun p hp => by have := h2.2 p hp; omega⟩
      | dumped r hr =>
        simp only
        rw [afterGo_boot_send hpc]
        obtain ⟨hn, hL⟩ := sendOnce_facts hr
        refine ⟨by rw [e1]; exact Nat.zero_le _, ⟨fun p hp => (nomatch hp), fun p hp => (nomatch hp)⟩,
          ⟨?_, ?_, rfl, fun _ => ?_, ?_, ?_, fun _ => e2⟩, fun _ hc => Bool.noConfusion hc, ?_, fun x hx => Or.inl hx⟩
        · split <;> omega
        · rw [e1]; exact Nat.zero_le _
        · cases hnat : c.txn.native with
          | true => rw [hn hnat]; simp
          | false => simp; omega
        · right
          simp only [Gh.beginDump, Gh.booted, decide_eq_true_eq]
          exact e6
        · rw [e2]; exact List.not_mem_nil
        · intro p hp
          rcases h5 p hp with h | h | h
          · exact Or.inr (Or.inl (List.mem_append_right _ h))
          · exact Or.inr (Or.inl (List.mem_append_left _ h))
          · exact Or.inr (Or.inr h)

/-- **`Inv0` is an invariant of every event** -/
theorem Inv0.step {c : LoopCfg} {g : G} (h : Inv0 c g) (e : Ev) : Inv0 c (step c g e) := by
  cases e with
  | go i => exact Inv0.of_raw h.unarmed (goRaw_inv0 h.toInv0c h.unarmed)
  | app ops => exact h.app ops
  | list => exact h.list
  | others bs => exact h.others bs

/-- `Inv0` holds after every schedule -/
theorem inv0_run (c : LoopCfg) (env : Env) (b : Bucket) (evs : List Ev) : Inv0 c (run c env b evs) :=
  run_induct (Inv0 c) (Inv0.init c env b) (fun _ e h => h.step e) evs

end Ls.Loop
