import LsLemmas.Sweeper
/-
  The tomb sweeper, one slice, seen through `get`: what a slice does to the binding of a key,
  and where the next slice resumes.
-/
namespace Ls.Sweeper
open Ls Ls.Lmdb Ls.Txn

/-! ### `get` on concatenations and filters -/

theorem get_append (ik : Bool) (A B : KVs) (k : Bytes) :
    get ik (A ++ B) k = (get ik A k).or (get ik B k) := by
  induction A with
  | nil => simp
  | cons p rest ih =>
    obtain ⟨k0, v0⟩ := p
    rw [List.cons_append, get_cons, get_cons, ih]
    split <;> simp

theorem get_right_none {ik : Bool} {A B : KVs} {k v : Bytes} (hs : Sorted ik (A ++ B))
    (h : get ik A k = some v) : get ik B k = none := by
  obtain ⟨k', hm, hk⟩ := get_some_mem h
  have ⟨_, _, hc⟩ := sorted_append.mp hs
  exact get_none_of_lt (fun p hp => kcmp_lt_of_eq_of_lt ik hk (hc _ hm p hp))

theorem get_left_none {ik : Bool} {A B : KVs} {k v : Bytes} (hs : Sorted ik (A ++ B))
    (h : get ik B k = some v) : get ik A k = none := by
  obtain ⟨k', hm, hk⟩ := get_some_mem h
  have ⟨_, _, hc⟩ := sorted_append.mp hs
  refine get_none_of_gt (fun p hp => ?_)
  have := hc p hp _ hm
  exact kcmp_lt_of_lt_of_eq ik this ((kcmp_eq_comm ik _ _).mp hk)

/-- filtering a sorted list by a predicate on values -/
theorem get_filter_val {ik : Bool} {T : KVs} (hs : Sorted ik T) (g : Bytes → Bool) (k : Bytes) :
    get ik (T.filter (fun kv => g kv.2)) k = (get ik T k).filter g := by
  induction T with
  | nil => rfl
  | cons p rest ih =>
    obtain ⟨k0, v0⟩ := p
    have ⟨h1, h2⟩ := sorted_cons.mp hs
    rw [List.filter_cons, get_cons]
    by_cases hg : g v0 = true
    · simp only [hg, if_true, get_cons]
      split
      · simp [Option.filter, hg]
      · exact ih h2
    · simp only [hg, Bool.false_eq_true, if_false]
      rw [ih h2]
      split
      · rename_i he
        rw [get_none_of_lt (fun p hp => kcmp_lt_of_eq_of_lt ik he (h1 p hp))]
        simp [Option.filter, hg]
      · rfl

theorem get_filter_keep {ik : Bool} {T : KVs} (hs : Sorted ik T) (cutoff : Nat) (k : Bytes) :
    get ik (T.filter (keep cutoff)) k = (get ik T k).filter (fun v => !decide (IsExpired cutoff v)) :=
  get_filter_val hs (fun v => !decide (IsExpired cutoff v)) k

/-! ### what a slice does to one key -/

/-- the pieces of a slice: `db = pre ++ T ++ D` with `T` the examined entries, `D` the rest -/
theorem slice_pieces {ik : Bool} {cutoff : Nat} {db : KVs} {last : Option (Bytes × Bytes)} {n : Option Nat}
    {r : SliceRes} (hs : Sorted ik db) (h : slice ik cutoff db last n = .ok r) :
    ∃ pre T D, db = pre ++ (T ++ D) ∧ startAt ik db last = T ++ D ∧
      T = (startAt ik db last).take (covered n (startAt ik db last)) ∧
      D = (startAt ik db last).drop (covered n (startAt ik db last)) ∧
      r.db = pre ++ (T.filter (keep cutoff) ++ D) ∧
      r.cleaned = (T.filter (fun kv => decide (IsExpired cutoff kv.2))).length ∧
      r.last = T.getLast?.or last ∧
      r.limitReached = hitLimit n (startAt ik db last) ∧
      (∀ kv ∈ T, Parses kv.2) := by
  obtain ⟨pre, h0, h1, h2, h3, h4, h5⟩ := slice_spec hs h
  refine ⟨pre, _, _, ?_, ?_, rfl, rfl, h1, h2, h3, h4, h5⟩
  · rw [List.take_append_drop]; exact h0
  · rw [List.take_append_drop]

theorem slice_sublist {ik : Bool} {cutoff : Nat} {db : KVs} {last : Option (Bytes × Bytes)} {n : Option Nat}
    {r : SliceRes} (hs : Sorted ik db) (h : slice ik cutoff db last n = .ok r) : r.db.Sublist db := by
  obtain ⟨pre, T, D, h0, _, _, _, h1, _⟩ := slice_pieces hs h
  rw [h1, h0]
  exact List.Sublist.append_left (List.Sublist.append_right List.filter_sublist _) _

theorem slice_sorted {ik : Bool} {cutoff : Nat} {db : KVs} {last : Option (Bytes × Bytes)} {n : Option Nat}
    {r : SliceRes} (hs : Sorted ik db) (h : slice ik cutoff db last n = .ok r) : Sorted ik r.db :=
  hs.sublist (slice_sublist hs h)

/-- a slice leaves the binding of a key as it is, or removes an expired marker -/
theorem slice_get {ik : Bool} {cutoff : Nat} {db : KVs} {last : Option (Bytes × Bytes)} {n : Option Nat}
    {r : SliceRes} (hs : Sorted ik db) (h : slice ik cutoff db last n = .ok r) (k : Bytes) :
    get ik r.db k = get ik db k ∨ ∃ v, get ik db k = some v ∧ IsExpired cutoff v ∧ get ik r.db k = none := by
  obtain ⟨pre, T, D, h0, _, _, _, h1, _⟩ := slice_pieces hs h
  have hsTD : Sorted ik (T ++ D) := by rw [h0] at hs; exact (sorted_append.mp hs).2.1
  have hsT : Sorted ik T := (sorted_append.mp hsTD).1
  rw [h1, h0, get_append, get_append, get_append, get_append, get_filter_keep hsT]
  cases get ik pre k with
  | some x => left; rfl
  | none =>
    cases hT : get ik T k with
    | none => left; rfl
    | some v =>
      by_cases hv : IsExpired cutoff v
      · right
        refine ⟨v, by simp, hv, ?_⟩
        rw [get_right_none hsTD hT]
        simp [Option.filter, hv]
      · left; simp [Option.filter, hv]

/-- a key that is still ahead of the scan (bound to the expired marker `v` in the part the slice
    starts at) is removed by the slice, or the slice stopped below it -/
theorem slice_ahead {ik : Bool} {cutoff : Nat} {db : KVs} {last : Option (Bytes × Bytes)} {n : Nat}
    {r : SliceRes} (hs : Sorted ik db) (h : slice ik cutoff db last (some n) = .ok r) (hn : 1 ≤ n)
    {k v : Bytes} (hv : IsExpired cutoff v) (ha : get ik (startAt ik db last) k = some v) :
    get ik r.db k = none ∨
      (r.limitReached = true ∧ get ik r.db k = some v ∧ ∃ lk lv, r.last = some (lk, lv) ∧ kcmp ik lk k < 0) := by
  obtain ⟨pre, T, D, h0, hst, hT, hD, h1, _, h3, h4, _⟩ := slice_pieces hs h
  have hsTD : Sorted ik (T ++ D) := by rw [h0] at hs; exact (sorted_append.mp hs).2.1
  have hsT : Sorted ik T := (sorted_append.mp hsTD).1
  rw [hst] at ha
  have hpre : get ik pre k = none := by rw [h0] at hs; exact get_left_none hs ha
  rw [get_append] at ha
  rw [h1, get_append, get_append, hpre, get_filter_keep hsT]
  cases hTk : get ik T k with
  | some v' =>
    rw [hTk] at ha
    have : v' = v := by simpa using ha
    subst this
    left
    rw [get_right_none hsTD hTk]
    simp [Option.filter, hv]
  | none =>
    rw [hTk] at ha
    have hDk : get ik D k = some v := by simpa using ha
    right
    obtain ⟨k', hm, hk⟩ := get_some_mem hDk
    -- D is not empty, so the limit was hit after `n ≥ 1` entries
    have hlen : n < (startAt ik db last).length := by
      have : D.length ≠ 0 := by intro h0; rw [List.length_eq_zero_iff] at h0; rw [h0] at hm; cases hm
      rw [hD, List.length_drop] at this
      simp only [covered] at this
      omega
    have hTlen : T.length = n := by rw [hT, List.length_take]; simp only [covered]; omega
    refine ⟨?_, by simp [hDk], ?_⟩
    · rw [h4]; simp only [hitLimit]; exact decide_eq_true (by omega)
    · cases hl : T.getLast? with
      | none => rw [List.getLast?_eq_none_iff] at hl; rw [hl] at hTlen; simp at hTlen; omega
      | some l =>
        obtain ⟨lk, lv⟩ := l
        refine ⟨lk, lv, by rw [h3, hl]; rfl, ?_⟩
        have hmem : (lk, lv) ∈ T := List.mem_of_getLast? hl
        have := (sorted_append.mp hsTD).2.2 _ hmem _ hm
        exact kcmp_lt_of_lt_of_eq ik this ((kcmp_eq_comm ik _ _).mp hk)

/-- a slice that did not hit its limit has removed every expired marker ahead of it -/
theorem slice_ahead_final {ik : Bool} {cutoff : Nat} {db : KVs} {last : Option (Bytes × Bytes)} {n : Nat}
    {r : SliceRes} (hs : Sorted ik db) (h : slice ik cutoff db last (some n) = .ok r) (hn : 1 ≤ n)
    {k v : Bytes} (hv : IsExpired cutoff v) (ha : get ik (startAt ik db last) k = some v)
    (hl : r.limitReached = false) : get ik r.db k = none := by
  rcases slice_ahead hs h hn hv ha with h1 | ⟨h1, _⟩
  · exact h1
  · rw [hl] at h1; cases h1

/-- after the application's commit, a key above the resume key whose binding it did not touch is
    still ahead of the scan -/
theorem ahead_after_app {ik : Bool} {db' : KVs} (hs : Sorted ik db') {k v lk lv : Bytes}
    (hg : get ik db' k = some v) (hlt : kcmp ik lk k < 0) :
    get ik (startAt ik db' (some (lk, lv))) k = some v := by
  obtain ⟨k', hm, hk⟩ := get_some_mem hg
  have hs' : Sorted ik (startAt ik db' (some (lk, lv))) := hs.sublist (startAt_sublist ..)
  refine (get_eq_some_iff hs').mpr ⟨k', ?_, hk⟩
  rw [mem_startAt hs]
  exact ⟨hm, Or.inl (kcmp_lt_of_lt_of_eq ik hlt hk)⟩

/-! ### where the next slice resumes when nothing changed in between -/

theorem slice_resume {ik : Bool} {cutoff : Nat} {db : KVs} {last : Option (Bytes × Bytes)} {n : Option Nat}
    {r : SliceRes} (hs : Sorted ik db) (h : slice ik cutoff db last n = .ok r) :
    startAt ik r.db r.last = (startAt ik db last).drop (covered n (startAt ik db last)) := by
  obtain ⟨pre, T, D, h0, hst, _, hD, h1, _, h3, _⟩ := slice_pieces hs h
  rw [← hD]
  have hsTD : Sorted ik (T ++ D) := by rw [h0] at hs; exact (sorted_append.mp hs).2.1
  cases hl : T.getLast? with
  | none =>
    rw [List.getLast?_eq_none_iff] at hl
    subst hl
    have e1 : r.db = db := by rw [h1, h0]; rfl
    have e2 : r.last = last := by rw [h3]; rfl
    rw [e1, e2, hst]; rfl
  | some l =>
    obtain ⟨lk, lv⟩ := l
    obtain ⟨ini, hini⟩ := List.getLast?_eq_some_iff.mp hl
    have e2 : r.last = some (lk, lv) := by rw [h3, hl]; rfl
    rw [e2, h1, hini]
    rw [hini] at h0 hsTD
    have hA : ∀ p ∈ pre ++ ini.filter (keep cutoff), kcmp ik p.1 lk < 0 := by
      intro p hp
      rcases List.mem_append.mp hp with hp | hp
      · rw [h0] at hs
        exact (sorted_append.mp hs).2.2 p hp (lk, lv) (by simp)
      · have hp' : p ∈ ini := (List.mem_filter.mp hp).1
        have := (sorted_append.mp (sorted_append.mp hsTD).1).2.2 p hp' (lk, lv) (by simp)
        exact this
    have hB : ∀ p ∈ D, kcmp ik lk p.1 < 0 := by
      intro p hp
      exact (sorted_append.mp hsTD).2.2 (lk, lv) (by simp) p hp
    have ⟨r1, r2⟩ := startAt_resume (lv := lv) hA hB
    rw [List.filter_append]
    by_cases hk : keep cutoff (lk, lv) = true
    · have : pre ++ (ini.filter (keep cutoff) ++ [(lk, lv)].filter (keep cutoff) ++ D) =
          (pre ++ ini.filter (keep cutoff)) ++ (lk, lv) :: D := by simp [hk]
      rw [this]; exact r1
    · have : pre ++ (ini.filter (keep cutoff) ++ [(lk, lv)].filter (keep cutoff) ++ D) =
          (pre ++ ini.filter (keep cutoff)) ++ D := by simp [hk]
      rw [this]; exact r2

/-! ### counting, and what is removed -/

theorem filter_keep_length (cutoff : Nat) (T : KVs) :
    (T.filter (keep cutoff)).length + (T.filter (fun kv => decide (IsExpired cutoff kv.2))).length = T.length := by
  induction T with
  | nil => rfl
  | cons p rest ih =>
    rw [List.filter_cons, List.filter_cons]
    by_cases h : IsExpired cutoff p.2
    · have hk : keep cutoff p = false := keep_eq_false.mpr h
      simp only [hk, Bool.false_eq_true, if_false, decide_eq_true h, if_true, List.length_cons]; omega
    · have hk : keep cutoff p = true := keep_eq_true.mpr h
      simp only [hk, if_true, decide_eq_false h, Bool.false_eq_true, if_false, List.length_cons]; omega

theorem slice_cleaned {ik : Bool} {cutoff : Nat} {db : KVs} {last : Option (Bytes × Bytes)} {n : Option Nat}
    {r : SliceRes} (hs : Sorted ik db) (h : slice ik cutoff db last n = .ok r) :
    r.cleaned + r.db.length = db.length := by
  obtain ⟨pre, T, D, h0, _, _, _, h1, h2, _⟩ := slice_pieces hs h
  have := filter_keep_length cutoff T
  rw [h1, h2, h0]
  simp only [List.length_append]
  omega

theorem slice_removed {ik : Bool} {cutoff : Nat} {db : KVs} {last : Option (Bytes × Bytes)} {n : Option Nat}
    {r : SliceRes} (hs : Sorted ik db) (h : slice ik cutoff db last n = .ok r) {kv : Bytes × Bytes}
    (hm : kv ∈ db) (hr : kv ∉ r.db) :
    IsExpired cutoff kv.2 ∧ kv ∈ (startAt ik db last).take (covered n (startAt ik db last)) := by
  obtain ⟨pre, T, D, h0, _, hT, _, h1, _⟩ := slice_pieces hs h
  rw [h0] at hm
  rw [h1] at hr
  simp only [List.mem_append, List.mem_filter, not_or, not_and] at hm hr
  rcases hm with hm | hm | hm
  · exact absurd hm hr.1
  · refine ⟨?_, hT ▸ hm⟩
    have := hr.2.1 hm
    exact keep_eq_false.mp (by simpa using this)
  · exact absurd hm hr.2.2

theorem slice_cleaned_pos {ik : Bool} {cutoff : Nat} {db : KVs} {last : Option (Bytes × Bytes)} {n : Option Nat}
    {r : SliceRes} (hs : Sorted ik db) (h : slice ik cutoff db last n = .ok r) :
    r.cleaned > 0 ↔ r.db ≠ db := by
  have hc := slice_cleaned hs h
  have hsub := slice_sublist hs h
  constructor
  · intro hp he; rw [he] at hc; omega
  · intro hne
    apply Nat.pos_of_ne_zero
    intro hz
    exact hne (hsub.eq_of_length (by omega))

/-- a slice fails exactly when one of the values it covers does not parse -/
theorem slice_ok_iff {ik : Bool} {cutoff : Nat} {db : KVs} {last : Option (Bytes × Bytes)} {n : Option Nat} :
    (∃ r, slice ik cutoff db last n = .ok r) ↔
      ∀ kv ∈ (startAt ik db last).take (covered n (startAt ik db last)), Parses kv.2 := by
  constructor
  · rintro ⟨r, hr⟩
    exact scan_parses hr
  · intro hp
    exact scan_ok _ _ _ _ _ hp

end Ls.Sweeper
