import LsLemmas.LoopInv
/-
  Step-level facts about the bucket, the waiting set and the exit of the sync loop, and the
  ghost-free "nothing local to publish" predicate that is stable under everything but
  application transactions.
-/
namespace Ls.Loop
open Ls Ls.Txn Ls.SyncLoop

/-! ## the bucket -/

/-- the blob `SendOnce` stores from the yield point after its transaction -/
def dumpBlob (c : LoopCfg) (s : St) : Option Blob :=
  match s.pc with
  | .sendAfterTxn _ _ ts snap => some { inst := c.own, ts := ts, snap := snap }
  | _ => none

/-- does this segment store a blob? -/
def Stores (c : LoopCfg) (s : St) (i : In) : Prop :=
  (∃ who t ts snap, s.pc = .sendAfterTxn who t ts snap) ∧ c.txn.receiveOnly = false ∧
    i.fails < c.retryCount

theorem not_stores {c : LoopCfg} {s : St} {i : In}
    (h : ∀ who t ts snap, s.pc ≠ .sendAfterTxn who t ts snap) : ¬ Stores c s i :=
  fun ⟨⟨who, t, ts, snap, hp⟩, _⟩ => h who t ts snap hp

/-- **The only segment that touches the bucket** is the one from the yield point after
    `SendOnce`'s transaction, not receive-only, with fewer failures than the retry budget; it
    appends exactly the dumped blob. -/
theorem go_bucket (c : LoopCfg) (b : Bucket) (s : St) (i : In) :
    (Stores c s i ∧ ∃ blob, dumpBlob c s = some blob ∧ (go c b s i).2 = b ++ [blob]) ∨
    (¬ Stores c s i ∧ (go c b s i).2 = b) := by
  rw [go_eq]
  simp only
  cases hpc : s.pc with
  | sendAfterTxn who t ts snap =>
    rw [goRaw_sendAfterTxn hpc]
    by_cases hro : c.txn.receiveOnly = true
    · right
      rw [if_pos hro]
      exact ⟨fun h => (by have := h.2.1; rw [hro] at this; cases this), rfl⟩
    · rw [if_neg hro]
      by_cases hf : i.fails ≥ c.retryCount
      · right
        rw [if_pos hf]
        exact ⟨fun h => (by have := h.2.2; omega), rfl⟩
      · left
        rw [if_neg hf]
        refine ⟨⟨⟨who, t, ts, snap, hpc⟩, by simpa using hro, by omega⟩, _, ?_, rfl⟩
        unfold dumpBlob; rw [hpc]
  | boot =>
    right
    exact ⟨not_stores (by simp [hpc]), (goRaw_boot hpc).1⟩
  | top =>
    right; rw [goRaw_top hpc]
    exact ⟨not_stores (by simp [hpc]), rfl⟩
  | loadAfterTxn t lc inst ts n =>
    right; rw [goRaw_loadAfterTxn hpc]
    refine ⟨not_stores (by simp [hpc]), ?_⟩
    split <;> rfl
  | beforeInfo =>
    right; rw [goRaw_beforeInfo hpc]
    refine ⟨not_stores (by simp [hpc]), ?_⟩
    split
    · split
      · rfl
      · split <;> rfl
    · rfl
  | beforeSend =>
    right; rw [goRaw_beforeSend hpc]
    exact ⟨not_stores (by simp [hpc]), rfl⟩
  | sendStored who t =>
    right; rw [goRaw_sendStored hpc]
    exact ⟨not_stores (by simp [hpc]), rfl⟩
  | sleep =>
    right; rw [goRaw_sleep hpc]
    exact ⟨not_stores (by simp [hpc]), rfl⟩
  | exited e =>
    right; rw [goRaw_exited hpc]
    exact ⟨not_stores (by simp [hpc]), rfl⟩

theorem go_pc (c : LoopCfg) (b : Bucket) (s : St) (i : In) :
    (go c b s i).1.pc = (goRaw c b s i).1.pc ∧ (go c b s i).1.waiting = (goRaw c b s i).1.waiting ∧
    (go c b s i).1.env = (goRaw c b s i).1.env ∧ (go c b s i).1.lastSynced = (goRaw c b s i).1.lastSynced := by
  rw [go_eq]
  obtain ⟨r1, r2, r3, r4, _⟩ := relist_facts (goRaw c b s i).1 (goRaw c b s i).2
  exact ⟨r2, r4, r1, r3⟩

/-! ## the waiting set and the exit -/

/-- **How an instance leaves the waiting set** (after start-up): a `poll` found one of its
    snapshots in the bucket and began to load it, or `afterLoads` ran while the receiver no longer
    saw the instance. -/
theorem waiting_leave (c : LoopCfg) (b : Bucket) (s : St) (i : In) (x : InstId)
    (hboot : s.pc ≠ .boot) (hx : x ∈ s.waiting) (hx' : x ∉ (go c b s i).1.waiting) :
    pollTarget b s i = some x ∨ (runsAfterLoads s i = true ∧ x ∉ s.seen) := by
  rw [(go_pc c b s i).2.1] at hx'
  have hload : ∀ (s1 : St) (n : Nat) (s' : St), s1.waiting = s.waiting → s1.seen = s.seen →
      (s' = afterLoads s1 ∧ runsAfterLoads s i = true) ∨
      (PollOut c b s1 i n s' ∧ (i.next = none → runsAfterLoads s i = true) ∧
        ∀ inst ts blob, i.next = some (inst, ts) → findBlob b inst ts = some blob →
          pollTarget b s i = some inst) →
      x ∉ s'.waiting → pollTarget b s i = some x ∨ (runsAfterLoads s i = true ∧ x ∉ s.seen) := by
    intro s1 n s' hw hseen hout hx'
    have hal : runsAfterLoads s i = true → x ∉ (afterLoads s1).waiting →
        pollTarget b s i = some x ∨ (runsAfterLoads s i = true ∧ x ∉ s.seen) := by
      intro hr hx'
      right
      refine ⟨hr, fun hs => hx' ?_⟩
      simp only [afterLoads, hw, hseen]
      exact List.mem_filter.mpr ⟨hx, by simpa using hs⟩
    have hfil : ∀ inst, pollTarget b s i = some inst → x ∉ s1.waiting.filter (· != inst) →
        pollTarget b s i = some x := by
      intro inst ht hx'
      by_cases hc : x = inst
      · rw [hc]; exact ht
      · exact absurd (List.mem_filter.mpr ⟨hw ▸ hx, by simpa using hc⟩) hx'
    rcases hout with ⟨rfl, hr⟩ | ⟨hp, hnone, htgt⟩
    · exact hal hr hx'
    · cases hp with
      | none hn => exact hal (hnone hn) hx'
      | unknown inst ts hn hb => exact absurd (hw ▸ hx) hx'
      | failed inst ts blob e hn hb hl => exact Or.inl (hfil inst (htgt inst ts blob hn hb) hx')
      | loaded inst ts blob r hn hb hl => exact Or.inl (hfil inst (htgt inst ts blob hn hb) hx')
  cases hpc : s.pc with
  | boot => exact absurd hpc hboot
  | top =>
    rw [goRaw_top hpc] at hx'
    refine hload s 0 _ rfl rfl (Or.inr ⟨poll_out c b s i 0, fun hn => ?_, fun inst ts blob hn hb => ?_⟩) hx'
    · unfold runsAfterLoads; rw [hpc]; simp [hn]
    · unfold pollTarget; rw [hpc]; simp [hn, hb]
  | loadAfterTxn t lc inst ts n =>
    rw [goRaw_loadAfterTxn hpc] at hx'
    obtain ⟨_, _, d3, d4, _, _⟩ := loadDone_facts s t lc inst ts
    by_cases hbr : lc = true ∧ n > maxConsecutive
    · rw [if_pos hbr] at hx'
      refine hload _ n _ d3 d4 (Or.inl ⟨rfl, ?_⟩) hx'
      unfold runsAfterLoads; rw [hpc]; simp [hbr.1, hbr.2]
    · rw [if_neg hbr] at hx'
      refine hload _ n _ d3 d4
        (Or.inr ⟨poll_out c b _ i n, fun hn => ?_, fun inst' ts' blob hn hb => ?_⟩) hx'
      · unfold runsAfterLoads; rw [hpc]; simp [hn]
      · unfold pollTarget; rw [hpc]; simp only [if_neg hbr, hn]; simp [hb]
  | beforeInfo =>
    rw [goRaw_beforeInfo hpc] at hx'
    exfalso; apply hx'
    split
    · split
      · rw [(afterSend_facts c s).2.2.1]; exact hx
      · split
        · exact hx
        · rw [(afterSend_facts c _).2.2.1]; exact hx
    · rw [(afterSend_facts c s).2.2.1]; exact hx
  | beforeSend =>
    rw [goRaw_beforeSend hpc] at hx'
    exfalso; apply hx'
    have hout := beginSend_out c s .loop i.now
    generalize beginSend c s .loop i.now = s' at hout ⊢
    cases hout <;> exact hx
  | sendAfterTxn who t ts snap =>
    rw [goRaw_sendAfterTxn hpc] at hx'
    exfalso; apply hx'
    split
    · rw [(sendReturned_facts c s who _).2.2.1]; exact hx
    · split <;> exact hx
  | sendStored who t =>
    rw [goRaw_sendStored hpc] at hx'
    exfalso; apply hx'
    rw [(sendReturned_facts c _ who t).2.2.1]; exact hx
  | sleep => rw [goRaw_sleep hpc] at hx'; exact absurd hx hx'
  | exited e => rw [goRaw_exited hpc] at hx'; exact absurd hx hx'

/-- the waiting set never grows after start-up -/
theorem waiting_shrinks (c : LoopCfg) (b : Bucket) (s : St) (i : In) (x : InstId)
    (hboot : s.pc ≠ .boot) (hx : x ∈ (go c b s i).1.waiting) : x ∈ s.waiting := by
  rw [(go_pc c b s i).2.1] at hx
  have hload : ∀ (s1 : St) (n : Nat) (s' : St), s1.waiting = s.waiting →
      (s' = afterLoads s1 ∨ PollOut c b s1 i n s') → x ∈ s'.waiting → x ∈ s.waiting := by
    intro s1 n s' hw hout hx
    have hal : x ∈ (afterLoads s1).waiting → x ∈ s.waiting := by
      intro hx; rw [← hw]; exact (List.mem_filter.mp hx).1
    rcases hout with rfl | hp
    · exact hal hx
    · cases hp with
      | none hn => exact hal hx
      | unknown inst ts hn hb => exact hw ▸ hx
      | failed inst ts blob e hn hb hl => rw [← hw]; exact (List.mem_filter.mp hx).1
      | loaded inst ts blob r hn hb hl => rw [← hw]; exact (List.mem_filter.mp hx).1
  cases hpc : s.pc with
  | boot => exact absurd hpc hboot
  | top => rw [goRaw_top hpc] at hx; exact hload s 0 _ rfl (Or.inr (poll_out c b s i 0)) hx
  | loadAfterTxn t lc inst ts n =>
    rw [goRaw_loadAfterTxn hpc] at hx
    obtain ⟨_, _, d3, _⟩ := loadDone_facts s t lc inst ts
    split at hx
    · exact hload _ n _ d3 (Or.inl rfl) hx
    · exact hload _ n _ d3 (Or.inr (poll_out c b _ i n)) hx
  | beforeInfo =>
    rw [goRaw_beforeInfo hpc] at hx
    split at hx
    · split at hx
      · rwa [(afterSend_facts c s).2.2.1] at hx
      · split at hx
        · exact hx
        · rwa [(afterSend_facts c _).2.2.1] at hx
    · rwa [(afterSend_facts c s).2.2.1] at hx
  | beforeSend =>
    rw [goRaw_beforeSend hpc] at hx
    have hout := beginSend_out c s .loop i.now
    generalize beginSend c s .loop i.now = s' at hout hx
    cases hout <;> exact hx
  | sendAfterTxn who t ts snap =>
    rw [goRaw_sendAfterTxn hpc] at hx
    split at hx
    · rwa [(sendReturned_facts c s who _).2.2.1] at hx
    · split at hx <;> exact hx
  | sendStored who t =>
    rw [goRaw_sendStored hpc] at hx
    rwa [(sendReturned_facts c _ who t).2.2.1] at hx
  | sleep => rw [goRaw_sleep hpc] at hx; exact hx
  | exited e => rw [goRaw_exited hpc] at hx; exact hx

/-- the segments that end in `afterSend` (the tail of an iteration) -/
def EndsIteration (c : LoopCfg) (s : St) : Prop :=
  s.pc = .beforeInfo ∨ (∃ t, s.pc = .sendStored .loop t) ∨
  (∃ t ts snap, s.pc = .sendAfterTxn .loop t ts snap ∧ c.txn.receiveOnly = true)

/-- **The loop ends by itself only at the tail of an iteration, in only-once mode, with an empty
    waiting set.** -/
theorem exit_ok_only (c : LoopCfg) (b : Bucket) (s : St) (i : In)
    (hne : s.pc ≠ .exited .ok) (he : (go c b s i).1.pc = .exited .ok) :
    c.onlyOnce = true ∧ (go c b s i).1.waiting = [] ∧ s.waiting = [] ∧ EndsIteration c s := by
  rw [(go_pc c b s i).1] at he
  rw [(go_pc c b s i).2.1]
  have hAS : ∀ s0 : St, s0.waiting = s.waiting → (afterSend c s0).pc = .exited .ok →
      c.onlyOnce = true ∧ (afterSend c s0).waiting = [] ∧ s.waiting = [] := by
    intro s0 hw h
    obtain ⟨_, _, f3, _, _, f6⟩ := afterSend_facts c s0
    rcases f6 with f6 | ⟨_, f7, f8⟩
    · rw [f6] at h; cases h
    · exact ⟨f7, by rw [f3, f8], by rw [← hw, f8]⟩
  have hSR : ∀ (s0 : St) who t, s0.waiting = s.waiting → (sendReturned c s0 who t).pc = .exited .ok →
      c.onlyOnce = true ∧ (sendReturned c s0 who t).waiting = [] ∧ s.waiting = [] ∧ who = .loop := by
    intro s0 who t hw h
    obtain ⟨_, _, f3, _, _, f6⟩ := sendReturned_facts c s0 who t
    rw [f6] at h
    cases who with
    | initial => cases h
    | loop =>
      simp only at h
      split at h
      · rename_i hc
        exact ⟨hc.1, by rw [f3, hc.2], by rw [← hw, hc.2], rfl⟩
      · cases h
  have hload : ∀ (s1 : St) (n : Nat) (s' : St),
      (s' = afterLoads s1 ∨ PollOut c b s1 i n s') → s'.pc ≠ .exited .ok := by
    intro s1 n s' hout
    rcases hout with rfl | hp
    · intro h; cases h
    · cases hp <;> intro h <;> cases h
  cases hpc : s.pc with
  | boot =>
    exfalso
    obtain ⟨_, hb⟩ := goRaw_boot (c := c) (b := b) (i := i) hpc
    generalize (goRaw c b s i).1 = s' at hb he
    cases hb with
    | captureFailed e s0 e1 e2 e3 => cases he
    | noSend s0 e1 e2 e3 e4 e5 e6 e7 => cases he
    | send s0 e1 e2 e3 e4 e5 e6 e7 =>
      have hout := beginSend_out c s0 .initial i.now
      generalize beginSend c s0 .initial i.now = s'' at hout he
      cases hout <;> cases he
  | top =>
    rw [goRaw_top hpc] at he
    exact absurd he (hload s 0 _ (Or.inr (poll_out c b s i 0)))
  | loadAfterTxn t lc inst ts n =>
    rw [goRaw_loadAfterTxn hpc] at he
    split at he
    · exact absurd he (hload _ n _ (Or.inl rfl))
    · exact absurd he (hload _ n _ (Or.inr (poll_out c b _ i n)))
  | beforeInfo =>
    rw [goRaw_beforeInfo hpc] at he ⊢
    have hE : EndsIteration c s := Or.inl hpc
    by_cases hg : s.env.lastTxn > s.lastSynced ∨ s.forceArmed = true
    · rw [if_pos hg] at he ⊢
      by_cases hown : s.waiting.contains c.own = true
      · rw [if_pos hown] at he ⊢
        obtain ⟨a, b', c'⟩ := hAS s rfl he; exact ⟨a, b', c', hE⟩
      · rw [if_neg hown] at he ⊢
        by_cases hd : s.hasDataAtStart = true ∨ s.env.lastTxn > 0
        · rw [if_pos hd] at he
          cases he
        · rw [if_neg hd] at he ⊢
          obtain ⟨a, b', c'⟩ := hAS { s with lastSynced := s.env.lastTxn } rfl he
          exact ⟨a, b', c', hE⟩
    · rw [if_neg hg] at he ⊢
      obtain ⟨a, b', c'⟩ := hAS s rfl he; exact ⟨a, b', c', hE⟩
  | beforeSend =>
    exfalso
    rw [goRaw_beforeSend hpc] at he
    have hout := beginSend_out c s .loop i.now
    generalize beginSend c s .loop i.now = s' at hout he
    cases hout <;> cases he
  | sendAfterTxn who t ts snap =>
    rw [goRaw_sendAfterTxn hpc] at he ⊢
    by_cases hro : c.txn.receiveOnly = true
    · rw [if_pos hro] at he ⊢
      obtain ⟨a, b', c', d⟩ := hSR s who _ rfl he
      subst d
      exact ⟨a, b', c', Or.inr (Or.inr ⟨t, ts, snap, hpc, hro⟩)⟩
    · rw [if_neg hro] at he
      split at he <;> cases he
  | sendStored who t =>
    rw [goRaw_sendStored hpc] at he ⊢
    obtain ⟨a, b', c', d⟩ := hSR (stored s) who t rfl he
    subst d
    exact ⟨a, b', c', Or.inr (Or.inl ⟨t, hpc⟩)⟩
  | sleep => rw [goRaw_sleep hpc] at he; cases he
  | exited e =>
    rw [goRaw_exited hpc] at he
    simp only at he
    exact absurd he hne

/-! ## nothing local to publish -/

/-- `lastSynced` has caught up with `lastTxn` (and the loop is not in its send part) -/
def Caught (s : St) : Prop :=
  match s.pc with
  | .top => s.env.lastTxn ≤ s.lastSynced
  | .beforeInfo => s.env.lastTxn ≤ s.lastSynced
  | .sleep => s.env.lastTxn ≤ s.lastSynced
  | .loadAfterTxn t lc _ _ _ => lc = false ∧ s.env.lastTxn ≤ t
  | .exited _ => True
  | _ => False

instance (s : St) : Decidable (Caught s) := by unfold Caught; split <;> infer_instance

/-- nothing local to publish: `lastSynced` has caught up with `lastTxn` (`Caught`) and no
    snapshot is overdue (`storage_force_snapshot_interval`: the force flag is not armed) -/
def Synced (s : St) : Prop := Caught s ∧ s.forceArmed = false

instance (s : St) : Decidable (Synced s) := by unfold Synced; infer_instance

/-- **Merging never triggers an upload.** From a state in which `lastSynced` has caught up, a
    segment — whatever the receiver hands over, whatever the snapshot contains — ends in such a
    state again and does not touch the bucket. -/
theorem synced_go (c : LoopCfg) (b : Bucket) (s : St) (i : In) (h : Synced s) :
    Synced (go c b s i).1 ∧ (go c b s i).2 = b := by
  obtain ⟨h, hu⟩ := h
  have hb : (go c b s i).2 = b := by
    rcases go_bucket c b s i with ⟨⟨⟨who, t, ts, snap, hp⟩, _⟩, _⟩ | ⟨_, hb⟩
    · unfold Caught at h; rw [hp] at h; exact absurd h id
    · exact hb
  refine ⟨⟨?_, go_unarmed hu⟩, hb⟩
  obtain ⟨g1, _, g3, g4⟩ := go_pc c b s i
  have hcongr : ∀ s' : St, Caught s' → (go c b s i).1.pc = s'.pc → (go c b s i).1.env = s'.env →
      (go c b s i).1.lastSynced = s'.lastSynced → Caught (go c b s i).1 := by
    intro s' hs e1 e2 e3
    unfold Caught at hs ⊢
    rw [e1, e2, e3]; exact hs
  refine hcongr (goRaw c b s i).1 ?_ g1 g3 g4
  have hload : ∀ (s1 : St) (n : Nat) (s' : St), s1.env.lastTxn ≤ s1.lastSynced →
      (s' = afterLoads s1 ∨ PollOut c b s1 i n s') → Caught s' := by
    intro s1 n s' hle hout
    rcases hout with rfl | hp
    · exact hle
    · cases hp with
      | none hn => exact hle
      | unknown inst ts hn hb => trivial
      | failed inst ts blob e hn hb hl => trivial
      | loaded inst ts blob r hn hb hl =>
        obtain ⟨hL, hlc⟩ := loadOnce_facts hl
        refine ⟨?_, ?_⟩
        · rw [hlc]; simp; omega
        · dsimp only; omega
  unfold Caught at h
  cases hpc : s.pc with
  | boot => rw [hpc] at h; exact absurd h id
  | beforeSend => rw [hpc] at h; exact absurd h id
  | sendAfterTxn who t ts snap => rw [hpc] at h; exact absurd h id
  | sendStored who t => rw [hpc] at h; exact absurd h id
  | top =>
    rw [hpc] at h
    rw [goRaw_top hpc]
    exact hload s 0 _ h (Or.inr (poll_out c b s i 0))
  | loadAfterTxn t lc inst ts n =>
    rw [hpc] at h
    rw [goRaw_loadAfterTxn hpc]
    obtain ⟨d1, _, _, _, _, d6⟩ := loadDone_facts s t lc inst ts
    have hle : (loadDone s t lc inst ts).env.lastTxn ≤ (loadDone s t lc inst ts).lastSynced := by
      rw [d1, d6, h.1]
      simp only [Bool.false_eq_true, if_false]
      exact min_le_of h.2
    rw [if_neg (fun hh => by rw [h.1] at hh; cases hh.1)]
    exact hload _ n _ hle (Or.inr (poll_out c b _ i n))
  | beforeInfo =>
    rw [hpc] at h
    rw [goRaw_beforeInfo_unarmed hpc hu]
    rw [if_neg (by simp only at h; omega)]
    simp only
    obtain ⟨f1, f2, _, _, _, f6⟩ := afterSend_facts c s
    unfold Caught
    rcases f6 with f6 | ⟨f6, _⟩ <;> rw [f6]
    · simp only; rw [f1, f2]; exact h
    · trivial
  | sleep =>
    rw [hpc] at h
    rw [goRaw_sleep hpc]
    exact h
  | exited e =>
    rw [goRaw_exited hpc]
    unfold Caught; rw [hpc]; trivial

/-- the blobs other instances stored during a schedule -/
def othersOf : List Ev → List Blob
  | [] => []
  | .others bs :: es => bs ++ othersOf es
  | _ :: es => othersOf es

theorem recorded_false {s : St} {ops : List AppOp} (h : recorded s ops = false) :
    (appCommit s ops).env.lastTxn = s.env.lastTxn := by
  unfold recorded at h; simpa using h

/-- **No echo, as a statement about schedules.** From a state in which `lastSynced` has caught up,
    however long the loop runs, whatever snapshots it merges, whatever others store and however
    often the bucket is listed: as long as no application transaction is recorded, the loop
    stores nothing — the bucket grows by the others' blobs only. -/
theorem synced_run (c : LoopCfg) (g : G) (evs : List Ev) (hs : Synced g.st) (hna : NoAppFrom c g evs) :
    Synced (runFrom c g evs).st ∧ (runFrom c g evs).bucket = g.bucket ++ othersOf evs := by
  induction evs generalizing g with
  | nil => exact ⟨hs, (List.append_nil _).symm⟩
  | cons e es ih =>
    obtain ⟨h1, h2⟩ := hna
    have hstep : Synced (step c g e).st ∧ (step c g e).bucket ++ othersOf es = g.bucket ++ othersOf (e :: es) := by
      cases e with
      | go i =>
        obtain ⟨a, b⟩ := synced_go c g.bucket g.st i hs
        exact ⟨a, by show (go c g.bucket g.st i).2 ++ _ = _; rw [b]; rfl⟩
      | app ops =>
        refine ⟨?_, rfl⟩
        obtain ⟨hpc, hS, _⟩ := appCommit_facts g.st ops
        have hL := recorded_false h1
        show Synced (appCommit g.st ops)
        refine ⟨?_, (appCommit_force g.st ops).trans hs.2⟩
        have hs := hs.1
        unfold Caught at hs ⊢
        rw [hpc, hS, hL]; exact hs
      | list => exact ⟨hs, rfl⟩
      | others bs => exact ⟨hs, by show (g.bucket ++ bs) ++ _ = _; rw [List.append_assoc]; rfl⟩
    obtain ⟨a, b⟩ := ih (step c g e) hstep.1 h2
    exact ⟨a, by show (runFrom c (step c g e) es).bucket = _; rw [b, hstep.2]⟩

/-! ## the own-instance guard, for armed states too

  `Inv0` speaks about the schedules of `Ev`, which never arm the force flag. The start-up guard
  "no upload while the own instance is in the waiting set" must hold whether or not a snapshot is
  overdue (`storage_force_snapshot_interval` must not bypass it): it is an invariant of `go` from
  ARBITRARY states, of application transactions, listings and of the harness's arming. -/

/-- at the yield points of the send part the own instance is not waited for, and a start-up
    `SendOnce` has an empty waiting set -/
def OwnGuard (c : LoopCfg) (s : St) : Prop :=
  match s.pc with
  | .beforeSend => c.own ∉ s.waiting
  | .sendAfterTxn who _ _ _ => c.own ∉ s.waiting ∧ (who = .initial → s.waiting = [])
  | .sendStored who _ => c.own ∉ s.waiting ∧ (who = .initial → s.waiting = [])
  | _ => True

theorem OwnGuard.congr {c : LoopCfg} {s s' : St} (h : OwnGuard c s) (h1 : s'.pc = s.pc)
    (h2 : s'.waiting = s.waiting) : OwnGuard c s' := by
  unfold OwnGuard at h ⊢
  rw [h1, h2]; exact h

theorem ownGuard_of_plain {c : LoopCfg} {s : St}
    (h : s.pc = .top ∨ s.pc = .sleep ∨ s.pc = .beforeInfo ∨ (∃ e, s.pc = .exited e) ∨
      ∃ t lc inst ts n, s.pc = .loadAfterTxn t lc inst ts n) : OwnGuard c s := by
  unfold OwnGuard
  rcases h with h | h | h | ⟨e, h⟩ | ⟨t, lc, inst, ts, n, h⟩ <;> rw [h] <;> trivial

/-- **the guard is kept by every segment, from every state — armed or not** -/
theorem ownGuard_go (c : LoopCfg) (b : Bucket) (s : St) (i : In) (h : OwnGuard c s) :
    OwnGuard c (go c b s i).1 := by
  obtain ⟨g1, g2, _, _⟩ := go_pc c b s i
  refine OwnGuard.congr (s := (goRaw c b s i).1) ?_ g1 g2
  have hload : ∀ (s1 : St) (n : Nat) (s' : St),
      (s' = afterLoads s1 ∨ PollOut c b s1 i n s') → OwnGuard c s' := by
    intro s1 n s' hout
    rcases hout with rfl | hp
    · exact ownGuard_of_plain (Or.inr (Or.inr (Or.inl rfl)))
    · cases hp with
      | none hn => exact ownGuard_of_plain (Or.inr (Or.inr (Or.inl rfl)))
      | unknown inst ts hn hb => exact ownGuard_of_plain (Or.inr (Or.inr (Or.inr (Or.inl ⟨_, rfl⟩))))
      | failed inst ts blob e hn hb hl =>
        exact ownGuard_of_plain (Or.inr (Or.inr (Or.inr (Or.inl ⟨_, rfl⟩))))
      | loaded inst ts blob r hn hb hl =>
        exact ownGuard_of_plain (Or.inr (Or.inr (Or.inr (Or.inr ⟨_, _, _, _, _, rfl⟩))))
  have hAS : ∀ s0 : St, OwnGuard c (afterSend c s0) := by
    intro s0
    rcases (afterSend_facts c s0).2.2.2.2.2 with h | ⟨h, _⟩
    · exact ownGuard_of_plain (Or.inr (Or.inl h))
    · exact ownGuard_of_plain (Or.inr (Or.inr (Or.inr (Or.inl ⟨_, h⟩))))
  have hSR : ∀ (s0 : St) who t, OwnGuard c (sendReturned c s0 who t) := by
    intro s0 who t
    rcases sendReturned_pc c s0 who t with h | h | ⟨e, h⟩
    · exact ownGuard_of_plain (Or.inl h)
    · exact ownGuard_of_plain (Or.inr (Or.inl h))
    · exact ownGuard_of_plain (Or.inr (Or.inr (Or.inr (Or.inl ⟨_, h⟩))))
  cases hpc : s.pc with
  | boot =>
    obtain ⟨_, hb⟩ := goRaw_boot (c := c) (b := b) (i := i) hpc
    generalize (goRaw c b s i).1 = s' at hb ⊢
    cases hb with
    | captureFailed e s0 e1 e2 e3 => exact ownGuard_of_plain (Or.inr (Or.inr (Or.inr (Or.inl ⟨_, rfl⟩))))
    | noSend s0 e1 e2 e3 e4 e5 e6 e7 => exact ownGuard_of_plain (Or.inl rfl)
    | send s0 e1 e2 e3 e4 e5 e6 e7 =>
      have hout := beginSend_out c s0 .initial i.now
      generalize beginSend c s0 .initial i.now = s'' at hout ⊢
      cases hout with
      | failed e he => exact ownGuard_of_plain (Or.inr (Or.inr (Or.inr (Or.inl ⟨_, rfl⟩))))
      | dumped r hr =>
        show c.own ∉ s0.waiting ∧ (_ → s0.waiting = [])
        rw [e2]; exact ⟨List.not_mem_nil, fun _ => rfl⟩
  | top => rw [goRaw_top hpc]; exact hload s 0 _ (Or.inr (poll_out c b s i 0))
  | loadAfterTxn t lc inst ts n =>
    rw [goRaw_loadAfterTxn hpc]
    split
    · exact hload _ n _ (Or.inl rfl)
    · exact hload _ n _ (Or.inr (poll_out c b _ i n))
  | beforeInfo =>
    rw [goRaw_beforeInfo hpc]
    split
    · split
      · exact hAS s
      · rename_i hown
        split
        · show c.own ∉ s.waiting
          simpa using hown
        · exact hAS _
    · exact hAS s
  | beforeSend =>
    unfold OwnGuard at h; rw [hpc] at h
    rw [goRaw_beforeSend hpc]
    have hout := beginSend_out c s .loop i.now
    generalize beginSend c s .loop i.now = s' at hout ⊢
    cases hout with
    | failed e he => exact ownGuard_of_plain (Or.inr (Or.inr (Or.inr (Or.inl ⟨_, rfl⟩))))
    | dumped r hr => exact ⟨h, fun hc => (nomatch hc)⟩
  | sendAfterTxn who t ts snap =>
    unfold OwnGuard at h; rw [hpc] at h
    rw [goRaw_sendAfterTxn hpc]
    split
    · exact hSR s who _
    · split
      · exact ownGuard_of_plain (Or.inr (Or.inr (Or.inr (Or.inl ⟨_, rfl⟩))))
      · exact h
  | sendStored who t => rw [goRaw_sendStored hpc]; exact hSR _ who t
  | sleep => rw [goRaw_sleep hpc]; exact ownGuard_of_plain (Or.inl rfl)
  | exited e => rw [goRaw_exited hpc]; exact ownGuard_of_plain (Or.inr (Or.inr (Or.inr (Or.inl ⟨e, hpc⟩))))

/-- schedules with the harness's arming event ("loop.overdue"; here at ANY yield point, the
    harness arms only at `top` and `sleep`) -/
inductive EvA where
  | ev (e : Ev)
  | arm

def stepA (c : LoopCfg) (g : G) : EvA → G
  | .ev e => step c g e
  | .arm => { g with st := armForce g.st }

def runA (c : LoopCfg) (env : Env) (b : Bucket) (evs : List EvA) : G := evs.foldl (stepA c) (G.init env b)

theorem ownGuard_stepA {c : LoopCfg} {g : G} (h : OwnGuard c g.st) (e : EvA) : OwnGuard c (stepA c g e).st := by
  cases e with
  | arm => exact h
  | ev e =>
    cases e with
    | go i => exact ownGuard_go c g.bucket g.st i h
    | app ops =>
      obtain ⟨h1, _, h3, _⟩ := appCommit_facts g.st ops
      exact h.congr h1 h3
    | list => exact h
    | others bs => exact h

/-- **the own-instance guard holds after every schedule, arming included** -/
theorem ownGuard_runA (c : LoopCfg) (env : Env) (b : Bucket) (evs : List EvA) :
    OwnGuard c (runA c env b evs).st := by
  unfold runA
  have h0 : OwnGuard c (G.init env b).st := True.intro
  generalize G.init env b = g at h0
  induction evs generalizing g with
  | nil => exact h0
  | cons e es ih => exact ih _ (ownGuard_stepA h0 e)

end Ls.Loop
