import LsLemmas.CivilTableDefs
/- civil-date table, rows 80000 … 87999 (kernel evaluation; see CivilTableDefs) -/
namespace Ls.Civil

theorem chunk10 : chunkOK 80000 8000 = true := by decide +kernel

end Ls.Civil
