import LsLemmas.TxnMirrorWF
import LsModel.SyncLoop
/-
  Step-level facts about the sync-loop model (`LsModel/SyncLoop.lean`): what one `go` segment does
  from each yield point, in a form the invariant proofs can use without unfolding the model again.
  Nothing here changes the model.
-/
namespace Ls.Loop
open Ls Ls.Txn Ls.SyncLoop

/-! ## transaction ids of the three kinds of transactions -/

theorem commit_lastTxn (e : Env) (w : W) :
    (commit e w).lastTxn = e.lastTxn ∨ (commit e w).lastTxn = e.lastTxn + 1 := by
  unfold commit; cases w.dirty <;> simp

/-- a successful `loadOnce`: the id LMDB shows afterwards is the old one (empty transaction) or
    the next one, and `localChanged` is `lastSynced < lastTxn` -/
theorem loadOnce_facts {c : Cfg} {e : Env} {snap : Snap} {ls now cutoff : Nat} {r : LoadRes}
    (h : loadOnce c e snap ls now cutoff = .ok r) :
    (r.env.lastTxn = e.lastTxn ∨ r.env.lastTxn = e.lastTxn + 1) ∧
    r.localChanged = decide (ls < e.lastTxn) := by
  cases hn : c.native with
  | true =>
    obtain ⟨w, _, he, hl, _⟩ := loadOnce_native_ok hn h
    rw [he]; exact ⟨commit_lastTxn e w, hl⟩
  | false =>
    obtain ⟨_, _, w, _, _, _, he, hl, _⟩ := loadOnce_shadow_ok hn h
    rw [he]; exact ⟨commit_lastTxn e w, hl⟩

/-- a successful `sendOnce`: native — the environment is untouched; shadow — old id or next id -/
theorem sendOnce_facts {c : Cfg} {e : Env} {now cutoff : Nat} {r : SendRes}
    (h : sendOnce c e now cutoff = .ok r) :
    (c.native = true → r.env = e) ∧
    (r.env.lastTxn = e.lastTxn ∨ r.env.lastTxn = e.lastTxn + 1) := by
  obtain ⟨h1, h2⟩ := sendOnce_env h
  refine ⟨h1, ?_⟩
  cases hn : c.native with
  | true => left; rw [h1 hn]
  | false =>
    obtain ⟨w, _, he⟩ := h2 hn
    rw [he]; exact commit_lastTxn e w

/-- an application transaction changes nothing but the environment; LMDB gives it the next id if
    it records it -/
theorem appCommit_facts (s : St) (ops : List AppOp) :
    (appCommit s ops).pc = s.pc ∧ (appCommit s ops).lastSynced = s.lastSynced ∧
    (appCommit s ops).waiting = s.waiting ∧ (appCommit s ops).seen = s.seen ∧
    (appCommit s ops).hasDataAtStart = s.hasDataAtStart ∧
    ((appCommit s ops).env.lastTxn = s.env.lastTxn ∨
      (appCommit s ops).env.lastTxn = s.env.lastTxn + 1) := by
  unfold appCommit
  cases h : appTxn s.env ops with
  | none => simp
  | some e =>
    refine ⟨rfl, rfl, rfl, rfl, rfl, ?_⟩
    unfold appTxn at h
    simp only [Option.map_eq_some_iff] at h
    obtain ⟨w, _, hw⟩ := h
    subst hw
    exact commit_lastTxn s.env w

/-! ## the pieces of `goRaw` -/

/-- the bookkeeping `goRaw` does at `loadAfterTxn` before it polls again -/
def loadDone (s : St) (txnID : Nat) (lc : Bool) (inst : InstId) (ts : Nat) : St :=
  let t := if s.env.lastTxn < txnID then s.env.lastTxn else txnID
  let s := { s with lastBy := setAssoc s.lastBy inst ts }
  if lc then s else { s with lastSynced := t }

theorem loadDone_facts (s : St) (t : Nat) (lc : Bool) (inst : InstId) (ts : Nat) :
    (loadDone s t lc inst ts).env = s.env ∧ (loadDone s t lc inst ts).pc = s.pc ∧
    (loadDone s t lc inst ts).waiting = s.waiting ∧ (loadDone s t lc inst ts).seen = s.seen ∧
    (loadDone s t lc inst ts).hasDataAtStart = s.hasDataAtStart ∧
    (loadDone s t lc inst ts).lastSynced =
      if lc then s.lastSynced else (if s.env.lastTxn < t then s.env.lastTxn else t) := by
  unfold loadDone
  cases lc <;> simp

/-- the four outcomes of `poll` -/
inductive PollOut (c : LoopCfg) (b : Bucket) (s : St) (i : In) (n : Nat) : St → Prop where
  | none : i.next = none → PollOut c b s i n (afterLoads s)
  | unknown (inst ts) : i.next = some (inst, ts) → findBlob b inst ts = none →
      PollOut c b s i n { s with pc := .exited (.err "unknown-snapshot") }
  | failed (inst ts blob e) : i.next = some (inst, ts) → findBlob b inst ts = some blob →
      loadOnce c.txn s.env blob.snap s.lastSynced i.now 0 = .error e →
      PollOut c b s i n { s with waiting := s.waiting.filter (· != inst), pc := .exited (.err e.cls) }
  | loaded (inst ts blob r) : i.next = some (inst, ts) → findBlob b inst ts = some blob →
      loadOnce c.txn s.env blob.snap s.lastSynced i.now 0 = .ok r →
      PollOut c b s i n
        { s with waiting := s.waiting.filter (· != inst), env := r.env,
                 pc := .loadAfterTxn (s.env.lastTxn + 1) r.localChanged inst ts (n + 1) }

theorem poll_out (c : LoopCfg) (b : Bucket) (s : St) (i : In) (n : Nat) :
    PollOut c b s i n (poll c b s i n) := by
  unfold poll
  cases hn : i.next with
  | none => exact .none hn
  | some p =>
    obtain ⟨inst, ts⟩ := p
    simp only
    cases hb : findBlob b inst ts with
    | none => exact .unknown inst ts hn hb
    | some blob =>
      simp only
      cases hl : loadOnce c.txn s.env blob.snap s.lastSynced i.now 0 with
      | error e => exact .failed inst ts blob e hn hb hl
      | ok r => exact .loaded inst ts blob r hn hb hl

/-- the two outcomes of `beginSend` -/
inductive SendOut (c : LoopCfg) (s : St) (who : Caller) (now : Nat) : St → Prop where
  | failed (e) : sendOnce c.txn s.env now 0 = .error e →
      SendOut c s who now { s with pc := .exited (.err e.cls) }
  | dumped (r) : sendOnce c.txn s.env now 0 = .ok r →
      SendOut c s who now
        { s with env := r.env,
                 pc := .sendAfterTxn who (if c.txn.native then s.env.lastTxn else s.env.lastTxn + 1) now r.snap }

theorem beginSend_out (c : LoopCfg) (s : St) (who : Caller) (now : Nat) :
    SendOut c s who now (beginSend c s who now) := by
  unfold beginSend
  cases h : sendOnce c.txn s.env now 0 with
  | error e => exact .failed e h
  | ok r => exact .dumped r h

theorem afterSend_facts (c : LoopCfg) (s : St) :
    (afterSend c s).env = s.env ∧ (afterSend c s).lastSynced = s.lastSynced ∧
    (afterSend c s).waiting = s.waiting ∧ (afterSend c s).seen = s.seen ∧
    (afterSend c s).hasDataAtStart = s.hasDataAtStart ∧
    ((afterSend c s).pc = .sleep ∨
      ((afterSend c s).pc = .exited .ok ∧ c.onlyOnce = true ∧ s.waiting = [])) := by
  unfold afterSend
  split
  · rename_i h
    refine ⟨rfl, rfl, rfl, rfl, rfl, Or.inr ⟨rfl, h.1, ?_⟩⟩
    have := h.2
    cases hw : s.waiting with
    | nil => rfl
    | cons a l => rw [hw] at this; cases this
  · exact ⟨rfl, rfl, rfl, rfl, rfl, Or.inl rfl⟩

/-- **run-once exit condition, exactly**: `afterSend` exits iff only-once and nothing is waited for -/
theorem afterSend_pc (c : LoopCfg) (s : St) :
    (afterSend c s).pc = if c.onlyOnce = true ∧ s.waiting = [] then .exited .ok else .sleep := by
  unfold afterSend
  have : s.waiting.isEmpty = true ↔ s.waiting = [] := List.isEmpty_iff
  by_cases h : c.onlyOnce = true ∧ s.waiting = []
  · rw [if_pos (by rw [this]; exact h), if_pos h]
  · rw [if_neg (by rw [this]; exact h), if_neg h]

/-! ## `go` against `goRaw` -/

/-- what `go` adds to `goRaw`: the first listing of the receiver's own goroutine -/
def relist (s : St) (b : Bucket) : St :=
  if s.pc = .top ∧ ¬ s.bgListed then { s with seen := instancesOf b, bgListed := true } else s

theorem go_eq (c : LoopCfg) (b : Bucket) (s : St) (i : In) :
    go c b s i = (relist (goRaw c b s i).1 (goRaw c b s i).2, (goRaw c b s i).2) := by
  unfold go relist
  cases goRaw c b s i
  simp only
  split <;> rfl

theorem relist_facts (s : St) (b : Bucket) :
    (relist s b).env = s.env ∧ (relist s b).pc = s.pc ∧ (relist s b).lastSynced = s.lastSynced ∧
    (relist s b).waiting = s.waiting ∧ (relist s b).hasDataAtStart = s.hasDataAtStart ∧
    (relist s b).lastBy = s.lastBy ∧ (relist s b).committed = s.committed := by
  unfold relist
  split <;> simp

theorem goRaw_top {c : LoopCfg} {b : Bucket} {s : St} {i : In} (h : s.pc = .top) :
    goRaw c b s i = (poll c b s i 0, b) := by
  unfold goRaw
  split <;> simp_all

theorem goRaw_loadAfterTxn {c : LoopCfg} {b : Bucket} {s : St} {i : In} {t : Nat} {lc : Bool}
    {inst : InstId} {ts n : Nat} (h : s.pc = .loadAfterTxn t lc inst ts n) :
    goRaw c b s i =
      if lc = true ∧ n > maxConsecutive then (afterLoads (loadDone s t lc inst ts), b)
      else (poll c b (loadDone s t lc inst ts) i n, b) := by
  unfold goRaw loadDone
  split <;> simp_all

theorem goRaw_beforeInfo {c : LoopCfg} {b : Bucket} {s : St} {i : In} (h : s.pc = .beforeInfo) :
    goRaw c b s i =
      if s.env.lastTxn > s.lastSynced ∨ s.forceArmed = true then
        if s.waiting.contains c.own then (afterSend c s, b)
        else
          if s.hasDataAtStart ∨ s.env.lastTxn > 0 then
            ({ s with lastSynced := s.env.lastTxn, pc := .beforeSend }, b)
          else (afterSend c { s with lastSynced := s.env.lastTxn }, b)
      else (afterSend c s, b) := by
  unfold goRaw
  split <;> simp_all

/-- the change check when no snapshot is overdue: `lastTxn > lastSynced` alone decides -/
theorem goRaw_beforeInfo_unarmed {c : LoopCfg} {b : Bucket} {s : St} {i : In} (h : s.pc = .beforeInfo)
    (hf : s.forceArmed = false) :
    goRaw c b s i =
      if s.env.lastTxn > s.lastSynced then
        if s.waiting.contains c.own then (afterSend c s, b)
        else
          if s.hasDataAtStart ∨ s.env.lastTxn > 0 then
            ({ s with lastSynced := s.env.lastTxn, pc := .beforeSend }, b)
          else (afterSend c { s with lastSynced := s.env.lastTxn }, b)
      else (afterSend c s, b) := by
  rw [goRaw_beforeInfo h]
  simp only [hf, Bool.false_eq_true, or_false]

theorem goRaw_beforeSend {c : LoopCfg} {b : Bucket} {s : St} {i : In} (h : s.pc = .beforeSend) :
    goRaw c b s i = (beginSend c s .loop i.now, b) := by
  unfold goRaw
  split <;> simp_all

theorem goRaw_sendAfterTxn {c : LoopCfg} {b : Bucket} {s : St} {i : In} {who : Caller} {t ts : Nat}
    {snap : Snap} (h : s.pc = .sendAfterTxn who t ts snap) :
    goRaw c b s i =
      if c.txn.receiveOnly then
        (sendReturned c s who (if s.env.lastTxn < t then s.env.lastTxn else t), b)
      else if i.fails ≥ c.retryCount then ({ s with pc := .exited (.err "store") }, b)
      else ({ s with pc := .sendStored who (if s.env.lastTxn < t then s.env.lastTxn else t) },
            b ++ [{ inst := c.own, ts := ts, snap := snap }]) := by
  unfold goRaw
  split <;> simp_all

/-- the bookkeeping `goRaw` does at `sendStored`: the cleaner is told what the stored snapshot
    incorporates, and (the store succeeded) no snapshot is overdue any more -/
def stored (s : St) : St :=
  { s with committed := s.lastBy.foldl (fun acc p => setAssoc acc p.1 p.2) s.committed,
           forceArmed := false }

theorem stored_facts (s : St) :
    (stored s).env = s.env ∧ (stored s).pc = s.pc ∧ (stored s).lastSynced = s.lastSynced ∧
    (stored s).waiting = s.waiting ∧ (stored s).seen = s.seen ∧
    (stored s).hasDataAtStart = s.hasDataAtStart ∧ (stored s).lastBy = s.lastBy ∧
    (stored s).bgListed = s.bgListed ∧ (stored s).forceArmed = false ∧
    (stored s).committed = s.lastBy.foldl (fun acc p => setAssoc acc p.1 p.2) s.committed :=
  ⟨rfl, rfl, rfl, rfl, rfl, rfl, rfl, rfl, rfl, rfl⟩

theorem goRaw_sendStored {c : LoopCfg} {b : Bucket} {s : St} {i : In} {who : Caller} {t : Nat}
    (h : s.pc = .sendStored who t) :
    goRaw c b s i =
      (sendReturned c (stored s) who t, b) := by
  unfold goRaw stored
  split <;> simp_all

theorem goRaw_sleep {c : LoopCfg} {b : Bucket} {s : St} {i : In} (h : s.pc = .sleep) :
    goRaw c b s i = ({ s with pc := .top }, b) := by
  unfold goRaw
  split <;> simp_all

theorem goRaw_exited {c : LoopCfg} {b : Bucket} {s : St} {i : In} {e : Exit} (h : s.pc = .exited e) :
    goRaw c b s i = (s, b) := by
  unfold goRaw
  split <;> simp_all

theorem sendReturned_facts (c : LoopCfg) (s : St) (who : Caller) (t : Nat) :
    (sendReturned c s who t).env = s.env ∧ (sendReturned c s who t).lastSynced = t ∧
    (sendReturned c s who t).waiting = s.waiting ∧ (sendReturned c s who t).seen = s.seen ∧
    (sendReturned c s who t).hasDataAtStart = s.hasDataAtStart ∧
    (sendReturned c s who t).pc =
      match who with
      | .initial => .top
      | .loop => if c.onlyOnce = true ∧ s.waiting = [] then .exited .ok else .sleep := by
  unfold sendReturned
  cases who
  · simp
  · simp only
    obtain ⟨h1, h2, h3, h4, h5, _⟩ := afterSend_facts c { s with lastSynced := t }
    refine ⟨h1, h2, h3, h4, h5, ?_⟩
    rw [afterSend_pc]

/-! ## the force flag (`storage_force_snapshot_interval`) through the pieces -/

theorem appCommit_force (s : St) (ops : List AppOp) : (appCommit s ops).forceArmed = s.forceArmed := by
  unfold appCommit
  cases appTxn s.env ops <;> rfl

theorem loadDone_force (s : St) (t : Nat) (lc : Bool) (inst : InstId) (ts : Nat) :
    (loadDone s t lc inst ts).forceArmed = s.forceArmed := by
  unfold loadDone
  cases lc <;> rfl

theorem pollOut_force {c : LoopCfg} {b : Bucket} {s : St} {i : In} {n : Nat} {s' : St}
    (h : PollOut c b s i n s') : s'.forceArmed = s.forceArmed := by
  cases h <;> rfl

theorem sendOut_force {c : LoopCfg} {s : St} {who : Caller} {now : Nat} {s' : St}
    (h : SendOut c s who now s') : s'.forceArmed = s.forceArmed := by
  cases h <;> rfl

theorem afterSend_force (c : LoopCfg) (s : St) : (afterSend c s).forceArmed = s.forceArmed := by
  unfold afterSend
  split <;> rfl

theorem sendReturned_force (c : LoopCfg) (s : St) (who : Caller) (t : Nat) :
    (sendReturned c s who t).forceArmed = s.forceArmed := by
  unfold sendReturned
  cases who
  · rfl
  · exact afterSend_force c _

theorem relist_force (s : St) (b : Bucket) : (relist s b).forceArmed = s.forceArmed := by
  unfold relist
  split <;> rfl

/-- the start-up part of `goRaw` (pc = boot), outcome by outcome -/
inductive BootOut (c : LoopCfg) (b : Bucket) (s : St) (i : In) : St → Prop where
  | captureFailed (e : Txn.Err) (s0 : St) :
      s0.env = s.env → s0.lastSynced = 0 → s0.waiting = instancesOf b →
      BootOut c b s i { s0 with pc := .exited (.err e.cls) }
  | noSend (s0 : St) :
      s0.lastSynced = 0 → s0.waiting = instancesOf b → s0.hasDataAtStart = decide (s.env.lastTxn > 0) →
      (s0.env.lastTxn = s.env.lastTxn ∨ s0.env.lastTxn = s.env.lastTxn + 1) →
      (s.env.lastTxn = 0 → s0.env = s.env) → (c.txn.native = true → s0.env = s.env) →
      ¬ (s.env.lastTxn > 0 ∧ b.isEmpty = true) →
      BootOut c b s i { s0 with pc := .top }
  | send (s0 : St) :
      s0.lastSynced = 0 → s0.waiting = [] → s0.hasDataAtStart = true →
      (s0.env.lastTxn = s.env.lastTxn ∨ s0.env.lastTxn = s.env.lastTxn + 1) →
      (c.txn.native = true → s0.env = s.env) →
      s.env.lastTxn > 0 → b = [] →
      BootOut c b s i (beginSend c s0 .initial i.now)

theorem goRaw_boot {c : LoopCfg} {b : Bucket} {s : St} {i : In} (h : s.pc = .boot) :
    (goRaw c b s i).2 = b ∧ BootOut c b s i (goRaw c b s i).1 := by
  unfold goRaw; rw [h]
  simp only
  generalize hr : (if s.env.lastTxn > 0 ∧ ¬ c.txn.native = true then
      (mainToShadow c.txn { dbis := s.env.dbis, dirty := false } (s.env.lastTxn + 1) 1 0).map (commit s.env)
      else Except.ok s.env) = r
  cases r with
  | error e =>
    refine ⟨rfl, ?_⟩
    exact BootOut.captureFailed (c := c) (b := b) (s := s) (i := i) e
      { s with hasDataAtStart := decide (s.env.lastTxn > 0), lastSynced := 0, seen := instancesOf b,
               waiting := instancesOf b } rfl rfl rfl
  | ok env =>
    simp only
    have henv : (env.lastTxn = s.env.lastTxn ∨ env.lastTxn = s.env.lastTxn + 1) ∧
        (s.env.lastTxn = 0 → env = s.env) ∧ (c.txn.native = true → env = s.env) := by
      split at hr
      · rename_i hc
        cases hm : mainToShadow c.txn { dbis := s.env.dbis, dirty := false } (s.env.lastTxn + 1) 1 0 with
        | error e => rw [hm] at hr; cases hr
        | ok w =>
          rw [hm] at hr
          injection hr with hr
          subst hr
          exact ⟨commit_lastTxn _ _, fun h0 => by omega, fun hn => absurd hn hc.2⟩
      · injection hr with hr; subst hr
        exact ⟨Or.inl rfl, fun _ => rfl, fun _ => rfl⟩
    by_cases hs : s.env.lastTxn > 0 ∧ b.isEmpty = true
    · rw [if_pos (by simpa using hs)]
      refine ⟨rfl, ?_⟩
      have hb : b = [] := List.isEmpty_iff.mp hs.2
      refine BootOut.send (c := c) (b := b) (s := s) (i := i)
        { s with hasDataAtStart := decide (s.env.lastTxn > 0), lastSynced := 0,
                 seen := instancesOf b, waiting := instancesOf b, env := env } rfl ?_ ?_ henv.1 henv.2.2 hs.1 hb
      · simp [hb, instancesOf]
      · simp [hs.1]
    · rw [if_neg (by simpa using hs)]
      refine ⟨rfl, ?_⟩
      exact BootOut.noSend (c := c) (b := b) (s := s) (i := i)
        { s with hasDataAtStart := decide (s.env.lastTxn > 0), lastSynced := 0,
                 seen := instancesOf b, waiting := instancesOf b, env := env }
        rfl rfl rfl henv.1 henv.2.1 henv.2.2 hs

/-! ## `go` never arms the force flag -/

theorem beginSend_force (c : LoopCfg) (s : St) (who : Caller) (now : Nat) :
    (beginSend c s who now).forceArmed = s.forceArmed :=
  sendOut_force (beginSend_out c s who now)

theorem poll_force (c : LoopCfg) (b : Bucket) (s : St) (i : In) (n : Nat) :
    (poll c b s i n).forceArmed = s.forceArmed :=
  pollOut_force (poll_out c b s i n)

/-- **a segment leaves the force flag alone, except that the segment after a successful store
    (`sendStored`) clears it** -/
theorem goRaw_force (c : LoopCfg) (b : Bucket) (s : St) (i : In) :
    (goRaw c b s i).1.forceArmed =
      match s.pc with
      | .sendStored .. => false
      | _ => s.forceArmed := by
  cases hpc : s.pc with
  | boot =>
    unfold goRaw; rw [hpc]
    simp only
    split
    · rfl
    · split
      · exact beginSend_force c _ .initial i.now
      · rfl
  | top => rw [goRaw_top hpc]; exact poll_force c b s i 0
  | loadAfterTxn t lc inst ts n =>
    rw [goRaw_loadAfterTxn hpc]
    split
    · exact loadDone_force s t lc inst ts
    · exact (poll_force c b _ i n).trans (loadDone_force s t lc inst ts)
  | beforeInfo =>
    rw [goRaw_beforeInfo hpc]
    split
    · split
      · exact afterSend_force c s
      · split
        · rfl
        · exact afterSend_force c _
    · exact afterSend_force c s
  | beforeSend => rw [goRaw_beforeSend hpc]; exact beginSend_force c s .loop i.now
  | sendAfterTxn who t ts snap =>
    rw [goRaw_sendAfterTxn hpc]
    split
    · exact sendReturned_force c s who _
    · split <;> rfl
  | sendStored who t => rw [goRaw_sendStored hpc]; exact sendReturned_force c _ who t
  | sleep => rw [goRaw_sleep hpc]
  | exited e => rw [goRaw_exited hpc]

theorem go_force (c : LoopCfg) (b : Bucket) (s : St) (i : In) :
    (go c b s i).1.forceArmed =
      match s.pc with
      | .sendStored .. => false
      | _ => s.forceArmed := by
  rw [go_eq]
  exact (relist_force _ _).trans (goRaw_force c b s i)

/-- `go` never arms: an unarmed state stays unarmed -/
theorem go_unarmed {c : LoopCfg} {b : Bucket} {s : St} {i : In} (h : s.forceArmed = false) :
    (go c b s i).1.forceArmed = false := by
  rw [go_force]
  split
  · rfl
  · exact h

theorem goRaw_unarmed {c : LoopCfg} {b : Bucket} {s : St} {i : In} (h : s.forceArmed = false) :
    (goRaw c b s i).1.forceArmed = false := by
  rw [goRaw_force]
  split
  · rfl
  · exact h

end Ls.Loop
