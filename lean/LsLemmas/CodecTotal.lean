import LsLemmas.CodecRefine
/-
  Totality: on every input the decoders (as functions of the remaining input) return a result or
  an error — no panic, and the fuel `len + 1` of every loop is never exhausted, because every
  iteration consumes at least one byte (`Adv`).
-/
namespace Ls.CodecS
open Ls Ls.Wire Ls.Codec

theorem safe_of_eq_panic {α : Type} {o : Outcome α} (hs : o.Safe) (h : o = .panic) : False := by
  rw [h] at hs; exact hs
theorem safe_of_eq_hang {α : Type} {o : Outcome α} (hs : o.Safe) (h : o = .hang) : False := by
  rw [h] at hs; exact hs

theorem safe_omap {α β : Type} (f : α → β) (o : Outcome α) (h : o.Safe) : (omap f o).Safe := by
  cases o <;> simp_all [omap, Outcome.Safe]

theorem skipS_safe (p : Bytes) (wt : Nat) : (skipS p wt).Safe := by
  unfold skipS
  split
  · refine safe_bind (decodeVarint_safe p) ?_
    intro a _; simp
  split
  · refine safe_bind (decodeVarint_safe p) ?_
    intro a _; try dsimp only; split <;> simp
  split
  · split <;> simp
  split
  · split <;> simp
  · simp

theorem kvStepS_safe (p : Bytes) (kv : KV) : (kvStepS p kv).Safe := by
  unfold kvStepS
  refine safe_bind (decodeVarint_safe p) ?_
  intro a _
  try dsimp only
  split
  · split
    · simp
    · refine safe_bind (decodeVarint_safe _) ?_
      intro b _; try dsimp only
      split
      · simp
      · split <;> simp
  split
  · split
    · simp
    · refine safe_bind (decodeVarint_safe _) ?_
      intro b _; simp
  split
  · split
    · simp
    · split <;> simp
  · refine safe_bind (skipS_safe _ _) ?_
    intro b _; simp

theorem kvLoopS_safe : ∀ (fuel : Nat) (p : Bytes) (kv : KV), p.length < fuel → (kvLoopS fuel p kv).Safe := by
  intro fuel
  induction fuel with
  | zero => intro p kv h; omega
  | succ fuel ih =>
    intro p kv h
    unfold kvLoopS
    rcases hs : kvStepS p kv with ⟨kv', rest⟩ | e | _ | _
    · dsimp only
      split
      · simp
      · have := adv_length (kvStepS_adv _ _ _ _ hs)
        exact ih _ _ (by omega)
    · simp
    · exact (safe_of_eq_panic (kvStepS_safe p kv) hs).elim
    · exact (safe_of_eq_hang (kvStepS_safe p kv) hs).elim

theorem kvUnmarshalS_safe (data : Bytes) : (kvUnmarshalS data).Safe :=
  kvLoopS_safe _ _ _ (Nat.lt_succ_self _)

theorem idxStepS_safe (p : Bytes) (h : DBIHdr) : (idxStepS p h).Safe := by
  unfold idxStepS
  refine safe_bind (decodeVarint_safe p) ?_
  intro a _
  try dsimp only
  split
  · split
    · simp
    · refine safe_bind (decodeVarint_safe _) ?_
      intro b _; try dsimp only
      split
      · simp
      · split
        · simp
        · split <;> simp
  split
  · split
    · simp
    · refine safe_bind (decodeVarint_safe _) ?_
      intro b _; simp
  · refine safe_bind (skipS_safe _ _) ?_
    intro b _; simp

theorem idxLoopS_safe : ∀ (fuel : Nat) (p : Bytes) (h : DBIHdr), p.length < fuel → (idxLoopS fuel p h).Safe := by
  intro fuel
  induction fuel with
  | zero => intro p h hl; omega
  | succ fuel ih =>
    intro p h hl
    unfold idxLoopS
    split
    · simp
    · rcases hs : idxStepS p h with ⟨h', rest⟩ | e | _ | _
      · have := adv_length (idxStepS_adv _ _ _ _ hs)
        exact ih _ _ (by omega)
      · simp
      · exact (safe_of_eq_panic (idxStepS_safe p h) hs).elim
      · exact (safe_of_eq_hang (idxStepS_safe p h) hs).elim

theorem indexDataS_safe (data : Bytes) : (indexDataS data).Safe :=
  idxLoopS_safe _ _ _ (Nat.lt_succ_self _)

theorem nextS_safe : ∀ (fuel : Nat) (p : Bytes), p.length < fuel → (nextS fuel p).Safe := by
  intro fuel
  induction fuel with
  | zero => intro p hl; omega
  | succ fuel ih =>
    intro p hl
    unfold nextS
    split
    · simp
    · rcases hd : decodeVarint p with ⟨v, n⟩ | e | _ | _
      rotate_left
      · simp
      · exact (safe_of_eq_panic (decodeVarint_safe p) hd).elim
      · exact (safe_of_eq_hang (decodeVarint_safe p) hd).elim
      obtain ⟨h1, h2, h3, h4⟩ := decodeVarint_bounds _ v n hd
      try dsimp only
      split
      · rcases hsk : skipS (p.drop n) (v % 8) with r | e | _ | _
        · have := adv_length (adv_trans_drop n h2 (skipS_adv _ _ _ hsk))
          exact ih _ (by omega)
        · simp
        · exact (safe_of_eq_panic (skipS_safe _ _) hsk).elim
        · exact (safe_of_eq_hang (skipS_safe _ _) hsk).elim
      · split
        · simp
        · rcases hd2 : decodeVarint (p.drop n) with ⟨v2, n2⟩ | e | _ | _
          rotate_left
          · simp
          · exact (safe_of_eq_panic (decodeVarint_safe _) hd2).elim
          · exact (safe_of_eq_hang (decodeVarint_safe _) hd2).elim
          try dsimp only
          split
          · simp
          · rcases hkv : kvUnmarshalS (List.take v2 (List.drop n2 (List.drop n p))) with kv | e | _ | _
            · simp
            · simp
            · exact (safe_of_eq_panic (kvUnmarshalS_safe _) hkv).elim
            · exact (safe_of_eq_hang (kvUnmarshalS_safe _) hkv).elim

theorem iterS_safe (n : Nat) : ∀ (fuel : Nat) (p : Bytes) (acc : List KV), p.length < n → p.length < fuel →
    (iterS n fuel p acc).2.Safe := by
  intro fuel
  induction fuel with
  | zero => intro p acc _ h; omega
  | succ fuel ih =>
    intro p acc hn hl
    unfold iterS
    rcases hx : nextS n p with r | e | _ | _
    · cases r with
      | none => simp
      | some x =>
        obtain ⟨kv, rest⟩ := x
        have := adv_length (nextS_adv _ _ _ _ hx)
        exact ih _ _ (by omega) (by omega)
    · simp
    · exact (safe_of_eq_panic (nextS_safe n p hn) hx).elim
    · exact (safe_of_eq_hang (nextS_safe n p hn) hx).elim

theorem dbiEntriesS_safe (data : Bytes) : (dbiEntriesS data).Safe := by
  unfold dbiEntriesS
  have := iterS_safe (data.length + 1) (data.length + 1) data [] (Nat.lt_succ_self _) (Nat.lt_succ_self _)
  rcases hi : iterS (data.length + 1) (data.length + 1) data [] with ⟨l, o⟩
  rw [hi] at this
  cases o <;> simp_all

theorem decTagS_safe (p : Bytes) : (decTagS p).Safe := by
  unfold decTagS
  split
  · simp
  · refine safe_bind (decodeVarint_safe p) ?_
    intro a _; try dsimp only; split <;> simp

theorem decVarintS_safe (p : Bytes) : (decVarintS p).Safe := by
  unfold decVarintS
  split
  · simp
  · refine safe_bind (decodeVarint_safe p) ?_
    intro a _; try dsimp only; split <;> simp

theorem getUInt32S_safe (p : Bytes) (wt : Nat) : (getUInt32S p wt).Safe := by
  unfold getUInt32S
  split
  · simp
  · refine safe_bind (decVarintS_safe p) ?_
    intro a _; try dsimp only; split <;> simp

theorem getInt64S_safe (p : Bytes) (wt : Nat) : (getInt64S p wt).Safe := by
  unfold getInt64S
  split
  · simp
  · refine safe_bind (decVarintS_safe p) ?_
    intro a _; simp

theorem getFixed64S_safe (p : Bytes) (wt : Nat) : (getFixed64S p wt).Safe := by
  unfold getFixed64S
  split
  · simp
  · split
    · simp
    · split <;> simp

theorem getBytesS_safe (p : Bytes) (maxLen wt : Nat) : (getBytesS p maxLen wt).Safe := by
  unfold getBytesS
  split
  · simp
  · split
    · simp
    · refine safe_bind (decodeVarint_safe p) ?_
      intro a _; try dsimp only
      split
      · simp
      · split
        · simp
        · split <;> simp

theorem decSkipS_safe (p : Bytes) (maxLen wt : Nat) : (decSkipS p maxLen wt).Safe := by
  unfold decSkipS
  split
  · simp
  split
  · refine safe_bind (decodeVarint_safe p) ?_
    intro a _; try dsimp only; split <;> simp
  split
  · split <;> simp
  split
  · refine safe_bind (decodeVarint_safe p) ?_
    intro a _; try dsimp only
    split
    · simp
    · split
      · simp
      · split <;> simp
  split
  · split <;> simp
  · simp

theorem metaStepS_safe (p : Bytes) (m : Meta) : (metaStepS p m).Safe := by
  unfold metaStepS
  refine safe_bind (decTagS_safe p) ?_
  intro a _
  try dsimp only
  split
  · exact safe_bind (getBytesS_safe _ _ _) (fun _ _ => by simp)
  split
  · exact safe_bind (getBytesS_safe _ _ _) (fun _ _ => by simp)
  split
  · exact safe_bind (getBytesS_safe _ _ _) (fun _ _ => by simp)
  split
  · exact safe_bind (getInt64S_safe _ _) (fun _ _ => by simp)
  split
  · exact safe_bind (getFixed64S_safe _ _) (fun _ _ => by simp)
  split
  · exact safe_bind (getBytesS_safe _ _ _) (fun _ _ => by simp)
  split
  · exact safe_bind (getInt64S_safe _ _) (fun _ _ => by simp)
  · exact safe_bind (decSkipS_safe _ _ _) (fun _ _ => by simp)

theorem metaLoopS_safe : ∀ (fuel : Nat) (p : Bytes) (m : Meta), p.length < fuel → (metaLoopS fuel p m).Safe := by
  intro fuel
  induction fuel with
  | zero => intro p h hl; omega
  | succ fuel ih =>
    intro p m hl
    unfold metaLoopS
    split
    · simp
    · rcases hs : metaStepS p m with ⟨m', rest⟩ | e | _ | _
      · have := adv_length (metaStepS_adv _ _ _ _ hs)
        exact ih _ _ (by omega)
      · simp
      · exact (safe_of_eq_panic (metaStepS_safe p m) hs).elim
      · exact (safe_of_eq_hang (metaStepS_safe p m) hs).elim

theorem metaUnmarshalS_safe (data : Bytes) (m : Meta) : (metaUnmarshalS data m).Safe :=
  metaLoopS_safe _ _ _ (Nat.lt_succ_self _)

theorem snapStepS_safe (p : Bytes) (s : SnapRaw) : (snapStepS p s).Safe := by
  unfold snapStepS
  refine safe_bind (decTagS_safe p) ?_
  intro a _
  try dsimp only
  split
  · exact safe_bind (getUInt32S_safe _ _) (fun _ _ => by simp)
  split
  · exact safe_bind (getUInt32S_safe _ _) (fun _ _ => by simp)
  split
  · refine safe_bind (getBytesS_safe _ _ _) (fun _ _ => ?_)
    exact safe_bind (metaUnmarshalS_safe _ _) (fun _ _ => by simp)
  split
  · refine safe_bind (getBytesS_safe _ _ _) (fun _ _ => ?_)
    exact safe_bind (indexDataS_safe _) (fun _ _ => by simp)
  · exact safe_bind (decSkipS_safe _ _ _) (fun _ _ => by simp)

theorem snapLoopS_safe : ∀ (fuel : Nat) (p : Bytes) (s : SnapRaw), p.length < fuel → (snapLoopS fuel p s).Safe := by
  intro fuel
  induction fuel with
  | zero => intro p h hl; omega
  | succ fuel ih =>
    intro p s hl
    unfold snapLoopS
    split
    · simp
    · rcases hs : snapStepS p s with ⟨s', rest⟩ | e | _ | _
      · have := adv_length (snapStepS_adv _ _ _ _ hs)
        exact ih _ _ (by omega)
      · simp
      · exact (safe_of_eq_panic (snapStepS_safe p s) hs).elim
      · exact (safe_of_eq_hang (snapStepS_safe p s) hs).elim

theorem snapshotUnmarshalS_safe (data : Bytes) : (snapshotUnmarshalS data).Safe :=
  snapLoopS_safe _ _ _ (Nat.lt_succ_self _)

theorem dbisAllS_safe : ∀ (ds : List DBIRaw), (dbisAllS ds).Safe
  | [] => by simp [dbisAllS]
  | d :: ds => by
    unfold dbisAllS
    refine safe_bind (dbiEntriesS_safe _) (fun _ _ => ?_)
    exact safe_bind (dbisAllS_safe ds) (fun _ _ => by simp)

theorem decodeAllS_safe (b : Bytes) : (decodeAllS b).Safe := by
  unfold decodeAllS
  refine safe_bind (snapshotUnmarshalS_safe b) (fun _ _ => ?_)
  exact safe_bind (dbisAllS_safe _) (fun _ _ => by simp)

/-! ### the DBIs collected by Snapshot.Unmarshal are slices of the input -/

def DbsBound (L : Nat) (s : SnapRaw) : Prop := ∀ d ∈ s.dbs, d.data.length ≤ L

theorem snapStepS_dbs (L : Nat) (p : Bytes) (s s' : SnapRaw) (rest : Bytes) (hp : p.length ≤ L)
    (hb : DbsBound L s) (h : snapStepS p s = .ok (s', rest)) : DbsBound L s' := by
  unfold snapStepS at h
  rcases ht : decTagS p with ⟨tag, wt, p1⟩ | e | _ | _
  rotate_left
  · simp [ht] at h
  · simp [ht] at h
  · simp [ht] at h
  have hp1 := (adv_length (decTagS_adv _ _ _ _ ht)).2
  simp only [ht, bind_ok] at h
  split at h
  · rcases hg : getUInt32S p1 wt with ⟨v, r⟩ | e | _ | _ <;> simp [hg] at h
    obtain ⟨h, _⟩ := h; subst h; exact hb
  split at h
  · rcases hg : getUInt32S p1 wt with ⟨v, r⟩ | e | _ | _ <;> simp [hg] at h
    obtain ⟨h, _⟩ := h; subst h; exact hb
  split at h
  · rcases hg : getBytesS p1 snapshotMaxFieldLen wt with ⟨msg, r⟩ | e | _ | _ <;> simp [hg] at h
    rcases hm : metaUnmarshalS msg s.info with m | e | _ | _ <;> simp [hm] at h
    obtain ⟨h, _⟩ := h; subst h; exact hb
  split at h
  · rcases hg : getBytesS p1 snapshotMaxFieldLen wt with ⟨msg, r⟩ | e | _ | _ <;> simp [hg] at h
    rcases hm : indexDataS msg with m | e | _ | _ <;> simp [hm] at h
    obtain ⟨h, _⟩ := h; subst h
    have hml := (getBytesS_adv _ _ _ _ _ hg).2
    intro d hd
    simp only [List.mem_append, List.mem_singleton] at hd
    rcases hd with hd | hd
    · exact hb d hd
    · subst hd; simp; omega
  · rcases hg : decSkipS p1 snapshotMaxFieldLen wt with r | e | _ | _ <;> simp [hg] at h
    obtain ⟨h, _⟩ := h; subst h; exact hb

theorem snapLoopS_dbs (L : Nat) : ∀ (fuel : Nat) (p : Bytes) (s s' : SnapRaw), p.length ≤ L →
    DbsBound L s → snapLoopS fuel p s = .ok s' → DbsBound L s' := by
  intro fuel
  induction fuel with
  | zero => intro p s s' _ _ h; simp [snapLoopS] at h
  | succ fuel ih =>
    intro p s s' hp hb h
    unfold snapLoopS at h
    split at h
    · injection h with h; subst h; exact hb
    · rcases hs : snapStepS p s with ⟨s1, rest⟩ | e | _ | _ <;> simp [hs] at h
      have := adv_length (snapStepS_adv _ _ _ _ hs)
      exact ih rest s1 s' (by omega) (snapStepS_dbs L p s s1 rest hp hb hs) h

theorem dbisAll_eq : ∀ (ds : List DBIRaw), (∀ d ∈ ds, d.data.length < two63) → dbisAll ds = dbisAllS ds
  | [], _ => rfl
  | d :: ds, h => by
    unfold dbisAll dbisAllS
    rw [dbiEntries_eq d.data (h d (by simp)), dbisAll_eq ds (fun d' hd' => h d' (by simp [hd']))]

/-- the offset-level model of loading a snapshot is the function of the remaining input -/
theorem decodeAll_eq (b : Bytes) (h63 : b.length < two63) : decodeAll b = decodeAllS b := by
  unfold decodeAll decodeAllS
  rw [snapshotUnmarshal_eq b h63]
  rcases hs : snapshotUnmarshalS b with s | e | _ | _
  rotate_left
  · rfl
  · rfl
  · rfl
  have hb : DbsBound b.length s := by
    unfold snapshotUnmarshalS at hs
    exact snapLoopS_dbs b.length _ b snapZero s (Nat.le_refl _) (by intro d hd; simp [snapZero] at hd) hs
  simp only [bind_ok]
  rw [dbisAll_eq s.dbs (fun d hd => by have := hb d hd; omega)]

end Ls.CodecS
