import LsLemmas.LoopAbs
import LsLemmas.CleanerHist
/-
  The product fleet of native-mode sync loops (LsLemmas/LoopAbs.lean) extended with the real
  cleaner model (LsModel/Cleaner.lean): a cleaner run of instance `k` lists the names of the
  shared bucket, is told `St.committed` of its loop, and what it deletes leaves the bucket.
  Helper lemmas of LsProps/C05Fleet.lean: what a cleaner run deletes, the invariants of the
  extended fleet, and the monotonicity of the join over the newest blobs (`bucketJoin`).
-/
set_option linter.unusedSimpArgs false
namespace Ls.Abs
open Ls

/-! ## 0. the join of a list of abstract databases -/

def joinList (l : List DB) : DB := l.foldl DB.join DB.empty

theorem fold_join_wf {l : List DB} : ∀ {acc : DB}, acc.WF → (∀ x ∈ l, x.WF) → (l.foldl DB.join acc).WF := by
  induction l with
  | nil => intro acc h _; exact h
  | cons y ys ih =>
    intro acc h hl
    exact ih (join_wf' h (hl y (List.mem_cons_self ..))) (fun x hx => hl x (List.mem_cons_of_mem _ hx))

theorem acc_le_fold_join {l : List DB} : ∀ {acc : DB}, acc.WF → (∀ x ∈ l, x.WF) →
    acc.le (l.foldl DB.join acc) := by
  induction l with
  | nil => intro acc _ _; exact le_refl acc
  | cons y ys ih =>
    intro acc h hl
    have hy := hl y (List.mem_cons_self ..)
    have hys : ∀ x ∈ ys, x.WF := fun x hx => hl x (List.mem_cons_of_mem _ hx)
    exact le_trans h (join_wf' h hy) (fold_join_wf (acc := acc.join y) (join_wf' h hy) hys) (le_join_left h hy)
      (ih (join_wf' h hy) hys)

theorem mem_le_fold_join {l : List DB} : ∀ {acc : DB}, acc.WF → (∀ x ∈ l, x.WF) → ∀ x ∈ l,
    x.le (l.foldl DB.join acc) := by
  induction l with
  | nil => intro _ _ _ x hx; cases hx
  | cons y ys ih =>
    intro acc h hl x hx
    have hy := hl y (List.mem_cons_self ..)
    have hys : ∀ x ∈ ys, x.WF := fun x hx => hl x (List.mem_cons_of_mem _ hx)
    rcases List.mem_cons.mp hx with hxy | hx
    · subst hxy
      exact le_trans hy (join_wf' h hy) (fold_join_wf (acc := acc.join x) (join_wf' h hy) hys)
        (le_join_right h hy) (acc_le_fold_join (join_wf' h hy) hys)
    · exact ih (join_wf' h hy) hys x hx

theorem fold_join_le {l : List DB} {D : DB} (hD : D.WF) : ∀ {acc : DB}, acc.WF → (∀ x ∈ l, x.WF) →
    acc.le D → (∀ x ∈ l, x.le D) → (l.foldl DB.join acc).le D := by
  induction l with
  | nil => intro acc _ _ h _; exact h
  | cons y ys ih =>
    intro acc h hl ha hle
    have hy := hl y (List.mem_cons_self ..)
    exact ih (join_wf' h hy) (fun x hx => hl x (List.mem_cons_of_mem _ hx))
      (join_le h hy hD ha (hle y (List.mem_cons_self ..))) (fun x hx => hle x (List.mem_cons_of_mem _ hx))

theorem joinList_wf {l : List DB} (h : ∀ x ∈ l, x.WF) : (joinList l).WF :=
  fold_join_wf empty_wf h

theorem le_joinList {l : List DB} (h : ∀ x ∈ l, x.WF) {x : DB} (hx : x ∈ l) : x.le (joinList l) :=
  mem_le_fold_join empty_wf h x hx

theorem joinList_le {l : List DB} {D : DB} (h : ∀ x ∈ l, x.WF) (hD : D.WF) (hle : ∀ x ∈ l, x.le D) :
    (joinList l).le D :=
  fold_join_le hD empty_wf h (fun k => join_none_left (D k)) hle

end Ls.Abs

namespace Ls.Loop
open Ls Ls.Lmdb Ls.Txn Ls.SyncLoop

/-! ## 1. the newest blobs of a bucket and their join -/

/-- the logical content of a blob -/
def blobDB (x : Blob) : Abs.DB := absSnap x.snap

/-- `x` is the newest blob of its instance in `B` (no blob of the instance has a larger timestamp) -/
def isNewest (B : Bucket) (x : Blob) : Bool := B.all fun y => y.inst != x.inst || decide (y.ts ≤ x.ts)

theorem isNewest_iff {B : Bucket} {x : Blob} :
    isNewest B x = true ↔ ∀ y ∈ B, y.inst = x.inst → y.ts ≤ x.ts := by
  unfold isNewest
  rw [List.all_eq_true]
  constructor
  · intro h y hy hi
    have := h y hy
    simp only [Bool.or_eq_true, bne_iff_ne, ne_eq, decide_eq_true_eq] at this
    rcases this with h1 | h1
    · exact absurd hi h1
    · exact h1
  · intro h y hy
    simp only [Bool.or_eq_true, bne_iff_ne, ne_eq, decide_eq_true_eq]
    by_cases hi : y.inst = x.inst
    · exact Or.inr (h y hy hi)
    · exact Or.inl hi

/-- the newest blob of every instance that has a blob in the bucket -/
def newestBlobs (B : Bucket) : List Blob := B.filter (isNewest B)

/-- **the join over the newest snapshots**: the last-writer-wins join, over all instances with a
    blob in the bucket, of the logical content of the instance's newest blob -/
def bucketJoin (B : Bucket) : Abs.DB := Abs.joinList ((newestBlobs B).map blobDB)

theorem blobDB_wf (x : Blob) : (blobDB x).WF := absSnap_wf x.snap

theorem bucketJoin_wf (B : Bucket) : (bucketJoin B).WF :=
  Abs.joinList_wf (fun d hd => by obtain ⟨x, _, rfl⟩ := List.mem_map.mp hd; exact blobDB_wf x)

/-- a newest blob's content is below the join -/
theorem le_bucketJoin {B : Bucket} {x : Blob} (hx : x ∈ B) (hn : isNewest B x = true) :
    (blobDB x).le (bucketJoin B) :=
  Abs.le_joinList (fun d hd => by obtain ⟨y, _, rfl⟩ := List.mem_map.mp hd; exact blobDB_wf y)
    (List.mem_map_of_mem (List.mem_filter.mpr ⟨hx, hn⟩))

/-- **the join over the newest snapshots does not decrease** from `B` to `B'` if every newest blob
    of `B` is dominated by some newest blob of `B'` (a witness) -/
theorem bucketJoin_le_of_witness {B B' : Bucket}
    (h : ∀ x ∈ B, isNewest B x = true → ∃ w ∈ B', isNewest B' w = true ∧ (blobDB x).le (blobDB w)) :
    (bucketJoin B).le (bucketJoin B') := by
  refine Abs.joinList_le (fun d hd => by obtain ⟨y, _, rfl⟩ := List.mem_map.mp hd; exact blobDB_wf y)
    (bucketJoin_wf B') ?_
  intro d hd
  obtain ⟨x, hx, rfl⟩ := List.mem_map.mp hd
  obtain ⟨hxB, hxn⟩ := List.mem_filter.mp hx
  obtain ⟨w, hw, hwn, hle⟩ := h x hxB hxn
  exact Abs.le_trans (blobDB_wf x) (blobDB_wf w) (bucketJoin_wf B') hle (le_bucketJoin hw hwn)

/-! ## 2. the extended fleet: sync loops and their cleaners over one bucket -/

/-- how blobs are named in the store and how the cleaner parses the names back (`ParseName`):
    parsing a blob's name yields a snapshot of its instance with its timestamp -/
structure Naming where
  nm : InstId → Nat → String
  parse : Cleaner.Parse
  law : ∀ a t, parse (nm a t) = some { kind := Gen.kindSnapshot, inst := a, ts := (t : Int) }

def Naming.nameOf (N : Naming) (x : Blob) : String := N.nm x.inst x.ts

theorem Naming.inj (N : Naming) {a b : InstId} {t u : Nat} (h : N.nm a t = N.nm b u) : a = b ∧ t = u := by
  have h1 := N.law a t
  rw [h, N.law b u] at h1
  injection h1 with h1
  injection h1 with _ h2 h3
  exact ⟨h2.symm, by omega⟩

/-- the extended fleet: the loop fleet (every `G` carries its view of the one bucket), the
    cleaners' own states, and the ghost history of every blob ever stored, in storage order -/
structure XF where
  F : Fleet
  cl : Nat → Cleaner.St
  ever : List Blob

inductive XEv where
  | loop (ke : Nat × Ev)
  | clean (k : Nat) (now : Nat)

/-- the state instance `k`'s cleaner runs with: its own bookkeeping, and as `lastByInstance` what
    the selector `sel` reads off the loop's state — `St.committed` in the real system -/
def cleanerSt (sel : SyncLoop.St → List (InstId × Nat)) (X : XF) (k : Nat) : Cleaner.St :=
  { X.cl k with committed := (sel (X.F k).st).map fun p => (p.1, (p.2 : Int)) }

/-- one `Worker.RunOnce` of instance `k`'s cleaner on the names of the shared bucket (every
    `Delete` succeeds) -/
def cleanRun (N : Naming) (ccfg : Nat → Cleaner.Cfg) (sel : SyncLoop.St → List (InstId × Nat))
    (X : XF) (k now : Nat) : Cleaner.St × Cleaner.Out :=
  Cleaner.runOnce N.parse (ccfg k) (cleanerSt sel X k) (now : Int)
    (some ((X.F k).bucket.map N.nameOf)) (fun _ => false)

/-- was the blob deleted by the run? -/
def dead (N : Naming) (out : Cleaner.Out) (x : Blob) : Bool := decide (N.nameOf x ∈ out.deleted)

/-- one event of the extended fleet: an event of the loop fleet (what is stored is also recorded
    in the ghost history), or a cleaner run, after which the deleted blobs are gone from the one
    bucket every instance sees -/
def xstep (N : Naming) (cs : Nat → LoopCfg) (ccfg : Nat → Cleaner.Cfg)
    (sel : SyncLoop.St → List (InstId × Nat)) (X : XF) : XEv → XF
  | .loop ke =>
    { X with F := fleetStep cs X.F ke, ever := X.ever ++ delta (cs ke.1) (X.F ke.1) ke.2 }
  | .clean k now =>
    let r := cleanRun N ccfg sel X k now
    { F := fun j => { X.F j with bucket := (X.F j).bucket.filter fun x => !dead N r.2 x },
      cl := fun j => if j = k then r.1 else X.cl j,
      ever := X.ever }

def xrun (N : Naming) (cs : Nat → LoopCfg) (ccfg : Nat → Cleaner.Cfg)
    (sel : SyncLoop.St → List (InstId × Nat)) (X : XF) (evs : List XEv) : XF :=
  evs.foldl (xstep N cs ccfg sel) X

/-- the one bucket (as instance 0 sees it; all instances see the same, `XInv.shared`) -/
def XF.bucket (X : XF) : Bucket := (X.F 0).bucket

/-! ## 3. what one cleaner run deletes -/

/-- in the bucket, two different blobs of one instance carry different timestamps -/
def DistinctTs (B : Bucket) : Prop := B.Pairwise fun x y => x.inst = y.inst → x.ts ≠ y.ts

/-- the cleaner's first-seen times respect the timestamp order of the blobs of one instance -/
def FsOrdered (N : Naming) (fs : List (String × Int)) (B : Bucket) : Prop :=
  ∀ e ∈ B, ∀ c ∈ B, e.inst = c.inst → e.ts < c.ts → ∀ t u,
    Cleaner.look (N.nameOf e) fs = some t → Cleaner.look (N.nameOf c) fs = some u → t ≤ u

theorem distinctTimes_of (N : Naming) {B : Bucket} (h : DistinctTs B) :
    Cleaner.DistinctTimes N.parse (B.map N.nameOf) := by
  unfold Cleaner.DistinctTimes
  rw [List.pairwise_map]
  refine h.imp ?_
  intro x y hxy i j hi hj hij
  have h1 := hi.1; have h2 := hj.1
  unfold Naming.nameOf at h1 h2
  rw [N.law] at h1 h2
  injection h1 with h1; injection h2 with h2
  subst h1 h2
  simp only at hij ⊢
  intro he
  exact hxy hij (by omega)

/-- the candidates of a run on the bucket's names are the bucket's blobs -/
theorem mem_candidates_bucket (N : Naming) {st : Cleaner.St} (hig : ∀ n ∈ st.ignored, N.parse n = none)
    {B : Bucket} {c : Cleaner.Cand} :
    c ∈ Cleaner.candidates N.parse st (B.map N.nameOf) ↔
      ∃ x ∈ B, c = { name := N.nameOf x, inst := x.inst, ts := (x.ts : Int) } := by
  rw [Cleaner.mem_candidates]
  constructor
  · rintro ⟨hn, _, i, hp, _, hi, ht⟩
    obtain ⟨x, hx, hxe⟩ := List.mem_map.mp hn
    refine ⟨x, hx, ?_⟩
    rw [← hxe] at hp
    unfold Naming.nameOf at hp
    rw [N.law] at hp
    injection hp with hp
    subst hp
    cases c
    simp_all [Naming.nameOf]
  · rintro ⟨x, hx, rfl⟩
    refine ⟨List.mem_map_of_mem hx, ?_, _, N.law x.inst x.ts, rfl, rfl, rfl⟩
    intro hin
    have := hig _ hin
    unfold Naming.nameOf at this
    rw [N.law] at this; cases this

/-- **what a cleaner run deletes.** Let the cleaner's ignore list hold only unparsable names, the
    blobs of one instance in the bucket carry distinct timestamps, and the cleaner's first-seen
    times respect the timestamp order per instance. Then every blob the run passes to `Delete`
    is a blob of the bucket that is NOT the newest of its instance, or one whose timestamp is at
    most the time the cleaner was told (`lastByInstance`, here `committed`) for its instance. -/
theorem clean_deletes_guarded (N : Naming) (cfg : Cleaner.Cfg) (st : Cleaner.St) (now : Int) (B : Bucket)
    (hig : ∀ n ∈ st.ignored, N.parse n = none) (hdist : DistinctTs B)
    (hord : FsOrdered N st.firstSeen B) (x : Blob)
    (hdel : N.nameOf x ∈ (Cleaner.runOnce N.parse cfg st now (some (B.map N.nameOf)) (fun _ => false)).2.delCalls) :
    (∃ y ∈ B, y.inst = x.inst ∧ x.ts < y.ts) ∨
    (∃ T, Cleaner.look x.inst st.committed = some T ∧ (x.ts : Int) ≤ T) := by
  by_cases hnew : ∃ y ∈ B, y.inst = x.inst ∧ x.ts < y.ts
  · exact Or.inl hnew
  · right
    obtain ⟨_, names, hl, c, hc, hcn⟩ := Cleaner.mem_delCalls hdel
    cases hl
    have hcs := Cleaner.toDelete_sub hc
    obtain ⟨y, hy, hcy⟩ := (mem_candidates_bucket N hig).mp hcs
    have hyx : y.inst = x.inst ∧ y.ts = x.ts := by
      rw [hcy] at hcn
      exact N.inj hcn
    have hdt := distinctTimes_of N hdist
    have hres := Cleaner.toDelete_newest (Cleaner.candidates_nodup hdt) (Cleaner.candidates_distinct hdt) hc
      (by
        intro e he hne hinst
        obtain ⟨z, hz, hez⟩ := (mem_candidates_bucket N hig).mp he
        rw [hez, hcy] at hne hinst ⊢
        simp only at hne hinst ⊢
        have hzi : z.inst = x.inst := by rw [hinst]; exact hyx.1
        have hle : ¬ x.ts < z.ts := fun hlt => hnew ⟨z, hz, hzi, hlt⟩
        have hne' : z.ts ≠ y.ts := by
          intro he'
          apply hne
          unfold Naming.nameOf
          rw [hinst, he']
        rw [hyx.2] at hne' ⊢
        omega)
      (by
        intro e he hinst hlt t u ht hu
        obtain ⟨z, hz, hez⟩ := (mem_candidates_bucket N hig).mp he
        rw [hez] at hinst hlt ht
        rw [hcy] at hinst hlt hu
        simp only at hinst hlt ht hu
        exact hord z hz y hy hinst (by omega) t u ht hu)
    have hp := hres.2
    unfold Cleaner.provenMerged at hp
    rw [hcy] at hp
    simp only at hp
    rw [hyx.1] at hp
    cases hlk : Cleaner.look x.inst st.committed with
    | none => rw [hlk] at hp; cases hp
    | some T =>
      rw [hlk] at hp
      refine ⟨T, rfl, ?_⟩
      have : (y.ts : Int) ≤ T := by simpa using hp
      rw [hyx.2] at this; exact this

/-! ## 4. the loop's bookkeeping (`lastBy`, `committed`) along one segment -/

/-- the fields of the state this file tracks besides the environment -/
structure Books (s s' : St) : Prop where
  lastBy : s'.lastBy = s.lastBy
  committed : s'.committed = s.committed

theorem Books.refl (s : St) : Books s s := ⟨rfl, rfl⟩
theorem Books.trans {a b c : St} (h1 : Books a b) (h2 : Books b c) : Books a c :=
  ⟨h2.lastBy.trans h1.lastBy, h2.committed.trans h1.committed⟩

def notStoredPc (pc : Pc) : Prop := ∀ who t, pc ≠ .sendStored who t

theorem afterSend_books (c : LoopCfg) (s : St) : Books s (afterSend c s) ∧ notStoredPc (afterSend c s).pc := by
  unfold afterSend
  split
  · exact ⟨⟨rfl, rfl⟩, fun _ _ => by simp⟩
  · exact ⟨⟨rfl, rfl⟩, fun _ _ => by simp⟩

theorem sendReturned_books (c : LoopCfg) (s : St) (who : Caller) (t : Nat) :
    Books s (sendReturned c s who t) ∧ notStoredPc (sendReturned c s who t).pc := by
  unfold sendReturned
  cases who
  · exact ⟨⟨rfl, rfl⟩, fun _ _ => by simp⟩
  · simp only
    obtain ⟨h1, h2⟩ := afterSend_books c { s with lastSynced := t }
    exact ⟨⟨h1.lastBy, h1.committed⟩, h2⟩

theorem afterLoads_books (s : St) : Books s (afterLoads s) ∧ notStoredPc (afterLoads s).pc :=
  ⟨⟨rfl, rfl⟩, fun _ _ => by simp [afterLoads]⟩

theorem poll_books (c : LoopCfg) (b : Bucket) (s : St) (i : In) (n : Nat) :
    Books s (poll c b s i n) ∧ notStoredPc (poll c b s i n).pc := by
  have h := poll_out c b s i n
  generalize poll c b s i n = s' at h ⊢
  cases h with
  | none _ => exact afterLoads_books s
  | unknown _ _ _ _ => exact ⟨⟨rfl, rfl⟩, fun _ _ => by simp⟩
  | failed _ _ _ _ _ _ _ => exact ⟨⟨rfl, rfl⟩, fun _ _ => by simp⟩
  | loaded _ _ _ _ _ _ _ => exact ⟨⟨rfl, rfl⟩, fun _ _ => by simp⟩

theorem beginSend_books (c : LoopCfg) (s : St) (who : Caller) (now : Nat) :
    Books s (beginSend c s who now) ∧ notStoredPc (beginSend c s who now).pc := by
  have h := beginSend_out c s who now
  generalize beginSend c s who now = s' at h ⊢
  cases h with
  | failed _ _ => exact ⟨⟨rfl, rfl⟩, fun _ _ => by simp⟩
  | dumped _ _ => exact ⟨⟨rfl, rfl⟩, fun _ _ => by simp⟩

/-- what the loop recorded as merged after a segment -/
def lastByAfter (s : St) : List (InstId × Nat) :=
  match s.pc with
  | .loadAfterTxn _ _ inst ts _ => setAssoc s.lastBy inst ts
  | _ => s.lastBy

/-- what the loop has told its cleaner after a segment -/
def committedAfter (s : St) : List (InstId × Nat) :=
  match s.pc with
  | .sendStored _ _ => s.lastBy.foldl (fun acc p => setAssoc acc p.1 p.2) s.committed
  | _ => s.committed

/-- **the bookkeeping of one segment**: `lastBy` gains the blob named by a `loadAfterTxn` yield
    point; `committed` becomes `lastBy` (merged into the old `committed`) exactly in the segment
    after the store; the yield point after the store is reached only by the storing segment -/
theorem go_books (c : LoopCfg) (b : Bucket) (s : St) (i : In) :
    (go c b s i).1.lastBy = lastByAfter s ∧ (go c b s i).1.committed = committedAfter s ∧
    (∀ who t, (go c b s i).1.pc = .sendStored who t →
      ∃ who' t' ts sn, s.pc = .sendAfterTxn who' t' ts sn ∧ c.txn.receiveOnly = false ∧
        (go c b s i).2 = b ++ [{ inst := c.own, ts := ts, snap := sn }]) := by
  rw [go_eq]
  obtain ⟨_, r2, _, _, _, r6, r7⟩ := relist_facts (goRaw c b s i).1 (goRaw c b s i).2
  simp only
  rw [r2, r6, r7]
  unfold lastByAfter committedAfter
  cases hpc : s.pc with
  | boot =>
    simp only
    unfold goRaw; rw [hpc]
    simp only
    split
    · exact ⟨rfl, rfl, fun _ _ h => by simp at h⟩
    · split
      · rename_i env _ _
        obtain ⟨h1, h2⟩ := beginSend_books c
          { s with hasDataAtStart := decide (s.env.lastTxn > 0), lastSynced := 0,
                   seen := instancesOf b, waiting := instancesOf b, env := env } .initial i.now
        exact ⟨h1.lastBy, h1.committed, fun who t h => absurd h (h2 who t)⟩
      · exact ⟨rfl, rfl, fun _ _ h => by simp at h⟩
  | top =>
    rw [goRaw_top hpc]
    obtain ⟨h1, h2⟩ := poll_books c b s i 0
    exact ⟨h1.lastBy, h1.committed, fun who t h => absurd h (h2 who t)⟩
  | loadAfterTxn t lc inst ts n =>
    rw [goRaw_loadAfterTxn hpc]
    have hd : (loadDone s t lc inst ts).lastBy = setAssoc s.lastBy inst ts ∧
        (loadDone s t lc inst ts).committed = s.committed := by
      unfold loadDone; cases lc <;> simp
    split
    · obtain ⟨h1, h2⟩ := afterLoads_books (loadDone s t lc inst ts)
      exact ⟨h1.lastBy.trans hd.1, h1.committed.trans hd.2, fun who t h => absurd h (h2 who t)⟩
    · obtain ⟨h1, h2⟩ := poll_books c b (loadDone s t lc inst ts) i n
      exact ⟨h1.lastBy.trans hd.1, h1.committed.trans hd.2, fun who t h => absurd h (h2 who t)⟩
  | beforeInfo =>
    rw [goRaw_beforeInfo hpc]
    split
    · split
      · obtain ⟨h1, h2⟩ := afterSend_books c s
        exact ⟨h1.lastBy, h1.committed, fun who t h => absurd h (h2 who t)⟩
      · split
        · exact ⟨rfl, rfl, fun _ _ h => by simp at h⟩
        · obtain ⟨h1, h2⟩ := afterSend_books c { s with lastSynced := s.env.lastTxn }
          exact ⟨h1.lastBy, h1.committed, fun who t h => absurd h (h2 who t)⟩
    · obtain ⟨h1, h2⟩ := afterSend_books c s
      exact ⟨h1.lastBy, h1.committed, fun who t h => absurd h (h2 who t)⟩
  | beforeSend =>
    rw [goRaw_beforeSend hpc]
    obtain ⟨h1, h2⟩ := beginSend_books c s .loop i.now
    exact ⟨h1.lastBy, h1.committed, fun who t h => absurd h (h2 who t)⟩
  | sendAfterTxn who t ts snap =>
    rw [goRaw_sendAfterTxn hpc]
    split
    · obtain ⟨h1, h2⟩ := sendReturned_books c s who (if s.env.lastTxn < t then s.env.lastTxn else t)
      exact ⟨h1.lastBy, h1.committed, fun who t h => absurd h (h2 who t)⟩
    · rename_i hro
      split
      · exact ⟨rfl, rfl, fun _ _ h => by simp at h⟩
      · exact ⟨rfl, rfl, fun _ _ _ => ⟨who, t, ts, snap, rfl, by simpa using hro, rfl⟩⟩
  | sendStored who t =>
    rw [goRaw_sendStored hpc]
    obtain ⟨h1, h2⟩ := sendReturned_books c (stored s) who t
    exact ⟨h1.lastBy, h1.committed, fun who t h => absurd h (h2 who t)⟩
  | sleep =>
    rw [goRaw_sleep hpc]
    exact ⟨rfl, rfl, fun _ _ h => by simp at h⟩
  | exited e =>
    rw [goRaw_exited hpc]
    exact ⟨rfl, rfl, fun who t h => by rw [hpc] at h; cases h⟩

theorem mem_setAssoc {l : List (InstId × Nat)} {k : InstId} {v : Nat} {p : InstId × Nat}
    (h : p ∈ setAssoc l k v) : p = (k, v) ∨ p ∈ l := by
  unfold setAssoc at h
  rcases List.mem_cons.mp h with h | h
  · exact Or.inl h
  · exact Or.inr (List.mem_filter.mp h).1

theorem mem_foldl_setAssoc (m : List (InstId × Nat)) : ∀ (acc : List (InstId × Nat)) (p : InstId × Nat),
    p ∈ m.foldl (fun acc q => setAssoc acc q.1 q.2) acc → p ∈ m ∨ p ∈ acc := by
  induction m with
  | nil => intro acc p h; exact Or.inr h
  | cons q rest ih =>
    intro acc p h
    rw [List.foldl_cons] at h
    rcases ih _ p h with h1 | h1
    · exact Or.inl (List.mem_cons_of_mem _ h1)
    · rcases mem_setAssoc h1 with h2 | h2
      · left; rw [h2]; exact List.mem_cons_self ..
      · exact Or.inr h2

/-! ## 5. the invariant of the extended fleet (native mode, no restarts) -/

/-- the real selector: the cleaner is told `St.committed` -/
def selCommitted : SyncLoop.St → List (InstId × Nat) := fun s => s.committed

/-- the aliasing bug: the cleaner is told what was merged (`lastBy`), uploaded or not -/
def selLastBy : SyncLoop.St → List (InstId × Nat) := fun s => s.lastBy

/-- the logical content of instance `j` -/
def XF.db (X : XF) (j : Nat) : Abs.DB := absEnv (X.F j).st.env

/-- a blob of instance `a` with timestamp `T` was stored, and its content is below `D` -/
def StoredBelow (E : List Blob) (a : InstId) (T : Nat) (D : Abs.DB) : Prop :=
  ∃ z ∈ E, z.inst = a ∧ z.ts = T ∧ (blobDB z).le D

/-- a blob of instance `a` with timestamp `T` was stored, and a blob `d` stored LATER dominates it -/
def StoredBefore (E : List Blob) (a : InstId) (T : Nat) (q : Nat) (d : Blob) : Prop :=
  ∃ (i : Nat) (z : Blob), i < q ∧ E[i]? = some z ∧ z.inst = a ∧ z.ts = T ∧ (blobDB z).le (blobDB d)

/-- **the invariant of the extended fleet** (`n` native-mode instances with distinct names) -/
structure XInv (N : Naming) (cs : Nat → LoopCfg) (n : Nat) (X : XF) : Prop where
  /-- one bucket -/
  shared : ∀ j, (X.F j).bucket = X.bucket
  nodup : X.bucket.Nodup
  wf : ∀ j, EnvWF (X.F j).st.env
  /-- the bucket holds blobs that were stored -/
  sub : ∀ x ∈ X.bucket, x ∈ X.ever
  ok : ∀ x ∈ X.ever, SnapOk x.snap
  /-- the blobs of one instance were stored in timestamp order, with growing content -/
  ord : ∀ (p q : Nat) (x y : Blob), p < q → X.ever[p]? = some x → X.ever[q]? = some y → x.inst = y.inst →
    x.ts < y.ts ∧ (blobDB x).le (blobDB y)
  /-- an instance holds what it published -/
  own : ∀ j, j < n → ∀ x ∈ X.ever, x.inst = (cs j).own → (blobDB x).le (X.db j)
  /-- a dump in flight: newer and larger than everything the instance stored, below its content,
      above everything it has recorded as merged -/
  pend : ∀ j, j < n → ∀ who t ts sn, (X.F j).st.pc = .sendAfterTxn who t ts sn →
    SnapOk sn ∧ (absSnap sn).le (X.db j) ∧
    (∀ x ∈ X.ever, x.inst = (cs j).own → x.ts < ts ∧ (blobDB x).le (absSnap sn)) ∧
    (∀ p ∈ (X.F j).st.lastBy, StoredBelow X.ever p.1 p.2 (absSnap sn))
  /-- what the loop recorded as merged was stored and is in its content -/
  lastBy : ∀ j, j < n → ∀ p ∈ (X.F j).st.lastBy, StoredBelow X.ever p.1 p.2 (X.db j)
  loadpc : ∀ j, j < n → ∀ t lc a T m, (X.F j).st.pc = .loadAfterTxn t lc a T m →
    StoredBelow X.ever a T (X.db j)
  /-- right after the store: the stored dump dominates everything recorded as merged -/
  storedpc : ∀ j, j < n → ∀ who t, (X.F j).st.pc = .sendStored who t →
    ∃ (q : Nat) (d : Blob), X.ever[q]? = some d ∧ ∀ p ∈ (X.F j).st.lastBy, StoredBefore X.ever p.1 p.2 q d
  /-- **`committed` ⊆ `lastBy` at the latest store**: what the cleaner is told was merged BEFORE a
      dump that was then stored (and dominates it) -/
  comm : ∀ j, j < n → ∀ p ∈ (X.F j).st.committed,
    ∃ (q : Nat) (d : Blob), X.ever[q]? = some d ∧ StoredBefore X.ever p.1 p.2 q d
  /-- the witness invariant: every blob ever stored is dominated by a blob stored no earlier
      that is in the bucket and is the newest of its instance there -/
  wit : ∀ (p : Nat) (x : Blob), X.ever[p]? = some x → ∃ (q : Nat) (w : Blob), p ≤ q ∧ X.ever[q]? = some w ∧ w ∈ X.bucket ∧
    isNewest X.bucket w = true ∧ (blobDB x).le (blobDB w)
  /-- the cleaners: only unparsable names are ignored; first-seen times respect the storage order
      per instance (and an older blob in the bucket is known whenever a newer one is); only names
      of stored blobs are known -/
  clig : ∀ k, ∀ nme ∈ (X.cl k).ignored, N.parse nme = none
  clfs : ∀ k, ∀ e ∈ X.bucket, ∀ c ∈ X.bucket, e.inst = c.inst → e.ts < c.ts → ∀ u,
    Cleaner.look (N.nameOf c) (X.cl k).firstSeen = some u →
    ∃ t, Cleaner.look (N.nameOf e) (X.cl k).firstSeen = some t ∧ t ≤ u
  clkeys : ∀ k nme t, Cleaner.look nme (X.cl k).firstSeen = some t → ∃ x ∈ X.ever, nme = N.nameOf x

theorem XInv.distinct {N : Naming} {cs : Nat → LoopCfg} {n : Nat} {X : XF} (h : XInv N cs n X) :
    ∀ x ∈ X.ever, ∀ y ∈ X.ever, x.inst = y.inst → x.ts = y.ts → x = y := by
  intro x hx y hy hi ht
  obtain ⟨p, hp⟩ := List.mem_iff_getElem?.mp hx
  obtain ⟨q, hq⟩ := List.mem_iff_getElem?.mp hy
  rcases Nat.lt_trichotomy p q with hlt | heq | hgt
  · have := (h.ord p q x y hlt hp hq hi).1; omega
  · subst heq; rw [hp] at hq; injection hq
  · have := (h.ord q p y x hgt hq hp hi.symm).1; omega

/-- in the bucket, the blobs of one instance carry distinct timestamps -/
theorem XInv.distinctTs {N : Naming} {cs : Nat → LoopCfg} {n : Nat} {X : XF} (h : XInv N cs n X) :
    DistinctTs X.bucket := by
  unfold DistinctTs
  refine h.nodup.imp_of_mem ?_
  intro x y hx hy hne hi ht
  exact hne (h.distinct x (h.sub x hx) y (h.sub y hy) hi ht)

theorem XInv.fsOrdered {N : Naming} {cs : Nat → LoopCfg} {n : Nat} {X : XF} (h : XInv N cs n X) (k : Nat) :
    FsOrdered N (X.cl k).firstSeen X.bucket := by
  intro e he c hc hi hlt t u ht hu
  obtain ⟨t', ht', hle⟩ := h.clfs k e he c hc hi hlt u hu
  rw [ht] at ht'; injection ht' with ht'; subst ht'; exact hle

/-- **the join over the newest blobs does not decrease between two states satisfying the
    invariant, the second of which has kept the storage history of the first** -/
theorem bucketJoin_mono_of_inv {N : Naming} {cs : Nat → LoopCfg} {n : Nat} {X X' : XF}
    (h : XInv N cs n X) (h' : XInv N cs n X')
    (hev : ∀ (p : Nat) (x : Blob), X.ever[p]? = some x → X'.ever[p]? = some x) :
    (bucketJoin X.bucket).le (bucketJoin X'.bucket) := by
  apply bucketJoin_le_of_witness
  intro x hx _
  obtain ⟨p, hp⟩ := List.mem_iff_getElem?.mp (h.sub x hx)
  obtain ⟨q, w, _, _, hw, hwn, hle⟩ := h'.wit p x (hev p x hp)
  exact ⟨w, hw, hwn, hle⟩

/-! ## 6. a cleaner run keeps the invariant -/

/-- side condition of a cleaner run: the instance belongs to the fleet, and the clock handed to
    the run is not below any first-seen time the cleaner has recorded (a clock that does not go
    backwards between the runs of one cleaner) -/
def CleanOk (n : Nat) (X : XF) (k now : Nat) : Prop :=
  k < n ∧ ∀ p ∈ (X.cl k).firstSeen, p.2 ≤ (now : Int)

instance (n : Nat) (X : XF) (k now : Nat) : Decidable (CleanOk n X k now) := by
  unfold CleanOk; exact inferInstance

theorem mem_deleted_delCalls {parse : Cleaner.Parse} {cfg : Cleaner.Cfg} {st : Cleaner.St} {now : Int}
    {l : Option (List String)} {df : String → Bool} {nme : String}
    (h : nme ∈ (Cleaner.runOnce parse cfg st now l df).2.deleted) :
    nme ∈ (Cleaner.runOnce parse cfg st now l df).2.delCalls := by
  cases he : cfg.enabled with
  | false => rw [Cleaner.runOnce_disabled he] at h; simp [Cleaner.Out.none] at h
  | true =>
    cases l with
    | none => rw [Cleaner.runOnce_listFails he] at h; simp [Cleaner.Out.none] at h
    | some names =>
      rw [Cleaner.runOnce_some he] at h ⊢
      exact (List.mem_filter.mp h).1

theorem look_map_cast {l : List (InstId × Nat)} {a : InstId} {T : Int}
    (h : Cleaner.look a (l.map fun p => (p.1, (p.2 : Int))) = some T) :
    ∃ p ∈ l, p.1 = a ∧ (p.2 : Int) = T := by
  have := Cleaner.look_mem h
  obtain ⟨p, hp, he⟩ := List.mem_map.mp this
  injection he with h1 h2
  exact ⟨p, hp, h1, h2⟩

/-- the extended fleet after a cleaner run of instance `k` with result `r` -/
def cleaned (N : Naming) (X : XF) (k : Nat) (r : Cleaner.St × Cleaner.Out) : XF :=
  { F := fun j => { X.F j with bucket := (X.F j).bucket.filter (fun x => !dead N r.2 x) },
    cl := fun j => if j = k then r.1 else X.cl j,
    ever := X.ever }

theorem xstep_clean (N : Naming) (cs : Nat → LoopCfg) (ccfg : Nat → Cleaner.Cfg)
    (sel : SyncLoop.St → List (InstId × Nat)) (X : XF) (k now : Nat) :
    xstep N cs ccfg sel X (.clean k now) = cleaned N X k (cleanRun N ccfg sel X k now) := rfl

/-- **what a cleaner run of the fleet deletes** (under the invariant): a blob that is not the
    newest of its instance in the bucket, or one whose timestamp is at most the time the owner's
    loop has in `St.committed` for the blob's instance — and that entry of `committed` names a
    blob the owner merged BEFORE a dump of its own that was then stored and dominates it -/
theorem xclean_guarded (N : Naming) (cs : Nat → LoopCfg) (ccfg : Nat → Cleaner.Cfg) (n : Nat) (X : XF)
    (k now : Nat) (hinv : XInv N cs n X) (hk : k < n) (w : Blob)
    (hd : dead N (cleanRun N ccfg selCommitted X k now).2 w = true) :
    (∃ y ∈ X.bucket, y.inst = w.inst ∧ w.ts < y.ts) ∨
    ∃ p ∈ (X.F k).st.committed, p.1 = w.inst ∧ w.ts ≤ p.2 ∧
      ∃ (q : Nat) (d : Blob), X.ever[q]? = some d ∧ StoredBefore X.ever p.1 p.2 q d := by
  have hBk : (X.F k).bucket = X.bucket := hinv.shared k
  have hdel : N.nameOf w ∈ (cleanRun N ccfg selCommitted X k now).2.deleted := by simpa [dead] using hd
  unfold cleanRun at hdel
  rw [hBk] at hdel
  rcases clean_deletes_guarded N (ccfg k) (cleanerSt selCommitted X k) now X.bucket
    (hinv.clig k) hinv.distinctTs (hinv.fsOrdered k) w (mem_deleted_delCalls hdel) with h1 | ⟨T, h1, h2⟩
  · exact Or.inl h1
  · right
    obtain ⟨p, hp, hp1, hp2⟩ := look_map_cast h1
    exact ⟨p, hp, hp1, by omega, hinv.comm k hk p hp⟩

/-- **a cleaner run keeps the invariant**: whatever it deletes, every blob ever stored keeps a
    witness among the newest blobs left -/
theorem xinv_clean (N : Naming) (cs : Nat → LoopCfg) (ccfg : Nat → Cleaner.Cfg) (n : Nat) (X : XF)
    (k now : Nat) (hinv : XInv N cs n X) (hok : CleanOk n X k now) :
    XInv N cs n (xstep N cs ccfg selCommitted X (.clean k now)) := by
  obtain ⟨hk, hclock⟩ := hok
  -- abbreviations
  generalize hr : cleanRun N ccfg selCommitted X k now = r
  rw [xstep_clean, hr]
  have hBk : (X.F k).bucket = X.bucket := hinv.shared k
  have hst : cleanerSt selCommitted X k =
      { X.cl k with committed := (X.F k).st.committed.map fun p => (p.1, (p.2 : Int)) } := rfl
  -- what is deleted is guarded
  have hguard : ∀ w ∈ X.bucket, dead N r.2 w = true →
      (∃ y ∈ X.bucket, y.inst = w.inst ∧ w.ts < y.ts) ∨
      ∃ p ∈ (X.F k).st.committed, p.1 = w.inst ∧ w.ts ≤ p.2 := by
    intro w hw hd
    have hdel : N.nameOf w ∈ r.2.deleted := by simpa [dead] using hd
    rw [← hr] at hdel
    unfold cleanRun at hdel
    rw [hBk] at hdel
    rcases clean_deletes_guarded N (ccfg k) (cleanerSt selCommitted X k) now X.bucket
      (hinv.clig k) hinv.distinctTs (hinv.fsOrdered k) w (mem_deleted_delCalls hdel) with h1 | ⟨T, h1, h2⟩
    · exact Or.inl h1
    · right
      obtain ⟨p, hp, hp1, hp2⟩ := look_map_cast h1
      exact ⟨p, hp, hp1, by omega⟩
  -- the new bucket
  let B' : Bucket := X.bucket.filter fun x => !dead N r.2 x
  have hB' : ∀ x, x ∈ B' ↔ x ∈ X.bucket ∧ dead N r.2 x = false := by
    intro x; simp [B', List.mem_filter]
  have hnew' : ∀ w ∈ B', isNewest X.bucket w = true → isNewest B' w = true := by
    intro w _ hn
    rw [isNewest_iff] at hn ⊢
    intro y hy hi
    exact hn y ((hB' y).mp hy).1 hi
  -- every old witness has a surviving witness
  have key : ∀ (m q : Nat) (w : Blob), X.ever.length - q = m → X.ever[q]? = some w → w ∈ X.bucket →
      isNewest X.bucket w = true →
      ∃ (q' : Nat) (w' : Blob), q ≤ q' ∧ X.ever[q']? = some w' ∧ w' ∈ B' ∧ isNewest B' w' = true ∧
        (blobDB w).le (blobDB w') := by
    intro m
    induction m using Nat.strongRecOn with
    | ind m ih =>
      intro q w hm hq hw hn
      cases hd : dead N r.2 w with
      | false =>
        have hwB' : w ∈ B' := (hB' w).mpr ⟨hw, hd⟩
        exact ⟨q, w, Nat.le_refl _, hq, hwB', hnew' w hwB' hn, Abs.le_refl _⟩
      | true =>
        rcases hguard w hw hd with ⟨y, hy, hyi, hlt⟩ | ⟨p, hp, hp1, hp2⟩
        · have := (isNewest_iff.mp hn) y hy hyi; omega
        · obtain ⟨qd, d, hqd, i, z, hiq, hiz, hzi, hzt, hzd⟩ := hinv.comm k hk p hp
          have hqi : q ≤ i := by
            rcases Nat.lt_or_ge i q with hlt | hge
            · have := (hinv.ord i q z w hlt hiz hq (by rw [hzi, hp1])).1; omega
            · exact hge
          have hwd : (blobDB w).le (blobDB d) := by
            rcases Nat.eq_or_lt_of_le hqi with heq | hlt
            · subst heq; rw [hq] at hiz; injection hiz with hiz; subst hiz; exact hzd
            · have := (hinv.ord q i w z hlt hq hiz (by rw [hzi, hp1])).2
              exact Abs.le_trans (blobDB_wf w) (blobDB_wf z) (blobDB_wf d) this hzd
          obtain ⟨q2, w2, hq2, hw2, hw2B, hw2n, hdw2⟩ := hinv.wit qd d hqd
          have hq2lt : q2 < X.ever.length := by
            rcases Nat.lt_or_ge q2 X.ever.length with h1 | h1
            · exact h1
            · rw [List.getElem?_eq_none h1] at hw2; cases hw2
          obtain ⟨q', w', hq', hw', hw'B, hw'n, hle⟩ :=
            ih (X.ever.length - q2) (by omega) q2 w2 rfl hw2 hw2B hw2n
          refine ⟨q', w', by omega, hw', hw'B, hw'n, ?_⟩
          exact Abs.le_trans (blobDB_wf w) (blobDB_wf d) (blobDB_wf w') hwd
            (Abs.le_trans (blobDB_wf d) (blobDB_wf w2) (blobDB_wf w') hdw2 hle)
  -- the bucket of the new state
  have hbk : (cleaned N X k r).bucket = B' := rfl
  -- the cleaner's own state
  have hcl : (∀ nme ∈ r.1.ignored, N.parse nme = none) ∧
      (∀ e ∈ B', ∀ c ∈ B', e.inst = c.inst → e.ts < c.ts → ∀ u,
        Cleaner.look (N.nameOf c) r.1.firstSeen = some u →
        ∃ t, Cleaner.look (N.nameOf e) r.1.firstSeen = some t ∧ t ≤ u) ∧
      (∀ nme t, Cleaner.look nme r.1.firstSeen = some t → ∃ x ∈ X.ever, nme = N.nameOf x) := by
    rw [← hr]
    unfold cleanRun
    rw [hBk]
    cases he : (ccfg k).enabled with
    | false =>
      rw [Cleaner.runOnce_disabled he]
      refine ⟨hinv.clig k, ?_, hinv.clkeys k⟩
      intro e heB c hcB hi hlt u hu
      exact hinv.clfs k e ((hB' e).mp heB).1 c ((hB' c).mp hcB).1 hi hlt u hu
    | true =>
      have hfs := fun nme => Cleaner.runOnce_firstSeen (parse := N.parse) (cfg := ccfg k)
        (st := cleanerSt selCommitted X k) (now := (now : Int)) he (X.bucket.map N.nameOf)
        (fun _ => false) nme
      have hcand : ∀ x ∈ X.bucket, N.nameOf x ∈
          (Cleaner.candidates N.parse (cleanerSt selCommitted X k) (X.bucket.map N.nameOf)).map (·.name) := by
        intro x hx
        exact List.mem_map.mpr ⟨_, (mem_candidates_bucket N (hinv.clig k)).mpr ⟨x, hx, rfl⟩, rfl⟩
      refine ⟨?_, ?_, ?_⟩
      · intro nme hn
        rcases Cleaner.runOnce_ignored he _ _ hn with h1 | h1
        · exact hinv.clig k nme h1
        · exact h1
      · intro e heB c hcB hi hlt u hu
        have heX := ((hB' e).mp heB).1
        have hcX := ((hB' c).mp hcB).1
        rw [hfs, if_pos (hcand c hcX)] at hu
        rw [hfs, if_pos (hcand e heX)]
        cases hoc : Cleaner.look (N.nameOf c) (cleanerSt selCommitted X k).firstSeen with
        | some u0 =>
          rw [hoc] at hu
          simp only at hu
          injection hu with hu; subst hu
          obtain ⟨t, ht, hle⟩ := hinv.clfs k e heX c hcX hi hlt u0 hoc
          have ht' : Cleaner.look (N.nameOf e) (cleanerSt selCommitted X k).firstSeen = some t := ht
          rw [ht']
          exact ⟨t, rfl, hle⟩
        | none =>
          rw [hoc] at hu
          simp only at hu
          injection hu with hu; subst hu
          cases hoe : Cleaner.look (N.nameOf e) (cleanerSt selCommitted X k).firstSeen with
          | some t =>
            exact ⟨t, rfl, hclock _ (Cleaner.look_mem hoe)⟩
          | none => exact ⟨_, rfl, Int.le_refl _⟩
      · intro nme t ht
        rw [hfs] at ht
        split at ht
        · rename_i hmem
          obtain ⟨c, hc, hcn⟩ := List.mem_map.mp hmem
          obtain ⟨x, hx, hcx⟩ := (mem_candidates_bucket N (hinv.clig k)).mp hc
          exact ⟨x, hinv.sub x hx, by rw [← hcn, hcx]⟩
        · cases ht
  refine
    { shared := ?_, nodup := ?_, wf := hinv.wf, sub := ?_, ok := hinv.ok, ord := hinv.ord,
      own := hinv.own, pend := hinv.pend, lastBy := hinv.lastBy, loadpc := hinv.loadpc,
      storedpc := hinv.storedpc, comm := hinv.comm, wit := ?_, clig := ?_, clfs := ?_, clkeys := ?_ }
  · intro j
    show (X.F j).bucket.filter _ = B'
    rw [hinv.shared j]
  · rw [hbk]; exact hinv.nodup.filter _
  · intro x hx
    rw [hbk] at hx
    exact hinv.sub x ((hB' x).mp hx).1
  · intro p x hp
    rw [hbk]
    obtain ⟨q, w, hpq, hw, hwB, hwn, hle⟩ := hinv.wit p x hp
    obtain ⟨q', w', hq', hw', hw'B, hw'n, hle'⟩ := key _ q w rfl hw hwB hwn
    exact ⟨q', w', by omega, hw', hw'B, hw'n,
      Abs.le_trans (blobDB_wf x) (blobDB_wf w) (blobDB_wf w') hle hle'⟩
  · intro j
    have hclj : (cleaned N X k r).cl j = if j = k then r.1 else X.cl j := rfl
    rw [hclj]
    by_cases hj : j = k
    · rw [if_pos hj]; exact hcl.1
    · rw [if_neg hj]; exact hinv.clig j
  · intro j
    have hclj : (cleaned N X k r).cl j = if j = k then r.1 else X.cl j := rfl
    rw [hbk, hclj]
    by_cases hj : j = k
    · rw [if_pos hj]; exact hcl.2.1
    · rw [if_neg hj]
      intro e heB c hcB hi hlt u hu
      exact hinv.clfs j e ((hB' e).mp heB).1 c ((hB' c).mp hcB).1 hi hlt u hu
  · intro j
    have hclj : (cleaned N X k r).cl j = if j = k then r.1 else X.cl j := rfl
    rw [hclj]
    by_cases hj : j = k
    · rw [if_pos hj]; exact hcl.2.2
    · rw [if_neg hj]; exact hinv.clkeys j

/-! ## 7. events of the loop fleet keep the invariant -/

theorem storedBelow_mono {E E' : List Blob} {a : InstId} {T : Nat} {D D' : Abs.DB}
    (hE : ∀ x ∈ E, x ∈ E') (hD : D.WF) (hD' : D'.WF) (hle : D.le D')
    (h : StoredBelow E a T D) : StoredBelow E' a T D' := by
  obtain ⟨z, hz, h1, h2, h3⟩ := h
  exact ⟨z, hE z hz, h1, h2, Abs.le_trans (blobDB_wf z) hD hD' h3 hle⟩

theorem storedBefore_append {E : List Blob} (Y : List Blob) {a : InstId} {T q : Nat} {d : Blob}
    (h : StoredBefore E a T q d) : StoredBefore (E ++ Y) a T q d := by
  obtain ⟨i, z, h1, h2, h3⟩ := h
  exact ⟨i, z, h1, getElem?_append_old Y h2, h3⟩

theorem XF.db_wf {N : Naming} {cs : Nat → LoopCfg} {n : Nat} {X : XF} (h : XInv N cs n X) (j : Nat) :
    (X.db j).WF := absEnv_wf (h.wf j)

/-- an event that stores nothing and changes only the loop state of instance `k`, whose logical
    content does not shrink, keeps the invariant — given the clauses about `k`'s new state -/
theorem xinv_update {N : Naming} {cs : Nat → LoopCfg} {n : Nat} {X : XF} (hinv : XInv N cs n X)
    {k : Nat} (hk : k < n) (X' : XF)
    (hev : X'.ever = X.ever) (hbk : ∀ j, (X'.F j).bucket = X.bucket) (hcl : X'.cl = X.cl)
    (hoth : ∀ j, j ≠ k → (X'.F j).st = (X.F j).st)
    (hwf : EnvWF (X'.F k).st.env) (hle : (X.db k).le (X'.db k))
    (hpend : ∀ who t ts sn, (X'.F k).st.pc = .sendAfterTxn who t ts sn →
      SnapOk sn ∧ (absSnap sn).le (X'.db k) ∧
      (∀ x ∈ X.ever, x.inst = (cs k).own → x.ts < ts ∧ (blobDB x).le (absSnap sn)) ∧
      (∀ p ∈ (X'.F k).st.lastBy, StoredBelow X.ever p.1 p.2 (absSnap sn)))
    (hlast : ∀ p ∈ (X'.F k).st.lastBy, StoredBelow X.ever p.1 p.2 (X'.db k))
    (hload : ∀ t lc a T m, (X'.F k).st.pc = .loadAfterTxn t lc a T m → StoredBelow X.ever a T (X'.db k))
    (hstored : ∀ who t, (X'.F k).st.pc = .sendStored who t →
      ∃ (q : Nat) (d : Blob), X.ever[q]? = some d ∧
        ∀ p ∈ (X'.F k).st.lastBy, StoredBefore X.ever p.1 p.2 q d)
    (hcomm : ∀ p ∈ (X'.F k).st.committed,
      ∃ (q : Nat) (d : Blob), X.ever[q]? = some d ∧ StoredBefore X.ever p.1 p.2 q d) :
    XInv N cs n X' := by
  have hB : X'.bucket = X.bucket := hbk 0
  have hdbo : ∀ j, j ≠ k → X'.db j = X.db j := by
    intro j hj; unfold XF.db; rw [hoth j hj]
  have hwf' : ∀ j, EnvWF (X'.F j).st.env := by
    intro j
    by_cases hj : j = k
    · rw [hj]; exact hwf
    · rw [hoth j hj]; exact hinv.wf j
  refine
    { shared := fun j => by rw [hbk j, hB], nodup := by rw [hB]; exact hinv.nodup, wf := hwf',
      sub := by rw [hB, hev]; exact hinv.sub, ok := by rw [hev]; exact hinv.ok,
      ord := by rw [hev]; exact hinv.ord, own := ?_, pend := ?_, lastBy := ?_, loadpc := ?_,
      storedpc := ?_, comm := ?_, wit := by rw [hB, hev]; exact hinv.wit,
      clig := by rw [hcl]; exact hinv.clig, clfs := by rw [hB, hcl]; exact hinv.clfs,
      clkeys := by rw [hev, hcl]; exact hinv.clkeys }
  · intro j hj x hx hi
    rw [hev] at hx
    by_cases hjk : j = k
    · subst hjk
      exact Abs.le_trans (blobDB_wf x) (XF.db_wf hinv j) (absEnv_wf hwf) (hinv.own j hj x hx hi) hle
    · rw [hdbo j hjk]; exact hinv.own j hj x hx hi
  · intro j hj who t ts sn hpc
    rw [hev]
    by_cases hjk : j = k
    · subst hjk; exact hpend who t ts sn hpc
    · rw [hoth j hjk] at hpc ⊢
      rw [hdbo j hjk]
      exact hinv.pend j hj who t ts sn hpc
  · intro j hj p hp
    rw [hev]
    by_cases hjk : j = k
    · subst hjk; exact hlast p hp
    · rw [hoth j hjk] at hp
      rw [hdbo j hjk]
      exact hinv.lastBy j hj p hp
  · intro j hj t lc a T m hpc
    rw [hev]
    by_cases hjk : j = k
    · subst hjk; exact hload t lc a T m hpc
    · rw [hoth j hjk] at hpc
      rw [hdbo j hjk]
      exact hinv.loadpc j hj t lc a T m hpc
  · intro j hj who t hpc
    rw [hev]
    by_cases hjk : j = k
    · subst hjk; exact hstored who t hpc
    · rw [hoth j hjk] at hpc ⊢
      exact hinv.storedpc j hj who t hpc
  · intro j hj p hp
    rw [hev]
    by_cases hjk : j = k
    · subst hjk; exact hcomm p hp
    · rw [hoth j hjk] at hp
      exact hinv.comm j hj p hp

/-- the storing segment keeps the invariant: the stored dump becomes the newest blob of its
    instance and the witness of everything its predecessor witnessed -/
theorem xinv_store {N : Naming} {cs : Nat → LoopCfg} {n : Nat} {X : XF} (hinv : XInv N cs n X)
    (hown : ∀ i j, i < n → j < n → (cs i).own = (cs j).own → i = j)
    {k : Nat} (hk : k < n) (X' : XF) {who : Caller} {t ts : Nat} {sn : Snap}
    (hpc : (X.F k).st.pc = .sendAfterTxn who t ts sn)
    (hev : X'.ever = X.ever ++ [{ inst := (cs k).own, ts := ts, snap := sn }])
    (hbk : ∀ j, (X'.F j).bucket = X.bucket ++ [{ inst := (cs k).own, ts := ts, snap := sn }])
    (hcl : X'.cl = X.cl)
    (hoth : ∀ j, j ≠ k → (X'.F j).st = (X.F j).st)
    (henv : (X'.F k).st.env = (X.F k).st.env)
    (hlb : (X'.F k).st.lastBy = (X.F k).st.lastBy)
    (hcm : (X'.F k).st.committed = (X.F k).st.committed)
    (hpc' : ∃ who' t', (X'.F k).st.pc = .sendStored who' t') :
    XInv N cs n X' := by
  obtain ⟨hsok, hsle, hsown, hslast⟩ := hinv.pend k hk who t ts sn hpc
  generalize hx' : ({ inst := (cs k).own, ts := ts, snap := sn } : Blob) = x' at hev hbk
  have hx'i : x'.inst = (cs k).own := by rw [← hx']
  have hx't : x'.ts = ts := by rw [← hx']
  have hx'c : blobDB x' = absSnap sn := by rw [← hx']; rfl
  have hB : X'.bucket = X.bucket ++ [x'] := hbk 0
  have hfresh : x' ∉ X.ever := by
    intro hin
    have := (hsown x' hin hx'i).1
    omega
  have hdb : ∀ j, X'.db j = X.db j := by
    intro j
    unfold XF.db
    by_cases hjk : j = k
    · rw [hjk, henv]
    · rw [hoth j hjk]
  have hEsub : ∀ x ∈ X.ever, x ∈ X'.ever := fun x hx => by rw [hev]; exact List.mem_append_left _ hx
  have hlen : X'.ever[X.ever.length]? = some x' := by
    rw [hev, List.getElem?_append_right (Nat.le_refl _), Nat.sub_self]; rfl
  have hidx : ∀ (p : Nat) (x : Blob), X'.ever[p]? = some x →
      X.ever[p]? = some x ∨ (p = X.ever.length ∧ x = x') := by
    intro p x hp
    rw [hev] at hp
    rcases Nat.lt_or_ge p X.ever.length with h1 | h1
    · left; rw [List.getElem?_append_left h1] at hp; exact hp
    · right
      rw [List.getElem?_append_right h1] at hp
      have : p - X.ever.length = 0 := by
        rcases Nat.eq_zero_or_pos (p - X.ever.length) with h0 | h0
        · exact h0
        · rw [List.getElem?_eq_none (by simp only [List.length_singleton]; omega)] at hp; cases hp
      rw [this] at hp
      exact ⟨by omega, by simpa using hp.symm⟩
  have hold : ∀ (p : Nat) (x : Blob), X.ever[p]? = some x → X'.ever[p]? = some x := by
    intro p x hp; rw [hev]; exact getElem?_append_old _ hp
  have hnewx' : isNewest X'.bucket x' = true := by
    rw [isNewest_iff, hB]
    intro y hy hi
    rcases List.mem_append.mp hy with hy | hy
    · have := (hsown y (hinv.sub y hy) (by rw [hi, hx'i])).1
      omega
    · simp only [List.mem_singleton] at hy; rw [hy]; exact Nat.le_refl _
  have hoj : ∀ j, j < n → j ≠ k → (cs j).own ≠ (cs k).own :=
    fun j hj hjk he => hjk (hown j k hj hk he)
  refine
    { shared := fun j => by rw [hbk j, hB], nodup := ?_, wf := ?_, sub := ?_, ok := ?_, ord := ?_,
      own := ?_, pend := ?_, lastBy := ?_, loadpc := ?_, storedpc := ?_, comm := ?_, wit := ?_,
      clig := by rw [hcl]; exact hinv.clig, clfs := ?_, clkeys := ?_ }
  · rw [hB]
    refine List.nodup_append.mpr ⟨hinv.nodup, by simp, ?_⟩
    intro a ha b hb hab
    simp only [List.mem_singleton] at hb
    subst hab
    rw [hb] at ha
    exact hfresh (hinv.sub _ ha)
  · intro j
    by_cases hjk : j = k
    · rw [hjk, henv]; exact hinv.wf k
    · rw [hoth j hjk]; exact hinv.wf j
  · intro x hx
    rw [hB] at hx; rw [hev]
    rcases List.mem_append.mp hx with hx | hx
    · exact List.mem_append_left _ (hinv.sub x hx)
    · exact List.mem_append_right _ hx
  · intro x hx
    rw [hev] at hx
    rcases List.mem_append.mp hx with hx | hx
    · exact hinv.ok x hx
    · simp only [List.mem_singleton] at hx; rw [hx, ← hx']; exact hsok
  · intro p q x y hpq hp hq hi
    rcases hidx q y hq with hq' | ⟨hq1, hq2⟩
    · have hp' : X.ever[p]? = some x := by
        rcases hidx p x hp with h1 | ⟨h1, _⟩
        · exact h1
        · have : q < X.ever.length := by
            rcases Nat.lt_or_ge q X.ever.length with h2 | h2
            · exact h2
            · rw [List.getElem?_eq_none h2] at hq'; cases hq'
          omega
      exact hinv.ord p q x y hpq hp' hq' hi
    · have hp' : X.ever[p]? = some x := by
        rcases hidx p x hp with h1 | ⟨h1, _⟩
        · exact h1
        · omega
      subst hq2
      have := hsown x (List.mem_of_getElem? hp') (by rw [hi, hx'i])
      rw [hx't, hx'c]; exact this
  · intro j hj x hx hi
    rw [hdb j]
    rw [hev] at hx
    rcases List.mem_append.mp hx with hx | hx
    · exact hinv.own j hj x hx hi
    · simp only [List.mem_singleton] at hx
      subst hx
      have hjk : j = k := by
        apply Classical.byContradiction
        intro hne
        exact hoj j hj hne (by rw [← hi, hx'i])
      subst hjk
      rw [hx'c]; exact hsle
  · intro j hj who' t' ts' sn' hpcj
    by_cases hjk : j = k
    · subst hjk
      obtain ⟨w1, t1, h1⟩ := hpc'
      rw [h1] at hpcj; cases hpcj
    · rw [hoth j hjk] at hpcj ⊢
      rw [hdb j]
      obtain ⟨a1, a2, a3, a4⟩ := hinv.pend j hj who' t' ts' sn' hpcj
      refine ⟨a1, a2, ?_, ?_⟩
      · intro x hx hi
        rw [hev] at hx
        rcases List.mem_append.mp hx with hx | hx
        · exact a3 x hx hi
        · simp only [List.mem_singleton] at hx
          subst hx
          exact absurd (by rw [← hi, hx'i]) (hoj j hj hjk)
      · intro p hp
        exact storedBelow_mono hEsub (absSnap_wf sn') (absSnap_wf sn') (Abs.le_refl _) (a4 p hp)
  · intro j hj p hp
    rw [hdb j]
    have hp' : p ∈ (X.F j).st.lastBy := by
      by_cases hjk : j = k
      · rw [hjk] at hp ⊢; rw [hlb] at hp; exact hp
      · rw [hoth j hjk] at hp; exact hp
    exact storedBelow_mono hEsub (XF.db_wf hinv j) (XF.db_wf hinv j) (Abs.le_refl _) (hinv.lastBy j hj p hp')
  · intro j hj t1 lc a T m hpcj
    rw [hdb j]
    by_cases hjk : j = k
    · subst hjk
      obtain ⟨w1, t2, h1⟩ := hpc'
      rw [h1] at hpcj; cases hpcj
    · rw [hoth j hjk] at hpcj
      exact storedBelow_mono hEsub (XF.db_wf hinv j) (XF.db_wf hinv j) (Abs.le_refl _)
        (hinv.loadpc j hj t1 lc a T m hpcj)
  · intro j hj who' t' hpcj
    by_cases hjk : j = k
    · subst hjk
      refine ⟨X.ever.length, x', hlen, ?_⟩
      intro p hp
      rw [hlb] at hp
      obtain ⟨z, hz, h1, h2, h3⟩ := hslast p hp
      obtain ⟨i, hi⟩ := List.mem_iff_getElem?.mp hz
      have hilt : i < X.ever.length := by
        rcases Nat.lt_or_ge i X.ever.length with h4 | h4
        · exact h4
        · rw [List.getElem?_eq_none h4] at hi; cases hi
      exact ⟨i, z, hilt, hold i z hi, h1, h2, by rw [hx'c]; exact h3⟩
    · rw [hoth j hjk] at hpcj ⊢
      obtain ⟨q, d, hq, hall⟩ := hinv.storedpc j hj who' t' hpcj
      refine ⟨q, d, hold q d hq, fun p hp => ?_⟩
      rw [hev]; exact storedBefore_append _ (hall p hp)
  · intro j hj p hp
    have hp' : p ∈ (X.F j).st.committed := by
      by_cases hjk : j = k
      · rw [hjk] at hp ⊢; rw [hcm] at hp; exact hp
      · rw [hoth j hjk] at hp; exact hp
    obtain ⟨q, d, hq, hb⟩ := hinv.comm j hj p hp'
    refine ⟨q, d, hold q d hq, ?_⟩
    rw [hev]; exact storedBefore_append _ hb
  · intro p x hp
    rcases hidx p x hp with hp' | ⟨hp1, hp2⟩
    · obtain ⟨q, w, hpq, hw, hwB, hwn, hle⟩ := hinv.wit p x hp'
      by_cases hwi : w.inst = x'.inst
      · -- the new blob takes over
        refine ⟨X.ever.length, x', ?_, hlen, by rw [hB]; exact List.mem_append_right _ (by simp),
          hnewx', ?_⟩
        · have : q < X.ever.length := by
            rcases Nat.lt_or_ge q X.ever.length with h2 | h2
            · exact h2
            · rw [List.getElem?_eq_none h2] at hw; cases hw
          omega
        · have h1 := (hsown w (hinv.sub w hwB) (by rw [hwi, hx'i])).2
          rw [hx'c]
          exact Abs.le_trans (blobDB_wf x) (blobDB_wf w) (absSnap_wf sn) hle h1
      · refine ⟨q, w, hpq, hold q w hw, by rw [hB]; exact List.mem_append_left _ hwB, ?_, hle⟩
        rw [isNewest_iff, hB]
        intro y hy hi
        rcases List.mem_append.mp hy with hy | hy
        · exact (isNewest_iff.mp hwn) y hy hi
        · simp only [List.mem_singleton] at hy
          subst hy
          exact absurd hi.symm hwi
    · subst hp2
      exact ⟨p, x, Nat.le_refl _, hp, by rw [hB]; exact List.mem_append_right _ (by simp), hnewx',
        Abs.le_refl _⟩
  · intro j e he c hc hi hlt u hu
    rw [hcl] at hu ⊢
    rw [hB] at he hc
    have hcB : c ∈ X.bucket := by
      rcases List.mem_append.mp hc with h1 | h1
      · exact h1
      · simp only [List.mem_singleton] at h1
        subst h1
        obtain ⟨y, hy, hny⟩ := hinv.clkeys j _ u hu
        obtain ⟨h1, h2⟩ := N.inj hny
        have := (hsown y hy (by rw [← h1, hx'i])).1
        omega
    have heB : e ∈ X.bucket := by
      rcases List.mem_append.mp he with h1 | h1
      · exact h1
      · simp only [List.mem_singleton] at h1
        subst h1
        have := (hsown c (hinv.sub c hcB) (by rw [← hi, hx'i])).1
        omega
    exact hinv.clfs j e heB c hcB hi hlt u hu
  · intro j nme t1 h1
    rw [hcl] at h1
    obtain ⟨y, hy, hny⟩ := hinv.clkeys j nme t1 h1
    exact ⟨y, hEsub y hy, hny⟩

/-- side conditions of a loop event of the extended fleet: the instance belongs to the fleet, the
    conditions of `C01_loop_fleet_refines_native` (`LoopOkN`), and — per-instance clock — the time a
    segment reads is above the timestamps of all blobs its instance has stored (they are the times
    of its earlier dumps) -/
def LoopOkX (cs : Nat → LoopCfg) (n : Nat) (X : XF) (ke : Nat × Ev) : Prop :=
  ke.1 < n ∧ LoopOkN cs X.F ke ∧
  match ke.2 with
  | .go i => ∀ x ∈ X.ever, x.inst = (cs ke.1).own → x.ts < i.now
  | _ => True

/-- the extended fleet after a loop event -/
def looped (cs : Nat → LoopCfg) (X : XF) (ke : Nat × Ev) : XF :=
  { F := fleetStep cs X.F ke, cl := X.cl, ever := X.ever ++ delta (cs ke.1) (X.F ke.1) ke.2 }

theorem xstep_loop (N : Naming) (cs : Nat → LoopCfg) (ccfg : Nat → Cleaner.Cfg)
    (sel : SyncLoop.St → List (InstId × Nat)) (X : XF) (ke : Nat × Ev) :
    xstep N cs ccfg sel X (.loop ke) = looped cs X ke := rfl

theorem findBlob_some {b : Bucket} {inst : InstId} {ts : Nat} {blob : Blob}
    (h : findBlob b inst ts = some blob) : blob ∈ b ∧ blob.inst = inst ∧ blob.ts = ts := by
  unfold findBlob at h
  have h1 := List.find?_some h
  simp only [Bool.and_eq_true, beq_iff_eq] at h1
  exact ⟨List.mem_of_find?_eq_some h, h1.1, h1.2⟩

theorem le_upd_of_join {d : Abs.DB} {key : Abs.Key} {v : Ver}
    (h : join (d key) (some v) = some v) : d.le (Abs.upd d key v) := by
  intro k'
  by_cases hk : k' = key
  · subst hk; rw [Abs.upd_same]; exact h
  · rw [Abs.upd_other _ _ _ _ hk]; exact join_idem _

/-- **an event of the loop fleet keeps the invariant** (native mode, not receive-only, distinct
    instance names) -/
theorem xinv_loop (N : Naming) (cs : Nat → LoopCfg) (ccfg : Nat → Cleaner.Cfg) (n : Nat)
    (hn : ∀ j, (cs j).txn.native = true) (hro : ∀ j, (cs j).txn.receiveOnly = false)
    (hown : ∀ i j, i < n → j < n → (cs i).own = (cs j).own → i = j)
    (X : XF) (ke : Nat × Ev) (hinv : XInv N cs n X) (hok : LoopOkX cs n X ke) :
    XInv N cs n (xstep N cs ccfg selCommitted X (.loop ke)) := by
  obtain ⟨k, e⟩ := ke
  obtain ⟨hk, hokN, hclock⟩ := hok
  have hk : k < n := hk
  rw [xstep_loop]
  generalize hX' : looped cs X (k, e) = X'
  have hev : X'.ever = X.ever ++ delta (cs k) (X.F k) e := by rw [← hX']; rfl
  have hcl : X'.cl = X.cl := by rw [← hX']; rfl
  have hF : X'.F = fleetStep cs X.F (k, e) := by rw [← hX']; rfl
  have hbk : ∀ j, (X'.F j).bucket = X.bucket ++ delta (cs k) (X.F k) e := by
    intro j; rw [hF]; exact fleetStep_shared cs X.F (k, e) X.bucket hinv.shared j
  have hoth : ∀ j, j ≠ k → (X'.F j).st = (X.F j).st := by
    intro j hj; rw [hF]; exact (fleetStep_other cs X.F (k, e) hj).1
  have hself : X'.F k = step (cs k) (X.F k) e := by rw [hF]; exact fleetStep_self cs X.F (k, e)
  have hBk : (X.F k).bucket = X.bucket := hinv.shared k
  -- an event that stores nothing and leaves pc / lastBy / committed of `k` alone
  have plain : delta (cs k) (X.F k) e = [] →
      (X'.F k).st.pc = (X.F k).st.pc → (X'.F k).st.lastBy = (X.F k).st.lastBy →
      (X'.F k).st.committed = (X.F k).st.committed →
      EnvWF (X'.F k).st.env → (X.db k).le (X'.db k) → XInv N cs n X' := by
    intro hd hpc hlb hcm hwf hle
    have hdbwf : (X'.db k).WF := absEnv_wf hwf
    refine xinv_update hinv hk X' (by rw [hev, hd, List.append_nil])
      (fun j => by rw [hbk j, hd, List.append_nil]) hcl hoth hwf hle ?_ ?_ ?_ ?_ ?_
    · intro who t ts sn h1
      rw [hpc] at h1; rw [hlb]
      obtain ⟨a1, a2, a3, a4⟩ := hinv.pend k hk who t ts sn h1
      exact ⟨a1, Abs.le_trans (absSnap_wf sn) (XF.db_wf hinv k) hdbwf a2 hle, a3, a4⟩
    · intro p hp
      rw [hlb] at hp
      exact storedBelow_mono (fun _ h => h) (XF.db_wf hinv k) hdbwf hle (hinv.lastBy k hk p hp)
    · intro t lc a T m h1
      rw [hpc] at h1
      exact storedBelow_mono (fun _ h => h) (XF.db_wf hinv k) hdbwf hle (hinv.loadpc k hk t lc a T m h1)
    · intro who t h1
      rw [hpc] at h1; rw [hlb]
      exact hinv.storedpc k hk who t h1
    · intro p hp
      rw [hcm] at hp
      exact hinv.comm k hk p hp
  cases e with
  | list =>
    have hst : (X'.F k).st = listed (X.F k).bucket (X.F k).st := by rw [hself]; rfl
    refine plain rfl (by rw [hst]; rfl) (by rw [hst]; rfl) (by rw [hst]; rfl)
      (by rw [hst]; exact hinv.wf k) ?_
    unfold XF.db; rw [hst]; exact Abs.le_refl _
  | others bs =>
    have hbs : bs = [] := hokN
    subst hbs
    have hst : (X'.F k).st = (X.F k).st := by rw [hself]; rfl
    refine plain rfl (by rw [hst]) (by rw [hst]) (by rw [hst]) (by rw [hst]; exact hinv.wf k) ?_
    unfold XF.db; rw [hst]; exact Abs.le_refl _
  | app ops =>
    obtain ⟨name, key, val, hops, hp, hv, ⟨d, hd, hdup, hik⟩, hmono⟩ := hokN
    subst hops
    have hst : (X'.F k).st = appCommit (X.F k).st [.put name key val] := by rw [hself]; rfl
    have hfacts := appCommit_facts (X.F k).st [.put name key val]
    have hlbc : (appCommit (X.F k).st [.put name key val]).lastBy = (X.F k).st.lastBy ∧
        (appCommit (X.F k).st [.put name key val]).committed = (X.F k).st.committed := by
      unfold appCommit; split <;> exact ⟨rfl, rfl⟩
    have henv : EnvWF (X'.F k).st.env ∧ (X.db k).le (X'.db k) := by
      unfold XF.db
      rw [hst, appCommit_env]
      cases hk' : badKey key with
      | true =>
        have hnone : appTxn (X.F k).st.env [.put name key val] = none := by
          simp [appTxn, appRefused, hd, hk']
        rw [hnone]
        exact ⟨hinv.wf k, Abs.le_refl _⟩
      | false =>
        obtain ⟨e', he', hwf', habs⟩ :=
          appPut_abs (X.F k).st.env name key val d (hinv.wf k) hd hp hdup hik hk' hv
        rw [he']
        simp only
        rw [habs]
        exact ⟨hwf', le_upd_of_join hmono⟩
    exact plain rfl (by rw [hst]; exact hfacts.1) (by rw [hst]; exact hlbc.1) (by rw [hst]; exact hlbc.2)
      henv.1 henv.2
  | go i =>
    obtain ⟨hT, hflags⟩ := hokN
    have hT : (X.F k).st.env.lastTxn + 1 < two64 := hT
    have hclock : ∀ x ∈ X.ever, x.inst = (cs k).own → x.ts < i.now := hclock
    have hst : (X'.F k).st = (go (cs k) (X.F k).bucket (X.F k).st i).1 := by rw [hself]; rfl
    obtain ⟨hlb, hcm, hstored⟩ := go_books (cs k) (X.F k).bucket (X.F k).st i
    rw [← hst] at hlb hcm hstored
    have hshape := go_shape (cs k) (X.F k).bucket (X.F k).st i
    rw [← hst] at hshape
    have hgob : (go (cs k) (X.F k).bucket (X.F k).st i).2 =
        (X.F k).bucket ++ delta (cs k) (X.F k) (.go i) := step_bucket_delta (cs k) (X.F k) (.go i)
    have hbe : bootEnv (cs k) (X.F k).st.env = .ok (X.F k).st.env := by
      unfold bootEnv; simp [hn k]
    rcases delta_go (cs k) (X.F k) i with hd0 | ⟨who, t, ts, sn, hpc, _, hd1⟩
    · -- nothing is stored
      have hnostored : ∀ who t, (X'.F k).st.pc ≠ .sendStored who t := by
        intro who t h1
        obtain ⟨_, _, _, _, _, _, h2⟩ := hstored who t h1
        rw [hgob, hd0, List.append_nil] at h2
        have := congrArg List.length h2
        simp at this
      -- `lastBy` and `committed` after the segment are covered
      have hlast' : ∀ (D : Abs.DB), D.WF → (X.db k).le D →
          ∀ p ∈ (X'.F k).st.lastBy, StoredBelow X.ever p.1 p.2 D := by
        intro D hD hle p hp
        rw [hlb] at hp
        unfold lastByAfter at hp
        split at hp
        · rename_i t lc a T m hpc
          rcases mem_setAssoc hp with h1 | h1
          · rw [h1]
            exact storedBelow_mono (fun _ h => h) (XF.db_wf hinv k) hD hle (hinv.loadpc k hk t lc a T m hpc)
          · exact storedBelow_mono (fun _ h => h) (XF.db_wf hinv k) hD hle (hinv.lastBy k hk p h1)
        · exact storedBelow_mono (fun _ h => h) (XF.db_wf hinv k) hD hle (hinv.lastBy k hk p hp)
      have hcomm' : ∀ p ∈ (X'.F k).st.committed,
          ∃ (q : Nat) (d : Blob), X.ever[q]? = some d ∧ StoredBefore X.ever p.1 p.2 q d := by
        intro p hp
        rw [hcm] at hp
        unfold committedAfter at hp
        split at hp
        · rename_i who t hpc
          rcases mem_foldl_setAssoc _ _ p hp with h1 | h1
          · obtain ⟨q, d, hq, hall⟩ := hinv.storedpc k hk who t hpc
            exact ⟨q, d, hq, hall p h1⟩
          · exact hinv.comm k hk p h1
        · exact hinv.comm k hk p hp
      have hev0 : X'.ever = X.ever := by rw [hev, hd0, List.append_nil]
      have hbk0 : ∀ j, (X'.F j).bucket = X.bucket := fun j => by rw [hbk j, hd0, List.append_nil]
      -- a segment without a transaction of its own
      have quietCase : (X'.F k).st.env = (X.F k).st.env → notSendPc (X'.F k).st.pc →
          notLoadPc (X'.F k).st.pc → XInv N cs n X' := by
        intro henv h2 h3
        have hdb : X'.db k = X.db k := by unfold XF.db; rw [henv]
        refine xinv_update hinv hk X' hev0 hbk0 hcl hoth (by rw [henv]; exact hinv.wf k)
          (by rw [hdb]; exact Abs.le_refl _) ?_ ?_ ?_ ?_ hcomm'
        · intro who t ts sn h1; exact absurd h1 (h2 who t ts sn)
        · rw [hdb]; exact hlast' (X.db k) (XF.db_wf hinv k) (Abs.le_refl _)
        · intro t lc a T m h1; exact absurd h1 (h3 t lc a T m)
        · intro who t h1; exact absurd h1 (hnostored who t)
      -- a segment in which `SendOnce`'s transaction committed
      have sendCase : ∀ (r : SendRes) who t, sendOnce (cs k).txn (X.F k).st.env i.now 0 = .ok r →
          (X'.F k).st.env = r.env → (X'.F k).st.pc = .sendAfterTxn who t i.now r.snap →
          (X'.F k).st.lastBy = (X.F k).st.lastBy → XInv N cs n X' := by
        intro r who t hs henv hpc' hlb'
        obtain ⟨hre, habs, hnd, hms⟩ := sendOnce_abs (cs k).txn (X.F k).st.env i.now 0 r (hn k) (hro k)
          (hinv.wf k) hs
        have hsnok : SnapOk r.snap := ⟨hnd, fun m hm _ => (hms m hm).2.1⟩
        have hsn : absSnap r.snap = X.db k := funext habs
        have hdb : X'.db k = X.db k := by unfold XF.db; rw [henv, hre]
        refine xinv_update hinv hk X' hev0 hbk0 hcl hoth (by rw [henv, hre]; exact hinv.wf k)
          (by rw [hdb]; exact Abs.le_refl _) ?_ ?_ ?_ ?_ hcomm'
        · intro who' t' ts' sn' h1
          rw [hpc'] at h1
          injection h1 with _ _ e3 e4
          subst e3 e4
          rw [hsn, hdb]
          refine ⟨hsnok, Abs.le_refl _, fun x hx hi => ⟨hclock x hx hi, hinv.own k hk x hx hi⟩, ?_⟩
          intro p hp
          rw [hlb'] at hp
          exact hinv.lastBy k hk p hp
        · rw [hdb]; exact hlast' (X.db k) (XF.db_wf hinv k) (Abs.le_refl _)
        · intro t' lc a T m h1; rw [hpc'] at h1; cases h1
        · intro who' t' h1; rw [hpc'] at h1; cases h1
      cases hshape with
      | quiet h1 h2 h3 => exact quietCase h1 h2 h3
      | bootNoSend env1 h1 h2 h3 h4 h5 =>
        rw [hbe] at h2; injection h2 with h2; subst h2
        exact quietCase h3 h4 h5
      | send r h1 h2 h3 h4 =>
        refine sendCase r _ _ h2 h3 h4 ?_
        rw [hlb]; unfold lastByAfter; rw [h1]
      | bootSend env1 r h1 h2 h3 h4 h5 =>
        rw [hbe] at h2; injection h2 with h2; subst h2
        refine sendCase r _ _ h3 h4 h5 ?_
        rw [hlb]; unfold lastByAfter; rw [h1]
      | load s1 m inst ts blob r h1 h2 hx hy h3 h4 h5 h6 =>
        obtain ⟨_, hbi, hbt⟩ := findBlob_some hy
        rw [hBk] at h3
        have hbE := hinv.sub blob h3
        have hsw : SnapWF (cs k).txn (X.F k).st.env blob.snap :=
          ⟨hinv.ok blob hbE, fun mm hm hp => hflags inst ts blob hx hy mm hm hp⟩
        obtain ⟨hwf', habs⟩ := loadOnce_abs (cs k).txn (X.F k).st.env blob.snap s1.lastSynced i.now r
          (hn k) hT (hinv.wf k) hsw h4
        have hdb : X'.db k = (X.db k).join (blobDB blob) := by
          unfold XF.db; rw [h5]; funext key; exact habs key
        have hdbwf : (X'.db k).WF := by
          rw [hdb]; exact Abs.join_wf' (XF.db_wf hinv k) (blobDB_wf blob)
        have hle : (X.db k).le (X'.db k) := by
          rw [hdb]; exact Abs.le_join_left (XF.db_wf hinv k) (blobDB_wf blob)
        refine xinv_update hinv hk X' hev0 hbk0 hcl hoth (by rw [h5]; exact hwf') hle ?_
          (hlast' (X'.db k) hdbwf hle) ?_ ?_ hcomm'
        · intro who' t' ts' sn' h7; rw [h6] at h7; cases h7
        · intro t' lc a T m' h7
          rw [h6] at h7
          injection h7 with _ _ e3 e4 _
          subst e3 e4
          refine ⟨blob, hbE, hbi, hbt, ?_⟩
          rw [hdb]; exact Abs.le_join_right (XF.db_wf hinv k) (blobDB_wf blob)
        · intro who' t' h7; rw [h6] at h7; cases h7
    · -- the storing segment
      have hstores : storesB (cs k) (X.F k).st i = true := by
        cases hb : storesB (cs k) (X.F k).st i with
        | true => rfl
        | false => simp [delta, hb] at hd1
      obtain ⟨_, _, hfails⟩ := (storesB_iff (cs k) (X.F k).st i).mp hstores
      have hraw := goRaw_sendAfterTxn (c := cs k) (b := (X.F k).bucket) (i := i) hpc
      rw [if_neg (by rw [hro k]; simp), if_neg (by omega)] at hraw
      obtain ⟨gpc, _, genv, _⟩ := go_pc (cs k) (X.F k).bucket (X.F k).st i
      refine xinv_store hinv hown hk X' hpc (by rw [hev, hd1]) (fun j => by rw [hbk j, hd1]) hcl hoth
        ?_ ?_ ?_ ?_
      · rw [hst, genv, hraw]
      · rw [hlb]; unfold lastByAfter; rw [hpc]
      · rw [hcm]; unfold committedAfter; rw [hpc]
      · exact ⟨_, _, by rw [hst, gpc, hraw]⟩

/-! ## 8. schedules of the extended fleet -/

/-- the side condition of an event -/
def XOk (cs : Nat → LoopCfg) (n : Nat) (X : XF) : XEv → Prop
  | .loop ke => LoopOkX cs n X ke
  | .clean k now => CleanOk n X k now

def XRunOk (N : Naming) (cs : Nat → LoopCfg) (ccfg : Nat → Cleaner.Cfg) (n : Nat) : XF → List XEv → Prop
  | _, [] => True
  | X, e :: es => XOk cs n X e ∧ XRunOk N cs ccfg n (xstep N cs ccfg selCommitted X e) es

theorem xstep_ever (N : Naming) (cs : Nat → LoopCfg) (ccfg : Nat → Cleaner.Cfg)
    (sel : SyncLoop.St → List (InstId × Nat)) (X : XF) (e : XEv) (p : Nat) (x : Blob)
    (h : X.ever[p]? = some x) : (xstep N cs ccfg sel X e).ever[p]? = some x := by
  cases e with
  | loop ke => exact getElem?_append_old _ h
  | clean k now => exact h

/-- **one event**: the invariant is kept and the join over the newest blobs does not decrease -/
theorem xinv_step (N : Naming) (cs : Nat → LoopCfg) (ccfg : Nat → Cleaner.Cfg) (n : Nat)
    (hn : ∀ j, (cs j).txn.native = true) (hro : ∀ j, (cs j).txn.receiveOnly = false)
    (hown : ∀ i j, i < n → j < n → (cs i).own = (cs j).own → i = j)
    (X : XF) (e : XEv) (hinv : XInv N cs n X) (hok : XOk cs n X e) :
    XInv N cs n (xstep N cs ccfg selCommitted X e) ∧
    (bucketJoin X.bucket).le (bucketJoin (xstep N cs ccfg selCommitted X e).bucket) := by
  have h' : XInv N cs n (xstep N cs ccfg selCommitted X e) := by
    cases e with
    | loop ke => exact xinv_loop N cs ccfg n hn hro hown X ke hinv hok
    | clean k now => exact xinv_clean N cs ccfg n X k now hinv hok
  exact ⟨h', bucketJoin_mono_of_inv hinv h' (xstep_ever N cs ccfg selCommitted X e)⟩

theorem xrun_append (N : Naming) (cs : Nat → LoopCfg) (ccfg : Nat → Cleaner.Cfg)
    (sel : SyncLoop.St → List (InstId × Nat)) (X : XF) (a b : List XEv) :
    xrun N cs ccfg sel X (a ++ b) = xrun N cs ccfg sel (xrun N cs ccfg sel X a) b := List.foldl_append

theorem xrunOk_append {N : Naming} {cs : Nat → LoopCfg} {ccfg : Nat → Cleaner.Cfg} {n : Nat} :
    ∀ (a b : List XEv) (X : XF), XRunOk N cs ccfg n X (a ++ b) →
      XRunOk N cs ccfg n X a ∧ XRunOk N cs ccfg n (xrun N cs ccfg selCommitted X a) b := by
  intro a
  induction a with
  | nil => intro b X h; exact ⟨trivial, h⟩
  | cons e es ih =>
    intro b X h
    obtain ⟨h1, h2⟩ := h
    obtain ⟨h3, h4⟩ := ih b _ h2
    exact ⟨⟨h1, h3⟩, h4⟩

/-- **every schedule**: the invariant is kept and the join over the newest blobs at the end is at
    least the join at the start -/
theorem xinv_run (N : Naming) (cs : Nat → LoopCfg) (ccfg : Nat → Cleaner.Cfg) (n : Nat)
    (hn : ∀ j, (cs j).txn.native = true) (hro : ∀ j, (cs j).txn.receiveOnly = false)
    (hown : ∀ i j, i < n → j < n → (cs i).own = (cs j).own → i = j) :
    ∀ (evs : List XEv) (X : XF), XInv N cs n X → XRunOk N cs ccfg n X evs →
      XInv N cs n (xrun N cs ccfg selCommitted X evs) ∧
      (bucketJoin X.bucket).le (bucketJoin (xrun N cs ccfg selCommitted X evs).bucket) := by
  intro evs
  induction evs with
  | nil => intro X h _; exact ⟨h, Abs.le_refl _⟩
  | cons e es ih =>
    intro X h hok
    obtain ⟨h1, h2⟩ := xinv_step N cs ccfg n hn hro hown X e h hok.1
    obtain ⟨h3, h4⟩ := ih _ h1 hok.2
    exact ⟨h3, Abs.le_trans (bucketJoin_wf _) (bucketJoin_wf _) (bucketJoin_wf _) h2 h4⟩

/-- the start: every loop boots from its own well-formed environment, fresh cleaners, empty bucket -/
def xinit (envs : Nat → Env) : XF :=
  { F := fun j => G.init (envs j) [], cl := fun _ => Cleaner.St.init, ever := [] }

theorem xinv_init (N : Naming) (cs : Nat → LoopCfg) (n : Nat) (envs : Nat → Env)
    (hwf : ∀ j, EnvWF (envs j)) : XInv N cs n (xinit envs) := by
  refine
    { shared := fun _ => rfl, nodup := List.nodup_nil, wf := hwf, sub := fun _ h => (by cases h),
      ok := fun _ h => (by cases h), ord := fun p q x y _ h => (by simp [xinit] at h),
      own := fun _ _ _ h => (by cases h), pend := ?_, lastBy := fun _ _ _ h => (by cases h),
      loadpc := ?_, storedpc := ?_, comm := fun _ _ _ h => (by cases h),
      wit := fun p x h => (by simp [xinit] at h), clig := fun _ _ h => (by cases h),
      clfs := fun _ _ h => (by cases h), clkeys := fun _ _ _ h => (by simp [xinit, Cleaner.St.init, Cleaner.look] at h) }
  · intro j _ who t ts sn h; simp [xinit, G.init, SyncLoop.init] at h
  · intro j _ t lc a T m h; simp [xinit, G.init, SyncLoop.init] at h
  · intro j _ who t h; simp [xinit, G.init, SyncLoop.init] at h

/-! ## 9. a lawful naming, and handy forms of the side conditions -/

/-- a naming that is easy to parse back: the timestamp in unary, `@`, the instance name -/
def unaryNm (a : InstId) (t : Nat) : String := String.ofList (List.replicate t '1' ++ '@' :: a.toList)

def unaryParse : Cleaner.Parse := fun nme =>
  match nme.toList.dropWhile (· == '1') with
  | '@' :: rest =>
    some { kind := Gen.kindSnapshot, inst := String.ofList rest,
           ts := ((nme.toList.takeWhile (· == '1')).length : Int) }
  | _ => none

theorem takeWhile_ones (t : Nat) (l : List Char) :
    (List.replicate t '1' ++ '@' :: l).takeWhile (· == '1') = List.replicate t '1' ∧
    (List.replicate t '1' ++ '@' :: l).dropWhile (· == '1') = '@' :: l := by
  induction t with
  | zero => simp
  | succ t ih =>
    rw [List.replicate_succ, List.cons_append, List.takeWhile_cons, List.dropWhile_cons]
    simp [ih.1, ih.2]

def unaryNaming : Naming where
  nm := unaryNm
  parse := unaryParse
  law := by
    intro a t
    unfold unaryParse unaryNm
    rw [String.toList_ofList, (takeWhile_ones t a.toList).1, (takeWhile_ones t a.toList).2]
    simp

theorem loopOkN_put {cs : Nat → LoopCfg} {F : Fleet} {k : Nat} {name key val : Bytes}
    (hp : isPrivate name = false) (hv : StoredWF val)
    (hd : (findDbi (F k).st.env.dbis name).map
      (fun d => decide (isDupSort d.flags = false ∧ isIntKey d.flags = false)) = some true)
    (hmono : join (absEnv (F k).st.env (name, key)) (some (verOf val)) = some (verOf val)) :
    LoopOkN cs F (k, .app [.put name key val]) := by
  refine ⟨name, key, val, rfl, hp, hv, ?_, hmono⟩
  cases hf : findDbi (F k).st.env.dbis name with
  | none => rw [hf] at hd; cases hd
  | some d =>
    rw [hf] at hd
    simp only [Option.map_some, Option.some.injEq, decide_eq_true_eq] at hd
    exact ⟨d, rfl, hd.1, hd.2⟩

theorem loopOkX_go {cs : Nat → LoopCfg} {n : Nat} {X : XF} {k : Nat} (i : In) (hk : k < n)
    (hT : (X.F k).st.env.lastTxn + 1 < two64)
    (hall : ∀ blob ∈ (X.F k).bucket, ∀ m ∈ blob.snap.dbs, isPrivate m.name = false →
      FlagsOk (cs k).txn (X.F k).st.env.dbis m)
    (hclock : ∀ x ∈ X.ever, x.inst = (cs k).own → x.ts < i.now) : LoopOkX cs n X (k, .go i) :=
  ⟨hk, loopOkN_go i hT hall, hclock⟩

theorem loopOkX_put {cs : Nat → LoopCfg} {n : Nat} {X : XF} {k : Nat} {name key val : Bytes} (hk : k < n)
    (hp : isPrivate name = false) (hv : StoredWF val)
    (hd : (findDbi (X.F k).st.env.dbis name).map
      (fun d => decide (isDupSort d.flags = false ∧ isIntKey d.flags = false)) = some true)
    (hmono : join (absEnv (X.F k).st.env (name, key)) (some (verOf val)) = some (verOf val)) :
    LoopOkX cs n X (k, .app [.put name key val]) :=
  ⟨hk, loopOkN_put hp hv hd hmono, trivial⟩

end Ls.Loop
