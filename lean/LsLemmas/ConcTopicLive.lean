import LsLemmas.ConcTopic
/-
  Progress facts of the Topic model: who can step in a state satisfying the invariant.
-/
namespace Ls.Conc.Topic

theorem subOk_counts {fixed : Bool} {sb : Sub} (h : subOk fixed sb = true) :
    sb.nClosing = sb.closing.toNat ∧ sb.nCh = sb.chClosed.toNat := by
  simp only [subOk, Bool.and_eq_true, beq_iff_eq] at h
  exact ⟨h.1.1, h.1.2⟩

/-- facts of the local discipline used below -/
theorem subOk_facts {fixed : Bool} {sb : Sub} (h : subOk fixed sb = true) :
    (sb.pc = .cLock → sb.smu = false) ∧ (sb.pc = .cLockT → sb.closing = fixed) ∧
    (sb.pc = .nextWait → sb.chClosed = false) ∧ (sb.pc = .cCheck → sb.inMap = true → sb.topicNil = false) ∧
    (sb.pc = .cClosing → fixed = true) := by
  obtain ⟨pc, smu, tn, im, cl, cc, n1, n2, got⟩ := sb
  cases pc <;> cases fixed <;> cases tn <;> cases cc <;> simp_all [subOk, phase]

/-- a subscriber that is not finished can step, unless it waits in `Next` for a value or for the
    cancellation, or it waits for the topic mutex while somebody holds it -/
theorem sub_progress {k : Nat} {s : St} (h : Inv k s) {i : Nat} {sb : Sub} (hi : s.subs[i]? = some sb)
    (hd : sb.pc ≠ .done) :
    (∃ a, guard s (.sub i a) = true) ∨ (sb.pc = .nextWait ∧ s.cancelled = false) ∨
    ((sb.pc = .start ∨ sb.pc = .cLockT) ∧ s.tmu ≠ none) := by
  have hf := subOk_facts (h.loc i sb hi)
  cases hpc : sb.pc with
  | start =>
    cases ht : s.tmu with
    | none => exact Or.inl ⟨.subLock, by simp [guard, hi, subGuard, hpc, ht]⟩
    | some x => exact Or.inr (Or.inr ⟨Or.inl rfl, by simp⟩)
  | subscribing => exact Or.inl ⟨.subInsert, by simp [guard, hi, subGuard, hpc]⟩
  | ready => exact Or.inl ⟨.nextCall, by simp [guard, hi, subGuard, hpc]⟩
  | nextWait =>
    cases hc : s.cancelled with
    | false => exact Or.inr (Or.inl ⟨rfl, rfl⟩)
    | true => exact Or.inl ⟨.ctxDone, by simp [guard, hi, subGuard, hpc, hc]⟩
  | cLock => exact Or.inl ⟨.lockS, by simp [guard, hi, subGuard, hpc, hf.1 hpc]⟩
  | cCheck => exact Or.inl ⟨.check, by simp [guard, hi, subGuard, hpc]⟩
  | cClosing => exact Or.inl ⟨.closeClosing, by simp [guard, hi, subGuard, hpc]⟩
  | cLockT =>
    cases ht : s.tmu with
    | none => exact Or.inl ⟨.lockT, by simp [guard, hi, subGuard, hpc, ht]⟩
    | some x => exact Or.inr (Or.inr ⟨Or.inr rfl, by simp⟩)
  | cUnsub => exact Or.inl ⟨.unsub, by simp [guard, hi, subGuard, hpc]⟩
  | cUnlockT => exact Or.inl ⟨.unlockT, by simp [guard, hi, subGuard, hpc]⟩
  | cNil => exact Or.inl ⟨.setNil, by simp [guard, hi, subGuard, hpc]⟩
  | cUnlockS => exact Or.inl ⟨.unlockS, by simp [guard, hi, subGuard, hpc]⟩
  | closedIdle => exact Or.inl ⟨.finish, by simp [guard, hi, subGuard, hpc]⟩
  | done => exact absurd hpc hd

/-- the subscriber a publisher is blocked on: it is subscribed, its channel is open, and it is at
    one of six program counters -/
theorem blocked_on {k : Nat} {s : St} (h : Inv k s) {i : Nat} {todo : List Nat}
    (hp : s.pub = .sending i todo) :
    ∃ sb, s.subs[i]? = some sb ∧ sb.inMap = true ∧ sb.chClosed = false ∧ sb.topicNil = false ∧
      (sb.pc = .ready ∨ sb.pc = .nextWait ∨ sb.pc = .cLock ∨ sb.pc = .cCheck ∨ sb.pc = .cClosing ∨
       sb.pc = .cLockT) := by
  obtain ⟨sb, hi, hm⟩ := h.pend i (by simp [hp, pending])
  obtain ⟨h1, h2, h3⟩ := subOk_inMap (h.loc i sb hi) hm
  refine ⟨sb, hi, hm, h1, h2, ?_⟩
  rcases h3 with h3 | h3 | h3 | h3 | h3 | h3 | h3
  · exact Or.inl h3
  · exact Or.inr (Or.inl h3)
  · exact Or.inr (Or.inr (Or.inl h3))
  · exact Or.inr (Or.inr (Or.inr (Or.inl h3)))
  · exact Or.inr (Or.inr (Or.inr (Or.inr (Or.inl h3))))
  · exact Or.inr (Or.inr (Or.inr (Or.inr (Or.inr h3))))
  · -- at cUnsub the subscriber would hold the mutex that the publisher holds
    have h4 := (h.subT i sb hi).mp (by simp [h3, holdsT])
    have h5 := h.pubT.mp (by simp [hp, pubHolds])
    rw [h4] at h5; cases h5

/-- whoever holds the topic mutex (or, for the publisher blocked in a send, the subscriber it is
    blocked on) can step: the mutex is never held forever -/
theorem holder_progress {k : Nat} {s : St} (h : Inv k s) (hfix : s.fixed = true) {x : Tid}
    (ht : s.tmu = some x) : ∃ a, a ≠ .cancel ∧ guard s a = true := by
  cases x with
  | sub i =>
    have hil := h.tmuSub i ht
    obtain ⟨sb, hi⟩ : ∃ sb, s.subs[i]? = some sb := ⟨s.subs[i], List.getElem?_eq_getElem hil⟩
    have hh := (h.subT i sb hi).mpr ht
    cases hpc : sb.pc <;> simp [hpc, holdsT] at hh
    · exact ⟨.sub i .subInsert, by simp, by simp [guard, hi, subGuard, hpc]⟩
    · exact ⟨.sub i .unsub, by simp, by simp [guard, hi, subGuard, hpc]⟩
    · exact ⟨.sub i .unlockT, by simp, by simp [guard, hi, subGuard, hpc]⟩
  | pub =>
    have hh := h.pubT.mpr ht
    cases hp : s.pub <;> simp [hp, pubHolds] at hh
    · rename_i todo
      cases todo with
      | nil => exact ⟨.pubUnlock, by simp, by simp [guard, hp]⟩
      | cons j t => exact ⟨.pubPick j, by simp, by simp [guard, hp]⟩
    · rename_i i todo
      obtain ⟨sb, hi, _, hc, _, hpc⟩ := blocked_on h hp
      have hf := subOk_facts (h.loc i sb hi)
      rcases hpc with hpc | hpc | hpc | hpc | hpc | hpc
      · exact ⟨.sub i .nextCall, by simp, by simp [guard, hi, subGuard, hpc]⟩
      · exact ⟨.pubDeliver, by simp, by simp [guard, hp, hi, hpc, hc]⟩
      · exact ⟨.sub i .lockS, by simp, by simp [guard, hi, subGuard, hpc, hf.1 hpc]⟩
      · exact ⟨.sub i .check, by simp, by simp [guard, hi, subGuard, hpc]⟩
      · exact ⟨.sub i .closeClosing, by simp, by simp [guard, hi, subGuard, hpc]⟩
      · exact ⟨.pubSkip, by simp, by simp [guard, hp, hi, hfix, hf.2.1 hpc]⟩

/-- the only states without an enabled goroutine step: the publisher has finished and every
    unfinished subscriber waits in `Next` for a value, not cancelled -/
def Quiescent (s : St) : Prop :=
  s.pub = .done ∧ s.cancelled = false ∧ ∀ sb ∈ s.subs, sb.pc = .done ∨ sb.pc = .nextWait

theorem progress {k : Nat} {s : St} (h : Inv k s) (hfix : s.fixed = true) (hnd : ¬ allDone s) :
    (∃ a, a ≠ .cancel ∧ guard s a = true) ∨ Quiescent s := by
  cases ht : s.tmu with
  | some x => exact Or.inl (holder_progress h hfix ht)
  | none =>
    cases hp : s.pub with
    | idle => exact Or.inl ⟨.pubCall, by simp, by simp [guard, hp]⟩
    | lockWait => exact Or.inl ⟨.pubLock, by simp, by simp [guard, hp, ht]⟩
    | loop todo => have := h.pubT.mp (by simp [hp, pubHolds]); rw [ht] at this; cases this
    | sending i todo => have := h.pubT.mp (by simp [hp, pubHolds]); rw [ht] at this; cases this
    | panic => exact absurd hp h.noPanic
    | done =>
      by_cases hq : ∀ sb ∈ s.subs, sb.pc = .done ∨ sb.pc = .nextWait
      · cases hc : s.cancelled with
        | false => exact Or.inr ⟨hp, hc, hq⟩
        | true =>
          -- some subscriber is not done: it is in Next and the context is cancelled
          have : ∃ sb ∈ s.subs, sb.pc ≠ .done := by
            apply Classical.byContradiction; intro hno
            apply hnd; refine ⟨hp, fun sb hsb => ?_⟩
            apply Classical.byContradiction; intro hne; exact hno ⟨sb, hsb, hne⟩
          obtain ⟨sb, hsb, hne⟩ := this
          obtain ⟨i, hi⟩ := List.mem_iff_getElem?.mp hsb
          have hw : sb.pc = .nextWait := (hq sb hsb).resolve_left hne
          exact Or.inl ⟨.sub i .ctxDone, by simp, by simp [guard, hi, subGuard, hw, hc]⟩
      · have : ∃ sb ∈ s.subs, sb.pc ≠ .done ∧ sb.pc ≠ .nextWait := by
          apply Classical.byContradiction; intro hno
          apply hq; intro sb hsb
          apply Classical.byContradiction; intro hne
          exact hno ⟨sb, hsb, fun e => hne (Or.inl e), fun e => hne (Or.inr e)⟩
        obtain ⟨sb, hsb, hne, hnw⟩ := this
        obtain ⟨i, hi⟩ := List.mem_iff_getElem?.mp hsb
        rcases sub_progress h hi hne with ⟨a, ha⟩ | ⟨hw, _⟩ | ⟨_, hn⟩
        · exact Or.inl ⟨.sub i a, by simp, ha⟩
        · exact absurd hw hnw
        · exact absurd ht hn

theorem not_stuck {k : Nat} {s : St} (h : Inv k s) (hfix : s.fixed = true) : ¬ Stuck s := by
  intro ⟨hnd, hno⟩
  rcases progress h hfix hnd with ⟨a, _, ha⟩ | ⟨_, hc, _⟩
  · rw [hno a] at ha; cases ha
  · have := hno .cancel; simp [guard, hc] at this

/-- a step that is neither of subscriber `i` nor a completion of the blocked send leaves the
    publisher blocked on `i` and subscriber `i` as it is -/
theorem blocked_stable {s : St} {i : Nat} {todo : List Nat} (hp : s.pub = .sending i todo) (a : Step)
    (hg : guard s a = true) (h1 : a ≠ .pubDeliver) (h2 : a ≠ .pubSkip) (h3 : a ≠ .pubSendClosed)
    (h4 : ∀ b, a ≠ .sub i b) : (next s a).pub = s.pub ∧ (next s a).subs[i]? = s.subs[i]? := by
  cases a with
  | pubCall => simp [guard, hp] at hg
  | pubFinish => simp [guard, hp] at hg
  | pubLock => simp [guard, hp] at hg
  | pubPick j => simp [guard, hp] at hg
  | pubDeliver => exact absurd rfl h1
  | pubSkip => exact absurd rfl h2
  | pubSendClosed => exact absurd rfl h3
  | pubUnlock => simp [guard, hp] at hg
  | cancel => simp [next]
  | sub j b =>
    have hne : j ≠ i := fun e => h4 b (by rw [e])
    cases hj : s.subs[j]? with
    | none => simp [next, hj]
    | some sb => simp [next, hj, List.getElem?_set_ne hne]

/-- every own step of the subscriber a publisher is blocked on brings the publisher's release
    nearer -/
theorem blocked_measure {k : Nat} {s : St} (h : Inv k s) (hfix : s.fixed = true) {i : Nat}
    {todo : List Nat} (hp : s.pub = .sending i todo) :
    ∃ sb, s.subs[i]? = some sb ∧
      (waitDist sb.pc = 0 → guard s .pubDeliver = true ∨ guard s .pubSkip = true) ∧
      (0 < waitDist sb.pc → (∃ a, guard s (.sub i a) = true) ∧
        ∀ a, guard s (.sub i a) = true → ∃ sb', (next s (.sub i a)).subs[i]? = some sb' ∧
          waitDist sb'.pc < waitDist sb.pc ∧ (next s (.sub i a)).pub = .sending i todo) := by
  obtain ⟨sb, hi, hm, hc, htn, hpc⟩ := blocked_on h hp
  have hil : i < s.subs.length := by
    rcases Nat.lt_or_ge i s.subs.length with h1 | h1
    · exact h1
    · rw [List.getElem?_eq_none h1] at hi; cases hi
  have hf := subOk_facts (h.loc i sb hi)
  refine ⟨sb, hi, ?_, ?_⟩
  · intro hz
    rcases hpc with hpc | hpc | hpc | hpc | hpc | hpc <;> simp [hpc, waitDist] at hz
    · exact Or.inl (by simp [guard, hp, hi, hpc, hc])
    · exact Or.inr (by simp [guard, hp, hi, hfix, hf.2.1 hpc])
  · intro hz
    refine ⟨?_, ?_⟩
    · rcases hpc with hpc | hpc | hpc | hpc | hpc | hpc <;> simp [hpc, waitDist] at hz
      · exact ⟨.nextCall, by simp [guard, hi, subGuard, hpc]⟩
      · exact ⟨.lockS, by simp [guard, hi, subGuard, hpc, hf.1 hpc]⟩
      · exact ⟨.check, by simp [guard, hi, subGuard, hpc]⟩
      · exact ⟨.closeClosing, by simp [guard, hi, subGuard, hpc]⟩
    · intro a ha
      simp only [guard, hi] at ha
      refine ⟨subLoc s.fixed sb a, by simp only [next, hi]; simp [hil], ?_, by simp [next, hi, hp]⟩
      obtain ⟨pc, smu, tn, im, cl, cc, n1, n2, got⟩ := sb
      simp only at hpc htn hfix
      rw [hfix]
      rcases hpc with rfl | rfl | rfl | rfl | rfl | rfl <;> simp [waitDist] at hz <;>
        cases a <;> simp [subGuard] at ha <;> simp_all [subLoc, waitDist]

/-- inside `Publish` the number of subscribers still to be served never grows and each delivery
    or skip lowers it by one -/
theorem remaining_step {s : St} (a : Step) (hg : guard s a = true) (hh : pubHolds s.pub = true) :
    pubRemaining (next s a).pub ≤ pubRemaining s.pub ∧
    ((a = .pubDeliver ∨ a = .pubSkip) → pubRemaining (next s a).pub + 1 = pubRemaining s.pub) := by
  cases a with
  | pubCall => simp [guard] at hg; simp [hg, pubHolds] at hh
  | pubFinish => simp [guard] at hg; simp [hg, pubHolds] at hh
  | pubLock => simp [guard] at hg; simp [hg, pubHolds] at hh
  | pubPick i =>
    cases hp : s.pub <;> simp [guard, hp] at hg
    rename_i todo
    have hlen : (todo.erase i).length + 1 = todo.length := by
      rw [List.length_erase_of_mem hg]
      have : 0 < todo.length := List.length_pos_of_mem hg
      omega
    simp [next, hp, pubRemaining, hlen]
  | pubDeliver =>
    cases hp : s.pub <;> simp [guard, hp] at hg
    rename_i i todo
    cases hi : s.subs[i]? with
    | none => simp [hi] at hg
    | some sb => simp [next, hp, hi, pubRemaining]
  | pubSkip =>
    cases hp : s.pub <;> simp [guard, hp] at hg
    simp [next, hp, pubRemaining]
  | pubSendClosed => simp [next, pubRemaining]
  | pubUnlock => simp [next, pubRemaining]
  | cancel => simp [next]
  | sub j b =>
    cases hj : s.subs[j]? with
    | none => simp [next, hj]
    | some sb => simp [next, hj]

/-- the end of a schedule that `run` accepts is reachable -/
theorem reach_run {fixed : Bool} {k : Nat} {s s' : St} (h : Reach fixed k s) (l : List Step)
    (hr : run s l = some s') : Reach fixed k s' := by
  induction l generalizing s with
  | nil => simp [run] at hr; subst hr; exact h
  | cons a rest ih =>
    simp only [run] at hr
    split at hr
    · rename_i hg; exact ih (Reach.step a h hg) hr
    · cases hr

end Ls.Conc.Topic
