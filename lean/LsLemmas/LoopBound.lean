import LsLemmas.LoopWitness
/-
  How many blobs an instance still stores once applications have stopped writing: a potential
  (`owed`) over the yield points that never grows along a continuation without recorded
  application transactions and drops by one with every segment that stores.
-/
namespace Ls.Loop
open Ls Ls.Txn Ls.SyncLoop

/-! ## counting the segments that store -/

def isSendAfterTxn : Pc → Bool
  | .sendAfterTxn .. => true
  | _ => false

/-- `Stores` as a Boolean -/
def storesB (c : LoopCfg) (s : St) (i : In) : Bool :=
  isSendAfterTxn s.pc && !c.txn.receiveOnly && decide (i.fails < c.retryCount)

theorem storesB_iff (c : LoopCfg) (s : St) (i : In) : storesB c s i = true ↔ Stores c s i := by
  unfold storesB Stores
  constructor
  · intro h
    simp only [Bool.and_eq_true, Bool.not_eq_true', decide_eq_true_eq] at h
    refine ⟨?_, h.1.2, h.2⟩
    cases hpc : s.pc with
    | sendAfterTxn who t ts snap => exact ⟨who, t, ts, snap, rfl⟩
    | _ => rw [hpc] at h; exact absurd h.1.1 (by simp [isSendAfterTxn])
  · rintro ⟨⟨who, t, ts, snap, hpc⟩, h2, h3⟩
    simp only [Bool.and_eq_true, Bool.not_eq_true', decide_eq_true_eq]
    exact ⟨⟨by rw [hpc]; rfl, h2⟩, h3⟩

theorem storesB_of_not_send {c : LoopCfg} {s : St} {i : In}
    (h : ∀ who t ts snap, s.pc ≠ .sendAfterTxn who t ts snap) : storesB c s i = false := by
  cases hb : storesB c s i with
  | false => rfl
  | true => exact absurd ((storesB_iff c s i).mp hb) (not_stores h)

instance (c : LoopCfg) (s : St) (i : In) : Decidable (Stores c s i) :=
  decidable_of_iff _ (storesB_iff c s i)

/-- 1 if the event is a segment that stores a blob, else 0 -/
def storeCount (c : LoopCfg) (g : G) : Ev → Nat
  | .go i => if storesB c g.st i then 1 else 0
  | _ => 0

/-- **the number of blobs the instance stores during the continuation `evs` from `g`**: the
    number of `go` events of `evs` that are storing segments (`Stores`) in the state in which
    they run. Each of them appends exactly one blob of `c.own` to the bucket (`go_bucket`), no
    other event of the instance does (`ownStores_bucket`). -/
def ownStores (c : LoopCfg) : G → List Ev → Nat
  | _, [] => 0
  | g, e :: es => storeCount c g e + ownStores c (step c g e) es

theorem ownStores_append (c : LoopCfg) (g : G) (l1 l2 : List Ev) :
    ownStores c g (l1 ++ l2) = ownStores c g l1 + ownStores c (runFrom c g l1) l2 := by
  induction l1 generalizing g with
  | nil => simp [ownStores, runFrom]
  | cons e es ih =>
    show storeCount c g e + ownStores c (step c g e) (es ++ l2) = _
    rw [ih]
    show _ = storeCount c g e + ownStores c (step c g e) es + ownStores c (runFrom c (step c g e) es) l2
    omega

/-- the blobs of instance `own` in a bucket -/
def ownCount (own : InstId) (b : List Blob) : Nat := b.countP (fun x => x.inst == own)

theorem ownCount_append (own : InstId) (b1 b2 : List Blob) :
    ownCount own (b1 ++ b2) = ownCount own b1 + ownCount own b2 := List.countP_append

/-- one event: the bucket grows by the others' blobs, or by one own blob exactly when the event is
    a storing segment -/
theorem step_bucket_count (c : LoopCfg) (g : G) (e : Ev) :
    ownCount c.own (step c g e).bucket + ownCount c.own (othersOf [e] ++ []) =
      ownCount c.own g.bucket + 2 * ownCount c.own (othersOf [e]) + storeCount c g e := by
  cases e with
  | go i =>
    show ownCount c.own (go c g.bucket g.st i).2 + _ = _
    rcases go_bucket c g.bucket g.st i with ⟨hs, blob, hd, hb⟩ | ⟨hs, hb⟩
    · rw [hb, ownCount_append]
      have hsb : storesB c g.st i = true := (storesB_iff c g.st i).mpr hs
      have hblob : ownCount c.own [blob] = 1 := by
        obtain ⟨⟨who, t, ts, snap, hpc⟩, _⟩ := hs
        unfold dumpBlob at hd
        rw [hpc] at hd
        injection hd with hd
        subst hd
        simp [ownCount]
      simp only [storeCount, hsb, if_true, othersOf, List.append_nil, hblob]
      simp [ownCount]
    · rw [hb]
      have hsb : storesB c g.st i = false := by
        cases hb' : storesB c g.st i with
        | false => rfl
        | true => exact absurd ((storesB_iff c g.st i).mp hb') hs
      simp only [storeCount, hsb, othersOf, List.append_nil]
      simp [ownCount]
  | app ops => simp [step, storeCount, othersOf, ownCount]
  | list => simp [step, storeCount, othersOf, ownCount]
  | others bs =>
    show ownCount c.own (g.bucket ++ bs) + _ = _
    simp only [storeCount, othersOf, List.append_nil, ownCount_append]
    omega

theorem othersOf_cons (e : Ev) (es : List Ev) : othersOf (e :: es) = othersOf [e] ++ othersOf es := by
  cases e <;> simp [othersOf]

/-- **`ownStores` is the growth of the own part of the bucket**: the number of blobs named
    `c.own` in the bucket after the continuation is the number before, plus those stored by
    others under that name (none, when names are not shared), plus `ownStores`. -/
theorem ownStores_bucket (c : LoopCfg) (g : G) (evs : List Ev) :
    ownCount c.own (runFrom c g evs).bucket =
      ownCount c.own g.bucket + ownCount c.own (othersOf evs) + ownStores c g evs := by
  induction evs generalizing g with
  | nil => simp [runFrom, othersOf, ownStores, ownCount]
  | cons e es ih =>
    show ownCount c.own (runFrom c (step c g e) es).bucket = _
    rw [ih, othersOf_cons, ownCount_append]
    have h := step_bucket_count c g e
    rw [List.append_nil] at h
    show _ = _ + _ + (storeCount c g e + ownStores c (step c g e) es)
    omega

/-- the total length of the bucket: it grows by the others' blobs and by `ownStores` -/
theorem ownStores_length (c : LoopCfg) (g : G) (evs : List Ev) :
    (runFrom c g evs).bucket.length = g.bucket.length + (othersOf evs).length + ownStores c g evs := by
  induction evs generalizing g with
  | nil => simp [runFrom, othersOf, ownStores]
  | cons e es ih =>
    show (runFrom c (step c g e) es).bucket.length = _
    rw [ih, othersOf_cons, List.length_append]
    show _ = _ + _ + (storeCount c g e + ownStores c (step c g e) es)
    have : (step c g e).bucket.length = g.bucket.length + (othersOf [e]).length + storeCount c g e := by
      cases e with
      | go i =>
        show (go c g.bucket g.st i).2.length = _
        rcases go_bucket c g.bucket g.st i with ⟨hs, blob, _, hb⟩ | ⟨hs, hb⟩
        · rw [hb]
          simp [storeCount, (storesB_iff c g.st i).mpr hs, othersOf]
        · rw [hb]
          have hsb : storesB c g.st i = false := by
            cases hb' : storesB c g.st i with
            | false => rfl
            | true => exact absurd ((storesB_iff c g.st i).mp hb') hs
          simp [storeCount, hsb, othersOf]
      | app ops => simp [step, storeCount, othersOf]
      | list => simp [step, storeCount, othersOf]
      | others bs => simp [step, storeCount, othersOf]
    omega

/-! ## the potential -/

/-- 1 if a cause for an upload is outstanding (`¬ Calm`), else 0 -/
def cause (gh : Gh) : Nat := if gh.appDirty || gh.startDirty then 1 else 0

instance (gh : Gh) : Decidable (Calm gh) := by unfold Calm; infer_instance

theorem cause_le_one (gh : Gh) : cause gh ≤ 1 := by unfold cause; split <;> omega

theorem cause_eq_zero_iff (gh : Gh) : cause gh = 0 ↔ Calm gh := by
  unfold cause Calm
  cases gh.appDirty <;> cases gh.startDirty <;> simp

theorem cause_eq_one_iff (gh : Gh) : cause gh = 1 ↔ ¬ Calm gh := by
  unfold cause Calm
  cases gh.appDirty <;> cases gh.startDirty <;> simp

theorem cause_congr {gh gh' : Gh} (h1 : gh'.appDirty = gh.appDirty) (h2 : gh'.startDirty = gh.startDirty) :
    cause gh' = cause gh := by unfold cause; rw [h1, h2]

/-- **The uploads still owed** at a yield point with ghost state `gh`:
    one for a dump in flight (`sendAfterTxn`: `SendOnce`'s transaction is done, the store is
    next), plus one if a cause is outstanding (`¬ Calm`: an application transaction recorded since
    the latest dump began, or a non-empty LMDB at start-up with no dump begun yet). Before the
    start-up segment: one (whatever the start-up finds). After the loop has ended: none. -/
def owedOf (pc : Pc) (gh : Gh) : Nat :=
  match pc with
  | .exited _ => 0
  | .boot => 1
  | .sendAfterTxn .. => 1 + cause gh
  | _ => cause gh

def owed (g : G) : Nat := owedOf g.st.pc g.gh

theorem owedOf_le_two (pc : Pc) (gh : Gh) : owedOf pc gh ≤ 2 := by
  have := cause_le_one gh
  unfold owedOf; split <;> omega

/-- outside `boot` and `sendAfterTxn` at most the outstanding cause is owed -/
theorem owedOf_le_cause {pc : Pc} (gh : Gh) (h1 : pc ≠ .boot)
    (h2 : ∀ who t ts snap, pc ≠ .sendAfterTxn who t ts snap) : owedOf pc gh ≤ cause gh := by
  cases pc with
  | boot => exact absurd rfl h1
  | sendAfterTxn who t ts snap => exact absurd rfl (h2 who t ts snap)
  | exited e => exact Nat.zero_le _
  | _ => exact Nat.le_refl _

theorem pollOut_pc {c : LoopCfg} {b : Bucket} {s1 : St} {i : In} {n : Nat} {s' : St}
    (h : s' = afterLoads s1 ∨ PollOut c b s1 i n s') :
    s'.pc ≠ .boot ∧ ∀ who t ts snap, s'.pc ≠ .sendAfterTxn who t ts snap := by
  rcases h with rfl | hp
  · exact ⟨fun h => (nomatch h), fun _ _ _ _ h => (nomatch h)⟩
  · cases hp <;> exact ⟨fun h => (nomatch h), fun _ _ _ _ h => (nomatch h)⟩

theorem sendReturned_pc_plain (c : LoopCfg) (s : St) (who : Caller) (t : Nat) :
    (sendReturned c s who t).pc ≠ .boot ∧
      (∀ who' t' ts snap, (sendReturned c s who t).pc ≠ .sendAfterTxn who' t' ts snap) ∧
      (∀ who' t', (sendReturned c s who t).pc ≠ .sendStored who' t') := by
  rcases sendReturned_pc c s who t with h | h | ⟨e, h⟩ <;> rw [h] <;>
    exact ⟨fun h => (nomatch h), fun _ _ _ _ h => (nomatch h), fun _ _ h => (nomatch h)⟩

theorem afterSend_pc_plain (c : LoopCfg) (s : St) :
    (afterSend c s).pc ≠ .boot ∧
      (∀ who' t' ts snap, (afterSend c s).pc ≠ .sendAfterTxn who' t' ts snap) := by
  rcases (afterSend_facts c s).2.2.2.2.2 with h | ⟨h, _⟩ <;> rw [h] <;>
    exact ⟨fun h => (nomatch h), fun _ _ _ _ h => (nomatch h)⟩

/-- **One segment**: what is owed afterwards, plus one if the segment stored, is at most what was
    owed before. The only fact about reachable states used: at `beforeSend` a cause is outstanding
    (`PcInv0`), and no snapshot is overdue (an armed force flag is a cause `owed` does not count:
    `forced_iteration` below). -/
theorem goRaw_owed {c : LoopCfg} {b : Bucket} {s : St} {i : In} {gh : Gh}
    (hbs : s.pc = .beforeSend → ¬ Calm gh) (hu : s.forceArmed = false) :
    owedOf (goRaw c b s i).1.pc (gh.afterGo b s i (goRaw c b s i).1.pc (goRaw c b s i).1.waiting) +
      (if storesB c s i then 1 else 0) ≤ owedOf s.pc gh := by
  have hc1 := cause_le_one gh
  cases hpc : s.pc with
  | exited e =>
    rw [storesB_of_not_send (by simp [hpc])]
    rw [goRaw_exited hpc]
    rw [afterGo_plain (by simp [hpc]) (by simp [hpc]) (by simp [hpc]) (by simp [hpc]) (by simp [hpc])
      (by simp [hpc])]
    rw [hpc]; exact Nat.le_refl _
  | sleep =>
    rw [storesB_of_not_send (by simp [hpc])]
    rw [goRaw_sleep hpc]
    rw [afterGo_plain (by simp [hpc]) (by simp [hpc]) (by simp [hpc]) (by simp [hpc]) (by simp)
      (by simp)]
    exact Nat.le_refl _
  | sendStored who t =>
    rw [storesB_of_not_send (by simp [hpc])]
    rw [goRaw_sendStored hpc]
    obtain ⟨p1, p2, p3⟩ := sendReturned_pc_plain c (stored s) who t
    simp only
    rw [afterGo_plain (by simp [hpc]) (by simp [hpc]) (by simp [hpc]) (by simp [hpc]) p2 p3]
    exact owedOf_le_cause gh p1 p2
  | sendAfterTxn who t ts snap =>
    rw [goRaw_sendAfterTxn hpc]
    by_cases hro : c.txn.receiveOnly = true
    · rw [if_pos hro]
      have hst : storesB c s i = false := by unfold storesB; rw [hro]; simp
      rw [hst]
      obtain ⟨p1, p2, p3⟩ := sendReturned_pc_plain c s who (if s.env.lastTxn < t then s.env.lastTxn else t)
      simp only
      rw [afterGo_plain (by simp [hpc]) (by simp [hpc]) (by simp [hpc]) (by simp [hpc]) p2 p3]
      have := owedOf_le_cause gh p1 p2
      show _ + 0 ≤ 1 + cause gh
      omega
    · rw [if_neg hro]
      by_cases hf : i.fails ≥ c.retryCount
      · rw [if_pos hf]
        have hst : storesB c s i = false := by
          unfold storesB; rw [decide_eq_false (by omega)]; simp
        rw [hst]
        show 0 + 0 ≤ _
        exact Nat.zero_le _
      · rw [if_neg hf]
        simp only
        rw [afterGo_store hpc]
        have key : ∀ gh' : Gh, gh'.appDirty = gh.appDirty → gh'.startDirty = gh.startDirty →
            ∀ who' t', owedOf (.sendStored who' t') gh' + (if storesB c s i then 1 else 0) ≤ 1 + cause gh := by
          intro gh' e1 e2 who' t'
          have := cause_congr e1 e2
          show cause gh' + _ ≤ _
          split <;> omega
        apply key
        · rfl
        · rfl
  | beforeSend =>
    rw [storesB_of_not_send (by simp [hpc])]
    rw [goRaw_beforeSend hpc]
    have hout := beginSend_out c s .loop i.now
    generalize beginSend c s .loop i.now = s' at hout ⊢
    cases hout with
    | failed e he => exact Nat.zero_le _
    | dumped r hr =>
      simp only
      rw [afterGo_dump hpc]
      have h1 : cause gh = 1 := (cause_eq_one_iff gh).mpr (hbs hpc)
      have h0 : cause gh.beginDump = 0 := (cause_eq_zero_iff _).mpr ⟨rfl, rfl⟩
      show 1 + cause gh.beginDump + 0 ≤ cause gh
      omega
  | beforeInfo =>
    rw [storesB_of_not_send (by simp [hpc])]
    rw [goRaw_beforeInfo_unarmed hpc hu, afterGo_info hpc]
    have hcg : cause { gh with sinceInfo := [] } = cause gh := cause_congr rfl rfl
    have hAS : ∀ s0 : St, owedOf (afterSend c s0).pc { gh with sinceInfo := [] } + 0 ≤ cause gh := by
      intro s0
      obtain ⟨p1, p2⟩ := afterSend_pc_plain c s0
      have := owedOf_le_cause { gh with sinceInfo := [] } p1 p2
      omega
    simp only [Bool.false_eq_true, if_false]
    split
    · split
      · exact hAS s
      · split
        · show cause _ + 0 ≤ cause gh
          omega
        · exact hAS _
    · exact hAS s
  | top =>
    rw [storesB_of_not_send (by simp [hpc])]
    rw [goRaw_top hpc]
    simp only
    rw [afterGo_top hpc]
    obtain ⟨p1, p2⟩ := pollOut_pc (Or.inr (poll_out c b s i 0))
    have := owedOf_le_cause (gh.loadPart b s i (poll c b s i 0).pc) p1 p2
    have hcg : cause (gh.loadPart b s i (poll c b s i 0).pc) = cause gh := cause_congr rfl rfl
    show _ + 0 ≤ cause gh
    omega
  | loadAfterTxn t lc inst ts n =>
    rw [storesB_of_not_send (by simp [hpc])]
    rw [goRaw_loadAfterTxn hpc]
    have hload : ∀ s' : St, (s'.pc ≠ .boot ∧ ∀ who t ts snap, s'.pc ≠ .sendAfterTxn who t ts snap) →
        owedOf s'.pc (gh.afterGo b s i s'.pc s'.waiting) + 0 ≤ cause gh := by
      intro s' ⟨p1, p2⟩
      rw [afterGo_load hpc]
      have := owedOf_le_cause (gh.loadPart b s i s'.pc) p1 p2
      have hcg : cause (gh.loadPart b s i s'.pc) = cause gh := cause_congr rfl rfl
      omega
    split
    · exact hload _ (pollOut_pc (c := c) (b := b) (i := i) (n := n) (Or.inl rfl))
    · exact hload _ (pollOut_pc (Or.inr (poll_out c b _ i n)))
  | boot =>
    rw [storesB_of_not_send (by simp [hpc])]
    obtain ⟨_, hb⟩ := goRaw_boot (c := c) (b := b) (i := i) hpc
    generalize (goRaw c b s i).1 = s' at hb ⊢
    show _ + 0 ≤ 1
    cases hb with
    | captureFailed e s0 e1 e2 e3 => exact Nat.zero_le _
    | noSend s0 e1 e2 e3 e4 e5 e6 e7 =>
      simp only
      rw [afterGo_boot hpc (by simp)]
      exact cause_le_one _
    | send s0 e1 e2 e3 e4 e5 e6 e7 =>
      have hout := beginSend_out c s0 .initial i.now
      generalize beginSend c s0 .initial i.now = s'' at hout ⊢
      cases hout with
      | failed e he => exact Nat.zero_le _
      | dumped r hr =>
        simp only
        rw [afterGo_boot_send hpc]
        have h0 : cause (gh.booted s s0.waiting).beginDump = 0 := (cause_eq_zero_iff _).mpr ⟨rfl, rfl⟩
        show 1 + cause (gh.booted s s0.waiting).beginDump + 0 ≤ 1
        omega

/-- one event of a continuation without recorded application transactions -/
theorem step_owed {c : LoopCfg} {g : G} (h0 : Inv0 c g) (e : Ev)
    (hna : ∀ ops, e = .app ops → recorded g.st ops = false) :
    owed (step c g e) + storeCount c g e ≤ owed g := by
  cases e with
  | go i =>
    obtain ⟨h1, _, h3⟩ := step_go c g i
    obtain ⟨_, r2, _⟩ := relist_facts (goRaw c g.bucket g.st i).1 (goRaw c g.bucket g.st i).2
    unfold owed
    rw [h1, h3, r2]
    refine goRaw_owed (fun hpc => ?_) h0.unarmed
    have := h0.pcinv
    rw [hpc] at this
    exact this.1
  | app ops =>
    have hr := hna ops rfl
    have hpc := (appCommit_facts g.st ops).1
    show owedOf (appCommit g.st ops).pc (if recorded g.st ops then _ else g.gh) + 0 ≤ _
    rw [hr, hpc]
    exact Nat.le_refl _
  | list => exact Nat.le_refl _
  | others bs => exact Nat.le_refl _

/-- **The bound.** From a state satisfying the invariant of every schedule, a continuation of any
    length without recorded application transactions stores at most `owed` blobs, and what is owed
    at its end is at most what remains. -/
theorem ownStores_le_owed (c : LoopCfg) (g : G) (evs : List Ev) (h0 : Inv0 c g)
    (hna : NoAppFrom c g evs) : owed (runFrom c g evs) + ownStores c g evs ≤ owed g := by
  induction evs generalizing g with
  | nil => exact Nat.le_refl _
  | cons e es ih =>
    obtain ⟨h1, h2⟩ := hna
    have hs := step_owed h0 e (fun ops he => by subst he; exact h1)
    have := ih (step c g e) (h0.step e) h2
    show owed (runFrom c (step c g e) es) + (storeCount c g e + ownStores c (step c g e) es) ≤ owed g
    omega

instance decNoAppFrom (c : LoopCfg) : ∀ (g : G) (evs : List Ev), Decidable (NoAppFrom c g evs)
  | _, [] => isTrue trivial
  | g, e :: es =>
    have := decNoAppFrom c (step c g e) es
    match e with
    | .app ops => inferInstanceAs (Decidable (recorded g.st ops = false ∧ _))
    | .go _ => inferInstanceAs (Decidable (True ∧ _))
    | .list => inferInstanceAs (Decidable (True ∧ _))
    | .others _ => inferInstanceAs (Decidable (True ∧ _))

/-! ## the ghost counter -/

/-- 1 for the step from the yield point after `SendOnce`'s transaction to "stored", else 0 -/
def storedStep : Pc → Pc → Nat
  | .sendAfterTxn .., .sendStored .. => 1
  | _, _ => 0

theorem afterGo_stores (gh : Gh) (b : Bucket) (s : St) (i : In) (pc' : Pc) (w' : List InstId) :
    (gh.afterGo b s i pc' w').stores = gh.stores + storedStep s.pc pc' := by
  unfold Gh.afterGo storedStep
  cases s.pc <;> cases pc' <;> first | rfl | (rename_i lc _ _ _; cases lc <;> rfl)

theorem storedStep_left {pc pc' : Pc} (h : ∀ who t ts snap, pc ≠ .sendAfterTxn who t ts snap) :
    storedStep pc pc' = 0 := by
  cases pc with
  | sendAfterTxn who t ts snap => exact absurd rfl (h who t ts snap)
  | _ => cases pc' <;> rfl

theorem storedStep_right {pc pc' : Pc} (h : ∀ who t, pc' ≠ .sendStored who t) :
    storedStep pc pc' = 0 := by
  cases pc' with
  | sendStored who t => exact absurd rfl (h who t)
  | _ => cases pc <;> rfl

theorem goRaw_storedStep (c : LoopCfg) (b : Bucket) (s : St) (i : In) :
    storedStep s.pc (goRaw c b s i).1.pc = if storesB c s i then 1 else 0 := by
  by_cases hs : ∀ who t ts snap, s.pc ≠ .sendAfterTxn who t ts snap
  · rw [storedStep_left hs, storesB_of_not_send hs]; rfl
  · have : ∃ who t ts snap, s.pc = .sendAfterTxn who t ts snap := by
      cases hpc : s.pc with
      | sendAfterTxn who t ts snap => exact ⟨who, t, ts, snap, rfl⟩
      | _ => exact absurd (fun _ _ _ _ h => by rw [hpc] at h; cases h) hs
    obtain ⟨who, t, ts, snap, hpc⟩ := this
    rw [goRaw_sendAfterTxn hpc]
    by_cases hro : c.txn.receiveOnly = true
    · rw [if_pos hro]
      have hst : storesB c s i = false := by unfold storesB; rw [hro]; simp
      rw [hst, storedStep_right (sendReturned_pc_plain c s who _).2.2]; rfl
    · rw [if_neg hro]
      by_cases hf : i.fails ≥ c.retryCount
      · rw [if_pos hf]
        have hst : storesB c s i = false := by
          unfold storesB; rw [decide_eq_false (by omega)]; simp
        rw [hst, storedStep_right (by simp)]; rfl
      · rw [if_neg hf]
        have hst : storesB c s i = true := by
          unfold storesB
          rw [hpc, decide_eq_true (by omega)]
          simp [isSendAfterTxn, hro]
        rw [hst, hpc]; rfl

theorem step_stores (c : LoopCfg) (g : G) (e : Ev) :
    (step c g e).gh.stores = g.gh.stores + storeCount c g e := by
  cases e with
  | go i =>
    rw [(step_go c g i).2.2, afterGo_stores, goRaw_storedStep]; rfl
  | app ops =>
    show (if recorded g.st ops then _ else g.gh).stores = _
    split <;> rfl
  | list => rfl
  | others bs => rfl

/-- **`ownStores` is the growth of the ghost counter `stores`** -/
theorem ownStores_ghost (c : LoopCfg) (g : G) (evs : List Ev) :
    (runFrom c g evs).gh.stores = g.gh.stores + ownStores c g evs := by
  induction evs generalizing g with
  | nil => rfl
  | cons e es ih =>
    show (runFrom c (step c g e) es).gh.stores = g.gh.stores + (storeCount c g e + _)
    rw [ih, step_stores]; omega

/-! ## a fleet: the product of n schedules over one bucket -/

/-- what an event of one instance appends to the bucket -/
def delta (c : LoopCfg) (g : G) : Ev → List Blob
  | .go i => if storesB c g.st i then (dumpBlob c g.st).toList else []
  | .others bs => bs
  | _ => []

theorem step_bucket_delta (c : LoopCfg) (g : G) (e : Ev) :
    (step c g e).bucket = g.bucket ++ delta c g e := by
  cases e with
  | go i =>
    show (go c g.bucket g.st i).2 = _
    rcases go_bucket c g.bucket g.st i with ⟨hs, blob, hd, hb⟩ | ⟨hs, hb⟩
    · rw [hb]
      simp [delta, (storesB_iff c g.st i).mpr hs, hd]
    · rw [hb]
      have hsb : storesB c g.st i = false := by
        cases hb' : storesB c g.st i with
        | false => rfl
        | true => exact absurd ((storesB_iff c g.st i).mp hb') hs
      simp [delta, hsb]
  | app ops => simp [step, delta]
  | list => simp [step, delta]
  | others bs => rfl

/-- the blobs that come from outside (an `others` event) -/
def extOf : Ev → List Blob
  | .others bs => bs
  | _ => []

theorem delta_length (c : LoopCfg) (g : G) (e : Ev) :
    (delta c g e).length = (extOf e).length + storeCount c g e := by
  cases e with
  | go i =>
    cases hb : storesB c g.st i with
    | false => simp [delta, extOf, storeCount, hb]
    | true =>
      obtain ⟨⟨who, t, ts, snap, hpc⟩, _⟩ := (storesB_iff c g.st i).mp hb
      simp [delta, extOf, storeCount, hb, dumpBlob, hpc]
  | app ops => rfl
  | list => rfl
  | others bs => simp [delta, extOf, storeCount]

/-- A fleet: instance `j` has configuration `cs j` and (ghost-extended) state `F j`. A global
    event `(k, e)` is an event `e` of instance `k`; `e = .others bs` stands for writers outside
    the fleet. -/
abbrev Fleet := Nat → G

/-- what instance `j` sees of the global event `(k, e)`: the event itself if `j = k`, otherwise
    "others stored what that event appended to the bucket" -/
def localEv (cs : Nat → LoopCfg) (F : Fleet) (ke : Nat × Ev) (j : Nat) : Ev :=
  if j = ke.1 then ke.2 else .others (delta (cs ke.1) (F ke.1) ke.2)

def fleetStep (cs : Nat → LoopCfg) (F : Fleet) (ke : Nat × Ev) : Fleet :=
  fun j => step (cs j) (F j) (localEv cs F ke j)

def fleetRun (cs : Nat → LoopCfg) (F : Fleet) (evs : List (Nat × Ev)) : Fleet :=
  evs.foldl (fleetStep cs) F

/-- the schedule of instance `j` inside the global schedule -/
def localEvs (cs : Nat → LoopCfg) : Fleet → List (Nat × Ev) → Nat → List Ev
  | _, [], _ => []
  | F, ke :: es, j => localEv cs F ke j :: localEvs cs (fleetStep cs F ke) es j

/-- **projection**: every instance of the fleet runs one of the single-instance schedules -/
theorem fleetRun_local (cs : Nat → LoopCfg) (F : Fleet) (evs : List (Nat × Ev)) (j : Nat) :
    fleetRun cs F evs j = runFrom (cs j) (F j) (localEvs cs F evs j) := by
  induction evs generalizing F with
  | nil => rfl
  | cons ke es ih => exact ih (fleetStep cs F ke)

/-- no application transaction is recorded at any instance -/
def FleetNoApp (cs : Nat → LoopCfg) : Fleet → List (Nat × Ev) → Prop
  | _, [] => True
  | F, ke :: es =>
    (match ke.2 with
     | .app ops => recorded (F ke.1).st ops = false
     | _ => True) ∧ FleetNoApp cs (fleetStep cs F ke) es

instance decFleetNoApp (cs : Nat → LoopCfg) :
    ∀ (F : Fleet) (evs : List (Nat × Ev)), Decidable (FleetNoApp cs F evs)
  | _, [] => isTrue trivial
  | F, (k, e) :: es =>
    have := decFleetNoApp cs (fleetStep cs F (k, e)) es
    match e with
    | .app ops => inferInstanceAs (Decidable (recorded (F k).st ops = false ∧ _))
    | .go _ => inferInstanceAs (Decidable (True ∧ _))
    | .list => inferInstanceAs (Decidable (True ∧ _))
    | .others _ => inferInstanceAs (Decidable (True ∧ _))

theorem FleetNoApp.local {cs : Nat → LoopCfg} {F : Fleet} {evs : List (Nat × Ev)}
    (h : FleetNoApp cs F evs) (j : Nat) : NoAppFrom (cs j) (F j) (localEvs cs F evs j) := by
  induction evs generalizing F with
  | nil => trivial
  | cons ke es ih =>
    obtain ⟨h1, h2⟩ := h
    refine ⟨?_, ih h2⟩
    unfold localEv
    by_cases hj : j = ke.1
    · rw [if_pos hj, hj]; exact h1
    · rw [if_neg hj]; trivial

/-- the number of storing segments in the global schedule -/
def fleetStores (cs : Nat → LoopCfg) : Fleet → List (Nat × Ev) → Nat
  | _, [] => 0
  | F, ke :: es => storeCount (cs ke.1) (F ke.1) ke.2 + fleetStores cs (fleetStep cs F ke) es

/-- the blobs written by writers outside the fleet -/
def fleetExt : List (Nat × Ev) → List Blob
  | [] => []
  | ke :: es => extOf ke.2 ++ fleetExt es

/-- everything appended to the bucket during the global schedule, in order -/
def fleetDelta (cs : Nat → LoopCfg) : Fleet → List (Nat × Ev) → List Blob
  | _, [] => []
  | F, ke :: es => delta (cs ke.1) (F ke.1) ke.2 ++ fleetDelta cs (fleetStep cs F ke) es

theorem fleetDelta_length (cs : Nat → LoopCfg) (F : Fleet) (evs : List (Nat × Ev)) :
    (fleetDelta cs F evs).length = (fleetExt evs).length + fleetStores cs F evs := by
  induction evs generalizing F with
  | nil => rfl
  | cons ke es ih =>
    show (delta _ _ _ ++ fleetDelta cs _ es).length = (extOf ke.2 ++ fleetExt es).length + (_ + _)
    rw [List.length_append, List.length_append, ih, delta_length]; omega

theorem fleetStep_bucket (cs : Nat → LoopCfg) (n : Nat) (F : Fleet) (ke : Nat × Ev) (B : Bucket)
    (hB : ∀ j, j < n → (F j).bucket = B) (j : Nat) (hj : j < n) :
    (fleetStep cs F ke j).bucket = B ++ delta (cs ke.1) (F ke.1) ke.2 := by
  unfold fleetStep localEv
  by_cases hjk : j = ke.1
  · rw [if_pos hjk, step_bucket_delta, hB j hj, hjk]
  · rw [if_neg hjk]
    show (F j).bucket ++ _ = _
    rw [hB j hj]

/-- **one bucket**: if all instances see the same bucket at the start, they see the same bucket
    after every global schedule — the start bucket plus everything that was appended -/
theorem fleetRun_bucket (cs : Nat → LoopCfg) (n : Nat) (F : Fleet) (evs : List (Nat × Ev)) (B : Bucket)
    (hB : ∀ j, j < n → (F j).bucket = B) (j : Nat) (hj : j < n) :
    (fleetRun cs F evs j).bucket = B ++ fleetDelta cs F evs := by
  induction evs generalizing F B with
  | nil => simp [fleetRun, fleetDelta, hB j hj]
  | cons ke es ih =>
    show (fleetRun cs (fleetStep cs F ke) es j).bucket = B ++ (_ ++ _)
    rw [ih (fleetStep cs F ke) _ (fun j' hj' => fleetStep_bucket cs n F ke B hB j' hj'),
      List.append_assoc]

/-! ### sums over the instances `0 … n-1` -/

def sumTo : Nat → (Nat → Nat) → Nat
  | 0, _ => 0
  | n + 1, f => sumTo n f + f n

theorem sumTo_add (n : Nat) (f g : Nat → Nat) :
    sumTo n (fun j => f j + g j) = sumTo n f + sumTo n g := by
  induction n with
  | zero => rfl
  | succ n ih => simp only [sumTo, ih]; omega

theorem sumTo_le {n : Nat} {f g : Nat → Nat} (h : ∀ j, j < n → f j ≤ g j) : sumTo n f ≤ sumTo n g := by
  induction n with
  | zero => exact Nat.le_refl _
  | succ n ih =>
    have := ih (fun j hj => h j (Nat.lt_succ_of_lt hj))
    have := h n (Nat.lt_succ_self n)
    simp only [sumTo]; omega

theorem sumTo_const_le {n : Nat} {f : Nat → Nat} {m : Nat} (h : ∀ j, j < n → f j ≤ m) :
    sumTo n f ≤ m * n := by
  induction n with
  | zero => exact Nat.le_refl _
  | succ n ih =>
    have := ih (fun j hj => h j (Nat.lt_succ_of_lt hj))
    have := h n (Nat.lt_succ_self n)
    simp only [sumTo, Nat.mul_succ]; omega

theorem sumTo_single (n k a : Nat) (hk : k < n) : sumTo n (fun j => if j = k then a else 0) = a := by
  induction n with
  | zero => omega
  | succ n ih =>
    simp only [sumTo]
    by_cases hkn : k = n
    · subst hkn
      have h0 : sumTo k (fun j => if j = k then a else 0) = 0 := by
        have := sumTo_const_le (n := k) (f := fun j => if j = k then a else 0) (m := 0)
          (fun j hj => by show (if j = k then a else 0) ≤ 0; rw [if_neg (by omega)]; exact Nat.le_refl _)
        omega
      rw [h0]; simp
    · rw [ih (by omega), if_neg (fun h => hkn h.symm)]; rfl

theorem storeCount_local (cs : Nat → LoopCfg) (F : Fleet) (ke : Nat × Ev) (j : Nat) :
    storeCount (cs j) (F j) (localEv cs F ke j) =
      if j = ke.1 then storeCount (cs ke.1) (F ke.1) ke.2 else 0 := by
  unfold localEv
  by_cases hj : j = ke.1
  · rw [if_pos hj, if_pos hj, hj]
  · rw [if_neg hj, if_neg hj]; rfl

/-- **the stores of the fleet are the stores of its instances** -/
theorem fleetStores_sum (cs : Nat → LoopCfg) (n : Nat) (F : Fleet) (evs : List (Nat × Ev))
    (hk : ∀ ke ∈ evs, ke.1 < n) :
    fleetStores cs F evs = sumTo n (fun j => ownStores (cs j) (F j) (localEvs cs F evs j)) := by
  induction evs generalizing F with
  | nil =>
    have := sumTo_const_le (n := n) (f := fun j => ownStores (cs j) (F j) (localEvs cs F [] j)) (m := 0)
      (fun j _ => Nat.le_refl _)
    show 0 = _
    omega
  | cons ke es ih =>
    have h1 : (fun j => ownStores (cs j) (F j) (localEvs cs F (ke :: es) j)) =
        fun j => (if j = ke.1 then storeCount (cs ke.1) (F ke.1) ke.2 else 0) +
          ownStores (cs j) (fleetStep cs F ke j) (localEvs cs (fleetStep cs F ke) es j) := by
      funext j
      show storeCount (cs j) (F j) (localEv cs F ke j) + _ = _
      rw [storeCount_local]; rfl
    rw [h1, sumTo_add, sumTo_single n ke.1 _ (hk ke List.mem_cons_self),
      ← ih (fleetStep cs F ke) (fun ke' h => hk ke' (List.mem_cons_of_mem _ h))]
    rfl

/-- **The fleet bound**, from the single-instance bound used once per instance (each instance's
    environment — including the other instances' stores — is arbitrary there). -/
theorem fleetStores_le (cs : Nat → LoopCfg) (n : Nat) (F : Fleet) (evs : List (Nat × Ev))
    (hk : ∀ ke ∈ evs, ke.1 < n) (hinv : ∀ j, j < n → Inv0 (cs j) (F j))
    (hna : FleetNoApp cs F evs) :
    fleetStores cs F evs + sumTo n (fun j => owed (fleetRun cs F evs j)) ≤ sumTo n (fun j => owed (F j)) := by
  rw [fleetStores_sum cs n F evs hk, ← sumTo_add]
  refine sumTo_le (fun j hj => ?_)
  have := ownStores_le_owed (cs j) (F j) (localEvs cs F evs j) (hinv j hj) (hna.local j)
  rw [fleetRun_local]
  omega

theorem fleetRun_append (cs : Nat → LoopCfg) (F : Fleet) (l1 l2 : List (Nat × Ev)) :
    fleetRun cs F (l1 ++ l2) = fleetRun cs (fleetRun cs F l1) l2 := List.foldl_append

/-! ## the forced periodic snapshot (`storage_force_snapshot_interval`) -/

theorem relist_of_ne_top {s : St} {b : Bucket} (h : s.pc ≠ .top) : relist s b = s := by
  unfold relist; rw [if_neg (fun hh => h hh.1)]

theorem go_of_raw {c : LoopCfg} {b : Bucket} {s : St} {i : In} {s' : St} {b' : Bucket}
    (h : goRaw c b s i = (s', b')) (hpc : s'.pc ≠ .top) : go c b s i = (s', b') := by
  rw [go_eq, h]
  simp only [relist_of_ne_top hpc]

theorem othersOf_gos (l : List In) : othersOf (l.map Ev.go) = [] := by
  induction l with
  | nil => rfl
  | cons a l ih => exact ih

/-- segments one after the other, on state and bucket -/
def goes (c : LoopCfg) : St × Bucket → List In → St × Bucket
  | p, [] => p
  | p, i :: is => goes c (go c p.2 p.1 i) is

theorem runFrom_gos (c : LoopCfg) (g : G) (is : List In) :
    ((runFrom c g (is.map Ev.go)).st, (runFrom c g (is.map Ev.go)).bucket) = goes c (g.st, g.bucket) is := by
  induction is generalizing g with
  | nil => rfl
  | cons i is ih => exact ih (step c g (.go i))

/-- the five segments of an iteration without loads that sends: `top`, `beforeInfo`,
    `beforeSend`, `sendAfterTxn`, `sendStored` -/
def iteration (i1 i2 i3 i4 i5 : In) : List Ev := [i1, i2, i3, i4, i5].map Ev.go

/-- **A forced iteration.** At `top`, `lastSynced` caught up with `lastTxn` (nothing local to
    publish), but a snapshot is overdue (`forceArmed`); the own instance is not waited for and the
    start-up guard `hasDataAtStart ∨ lastTxn > 0` is open. Then an iteration in which the receiver
    hands over nothing (`i1.next = none`), `SendOnce`'s transaction succeeds and fewer Store
    attempts fail than the retry budget, stores exactly one snapshot — the dump of that
    transaction —, the force flag is cleared, `lastSynced` has caught up again (`Synced`), and the
    loop idles (or has ended, in only-once mode). -/
theorem forced_iteration (c : LoopCfg) (g : G) (i1 i2 i3 i4 i5 : In) (r : SendRes)
    (hpc : g.st.pc = .top) (hle : g.st.env.lastTxn ≤ g.st.lastSynced)
    (harm : g.st.forceArmed = true) (hown : c.own ∉ g.st.waiting)
    (hdata : g.st.hasDataAtStart = true ∨ g.st.env.lastTxn > 0)
    (hro : c.txn.receiveOnly = false) (hnone : i1.next = none)
    (hsend : sendOnce c.txn g.st.env i3.now 0 = .ok r) (hf : i4.fails < c.retryCount) :
    (runFrom c g (iteration i1 i2 i3 i4 i5)).bucket =
      g.bucket ++ [{ inst := c.own, ts := i3.now, snap := r.snap }] ∧
    ownStores c g (iteration i1 i2 i3 i4 i5) = 1 ∧
    (runFrom c g (iteration i1 i2 i3 i4 i5)).st.forceArmed = false ∧
    Synced (runFrom c g (iteration i1 i2 i3 i4 i5)).st ∧
    ((runFrom c g (iteration i1 i2 i3 i4 i5)).st.pc = .sleep ∨
      (runFrom c g (iteration i1 i2 i3 i4 i5)).st.pc = .exited .ok) := by
  obtain ⟨s, b, gh⟩ := g
  simp only at hpc hle harm hown hdata hsend
  -- the states after the first four segments
  let s1 : St := afterLoads s
  let s2 : St := { s1 with lastSynced := s.env.lastTxn, pc := .beforeSend }
  let raw : Nat := if c.txn.native then s.env.lastTxn else s.env.lastTxn + 1
  let s3 : St := { s2 with env := r.env, pc := .sendAfterTxn .loop raw i3.now r.snap }
  let t : Nat := if r.env.lastTxn < raw then r.env.lastTxn else raw
  let s4 : St := { s3 with pc := .sendStored .loop t }
  let blob : Blob := { inst := c.own, ts := i3.now, snap := r.snap }
  have e1 : go c b s i1 = (s1, b) := by
    refine go_of_raw ?_ (by simp [s1, afterLoads])
    rw [goRaw_top hpc]
    unfold poll; rw [hnone]
  have hown1 : ¬ (s1.waiting.contains c.own = true) := by
    intro hc
    have : c.own ∈ s1.waiting := by simpa using hc
    exact hown (List.mem_filter.mp this).1
  have e2 : go c b s1 i2 = (s2, b) := by
    refine go_of_raw ?_ (by simp [s2])
    rw [goRaw_beforeInfo (s := s1) rfl, if_pos (Or.inr (show s1.forceArmed = true from harm)),
      if_neg hown1, if_pos (show s1.hasDataAtStart = true ∨ s1.env.lastTxn > 0 from hdata)]
    rfl
  have e3 : go c b s2 i3 = (s3, b) := by
    refine go_of_raw ?_ (by simp [s3])
    rw [goRaw_beforeSend (s := s2) rfl]
    have hsend2 : sendOnce c.txn s2.env i3.now 0 = .ok r := hsend
    unfold beginSend
    rw [hsend2]
    rfl
  have e4 : go c b s3 i4 = (s4, b ++ [blob]) := by
    refine go_of_raw ?_ (by simp [s4])
    rw [goRaw_sendAfterTxn (s := s3) rfl]
    simp only [hro, Bool.false_eq_true, if_false]
    rw [if_neg (by omega)]
  have e5r : goRaw c (b ++ [blob]) s4 i5 = (sendReturned c (stored s4) .loop t, b ++ [blob]) :=
    goRaw_sendStored (s := s4) rfl
  have hpc5 : (sendReturned c (stored s4) .loop t).pc = .sleep ∨
      (sendReturned c (stored s4) .loop t).pc = .exited .ok := by
    rw [(sendReturned_facts c (stored s4) .loop t).2.2.2.2.2]
    simp only
    split
    · exact Or.inr rfl
    · exact Or.inl rfl
  have e5 : go c (b ++ [blob]) s4 i5 = (sendReturned c (stored s4) .loop t, b ++ [blob]) :=
    go_of_raw e5r (by rcases hpc5 with h | h <;> rw [h] <;> simp)
  -- the run
  have hrun := runFrom_gos c ⟨s, b, gh⟩ [i1, i2, i3, i4, i5]
  simp only [goes, e1, e2, e3, e4, e5] at hrun
  have hst : (runFrom c ⟨s, b, gh⟩ (iteration i1 i2 i3 i4 i5)).st = sendReturned c (stored s4) .loop t :=
    congrArg Prod.fst hrun
  have hbk : (runFrom c ⟨s, b, gh⟩ (iteration i1 i2 i3 i4 i5)).bucket = b ++ [blob] :=
    congrArg Prod.snd hrun
  have hlen := ownStores_length c ⟨s, b, gh⟩ (iteration i1 i2 i3 i4 i5)
  rw [hbk] at hlen
  have ho : othersOf (iteration i1 i2 i3 i4 i5) = [] := othersOf_gos _
  rw [ho] at hlen
  simp only [List.length_append, List.length_cons, List.length_nil] at hlen
  obtain ⟨f1, f2, _, _, _, _⟩ := sendReturned_facts c (stored s4) .loop t
  have hfa : (sendReturned c (stored s4) .loop t).forceArmed = false :=
    (sendReturned_force c (stored s4) .loop t).trans rfl
  have hLt : r.env.lastTxn ≤ t := by
    obtain ⟨hn, hL⟩ := sendOnce_facts hsend
    show r.env.lastTxn ≤ if r.env.lastTxn < raw then r.env.lastTxn else raw
    cases hnat : c.txn.native with
    | true =>
      have : raw = s.env.lastTxn := by simp [raw, hnat]
      rw [this, hn hnat]; split <;> omega
    | false =>
      have : raw = s.env.lastTxn + 1 := by simp [raw, hnat]
      rw [this]; split <;> omega
  refine ⟨hbk, by omega, by rw [hst]; exact hfa, ?_, by rw [hst]; exact hpc5⟩
  rw [hst]
  refine ⟨?_, hfa⟩
  unfold Caught
  rcases hpc5 with h | h <;> rw [h]
  · show (sendReturned c (stored s4) .loop t).env.lastTxn ≤ (sendReturned c (stored s4) .loop t).lastSynced
    rw [f1, f2]; exact hLt
  · trivial

end Ls.Loop

/-! ## concrete schedules (evaluated by the kernel in `LsProps/C10Loop.lean`) -/
namespace Ls.Loop.BoundWitness
open Ls Ls.Txn Ls.SyncLoop Ls.Loop Ls.Loop.Witness

/-- `n` loop segments in which the receiver hands over nothing and no store fails -/
def gos (n : Nat) : List Ev := List.replicate n (.go (inp none))

/-- application transactions (shadow mode: plain values) -/
def app1 : Ev := .app [.create app 0, .put app [2] [66]]
def app2 : Ev := .app [.put app [3] [67]]

/-- a native-mode application value: header (timestamp 7) and one byte -/
def hv (b : UInt8) : Bytes := Header.putBasic 7 0 0 ++ [b]

/-- application transactions (native mode: values with a header) -/
def napp1 : Ev := .app [.create app 0, .put app [2] (hv 66)]
def napp2 : Ev := .app [.put app [3] (hv 67)]

/-- history: one idle iteration, then an application transaction at `top` -/
def histOne : List Ev := gos 4 ++ [app1]
def histOneN : List Ev := gos 4 ++ [napp1]

/-- history: as `histOne`, then on to the yield point after `SendOnce`'s transaction, where a
    second application transaction commits (after the dump was taken, before it is stored) -/
def histTwo : List Ev := gos 4 ++ [app1] ++ gos 3 ++ [app2]
def histTwoN : List Ev := gos 4 ++ [napp1] ++ gos 3 ++ [napp2]

/-- history: the application wrote before the instance started (non-empty LMDB at start-up) -/
def histStart : List Ev := [napp1]

/-- history: non-empty LMDB at start-up, empty bucket: the start-up `SendOnce` has taken its
    dump, and an application transaction commits before the dump is stored -/
def histStartTwo : List Ev := [napp1] ++ gos 1 ++ [napp2]

/-- a second shadow-mode instance -/
def cfgB : LoopCfg := { cfgS with own := "b" }

/-- a fleet of two: instance 0 is "a", instance 1 is "b" -/
def cs2 : Nat → LoopCfg := fun j => if j = 0 then cfgS else cfgB

def fleet0 : Fleet := fun _ => G.init env0 []

/-- global history: "a" idles one iteration, its application writes; "b" starts -/
def fleetHist : List (Nat × Ev) := (gos 4).map (0, ·) ++ [(0, app1), (1, .go (inp none))]

/-- global continuation without application transactions: "a" uploads; "b" merges a's snapshot
    (its LMDB changes) and goes through its iteration; "a" runs on; "b" merges the same snapshot
    again and runs on -/
def fleetCont : List (Nat × Ev) :=
  (gos 4).map (0, ·) ++ [(1, .go (inp (some ("a", 100))))] ++ (gos 8).map (1, ·) ++ (gos 6).map (0, ·)
    ++ [(1, .go (inp (some ("a", 100))))] ++ (gos 8).map (1, ·)

end Ls.Loop.BoundWitness
