import LsLemmas.CivilTableDefs
/- civil-date table, rows 104000 … 106751 (kernel evaluation; see CivilTableDefs) -/
namespace Ls.Civil

theorem chunk13 : chunkOK 104000 2752 = true := by decide +kernel

end Ls.Civil
