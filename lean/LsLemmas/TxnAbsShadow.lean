import LsLemmas.TxnAbs
import LsLemmas.TxnMirrorWF
/-
  Shadow (non-native) mode, per transaction, at the level of logical content: the abstraction
  `absShadow` of an environment (the decoded content of its shadow DBIs, keyed by the application
  DBI name), what the application sees (`appView`), the abstract capture, and the simulation
  lemmas for `mainToShadow`, the merge loop of `loadOnce` and `shadowToMain`
  (helper lemmas of LsProps/C01RefineShadow.lean). Builds on both families of transaction lemmas:
  TxnDbis/TxnSend/TxnLoad/TxnAbs (`update_abs`, `createDbis_lookup`, `sendOnce_ok_iff`, …) and
  TxnMirror* (`mainToShadow_nondup`, `shadowToMain_nondup`, `loadOnce_shadow_ok`, …).
-/
set_option linter.unusedSimpArgs false
namespace Ls.Txn
open Ls Ls.Lmdb Ls.Strategy Ls.Merge

/-! ## 1. definitions -/

/-- logical content of the shadow DBIs of a list of DBIs, keyed by the APPLICATION DBI name -/
def absShD (dbis : List Dbi) : Abs.DB := fun key =>
  if isPrivate key.1 then none else
  match findDbi dbis (shadowName key.1) with
  | none => none
  | some sd => absDbi sd key.2

/-- **the logical content of a shadow-mode environment**: for `(name, k)` with `name` non-private,
    `decodeS` of the value LMDB finds for `k` in the DBI `shadowName name` -/
def absShadow (e : Env) : Abs.DB := absShD e.dbis

/-- what the application sees in a list of DBIs: the value of `k` in its own DBI `name` -/
def appVD (dbis : List Dbi) : Abs.Key → Option Bytes := fun key =>
  if isPrivate key.1 then none else
  match findDbi dbis key.1 with
  | none => none
  | some d => get (isIntKey d.flags) d.kvs key.2

/-- **what the application sees** -/
def appView (e : Env) : Abs.Key → Option Bytes := appVD e.dbis

/-- the live value of an optional version (`none` for absent or deleted) -/
def liveOf : Option Ver → Option Bytes
  | some v => if v.del then none else some v.val
  | none => none

/-- what the projection `shadowToMain` writes for an optional version: the live value, nothing
    when it is empty (finding D7) -/
def projVer : Option Ver → Option Bytes
  | some v => if v.del = true ∨ v.val = [] then none else some v.val
  | none => none

/-- the capture decision for one key: the application has `v` — kept if `v` is the live shadow
    value, else `(now, live, v)`; the application lacks the key — a live shadow version becomes
    `(now, deleted, ∅)`, a marker or nothing stays -/
def captureO (o : Option Ver) (appv : Option Bytes) (now : Nat) : Option Ver :=
  match appv with
  | some v => if liveOf o = some v then o else some { ts := now, del := false, val := v }
  | none =>
    match o with
    | some x => if x.del then some x else some { ts := now, del := true, val := [] }
    | none => none

/-- **the abstract capture** of the application's view `app` into the shadow content `sh` at
    time `now` -/
def capture (sh : Abs.DB) (app : Abs.Key → Option Bytes) (now : Nat) : Abs.DB :=
  fun key => captureO (sh key) (app key) now

/-- no live version with an empty value (the D7 exclusion) -/
def NoEmptyLive (db : Abs.DB) : Prop := ∀ key o, db key = some o → o.del = false → o.val ≠ []

/-! ## 2. well-formedness, phrased with lookups -/

/-- the application DBIs are sorted with valid keys; every shadow of an application name has
    well-formed content (`DbiWF`: sorted, valid keys, values parse to well-formed versions),
    belongs to an existing application DBI (no orphans) and has its key order -/
structure ShOk (dbis : List Dbi) : Prop where
  app : ∀ n d, isPrivate n = false → findDbi dbis n = some d →
    Sorted (isIntKey d.flags) d.kvs ∧ DKeysOK d.kvs
  sh : ∀ n sd, isPrivate n = false → findDbi dbis (shadowName n) = some sd →
    DbiWF sd ∧ ∃ d, findDbi dbis n = some d ∧ isIntKey sd.flags = isIntKey d.flags

/-- no application DBI has duplicate keys -/
def NoDupApp (dbis : List Dbi) : Prop :=
  ∀ n d, isPrivate n = false → findDbi dbis n = some d → isDupSort d.flags = false

theorem sortedNames_distinct {dbis : List Dbi} (h : SortedNames dbis) : DistinctNames dbis := by
  unfold SortedNames at h
  unfold DistinctNames
  have := List.pairwise_map.mp h
  exact this.imp (fun {a b} hab he => by
    rw [he] at hab; exact bytes_lt_irrefl _ (bcmp_lt.mp hab))

theorem findDbi_none_names {dbis : List Dbi} {n : Bytes} :
    findDbi dbis n = none ↔ n ∉ dbis.map (·.name) := by
  rw [← findDbi_isSome_iff]
  cases findDbi dbis n <;> simp

/-! ## 3. per-key lemmas -/

theorem capture_apply (sh : Abs.DB) (app : Abs.Key → Option Bytes) (now : Nat) (key : Abs.Key) :
    capture sh app now key = captureO (sh key) (app key) now := rfl

section
-- `StoredWF (liveBytes …)` must not be unfolded by the elaborator (it would evaluate the header
-- parser on a symbolic header)
attribute [local irreducible] liveBytes markerBytes

theorem storedWF_liveBytes (now txnID : Nat) (v : Bytes) (hn : now < two64) (ht : txnID < two64) :
    StoredWF (liveBytes now txnID v) := by
  rw [storedWF_iff]
  exact ⟨_, decodeS_liveBytes now txnID v hn ht, fun h => by cases h⟩

theorem storedWF_markerBytes (now txnID : Nat) (hn : now < two64) (ht : txnID < two64) :
    StoredWF (markerBytes now txnID) := by
  rw [storedWF_iff]
  exact ⟨_, decodeS_markerBytes now txnID hn ht, fun _ => rfl⟩

theorem decodeO_some {b : Bytes} {o : Ver} (h : decodeS b = .ok (some o)) : decodeO (some b) = some o := by
  simp only [decodeO, h]

theorem forall_some_eq {P : Bytes → Prop} {x : Bytes} (h : P x) : ∀ b, some x = some b → P b :=
  fun _ hb => Option.some.inj hb ▸ h

/-- **the capture decision, abstractly** (one key): on a well-formed stored value, a non-empty
    application value and a clock above the stored timestamp where the value changed -/
theorem captureSpec_abs (txnID now cutoff : Nat) (appv stored new : Option Bytes)
    (hn : now < two64) (ht : txnID < two64)
    (hst : ∀ b, stored = some b → StoredWF b) (hne : ∀ v, appv = some v → v ≠ [])
    (hclk : ∀ o v, decodeO stored = some o → appv = some v → o.val ≠ v → o.ts < now)
    (h : captureSpec (captureCfg txnID now cutoff) appv stored = .ok new) :
    decodeO new = captureO (decodeO stored) appv now ∧ ∀ b, new = some b → StoredWF b := by
  cases appv with
  | some v =>
    have hv := hne v rfl
    cases stored with
    | none =>
      rw [capture_new txnID now cutoff v none rfl] at h
      injection h with h; subst h
      refine ⟨?_, forall_some_eq (P := StoredWF) (x := liveBytes now txnID v) (storedWF_liveBytes now txnID v hn ht)⟩
      rw [decodeO_some (decodeS_liveBytes now txnID v hn ht)]
      simp [captureO, decodeO, liveOf]
    | some b =>
      obtain ⟨o, hd, hw⟩ := storedWF_iff.mp (hst b rfl)
      obtain ⟨_, hdr, a, hp, ho⟩ := decodeS_some hd
      have hdo : decodeO (some b) = some o := decodeO_some hd
      have hoval : o.val = a := by rw [ho]
      have hots : o.ts = hdr.ts := by rw [ho]
      by_cases hav : a = v
      · subst hav
        rw [capture_unchanged txnID now cutoff a b hdr hp] at h
        injection h with h; subst h
        refine ⟨?_, forall_some_eq (P := StoredWF) (x := b) (hst b rfl)⟩
        rw [hdo]
        have hlive : o.del = false := by
          cases hdel : o.del with
          | false => rfl
          | true => exact absurd ((hw hdel).symm.trans hoval).symm hv
        have : liveOf (some o) = some a := by
          simp only [liveOf, hlive, Bool.false_eq_true, if_false, hoval]
        simp only [captureO, this, if_true]
      · have hne' : o.val ≠ v := by rw [hoval]; exact hav
        have hts : hdr.ts < now := by
          rw [← hots]; exact hclk o v hdo rfl hne'
        rw [capture_changed txnID now cutoff v b a hdr hp hav hts] at h
        injection h with h; subst h
        refine ⟨?_, forall_some_eq (P := StoredWF) (x := liveBytes now txnID v) (storedWF_liveBytes now txnID v hn ht)⟩
        rw [hdo, decodeO_some (decodeS_liveBytes now txnID v hn ht)]
        have : liveOf (some o) ≠ some v := by
          simp only [liveOf]
          split
          · intro h0; cases h0
          · intro h0; injection h0 with h0; exact hne' h0
        simp only [captureO, this, if_false]
  | none =>
    cases stored with
    | none =>
      simp only [captureSpec] at h
      injection h with h; subst h
      exact ⟨rfl, fun b hb => by cases hb⟩
    | some b =>
      obtain ⟨o, hd, hw⟩ := storedWF_iff.mp (hst b rfl)
      obtain ⟨_, hdr, a, hp, ho⟩ := decodeS_some hd
      have hdo : decodeO (some b) = some o := decodeO_some hd
      cases hdel : Header.isDeleted hdr.flags with
      | false =>
        rw [capture_deleted txnID now cutoff b a hdr hp hdel] at h
        injection h with h; subst h
        refine ⟨?_, forall_some_eq (P := StoredWF) (x := markerBytes now txnID) (storedWF_markerBytes now txnID hn ht)⟩
        rw [hdo, decodeO_some (decodeS_markerBytes now txnID hn ht)]
        have : o.del = false := by rw [ho]; exact hdel
        simp only [captureO, this, Bool.false_eq_true, if_false]
      | true =>
        rw [capture_marker_kept txnID now cutoff b a hdr hp hdel] at h
        injection h with h; subst h
        refine ⟨?_, forall_some_eq (P := StoredWF) (x := b) (hst b rfl)⟩
        rw [hdo]
        have : o.del = true := by rw [ho]; exact hdel
        simp only [captureO, this, if_true]

end

/-- the projection of a well-formed stored value is `projVer` of its logical content -/
theorem projVal_abs {b : Bytes} (h : StoredWF b) : projVal b = projVer (decodeO (some b)) := by
  obtain ⟨o, hd, hw⟩ := storedWF_iff.mp h
  obtain ⟨_, hdr, a, hp, ho⟩ := decodeS_some hd
  rw [decodeO_some hd]
  unfold projVal projVer
  rw [hp]
  simp only
  subst ho
  simp only
  by_cases ha : a = []
  · subst ha; simp
  · have hl : ¬ a.length = 0 := fun h0 => ha (List.length_eq_zero_iff.mp h0)
    have hdel : Header.isDeleted hdr.flags = false := by
      cases hx : Header.isDeleted hdr.flags with
      | false => rfl
      | true => exact absurd (hw hx) ha
    simp [hl, ha, hdel]

theorem bind_projVal_abs {o : Option Bytes} (h : ∀ b, o = some b → StoredWF b) :
    o.bind projVal = projVer (decodeO o) := by
  cases o with
  | none => rfl
  | some b => exact projVal_abs (h b rfl)

/-- without live empty values the projection is the live value -/
theorem projVer_eq_liveOf {o : Option Ver} (h : ∀ x, o = some x → x.WF ∧ (x.del = false → x.val ≠ [])) :
    projVer o = liveOf o := by
  cases o with
  | none => rfl
  | some x =>
    obtain ⟨hw, hne⟩ := h x rfl
    unfold projVer liveOf
    cases hd : x.del with
    | true => simp [hd]
    | false => simp [hd, hne hd]

/-- an application view equal to the live shadow values is not changed by the capture -/
theorem capture_of_mirrored {sh : Abs.DB} {app : Abs.Key → Option Bytes} (now : Nat)
    (h : ∀ key, app key = liveOf (sh key)) : capture sh app now = sh := by
  funext key
  rw [capture_apply, h key]
  cases hs : sh key with
  | none => rfl
  | some o =>
    cases hd : o.del with
    | true => simp [captureO, liveOf, hd]
    | false => simp [captureO, liveOf, hd]

/-! ## 4. the capture pass `mainToShadow` -/

theorem appVD_of_find {dbis : List Dbi} {n : Bytes} {d : Dbi} (hp : isPrivate n = false)
    (hd : findDbi dbis n = some d) (k : Bytes) :
    appVD dbis (n, k) = get (isIntKey d.flags) d.kvs k := by
  simp only [appVD, hp, hd, Bool.false_eq_true, if_false]

theorem appVD_of_none {dbis : List Dbi} {n : Bytes} (hd : findDbi dbis n = none) (k : Bytes) :
    appVD dbis (n, k) = none := by
  simp only [appVD, hd]; split <;> rfl

theorem absShD_of_find {dbis : List Dbi} {n : Bytes} {sd : Dbi} (hp : isPrivate n = false)
    (hd : findDbi dbis (shadowName n) = some sd) (k : Bytes) :
    absShD dbis (n, k) = decodeO (get (isIntKey sd.flags) sd.kvs k) := by
  simp only [absShD, hp, hd, Bool.false_eq_true, if_false, absDbi]

theorem absShD_of_none {dbis : List Dbi} {n : Bytes} (hd : findDbi dbis (shadowName n) = none)
    (k : Bytes) : absShD dbis (n, k) = none := by
  simp only [absShD, hd]; split <;> rfl

theorem absShD_private {dbis : List Dbi} {n : Bytes} (hp : isPrivate n = true) (k : Bytes) :
    absShD dbis (n, k) = none := by
  simp only [absShD, hp, if_true]

theorem appVD_private {dbis : List Dbi} {n : Bytes} (hp : isPrivate n = true) (k : Bytes) :
    appVD dbis (n, k) = none := by
  simp only [appVD, hp, if_true]

/-- the shadow the capture pass works on (`shadowOf`), abstractly: the content of the existing
    shadow, or nothing -/
theorem shadowOf_facts {w : W} (hok : ShOk w.dbis) {n : Bytes} {d : Dbi} (hp : isPrivate n = false)
    (hd : findDbi w.dbis n = some d) :
    isIntKey (shadowOf w n d).flags = isIntKey d.flags ∧
    KvsWF (isIntKey d.flags) (shadowOf w n d).kvs ∧
    ∀ k, absShD w.dbis (n, k) = decodeO (get (isIntKey d.flags) (shadowOf w n d).kvs k) := by
  cases hs : findDbi w.dbis (shadowName n) with
  | none =>
    obtain ⟨a, b⟩ := shadowOf_isIntKey_new (w := w) (n := n) (d := d) hs
    rw [b]
    exact ⟨a, kvsWF_nil _, fun k => by rw [absShD_of_none hs]; rfl⟩
  | some sd =>
    rw [shadowOf_of_some (d := d) hs]
    obtain ⟨hwf, d', hd', hik⟩ := hok.sh n sd hp hs
    rw [hd] at hd'; injection hd' with hd'; subst hd'
    unfold DbiWF at hwf
    rw [hik] at hwf
    exact ⟨hik, hwf, fun k => by rw [absShD_of_find hp hs, hik]⟩

/-- the shadow of one ordinary application DBI after `mainToShadow`, abstractly -/
theorem mainToShadow_dbi_abs {c : Cfg} {w w' : W} {txnID now cutoff : Nat}
    (hs : SortedNames w.dbis) (hok : ShOk w.dbis)
    (hn : now < two64) (ht : txnID < two64)
    (hne : ∀ key v, appVD w.dbis key = some v → v ≠ [])
    (hclk : ∀ key o v, absShD w.dbis key = some o → appVD w.dbis key = some v → o.val ≠ v → o.ts < now)
    (h : mainToShadow c w txnID now cutoff = .ok w')
    {n : Bytes} {d : Dbi} (hp : isPrivate n = false) (hd : findDbi w.dbis n = some d)
    (hnd : isDupSort d.flags = false) :
    ∃ kvs', findDbi w'.dbis (shadowName n) = some { shadowOf w n d with kvs := kvs' } ∧
      isIntKey (shadowOf w n d).flags = isIntKey d.flags ∧
      KvsWF (isIntKey d.flags) kvs' ∧
      ∀ k, decodeO (get (isIntKey d.flags) kvs' k) =
        capture (absShD w.dbis) (appVD w.dbis) now (n, k) := by
  obtain ⟨hik, hswf, habs⟩ := shadowOf_facts hok hp hd
  obtain ⟨hA, hAK⟩ := hok.app n d hp hd
  obtain ⟨kvs', hf, hrest⟩ := mainToShadow_nondup (sortedNames_distinct hs) h hp hd hnd
  rw [hik] at hrest
  obtain ⟨hS', hK', hget⟩ := hrest hA hAK hswf.1 (fun p hp' => (hswf.2 p hp').1)
  have hst : ∀ k b, get (isIntKey d.flags) (shadowOf w n d).kvs k = some b → StoredWF b := by
    intro k b hg
    obtain ⟨k', hm, _⟩ := get_some_mem hg
    exact (hswf.2 _ hm).2
  have hkey : ∀ k, decodeO (get (isIntKey d.flags) kvs' k) =
        captureO (decodeO (get (isIntKey d.flags) (shadowOf w n d).kvs k))
          (get (isIntKey d.flags) d.kvs k) now ∧
      ∀ b, get (isIntKey d.flags) kvs' k = some b → StoredWF b := by
    intro k
    refine captureSpec_abs txnID now cutoff _ _ _ hn ht (hst k) ?_ ?_ (hget k)
    · intro v hv
      exact hne (n, k) v (by rw [appVD_of_find hp hd]; exact hv)
    · intro o v ho hv hne'
      exact hclk (n, k) o v (by rw [habs k]; exact ho) (by rw [appVD_of_find hp hd]; exact hv) hne'
  refine ⟨kvs', hf, hik, ⟨hS', ?_⟩, ?_⟩
  · intro p hp'
    obtain ⟨pk, pv⟩ := p
    exact ⟨hK' _ hp', (hkey pk).2 pv (get_of_mem hS' hp')⟩
  · intro k
    rw [capture_apply, habs k, appVD_of_find hp hd]
    exact (hkey k).1

/-- **`mainToShadow`, abstractly**: the shadow content becomes the capture of the application's
    view; application DBIs are untouched; every application DBI has a shadow afterwards; the
    well-formedness is kept -/
theorem mainToShadow_abs {c : Cfg} {w w' : W} {txnID now cutoff : Nat}
    (hs : SortedNames w.dbis) (hok : ShOk w.dbis) (hnd : NoDupApp w.dbis)
    (hn : now < two64) (ht : txnID < two64)
    (hne : ∀ key v, appVD w.dbis key = some v → v ≠ [])
    (hclk : ∀ key o v, absShD w.dbis key = some o → appVD w.dbis key = some v → o.val ≠ v → o.ts < now)
    (h : mainToShadow c w txnID now cutoff = .ok w') :
    SortedNames w'.dbis ∧ ShOk w'.dbis ∧
    (∀ n, isPrivate n = false → findDbi w'.dbis n = findDbi w.dbis n) ∧
    (∀ n d, isPrivate n = false → findDbi w.dbis n = some d →
      (findDbi w'.dbis (shadowName n)).isSome = true) ∧
    ∀ key, absShD w'.dbis key = capture (absShD w.dbis) (appVD w.dbis) now key := by
  have happ : ∀ n, isPrivate n = false → findDbi w'.dbis n = findDbi w.dbis n :=
    fun n hp => mainToShadow_app_unchanged h n hp
  -- the shadow of a name without application DBI is not touched (and does not exist)
  have hmiss : ∀ n, isPrivate n = false → findDbi w.dbis n = none →
      findDbi w'.dbis (shadowName n) = none := by
    intro n hp hd
    have h0 : findDbi w.dbis (shadowName n) = none := by
      cases hsn : findDbi w.dbis (shadowName n) with
      | none => rfl
      | some sd =>
        obtain ⟨_, d, hd', _⟩ := hok.sh n sd hp hsn
        rw [hd] at hd'; cases hd'
    rw [(mainToShadow_frame h).2 (shadowName n) ?_, h0]
    intro m hm _ he
    have := shadowName_inj he
    subst this
    exact (findDbi_none_names.mp hd) hm
  refine ⟨mainToShadow_sorted hs h, ⟨?_, ?_⟩, happ, ?_, ?_⟩
  · intro n d hp hd
    rw [happ n hp] at hd
    exact hok.app n d hp hd
  · intro n sd hp hsd
    cases hd : findDbi w.dbis n with
    | none => rw [hmiss n hp hd] at hsd; cases hsd
    | some d =>
      obtain ⟨kvs', hf, hik, hwf, _⟩ :=
        mainToShadow_dbi_abs hs hok hn ht hne hclk h hp hd (hnd n d hp hd)
      rw [hf] at hsd; injection hsd with hsd; subst hsd
      refine ⟨?_, d, by rw [happ n hp]; exact hd, hik⟩
      unfold DbiWF
      simp only
      rw [hik]; exact hwf
  · intro n d hp hd
    obtain ⟨kvs', hf, _⟩ := mainToShadow_dbi_abs hs hok hn ht hne hclk h hp hd (hnd n d hp hd)
    rw [hf]; rfl
  · intro key
    obtain ⟨n, k⟩ := key
    cases hp : isPrivate n with
    | true =>
      rw [capture_apply, absShD_private hp, absShD_private hp, appVD_private hp]; rfl
    | false =>
      cases hd : findDbi w.dbis n with
      | none =>
        have h0 : findDbi w.dbis (shadowName n) = none := by
          cases hsn : findDbi w.dbis (shadowName n) with
          | none => rfl
          | some sd =>
            obtain ⟨_, d, hd', _⟩ := hok.sh n sd hp hsn
            rw [hd] at hd'; cases hd'
        rw [capture_apply, absShD_of_none (hmiss n hp hd), absShD_of_none h0, appVD_of_none hd]; rfl
      | some d =>
        obtain ⟨kvs', hf, hik, _, hk⟩ :=
          mainToShadow_dbi_abs hs hok hn ht hne hclk h hp hd (hnd n d hp hd)
        rw [absShD_of_find hp hf]
        simp only
        rw [hik]; exact hk k

/-! ## 5. the merge loop of `loadOnce` in shadow mode -/

/-- both DBIs a message concerns — the application DBI and the shadow it is merged into, existing
    or created from the message (`createFlags`, `shadowCreateFlags`) — have the key order the
    message says (the same integer-key flag), so that no key changes its meaning -/
def FlagsOkSh (c : Cfg) (dbis : List Dbi) (m : DbiMsg) : Prop :=
  isIntKey ((findDbi dbis m.name).getD (newDbi m.name (createFlags c m))).flags = isIntKey m.flags ∧
  isIntKey ((findDbi dbis (shadowName m.name)).getD
    (newDbi (shadowName m.name) (shadowCreateFlags c m))).flags = isIntKey m.flags

instance (c : Cfg) (dbis : List Dbi) (m : DbiMsg) : Decidable (FlagsOkSh c dbis m) := by
  unfold FlagsOkSh; exact inferInstance

theorem shadowName_ne_app {a n : Bytes} (h : isPrivate n = false) : shadowName a ≠ n :=
  shadowName_ne_of_not_private h

/-- **one DBI message, shadow mode** (cut-off 0): the well-formedness is kept, DBIs other than the
    message's application DBI and its shadow are untouched, the application's view does not
    change, and the logical content of the shadows is joined with the message's content -/
theorem loadDbi_abs_sh (c : Cfg) (snap : Snap) (txnID : Nat) (w w' : W) (m : DbiMsg)
    (hn : c.native = false) (ht : txnID < two64) (hok : ShOk w.dbis)
    (hm : isPrivate m.name = false → MsgWF m ∧ FlagsOkSh c w.dbis m)
    (h : loadDbi c snap txnID 0 w m = .ok w') :
    ShOk w'.dbis ∧
    (∀ n, n ≠ m.name → n ≠ shadowName m.name → findDbi w'.dbis n = findDbi w.dbis n) ∧
    (∀ key, appVD w'.dbis key = appVD w.dbis key) ∧
    ∀ key, absShD w'.dbis key = join (absShD w.dbis key) (absMsgAt snap.fv m key) := by
  cases hp : isPrivate m.name with
  | true =>
    rw [loadDbi_private hp] at h
    injection h with h; subst h
    refine ⟨hok, fun _ _ _ => rfl, fun _ => rfl, ?_⟩
    intro key
    have : absMsgAt snap.fv m key = none := by
      unfold absMsgAt
      by_cases hk : isPrivate key.1 = true
      · simp [hk]
      · have hne : ¬ m.name = key.1 := fun he => hk (he ▸ hp)
        simp [hne]
    rw [this, join_none_right]
  | false =>
    obtain ⟨hmw, hfl1, hfl2⟩ := hm hp
    obtain ⟨_, w1, h1, h2⟩ := loadDbi_ok hp h
    obtain ⟨_, td, s, htd, hs, hw'⟩ := mergeDbi_ok h2
    have htn : targetName c m = shadowName m.name := by simp [targetName, hn]
    rw [htn] at htd hw'
    have hne0 : m.name ≠ shadowName m.name := fun he => shadowName_ne_app hp he.symm
    have hl1 : ∀ n, findDbi w1.dbis n =
        if n = shadowName m.name then
          some ((findDbi w.dbis (shadowName m.name)).getD
            (newDbi (shadowName m.name) (shadowCreateFlags c m)))
        else if n = m.name then some ((findDbi w.dbis m.name).getD (newDbi m.name (createFlags c m)))
        else findDbi w.dbis n := by
      intro n
      have := createDbis_lookup h1 n
      simpa only [hn, Bool.false_eq_true, if_false] using this
    have htd' : td = (findDbi w.dbis (shadowName m.name)).getD
        (newDbi (shadowName m.name) (shadowCreateFlags c m)) := by
      have := hl1 (shadowName m.name)
      rw [if_pos rfl, htd] at this
      injection this
    have htdn : td.name = shadowName m.name := findDbi_name htd
    have htdwf : DbiWF td := by
      rw [htd']
      cases hf : findDbi w.dbis (shadowName m.name) with
      | some sd => exact (hok.sh _ _ hp hf).1
      | none => exact kvsWF_nil _
    have hflags : isIntKey td.flags = isIntKey m.flags := by rw [htd']; exact hfl2
    obtain ⟨hwf', hpt⟩ := update_abs (isIntKey td.flags)
      { fv := snap.fv, defTs := 0, txn := txnID, cutoff := 0, pad := c.pad }
      td.kvs w1.dirty m.entries s rfl rfl ht htdwf hmw (mapStratErr_eq_ok hs)
    have hlook : ∀ n, findDbi w'.dbis n =
        if n = shadowName m.name then some { td with kvs := s.db }
        else if n = m.name then some ((findDbi w.dbis m.name).getD (newDbi m.name (createFlags c m)))
        else findDbi w.dbis n := by
      intro n
      rw [hw']
      simp only
      rw [findDbi_setKvs, hl1]
      by_cases hnm : n = shadowName m.name
      · rw [if_pos hnm, if_pos hnm, ← htd']
        simp [htdn]
      · rw [if_neg hnm, if_neg hnm]
        by_cases hnm2 : n = m.name
        · rw [if_pos hnm2]
          simp only [Option.map_some]
          have : ¬ ((findDbi w.dbis m.name).getD (newDbi m.name (createFlags c m))).name
              = shadowName m.name := by
            cases hf : findDbi w.dbis m.name with
            | some d => simp only [Option.getD_some]; rw [findDbi_name hf]; exact hne0
            | none => simp only [Option.getD_none, newDbi]; exact hne0
          rw [if_neg this]
        · rw [if_neg hnm2]
          cases hf : findDbi w.dbis n with
          | none => rfl
          | some d =>
            have : ¬ d.name = shadowName m.name := by rw [findDbi_name hf]; exact hnm
            simp [this]
    have happ' : ∀ n, isPrivate n = false → findDbi w'.dbis n =
        if n = m.name then some ((findDbi w.dbis m.name).getD (newDbi m.name (createFlags c m)))
        else findDbi w.dbis n := by
      intro n hpn
      rw [hlook, if_neg (fun he => shadowName_ne_app hpn he.symm)]
    have hsh' : ∀ n, isPrivate n = false → findDbi w'.dbis (shadowName n) =
        if n = m.name then some { td with kvs := s.db } else findDbi w.dbis (shadowName n) := by
      intro n hpn
      rw [hlook]
      by_cases hnm : n = m.name
      · subst hnm; rw [if_pos rfl, if_pos rfl]
      · have h1' : ¬ shadowName n = shadowName m.name := fun he => hnm (shadowName_inj he)
        have h2' : ¬ shadowName n = m.name := shadowName_ne_app hp
        rw [if_neg h1', if_neg h2', if_neg hnm]
    refine ⟨⟨?_, ?_⟩, ?_, ?_, ?_⟩
    · intro n d hpn hf
      rw [happ' n hpn] at hf
      split at hf
      · injection hf with hf
        cases hfo : findDbi w.dbis m.name with
        | some d0 =>
          rw [hfo] at hf; simp only [Option.getD_some] at hf; subst hf
          exact hok.app _ _ hp hfo
        | none =>
          rw [hfo] at hf; simp only [Option.getD_none] at hf; subst hf
          exact ⟨sorted_nil _, fun p hp' => by cases hp'⟩
      · exact hok.app n d hpn hf
    · intro n sd hpn hf
      rw [hsh' n hpn] at hf
      split at hf
      · rename_i hnm
        subst hnm
        injection hf with hf; subst hf
        refine ⟨hwf', _, by rw [happ' _ hpn, if_pos rfl], ?_⟩
        simp only
        rw [hflags, hfl1]
      · rename_i hnm
        obtain ⟨hwf, d, hd, hik⟩ := hok.sh n sd hpn hf
        exact ⟨hwf, d, by rw [happ' n hpn, if_neg hnm]; exact hd, hik⟩
    · intro n h1' h2'
      rw [hlook, if_neg h2', if_neg h1']
    · intro key
      obtain ⟨n, k⟩ := key
      cases hpn : isPrivate n with
      | true => rw [appVD_private hpn, appVD_private hpn]
      | false =>
        by_cases hnm : n = m.name
        · subst hnm
          cases hfo : findDbi w.dbis m.name with
          | some d0 =>
            have : findDbi w'.dbis m.name = some d0 := by
              rw [happ' m.name hpn, if_pos rfl, hfo]; rfl
            rw [appVD_of_find hpn this, appVD_of_find hpn hfo]
          | none =>
            have : findDbi w'.dbis m.name = some (newDbi m.name (createFlags c m)) := by
              rw [happ' m.name hpn, if_pos rfl, hfo]; rfl
            rw [appVD_of_find hpn this, appVD_of_none hfo]; rfl
        · have : findDbi w'.dbis n = findDbi w.dbis n := by rw [happ' n hpn, if_neg hnm]
          unfold appVD
          simp only [this]
    · intro key
      obtain ⟨n, k⟩ := key
      cases hpn : isPrivate n with
      | true =>
        have : absMsgAt snap.fv m (n, k) = none := by simp [absMsgAt, hpn]
        rw [absShD_private hpn, absShD_private hpn, this]; rfl
      | false =>
        by_cases hnm : n = m.name
        · subst hnm
          have hf' : findDbi w'.dbis (shadowName m.name) = some { td with kvs := s.db } := by
            rw [hsh' m.name hpn, if_pos rfl]
          rw [absShD_of_find hpn hf']
          simp only
          rw [hpt k]
          have hnorm : norm { fv := snap.fv, defTs := 0, txn := txnID, cutoff := 0, pad := c.pad } =
              norm (normCfg snap.fv) := funext (norm_congr rfl rfl)
          have hold : decodeO (get (isIntKey td.flags) td.kvs k) = absShD w.dbis (m.name, k) := by
            rw [htd']
            cases hfo : findDbi w.dbis (shadowName m.name) with
            | none => rw [absShD_of_none hfo]; rfl
            | some sd => rw [absShD_of_find hpn hfo]; rfl
          have hmsg : absMsgAt snap.fv m (m.name, k) = absMsg snap.fv m k := by
            simp [absMsgAt, hpn]
          rw [hold, hnorm, hflags, hmsg]
          rfl
        · have hnm' : ¬ m.name = n := fun he => hnm he.symm
          have hmsg : absMsgAt snap.fv m (n, k) = none := by simp [absMsgAt, hpn, hnm']
          have hf' : findDbi w'.dbis (shadowName n) = findDbi w.dbis (shadowName n) := by
            rw [hsh' n hpn, if_neg hnm]
          rw [hmsg, join_none_right]
          unfold absShD
          simp only [hf']

/-- **the loop over the snapshot's messages, shadow mode** -/
theorem loadFold_abs_sh (c : Cfg) (snap : Snap) (txnID : Nat) (hn : c.native = false)
    (ht : txnID < two64) :
    ∀ (dbs : List DbiMsg) (w w' : W), (dbs.map (·.name)).Nodup → ShOk w.dbis →
      (∀ m ∈ dbs, isPrivate m.name = false → MsgWF m ∧ FlagsOkSh c w.dbis m) →
      dbs.foldlM (loadDbi c snap txnID 0) w = .ok w' →
      ShOk w'.dbis ∧ (∀ key, appVD w'.dbis key = appVD w.dbis key) ∧
      ∀ key, absShD w'.dbis key = join (absShD w.dbis key) (absMsgs snap.fv dbs key) := by
  intro dbs
  induction dbs with
  | nil =>
    intro w w' _ hok _ h
    cases h
    exact ⟨hok, fun _ => rfl,
      fun key => by rw [absMsgs_none (fun _ hm => by cases hm), join_none_right]⟩
  | cons m rest ih =>
    intro w w' hnd hok hms h
    obtain ⟨w1, hx, hrest⟩ := foldlM_cons_ok h
    simp only [List.map_cons, List.nodup_cons] at hnd
    obtain ⟨hnotin, hnd'⟩ := hnd
    have hne : ∀ m' ∈ rest, m'.name ≠ m.name := by
      intro m' hm' he
      exact hnotin (he ▸ List.mem_map_of_mem hm')
    obtain ⟨hok1, hframe, happ1, habs1⟩ :=
      loadDbi_abs_sh c snap txnID w w1 m hn ht hok (hms m (by simp)) hx
    have hms' : ∀ m' ∈ rest, isPrivate m'.name = false → MsgWF m' ∧ FlagsOkSh c w1.dbis m' := by
      intro m' hm' hp'
      obtain ⟨h1, h2⟩ := hms m' (by simp [hm']) hp'
      refine ⟨h1, ?_⟩
      cases hpm : isPrivate m.name with
      | true =>
        rw [loadDbi_private hpm] at hx
        injection hx with hx; subst hx; exact h2
      | false =>
        unfold FlagsOkSh at h2 ⊢
        rw [hframe _ (hne m' hm') (fun he => shadowName_ne_app hp' he.symm),
          hframe _ (shadowName_ne_app hpm) (fun he => hne m' hm' (shadowName_inj he))]
        exact h2
    obtain ⟨hok', happ', habs'⟩ := ih w1 w' hnd' hok1 hms' hrest
    refine ⟨hok', fun key => by rw [happ', happ1], ?_⟩
    intro key
    rw [habs', habs1, absMsgs_cons]
    unfold absMsgAt
    by_cases hp : isPrivate key.1 = true
    · have hr : absMsgs snap.fv rest key = none := by unfold absMsgs; simp [hp]
      simp only [hp, if_true, join_none_right, hr]
    · simp only [hp, Bool.false_eq_true, if_false]
      by_cases hm : m.name = key.1
      · simp only [hm, if_true]
        rw [absMsgs_none, join_none_right]
        intro m' hm' he
        exact hne m' hm' (he.trans hm.symm)
      · simp only [hm, if_false, join_none_right]

/-! ## 6. the projection pass `shadowToMain` -/

/-- without the dupsort hack the projection step of a duplicate-keys DBI fails -/
theorem s2mStep_nohack_nondup {c : Cfg} {w w1 : W} {n : Bytes} {d : Dbi} (hh : c.hack = false)
    (hp : isPrivate n = false) (hd : findDbi w.dbis n = some d) (h : s2mStep c w n = .ok w1) :
    isDupSort d.flags = false := by
  cases hdup : isDupSort d.flags with
  | false => rfl
  | true =>
    exfalso
    unfold s2mStep at h
    simp [hp, hd, hdup, hh, bind, Except.bind, throw, throwThe, MonadExceptOf.throw] at h

/-- one application DBI after `shadowToMain`, abstractly -/
theorem shadowToMain_dbi_abs {c : Cfg} {w w' : W} (hh : c.hack = false)
    (hs : SortedNames w.dbis) (hok : ShOk w.dbis) (h : shadowToMain c w = .ok w')
    {n : Bytes} {d : Dbi} (hp : isPrivate n = false) (hd : findDbi w.dbis n = some d) :
    isDupSort d.flags = false ∧
    ∃ sd kvs', findDbi w.dbis (shadowName n) = some sd ∧
      findDbi w'.dbis n = some { d with kvs := kvs' } ∧
      Sorted (isIntKey d.flags) kvs' ∧ DKeysOK kvs' ∧
      ∀ k, get (isIntKey d.flags) kvs' k = projVer (absShD w.dbis (n, k)) := by
  have hdist := sortedNames_distinct hs
  have hnd : isDupSort d.flags = false := by
    obtain ⟨w1, w2, hstep, hd1, _, _⟩ := shadowToMain_dbi hdist h hp hd
    exact s2mStep_nohack_nondup hh hp hd1 hstep
  obtain ⟨sd, kvs', hsd, hd', _, hproj⟩ := shadowToMain_nondup hdist h hp hd hnd
  obtain ⟨hwf, d0, hd0, hik⟩ := hok.sh n sd hp hsd
  rw [hd] at hd0; injection hd0 with hd0; subst hd0
  unfold DbiWF at hwf
  rw [hik] at hwf
  obtain ⟨hA, hAK⟩ := hok.app n d hp hd
  obtain ⟨hS', hK', hget⟩ := hproj hA hAK hwf.1 (fun p hp' => (hwf.2 p hp').1)
  refine ⟨hnd, sd, kvs', hsd, hd', hS', hK', ?_⟩
  intro k
  rw [hget k, absShD_of_find hp hsd, hik]
  apply bind_projVal_abs
  intro b hb
  obtain ⟨k', hm, _⟩ := get_some_mem hb
  exact (hwf.2 _ hm).2

/-- **`shadowToMain`, abstractly** (no dupsort hack): the shadows are untouched, every
    application DBI becomes the projection of its shadow, no application DBI has duplicate keys
    (the pass would have failed), the well-formedness is kept -/
theorem shadowToMain_abs {c : Cfg} {w w' : W} (hh : c.hack = false)
    (hs : SortedNames w.dbis) (hok : ShOk w.dbis) (h : shadowToMain c w = .ok w') :
    SortedNames w'.dbis ∧ ShOk w'.dbis ∧ NoDupApp w'.dbis ∧
    (∀ key, absShD w'.dbis key = absShD w.dbis key) ∧
    ∀ key, appVD w'.dbis key = projVer (absShD w'.dbis key) := by
  obtain ⟨hnames, _, hpriv⟩ := shadowToMain_frame h
  have hnone : ∀ n, findDbi w'.dbis n = none ↔ findDbi w.dbis n = none := by
    intro n
    rw [findDbi_none_names, findDbi_none_names]
    unfold dbiNames at hnames
    rw [hnames]
  have hshs : ∀ n, findDbi w'.dbis (shadowName n) = findDbi w.dbis (shadowName n) :=
    fun n => hpriv _ (isPrivate_shadowName n)
  have habs : ∀ key, absShD w'.dbis key = absShD w.dbis key := by
    intro key
    unfold absShD
    simp only [hshs]
  -- every application DBI of the result comes from one of the input
  have hfrom : ∀ n d', isPrivate n = false → findDbi w'.dbis n = some d' →
      ∃ d, findDbi w.dbis n = some d := by
    intro n d' _ hd'
    cases hd : findDbi w.dbis n with
    | some d => exact ⟨d, rfl⟩
    | none => rw [(hnone n).mpr hd] at hd'; cases hd'
  refine ⟨shadowToMain_sorted hs h, ⟨?_, ?_⟩, ?_, habs, ?_⟩
  · intro n d' hp hd'
    obtain ⟨d, hd⟩ := hfrom n d' hp hd'
    obtain ⟨_, sd, kvs', _, hf, hS, hK, _⟩ := shadowToMain_dbi_abs hh hs hok h hp hd
    rw [hf] at hd'; injection hd' with hd'; subst hd'
    exact ⟨hS, hK⟩
  · intro n sd hp hsd
    rw [hshs] at hsd
    obtain ⟨hwf, d, hd, hik⟩ := hok.sh n sd hp hsd
    obtain ⟨_, sd', kvs', _, hf, _⟩ := shadowToMain_dbi_abs hh hs hok h hp hd
    exact ⟨hwf, _, hf, hik⟩
  · intro n d' hp hd'
    obtain ⟨d, hd⟩ := hfrom n d' hp hd'
    obtain ⟨hnd, sd, kvs', _, hf, _⟩ := shadowToMain_dbi_abs hh hs hok h hp hd
    rw [hf] at hd'; injection hd' with hd'; subst hd'
    exact hnd
  · intro key
    obtain ⟨n, k⟩ := key
    cases hp : isPrivate n with
    | true => rw [appVD_private hp, absShD_private hp]; rfl
    | false =>
      cases hd : findDbi w.dbis n with
      | none =>
        have h0 : findDbi w.dbis (shadowName n) = none := by
          cases hsn : findDbi w.dbis (shadowName n) with
          | none => rfl
          | some sd =>
            obtain ⟨_, d, hd', _⟩ := hok.sh n sd hp hsn
            rw [hd] at hd'; cases hd'
        rw [appVD_of_none ((hnone n).mpr hd), habs, absShD_of_none h0]; rfl
      | some d =>
        obtain ⟨_, sd, kvs', _, hf, _, _, hget⟩ := shadowToMain_dbi_abs hh hs hok h hp hd
        rw [appVD_of_find hp hf, habs]
        exact hget k

/-! ## 7. a whole shadow-mode `loadOnce` / `sendOnce`, phrased with lookups -/

/-- the key-order hypotheses survive the capture pass -/
theorem flagsOkSh_after_capture {c : Cfg} {w w1 : W} {m : DbiMsg} (hok : ShOk w.dbis) (hok1 : ShOk w1.dbis)
    (hp : isPrivate m.name = false)
    (happ : ∀ n, isPrivate n = false → findDbi w1.dbis n = findDbi w.dbis n)
    (hex : ∀ n d, isPrivate n = false → findDbi w.dbis n = some d →
      (findDbi w1.dbis (shadowName n)).isSome = true)
    (h : FlagsOkSh c w.dbis m) : FlagsOkSh c w1.dbis m := by
  obtain ⟨h1, h2⟩ := h
  refine ⟨by rw [happ _ hp]; exact h1, ?_⟩
  cases hs1 : findDbi w1.dbis (shadowName m.name) with
  | some sd =>
    obtain ⟨_, d, hd, hik⟩ := hok1.sh _ sd hp hs1
    rw [happ _ hp] at hd
    rw [hd] at h1
    simp only [Option.getD_some] at h1 ⊢
    rw [hik]; exact h1
  | none =>
    have : findDbi w.dbis (shadowName m.name) = none := by
      cases hs0 : findDbi w.dbis (shadowName m.name) with
      | none => rfl
      | some sd =>
        obtain ⟨_, d, hd, _⟩ := hok.sh _ sd hp hs0
        have := hex _ d hp hd
        rw [hs1] at this; cases this
    rw [this] at h2
    exact h2

/-- **`loadOnce`, shadow mode, no dupsort hack, cut-off 0** (lookup form): the shadow content
    afterwards is the join of the snapshot's content with the old shadow content — captured first,
    if the capture ran (`lastSynced < e.lastTxn`) —; afterwards every application DBI is the
    projection of its shadow; the well-formedness is kept -/
theorem loadOnce_abs_sh (c : Cfg) (e : Env) (snap : Snap) (lastSynced now : Nat) (r : LoadRes)
    (hn : c.native = false) (hh : c.hack = false)
    (hT : e.lastTxn + 1 < two64) (hnow : now < two64)
    (hs : SortedNames e.dbis) (hok : ShOk e.dbis) (hnd : NoDupApp e.dbis)
    (hsnap : SnapOk snap)
    (hfl : ∀ m ∈ snap.dbs, isPrivate m.name = false → FlagsOkSh c e.dbis m)
    (hne : lastSynced < e.lastTxn → ∀ key v, appVD e.dbis key = some v → v ≠ [])
    (hclk : lastSynced < e.lastTxn → ∀ key o v, absShD e.dbis key = some o →
      appVD e.dbis key = some v → o.val ≠ v → o.ts < now)
    (h : loadOnce c e snap lastSynced now 0 = .ok r) :
    SortedNames r.env.dbis ∧ ShOk r.env.dbis ∧ NoDupApp r.env.dbis ∧
    (∀ key, absShD r.env.dbis key =
      join ((if lastSynced < e.lastTxn then capture (absShD e.dbis) (appVD e.dbis) now
             else absShD e.dbis) key) (absSnap snap key)) ∧
    (∀ key, appVD r.env.dbis key = projVer (absShD r.env.dbis key)) := by
  obtain ⟨w1, w2, w3, h1, h2, h3, henv, _, _⟩ := loadOnce_shadow_ok hn h
  -- phase 1
  have ph1 : SortedNames w1.dbis ∧ ShOk w1.dbis ∧
      (∀ m ∈ snap.dbs, isPrivate m.name = false → FlagsOkSh c w1.dbis m) ∧
      ∀ key, absShD w1.dbis key =
        (if lastSynced < e.lastTxn then capture (absShD e.dbis) (appVD e.dbis) now
         else absShD e.dbis) key := by
    by_cases hl : lastSynced < e.lastTxn
    · rw [if_pos hl] at h1
      obtain ⟨a1, a2, a3, a4, a5⟩ := mainToShadow_abs (w := ⟨e.dbis, false⟩) hs hok hnd hnow hT
        (hne hl) (hclk hl) h1
      refine ⟨a1, a2, ?_, fun key => by rw [if_pos hl]; exact a5 key⟩
      intro m hm hp
      exact flagsOkSh_after_capture (w := ⟨e.dbis, false⟩) hok a2 hp a3 a4 (hfl m hm hp)
    · rw [if_neg hl] at h1
      subst h1
      exact ⟨hs, hok, hfl, fun key => by rw [if_neg hl]⟩
  obtain ⟨hs1, hok1, hfl1, habs1⟩ := ph1
  -- phase 2
  obtain ⟨hok2, _, habs2⟩ := loadFold_abs_sh c snap (e.lastTxn + 1) hn hT snap.dbs w1 w2 hsnap.1 hok1
    (fun m hm hp => ⟨hsnap.2 m hm hp, hfl1 m hm hp⟩) h2
  have hs2 : SortedNames w2.dbis := loadFold_sorted hs1 h2
  -- phase 3
  obtain ⟨hs3, hok3, hnd3, habs3, hproj⟩ := shadowToMain_abs hh hs2 hok2 h3
  have hdb : r.env.dbis = w3.dbis := by rw [henv]; rfl
  rw [hdb]
  refine ⟨hs3, hok3, hnd3, ?_, hproj⟩
  intro key
  rw [habs3, habs2, habs1]
  rfl

/-- **`sendOnce`, shadow mode, not receive-only** (lookup form): the transaction is the capture;
    the snapshot's content is the shadow content after the capture, and the snapshot is `SnapOk`
    with the flags of the application DBIs -/
theorem sendOnce_abs_sh (c : Cfg) (e : Env) (now cutoff : Nat) (r : SendRes)
    (hn : c.native = false) (hro : c.receiveOnly = false)
    (hT : e.lastTxn + 1 < two64) (hnow : now < two64)
    (hs : SortedNames e.dbis) (hok : ShOk e.dbis) (hnd : NoDupApp e.dbis)
    (hne : ∀ key v, appVD e.dbis key = some v → v ≠ [])
    (hclk : ∀ key o v, absShD e.dbis key = some o → appVD e.dbis key = some v → o.val ≠ v → o.ts < now)
    (h : sendOnce c e now cutoff = .ok r) :
    SortedNames r.env.dbis ∧ ShOk r.env.dbis ∧
    (∀ n, isPrivate n = false → findDbi r.env.dbis n = findDbi e.dbis n) ∧
    (∀ key, absShD r.env.dbis key = capture (absShD e.dbis) (appVD e.dbis) now key) ∧
    (∀ key, absSnap r.snap key = absShD r.env.dbis key) ∧
    SnapOk r.snap ∧
    ∀ m ∈ r.snap.dbs, isPrivate m.name = false ∧
      ∃ d, findDbi e.dbis m.name = some d ∧ m.flags = d.flags := by
  obtain ⟨w, hw, henv, _, hfv, _, hp⟩ := (sendOnce_ok_iff c e now cutoff r hro).mp h
  simp only [dumpState, hn, Bool.false_eq_true, if_false] at hw
  have hdb : r.env.dbis = w.dbis := by rw [henv]; simp [sendEnv, hn, commit]
  obtain ⟨a1, a2, a3, a4, a5⟩ := mainToShadow_abs (w := ⟨e.dbis, false⟩) hs hok hnd hnow hT hne hclk hw
  have hfv2 : 2 ≤ r.snap.fv := by rw [hfv]; decide
  have hp' : Pointwise (fun name m => m.name = name ∧ DbiImage c w (shadowName name) name m)
      (appNames w) r.snap.dbs := by
    refine hp.imp ?_
    intro name m hi
    have : dumpName c name = shadowName name := by simp [dumpName, hn]
    rw [this] at hi
    exact ⟨hi.name, hi⟩
  have hmemnames : ∀ n, n ∈ appNames w ↔ (n ∈ w.dbis.map (·.name) ∧ isPrivate n = false) := by
    intro n; simp [appNames, dbiNames]
  -- what a message looks like
  have hmsg : ∀ n m, isPrivate n = false → DbiImage c w (shadowName n) n m →
      ∃ d sd, findDbi w.dbis n = some d ∧ m.flags = d.flags ∧
        findDbi w.dbis (shadowName n) = some sd ∧ isIntKey sd.flags = isIntKey d.flags ∧
        DbiWF sd ∧ Pointwise EntryImage sd.kvs m.entries := by
    intro n m hpn hi
    obtain ⟨sd, hsd, hents⟩ := hi.dumped
    obtain ⟨o, ho, hf, _, _⟩ := hi.orig
    obtain ⟨hwf, d, hd, hik⟩ := a2.sh n sd hpn hsd
    rw [ho] at hd; injection hd with hd; subst hd
    exact ⟨o, sd, ho, hf, hsd, hik, hwf, hents⟩
  rw [hdb]
  refine ⟨a1, a2, a3, a5, ?_, ⟨?_, ?_⟩, ?_⟩
  · intro key
    obtain ⟨n, k⟩ := key
    cases hpk : isPrivate n with
    | true => rw [absShD_private hpk]; simp [absSnap, absMsgs, hpk]
    | false =>
      unfold absSnap absMsgs
      simp only [hpk, Bool.false_eq_true, if_false]
      rcases pointwise_find hp' n with ⟨h1, h2⟩ | ⟨h1, m, h2, h3⟩
      · rw [h2]
        have hnone : findDbi w.dbis n = none := by
          rw [findDbi_none_names]
          intro hmem
          exact h1 ((hmemnames n).mpr ⟨hmem, hpk⟩)
        have : findDbi w.dbis (shadowName n) = none := by
          cases hsn : findDbi w.dbis (shadowName n) with
          | none => rfl
          | some sd =>
            obtain ⟨_, d, hd', _⟩ := a2.sh n sd hpk hsn
            rw [hnone] at hd'; cases hd'
        rw [absShD_of_none this]
      · rw [h2]
        obtain ⟨d, sd, hd, hf, hsd, hik, hdw, hents⟩ := hmsg n m hpk h3
        rw [absShD_of_find hpk hsd]
        simp only [absMsg]
        rw [hf, ← hik, image_filter hfv2 (isIntKey sd.flags) sd.kvs m.entries hents hdw k,
          joinAll_toList]
  · rw [pointwise_names hp']
    unfold appNames dbiNames
    exact (sortedNames_nodup a1).filter _
  · intro m hm _
    obtain ⟨n, hn', hnm, hi⟩ := hp'.exists_left m hm
    have hpn : isPrivate n = false := ((hmemnames n).mp hn').2
    obtain ⟨d, sd, hd, hf, hsd, hik, hdw, hents⟩ := hmsg n m hpn hi
    intro x hx
    obtain ⟨kv, hkv, hix⟩ := hents.exists_left x hx
    obtain ⟨_, hkey, hew, hts⟩ := norm_image (fv := 2) (Nat.le_refl 2) hix (hdw.2 kv hkv).2
    exact ⟨hew, hts, by rw [hkey]; exact (hdw.2 kv hkv).1⟩
  · intro m hm
    obtain ⟨n, hn', hnm, hi⟩ := hp'.exists_left m hm
    have hpn : isPrivate n = false := ((hmemnames n).mp hn').2
    obtain ⟨d, sd, hd, hf, _⟩ := hmsg n m hpn hi
    rw [hnm]
    exact ⟨hpn, d, by rw [← a3 n hpn]; exact hd, hf⟩

/-! ## 8. decidable predicates on environments and snapshots, and what they mean -/

/-- a property of the value of an option, if there is one -/
def optAll {α : Type} (o : Option α) (P : α → Prop) : Prop := ∀ x, o = some x → P x

instance {α : Type} (o : Option α) (P : α → Prop) [∀ x, Decidable (P x)] : Decidable (optAll o P) :=
  match o with
  | none => isTrue (fun _ h => by cases h)
  | some a =>
    if h : P a then isTrue (fun x hx => by injection hx with hx; subst hx; exact h)
    else isFalse (fun hf => h (hf a rfl))

/-- a property of the version a stored value denotes, if it parses -/
def verAll (P : Ver → Prop) (b : Bytes) : Prop :=
  match decodeS b with
  | .ok (some v) => P v
  | _ => True

instance (P : Ver → Prop) [∀ v, Decidable (P v)] (b : Bytes) : Decidable (verAll P b) := by
  unfold verAll; split <;> exact inferInstance

theorem verAll_of_decode {P : Ver → Prop} {b : Bytes} {v : Ver} (h : verAll P b)
    (hd : decodeS b = .ok (some v)) : P v := by
  unfold verAll at h; rw [hd] at h; exact h

/-- the application name of a shadow DBI name -/
def unshadow (x : Bytes) : Option Bytes :=
  if shadowPrefix.isPrefixOf x then some (x.drop shadowPrefix.length) else none

theorem unshadow_shadowName (n : Bytes) : unshadow (shadowName n) = some n := by
  unfold unshadow shadowName
  have : shadowPrefix.isPrefixOf (shadowPrefix ++ n) = true := by
    rw [List.isPrefixOf_iff_prefix]; exact List.prefix_append _ _
  rw [if_pos this, List.drop_left]

theorem unshadow_some {x n : Bytes} (h : unshadow x = some n) : x = shadowName n := by
  unfold unshadow at h
  split at h
  · rename_i hpre
    injection h with h
    rw [List.isPrefixOf_iff_prefix] at hpre
    have := List.prefix_iff_eq_append.mp hpre
    unfold shadowName
    rw [← h]; exact this.symm
  · cases h

/-- **well-formed shadow-mode environment** (decidable): DBI names strictly increasing; every
    application (non-private) DBI has no duplicate keys, is strictly sorted in its key order with
    keys of 1..511 bytes, and its shadow — if it exists — has the same integer-key flag and a
    well-formed content (`DbiWF`: sorted, keys of 1..511 bytes, every value parses to a well-formed
    version); every shadow DBI of a non-private name belongs to an existing application DBI -/
def ShadowWF (e : Env) : Prop :=
  SortedNames e.dbis ∧
  (∀ d ∈ e.dbis, isPrivate d.name = false →
    isDupSort d.flags = false ∧ Sorted (isIntKey d.flags) d.kvs ∧ DKeysOK d.kvs ∧
    optAll (findDbi e.dbis (shadowName d.name)) fun sd =>
      isIntKey sd.flags = isIntKey d.flags ∧ DbiWF sd) ∧
  (∀ sd ∈ e.dbis, optAll (unshadow sd.name) fun n =>
    isPrivate n = false → (findDbi e.dbis n).isSome = true)

instance (e : Env) : Decidable (ShadowWF e) := by unfold ShadowWF; exact inferInstance

theorem shadowWF_iff (e : Env) : ShadowWF e ↔ SortedNames e.dbis ∧ ShOk e.dbis ∧ NoDupApp e.dbis := by
  constructor
  · rintro ⟨hs, h2, h3⟩
    refine ⟨hs, ⟨?_, ?_⟩, ?_⟩
    · intro n d hp hf
      have hn := findDbi_name hf
      have := h2 d (findDbi_mem hf) (by rw [hn]; exact hp)
      exact ⟨this.2.1, this.2.2.1⟩
    · intro n sd hp hf
      have hsn := findDbi_name hf
      have hex := h3 sd (findDbi_mem hf) n (by rw [hsn]; exact unshadow_shadowName n) hp
      cases hd : findDbi e.dbis n with
      | none => rw [hd] at hex; cases hex
      | some d =>
        have hn := findDbi_name hd
        have := (h2 d (findDbi_mem hd) (by rw [hn]; exact hp)).2.2.2 sd (by rw [hn]; exact hf)
        exact ⟨this.2, d, rfl, this.1⟩
    · intro n d hp hf
      have hn := findDbi_name hf
      exact (h2 d (findDbi_mem hf) (by rw [hn]; exact hp)).1
  · rintro ⟨hs, hok, hnd⟩
    refine ⟨hs, ?_, ?_⟩
    · intro d hd hp
      have hf := findDbi_of_mem hs hd
      obtain ⟨hA, hK⟩ := hok.app _ d hp hf
      refine ⟨hnd _ d hp hf, hA, hK, ?_⟩
      intro sd hsd
      obtain ⟨hwf, d', hd', hik⟩ := hok.sh _ sd hp hsd
      rw [hf] at hd'; injection hd' with hd'; subst hd'
      exact ⟨hik, hwf⟩
    · intro sd hsd n hun hp
      have hx := unshadow_some hun
      have hf := findDbi_of_mem hs hsd
      rw [hx] at hf
      obtain ⟨_, d, hd, _⟩ := hok.sh n sd hp hf
      rw [hd]; rfl

/-- a property `P` of every version stored in the shadow of an application DBI (decidable) -/
def ShadowAll (P : Ver → Prop) (e : Env) : Prop :=
  ∀ d ∈ e.dbis, isPrivate d.name = false →
    optAll (findDbi e.dbis (shadowName d.name)) fun sd => ∀ p ∈ sd.kvs, verAll P p.2

instance (P : Ver → Prop) [∀ v, Decidable (P v)] (e : Env) : Decidable (ShadowAll P e) := by
  unfold ShadowAll; exact inferInstance

theorem decodeO_eq_some {o : Option Bytes} {v : Ver} (h : decodeO o = some v) :
    ∃ b, o = some b ∧ decodeS b = .ok (some v) := by
  cases o with
  | none => cases h
  | some b =>
    refine ⟨b, rfl, ?_⟩
    unfold decodeO at h
    simp only at h
    split at h
    · rename_i x hx; rw [hx, h]
    · cases h

theorem shadowAll_abs {P : Ver → Prop} {e : Env} (hok : ShOk e.dbis) (h : ShadowAll P e) :
    ∀ key v, absShadow e key = some v → P v := by
  intro key v hv
  obtain ⟨n, k⟩ := key
  cases hp : isPrivate n with
  | true => rw [absShadow, absShD_private hp] at hv; cases hv
  | false =>
    cases hs : findDbi e.dbis (shadowName n) with
    | none => rw [absShadow, absShD_of_none hs] at hv; cases hv
    | some sd =>
      rw [absShadow, absShD_of_find hp hs] at hv
      obtain ⟨b, hg, hd⟩ := decodeO_eq_some hv
      obtain ⟨k', hm, _⟩ := get_some_mem hg
      obtain ⟨_, d, hdf, _⟩ := hok.sh n sd hp hs
      have hn := findDbi_name hdf
      have := h d (findDbi_mem hdf) (by rw [hn]; exact hp) sd (by rw [hn]; exact hs) _ hm
      exact verAll_of_decode this hd

/-- **shared monotone clock** (decidable): `now` is above every timestamp stored in a shadow -/
def ClockBelow (e : Env) (now : Nat) : Prop := ShadowAll (fun v => v.ts < now) e

instance (e : Env) (now : Nat) : Decidable (ClockBelow e now) := by
  unfold ClockBelow; exact inferInstance

/-- **D7 exclusion, shadow side** (decidable): no live shadow version has an empty value -/
def LiveNonEmpty (e : Env) : Prop := ShadowAll (fun v => v.del = false → v.val ≠ []) e

instance (e : Env) : Decidable (LiveNonEmpty e) := by unfold LiveNonEmpty; exact inferInstance

/-- **D7 exclusion, application side** (decidable): no application value is empty -/
def AppNonEmpty (e : Env) : Prop :=
  ∀ d ∈ e.dbis, isPrivate d.name = false → ∀ p ∈ d.kvs, p.2 ≠ []

instance (e : Env) : Decidable (AppNonEmpty e) := by unfold AppNonEmpty; exact inferInstance

theorem appNonEmpty_abs {e : Env} (h : AppNonEmpty e) :
    ∀ key v, appView e key = some v → v ≠ [] := by
  intro key v hv
  obtain ⟨n, k⟩ := key
  cases hp : isPrivate n with
  | true => rw [appView, appVD_private hp] at hv; cases hv
  | false =>
    cases hd : findDbi e.dbis n with
    | none => rw [appView, appVD_of_none hd] at hv; cases hv
    | some d =>
      rw [appView, appVD_of_find hp hd] at hv
      obtain ⟨k', hm, _⟩ := get_some_mem hv
      have hn := findDbi_name hd
      exact h d (findDbi_mem hd) (by rw [hn]; exact hp) _ hm

/-- **D7 exclusion, snapshot side** (decidable): no live entry (after normalisation with the
    snapshot's format version) has an empty value -/
def SnapLiveNonEmpty (s : Snap) : Prop :=
  ∀ m ∈ s.dbs, ∀ x ∈ m.entries,
    (norm (normCfg s.fv) x).del = false → (norm (normCfg s.fv) x).val ≠ []

instance (s : Snap) : Decidable (SnapLiveNonEmpty s) := by unfold SnapLiveNonEmpty; exact inferInstance

theorem joinAll_mem {o : Option Ver} {l : List Ver} {v : Ver} (h : joinAll o l = some v) :
    o = some v ∨ v ∈ l := by
  induction l generalizing o with
  | nil => left; exact h
  | cons x xs ih =>
    have h' : joinAll (join o (some x)) xs = some v := h
    rcases ih h' with h1 | h1
    · cases o with
      | none =>
        simp only [join] at h1
        injection h1 with h1
        right; rw [h1]; exact List.mem_cons_self ..
      | some a =>
        simp only [join] at h1
        injection h1 with h1
        rcases Ver.max_eq_or a x with h2 | h2
        · left; rw [← h1, h2]
        · right; rw [← h1, h2]; exact List.mem_cons_self ..
    · right; exact List.mem_cons_of_mem _ h1

theorem snapLiveNonEmpty_abs {s : Snap} (h : SnapLiveNonEmpty s) : NoEmptyLive (absSnap s) := by
  intro key o ho
  unfold absSnap absMsgs at ho
  split at ho
  · cases ho
  · split at ho
    · cases ho
    · rename_i m hm
      unfold absMsg at ho
      rcases joinAll_mem ho with h0 | h0
      · cases h0
      · obtain ⟨x, hx, rfl⟩ := List.mem_map.mp h0
        exact h m (List.mem_of_find?_eq_some hm) x (List.mem_filter.mp hx).1

theorem noEmptyLive_join {a b : Abs.DB} (ha : NoEmptyLive a) (hb : NoEmptyLive b) :
    NoEmptyLive (a.join b) := by
  intro key o ho
  unfold Abs.DB.join at ho
  cases hak : a key with
  | none =>
    rw [hak, join_none_left] at ho
    exact hb key o ho
  | some x =>
    cases hbk : b key with
    | none =>
      rw [hak, hbk] at ho
      exact ha key o (by rw [hak]; exact ho)
    | some y =>
      rw [hak, hbk] at ho
      simp only [join] at ho
      injection ho with ho
      rcases Ver.max_eq_or x y with h2 | h2
      · exact ha key o (by rw [hak, ← ho, h2])
      · exact hb key o (by rw [hbk, ← ho, h2])

theorem noEmptyLive_capture {sh : Abs.DB} {app : Abs.Key → Option Bytes} (now : Nat)
    (hs : NoEmptyLive sh) (ha : ∀ key v, app key = some v → v ≠ []) :
    NoEmptyLive (capture sh app now) := by
  intro key o ho hd
  rw [capture_apply] at ho
  unfold captureO at ho
  split at ho
  · rename_i v hv
    split at ho
    · exact hs key o ho hd
    · injection ho with ho; subst ho; exact ha key v hv
  · split at ho
    · rename_i x hx
      split at ho
      · exact hs key o (by rw [hx]; exact ho) hd
      · injection ho with ho; subst ho; cases hd
    · cases ho

/-- **the mirror invariant**: for every application DBI and key the application holds `v` iff
    the shadow holds a live version with value `v` (`appView = liveOf ∘ absShadow`), and no live
    shadow version has an empty value (the D7 exclusion: an empty live value cannot be mirrored,
    the projection removes it from the application DBI) -/
def Mirrored (e : Env) : Prop :=
  (∀ key, appView e key = liveOf (absShadow e key)) ∧ NoEmptyLive (absShadow e)

/-- the logical content of the shadows of a well-formed environment is well-formed -/
theorem absShD_wf {dbis : List Dbi} (hok : ShOk dbis) : (absShD dbis).WF := by
  intro key
  obtain ⟨n, k⟩ := key
  cases hp : isPrivate n with
  | true => rw [absShD_private hp]; trivial
  | false =>
    cases hs : findDbi dbis (shadowName n) with
    | none => rw [absShD_of_none hs]; trivial
    | some sd =>
      rw [absShD_of_find hp hs]
      exact (decodeS_get (ik := isIntKey sd.flags)
        (fun p hp' => ((hok.sh n sd hp hs).1.2 p hp').2) k).2

/-- "projection of the shadows" + "no empty live value" is the mirror invariant -/
theorem mirrored_of_proj {e : Env} (hok : ShOk e.dbis)
    (hproj : ∀ key, appView e key = projVer (absShadow e key))
    (hne : NoEmptyLive (absShadow e)) : Mirrored e := by
  refine ⟨fun key => ?_, hne⟩
  rw [hproj key]
  apply projVer_eq_liveOf
  intro x hx
  have := absShD_wf hok key
  have hx' : absShD e.dbis key = some x := hx
  rw [hx'] at this
  exact ⟨this, hne key x hx⟩

theorem mirrored_proj {e : Env} (hok : ShOk e.dbis) (h : Mirrored e) :
    ∀ key, appView e key = projVer (absShadow e key) := by
  intro key
  rw [h.1 key]
  symm
  apply projVer_eq_liveOf
  intro x hx
  have := absShD_wf hok key
  have hx' : absShD e.dbis key = some x := hx
  rw [hx'] at this
  exact ⟨this, h.2 key x hx⟩

/-- under the mirror invariant no application value is empty -/
theorem mirrored_app_nonempty {e : Env} (h : Mirrored e) :
    ∀ key v, appView e key = some v → v ≠ [] := by
  intro key v hv
  rw [h.1 key] at hv
  cases ho : absShadow e key with
  | none => rw [ho] at hv; cases hv
  | some o =>
    rw [ho] at hv
    simp only [liveOf] at hv
    split at hv
    · cases hv
    · rename_i hd
      injection hv with hv
      rw [← hv]
      exact h.2 key o ho (by simpa using hd)

/-- under the mirror invariant the clock hypothesis of the capture is vacuous: no key has an
    application value different from the stored one -/
theorem mirrored_no_change {e : Env} (h : Mirrored e) :
    ∀ key o v, absShadow e key = some o → appView e key = some v → o.val ≠ v → False := by
  intro key o v ho hv hne
  rw [h.1 key, ho] at hv
  simp only [liveOf] at hv
  split at hv
  · cases hv
  · injection hv with hv; exact hne hv

/-! ## 9. a decidable sufficient condition for the mirror invariant -/

/-- the live value a stored shadow value denotes -/
def liveB (b : Bytes) : Option Bytes := liveOf (decodeO (some b))

/-- the projection of a shadow DBI's content: the live entries with their values -/
def projKvs (kvs : KVs) : KVs := kvs.filterMap fun p => (liveB p.2).map fun v => (p.1, v)

theorem get_projKvs {ik : Bool} {l : KVs} (hs : Sorted ik l) (k : Bytes) :
    get ik (projKvs l) k = (get ik l k).bind liveB := by
  induction l with
  | nil => rfl
  | cons p rest ih =>
    obtain ⟨k', v'⟩ := p
    have ih' := ih hs.tail
    rw [get_cons]
    unfold projKvs at ih' ⊢
    rw [List.filterMap_cons]
    by_cases hk : kcmp ik k k' = 0
    · rw [if_pos hk]
      simp only [Option.bind_some]
      cases hl : liveB v' with
      | some x => simp only [Option.map_some, get_cons, if_pos hk]
      | none =>
        simp only [Option.map_none]
        rw [ih']
        have : get ik rest k = none := by
          apply get_none_of_lt
          intro q hq
          exact kcmp_lt_of_eq_of_lt ik hk ((sorted_cons.mp hs).1 q hq)
        rw [this]; rfl
    · rw [if_neg hk]
      cases hl : liveB v' with
      | some x => simp only [Option.map_some, get_cons, if_neg hk]; exact ih'
      | none => simp only [Option.map_none]; exact ih'

/-- **the mirror invariant, decidable form**: every application DBI is literally the projection
    of its shadow (empty, if it has none), and no live shadow version has an empty value -/
def MirroredD (e : Env) : Prop :=
  LiveNonEmpty e ∧
  ∀ d ∈ e.dbis, isPrivate d.name = false →
    d.kvs = match findDbi e.dbis (shadowName d.name) with
      | none => []
      | some sd => projKvs sd.kvs

instance (e : Env) : Decidable (MirroredD e) := by unfold MirroredD; exact inferInstance

theorem mirrored_of_decidable {e : Env} (hwf : ShadowWF e) (h : MirroredD e) : Mirrored e := by
  obtain ⟨hs, hok, _⟩ := (shadowWF_iff e).mp hwf
  refine ⟨?_, fun key o ho => shadowAll_abs hok h.1 key o ho⟩
  intro key
  obtain ⟨n, k⟩ := key
  cases hp : isPrivate n with
  | true => rw [appView, absShadow, appVD_private hp, absShD_private hp]; rfl
  | false =>
    cases hd : findDbi e.dbis n with
    | none =>
      have h0 : findDbi e.dbis (shadowName n) = none := by
        cases hsn : findDbi e.dbis (shadowName n) with
        | none => rfl
        | some sd =>
          obtain ⟨_, d, hd', _⟩ := hok.sh n sd hp hsn
          rw [hd] at hd'; cases hd'
      rw [appView, absShadow, appVD_of_none hd, absShD_of_none h0]; rfl
    | some d =>
      have hn := findDbi_name hd
      have hkv := h.2 d (findDbi_mem hd) (by rw [hn]; exact hp)
      rw [hn] at hkv
      rw [appView, absShadow, appVD_of_find hp hd]
      cases hsn : findDbi e.dbis (shadowName n) with
      | none =>
        rw [hsn] at hkv
        rw [absShD_of_none hsn, hkv]; rfl
      | some sd =>
        rw [hsn] at hkv
        obtain ⟨hwf', d', hd', hik⟩ := hok.sh n sd hp hsn
        rw [hd] at hd'; injection hd' with hd'; subst hd'
        rw [absShD_of_find hp hsn, hkv, ← hik, get_projKvs hwf'.1]
        cases get (isIntKey sd.flags) sd.kvs k with
        | none => rfl
        | some b => rfl

/-! ## 10. environment-level forms used by LsProps/C01RefineShadow.lean -/

/-- **well-formed snapshot, relative to the shadow-mode environment it is loaded into**: `SnapOk`
    (distinct message names, entries of non-private messages `MsgWF`), and for every non-private
    message the application DBI and the shadow it concerns — existing, or created by the load —
    have the key order the message announces (`FlagsOkSh`) -/
def SnapWFShadow (c : Cfg) (e : Env) (s : Snap) : Prop :=
  SnapOk s ∧ ∀ m ∈ s.dbs, isPrivate m.name = false → FlagsOkSh c e.dbis m

instance (c : Cfg) (e : Env) (s : Snap) : Decidable (SnapWFShadow c e s) := by
  unfold SnapWFShadow; exact inferInstance

/-- a property of all logical shadow versions holds of all stored shadow values -/
theorem shadowAll_of_abs {P : Ver → Prop} {e : Env} (hok : ShOk e.dbis)
    (h : ∀ key v, absShadow e key = some v → P v) : ShadowAll P e := by
  intro d hd hp sd hsd p hp'
  obtain ⟨pk, pv⟩ := p
  unfold verAll
  split
  · rename_i v hv
    have hwf := (hok.sh d.name sd hp hsd).1
    have hg : get (isIntKey sd.flags) sd.kvs pk = some pv := get_of_mem hwf.1 hp'
    apply h (d.name, pk) v
    rw [absShadow, absShD_of_find hp hsd, hg]
    exact decodeO_some hv
  · trivial

/-- the application's view after the capture is the live content of the captured shadows -/
theorem app_eq_live_capture (sh : Abs.DB) (app : Abs.Key → Option Bytes) (now : Nat) (key : Abs.Key) :
    app key = liveOf (capture sh app now key) := by
  rw [capture_apply]
  unfold captureO
  cases ha : app key with
  | some v =>
    simp only
    split
    · rename_i h; exact h.symm
    · rfl
  | none =>
    simp only
    cases hs : sh key with
    | none => rfl
    | some x =>
      simp only
      cases hd : x.del with
      | true => simp [liveOf, hd]
      | false => simp [liveOf]

theorem appVD_congr {d1 d2 : List Dbi}
    (h : ∀ n, isPrivate n = false → findDbi d1 n = findDbi d2 n) : appVD d1 = appVD d2 := by
  funext key
  obtain ⟨n, k⟩ := key
  cases hp : isPrivate n with
  | true => rw [appVD_private hp, appVD_private hp]
  | false => unfold appVD; simp only [h n hp]

end Ls.Txn
