import LsLemmas.CivilTableDefs
/- civil-date table, rows 16000 … 23999 (kernel evaluation; see CivilTableDefs) -/
namespace Ls.Civil

theorem chunk02 : chunkOK 16000 8000 = true := by decide +kernel

end Ls.Civil
