import LsLemmas.LoopRace
import LsLemmas.LoopQuiet
/-
  The state with which the loop enters `LoadOnce`, and what the race-free invariant says about it.
-/
namespace Ls.Loop
open Ls Ls.Txn Ls.SyncLoop

/-- the state (and load count) with which `goRaw` calls `poll` from `s`, if it does -/
def prePoll (s : St) : Option (St × Nat) :=
  match s.pc with
  | .top => some (s, 0)
  | .loadAfterTxn t lc inst ts n =>
    if lc = true ∧ n > maxConsecutive then none else some (loadDone s t lc inst ts, n)
  | _ => none

theorem goRaw_prePoll {c : LoopCfg} {b : Bucket} {s s1 : St} {i : In} {n : Nat}
    (h : prePoll s = some (s1, n)) : goRaw c b s i = (poll c b s1 i n, b) := by
  unfold prePoll at h
  split at h
  · rename_i hpc
    injection h with h; injection h with h1 h2; subst h1 h2
    exact goRaw_top hpc
  · rename_i t lc inst ts n' hpc
    split at h
    · cases h
    · rename_i hbr
      injection h with h; injection h with h1 h2; subst h1 h2
      rw [goRaw_loadAfterTxn hpc, if_neg hbr]
  · cases h

/-- what `LoadOnce` is called with: `poll` runs `loadOnce` on the pre-poll state's environment and
    `lastSynced` (read off the model's `poll`) -/
theorem poll_loads {c : LoopCfg} {b : Bucket} {s1 : St} {i : In} {n : Nat} {inst : InstId} {ts : Nat}
    {blob : Blob} {r : LoadRes} (hn : i.next = some (inst, ts)) (hb : findBlob b inst ts = some blob)
    (hl : loadOnce c.txn s1.env blob.snap s1.lastSynced i.now 0 = .ok r) :
    (poll c b s1 i n).env = r.env ∧
    (poll c b s1 i n).pc = .loadAfterTxn (s1.env.lastTxn + 1) r.localChanged inst ts (n + 1) := by
  unfold poll
  simp only [hn, hb, hl]
  trivial

/-- under the race-free invariant, with an uncaptured application transaction outstanding, the
    loop enters `LoadOnce` with `lastSynced` below `lastTxn` -/
theorem prePoll_local_change {c : LoopCfg} {g : G} {s1 : St} {n p : Nat}
    (h0 : Inv0 c g) (h1 : Inv1 c g) (hp : prePoll g.st = some (s1, n)) (hu : p ∈ g.gh.uncap) :
    s1.lastSynced < p ∧ p ≤ s1.env.lastTxn := by
  unfold Inv1 at h1
  have hle := h0.all_le.1 p hu
  unfold prePoll at hp
  split at hp
  · rename_i hpc
    injection hp with hp; injection hp with e1 e2; subst e1
    rw [hpc] at h1
    exact ⟨h1.1 p hu, hle⟩
  · rename_i t lc inst ts n' hpc
    split at hp
    · cases hp
    · injection hp with hp; injection hp with e1 e2; subst e1
      rw [hpc] at h1
      obtain ⟨d1, _, _, _, _, d6⟩ := loadDone_facts g.st t lc inst ts
      rw [d1, d6]
      refine ⟨?_, hle⟩
      cases lc with
      | true => exact h1.1.1 p hu
      | false =>
        have := (h1.2 rfl).1 p hu
        simp only [Bool.false_eq_true, if_false]
        split <;> omega
  · cases hp

/-- the run-once exit invariant: once the loop has ended by itself, it was in only-once mode and
    the waiting set is empty -/
theorem exit_ok_run (c : LoopCfg) (env : Env) (b : Bucket) (evs : List Ev) :
    (run c env b evs).st.pc = .exited .ok →
      c.onlyOnce = true ∧ (run c env b evs).st.waiting = [] := by
  refine run_induct (c := c) (fun g => g.st.pc = .exited .ok → c.onlyOnce = true ∧ g.st.waiting = [])
    (fun h => by cases h) (fun g e ih => ?_) evs
  cases e with
  | go i =>
    intro he
    show c.onlyOnce = true ∧ (go c g.bucket g.st i).1.waiting = []
    by_cases hne : g.st.pc = .exited .ok
    · obtain ⟨h1, h2⟩ := ih hne
      rw [(go_pc c g.bucket g.st i).2.1, goRaw_exited hne]
      exact ⟨h1, h2⟩
    · obtain ⟨h1, h2, _⟩ := exit_ok_only c g.bucket g.st i hne he
      exact ⟨h1, h2⟩
  | app ops =>
    intro he
    obtain ⟨hpc, _, hw, _⟩ := appCommit_facts g.st ops
    show c.onlyOnce = true ∧ (appCommit g.st ops).waiting = []
    rw [hw]
    exact ih (by rw [← hpc]; exact he)
  | list => exact ih
  | others bs => exact ih

/-- receive-only: the bucket changes only through other instances -/
theorem receiveOnly_run (c : LoopCfg) (hro : c.txn.receiveOnly = true) (g : G) (evs : List Ev) :
    (runFrom c g evs).bucket = g.bucket ++ othersOf evs := by
  induction evs generalizing g with
  | nil => exact (List.append_nil _).symm
  | cons e es ih =>
    show (runFrom c (step c g e) es).bucket = _
    rw [ih]
    cases e with
    | go i =>
      show (go c g.bucket g.st i).2 ++ _ = _
      rcases go_bucket c g.bucket g.st i with ⟨⟨_, h, _⟩, _⟩ | ⟨_, hb⟩
      · rw [hro] at h; cases h
      · rw [hb]; rfl
    | app ops => rfl
    | list => rfl
    | others bs => show (g.bucket ++ bs) ++ _ = _; rw [List.append_assoc]; rfl

end Ls.Loop
