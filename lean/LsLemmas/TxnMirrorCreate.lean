import LsLemmas.TxnMirrorNoop
/-
  Whole-DBI creation by a remote snapshot (non-native mode): `loadDbi` creates the application DBI
  and its shadow together, the projection then fills the application DBI.
-/
set_option linter.unusedSimpArgs false
namespace Ls.Txn
open Ls Ls.Lmdb Ls.Strategy Ls.Merge

/-- a `loadDbi` step that does not concern `n` leaves `n` and its shadow absent -/
theorem loadDbi_shadow_absent {c : Cfg} {snap : Snap} {txnID cutoff : Nat} {w w' : W} {m : DbiMsg}
    (hn : c.native = false) (h : loadDbi c snap txnID cutoff w m = .ok w') {n : Bytes}
    (hpn : isPrivate n = false) (hm : isPrivate m.name = true ∨ m.name ≠ n)
    (ha : findDbi w.dbis n = none) (hs : findDbi w.dbis (shadowName n) = none) :
    findDbi w'.dbis n = none ∧ findDbi w'.dbis (shadowName n) = none := by
  cases hpm : isPrivate m.name with
  | true =>
    rw [loadDbi_private hpm] at h
    injection h with h; subst h
    exact ⟨ha, hs⟩
  | false =>
    have hmn : m.name ≠ n := by
      rcases hm with hm | hm
      · rw [hpm] at hm; cases hm
      · exact hm
    obtain ⟨_, _, td, s, _, _, hw'⟩ := loadDbi_shadow_ok hn hpm h
    subst hw'
    have hne1 : n ≠ shadowName m.name := fun he => by rw [he, isPrivate_shadowName] at hpn; cases hpn
    have hne2 : n ≠ m.name := fun he => hmn he.symm
    have hne3 : shadowName n ≠ shadowName m.name := fun he => hne2 (shadowName_inj he)
    have hne4 : shadowName n ≠ m.name := fun he => by rw [← he, isPrivate_shadowName] at hpm; cases hpm
    constructor
    · simp only [findDbi_setKvsMirror, if_neg hne1]
      rw [loadOpened_find_other c w m n hne2 hne1]; exact ha
    · simp only [findDbi_setKvsMirror, if_neg hne3]
      rw [loadOpened_find_other c w m _ hne4 hne3]; exact hs

/-- the `loadDbi` step of a message for the absent DBI `n`: the application DBI is created empty
    with the message's (or the configured) flags, its shadow with those of them allowed for shadow
    DBIs, and the entries are merged into the (empty) shadow -/
theorem loadDbi_shadow_create {c : Cfg} {snap : Snap} {txnID cutoff : Nat} {w w' : W} {m : DbiMsg}
    (hn : c.native = false) (h : loadDbi c snap txnID cutoff w m = .ok w')
    (hpm : isPrivate m.name = false)
    (ha : findDbi w.dbis m.name = none) (hs : findDbi w.dbis (shadowName m.name) = none) :
    findDbi w'.dbis m.name = some { name := m.name, flags := createFlags c m, kvs := [] } ∧
    ∃ d0 s, update (isIntKey (createFlags c m &&& Gen.allowedShadowDBIFlagsMask))
        (nativeIter (loadCfg c snap txnID cutoff)) ⟨[], d0⟩ m.entries = .ok s ∧
      findDbi w'.dbis (shadowName m.name) =
        some { name := shadowName m.name, flags := createFlags c m &&& Gen.allowedShadowDBIFlagsMask,
               kvs := s.db } := by
  obtain ⟨_, _, td, s, htd, hs', hw'⟩ := loadDbi_shadow_ok hn hpm h
  subst hw'
  have hne : m.name ≠ shadowName m.name := fun he => by rw [he, isPrivate_shadowName] at hpm; cases hpm
  have hs1 : findDbi (openCreate w m.name (createFlags c m)).dbis (shadowName m.name) = none := by
    rw [openCreate_find_ne _ _ _ _ (Ne.symm hne)]; exact hs
  rw [loadOpened_find_shadow, hs1] at htd
  simp only [Option.getD_none] at htd
  injection htd with htd
  subst htd
  constructor
  · simp only [findDbi_setKvsMirror, if_neg hne]
    unfold loadOpened
    rw [openCreate_find_ne _ _ _ _ hne, openCreate_find_self, ha]; rfl
  · refine ⟨_, s, hs', ?_⟩
    simp only [findDbi_setKvsMirror, if_true, loadOpened_find_shadow, hs1, Option.getD_none, Option.map_some]

/-- the fold of `loadDbi` (non-native) seen from a DBI `n` that does not exist yet and for which the
    snapshot has a message: the first such message creates the application DBI (empty) and its
    shadow, which then holds the merged entries, sorted with valid keys -/
theorem loadFold_shadow_create {c : Cfg} {snap : Snap} {txnID cutoff : Nat} (hn : c.native = false)
    {n : Bytes} (hpn : isPrivate n = false) (msgs : List DbiMsg) :
    ∀ {w w' : W}, msgs.foldlM (loadDbi c snap txnID cutoff) w = .ok w' →
    findDbi w.dbis n = none → findDbi w.dbis (shadowName n) = none →
    (∃ m ∈ msgs, isPrivate m.name = false ∧ m.name = n) →
    ∃ m0 ∈ msgs, m0.name = n ∧
      findDbi w'.dbis n = some { name := n, flags := createFlags c m0, kvs := [] } ∧
      ∃ kvs', findDbi w'.dbis (shadowName n) =
          some { name := shadowName n, flags := createFlags c m0 &&& Gen.allowedShadowDBIFlagsMask,
                 kvs := kvs' } ∧
        Sorted (isIntKey (createFlags c m0)) kvs' ∧ DKeysOK kvs' := by
  induction msgs with
  | nil => intro w w' _ _ _ hex; obtain ⟨m, hm, _⟩ := hex; cases hm
  | cons m rest ih =>
    intro w w' h ha hs hex
    rw [List.foldlM_cons] at h
    cases h1 : loadDbi c snap txnID cutoff w m with
    | error x => simp [h1, bind, Except.bind] at h
    | ok w1 =>
      simp only [h1, bind, Except.bind] at h
      by_cases hm : isPrivate m.name = false ∧ m.name = n
      · obtain ⟨hpm, hmn⟩ := hm
        subst hmn
        obtain ⟨ha1, d0, s, hupd, hs1⟩ := loadDbi_shadow_create hn h1 hpm ha hs
        have hS0 : Sorted (isIntKey (createFlags c m &&& Gen.allowedShadowDBIFlagsMask)) ([] : KVs) :=
          sorted_nil _
        obtain ⟨_, hS1, hK1⟩ := update_ok_spec hS0 (fun p hp => by cases hp) hupd
        obtain ⟨hd2, kvs', hsd2, hS2, hK2, _⟩ :=
          loadFold_shadow_track hn hpn rest h ha1 hs1 hS1 hK1
        refine ⟨m, List.mem_cons_self .., rfl, hd2, kvs', hsd2, ?_, hK2⟩
        simp only at hS2
        rw [isIntKey_mask] at hS2
        exact hS2
      · have hm' : isPrivate m.name = true ∨ m.name ≠ n := by
          by_cases hp : isPrivate m.name = true
          · exact Or.inl hp
          · right; intro he; exact hm ⟨by simpa using hp, he⟩
        obtain ⟨ha1, hs1⟩ := loadDbi_shadow_absent hn h1 hpn hm' ha hs
        obtain ⟨m0, hm0, hex'⟩ := ih h ha1 hs1 (by
          obtain ⟨m', hm'mem, hm'p⟩ := hex
          rcases List.mem_cons.mp hm'mem with e | e
          · subst e; exact absurd hm'p hm
          · exact ⟨m', e, hm'p⟩)
        exact ⟨m0, List.mem_cons_of_mem _ hm0, hex'⟩

/-- a DBI created by a remote snapshot: after the step it exists with its shadow and is exactly
    the projection of the shadow -/
theorem loadOnce_shadow_created {c : Cfg} {e : Env} {snap : Snap} {lastSynced now cutoff : Nat} {r : LoadRes}
    (hn : c.native = false) (hdist : DistinctNames e.dbis)
    (h : loadOnce c e snap lastSynced now cutoff = .ok r)
    {n : Bytes} (hp : isPrivate n = false)
    (ha : findDbi e.dbis n = none) (hs : findDbi e.dbis (shadowName n) = none)
    (hex : ∃ m ∈ snap.dbs, isPrivate m.name = false ∧ m.name = n)
    (hnd : ∀ m ∈ snap.dbs, m.name = n → isDupSort (createFlags c m) = false) :
    ∃ m0 ∈ snap.dbs, m0.name = n ∧ ∃ kvs2 kvs3,
      findDbi r.env.dbis n = some { name := n, flags := createFlags c m0, kvs := kvs3 } ∧
      findDbi r.env.dbis (shadowName n) =
        some { name := shadowName n, flags := createFlags c m0 &&& Gen.allowedShadowDBIFlagsMask, kvs := kvs2 } ∧
      MirrorOK r.env.dbis { name := n, flags := createFlags c m0, kvs := kvs3 } := by
  obtain ⟨w1, w2, w3, h1, h2, h3, henv, _, _⟩ := loadOnce_shadow_ok hn h
  have ph1 : DistinctNames w1.dbis ∧ findDbi w1.dbis n = none ∧ findDbi w1.dbis (shadowName n) = none := by
    by_cases hl : lastSynced < e.lastTxn
    · rw [if_pos hl] at h1
      refine ⟨(mainToShadow_frame h1).1 hdist, ?_, ?_⟩
      · rw [mainToShadow_app_unchanged h1 n hp]; exact ha
      · rw [(mainToShadow_frame h1).2 (shadowName n) (fun m hm _ he => by
          have hmn : n = m := shadowName_inj he
          subst hmn
          have : (findDbi e.dbis n).isSome = true := findDbi_isSome_iff.mpr hm
          rw [ha] at this; cases this)]
        exact hs
    · rw [if_neg hl] at h1; subst h1; exact ⟨hdist, ha, hs⟩
  obtain ⟨hdist1, ha1, hs1⟩ := ph1
  obtain ⟨m0, hm0, hmn, hd2, kvs2, hsd2, hS2, hK2⟩ := loadFold_shadow_create hn hp snap.dbs h2 ha1 hs1 hex
  have hdist2 := loadFold_distinct_shadow hn h2 hdist1
  have hnd0 := hnd m0 hm0 hmn
  obtain ⟨sd, kvs3, hsd', hd3, hparse, hproj⟩ := shadowToMain_nondup hdist2 h3 hp hd2 hnd0
  rw [hsd2] at hsd'; injection hsd' with hsd'; subst hsd'
  obtain ⟨hS3, hK3, hget3⟩ := hproj (sorted_nil _) (fun p hp => by cases hp) hS2 hK2
  have hpriv := (shadowToMain_frame h3).2.2 (shadowName n) (isPrivate_shadowName n)
  have hdbis : r.env.dbis = w3.dbis := by rw [henv]; rfl
  refine ⟨m0, hm0, hmn, kvs2, kvs3, by rw [hdbis]; exact hd3, by rw [hdbis, hpriv]; exact hsd2, ?_⟩
  exact ⟨hS3, _, by simp only; rw [hdbis, hpriv]; exact hsd2, hS2, hK2, hparse, hget3⟩

end Ls.Txn
