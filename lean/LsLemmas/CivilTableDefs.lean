import LsModel.Civil
/-
  The civil-date table 1970-01-01 … 2262-04-11 (days 0 … 106751), checked row by row by kernel
  evaluation in chunks (LsLemmas/CivilTable00 … CivilTable13) and lifted to `∀ d ≤ 106751` in
  LsLemmas/CivilTable.

  `rowOK` is the statement about one row in terms of the model's functions. `rowFast` computes
  the same Boolean in an evaluation-friendly way (every intermediate value is forced to a
  numeral before it is used, so the kernel does not re-evaluate shared subterms);
  `rowFast_eq` proves them equal, so the kernel-evaluated chunks are about `rowOK`.
-/
namespace Ls.Civil

/-- yyyymmdd as a number -/
def dateNum (c : Nat × Nat × Nat) : Nat := c.1 * 10000 + c.2.1 * 100 + c.2.2

/-- one row of the table: the date of day `d` is a real date of a year 1970..2262, converts back
    to `d`, and is numerically (hence lexicographically) below the date of day `d + 1`. -/
def rowOK (d : Nat) : Bool :=
  let c := civilFromDays d
  (1970 ≤ c.1 && c.1 ≤ 2262) && (1 ≤ c.2.1 && c.2.1 ≤ 12) && (1 ≤ c.2.2 && c.2.2 ≤ daysIn c.2.1 c.1)
    && (daysFromCivilShifted c.1 c.2.1 c.2.2 == d + epochShift)
    && (dateNum c < dateNum (civilFromDays (d + 1)))

def force {α} (n : Nat) (f : Nat → α) : α :=
  match n with
  | 0 => f 0
  | k + 1 => f (k + 1)

theorem force_eq {α} (n : Nat) (f : Nat → α) : force n f = f n := by cases n <;> rfl

/-- `civilFromDays` in continuation-passing style with forced intermediate values -/
def civK {α} (d : Nat) (k : Nat → Nat → Nat → α) : α :=
  force (d + 719468) fun z =>
  force (z / 146097) fun era =>
  force (z % 146097) fun doe =>
  force ((doe - doe / 1460 + doe / 36524 - doe / 146096) / 365) fun yoe =>
  force (doe - (365 * yoe + yoe / 4 - yoe / 100)) fun doy =>
  force ((5 * doy + 2) / 153) fun mp =>
  force (doy - (153 * mp + 2) / 5 + 1) fun dd =>
  force (if mp < 10 then mp + 3 else mp - 9) fun m =>
  force (if m ≤ 2 then yoe + era * 400 + 1 else yoe + era * 400) fun y =>
  k y m dd

theorem civK_eq {α} (d : Nat) (k : Nat → Nat → Nat → α) :
    civK d k = k (civilFromDays d).1 (civilFromDays d).2.1 (civilFromDays d).2.2 := by
  simp only [civK, force_eq, civilFromDays]

/-- `daysFromCivilShifted` with forced intermediate values -/
def dfcK {α} (y m d : Nat) (k : Nat → α) : α :=
  force (if m ≤ 2 then y + 399 else y + 400) fun y' =>
  force (y' / 400) fun era =>
  force (y' % 400) fun yoe =>
  force (if m > 2 then m - 3 else m + 9) fun mp =>
  k (era * 146097 + yoe * 365 + yoe / 4 - yoe / 100 + (153 * mp + 2) / 5 + d)

theorem dfcK_eq {α} (y m d : Nat) (k : Nat → α) : dfcK y m d k = k (daysFromCivilShifted y m d) := by
  simp only [dfcK, force_eq, daysFromCivilShifted]

def rowFast (d : Nat) : Bool :=
  civK d fun y m dd => civK (d + 1) fun y2 m2 d2 => dfcK y m dd fun n =>
    (1970 ≤ y && y ≤ 2262) && (1 ≤ m && m ≤ 12) && (1 ≤ dd && dd ≤ daysIn m y)
      && (n == d + epochShift) && (dateNum (y, m, dd) < dateNum (y2, m2, d2))

theorem rowFast_eq (d : Nat) : rowFast d = rowOK d := by
  simp only [rowFast, civK_eq, dfcK_eq, rowOK]

/-- rows `lo … lo + n - 1` (counting down, so that every row index is a sum of two numerals) -/
def chunkOK (lo : Nat) : Nat → Bool
  | 0 => true
  | n + 1 => rowFast (lo + n) && chunkOK lo n

theorem chunkOK_row (lo : Nat) : ∀ (n d : Nat), chunkOK lo n = true → lo ≤ d → d < lo + n → rowOK d = true
  | 0, _, _, h1, h2 => by omega
  | n + 1, d, h, h1, h2 => by
    simp only [chunkOK, Bool.and_eq_true] at h
    by_cases hd : d = lo + n
    · subst hd; rw [← rowFast_eq]; exact h.1
    · exact chunkOK_row lo n d h.2 h1 (by omega)

end Ls.Civil
