import LsLemmas.TxnMirrorLoad
/-
  The entries the mirror passes feed to IterUpdate are read off a sorted DBI: they are sorted, have
  valid keys, and looking a key up in the entries is looking it up in the DBI.
-/
namespace Ls.Txn
open Ls Ls.Lmdb Ls.Strategy Ls.Merge

variable {ε : Type}

/-- `es` carries exactly the keys of `kvs`, in order; each entry is related to the stored value -/
def KeyRel (R : Bytes → KV → Prop) (kvs : KVs) (es : List KV) : Prop :=
  All2 (fun kv e => e.key = kv.1 ∧ R kv.2 e) kvs es

theorem KeyRel.mem {R : Bytes → KV → Prop} {kvs : KVs} {es : List KV} (h : KeyRel R kvs es) :
    ∀ e ∈ es, ∃ kv ∈ kvs, e.key = kv.1 ∧ R kv.2 e := by
  induction h with
  | nil => intro e he; cases he
  | cons hab _ ih =>
    intro e he
    rcases List.mem_cons.mp he with he | he
    · subst he; exact ⟨_, List.mem_cons_self .., hab⟩
    · obtain ⟨kv, hkv, h⟩ := ih e he
      exact ⟨kv, List.mem_cons_of_mem _ hkv, h⟩

theorem KeyRel.mem' {R : Bytes → KV → Prop} {kvs : KVs} {es : List KV} (h : KeyRel R kvs es) :
    ∀ kv ∈ kvs, ∃ e ∈ es, e.key = kv.1 ∧ R kv.2 e := by
  induction h with
  | nil => intro e he; cases he
  | cons hab _ ih =>
    intro kv hkv
    rcases List.mem_cons.mp hkv with hkv | hkv
    · subst hkv; exact ⟨_, List.mem_cons_self .., hab⟩
    · obtain ⟨e, he, h⟩ := ih kv hkv
      exact ⟨e, List.mem_cons_of_mem _ he, h⟩

theorem KeyRel.isorted {R : Bytes → KV → Prop} {kvs : KVs} {es : List KV} (h : KeyRel R kvs es)
    {ik : Bool} (it : Iter KV ε) (hk : ∀ e, it.key e = e.key) (hs : Sorted ik kvs) : ISorted ik it es := by
  induction h with
  | nil => exact List.Pairwise.nil
  | cons hab hrest ih =>
    obtain ⟨h1, h2⟩ := List.pairwise_cons.mp hs
    refine List.pairwise_cons.mpr ⟨?_, ih h2⟩
    intro e he
    obtain ⟨kv, hkv, hke, _⟩ := KeyRel.mem hrest e he
    rw [hk, hk, hab.1, hke]
    exact h1 kv hkv

theorem KeyRel.keysOK {R : Bytes → KV → Prop} {kvs : KVs} {es : List KV} (h : KeyRel R kvs es)
    (it : Iter KV ε) (hk : ∀ e, it.key e = e.key) (hD : DKeysOK kvs) : KeysOK it es := by
  intro e he
  obtain ⟨kv, hkv, hke, _⟩ := h.mem e he
  have := hD kv hkv
  simp only [badKey, Bool.or_eq_false_iff, decide_eq_false_iff_not] at this
  rw [hk, hke]
  exact ⟨this.1, by have := this.2; omega⟩

/-- looking a key up in the entries is looking it up in the DBI they were read from -/
theorem KeyRel.lookup {R : Bytes → KV → Prop} {kvs : KVs} {es : List KV} (h : KeyRel R kvs es)
    (ik : Bool) (it : Iter KV ε) (hk : ∀ e, it.key e = e.key) (k : Bytes) :
    (lookupI ik it es k = none ∧ get ik kvs k = none) ∨
    ∃ e v, lookupI ik it es k = some e ∧ e ∈ es ∧ kcmp ik e.key k = 0 ∧ get ik kvs k = some v ∧ R v e := by
  induction h with
  | nil => left; exact ⟨rfl, rfl⟩
  | @cons kv e kvs' es' hab _ ih =>
    obtain ⟨k', v'⟩ := kv
    simp only at hab
    by_cases hc : kcmp ik (it.key e) k = 0
    · right
      have hc' : kcmp ik k k' = 0 := by rw [hk, hab.1] at hc; exact (kcmp_eq_comm ik _ _).mp hc
      refine ⟨e, v', lookupI_cons_pos hc, List.mem_cons_self .., by rw [← hk]; exact hc, ?_, hab.2⟩
      rw [get_cons, if_pos hc']
    · have hc' : ¬ kcmp ik k k' = 0 := by
        intro h'; apply hc; rw [hk, hab.1]; exact (kcmp_eq_comm ik _ _).mp h'
      rw [lookupI_cons_neg hc, get_cons, if_neg hc']
      rcases ih with ih | ⟨e', v, h1, h2, h3⟩
      · exact Or.inl ih
      · exact Or.inr ⟨e', v, h1, List.mem_cons_of_mem _ h2, h3⟩

theorem KeyRel.inInput {R : Bytes → KV → Prop} {kvs : KVs} {es : List KV} (h : KeyRel R kvs es)
    (ik : Bool) (it : Iter KV ε) (hk : ∀ e, it.key e = e.key) (k : Bytes) :
    inInput ik it es k = (get ik kvs k).isSome := by
  induction h with
  | nil => rfl
  | @cons kv e kvs' es' hab _ ih =>
    obtain ⟨k', v'⟩ := kv
    simp only at hab
    rw [inInput_cons, get_cons, ih, hk, hab.1]
    by_cases hc : kcmp ik k' k = 0
    · have := (kcmp_eq_comm ik _ _).mp hc
      simp [hc, this]
    · have : ¬ kcmp ik k k' = 0 := fun h' => hc ((kcmp_eq_comm ik _ _).mp h')
      simp [hc, this]

/-! ### the entries `readDBI` produces -/

theorem entryOf_true (kv : Bytes × Bytes) :
    entryOf true kv = .ok { key := kv.1, val := kv.2, ts := 0, flags := 0 } := rfl

/-- a shadow value read back: the entry carries the application value, the timestamp and the
    (masked) flags of the stored header -/
def ReadRel (stored : Bytes) (e : KV) : Prop :=
  ∃ hd, Header.parse stored = .ok (hd, e.val) ∧ e.ts = hd.ts ∧ e.flags = (Header.masked hd.flags).toNat

theorem entryOf_false_ok {kv : Bytes × Bytes} {e : KV} (h : entryOf false kv = .ok e) :
    e.key = kv.1 ∧ ReadRel kv.2 e := by
  unfold entryOf at h
  simp only [Bool.false_eq_true, if_false] at h
  cases hp : Header.parse kv.2 with
  | error x => simp [hp, throw, throwThe, MonadExceptOf.throw] at h
  | ok r =>
    obtain ⟨hd, app⟩ := r
    simp only [hp, pure, Except.pure] at h
    injection h with h; subst h
    exact ⟨rfl, hd, hp, rfl, rfl⟩

theorem entryOf_false_of_parse {kv : Bytes × Bytes} {hd : Header.Hdr} {app : Bytes}
    (hp : Header.parse kv.2 = .ok (hd, app)) :
    entryOf false kv = .ok { key := kv.1, val := app, ts := hd.ts, flags := (Header.masked hd.flags).toNat } := by
  unfold entryOf
  simp only [Bool.false_eq_true, if_false, hp]; rfl

/-- raw read (application DBI): value as stored, timestamp 0, no flags -/
def RawRel (stored : Bytes) (e : KV) : Prop := e.val = stored ∧ e.ts = 0 ∧ e.flags = 0

theorem all2_map {α β} (R : α → β → Prop) (f : α → β) (l : List α) (h : ∀ a ∈ l, R a (f a)) :
    All2 R l (l.map f) := by
  induction l with
  | nil => exact All2.nil
  | cons a rest ih =>
    exact All2.cons (h a (List.mem_cons_self ..)) (ih (fun a ha => h a (List.mem_cons_of_mem _ ha)))

theorem All2.imp {α β} {R Q : α → β → Prop} {l : List α} {r : List β} (h : All2 R l r)
    (hi : ∀ a b, R a b → Q a b) : All2 Q l r := by
  induction h with
  | nil => exact All2.nil
  | cons hab _ ih => exact All2.cons (hi _ _ hab) ih

/-- the raw entries of an application DBI -/
def rawEntries (kvs : KVs) : List KV :=
  kvs.map fun kv => ({ key := kv.1, val := kv.2, ts := 0, flags := 0 } : KV)

theorem mapM_entryOf_true (kvs : KVs) : kvs.mapM (entryOf true) = .ok (rawEntries kvs) :=
  mapM_pure_eq _ kvs

theorem keyRel_raw (kvs : KVs) : KeyRel RawRel kvs (rawEntries kvs) :=
  all2_map _ _ kvs (fun _ _ => ⟨rfl, rfl, rfl, rfl⟩)

theorem keyRel_read {kvs : KVs} {es : List KV} (h : kvs.mapM (entryOf false) = .ok es) :
    KeyRel ReadRel kvs es :=
  (mapM_ok_all2 _ _ _ h).imp (fun _ _ hab => entryOf_false_ok hab)

end Ls.Txn
