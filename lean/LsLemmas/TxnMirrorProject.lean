import LsLemmas.TxnMirrorIter
/-
  `shadowToMain`: the projection of the shadow DBI onto the application DBI.
-/
namespace Ls.Txn
open Ls Ls.Lmdb Ls.Strategy Ls.Merge

/-- keys in the output of IterUpdate are stored keys or input keys -/
theorem joinOut_keys {E ε : Type} {ik : Bool} {it : Iter E ε} (mg : E → Bytes → Option Bytes)
    (cl : Bytes → Option Bytes) (I : List E) (D : KVs) (hS : ISorted ik it I) (hD : Sorted ik D) :
    ∀ p ∈ joinOut ik it mg cl I D, (∃ q ∈ D, p.1 = q.1) ∨ (∃ e ∈ I, p.1 = it.key e) := by
  intro p hp
  unfold joinOut at hp
  obtain ⟨a, ha, hpa⟩ := List.mem_flatMap.mp hp
  have hspec := plan_mem I D hS hD a ha
  cases a with
  | clean dk dv =>
    left; exact ⟨(dk, dv), hspec.1, optOut_key p hpa⟩
  | insert e =>
    right; exact ⟨e, hspec.1, optOut_key p hpa⟩
  | both e dk dv =>
    left; exact ⟨(dk, dv), hspec.2.1, optOut_key p hpa⟩

theorem joinOut_dkeysOK {E ε : Type} {ik : Bool} {it : Iter E ε} (mg : E → Bytes → Option Bytes)
    (cl : Bytes → Option Bytes) (I : List E) (D : KVs) (hS : ISorted ik it I) (hD : Sorted ik D)
    (hK : KeysOK it I) (hDK : DKeysOK D) : DKeysOK (joinOut ik it mg cl I D) := by
  intro p hp
  rcases joinOut_keys mg cl I D hS hD p hp with ⟨q, hq, h⟩ | ⟨e, he, h⟩
  · rw [h]; exact hDK q hq
  · rw [h]; exact keysOK_badKey hK he

/-- the application value the projection writes for a stored shadow value: the bytes behind the
    header, nothing when they are empty (`PlainIterator.Merge` returns nil) -/
def projVal (stored : Bytes) : Option Bytes :=
  match Header.parse stored with
  | .ok (_, v) => if v.length = 0 then none else some v
  | .error _ => none

theorem plainIter_total : Total plainIter (fun e _ => plainMerge e) (fun _ => none) :=
  ⟨fun _ _ => rfl, fun _ => rfl⟩

theorem readRel_projVal {stored : Bytes} {e : KV} (h : ReadRel stored e) :
    setNew (plainMerge e) = projVal stored := by
  obtain ⟨hd, hp, _, _⟩ := h
  unfold projVal plainMerge setNew
  rw [hp]
  by_cases hl : e.val.length = 0 <;> simp [hl]

/-- the projection pass on one ordinary DBI, pointwise -/
theorem project_get {ik : Bool} {app sh : KVs} {es : List KV} {d : Bool} {s : S}
    (hr : KeyRel ReadRel sh es) (hA : Sorted ik app) (hAK : DKeysOK app)
    (hS : Sorted ik sh) (hSK : DKeysOK sh)
    (h : iterUpdate ik plainIter ⟨app, d⟩ es = .ok s) :
    Sorted ik s.db ∧ DKeysOK s.db ∧ ∀ k, get ik s.db k = (get ik sh k).bind projVal := by
  have hk : ∀ e, plainIter.key e = e.key := fun _ => rfl
  have hIS := hr.isorted plainIter hk hS
  have hKO := hr.keysOK plainIter hk hSK
  obtain ⟨d', h1, _⟩ := iterUpdate_main app d es (plainIter_total.local es app) hIS hKO hA hAK
  rw [h1] at h
  injection h with h; subst h
  refine ⟨sorted_joinOut _ _ es app hIS hA, joinOut_dkeysOK _ _ es app hIS hA hKO hAK, ?_⟩
  intro k
  simp only
  rw [get_joinOut _ _ k es app hIS hA]
  rcases hr.lookup ik plainIter hk k with ⟨h1, h2⟩ | ⟨e, v, h1, _, _, h2, h3⟩
  · rw [h1, h2]; simp
  · rw [h1, h2]
    simp only [Option.bind_some]
    exact readRel_projVal h3

/-- the projection pass succeeds on well-formed input -/
theorem project_ok {ik : Bool} {app sh : KVs} {es : List KV} (d : Bool)
    (hr : KeyRel ReadRel sh es) (hA : Sorted ik app) (hAK : DKeysOK app)
    (hS : Sorted ik sh) (hSK : DKeysOK sh) :
    ∃ s, iterUpdate ik plainIter ⟨app, d⟩ es = .ok s := by
  have hk : ∀ e, plainIter.key e = e.key := fun _ => rfl
  obtain ⟨d', h1, _⟩ := iterUpdate_main app d es (plainIter_total.local es app)
    (hr.isorted plainIter hk hS) (hr.keysOK plainIter hk hSK) hA hAK
  exact ⟨_, h1⟩

/-- if the application DBI already is the projection of the shadow, the pass writes nothing -/
theorem project_noop {ik : Bool} {app sh : KVs} {es : List KV} (d : Bool)
    (hr : KeyRel ReadRel sh es) (hA : Sorted ik app) (hS : Sorted ik sh) (hSK : DKeysOK sh)
    (hinv : ∀ k, get ik app k = (get ik sh k).bind projVal) :
    iterUpdate ik plainIter ⟨app, d⟩ es = .ok ⟨app, d⟩ := by
  have hk : ∀ e, plainIter.key e = e.key := fun _ => rfl
  apply iterUpdate_noop app d es (hr.isorted plainIter hk hS) (hr.keysOK plainIter hk hSK) hA
  · intro e he
    unfold MergeNoop
    obtain ⟨kv, hkv, hke, hR⟩ := hr.mem e he
    have hg : get ik sh (plainIter.key e) = some kv.2 := by
      rw [hk, hke]; exact get_of_mem hS (by cases kv; exact hkv)
    have hp := readRel_projVal hR
    have hi := hinv (plainIter.key e)
    rw [hg, Option.bind_some, ← hp] at hi
    rw [hi]
    simp only [plainIter]
    unfold plainMerge setNew
    by_cases hl : e.val.length = 0
    · simp [hl]
    · have : e.val ≠ [] := fun h => hl (by rw [h]; rfl)
      simp [hl, this]
  · intro p hp hin
    exfalso
    rw [hr.inInput ik plainIter hk p.1] at hin
    have hg : get ik app p.1 = some p.2 := get_of_mem hA (by cases p; exact hp)
    rw [hinv p.1] at hg
    cases hsh : get ik sh p.1 with
    | none => rw [hsh] at hg; cases hg
    | some v => rw [hsh] at hin; cases hin

end Ls.Txn
