import LsLemmas.RecvDeliver
/-
  Receiver model: deadlock freedom (some fault-free step of a downloader or of the consumer is
  enabled whenever anything is unfinished) and termination of fault-free runs (a measure that
  every fault-free step decreases), hence: a finite fault-free continuation to a state at rest.
  Core Lean only.
-/
namespace Ls.Recv
variable {ι : Type} [DecidableEq ι]

/-- the fault-free steps of the downloaders and of the consumer (no listing, no failed load, no
    environment step) -/
def Step.fair : Step ι → Bool
  | .wake _ | .check _ | .acqDl _ | .acqDc _ | .decode _ | .retry _ | .next _ | .close => true
  | .load _ r => r != .fail
  | _ => false

/-! ### deadlock freedom -/

theorem en_wake {s : St ι} {d : ι} {x : Dl} (hx : getDl s d = some x) (hpc : x.pc = .idle) (hs : x.signal = true) :
    (step s (.wake d)).isSome := by simp [step, hx, hpc, hs]

theorem en_check {s : St ι} {d : ι} {x : Dl} (hx : getDl s d = some x) (hpc : x.pc = .check) :
    (step s (.check d)).isSome := by
  simp only [step, hx, hpc, if_true]
  split
  · rfl
  · split <;> rfl

theorem en_acqDl {s : St ι} {d : ι} {x : Dl} {t : Nat} (hx : getDl s d = some x) (hpc : x.pc = .wantDl t)
    (hf : 0 < s.dlFree) : (step s (.acqDl d)).isSome := by simp [step, hx, hpc, hf]

theorem en_load {s : St ι} {d : ι} {x : Dl} {t : Nat} (hx : getDl s d = some x) (hpc : x.pc = .loading t) :
    ∃ r, r ≠ LoadRes.fail ∧ (step s (.load d r)).isSome := by
  cases hb : hasBlob s d t with
  | none => exact ⟨.notFound, by simp, by simp [step, hx, hpc, hb]⟩
  | some b => exact ⟨.ok, by simp, by simp [step, hx, hpc, hb]⟩

theorem en_acqDc {s : St ι} {d : ι} {x : Dl} {t : Nat} {bad : Bool} (hx : getDl s d = some x)
    (hpc : x.pc = .wantDc t bad) (hf : 0 < s.dcFree) : (step s (.acqDc d)).isSome := by simp [step, hx, hpc, hf]

theorem en_decode {s : St ι} {d : ι} {x : Dl} {t : Nat} {bad : Bool} (hx : getDl s d = some x)
    (hpc : x.pc = .decoding t bad) : (step s (.decode d)).isSome := by
  simp only [step, hx, hpc]
  split <;> rfl

theorem en_retry {s : St ι} {d : ι} {x : Dl} (hx : getDl s d = some x) (hpc : x.pc = .backoff) :
    (step s (.retry d)).isSome := by simp [step, hx, hpc]

/-- the consumer can move -/
theorem en_consumer {s : St ι} (h : s.pending ≠ [] ∨ s.holding ≠ none) :
    ∃ x : Step ι, x.fair = true ∧ (step s x).isSome := by
  cases hh : s.holding with
  | some n => exact ⟨.close, rfl, by simp [step, hh]⟩
  | none =>
    rcases h with h | h
    · cases hp : s.pending with
      | nil => exact absurd hp h
      | cons e r =>
        obtain ⟨k, v⟩ := e
        exact ⟨.next k, rfl, by simp [step, hh, hp, AL.get]⟩
    · exact absurd hh h

/-- a downloader that holds a decompress token can move -/
theorem en_of_hasDc {s : St ι} (hi : Inv s) (h : 0 < dcHeld s) :
    ∃ x : Step ι, x.fair = true ∧ (step s x).isSome := by
  obtain ⟨k, v, hm, hv⟩ := AL.count_pos h
  have hg : getDl s k = some v := AL.mem_get_of_nodup hi.nodup hm
  cases hpc : v.pc with
  | decoding t bad => exact ⟨.decode k, rfl, en_decode hg hpc⟩
  | _ => simp [hpc, Pc.hasDc] at hv

/-- a downloader waiting for a decompress token is not stuck -/
theorem en_wantDc {s : St ι} (hi : Inv s) (h2 : 1 ≤ s.dcLimit) {d : ι} {x : Dl} {t : Nat} {bad : Bool}
    (hx : getDl s d = some x) (hpc : x.pc = .wantDc t bad) :
    ∃ x : Step ι, x.fair = true ∧ (step s x).isSome := by
  by_cases hf : 0 < s.dcFree
  · exact ⟨.acqDc d, rfl, en_acqDc hx hpc hf⟩
  · by_cases hc : s.pending ≠ [] ∨ s.holding ≠ none
    · exact en_consumer hc
    · have hp : s.pending = [] := by
        by_cases e : s.pending = []
        · exact e
        · exact absurd (Or.inl e) hc
      have hh : s.holding = none := by
        by_cases e : s.holding = none
        · exact e
        · exact absurd (Or.inr e) hc
      have := hi.tokDc
      rw [hp, hh] at this
      simp [held] at this
      exact en_of_hasDc hi (by omega)

/-- a downloader that holds a download token can move -/
theorem en_of_hasDl {s : St ι} (hi : Inv s) (h2 : 1 ≤ s.dcLimit) (h : 0 < dlHeld s) :
    ∃ x : Step ι, x.fair = true ∧ (step s x).isSome := by
  obtain ⟨k, v, hm, hv⟩ := AL.count_pos h
  have hg : getDl s k = some v := AL.mem_get_of_nodup hi.nodup hm
  cases hpc : v.pc with
  | decoding t bad => exact ⟨.decode k, rfl, en_decode hg hpc⟩
  | wantDc t bad => exact en_wantDc hi h2 hg hpc
  | loading t =>
    obtain ⟨r, hr, he⟩ := en_load hg hpc
    exact ⟨.load k r, by simp [Step.fair, hr], he⟩
  | _ => simp [hpc, Pc.hasDl] at hv

/-- Deadlock freedom: whenever a downloader is busy, a snapshot is pending or the consumer holds
    one, a fault-free step of a downloader or of the consumer is enabled. -/
theorem progress_enabled {s : St ι} (hi : Inv s) (h1 : 1 ≤ s.dlLimit) (h2 : 1 ≤ s.dcLimit)
    (hw : (∃ d x, getDl s d = some x ∧ x.busy = true) ∨ s.pending ≠ [] ∨ s.holding ≠ none) :
    ∃ x : Step ι, x.fair = true ∧ (step s x).isSome := by
  rcases hw with ⟨d, x, hx, hb⟩ | hc
  · cases hpc : x.pc with
    | idle =>
      have : x.signal = true := by simpa [Dl.busy, hpc] using hb
      exact ⟨.wake d, rfl, en_wake hx hpc this⟩
    | check => exact ⟨.check d, rfl, en_check hx hpc⟩
    | wantDl t =>
      by_cases hf : 0 < s.dlFree
      · exact ⟨.acqDl d, rfl, en_acqDl hx hpc hf⟩
      · have := hi.tokDl
        exact en_of_hasDl hi h2 (by omega)
    | loading t =>
      obtain ⟨r, hr, he⟩ := en_load hx hpc
      exact ⟨.load d r, by simp [Step.fair, hr], he⟩
    | wantDc t bad => exact en_wantDc hi h2 hx hpc
    | decoding t bad => exact ⟨.decode d, rfl, en_decode hx hpc⟩
    | backoff => exact ⟨.retry d, rfl, en_retry hx hpc⟩
  · exact en_consumer hc

/-! ### a measure that every fault-free step decreases -/

namespace AL
variable {κ : Type} [DecidableEq κ] {α : Type}

def sum (f : κ → α → Nat) : List (κ × α) → Nat
  | [] => 0
  | (k, v) :: r => f k v + sum f r

theorem sum_set_some (f : κ → α → Nat) {l : List (κ × α)} {k : κ} {v : α} (v' : α) (h : get l k = some v) :
    sum f (set l k v') + f k v = sum f l + f k v' := by
  induction l with
  | nil => simp at h
  | cons e r ih =>
    obtain ⟨k0, v0⟩ := e
    by_cases h0 : k0 = k
    · subst h0
      simp only [get, if_true, Option.some.injEq] at h; subst h
      simp only [set, if_true, sum]; omega
    · simp only [get, h0, if_false] at h
      have := ih h
      simp only [set, h0, if_false, sum]; omega

end AL

def rank : Pc → Nat
  | .idle => 0
  | .decoding .. => 3
  | .wantDc .. => 4
  | .loading _ => 5
  | .wantDl _ => 6
  | .check => 7
  | .backoff => 8

/-- 1 if the downloader works on a name that is not in the bucket -/
def staleB (bk : List (Blob ι)) (d : ι) (x : Dl) : Nat :=
  match x.pc.ts? with
  | some t => if (bk.find? (fun b => b.name = (d, t))).isSome then 0 else 1
  | none => 0

def wDl (bk : List (Blob ι)) (d : ι) (x : Dl) : Nat :=
  6 * staleB bk d x + (if x.signal then 9 else 0) + rank x.pc

/-- blobs whose name is not marked corrupt -/
def freshCount (bk : List (Blob ι)) (cor : List (ι × Nat)) : Nat := (bk.filter (fun b => b.name ∉ cor)).length

def mu (s : St ι) : Nat :=
  6 * freshCount s.bucket s.corrupt + AL.sum (wDl s.bucket) s.dls
    + 2 * s.pending.length + held s.holding

/-- every name in `lastSeen` is in the bucket (true after a listing until the bucket changes) -/
def SeenInBucket (s : St ι) : Prop := ∀ d t, AL.get s.lastSeen d = some t → (hasBlob s d t).isSome = true

theorem filter_length_le {α : Type} {p q : α → Bool} (hpq : ∀ x, q x = true → p x = true) (r : List α) :
    (r.filter q).length ≤ (r.filter p).length := by
  induction r with
  | nil => simp
  | cons a r ih =>
    simp only [List.filter_cons]
    by_cases h1 : q a = true
    · simp [h1, hpq a h1]; exact ih
    · by_cases h2 : p a = true <;> simp [h1, h2] <;> omega

theorem filter_length_lt {α : Type} {l : List α} {p q : α → Bool} {b : α} (hb : b ∈ l) (hp : p b = true)
    (hq : q b = false) (hpq : ∀ x, q x = true → p x = true) : (l.filter q).length < (l.filter p).length := by
  induction l with
  | nil => simp at hb
  | cons a r ih =>
    have hle := filter_length_le hpq
    rcases List.mem_cons.mp hb with e | hm
    · subst e
      simp only [List.filter_cons, hp, hq, if_true, List.length_cons]
      have := hle r
      simp; omega
    · have := ih hm
      simp only [List.filter_cons]
      by_cases h1 : q a = true
      · simp [h1, hpq a h1]; exact this
      · by_cases h2 : p a = true <;> simp [h1, h2] <;> omega

theorem mu_set {s : St ι} {d : ι} {x : Dl} (hx : getDl s d = some x) (x' : Dl) :
    AL.sum (wDl s.bucket) (AL.set s.dls d x') + wDl s.bucket d x = AL.sum (wDl s.bucket) s.dls + wDl s.bucket d x' :=
  AL.sum_set_some (wDl s.bucket) x' hx

theorem mu_decreases {s s' : St ι} {x : Step ι} (hk : InvK s) (hsb : SeenInBucket s) (hf : x.fair = true)
    (h : step s x = some s') : mu s' < mu s := by
  cases x with
  | runOnce inc ok => simp [Step.fair] at hf
  | put b => simp [Step.fair] at hf
  | rm d t => simp [Step.fair] at hf
  | wake d =>
    obtain ⟨x, hx, hpc, hs, rfl⟩ := step_wake h
    have := mu_set hx { x with signal := false, pc := .check }
    simp only [mu, setDl]
    simp [wDl, staleB, hpc, hs, rank, Pc.ts?] at this
    omega
  | check d =>
    obtain ⟨x, hx, hpc, hc⟩ := step_check h
    rcases hc with ⟨_, rfl⟩ | ⟨t, hs, _, rfl⟩
    · have := mu_set hx { x with pc := .idle }
      simp only [mu, setDl]
      simp [wDl, staleB, hpc, rank, Pc.ts?] at this
      omega
    · have := mu_set hx { x with pc := .wantDl t }
      have hb := hsb d t hs
      unfold hasBlob at hb
      simp only [mu, setDl]
      simp [wDl, staleB, hpc, rank, Pc.ts?, hb] at this
      omega
  | acqDl d =>
    obtain ⟨x, t, hx, hpc, _, rfl⟩ := step_acqDl h
    have := mu_set hx { x with pc := .loading t }
    simp only [mu, setDl]
    simp [wDl, staleB, hpc, rank, Pc.ts?] at this
    omega
  | load d r =>
    obtain ⟨x, t, hx, hpc, hc⟩ := step_load h
    rcases hc with ⟨_, b, hb, rfl⟩ | ⟨hr, rfl⟩
    · have := mu_set hx { x with pc := .wantDc t b.bad }
      simp only [mu, setDl]
      simp [wDl, staleB, hpc, rank, Pc.ts?] at this
      omega
    · rcases hr with hr | ⟨_, hb⟩
      · subst hr; simp [Step.fair] at hf
      · have := mu_set hx { x with pc := .backoff }
        unfold hasBlob at hb
        simp only [mu, setDl]
        simp [wDl, staleB, hpc, rank, Pc.ts?, hb] at this
        omega
  | acqDc d =>
    obtain ⟨x, t, bad, hx, hpc, _, rfl⟩ := step_acqDc h
    have := mu_set hx { x with pc := .decoding t bad }
    simp only [mu, setDl]
    simp [wDl, staleB, hpc, rank, Pc.ts?] at this
    omega
  | decode d =>
    obtain ⟨x, t, bad, hx, hpc, hc⟩ := step_decode h
    rcases hc with ⟨_, rfl⟩ | ⟨_, rfl⟩
    · have := mu_set hx { x with last := some t, pc := .backoff }
      have hnc : (d, t) ∉ s.corrupt := fun hc => hk.k3 d t x hc hx (by rw [hpc]; rfl)
      have hle : freshCount s.bucket (insertName s.corrupt (d, t)) ≤ freshCount s.bucket s.corrupt := by
        apply filter_length_le
        intro b hb
        simp only [decide_eq_true_eq] at hb ⊢
        exact fun hm => hb (mem_insertName.mpr (Or.inl hm))
      simp only [mu, setDl]
      cases hb : s.bucket.find? (fun b => b.name = (d, t)) with
      | none =>
        simp [wDl, staleB, hpc, rank, Pc.ts?, hb] at this
        omega
      | some b =>
        have hbm : b ∈ s.bucket := List.mem_of_find?_eq_some hb
        have hbn : b.name = (d, t) := by simpa using List.find?_some hb
        have hlt : freshCount s.bucket (insertName s.corrupt (d, t)) < freshCount s.bucket s.corrupt := by
          apply filter_length_lt hbm
          · simp [hbn, hnc]
          · simp [hbn, mem_insertName]
          · intro y hy
            simp only [decide_eq_true_eq] at hy ⊢
            exact fun hm => hy (mem_insertName.mpr (Or.inl hm))
        simp [wDl, staleB, hpc, rank, Pc.ts?, hb] at this
        omega
    · have := mu_set hx { x with last := some t, pc := .idle }
      have hl := AL.length_set s.pending d t
      simp only [mu, setDl]
      simp [wDl, staleB, hpc, rank, Pc.ts?] at this
      split at hl <;> omega
  | retry d =>
    obtain ⟨x, hx, hpc, rfl⟩ := step_retry h
    have := mu_set hx { x with pc := .check }
    simp only [mu, setDl]
    simp [wDl, staleB, hpc, rank, Pc.ts?] at this
    omega
  | next d =>
    obtain ⟨hh, t, hp, rfl⟩ := step_next h
    have hl := AL.length_erase hp
    simp only [mu]
    rw [hh]
    simp only [held]
    omega
  | close =>
    obtain ⟨n, hh, rfl⟩ := step_close h
    simp only [mu]
    rw [hh]
    simp only [held]
    omega

/-! ### to rest -/

/-- nothing is in flight: every downloader is parked with an empty signal channel, nothing is
    pending, the consumer holds nothing -/
def AtRest (s : St ι) : Prop :=
  (∀ d x, getDl s d = some x → x.busy = false) ∧ s.pending = [] ∧ s.holding = none

/-- a fair step changes neither the bucket nor what the listing produced -/
theorem fair_frame {s s' : St ι} {x : Step ι} (hf : x.fair = true) (h : step s x = some s') :
    s'.bucket = s.bucket ∧ s'.lastSeen = s.lastSeen ∧ s'.ignored = s.ignored ∧
    s'.lastNotified = s.lastNotified ∧ s'.own = s.own ∧ s'.dlLimit = s.dlLimit ∧ s'.dcLimit = s.dcLimit ∧
    s'.hist = s.hist := by
  cases x with
  | runOnce inc ok => simp [Step.fair] at hf
  | put b => simp [Step.fair] at hf
  | rm d t => simp [Step.fair] at hf
  | wake d => obtain ⟨x, _, _, _, rfl⟩ := step_wake h; simp [setDl]
  | check d =>
    obtain ⟨x, _, _, hc⟩ := step_check h
    rcases hc with ⟨_, rfl⟩ | ⟨t, _, _, rfl⟩ <;> simp [setDl]
  | acqDl d => obtain ⟨x, t, _, _, _, rfl⟩ := step_acqDl h; simp [setDl]
  | load d r =>
    obtain ⟨x, t, _, _, hc⟩ := step_load h
    rcases hc with ⟨_, b, _, rfl⟩ | ⟨_, rfl⟩ <;> simp [setDl]
  | acqDc d => obtain ⟨x, t, bad, _, _, _, rfl⟩ := step_acqDc h; simp [setDl]
  | decode d =>
    obtain ⟨x, t, bad, _, _, hc⟩ := step_decode h
    rcases hc with ⟨_, rfl⟩ | ⟨_, rfl⟩ <;> simp [setDl]
  | retry d => obtain ⟨x, _, _, rfl⟩ := step_retry h; simp [setDl]
  | next d => obtain ⟨_, t, _, rfl⟩ := step_next h; simp
  | close => obtain ⟨n, _, rfl⟩ := step_close h; simp

theorem seenInBucket_fair {s s' : St ι} {x : Step ι} (hsb : SeenInBucket s) (hf : x.fair = true)
    (h : step s x = some s') : SeenInBucket s' := by
  obtain ⟨hb, hs, _⟩ := fair_frame hf h
  intro d t ht
  rw [hs] at ht
  have := hsb d t ht
  unfold hasBlob at this ⊢
  rw [hb]; exact this

theorem seenInBucket_runOnce (inc : Bool) (s : St ι) : SeenInBucket (runOnce inc s) := by
  intro d t ht
  rw [runOnce_frame] at ht
  simp only at ht
  obtain ⟨⟨b, hb, hbn⟩, _⟩ := seenOf_some.mp ht
  unfold hasBlob
  rw [runOnce_frame]
  simp only
  cases hf : s.bucket.find? (fun b => b.name = (d, t)) with
  | some _ => rfl
  | none =>
    have := List.find?_eq_none.mp hf b hb
    simp [hbn] at this

/-- From a state whose `lastSeen` names are all in the bucket, some finite sequence of fault-free
    downloader and consumer steps leads to a state at rest. -/
theorem reach_rest : ∀ (n : Nat) (s : St ι), mu s ≤ n → Inv s → InvK s → SeenInBucket s →
    1 ≤ s.dlLimit → 1 ≤ s.dcLimit →
    ∃ steps s', (∀ x ∈ steps, x.fair = true) ∧ run s steps = some s' ∧ AtRest s' := by
  intro n
  induction n with
  | zero =>
    intro s hn hi hk hsb h1 h2
    by_cases hw : (∃ d x, getDl s d = some x ∧ x.busy = true) ∨ s.pending ≠ [] ∨ s.holding ≠ none
    · obtain ⟨x, hf, he⟩ := progress_enabled hi h1 h2 hw
      obtain ⟨s1, hs1⟩ := Option.isSome_iff_exists.mp he
      have := mu_decreases hk hsb hf hs1
      omega
    · refine ⟨[], s, by simp, rfl, ?_⟩
      refine ⟨?_, ?_, ?_⟩
      · intro d x hx
        cases hb : x.busy with
        | false => rfl
        | true => exact absurd (Or.inl ⟨d, x, hx, hb⟩) hw
      · by_cases e : s.pending = []
        · exact e
        · exact absurd (Or.inr (Or.inl e)) hw
      · by_cases e : s.holding = none
        · exact e
        · exact absurd (Or.inr (Or.inr e)) hw
  | succ n ih =>
    intro s hn hi hk hsb h1 h2
    by_cases hw : (∃ d x, getDl s d = some x ∧ x.busy = true) ∨ s.pending ≠ [] ∨ s.holding ≠ none
    · obtain ⟨x, hf, he⟩ := progress_enabled hi h1 h2 hw
      obtain ⟨s1, hs1⟩ := Option.isSome_iff_exists.mp he
      have hlt := mu_decreases hk hsb hf hs1
      obtain ⟨_, _, _, _, _, hl1, hl2, _⟩ := fair_frame hf hs1
      obtain ⟨steps, s', hfs, hr, hrest⟩ := ih s1 (by omega) (inv_step hi hs1) (invK_step hk hs1)
        (seenInBucket_fair hsb hf hs1) (by rw [hl1]; exact h1) (by rw [hl2]; exact h2)
      refine ⟨x :: steps, s', ?_, ?_, hrest⟩
      · intro y hy
        rcases List.mem_cons.mp hy with e | hm
        · subst e; exact hf
        · exact hfs y hm
      · simp only [run, hs1]; exact hr
    · refine ⟨[], s, by simp, rfl, ?_⟩
      refine ⟨?_, ?_, ?_⟩
      · intro d x hx
        cases hb : x.busy with
        | false => rfl
        | true => exact absurd (Or.inl ⟨d, x, hx, hb⟩) hw
      · by_cases e : s.pending = []
        · exact e
        · exact absurd (Or.inr (Or.inl e)) hw
      · by_cases e : s.holding = none
        · exact e
        · exact absurd (Or.inr (Or.inr e)) hw

end Ls.Recv
