import LsLemmas.CivilTableDefs
/- civil-date table, rows 32000 … 39999 (kernel evaluation; see CivilTableDefs) -/
namespace Ls.Civil

theorem chunk04 : chunkOK 32000 8000 = true := by decide +kernel

end Ls.Civil
